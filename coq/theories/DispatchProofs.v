(** DispatchProofs.v -- invariants, deadlock freedom, progress measure, final state and rounds for
    the dispatcher model of Dispatch.v.  Everything is proved for an arbitrary number of jobs, ranks,
    rounds and for every interleaving (induction over event lists); nothing here is bounded. *)
Require Import List Arith Bool PeanoNat Lia.
From PV Require Import Dispatch.
Import ListNotations.

Arguments upd : simpl never.

(** * Basics *)

Lemma upd_same : forall A (f : nat -> A) k v, upd f k v k = v.
Proof. intros A f k v. unfold upd. rewrite Nat.eqb_refl. reflexivity. Qed.

Lemma upd_other : forall A (f : nat -> A) k v x, x <> k -> upd f k v x = f x.
Proof. intros A f k v x H. unfold upd. destruct (Nat.eqb_spec x k) as [E|E]; [contradiction|reflexivity]. Qed.

Definition memb (w : nat) (l : list nat) : bool := existsb (Nat.eqb w) l.

Lemma memb_In : forall w l, memb w l = true <-> In w l.
Proof.
  intros w l. unfold memb. rewrite existsb_exists. split.
  - intros [x [Hx He]]. apply Nat.eqb_eq in He. subst. exact Hx.
  - intros H. exists w. split; [exact H|apply Nat.eqb_refl].
Qed.

Lemma memb_false : forall w l, memb w l = false <-> ~ In w l.
Proof.
  intros w l. rewrite <- memb_In. destruct (memb w l); split; intros H; congruence.
Qed.

Lemma memb_cons_other : forall w x l, w <> x -> memb w (x :: l) = memb w l.
Proof. intros w x l H. unfold memb. simpl. destruct (Nat.eqb_spec w x); [contradiction|reflexivity]. Qed.

Lemma memb_cons_same : forall w l, memb w (w :: l) = true.
Proof. intros. unfold memb. simpl. rewrite Nat.eqb_refl. reflexivity. Qed.

(** counting *)
Lemma cnt_app : forall j a b, cnt j (a ++ b) = cnt j a + cnt j b.
Proof. intros j a b. induction a as [|x a IH]; simpl; [reflexivity|rewrite IH; lia]. Qed.

Lemma cnt_pos_In : forall j l, 0 < cnt j l <-> In j l.
Proof.
  intros j l. induction l as [|x l IH]; simpl.
  - split; [lia|tauto].
  - destruct (Nat.eqb_spec x j) as [E|E].
    + split; [intros _; left; exact E|lia].
    + rewrite <- IH. split; [intros H; right; lia|intros [H|H]; [contradiction|lia]].
Qed.

Lemma cnt_zero_notIn : forall j l, cnt j l = 0 <-> ~ In j l.
Proof. intros j l. rewrite <- cnt_pos_In. lia. Qed.

Lemma cnt_NoDup : forall j l, NoDup l -> cnt j l <= 1.
Proof.
  intros j l H. induction H as [|x l Hx Hl IH]; simpl; [lia|].
  destruct (Nat.eqb_spec x j) as [E|E]; [|lia].
  subst. apply cnt_zero_notIn in Hx. lia.
Qed.

Lemma cnt_NoDup_In : forall j l, NoDup l -> In j l -> cnt j l = 1.
Proof.
  intros j l Hn Hi. pose proof (cnt_NoDup j l Hn). apply cnt_pos_In in Hi. lia.
Qed.

Lemma NoDup_of_cnt : forall l, (forall j, cnt j l <= 1) -> NoDup l.
Proof.
  induction l as [|x l IH]; intros H; constructor.
  - intros Hi. apply cnt_pos_In in Hi. specialize (H x). simpl in H. rewrite Nat.eqb_refl in H. lia.
  - apply IH. intros j. specialize (H j). simpl in H. lia.
Qed.

(** sums over a list of ranks *)
Fixpoint sumf (f : nat -> nat) (l : list nat) : nat :=
  match l with [] => 0 | x :: l' => f x + sumf f l' end.

Lemma sumf_ext : forall f g l, (forall x, In x l -> g x = f x) -> sumf g l = sumf f l.
Proof.
  intros f g l. induction l as [|x l IH]; intros H; simpl; [reflexivity|].
  rewrite H by (left; reflexivity). rewrite IH; [reflexivity|]. intros y Hy. apply H. right. exact Hy.
Qed.

Lemma sumf_change : forall f g l w, NoDup l -> In w l ->
  (forall x, In x l -> x <> w -> g x = f x) -> sumf g l + f w = sumf f l + g w.
Proof.
  intros f g l w Hn. induction Hn as [|x l Hx Hl IH]; intros Hi H; simpl; [destruct Hi|].
  destruct Hi as [E|Hi].
  - subst x. rewrite (sumf_ext f g l); [lia|].
    intros y Hy. apply H; [right; exact Hy|]. intros E. subst. contradiction.
  - assert (x <> w) by (intros E; subst; contradiction).
    rewrite (H x) by (auto; left; reflexivity).
    specialize (IH Hi). rewrite <- Nat.add_assoc. rewrite IH; [lia|].
    intros y Hy Hne. apply H; [right; exact Hy|exact Hne].
Qed.

Lemma sumf_zero : forall f l, (forall x, In x l -> f x = 0) -> sumf f l = 0.
Proof.
  intros f l. induction l as [|x l IH]; intros H; simpl; [reflexivity|].
  rewrite H by (left; reflexivity). rewrite IH; [reflexivity|]. intros y Hy. apply H. right. exact Hy.
Qed.

Lemma sumf_zero_inv : forall f l x, sumf f l = 0 -> In x l -> f x = 0.
Proof.
  intros f l x. induction l as [|y l IH]; simpl; intros H Hi; [destruct Hi|].
  destruct Hi as [E|Hi]; [subst; lia|apply IH; [lia|exact Hi]].
Qed.

(** the worker pool *)
Lemma pool_NoDup : forall c, NoDup (pool c).
Proof. intros c. unfold pool. destruct (ib c); apply seq_NoDup. Qed.

Lemma ranks_NoDup : forall c, NoDup (ranks c).
Proof. intros c. apply seq_NoDup. Qed.

Lemma in_ranks : forall c r, In r (ranks c) <-> r < np c.
Proof. intros c r. unfold ranks. rewrite in_seq. lia. Qed.

Lemma in_pool : forall c w, In w (pool c) <-> is_worker c w = true.
Proof.
  intros c w. unfold pool, is_worker. destruct (ib c); rewrite in_seq; simpl.
  - rewrite andb_true_r. rewrite Nat.ltb_lt. lia.
  - rewrite andb_true_iff, Nat.ltb_lt, negb_true_iff, Nat.eqb_neq. lia.
Qed.

Lemma pool_lt : forall c w, In w (pool c) -> w < np c.
Proof. intros c w H. apply in_pool in H. unfold is_worker in H. apply andb_true_iff in H. destruct H as [H _]. apply Nat.ltb_lt. exact H. Qed.

Lemma not_pool : forall c r, r < np c -> ~ In r (pool c) -> r = 0 /\ ib c = false.
Proof.
  intros c r Hr Hn. rewrite in_pool in Hn. unfold is_worker in Hn.
  apply Nat.ltb_lt in Hr. rewrite Hr in Hn. simpl in Hn.
  destruct (ib c); simpl in Hn; [congruence|].
  destruct (Nat.eqb_spec r 0); simpl in Hn; [tauto|congruence].
Qed.

Lemma is_worker_false_pool : forall c r, is_worker c r = false -> ~ In r (pool c).
Proof. intros c r H Hi. apply in_pool in Hi. congruence. Qed.

Lemma valid_pool_nonempty : forall c, valid_cfg c = true -> exists w, In w (pool c).
Proof.
  intros c H. unfold valid_cfg, nprocs in H. destruct (pool c) as [|w l]; simpl in H; [discriminate|].
  exists w. left. reflexivity.
Qed.

Lemma valid_np_pos : forall c, valid_cfg c = true -> 0 < np c.
Proof. intros c H. destruct (valid_pool_nonempty c H) as [w Hw]. apply pool_lt in Hw. lia. Qed.

(** * The invariant *)

(** The protocol state of the link between the master and one worker of the pool:
      (on WorkerStack?, completion receive active?, Finish sent?, link contents, worker status,
       posting order, rank left the loop?)                                                       *)
Inductive link_shape : bool -> bool -> bool -> list msg -> wstat -> bool -> bool -> Prop :=
| LIdle     : forall po,    link_shape true  false false []          Pending  po    false
| LSent     : forall j,     link_shape false true  false [MWork j]   Pending  false false
| LWork     : forall j,     link_shape false true  false []          (Work j) true  false
| LDone     :               link_shape false true  false [MPend]     Pending  true  false
| LFinSent  : forall po,    link_shape true  false true  [MFinish]   Pending  po    false
| LFinished : forall po ex, link_shape true  false true  []          Finish   po    ex.

Definition link_ok (s : sys) (w : wid) : Prop :=
  link_shape (memb w (wstack s)) (outst s w) (wfin s w) (chan s w) (wst s w) (pend_older s w) (exited s w).

Definition msg_jobs (m : msg) : list job := match m with MWork j => [j] | _ => [] end.
Definition st_jobs (st : wstat) : list job := match st with Work j => [j] | _ => [] end.

(** jobs in flight to, or running on, worker w *)
Definition active (s : sys) (w : wid) : list job := st_jobs (wst s w) ++ flat_map msg_jobs (chan s w).

Definition on_stack (j : job) (s : sys) : nat := cnt j (jobstack s).
Definition in_flight (c : cfg) (j : job) (s : sys) : nat := sumf (fun w => cnt j (active s w)) (pool c).
Definition executed (j : job) (s : sys) : nat := cnt j (map fst (log s)).

Record Inv (c : cfg) (s : sys) : Prop := mkInv {
  inv_links : forall w, In w (pool c) -> link_ok s w;
  inv_ws_nodup : NoDup (wstack s);
  inv_ws_pool : forall w, In w (wstack s) -> In w (pool c);
  inv_jobs_nodup : NoDup (alljobs s);
  inv_cons : forall j, on_stack j s + in_flight c j s + executed j s = cnt j (alljobs s);
  inv_dmap_active : forall w j, In w (pool c) -> In j (active s w) -> dmap s j = Some w;
  inv_dmap_log : forall j w, In (j, w) (log s) -> dmap s j = Some w /\ In w (pool c);
  inv_dmap_dom : forall j w, dmap s j = Some w -> In j (alljobs s);
  inv_fin : (forall w, In w (pool c) -> wfin s w = false) \/
            ((forall w, In w (pool c) -> wfin s w = true) /\ jobstack s = []);
  inv_outside : forall w, ~ In w (pool c) -> chan s w = [];
  inv_exit_root : exited s 0 = true -> forall w, In w (pool c) -> wfin s w = true;
  inv_err : err s = false
}.

(** initial states, pointwise (no functional extensionality needed) *)
Definition is_init (c : cfg) (js : list job) (s : sys) : Prop :=
  jobstack s = js /\ wstack s = pool c /\ (forall w, outst s w = false) /\ (forall w, wfin s w = false) /\
  (forall j, dmap s j = None) /\ alljobs s = js /\ (forall w, wst s w = Pending) /\
  (forall w, chan s w = []) /\ (forall w, exited s w = false) /\ log s = [] /\ err s = false.

Lemma init_is_init : forall c js, is_init c js (init c js).
Proof. intros c js. unfold is_init, init, fresh; simpl. repeat split; reflexivity. Qed.

Lemma inv_of_init : forall c js s, NoDup js -> is_init c js s -> Inv c s.
Proof.
  intros c js s Hn (Hj & Hw & Ho & Hf & Hd & Ha & Hs & Hc & He & Hl & Her).
  constructor.
  - intros w Hi. unfold link_ok. rewrite Hw, Ho, Hf, Hc, Hs, He.
    assert (M : memb w (pool c) = true) by (apply memb_In; exact Hi). rewrite M. constructor.
  - rewrite Hw. apply pool_NoDup.
  - rewrite Hw. auto.
  - rewrite Ha. exact Hn.
  - intros j. unfold on_stack, in_flight, executed. rewrite Hj, Ha, Hl. simpl.
    rewrite sumf_zero; [lia|]. intros w _. unfold active. rewrite Hs, Hc. reflexivity.
  - intros w j _ Hi. unfold active in Hi. rewrite Hs, Hc in Hi. destruct Hi.
  - intros j w Hi. rewrite Hl in Hi. destruct Hi.
  - intros j w Hi. rewrite Hd in Hi. discriminate.
  - left. intros w _. apply Hf.
  - intros w _. apply Hc.
  - intros Hx. rewrite He in Hx. discriminate.
  - exact Her.
Qed.

(** * Helper lemmas for preservation *)

Lemma link_frame : forall s s' w,
  memb w (wstack s') = memb w (wstack s) -> outst s' w = outst s w -> wfin s' w = wfin s w ->
  chan s' w = chan s w -> wst s' w = wst s w -> pend_older s' w = pend_older s w ->
  exited s' w = exited s w -> link_ok s w -> link_ok s' w.
Proof. intros s s' w H1 H2 H3 H4 H5 H6 H7 H. unfold link_ok in *. rewrite H1, H2, H3, H4, H5, H6, H7. exact H. Qed.

Lemma active_frame : forall s s' w, wst s' w = wst s w -> chan s' w = chan s w -> active s' w = active s w.
Proof. intros s s' w H1 H2. unfold active. rewrite H1, H2. reflexivity. Qed.

Lemma in_flight_change : forall c s s' w j, In w (pool c) ->
  (forall x, In x (pool c) -> x <> w -> active s' x = active s x) ->
  in_flight c j s' + cnt j (active s w) = in_flight c j s + cnt j (active s' w).
Proof.
  intros c s s' w j Hi H. unfold in_flight.
  apply (sumf_change (fun x => cnt j (active s x)) (fun x => cnt j (active s' x)) (pool c) w (pool_NoDup c) Hi).
  intros x Hx Hne. rewrite H by assumption. reflexivity.
Qed.

Lemma in_flight_same : forall c s s' j,
  (forall x, In x (pool c) -> active s' x = active s x) -> in_flight c j s' = in_flight c j s.
Proof. intros c s s' j H. unfold in_flight. apply sumf_ext. intros x Hx. rewrite H by assumption. reflexivity. Qed.

Lemma sumf_ge : forall f l w, In w l -> f w <= sumf f l.
Proof.
  intros f l w. induction l as [|x l IH]; simpl; intros H; [destruct H|].
  destruct H as [E|H]; [subst; lia|specialize (IH H); lia].
Qed.

Lemma active_in_flight : forall c s w j, In w (pool c) -> In j (active s w) -> 1 <= in_flight c j s.
Proof.
  intros c s w j Hw Hj. unfold in_flight. apply cnt_pos_In in Hj.
  pose proof (sumf_ge (fun x => cnt j (active s x)) (pool c) w Hw) as H. simpl in H. lia.
Qed.

Lemma log_executed : forall s j w, In (j, w) (log s) -> 1 <= executed j s.
Proof.
  intros s j w H. unfold executed. apply (in_map fst) in H. simpl in H. apply cnt_pos_In in H. lia.
Qed.

Lemma stack_on_stack : forall s j, In j (jobstack s) -> 1 <= on_stack j s.
Proof. intros s j H. unfold on_stack. apply cnt_pos_In in H. lia. Qed.

Lemma cons_le1 : forall c s j, Inv c s -> on_stack j s + in_flight c j s + executed j s <= 1.
Proof. intros c s j I. rewrite (inv_cons c s I). apply cnt_NoDup. apply (inv_jobs_nodup c s I). Qed.

Ltac upds :=
  repeat first [ rewrite upd_same | rewrite upd_other by congruence ].

(** a worker on the stack while jobs remain is idle *)
Lemma stack_worker_idle : forall c s w, Inv c s -> In w (wstack s) -> wfin s w = false ->
  outst s w = false /\ chan s w = [] /\ wst s w = Pending /\ exited s w = false.
Proof.
  intros c s w I Hi Hf. pose proof (inv_links c s I w (inv_ws_pool c s I w Hi)) as L.
  unfold link_ok in L. apply memb_In in Hi. rewrite Hi, Hf in L. inversion L; subst. repeat split; congruence.
Qed.

(** * Preservation: order() *)

Lemma inv_order_one : forall c s j0 js w0 ws, Inv c s -> jobstack s = j0 :: js -> wstack s = w0 :: ws ->
  Inv c (order_worker w0 j0 (set_stacks js ws s)).
Proof.
  intros c s j0 js w0 ws I Hj Hw.
  assert (Hw0 : In w0 (wstack s)) by (rewrite Hw; left; reflexivity).
  assert (Hp0 : In w0 (pool c)) by (apply (inv_ws_pool c s I); exact Hw0).
  assert (Hnf : forall w, In w (pool c) -> wfin s w = false).
  { destruct (inv_fin c s I) as [H|[_ H]]; [exact H|rewrite Hj in H; discriminate]. }
  destruct (stack_worker_idle c s w0 I Hw0 (Hnf w0 Hp0)) as (Ho & Hc & Hs & He).
  pose proof (inv_ws_nodup c s I) as Hnd. rewrite Hw in Hnd. inversion Hnd as [|x l Hnot Hnd']; subst x l.
  assert (Hon : 1 <= on_stack j0 s) by (apply stack_on_stack; rewrite Hj; left; reflexivity).
  assert (Act0 : active (order_worker w0 j0 (set_stacks js ws s)) w0 = [j0]).
  { unfold active; simpl. upds. rewrite Hs, Hc. reflexivity. }
  assert (Act : forall x, x <> w0 -> active (order_worker w0 j0 (set_stacks js ws s)) x = active s x).
  { intros x Hx. apply active_frame; simpl; upds; reflexivity. }
  assert (Act0s : active s w0 = []).
  { unfold active. rewrite Hs, Hc. reflexivity. }
  constructor; simpl.
  - intros w Hi. destruct (Nat.eq_dec w w0) as [E|E].
    + subst w. unfold link_ok; simpl. upds. rewrite Hc, Hs, He, (Hnf w0 Hp0).
      apply memb_false in Hnot. rewrite Hnot. simpl. constructor.
    + apply (link_frame s); simpl; upds; try reflexivity.
      * rewrite Hw. symmetry. apply memb_cons_other. exact E.
      * apply (inv_links c s I). exact Hi.
  - exact Hnd'.
  - intros w Hi. apply (inv_ws_pool c s I). rewrite Hw. right. exact Hi.
  - apply (inv_jobs_nodup c s I).
  - intros j. pose proof (inv_cons c s I j) as C.
    pose proof (in_flight_change c s (order_worker w0 j0 (set_stacks js ws s)) w0 j Hp0) as F.
    rewrite Act0, Act0s in F. simpl in F.
    unfold on_stack in *. simpl. rewrite Hj in C. simpl in C.
    unfold executed in *. simpl.
    rewrite <- C. specialize (F (fun x _ Hx => Act x Hx)). lia.
  - intros w j Hi Ha. destruct (Nat.eq_dec w w0) as [E|E].
    + subst w. rewrite Act0 in Ha. destruct Ha as [Ha|[]]. subst j. upds. reflexivity.
    + rewrite Act in Ha by exact E.
      assert (j <> j0).
      { intros Ej. subst j. pose proof (active_in_flight c s w j0 Hi Ha). pose proof (cons_le1 c s j0 I). lia. }
      upds. apply (inv_dmap_active c s I); assumption.
  - intros j w Hi.
    assert (j <> j0).
    { intros Ej. subst j. pose proof (log_executed s j0 w Hi). pose proof (cons_le1 c s j0 I). lia. }
    upds. apply (inv_dmap_log c s I). exact Hi.
  - intros j w. destruct (Nat.eq_dec j j0) as [E|E].
    + subst j. intros _. apply cnt_pos_In. rewrite <- (inv_cons c s I). lia.
    + upds. apply (inv_dmap_dom c s I).
  - left. exact Hnf.
  - intros w Hn. assert (w <> w0) by (intros E; subst; contradiction). upds. apply (inv_outside c s I). exact Hn.
  - apply (inv_exit_root c s I).
  - rewrite (inv_err c s I), Ho. reflexivity.
Qed.
