(** DispatchProofs.v -- invariants, deadlock freedom, progress measure, final state and rounds for
    the dispatcher model of Dispatch.v.  Everything is proved for an arbitrary number of jobs, ranks,
    rounds and for every interleaving (induction over event lists); nothing here is bounded. *)
Require Import List Arith Bool PeanoNat Lia.
From PV Require Import Dispatch.
Import ListNotations.

Arguments upd : simpl never.

(** * Basics *)

Lemma upd_same : forall A (f : nat -> A) k v, upd f k v k = v.
Proof. intros A f k v. unfold upd. rewrite Nat.eqb_refl. reflexivity. Qed.

Lemma upd_other : forall A (f : nat -> A) k v x, x <> k -> upd f k v x = f x.
Proof. intros A f k v x H. unfold upd. destruct (Nat.eqb_spec x k) as [E|E]; [contradiction|reflexivity]. Qed.

Definition memb (w : nat) (l : list nat) : bool := existsb (Nat.eqb w) l.

Arguments memb : simpl never.

Lemma memb_In : forall w l, memb w l = true <-> In w l.
Proof.
  intros w l. unfold memb. rewrite existsb_exists. split.
  - intros [x [Hx He]]. apply Nat.eqb_eq in He. subst. exact Hx.
  - intros H. exists w. split; [exact H|apply Nat.eqb_refl].
Qed.

Lemma memb_false : forall w l, memb w l = false <-> ~ In w l.
Proof.
  intros w l. rewrite <- memb_In. destruct (memb w l); split; intros H; congruence.
Qed.

Lemma memb_cons_other : forall w x l, w <> x -> memb w (x :: l) = memb w l.
Proof. intros w x l H. unfold memb. simpl. destruct (Nat.eqb_spec w x); [contradiction|reflexivity]. Qed.

Lemma memb_cons_same : forall w l, memb w (w :: l) = true.
Proof. intros. unfold memb. simpl. rewrite Nat.eqb_refl. reflexivity. Qed.

(** counting *)
Lemma cnt_app : forall j a b, cnt j (a ++ b) = cnt j a + cnt j b.
Proof. intros j a b. induction a as [|x a IH]; simpl; [reflexivity|rewrite IH; lia]. Qed.

Lemma cnt_pos_In : forall j l, 0 < cnt j l <-> In j l.
Proof.
  intros j l. induction l as [|x l IH]; simpl.
  - split; [lia|tauto].
  - destruct (Nat.eqb_spec x j) as [E|E].
    + split; [intros _; left; exact E|lia].
    + rewrite <- IH. split; [intros H; right; lia|intros [H|H]; [contradiction|lia]].
Qed.

Lemma cnt_zero_notIn : forall j l, cnt j l = 0 <-> ~ In j l.
Proof. intros j l. rewrite <- cnt_pos_In. lia. Qed.

Lemma cnt_NoDup : forall j l, NoDup l -> cnt j l <= 1.
Proof.
  intros j l H. induction H as [|x l Hx Hl IH]; simpl; [lia|].
  destruct (Nat.eqb_spec x j) as [E|E]; [|lia].
  subst. apply cnt_zero_notIn in Hx. lia.
Qed.

Lemma cnt_NoDup_In : forall j l, NoDup l -> In j l -> cnt j l = 1.
Proof.
  intros j l Hn Hi. pose proof (cnt_NoDup j l Hn). apply cnt_pos_In in Hi. lia.
Qed.

Lemma NoDup_of_cnt : forall l, (forall j, cnt j l <= 1) -> NoDup l.
Proof.
  induction l as [|x l IH]; intros H; constructor.
  - intros Hi. apply cnt_pos_In in Hi. specialize (H x). simpl in H. rewrite Nat.eqb_refl in H. lia.
  - apply IH. intros j. specialize (H j). simpl in H. lia.
Qed.

(** sums over a list of ranks *)
Fixpoint sumf (f : nat -> nat) (l : list nat) : nat :=
  match l with [] => 0 | x :: l' => f x + sumf f l' end.

Lemma sumf_ext : forall f g l, (forall x, In x l -> g x = f x) -> sumf g l = sumf f l.
Proof.
  intros f g l. induction l as [|x l IH]; intros H; simpl; [reflexivity|].
  rewrite H by (left; reflexivity). rewrite IH; [reflexivity|]. intros y Hy. apply H. right. exact Hy.
Qed.

Lemma sumf_change : forall f g l w, NoDup l -> In w l ->
  (forall x, In x l -> x <> w -> g x = f x) -> sumf g l + f w = sumf f l + g w.
Proof.
  intros f g l w Hn. induction Hn as [|x l Hx Hl IH]; intros Hi H; simpl; [destruct Hi|].
  destruct Hi as [E|Hi].
  - subst x. rewrite (sumf_ext f g l); [lia|].
    intros y Hy. apply H; [right; exact Hy|]. intros E. subst. contradiction.
  - assert (x <> w) by (intros E; subst; contradiction).
    rewrite (H x) by (auto; left; reflexivity).
    specialize (IH Hi). rewrite <- Nat.add_assoc. rewrite IH; [lia|].
    intros y Hy Hne. apply H; [right; exact Hy|exact Hne].
Qed.

Lemma sumf_zero : forall f l, (forall x, In x l -> f x = 0) -> sumf f l = 0.
Proof.
  intros f l. induction l as [|x l IH]; intros H; simpl; [reflexivity|].
  rewrite H by (left; reflexivity). rewrite IH; [reflexivity|]. intros y Hy. apply H. right. exact Hy.
Qed.

Lemma sumf_zero_inv : forall f l x, sumf f l = 0 -> In x l -> f x = 0.
Proof.
  intros f l x. induction l as [|y l IH]; simpl; intros H Hi; [destruct Hi|].
  destruct Hi as [E|Hi]; [subst; lia|apply IH; [lia|exact Hi]].
Qed.

(** the worker pool *)
Lemma pool_NoDup : forall c, NoDup (pool c).
Proof. intros c. unfold pool. destruct (ib c); apply seq_NoDup. Qed.

Lemma ranks_NoDup : forall c, NoDup (ranks c).
Proof. intros c. apply seq_NoDup. Qed.

Lemma in_ranks : forall c r, In r (ranks c) <-> r < np c.
Proof. intros c r. unfold ranks. rewrite in_seq. lia. Qed.

Lemma in_pool : forall c w, In w (pool c) <-> is_worker c w = true.
Proof.
  intros c w. unfold pool, is_worker. destruct (ib c); rewrite in_seq; simpl.
  - rewrite andb_true_r. rewrite Nat.ltb_lt. lia.
  - rewrite andb_true_iff, Nat.ltb_lt, negb_true_iff, Nat.eqb_neq. lia.
Qed.

Lemma pool_lt : forall c w, In w (pool c) -> w < np c.
Proof. intros c w H. apply in_pool in H. unfold is_worker in H. apply andb_true_iff in H. destruct H as [H _]. apply Nat.ltb_lt. exact H. Qed.

Lemma not_pool : forall c r, r < np c -> ~ In r (pool c) -> r = 0 /\ ib c = false.
Proof.
  intros c r Hr Hn. rewrite in_pool in Hn. unfold is_worker in Hn.
  apply Nat.ltb_lt in Hr. rewrite Hr in Hn. simpl in Hn.
  destruct (ib c); simpl in Hn; [congruence|].
  destruct (Nat.eqb_spec r 0); simpl in Hn; [tauto|congruence].
Qed.

Lemma is_worker_false_pool : forall c r, is_worker c r = false -> ~ In r (pool c).
Proof. intros c r H Hi. apply in_pool in Hi. congruence. Qed.

Lemma valid_pool_nonempty : forall c, valid_cfg c = true -> exists w, In w (pool c).
Proof.
  intros c H. unfold valid_cfg, nprocs in H. destruct (pool c) as [|w l]; simpl in H; [discriminate|].
  exists w. left. reflexivity.
Qed.

Lemma valid_np_pos : forall c, valid_cfg c = true -> 0 < np c.
Proof. intros c H. destruct (valid_pool_nonempty c H) as [w Hw]. apply pool_lt in Hw. lia. Qed.

(** * The invariant *)

(** The protocol state of the link between the master and one worker of the pool:
      (on WorkerStack?, completion receive active?, Finish sent?, link contents, worker status,
       posting order, rank left the loop?)                                                       *)
Inductive link_shape : bool -> bool -> bool -> list msg -> wstat -> bool -> bool -> Prop :=
| LIdle     : forall po,    link_shape true  false false []          Pending  po    false
| LSent     : forall j,     link_shape false true  false [MWork j]   Pending  false false
| LWork     : forall j,     link_shape false true  false []          (Work j) true  false
| LDone     :               link_shape false true  false [MPend]     Pending  true  false
| LFinSent  : forall po,    link_shape true  false true  [MFinish]   Pending  po    false
| LFinished : forall po ex, link_shape true  false true  []          Finish   po    ex.

Definition link_ok (s : sys) (w : wid) : Prop :=
  link_shape (memb w (wstack s)) (outst s w) (wfin s w) (chan s w) (wst s w) (pend_older s w) (exited s w).

Definition msg_jobs (m : msg) : list job := match m with MWork j => [j] | _ => [] end.
Definition st_jobs (st : wstat) : list job := match st with Work j => [j] | _ => [] end.

(** jobs in flight to, or running on, worker w *)
Definition active (s : sys) (w : wid) : list job := st_jobs (wst s w) ++ flat_map msg_jobs (chan s w).

Definition on_stack (j : job) (s : sys) : nat := cnt j (jobstack s).
Definition in_flight (c : cfg) (j : job) (s : sys) : nat := sumf (fun w => cnt j (active s w)) (pool c).
Definition executed (j : job) (s : sys) : nat := cnt j (map fst (log s)).

Record Inv (c : cfg) (s : sys) : Prop := mkInv {
  inv_links : forall w, In w (pool c) -> link_ok s w;
  inv_ws_nodup : NoDup (wstack s);
  inv_ws_pool : forall w, In w (wstack s) -> In w (pool c);
  inv_jobs_nodup : NoDup (alljobs s);
  inv_cons : forall j, on_stack j s + in_flight c j s + executed j s = cnt j (alljobs s);
  inv_dmap_active : forall w j, In w (pool c) -> In j (active s w) -> dmap s j = Some w;
  inv_dmap_log : forall j w, In (j, w) (log s) -> dmap s j = Some w /\ In w (pool c);
  inv_dmap_dom : forall j w, dmap s j = Some w -> In j (alljobs s);
  inv_fin : (forall w, In w (pool c) -> wfin s w = false) \/
            ((forall w, In w (pool c) -> wfin s w = true) /\ jobstack s = []);
  inv_outside : forall w, ~ In w (pool c) -> chan s w = [];
  inv_exit_root : exited s 0 = true -> forall w, In w (pool c) -> wfin s w = true;
  inv_err : err s = false
}.

(** initial states, pointwise (no functional extensionality needed) *)
Definition is_init (c : cfg) (js : list job) (s : sys) : Prop :=
  jobstack s = js /\ wstack s = pool c /\ (forall w, outst s w = false) /\ (forall w, wfin s w = false) /\
  (forall j, dmap s j = None) /\ alljobs s = js /\ (forall w, wst s w = Pending) /\
  (forall w, chan s w = []) /\ (forall w, exited s w = false) /\ log s = [] /\ err s = false.

Lemma init_is_init : forall c js, is_init c js (init c js).
Proof. intros c js. unfold is_init, init, fresh; simpl. repeat split; reflexivity. Qed.

Lemma inv_of_init : forall c js s, NoDup js -> is_init c js s -> Inv c s.
Proof.
  intros c js s Hn (Hj & Hw & Ho & Hf & Hd & Ha & Hs & Hc & He & Hl & Her).
  constructor.
  - intros w Hi. unfold link_ok. rewrite Hw, Ho, Hf, Hc, Hs, He.
    assert (M : memb w (pool c) = true) by (apply memb_In; exact Hi). rewrite M. constructor.
  - rewrite Hw. apply pool_NoDup.
  - rewrite Hw. auto.
  - rewrite Ha. exact Hn.
  - intros j. unfold on_stack, in_flight, executed. rewrite Hj, Ha, Hl. simpl.
    rewrite sumf_zero; [lia|]. intros w _. unfold active. rewrite Hs, Hc. reflexivity.
  - intros w j _ Hi. unfold active in Hi. rewrite Hs, Hc in Hi. destruct Hi.
  - intros j w Hi. rewrite Hl in Hi. destruct Hi.
  - intros j w Hi. rewrite Hd in Hi. discriminate.
  - left. intros w _. apply Hf.
  - intros w _. apply Hc.
  - intros Hx. rewrite He in Hx. discriminate.
  - exact Her.
Qed.

(** * Helper lemmas for preservation *)

Lemma link_frame : forall s s' w,
  memb w (wstack s') = memb w (wstack s) -> outst s' w = outst s w -> wfin s' w = wfin s w ->
  chan s' w = chan s w -> wst s' w = wst s w -> pend_older s' w = pend_older s w ->
  exited s' w = exited s w -> link_ok s w -> link_ok s' w.
Proof. intros s s' w H1 H2 H3 H4 H5 H6 H7 H. unfold link_ok in *. rewrite H1, H2, H3, H4, H5, H6, H7. exact H. Qed.

Lemma active_frame : forall s s' w, wst s' w = wst s w -> chan s' w = chan s w -> active s' w = active s w.
Proof. intros s s' w H1 H2. unfold active. rewrite H1, H2. reflexivity. Qed.

Lemma in_flight_change : forall c s s' w j, In w (pool c) ->
  (forall x, In x (pool c) -> x <> w -> active s' x = active s x) ->
  in_flight c j s' + cnt j (active s w) = in_flight c j s + cnt j (active s' w).
Proof.
  intros c s s' w j Hi H. unfold in_flight.
  apply (sumf_change (fun x => cnt j (active s x)) (fun x => cnt j (active s' x)) (pool c) w (pool_NoDup c) Hi).
  intros x Hx Hne. rewrite H by assumption. reflexivity.
Qed.

Lemma in_flight_same : forall c s s' j,
  (forall x, In x (pool c) -> active s' x = active s x) -> in_flight c j s' = in_flight c j s.
Proof. intros c s s' j H. unfold in_flight. apply sumf_ext. intros x Hx. rewrite H by assumption. reflexivity. Qed.

Lemma sumf_ge : forall f l w, In w l -> f w <= sumf f l.
Proof.
  intros f l w. induction l as [|x l IH]; simpl; intros H; [destruct H|].
  destruct H as [E|H]; [subst; lia|specialize (IH H); lia].
Qed.

Lemma active_in_flight : forall c s w j, In w (pool c) -> In j (active s w) -> 1 <= in_flight c j s.
Proof.
  intros c s w j Hw Hj. unfold in_flight. apply cnt_pos_In in Hj.
  pose proof (sumf_ge (fun x => cnt j (active s x)) (pool c) w Hw) as H. simpl in H. lia.
Qed.

Lemma log_executed : forall s j w, In (j, w) (log s) -> 1 <= executed j s.
Proof.
  intros s j w H. unfold executed. apply (in_map fst) in H. simpl in H. apply cnt_pos_In in H. lia.
Qed.

Lemma stack_on_stack : forall s j, In j (jobstack s) -> 1 <= on_stack j s.
Proof. intros s j H. unfold on_stack. apply cnt_pos_In in H. lia. Qed.

Lemma cons_le1 : forall c s j, Inv c s -> on_stack j s + in_flight c j s + executed j s <= 1.
Proof. intros c s j I. rewrite (inv_cons c s I). apply cnt_NoDup. apply (inv_jobs_nodup c s I). Qed.

Ltac upds :=
  repeat first [ rewrite upd_same | rewrite upd_other by congruence ].

(** a worker on the stack while jobs remain is idle *)
Lemma stack_worker_idle : forall c s w, Inv c s -> In w (wstack s) -> wfin s w = false ->
  outst s w = false /\ chan s w = [] /\ wst s w = Pending /\ exited s w = false.
Proof.
  intros c s w I Hi Hf. pose proof (inv_links c s I w (inv_ws_pool c s I w Hi)) as L.
  unfold link_ok in L. apply memb_In in Hi. rewrite Hi, Hf in L. inversion L; subst. repeat split; congruence.
Qed.

(** * Preservation: order() *)

Lemma inv_order_one : forall c s j0 js w0 ws, Inv c s -> jobstack s = j0 :: js -> wstack s = w0 :: ws ->
  Inv c (order_worker w0 j0 (set_stacks js ws s)).
Proof.
  intros c s j0 js w0 ws I Hj Hw.
  assert (Hw0 : In w0 (wstack s)) by (rewrite Hw; left; reflexivity).
  assert (Hp0 : In w0 (pool c)) by (apply (inv_ws_pool c s I); exact Hw0).
  assert (Hnf : forall w, In w (pool c) -> wfin s w = false).
  { destruct (inv_fin c s I) as [H|[_ H]]; [exact H|rewrite Hj in H; discriminate]. }
  destruct (stack_worker_idle c s w0 I Hw0 (Hnf w0 Hp0)) as (Ho & Hc & Hs & He).
  pose proof (inv_ws_nodup c s I) as Hnd. rewrite Hw in Hnd. inversion Hnd as [|x l Hnot Hnd']; subst x l.
  assert (Hon : 1 <= on_stack j0 s) by (apply stack_on_stack; rewrite Hj; left; reflexivity).
  assert (Act0 : active (order_worker w0 j0 (set_stacks js ws s)) w0 = [j0]).
  { unfold active; simpl. upds. rewrite Hs, Hc. reflexivity. }
  assert (Act : forall x, x <> w0 -> active (order_worker w0 j0 (set_stacks js ws s)) x = active s x).
  { intros x Hx. apply active_frame; simpl; upds; reflexivity. }
  assert (Act0s : active s w0 = []).
  { unfold active. rewrite Hs, Hc. reflexivity. }
  constructor; simpl.
  - intros w Hi. destruct (Nat.eq_dec w w0) as [E|E].
    + subst w. unfold link_ok; simpl. upds. rewrite Hc, Hs, He, (Hnf w0 Hp0).
      apply memb_false in Hnot. rewrite Hnot. simpl. constructor.
    + apply (link_frame s); simpl; upds; try reflexivity.
      * rewrite Hw. symmetry. apply memb_cons_other. exact E.
      * apply (inv_links c s I). exact Hi.
  - exact Hnd'.
  - intros w Hi. apply (inv_ws_pool c s I). rewrite Hw. right. exact Hi.
  - apply (inv_jobs_nodup c s I).
  - intros j. pose proof (inv_cons c s I j) as C.
    pose proof (in_flight_change c s (order_worker w0 j0 (set_stacks js ws s)) w0 j Hp0) as F.
    rewrite Act0, Act0s in F. simpl in F.
    unfold on_stack in *. simpl. rewrite Hj in C. simpl in C.
    unfold executed in *. simpl.
    rewrite <- C. specialize (F (fun x _ Hx => Act x Hx)). lia.
  - intros w j Hi Ha. destruct (Nat.eq_dec w w0) as [E|E].
    + subst w. rewrite Act0 in Ha. destruct Ha as [Ha|[]]. subst j. upds. reflexivity.
    + rewrite Act in Ha by exact E.
      assert (j <> j0).
      { intros Ej. subst j. pose proof (active_in_flight c s w j0 Hi Ha). pose proof (cons_le1 c s j0 I). lia. }
      upds. apply (inv_dmap_active c s I); assumption.
  - intros j w Hi.
    assert (j <> j0).
    { intros Ej. subst j. pose proof (log_executed s j0 w Hi). pose proof (cons_le1 c s j0 I). lia. }
    upds. apply (inv_dmap_log c s I). exact Hi.
  - intros j w. destruct (Nat.eq_dec j j0) as [E|E].
    + subst j. intros _. apply cnt_pos_In. rewrite <- (inv_cons c s I). lia.
    + upds. apply (inv_dmap_dom c s I).
  - left. exact Hnf.
  - intros w Hn. assert (w <> w0) by (intros E; subst; contradiction). upds. apply (inv_outside c s I). exact Hn.
  - apply (inv_exit_root c s I).
  - rewrite (inv_err c s I), Ho. reflexivity.
Qed.

Lemma inv_order_loop : forall c js ws s, Inv c s -> jobstack s = js -> wstack s = ws ->
  Inv c (order_loop js ws s).
Proof.
  intros c js. induction js as [|j js IH]; intros ws s I Hj Hw; simpl; [exact I|].
  destruct ws as [|w ws]; [exact I|].
  apply IH; [|reflexivity|reflexivity].
  apply inv_order_one; assumption.
Qed.

Lemma inv_order : forall c s, Inv c s -> Inv c (do_order s).
Proof. intros c s I. unfold do_order. apply inv_order_loop; [exact I|reflexivity|reflexivity]. Qed.

(** * Case analysis on the shape of a link *)

Ltac shapes s w L :=
  let L' := fresh "L" in
  pose proof L as L'; unfold link_ok in L';
  let a1 := fresh "a" in let a2 := fresh "a" in let a3 := fresh "a" in let a4 := fresh "a" in
  let a5 := fresh "a" in let a6 := fresh "a" in let a7 := fresh "a" in
  remember (memb w (wstack s)) as a1 eqn:Em in L';
  remember (outst s w) as a2 eqn:Eo in L';
  remember (wfin s w) as a3 eqn:Ef in L';
  remember (chan s w) as a4 eqn:Ec in L';
  remember (wst s w) as a5 eqn:Es in L';
  remember (pend_older s w) as a6 eqn:Ep in L';
  remember (exited s w) as a7 eqn:Ee in L';
  destruct L'; symmetry in Em, Eo, Ef, Ec, Es, Ep, Ee.

(** the master's completion receive can complete only in shape LDone *)
Lemma pend_match_shape : forall s w l, link_ok s w -> outst s w = true -> pend_match s w = Some l ->
  l = [] /\ chan s w = [MPend] /\ wst s w = Pending /\ memb w (wstack s) = false /\ wfin s w = false /\
  exited s w = false /\ pend_older s w = true.
Proof.
  intros s w l L Ho Hm. shapes s w L; try congruence;
    unfold pend_match, wildcard_posted in Hm; rewrite Ec, Ep, Es in Hm;
    destruct (shared w); simpl in Hm; try discriminate.
  - inversion Hm. repeat split; congruence.
  - inversion Hm. repeat split; congruence.
Qed.

(** the worker's wildcard receive can complete only in shapes LSent (with the Work message) and LFinSent
    (with the Finish message); in particular never with a completion report *)
Lemma wild_match_shape : forall s w m l, link_ok s w -> wst s w = Pending -> wild_match s w = Some (m, l) ->
  l = [] /\ exited s w = false /\
  ((exists j, m = MWork j /\ chan s w = [MWork j] /\ memb w (wstack s) = false /\ outst s w = true /\ wfin s w = false) \/
   (m = MFinish /\ chan s w = [MFinish] /\ memb w (wstack s) = true /\ outst s w = false /\ wfin s w = true)).
Proof.
  intros s w m l L Hs Hm. shapes s w L; try congruence;
    unfold wild_match in Hm; rewrite Ec, Eo, Ep in Hm;
    destruct (shared w); simpl in Hm; try discriminate; inversion Hm; subst; split; try reflexivity; split; trivial.
  - left. exists j. repeat split; congruence.
  - left. exists j. repeat split; congruence.
  - right. repeat split; congruence.
  - right. repeat split; congruence.
Qed.

(** * Preservation: check_workers() *)

Lemma inv_see : forall c s w s', Inv c s -> In w (pool c) -> see w s = Some s' -> Inv c s'.
Proof.
  intros c s w s' I Hp Hsee. unfold see in Hsee.
  destruct (outst s w) eqn:Ho; [|discriminate].
  destruct (pend_match s w) as [l|] eqn:Hm; [|discriminate].
  injection Hsee as Hs'.
  destruct (pend_match_shape s w l (inv_links c s I w Hp) Ho Hm) as (El & Hc & Hs & Hmem & Hf & He & Hpo).
  subst l.
  assert (Act : forall x, active s' x = active s x).
  { intros x. subst s'. unfold active; simpl. destruct (Nat.eq_dec x w) as [E|E].
    - subst x. upds. rewrite Hc. reflexivity.
    - upds. reflexivity. }
  constructor.
  - intros x Hx. destruct (Nat.eq_dec x w) as [E|E].
    + subst x s'. unfold link_ok; simpl. upds. rewrite memb_cons_same, Hf, Hs, He. constructor.
    + subst s'. apply (link_frame s); simpl; upds; try reflexivity.
      * apply memb_cons_other. exact E.
      * apply (inv_links c s I). exact Hx.
  - subst s'; simpl. constructor; [apply memb_false; exact Hmem|apply (inv_ws_nodup c s I)].
  - subst s'; simpl. intros x [E|Hx]; [subst; exact Hp|apply (inv_ws_pool c s I); exact Hx].
  - subst s'; simpl. apply (inv_jobs_nodup c s I).
  - intros j. rewrite (in_flight_same c s s' j (fun x _ => Act x)).
    subst s'. unfold on_stack, executed; simpl. apply (inv_cons c s I).
  - intros x j Hx Hj. rewrite Act in Hj. subst s'; simpl. apply (inv_dmap_active c s I); assumption.
  - subst s'; simpl. apply (inv_dmap_log c s I).
  - subst s'; simpl. apply (inv_dmap_dom c s I).
  - subst s'; simpl. apply (inv_fin c s I).
  - subst s'; simpl. intros x Hx. assert (x <> w) by (intros E; subst; contradiction). upds.
    apply (inv_outside c s I). exact Hx.
  - subst s'; simpl. apply (inv_exit_root c s I).
  - subst s'; simpl. apply (inv_err c s I).
Qed.

Lemma inv_check_loop : forall c ws seen s s', (forall w, In w ws -> In w (pool c)) -> Inv c s ->
  check_loop ws seen s = Some s' -> Inv c s'.
Proof.
  intros c ws. induction ws as [|w ws IH]; intros seen s s' Hin I H; simpl in H.
  - destruct seen; [inversion H; subst; exact I|discriminate].
  - destruct seen as [|w' seen']; [inversion H; subst; exact I|].
    destruct (Nat.eqb_spec w w') as [E|E].
    + destruct (see w s) as [s1|] eqn:Hsee; [|discriminate].
      apply (IH seen' s1 s'); [intros x Hx; apply Hin; right; exact Hx| |exact H].
      apply (inv_see c s w s1 I); [apply Hin; left; reflexivity|exact Hsee].
    + apply (IH (w' :: seen') s s'); [intros x Hx; apply Hin; right; exact Hx|exact I|exact H].
Qed.

(** finish_all, pointwise *)
Lemma finish_all_fields : forall l s,
  jobstack (finish_all l s) = jobstack s /\ wstack (finish_all l s) = wstack s /\
  outst (finish_all l s) = outst s /\ dmap (finish_all l s) = dmap s /\ alljobs (finish_all l s) = alljobs s /\
  wst (finish_all l s) = wst s /\ pend_older (finish_all l s) = pend_older s /\
  exited (finish_all l s) = exited s /\ log (finish_all l s) = log s /\ err (finish_all l s) = err s /\
  round (finish_all l s) = round s.
Proof.
  induction l as [|w l IH]; intros s; simpl; [repeat split; reflexivity|].
  unfold finish_all in IH. destruct (IH (send_finish w s)) as (H1 & H2 & H3 & H4 & H5 & H6 & H7 & H8 & H9 & H10 & H11).
  unfold finish_all; simpl. rewrite H1, H2, H3, H4, H5, H6, H7, H8, H9, H10, H11. simpl. repeat split; reflexivity.
Qed.

Lemma finish_all_wfin : forall l s w, wfin (finish_all l s) w = wfin s w || memb w l.
Proof.
  induction l as [|x l IH]; intros s w; simpl; [rewrite orb_false_r; reflexivity|].
  unfold finish_all in *; simpl. rewrite IH. simpl. unfold memb; simpl.
  destruct (Nat.eqb_spec w x) as [E|E].
  - subst. upds. destruct (wfin s x); reflexivity.
  - upds. reflexivity.
Qed.

Lemma finish_all_chan : forall l s w, NoDup l ->
  chan (finish_all l s) w = if memb w l then chan s w ++ [MFinish] else chan s w.
Proof.
  induction l as [|x l IH]; intros s w Hn; simpl; [reflexivity|].
  inversion Hn as [|y l' Hx Hn']; subst.
  unfold finish_all in *; simpl. rewrite IH by exact Hn'. simpl. unfold memb; simpl.
  destruct (Nat.eqb_spec w x) as [E|E].
  - subst. apply memb_false in Hx. unfold memb in Hx. rewrite Hx. upds. reflexivity.
  - simpl. upds. reflexivity.
Qed.

Lemma filter_all : forall (f : nat -> bool) l, (forall x, In x l -> f x = true) -> filter f l = l.
Proof.
  intros f l. induction l as [|x l IH]; intros H; simpl; [reflexivity|].
  rewrite H by (left; reflexivity). rewrite IH; [reflexivity|]. intros y Hy. apply H. right. exact Hy.
Qed.

Lemma filter_none : forall (f : nat -> bool) l, (forall x, In x l -> f x = false) -> filter f l = [].
Proof.
  intros f l. induction l as [|x l IH]; intros H; simpl; [reflexivity|].
  rewrite H by (left; reflexivity). apply IH. intros y Hy. apply H. right. exact Hy.
Qed.

(** what check_workers sends: nothing, or Finish to the whole pool when every job has been executed *)
Lemma finish_targets_cases : forall c s, Inv c s ->
  finish_targets c s = [] \/
  (finish_targets c s = pool c /\ jobstack s = [] /\
   forall w, In w (pool c) ->
     memb w (wstack s) = true /\ outst s w = false /\ wfin s w = false /\ chan s w = [] /\ wst s w = Pending /\
     exited s w = false).
Proof.
  intros c s I. unfold finish_targets, finish_cond.
  destruct (jobstack s) as [|j js] eqn:Hj; [|left; reflexivity].
  destruct (Nat.leb_spec (nprocs c) (length (wstack s))) as [Hle|Hgt]; [|left; reflexivity].
  destruct (inv_fin c s I) as [Hf|[Hf _]].
  - right. split; [|split; [reflexivity|]].
    + apply filter_all. intros w Hw. rewrite Hf by exact Hw. reflexivity.
    + intros w Hw.
      assert (Hin : In w (wstack s)).
      { apply (@NoDup_length_incl _ (wstack s) (pool c) (inv_ws_nodup c s I) Hle); [|exact Hw].
        intros x Hx. apply (inv_ws_pool c s I). exact Hx. }
      destruct (stack_worker_idle c s w I Hin (Hf w Hw)) as (Ho & Hc & Hs & He).
      apply memb_In in Hin. repeat split; auto.
  - left. apply filter_none. intros w Hw. rewrite Hf by exact Hw. reflexivity.
Qed.

Lemma inv_finish : forall c s, Inv c s -> Inv c (finish_all (finish_targets c s) s).
Proof.
  intros c s I. destruct (finish_targets_cases c s I) as [E|(E & Hj & Hall)]; rewrite E; [exact I|].
  destruct (finish_all_fields (pool c) s) as (H1 & H2 & H3 & H4 & H5 & H6 & H7 & H8 & H9 & H10 & H11).
  pose proof (finish_all_wfin (pool c) s) as Hwf.
  pose proof (fun w => finish_all_chan (pool c) s w (pool_NoDup c)) as Hch.
  assert (Act : forall x, active (finish_all (pool c) s) x = active s x).
  { intros x. unfold active. rewrite H6, Hch. destruct (memb x (pool c)) eqn:M; [|reflexivity].
    apply memb_In in M. destruct (Hall x M) as (_ & _ & _ & Hc & _). rewrite Hc. reflexivity. }
  constructor.
  - intros w Hw. unfold link_ok. rewrite H2, H3, H6, H7, H8, Hwf, Hch.
    destruct (Hall w Hw) as (Hm & Ho & Hf & Hc & Hs & He).
    apply memb_In in Hw. rewrite Hw, Hm, Ho, Hf, Hc, Hs, He. simpl. constructor.
  - rewrite H2. apply (inv_ws_nodup c s I).
  - rewrite H2. apply (inv_ws_pool c s I).
  - rewrite H5. apply (inv_jobs_nodup c s I).
  - intros j. rewrite (in_flight_same c s _ j (fun x _ => Act x)).
    unfold on_stack, executed. rewrite H1, H9, H5. apply (inv_cons c s I).
  - intros w j Hw Hjj. rewrite Act in Hjj. rewrite H4. apply (inv_dmap_active c s I); assumption.
  - rewrite H9, H4. apply (inv_dmap_log c s I).
  - rewrite H4, H5. apply (inv_dmap_dom c s I).
  - right. split; [|rewrite H1; exact Hj].
    intros w Hw. rewrite Hwf. apply memb_In in Hw. rewrite Hw. apply orb_true_r.
  - intros w Hw. rewrite Hch. apply memb_false in Hw. rewrite Hw. apply (inv_outside c s I). apply memb_false. exact Hw.
  - intros _ w Hw. rewrite Hwf. apply memb_In in Hw. rewrite Hw. apply orb_true_r.
  - rewrite H10. apply (inv_err c s I).
Qed.

(** * Preservation: worker actions *)

Lemma msg_eqb_eq : forall a b, msg_eqb a b = true -> a = b.
Proof.
  intros a b H. destruct a, b; simpl in H; try discriminate; try reflexivity.
  apply Nat.eqb_eq in H. subst. reflexivity.
Qed.

Lemma inv_recv : forall c s w m l, Inv c s -> In w (pool c) -> wst s w = Pending ->
  wild_match s w = Some (m, l) -> Inv c (do_recv w m l s).
Proof.
  intros c s w m l I Hp Hs Hm.
  destruct (wild_match_shape s w m l (inv_links c s I w Hp) Hs Hm) as (El & He & Hcase). subst l.
  assert (Act : forall x, active (do_recv w m [] s) x = active s x).
  { intros x. unfold active; simpl. destruct (Nat.eq_dec x w) as [E|E].
    - subst x. upds. rewrite Hs.
      destruct Hcase as [(j & Ej & Hc & _)|(Ej & Hc & _)]; subst m; rewrite Hc; reflexivity.
    - upds. reflexivity. }
  constructor; simpl.
  - intros x Hx. destruct (Nat.eq_dec x w) as [E|E].
    + subst x. unfold link_ok; simpl. upds. rewrite He.
      destruct Hcase as [(j & Ej & Hc & Hmem & Ho & Hf)|(Ej & Hc & Hmem & Ho & Hf)]; subst m;
        rewrite Hmem, Ho, Hf; simpl; constructor.
    + apply (link_frame s); simpl; upds; try reflexivity. apply (inv_links c s I). exact Hx.
  - apply (inv_ws_nodup c s I).
  - apply (inv_ws_pool c s I).
  - apply (inv_jobs_nodup c s I).
  - intros j. rewrite (in_flight_same c s _ j (fun x _ => Act x)). apply (inv_cons c s I).
  - intros x j Hx Hj. rewrite Act in Hj. apply (inv_dmap_active c s I); assumption.
  - apply (inv_dmap_log c s I).
  - apply (inv_dmap_dom c s I).
  - apply (inv_fin c s I).
  - intros x Hx. assert (x <> w) by (intros E; subst; contradiction). upds. apply (inv_outside c s I). exact Hx.
  - apply (inv_exit_root c s I).
  - apply (inv_err c s I).
Qed.

Lemma work_shape : forall s w j, link_ok s w -> wst s w = Work j ->
  memb w (wstack s) = false /\ outst s w = true /\ wfin s w = false /\ chan s w = [] /\
  pend_older s w = true /\ exited s w = false.
Proof.
  intros s w j L Hs. shapes s w L; try congruence. repeat split; congruence.
Qed.

Lemma inv_run : forall c s w j, Inv c s -> In w (pool c) -> wst s w = Work j -> Inv c (do_run w j s).
Proof.
  intros c s w j I Hp Hs.
  destruct (work_shape s w j (inv_links c s I w Hp) Hs) as (Hmem & Ho & Hf & Hc & Hpo & He).
  assert (Act0 : active (do_run w j s) w = []).
  { unfold active; simpl. upds. rewrite Hc. reflexivity. }
  assert (Act0s : active s w = [j]).
  { unfold active. rewrite Hs, Hc. reflexivity. }
  assert (Act : forall x, x <> w -> active (do_run w j s) x = active s x).
  { intros x Hx. apply active_frame; simpl; upds; reflexivity. }
  constructor; simpl.
  - intros x Hx. destruct (Nat.eq_dec x w) as [E|E].
    + subst x. unfold link_ok; simpl. upds. rewrite Hmem, Ho, Hf, Hc, Hpo, He. simpl. constructor.
    + apply (link_frame s); simpl; upds; try reflexivity. apply (inv_links c s I). exact Hx.
  - apply (inv_ws_nodup c s I).
  - apply (inv_ws_pool c s I).
  - apply (inv_jobs_nodup c s I).
  - intros j'. pose proof (inv_cons c s I j') as C.
    pose proof (in_flight_change c s (do_run w j s) w j' Hp (fun x _ Hx => Act x Hx)) as F.
    rewrite Act0, Act0s in F. simpl in F.
    unfold on_stack, executed in *. simpl. lia.
  - intros x j' Hx Hj. destruct (Nat.eq_dec x w) as [E|E].
    + subst x. rewrite Act0 in Hj. destruct Hj.
    + rewrite Act in Hj by exact E. apply (inv_dmap_active c s I); assumption.
  - intros j' w' [E|Hi].
    + inversion E; subst. split; [|exact Hp]. apply (inv_dmap_active c s I); [exact Hp|].
      rewrite Act0s. left. reflexivity.
    + apply (inv_dmap_log c s I). exact Hi.
  - apply (inv_dmap_dom c s I).
  - apply (inv_fin c s I).
  - intros x Hx. assert (x <> w) by (intros E; subst; contradiction). upds. apply (inv_outside c s I). exact Hx.
  - apply (inv_exit_root c s I).
  - apply (inv_err c s I).
Qed.

Lemma finish_shape : forall s w, link_ok s w -> wst s w = Finish ->
  memb w (wstack s) = true /\ outst s w = false /\ wfin s w = true /\ chan s w = [].
Proof.
  intros s w L Hs. shapes s w L; try congruence. repeat split; congruence.
Qed.

Lemma exited_shape : forall s w, link_ok s w -> exited s w = true -> wst s w = Finish.
Proof. intros s w L He. shapes s w L; congruence. Qed.

Lemma all_fin_of_one : forall c s w, Inv c s -> In w (pool c) -> wfin s w = true ->
  (forall x, In x (pool c) -> wfin s x = true) /\ jobstack s = [].
Proof.
  intros c s w I Hp Hf. destruct (inv_fin c s I) as [H|H]; [|exact H].
  rewrite (H w Hp) in Hf. discriminate.
Qed.

Lemma inv_exit : forall c s r, Inv c s -> r < np c -> loop_done c s r = true -> Inv c (do_exit r s).
Proof.
  intros c s r I Hr Hd.
  assert (Act : forall x, active (do_exit r s) x = active s x) by (intros x; reflexivity).
  constructor; simpl.
  - intros x Hx. destruct (Nat.eq_dec x r) as [E|E].
    + subst x. unfold loop_done in Hd. apply in_pool in Hx. rewrite Hx in Hd. apply in_pool in Hx.
      destruct (wst s r) eqn:Hs; try discriminate.
      destruct (finish_shape s r (inv_links c s I r Hx) Hs) as (Hmem & Ho & Hf & Hc).
      unfold link_ok; simpl. upds. rewrite Hmem, Ho, Hf, Hc, Hs. constructor.
    + apply (link_frame s); simpl; upds; try reflexivity. apply (inv_links c s I). exact Hx.
  - apply (inv_ws_nodup c s I).
  - apply (inv_ws_pool c s I).
  - apply (inv_jobs_nodup c s I).
  - intros j. apply (inv_cons c s I).
  - apply (inv_dmap_active c s I).
  - apply (inv_dmap_log c s I).
  - apply (inv_dmap_dom c s I).
  - apply (inv_fin c s I).
  - apply (inv_outside c s I).
  - destruct (Nat.eq_dec r 0) as [E|E].
    + subst r. intros _. unfold loop_done in Hd. destruct (is_worker c 0) eqn:Hw.
      * apply in_pool in Hw. destruct (wst s 0) eqn:Hs; try discriminate.
        destruct (finish_shape s 0 (inv_links c s I 0 Hw) Hs) as (_ & _ & Hf & _).
        apply (all_fin_of_one c s 0 I Hw Hf).
      * intros w Hwp. rewrite forallb_forall in Hd. apply Hd. exact Hwp.
    + rewrite upd_other by congruence. apply (inv_exit_root c s I).
  - apply (inv_err c s I).
Qed.

(** * Rounds *)

Definition final (c : cfg) (s : sys) : Prop := forall r, r < np c -> exited s r = true.

Lemma finalb_final : forall c s, finalb c s = true <-> final c s.
Proof.
  intros c s. unfold finalb, final. rewrite forallb_forall. split; intros H r Hr; apply H; apply in_ranks; exact Hr.
Qed.

Lemma final_links : forall c s w, Inv c s -> final c s -> In w (pool c) ->
  wst s w = Finish /\ memb w (wstack s) = true /\ outst s w = false /\ wfin s w = true /\ chan s w = [].
Proof.
  intros c s w I F Hp. pose proof (inv_links c s I w Hp) as L.
  pose proof (exited_shape s w L (F w (pool_lt c w Hp))) as Hs.
  split; [exact Hs|]. apply finish_shape; assumption.
Qed.

Lemma final_chan_empty : forall c s w, Inv c s -> final c s -> chan s w = [].
Proof.
  intros c s w I F. destruct (in_dec Nat.eq_dec w (pool c)) as [Hp|Hn].
  - apply (final_links c s w I F Hp).
  - apply (inv_outside c s I). exact Hn.
Qed.

Lemma final_no_outst : forall c s, Inv c s -> final c s -> existsb (outst s) (pool c) = false.
Proof.
  intros c s I F. destruct (existsb (outst s) (pool c)) eqn:E; [|reflexivity].
  apply existsb_exists in E. destruct E as [w [Hw Ho]].
  destruct (final_links c s w I F Hw) as (_ & _ & Ho' & _). congruence.
Qed.

(** [rounds]: the state in which the next round starts on the same communicator (whatever is still in the
    MPI layer is carried over) is a valid initial state. *)
Lemma restart_is_init : forall c s js, Inv c s -> final c s -> is_init c js (restart c s js).
Proof.
  intros c s js I F. unfold is_init, restart, fresh; simpl.
  repeat split; try reflexivity.
  - intros w. apply (final_chan_empty c s w I F).
  - rewrite (inv_err c s I), (final_no_outst c s I F). reflexivity.
Qed.

Lemma nodupb_NoDup : forall l, nodupb l = true -> NoDup l.
Proof.
  induction l as [|x l IH]; simpl; intros H; constructor.
  - apply andb_true_iff in H. destruct H as [H _]. apply negb_true_iff in H.
    intros Hi. assert (existsb (Nat.eqb x) l = true); [|congruence].
    apply existsb_exists. exists x. split; [exact Hi|apply Nat.eqb_refl].
  - apply IH. apply andb_true_iff in H. apply H.
Qed.

Lemma NoDup_nodupb : forall l, NoDup l -> nodupb l = true.
Proof.
  intros l H. induction H as [|x l Hx Hl IH]; simpl; [reflexivity|].
  rewrite IH, andb_true_r. apply negb_true_iff. destruct (existsb (Nat.eqb x) l) eqn:E; [|reflexivity].
  apply existsb_exists in E. destruct E as [y [Hy He]]. apply Nat.eqb_eq in He. subst. contradiction.
Qed.

(** * The invariant is inductive *)

Lemma list_eqb_eq : forall a b, list_eqb a b = true -> a = b.
Proof.
  induction a as [|x a IH]; destruct b as [|y b]; simpl; intros H; try discriminate; [reflexivity|].
  apply andb_true_iff in H. destruct H as [H1 H2]. apply Nat.eqb_eq in H1. rewrite (IH b H2). subst. reflexivity.
Qed.

Lemma list_eqb_refl : forall a, list_eqb a a = true.
Proof. induction a as [|x a IH]; simpl; [reflexivity|]. rewrite Nat.eqb_refl, IH. reflexivity. Qed.

Lemma pairs_eqb_refl : forall a, pairs_eqb a a = true.
Proof. induction a as [|[x y] a IH]; simpl; [reflexivity|]. rewrite !Nat.eqb_refl, IH. reflexivity. Qed.

Theorem inv_step : forall c s e s', Inv c s -> step c s e = Some s' -> Inv c s'.
Proof.
  intros c s e s' I H. destruct e as [l|seen fins|w m|w j|r|r|js]; simpl in H.
  - destruct (exited s 0); [discriminate|]. destruct l as [|p l]; [discriminate|].
    destruct (pairs_eqb (p :: l) (order_pairs s)); [|discriminate].
    inversion H; subst. apply inv_order. exact I.
  - destruct (exited s 0); [discriminate|].
    destruct (match seen, fins with [], [] => true | _, _ => false end); [discriminate|].
    destruct (check_loop (pool c) seen s) as [s1|] eqn:Hc; [|discriminate].
    destruct (list_eqb fins (finish_targets c s1)) eqn:Hf; [|discriminate].
    inversion H; subst. apply list_eqb_eq in Hf. subst fins. apply inv_finish.
    apply (inv_check_loop c (pool c) seen s s1); auto.
  - destruct (is_worker c w && negb (exited s w)) eqn:Hw; [|discriminate].
    apply andb_true_iff in Hw. destruct Hw as [Hw _]. apply in_pool in Hw.
    destruct (wst s w) eqn:Hs; try discriminate.
    destruct (wild_match s w) as [[m' l]|] eqn:Hm; [|discriminate].
    destruct (msg_eqb m m') eqn:Hmm; [|discriminate].
    apply msg_eqb_eq in Hmm. subst m'. inversion H; subst. apply inv_recv; assumption.
  - destruct (is_worker c w && negb (exited s w)) eqn:Hw; [|discriminate].
    apply andb_true_iff in Hw. destruct Hw as [Hw _]. apply in_pool in Hw.
    destruct (wst s w) as [|j'|] eqn:Hs; try discriminate.
    destruct (Nat.eqb_spec j j') as [E|E]; [|discriminate]. subst j'.
    inversion H; subst. apply inv_run; assumption.
  - destruct ((r <? np c) && negb (exited s r) && loop_done c s r) eqn:Hc; [|discriminate].
    apply andb_true_iff in Hc. destruct Hc as [Hc Hd]. apply andb_true_iff in Hc. destruct Hc as [Hr _].
    apply Nat.ltb_lt in Hr. inversion H; subst. apply inv_exit; assumption.
  - destruct ((r <? np c) && negb (exited s r)); [|discriminate]. inversion H; subst. exact I.
  - destruct (forallb (exited s) (ranks c) && nodupb js) eqn:Hc; [|discriminate].
    apply andb_true_iff in Hc. destruct Hc as [Hf Hn]. inversion H; subst.
    apply (inv_of_init c js); [apply nodupb_NoDup; exact Hn|].
    apply restart_is_init; [exact I|apply finalb_final; exact Hf].
Qed.

Lemma inv_run_trace : forall c t s s', Inv c s -> run c s t = Some s' -> Inv c s'.
Proof.
  intros c t. induction t as [|e t IH]; intros s s' I H; simpl in H.
  - inversion H; subst. exact I.
  - destruct (step c s e) as [s1|] eqn:Hs; [|discriminate].
    apply (IH s1 s'); [apply (inv_step c s e s1); assumption|exact H].
Qed.

(** reachable: from the initial state of a first round with any duplicate-free job order, by any sequence
    of events (any interleaving, any number of rounds) *)
Definition reachable (c : cfg) (s : sys) : Prop :=
  exists js t, NoDup js /\ run c (init c js) t = Some s.

Theorem inv_reachable : forall c s, reachable c s -> Inv c s.
Proof.
  intros c s (js & t & Hn & Hr). apply (inv_run_trace c t (init c js) s); [|exact Hr].
  apply (inv_of_init c js); [exact Hn|apply init_is_init].
Qed.

(** * Invariants in the form the property states them *)

Definition b2n (b : bool) : nat := if b then 1 else 0.

(** job_conservation: each job of the round is in exactly one of three places -- on the JobStack,
    in flight to / running on exactly one worker, executed exactly once -- and nothing else is anywhere. *)
Theorem job_conservation : forall c s, reachable c s -> forall j,
  (In j (alljobs s) -> on_stack j s + in_flight c j s + executed j s = 1) /\
  (~ In j (alljobs s) -> on_stack j s = 0 /\ in_flight c j s = 0 /\ executed j s = 0).
Proof.
  intros c s R j. pose proof (inv_reachable c s R) as I. pose proof (inv_cons c s I j) as C. split; intros H.
  - rewrite C. apply cnt_NoDup_In; [apply (inv_jobs_nodup c s I)|exact H].
  - apply cnt_zero_notIn in H. lia.
Qed.

(** worker_conservation: every worker of the pool is either on the WorkerStack exactly once (and then no
    completion receive is outstanding for it) or has exactly one outstanding order (and is not on the
    stack); the stack holds only pool members; and the link is in one of the six protocol shapes. *)
Theorem worker_conservation : forall c s, reachable c s ->
  (forall w, In w (pool c) -> cnt w (wstack s) + b2n (outst s w) = 1 /\ link_ok s w) /\
  (forall w, In w (wstack s) -> In w (pool c)).
Proof.
  intros c s R. pose proof (inv_reachable c s R) as I. split; [|apply (inv_ws_pool c s I)].
  intros w Hw. pose proof (inv_links c s I w Hw) as L. split; [|exact L].
  pose proof (cnt_NoDup w (wstack s) (inv_ws_nodup c s I)) as Hle.
  shapes s w L; rewrite ?Eo; simpl.
  all: try (apply memb_In in Em; apply cnt_pos_In in Em; lia).
  all: apply memb_false in Em; apply cnt_zero_notIn in Em; lia.
Qed.

Lemma fin_no_active : forall c s w, Inv c s -> In w (pool c) -> wfin s w = true -> active s w = [].
Proof.
  intros c s w I Hp Hf. pose proof (inv_links c s I w Hp) as L. unfold active.
  shapes s w L; try congruence; rewrite Es, Ec; reflexivity.
Qed.

(** finish_only_when_done: once Finish has been sent to any worker it has been sent to all of them, the
    JobStack is empty, nothing is in flight or running, every job has been executed. *)
Theorem finish_only_when_done : forall c s, reachable c s -> forall w, In w (pool c) -> wfin s w = true ->
  (forall x, In x (pool c) -> wfin s x = true) /\ jobstack s = [] /\
  forall j, in_flight c j s = 0 /\ executed j s = cnt j (alljobs s).
Proof.
  intros c s R w Hp Hf. pose proof (inv_reachable c s R) as I.
  destruct (all_fin_of_one c s w I Hp Hf) as [Hall Hj]. split; [exact Hall|split; [exact Hj|]].
  intros j. assert (F : in_flight c j s = 0).
  { unfold in_flight. apply sumf_zero. intros x Hx. rewrite (fin_no_active c s x I Hx (Hall x Hx)). reflexivity. }
  split; [exact F|]. pose proof (inv_cons c s I j) as C. unfold on_stack in C. rewrite Hj in C. simpl in C. lia.
Qed.

(** root_matching: the worker's wildcard receive never completes with a completion report (on rank 0 with
    include_boss both receives are posted for source 0; the master's is always the older one when a report
    is in the channel). *)
Theorem root_matching : forall c s, reachable c s -> forall w, step c s (ERecv w MPend) = None.
Proof.
  intros c s R w. pose proof (inv_reachable c s R) as I. simpl.
  destruct (is_worker c w && negb (exited s w)) eqn:Hw; [|reflexivity].
  apply andb_true_iff in Hw. destruct Hw as [Hw _]. apply in_pool in Hw.
  destruct (wst s w) eqn:Hs; try reflexivity.
  destruct (wild_match s w) as [[m' l]|] eqn:Hm; [|reflexivity].
  destruct (wild_match_shape s w m' l (inv_links c s I w Hw) Hs Hm) as (_ & _ & [(j & E & _)|(E & _)]);
    subst m'; reflexivity.
Qed.

(** at most one message is ever in flight on a link (so a standard-mode send never has to wait for buffer space
    and the relative order of messages on rank 0's self-channel never matters), and none while the worker is
    running a job: the re-posted wildcard receive (cpp:38) writes into current_job_, which the running job still
    uses -- it is never overwritten. *)
Theorem link_capacity : forall c s w, reachable c s -> In w (pool c) ->
  length (chan s w) <= 1 /\ (forall j, wst s w = Work j -> chan s w = []).
Proof.
  intros c s w R Hp. pose proof (inv_links c s (inv_reachable c s R) w Hp) as L.
  shapes s w L; rewrite Ec; simpl; split; try lia; intros j' Hj; congruence.
Qed.

(** the model never leaves the envelope in which its MPI state is exact *)
Theorem no_err : forall c s, reachable c s -> err s = false.
Proof. intros c s R. apply (inv_err c s (inv_reachable c s R)). Qed.

(** * No deadlock *)

Definition idleP (s : sys) (w : wid) : Prop :=
  memb w (wstack s) = true /\ wfin s w = false /\ exited s w = false.

Definition moves (c : cfg) (s : sys) : Prop :=
  exists e s', stutter e = false /\ is_newround e = false /\ step c s e = Some s'.

Lemma check_loop_nil : forall ws s, check_loop ws [] s = Some s.
Proof. intros ws s. destruct ws; reflexivity. Qed.

Lemma check_loop_single : forall ws w s s1, In w ws -> see w s = Some s1 -> check_loop ws [w] s = Some s1.
Proof.
  induction ws as [|x ws IH]; intros w s s1 Hi Hs; [destruct Hi|]. simpl.
  destruct (Nat.eqb_spec x w) as [E|E].
  - subst x. rewrite Hs. apply check_loop_nil.
  - destruct Hi as [Hi|Hi]; [contradiction|]. apply IH; assumption.
Qed.

Lemma root_running : forall c s w, Inv c s -> In w (pool c) -> wfin s w = false -> exited s 0 = false.
Proof.
  intros c s w I Hp Hf. destruct (exited s 0) eqn:E; [|reflexivity].
  rewrite (inv_exit_root c s I E w Hp) in Hf. discriminate.
Qed.

Lemma worker_move : forall c s w, Inv c s -> In w (pool c) ->
  idleP s w \/ exited s w = true \/ moves c s.
Proof.
  intros c s w I Hp. pose proof (inv_links c s I w Hp) as L.
  assert (Hiw : is_worker c w = true) by (apply in_pool; exact Hp).
  shapes s w L.
  - left. unfold idleP. auto.
  - (* LSent: the worker can receive the order *)
    right; right. exists (ERecv w (MWork j)), (do_recv w (MWork j) [] s). repeat split. simpl.
    rewrite Hiw, Ee, Es. simpl.
    assert (M : wild_match s w = Some (MWork j, [])).
    { unfold wild_match. rewrite Ec, Eo, Ep. destruct (shared w); reflexivity. }
    rewrite M. simpl. rewrite Nat.eqb_refl. reflexivity.
  - (* LWork: the worker can run the job *)
    right; right. exists (ERun w j), (do_run w j s). repeat split. simpl.
    rewrite Hiw, Ee, Es. simpl. rewrite Nat.eqb_refl. reflexivity.
  - (* LDone: the master can see the completion *)
    right; right.
    assert (M : pend_match s w = Some []).
    { unfold pend_match. rewrite Ec, Ep. destruct (shared w); reflexivity. }
    assert (S : exists s1, see w s = Some s1).
    { unfold see. rewrite Eo, M. eexists. reflexivity. }
    destruct S as [s1 Hs1].
    exists (ECheck [w] (finish_targets c s1)), (finish_all (finish_targets c s1) s1). repeat split. simpl.
    rewrite (root_running c s w I Hp Ef).
    rewrite (check_loop_single (pool c) w s s1 Hp Hs1). rewrite list_eqb_refl. reflexivity.
  - (* LFinSent: the worker can receive Finish *)
    right; right. exists (ERecv w MFinish), (do_recv w MFinish [] s). repeat split. simpl.
    rewrite Hiw, Ee, Es. simpl.
    assert (M : wild_match s w = Some (MFinish, [])).
    { unfold wild_match. rewrite Ec, Eo. destruct (shared w); reflexivity. }
    rewrite M. reflexivity.
  - (* LFinished *)
    destruct ex.
    + right; left. exact Ee.
    + right; right. exists (EExit w), (do_exit w s). repeat split. simpl.
      pose proof (pool_lt c w Hp) as Hlt. apply Nat.ltb_lt in Hlt. rewrite Hlt, Ee. simpl.
      unfold loop_done. rewrite Hiw, Es. reflexivity.
Qed.

Lemma pool_scan : forall c s l, Inv c s -> (forall w, In w l -> In w (pool c)) ->
  moves c s \/ (forall w, In w l -> idleP s w \/ exited s w = true).
Proof.
  intros c s l I. induction l as [|x l IH]; intros Hin.
  - right. intros w [].
  - destruct (IH (fun w Hw => Hin w (or_intror Hw))) as [M|A]; [left; exact M|].
    destruct (worker_move c s x I (Hin x (or_introl eq_refl))) as [Hi|[He|M]].
    + right. intros w [E|Hw]; [subst; left; exact Hi|apply A; exact Hw].
    + right. intros w [E|Hw]; [subst; right; exact He|apply A; exact Hw].
    + left. exact M.
Qed.

Lemma forallb_false_exists : forall (f : nat -> bool) l, forallb f l = false -> exists x, In x l /\ f x = false.
Proof.
  intros f l. induction l as [|x l IH]; simpl; intros H; [discriminate|].
  destruct (f x) eqn:E.
  - destruct (IH H) as [y [Hy Hf]]. exists y. split; [right; exact Hy|exact Hf].
  - exists x. split; [left; reflexivity|exact E].
Qed.

Theorem no_deadlock_inv : forall c s, valid_cfg c = true -> Inv c s -> finalb c s = false -> moves c s.
Proof.
  intros c s V I NF.
  destruct (pool_scan c s (pool c) I (fun w H => H)) as [M|A]; [exact M|].
  destruct (valid_pool_nonempty c V) as [w0 Hw0].
  destruct (inv_fin c s I) as [Hnf|[Hf Hj]].
  - (* no Finish sent yet: every worker is idle on the stack *)
    assert (Idle : forall w, In w (pool c) -> idleP s w).
    { intros w Hw. destruct (A w Hw) as [H|H]; [exact H|].
      pose proof (exited_shape s w (inv_links c s I w Hw) H) as Hs.
      destruct (finish_shape s w (inv_links c s I w Hw) Hs) as (_ & _ & Hf & _).
      rewrite (Hnf w Hw) in Hf. discriminate. }
    pose proof (root_running c s w0 I Hw0 (Hnf w0 Hw0)) as Hroot.
    assert (Incl : incl (pool c) (wstack s)).
    { intros w Hw. apply memb_In. apply (Idle w Hw). }
    destruct (jobstack s) as [|j js] eqn:Hjs.
    + (* all jobs dispatched and reported: check_workers sends Finish *)
      assert (T : finish_targets c s = pool c).
      { unfold finish_targets, finish_cond. rewrite Hjs.
        pose proof (NoDup_incl_length (pool_NoDup c) Incl) as Hlen. unfold nprocs.
        apply Nat.leb_le in Hlen. rewrite Hlen.
        apply filter_all. intros w Hw. rewrite (Hnf w Hw). reflexivity. }
      assert (NE : exists p ps, pool c = p :: ps).
      { destruct (pool c) as [|p ps]; [destruct Hw0|exists p, ps; reflexivity]. }
      destruct NE as (p & ps & Hp).
      exists (ECheck [] (pool c)), (finish_all (pool c) s). repeat split.
      unfold step. rewrite Hroot. rewrite Hp at 1. cbv beta iota.
      rewrite check_loop_nil, T, list_eqb_refl. reflexivity.
    + (* a job and an idle worker: order() dispatches *)
      destruct (wstack s) as [|w ws] eqn:Hws; [destruct (Incl w0 Hw0)|].
      exists (EOrder (order_pairs s)), (do_order s). repeat split.
      assert (E : order_pairs s = (j, w) :: combine js ws) by (unfold order_pairs; rewrite Hjs, Hws; reflexivity).
      unfold step. rewrite Hroot. rewrite E at 1. cbv beta iota. rewrite pairs_eqb_refl. reflexivity.
  - (* Finish sent to all: every worker has left; only a master-only root can remain *)
    assert (Gone : forall w, In w (pool c) -> exited s w = true).
    { intros w Hw. destruct (A w Hw) as [(_ & H & _)|H]; [|exact H]. rewrite (Hf w Hw) in H. discriminate. }
    unfold finalb in NF. apply forallb_false_exists in NF. destruct NF as [r [Hr He]].
    apply in_ranks in Hr.
    assert (Hnp : ~ In r (pool c)) by (intros Hp; rewrite (Gone r Hp) in He; discriminate).
    destruct (not_pool c r Hr Hnp) as [E Hib]. subst r.
    exists (EExit 0), (do_exit 0 s). repeat split. simpl.
    apply Nat.ltb_lt in Hr. rewrite Hr, He. simpl.
    unfold loop_done, is_worker. rewrite Hib, Hr. simpl.
    assert (F : forallb (wfin s) (pool c) = true) by (apply forallb_forall; exact Hf).
    rewrite F. reflexivity.
Qed.

(** no_deadlock: in every reachable state in which some rank is still inside the dispatch loop, some
    non-stuttering event of the current round is enabled. *)
Theorem no_deadlock : forall c s, valid_cfg c = true -> reachable c s -> finalb c s = false ->
  exists e, stutter e = false /\ is_newround e = false /\ enabled c s e = true.
Proof.
  intros c s V R NF. destruct (no_deadlock_inv c s V (inv_reachable c s R) NF) as (e & s' & H1 & H2 & H3).
  exists e. repeat split; try assumption. unfold enabled. rewrite H3. reflexivity.
Qed.

(** * Progress measure *)

Definition msg_w (m : msg) : nat := match m with MWork _ => 3 | MFinish => 2 | MPend => 1 end.
Fixpoint chan_w (l : list msg) : nat := match l with [] => 0 | m :: l' => msg_w m + chan_w l' end.
Definition st_w (st : wstat) : nat := match st with Work _ => 2 | _ => 0 end.

(** remaining protocol steps on one link *)
Definition link_mu (s : sys) (w : wid) : nat :=
  chan_w (chan s w) + st_w (wst s w) + (if wfin s w then 0 else 3).

(** 4 per job still on the stack (order, receive, run+report, completion seen), the remaining steps of every
    link (incl. send Finish, receive Finish), 1 per rank still in the loop *)
Definition mu (c : cfg) (s : sys) : nat :=
  4 * length (jobstack s) + sumf (link_mu s) (pool c) + sumf (fun r => b2n (negb (exited s r))) (ranks c).

Lemma chan_w_app : forall a b, chan_w (a ++ b) = chan_w a + chan_w b.
Proof. induction a as [|m a IH]; intros b; simpl; [reflexivity|rewrite IH; lia]. Qed.

Lemma mu_link_change : forall c s s' w, In w (pool c) ->
  (forall x, x <> w -> link_mu s' x = link_mu s x) ->
  sumf (link_mu s') (pool c) + link_mu s w = sumf (link_mu s) (pool c) + link_mu s' w.
Proof.
  intros c s s' w Hp H. apply sumf_change; [apply pool_NoDup|exact Hp|]. intros x _ Hx. apply H. exact Hx.
Qed.

Lemma mu_order_one : forall c s j0 js w0 ws, Inv c s -> jobstack s = j0 :: js -> wstack s = w0 :: ws ->
  mu c (order_worker w0 j0 (set_stacks js ws s)) + 1 = mu c s.
Proof.
  intros c s j0 js w0 ws I Hj Hw.
  assert (Hp0 : In w0 (pool c)) by (apply (inv_ws_pool c s I); rewrite Hw; left; reflexivity).
  pose proof (mu_link_change c s (order_worker w0 j0 (set_stacks js ws s)) w0 Hp0) as F.
  assert (L0 : link_mu (order_worker w0 j0 (set_stacks js ws s)) w0 = link_mu s w0 + 3).
  { unfold link_mu; simpl. upds. rewrite chan_w_app. simpl. lia. }
  assert (Lx : forall x, x <> w0 -> link_mu (order_worker w0 j0 (set_stacks js ws s)) x = link_mu s x).
  { intros x Hx. unfold link_mu; simpl. upds. reflexivity. }
  specialize (F Lx). unfold mu. simpl. rewrite Hj. simpl. lia.
Qed.

Lemma mu_order_loop : forall c js ws s, Inv c s -> jobstack s = js -> wstack s = ws ->
  mu c (order_loop js ws s) + length (combine js ws) = mu c s.
Proof.
  intros c js. induction js as [|j js IH]; intros ws s I Hj Hw; simpl; [lia|].
  destruct ws as [|w ws]; simpl; [lia|].
  pose proof (mu_order_one c s j js w ws I Hj Hw) as M.
  rewrite <- M. rewrite <- (IH ws (order_worker w j (set_stacks js ws s))); [lia| |reflexivity|reflexivity].
  apply inv_order_one; assumption.
Qed.

Lemma mu_see : forall c s w s', Inv c s -> In w (pool c) -> see w s = Some s' -> mu c s' + 1 = mu c s.
Proof.
  intros c s w s' I Hp Hsee. unfold see in Hsee.
  destruct (outst s w) eqn:Ho; [|discriminate].
  destruct (pend_match s w) as [l|] eqn:Hm; [|discriminate].
  injection Hsee as Hs'.
  destruct (pend_match_shape s w l (inv_links c s I w Hp) Ho Hm) as (El & Hc & Hs & Hmem & Hf & He & Hpo).
  subst l.
  pose proof (mu_link_change c s s' w Hp) as F.
  assert (L0 : link_mu s' w + 1 = link_mu s w).
  { subst s'. unfold link_mu; simpl. upds. rewrite Hc. simpl. lia. }
  assert (Lx : forall x, x <> w -> link_mu s' x = link_mu s x).
  { intros x Hx. subst s'. unfold link_mu; simpl. upds. reflexivity. }
  specialize (F Lx). unfold mu. subst s'. simpl in *. lia.
Qed.

Lemma mu_check_loop : forall c ws seen s s', (forall w, In w ws -> In w (pool c)) -> Inv c s ->
  check_loop ws seen s = Some s' -> mu c s' + length seen = mu c s.
Proof.
  intros c ws. induction ws as [|w ws IH]; intros seen s s' Hin I H; simpl in H.
  - destruct seen; [inversion H; subst; simpl; lia|discriminate].
  - destruct seen as [|w' seen']; [inversion H; subst; simpl; lia|].
    destruct (Nat.eqb_spec w w') as [E|E].
    + destruct (see w s) as [s1|] eqn:Hsee; [|discriminate].
      assert (Hp : In w (pool c)) by (apply Hin; left; reflexivity).
      pose proof (mu_see c s w s1 I Hp Hsee) as M.
      pose proof (IH seen' s1 s' (fun x Hx => Hin x (or_intror Hx)) (inv_see c s w s1 I Hp Hsee) H) as M'.
      simpl. lia.
    + apply (IH (w' :: seen') s s'); [intros x Hx; apply Hin; right; exact Hx|exact I|exact H].
Qed.

Lemma sumf_dec_all : forall f g l, (forall x, In x l -> g x + 1 = f x) -> sumf g l + length l = sumf f l.
Proof.
  intros f g l. induction l as [|x l IH]; intros H; simpl; [reflexivity|].
  pose proof (H x (or_introl eq_refl)). rewrite <- IH; [lia|]. intros y Hy. apply H. right. exact Hy.
Qed.

Lemma mu_finish : forall c s, Inv c s ->
  mu c (finish_all (finish_targets c s) s) + length (finish_targets c s) = mu c s.
Proof.
  intros c s I. destruct (finish_targets_cases c s I) as [E|(E & Hj & Hall)]; rewrite E; [simpl; lia|].
  destruct (finish_all_fields (pool c) s) as (H1 & H2 & H3 & H4 & H5 & H6 & H7 & H8 & H9 & H10 & H11).
  pose proof (finish_all_wfin (pool c) s) as Hwf.
  pose proof (fun w => finish_all_chan (pool c) s w (pool_NoDup c)) as Hch.
  unfold mu. rewrite H1, H8.
  rewrite <- (sumf_dec_all (link_mu s) (link_mu (finish_all (pool c) s)) (pool c)); [unfold wid, job in *; lia|].
  intros w Hw. destruct (Hall w Hw) as (Hm & Ho & Hf & Hc & Hs & He).
  unfold link_mu. rewrite H6, Hwf, Hch. apply memb_In in Hw. rewrite Hw, Hf, Hc, Hs. simpl. reflexivity.
Qed.

Lemma mu_recv : forall c s w m l, Inv c s -> In w (pool c) -> wst s w = Pending ->
  wild_match s w = Some (m, l) -> mu c (do_recv w m l s) < mu c s.
Proof.
  intros c s w m l I Hp Hs Hm.
  destruct (wild_match_shape s w m l (inv_links c s I w Hp) Hs Hm) as (El & He & Hcase). subst l.
  pose proof (mu_link_change c s (do_recv w m [] s) w Hp) as F.
  assert (Lx : forall x, x <> w -> link_mu (do_recv w m [] s) x = link_mu s x).
  { intros x Hx. unfold link_mu; simpl. upds. reflexivity. }
  specialize (F Lx).
  assert (L0 : link_mu (do_recv w m [] s) w < link_mu s w).
  { unfold link_mu; simpl. upds. rewrite Hs.
    destruct Hcase as [(j & Ej & Hc & _)|(Ej & Hc & _)]; subst m; rewrite Hc; simpl; lia. }
  unfold mu. simpl in *. lia.
Qed.

Lemma mu_run : forall c s w j, Inv c s -> In w (pool c) -> wst s w = Work j -> mu c (do_run w j s) + 1 = mu c s.
Proof.
  intros c s w j I Hp Hs.
  destruct (work_shape s w j (inv_links c s I w Hp) Hs) as (Hmem & Ho & Hf & Hc & Hpo & He).
  pose proof (mu_link_change c s (do_run w j s) w Hp) as F.
  assert (Lx : forall x, x <> w -> link_mu (do_run w j s) x = link_mu s x).
  { intros x Hx. unfold link_mu; simpl. upds. reflexivity. }
  specialize (F Lx).
  assert (L0 : link_mu (do_run w j s) w + 1 = link_mu s w).
  { unfold link_mu; simpl. upds. rewrite Hs, Hc. simpl. lia. }
  unfold mu. simpl in *. lia.
Qed.

Lemma mu_exit : forall c s r, r < np c -> exited s r = false -> mu c (do_exit r s) + 1 = mu c s.
Proof.
  intros c s r Hr He. unfold mu. simpl.
  assert (Hi : In r (ranks c)) by (apply in_ranks; exact Hr).
  pose proof (sumf_change (fun x => b2n (negb (exited s x))) (fun x => b2n (negb (upd (exited s) r true x)))
                          (ranks c) r (ranks_NoDup c) Hi) as F.
  simpl in F. rewrite upd_same, He in F. simpl in F.
  assert (Hx : forall x, In x (ranks c) -> x <> r -> b2n (negb (upd (exited s) r true x)) = b2n (negb (exited s x))).
  { intros x _ Hne. upds. reflexivity. }
  specialize (F Hx).
  assert (Lk : sumf (link_mu (do_exit r s)) (pool c) = sumf (link_mu s) (pool c)) by reflexivity.
  rewrite Lk. lia.
Qed.

(** progress_measure: every non-stuttering step of a round strictly decreases the natural number [mu]. *)
Theorem progress_measure_inv : forall c s e s', Inv c s -> step c s e = Some s' ->
  stutter e = false -> is_newround e = false -> mu c s' < mu c s.
Proof.
  intros c s e s' I H Hst Hnr. destruct e as [l|seen fins|w m|w j|r|r|js]; simpl in H; try discriminate.
  - destruct (exited s 0); [discriminate|]. destruct l as [|p l]; [discriminate|].
    destruct (pairs_eqb (p :: l) (order_pairs s)) eqn:Hp; [|discriminate].
    inversion H; subst.
    pose proof (mu_order_loop c (jobstack s) (wstack s) s I eq_refl eq_refl) as M. fold (do_order s) in M.
    assert (Hlen : 0 < length (combine (jobstack s) (wstack s))).
    { fold (order_pairs s). destruct (order_pairs s); [destruct p; discriminate|simpl; lia]. }
    lia.
  - destruct (exited s 0); [discriminate|].
    destruct (match seen, fins with [], [] => true | _, _ => false end) eqn:Hne; [discriminate|].
    destruct (check_loop (pool c) seen s) as [s1|] eqn:Hc; [|discriminate].
    destruct (list_eqb fins (finish_targets c s1)) eqn:Hf; [|discriminate].
    inversion H; subst. apply list_eqb_eq in Hf. subst fins.
    pose proof (mu_check_loop c (pool c) seen s s1 (fun w Hw => Hw) I Hc) as M1.
    pose proof (mu_finish c s1 (inv_check_loop c (pool c) seen s s1 (fun w Hw => Hw) I Hc)) as M2.
    assert (0 < length seen + length (finish_targets c s1)).
    { destruct seen; [destruct (finish_targets c s1); [discriminate|simpl; lia]|simpl; lia]. }
    lia.
  - destruct (is_worker c w && negb (exited s w)) eqn:Hw; [|discriminate].
    apply andb_true_iff in Hw. destruct Hw as [Hw _]. apply in_pool in Hw.
    destruct (wst s w) eqn:Hs; try discriminate.
    destruct (wild_match s w) as [[m' l]|] eqn:Hm; [|discriminate].
    destruct (msg_eqb m m') eqn:Hmm; [|discriminate].
    apply msg_eqb_eq in Hmm. subst m'. inversion H; subst. apply mu_recv; assumption.
  - destruct (is_worker c w && negb (exited s w)) eqn:Hw; [|discriminate].
    apply andb_true_iff in Hw. destruct Hw as [Hw _]. apply in_pool in Hw.
    destruct (wst s w) as [|j'|] eqn:Hs; try discriminate.
    destruct (Nat.eqb_spec j j') as [E|E]; [|discriminate]. subst j'.
    inversion H; subst. pose proof (mu_run c s w j I Hw Hs). lia.
  - destruct ((r <? np c) && negb (exited s r) && loop_done c s r) eqn:Hc; [|discriminate].
    apply andb_true_iff in Hc. destruct Hc as [Hc Hd]. apply andb_true_iff in Hc. destruct Hc as [Hr He].
    apply Nat.ltb_lt in Hr. apply negb_true_iff in He. inversion H; subst.
    pose proof (mu_exit c s r Hr He). lia.
Qed.

Theorem progress_measure : forall c s e s', reachable c s -> step c s e = Some s' ->
  stutter e = false -> is_newround e = false -> mu c s' < mu c s.
Proof. intros c s e s' R. apply progress_measure_inv. apply inv_reachable. exact R. Qed.

Lemma stutter_same : forall c s e s', step c s e = Some s' -> stutter e = true -> s' = s.
Proof.
  intros c s e s' H Hs. destruct e; try discriminate. simpl in H.
  destruct ((r <? np c) && negb (exited s r)); [|discriminate]. inversion H. reflexivity.
Qed.

(** value of the measure at the start of a round: 4 J + 3 Nprocs + P *)
Lemma sumf_const : forall k l f, (forall x, In x l -> f x = k) -> sumf f l = k * length l.
Proof.
  intros k l f. induction l as [|x l IH]; intros H; simpl; [lia|].
  rewrite H by (left; reflexivity). rewrite IH; [lia|]. intros y Hy. apply H. right. exact Hy.
Qed.

Lemma mu_init : forall c js s, is_init c js s -> mu c s = 4 * length js + 3 * nprocs c + np c.
Proof.
  intros c js s (Hj & Hw & Ho & Hf & Hd & Ha & Hs & Hc & He & Hl & Her). unfold mu. rewrite Hj.
  rewrite (sumf_const 3 (pool c)); [|intros x _; unfold link_mu; rewrite Hc, Hs, Hf; reflexivity].
  rewrite (sumf_const 1 (ranks c)); [|intros x _; rewrite He; reflexivity].
  unfold nprocs, ranks. rewrite seq_length. unfold wid, job in *. lia.
Qed.

(** number of non-stuttering events in a trace *)
Definition work (t : list event) : nat := length (filter (fun e => negb (stutter e)) t).
Definition newrounds (t : list event) : list (list job) :=
  flat_map (fun e => match e with ENewRound js => [js] | _ => [] end) t.

(** Consequence (termination under weak fairness): within one round at most [mu] non-stuttering steps can be
    taken from any state, whatever the interleaving; together with [no_deadlock] (a non-stuttering step is
    always available until every rank has left the loop) every fair run of a round ends with all ranks out
    of the loop after at most 4 J + 3 Nprocs + P non-stuttering steps. *)
Theorem bounded_work_inv : forall c t s s', Inv c s -> run c s t = Some s' -> newrounds t = [] ->
  mu c s' + work t <= mu c s.
Proof.
  intros c t. induction t as [|e t IH]; intros s s' I H Hn; simpl in H.
  - inversion H; subst. unfold work; simpl. lia.
  - destruct (step c s e) as [s1|] eqn:Hs; [|discriminate].
    assert (Hnr : is_newround e = false /\ newrounds t = []).
    { unfold newrounds in *. simpl in Hn. destruct e; simpl in *; try (split; [reflexivity|exact Hn]). discriminate. }
    destruct Hnr as [Hnr Hnt].
    pose proof (IH s1 s' (inv_step c s e s1 I Hs) H Hnt) as M.
    unfold work in *. simpl. destruct (stutter e) eqn:Hst; simpl.
    + rewrite (stutter_same c s e s1 Hs Hst) in M. exact M.
    + pose proof (progress_measure_inv c s e s1 I Hs Hst Hnr). lia.
Qed.

Theorem bounded_work : forall c js t s', NoDup js -> run c (init c js) t = Some s' -> newrounds t = [] ->
  work t <= 4 * length js + 3 * nprocs c + np c.
Proof.
  intros c js t s' Hn H Hnr.
  pose proof (bounded_work_inv c t (init c js) s' (inv_of_init c js _ Hn (init_is_init c js)) H Hnr) as M.
  rewrite (mu_init c js (init c js) (init_is_init c js)) in M. lia.
Qed.

Lemma run_cons : forall c s e t,
  run c s (e :: t) = match step c s e with Some s' => run c s' t | None => None end.
Proof. reflexivity. Qed.

Lemma run_app : forall c t1 t2 s s1 s2, run c s t1 = Some s1 -> run c s1 t2 = Some s2 -> run c s (t1 ++ t2) = Some s2.
Proof.
  intros c t1. induction t1 as [|e t1 IH]; intros t2 s s1 s2 H1 H2; simpl in *.
  - inversion H1; subst. exact H2.
  - destruct (step c s e) as [s'|]; [|discriminate]. apply (IH t2 s' s1 s2); assumption.
Qed.

Lemma newrounds_app : forall t1 t2, newrounds (t1 ++ t2) = newrounds t1 ++ newrounds t2.
Proof. intros. unfold newrounds. apply flat_map_app. Qed.

(** from every reachable state the round can be completed (the model is not vacuous, and no state is a trap) *)
Theorem can_finish_inv : forall c, valid_cfg c = true -> forall n s, mu c s <= n -> Inv c s ->
  exists t s', run c s t = Some s' /\ finalb c s' = true /\ newrounds t = [].
Proof.
  intros c V n. induction n as [|n IH]; intros s Hm I.
  - destruct (finalb c s) eqn:F.
    + exists [], s. repeat split. exact F.
    + destruct (no_deadlock_inv c s V I F) as (e & s1 & H1 & H2 & H3).
      pose proof (progress_measure_inv c s e s1 I H3 H1 H2). lia.
  - destruct (finalb c s) eqn:F.
    + exists [], s. repeat split. exact F.
    + destruct (no_deadlock_inv c s V I F) as (e & s1 & H1 & H2 & H3).
      pose proof (progress_measure_inv c s e s1 I H3 H1 H2) as Hlt.
      destruct (IH s1 ltac:(lia) (inv_step c s e s1 I H3)) as (t & s' & Hr & Hf & Hn).
      exists (e :: t), s'. repeat split.
      * simpl. rewrite H3. exact Hr.
      * exact Hf.
      * unfold newrounds in *. simpl. rewrite Hn. destruct e; simpl in *; try reflexivity. discriminate.
Qed.

Theorem can_finish : forall c s, valid_cfg c = true -> reachable c s ->
  exists t s', run c s t = Some s' /\ finalb c s' = true /\ newrounds t = [].
Proof. intros c s V R. apply (can_finish_inv c V (mu c s) s (le_n _)). apply inv_reachable. exact R. Qed.

(** * Final state *)
Require Import Permutation.

Lemma final_all_fin : forall c s, Inv c s -> final c s -> forall w, In w (pool c) -> wfin s w = true.
Proof. intros c s I F w Hw. apply (final_links c s w I F Hw). Qed.

Lemma final_executed : forall c s, valid_cfg c = true -> Inv c s -> final c s ->
  jobstack s = [] /\ forall j, executed j s = cnt j (alljobs s).
Proof.
  intros c s V I F. destruct (valid_pool_nonempty c V) as [w0 Hw0].
  destruct (all_fin_of_one c s w0 I Hw0 (final_all_fin c s I F w0 Hw0)) as [Hall Hj].
  split; [exact Hj|]. intros j.
  assert (Fl : in_flight c j s = 0).
  { unfold in_flight. apply sumf_zero. intros x Hx. rewrite (fin_no_active c s x I Hx (Hall x Hx)). reflexivity. }
  pose proof (inv_cons c s I j) as C. unfold on_stack in C. rewrite Hj in C. simpl in C. lia.
Qed.

(** final_state: when every rank has left the loop, every job of the round has been executed exactly once
    (the list of executed jobs is a duplicate-free permutation of the round's jobs), DispatchMap is defined
    exactly on the round's jobs and names the rank that ran each job (so each job ran on exactly one rank),
    no message is in flight on any link, no receive of the master is outstanding, and the model never left
    its envelope. *)
Theorem final_state : forall c s, valid_cfg c = true -> reachable c s -> finalb c s = true ->
  (forall j, In j (alljobs s) -> executed j s = 1) /\
  (forall j, ~ In j (alljobs s) -> executed j s = 0) /\
  NoDup (map fst (log s)) /\ Permutation (map fst (log s)) (alljobs s) /\
  (forall j w, In (j, w) (log s) -> dmap s j = Some w /\ In w (pool c)) /\
  (forall j, In j (alljobs s) -> exists w, In (j, w) (log s) /\ dmap s j = Some w) /\
  (forall j w, dmap s j = Some w -> In j (alljobs s)) /\
  (forall w, chan s w = []) /\ (forall w, In w (pool c) -> outst s w = false) /\
  jobstack s = [] /\ err s = false.
Proof.
  intros c s V R Fb. pose proof (inv_reachable c s R) as I. apply finalb_final in Fb.
  destruct (final_executed c s V I Fb) as [Hj Hex].
  assert (Hnd : NoDup (map fst (log s))).
  { apply NoDup_of_cnt. intros j. unfold executed in Hex. rewrite Hex. apply cnt_NoDup. apply (inv_jobs_nodup c s I). }
  assert (Hiff : forall j, In j (map fst (log s)) <-> In j (alljobs s)).
  { intros j. rewrite <- !cnt_pos_In. unfold executed in Hex. rewrite Hex. tauto. }
  repeat split.
  - intros j Hi. rewrite Hex. apply cnt_NoDup_In; [apply (inv_jobs_nodup c s I)|exact Hi].
  - intros j Hi. rewrite Hex. apply cnt_zero_notIn. exact Hi.
  - exact Hnd.
  - apply NoDup_Permutation; [exact Hnd|apply (inv_jobs_nodup c s I)|exact Hiff].
  - apply (inv_dmap_log c s I j w H).
  - apply (inv_dmap_log c s I j w H).
  - intros j Hi. apply Hiff in Hi. apply in_map_iff in Hi. destruct Hi as [[j' w] [E Hi]]. simpl in E. subst j'.
    exists w. split; [exact Hi|apply (inv_dmap_log c s I j w Hi)].
  - apply (inv_dmap_dom c s I).
  - intros w. apply (final_chan_empty c s w I Fb).
  - intros w Hw. apply (final_links c s w I Fb Hw).
  - exact Hj.
  - apply (inv_err c s I).
Qed.

(** each job ran on exactly one rank *)
Corollary final_one_rank : forall c s, reachable c s -> forall j w w',
  In (j, w) (log s) -> In (j, w') (log s) -> w = w'.
Proof.
  intros c s R j w w' H1 H2. pose proof (inv_reachable c s R) as I.
  destruct (inv_dmap_log c s I j w H1) as [E1 _]. destruct (inv_dmap_log c s I j w' H2) as [E2 _]. congruence.
Qed.

(** the executable end-of-round check used by the replay driver is implied by the theorems *)
Theorem final_check : forall c s, valid_cfg c = true -> reachable c s -> finalb c s = true -> final_okb c s = true.
Proof.
  intros c s V R Fb. pose proof (inv_reachable c s R) as I.
  destruct (final_state c s V R Fb) as (H1 & H2 & H3 & H4 & H5 & H6 & H7 & H8 & H9 & H10 & H11).
  pose proof Fb as Fp. apply finalb_final in Fp.
  assert (A1 : forallb (fun w => match chan s w with [] => true | _ => false end) (ranks c) = true).
  { apply forallb_forall. intros w _. rewrite H8. reflexivity. }
  assert (A2 : forallb (fun j => cnt j (map fst (log s)) =? 1) (alljobs s) = true).
  { apply forallb_forall. intros j Hj. apply Nat.eqb_eq. apply (H1 j Hj). }
  assert (A3 : (length (log s) =? length (alljobs s)) = true).
  { apply Nat.eqb_eq. rewrite <- (map_length fst). apply Permutation_length. exact H4. }
  assert (A4 : forallb (fun jw => opt_is (dmap s (fst jw)) (snd jw)) (log s) = true).
  { apply forallb_forall. intros [j w] Hi. simpl. destruct (H5 j w Hi) as [E _]. rewrite E. simpl. apply Nat.eqb_refl. }
  assert (A5 : forallb (fun w => match wst s w with Finish => true | _ => false end) (pool c) = true).
  { apply forallb_forall. intros w Hw. destruct (final_links c s w I Fp Hw) as (E & _). rewrite E. reflexivity. }
  assert (A6 : forallb (wfin s) (pool c) = true).
  { apply forallb_forall. intros w Hw. apply (final_all_fin c s I Fp w Hw). }
  unfold final_okb. rewrite Fb, H10, H11, (final_no_outst c s I Fp), A1, A2, A3, A4, A5, A6. reflexivity.
Qed.

(** * Rounds *)

(** rounds: in a final state the next round may start; the state it starts in -- new master, new workers,
    and whatever the previous round left in the MPI layer -- is a valid initial state (pointwise equal to
    [init] up to the round counter).  Since [ENewRound] is an event of [step], [reachable] already ranges
    over any number of rounds, so every theorem above holds in every round. *)
Theorem rounds : forall c s js, reachable c s -> finalb c s = true -> NoDup js ->
  step c s (ENewRound js) = Some (restart c s js) /\ is_init c js (restart c s js) /\
  reachable c (restart c s js).
Proof.
  intros c s js R Fb Hn. pose proof (inv_reachable c s R) as I.
  assert (S : step c s (ENewRound js) = Some (restart c s js)).
  { simpl. unfold finalb in Fb. rewrite Fb, (NoDup_nodupb js Hn). reflexivity. }
  split; [exact S|]. split; [apply restart_is_init; [exact I|apply finalb_final; exact Fb]|].
  destruct R as (js0 & t & Hn0 & Hr). exists js0, (t ++ [ENewRound js]). split; [exact Hn0|].
  apply (run_app c t [ENewRound js] (init c js0) s); [exact Hr|]. rewrite run_cons, S. reflexivity.
Qed.

(** any number of rounds, each with its own job list, can be run to completion, and at the end of the
    last one the end-of-round check holds *)
Theorem rounds_exist : forall c, valid_cfg c = true -> forall jss s, reachable c s ->
  (forall js, In js jss -> NoDup js) ->
  exists t s', run c s t = Some s' /\ finalb c s' = true /\ final_okb c s' = true /\ newrounds t = jss.
Proof.
  intros c V jss. induction jss as [|js jss IH]; intros s R Hnd.
  - destruct (can_finish c s V R) as (t & s' & Hr & Hf & Hn). exists t, s'. repeat split; try assumption.
    apply final_check; [exact V| |exact Hf].
    destruct R as (js0 & t0 & Hn0 & Hr0). exists js0, (t0 ++ t). split; [exact Hn0|].
    apply (run_app c t0 t (init c js0) s); assumption.
  - destruct (can_finish c s V R) as (t & s1 & Hr & Hf & Hn).
    assert (R1 : reachable c s1).
    { destruct R as (js0 & t0 & Hn0 & Hr0). exists js0, (t0 ++ t). split; [exact Hn0|].
      apply (run_app c t0 t (init c js0) s); assumption. }
    destruct (rounds c s1 js R1 Hf (Hnd js (or_introl eq_refl))) as (S & _ & R2).
    destruct (IH (restart c s1 js) R2 (fun x Hx => Hnd x (or_intror Hx))) as (t2 & s' & Hr2 & Hf2 & Hk2 & Hn2).
    exists (t ++ ENewRound js :: t2), s'. repeat split; try assumption.
    + apply (run_app c t (ENewRound js :: t2) s s1); [exact Hr|]. rewrite run_cons, S. exact Hr2.
    + rewrite newrounds_app, Hn. simpl. unfold newrounds in *. simpl. rewrite Hn2. reflexivity.
Qed.

(** * Examples: the hypotheses of the theorems are satisfiable by non-trivial values *)

(** 3 ranks with the root working (include_boss), 4 jobs in the order 2,0,3,1; a complete round in which the
    master first misses worker 1's report, jobs run on all three ranks, followed by a second round of 1 job *)
Definition ex_cfg := mkcfg 3 true.
Definition ex_trace : list event :=
  [EOrder [(2,0); (0,1); (3,2)]; ERecv 1 (MWork 0); ERecv 0 (MWork 2); ERun 1 0; ERecv 2 (MWork 3);
   ERun 0 2; EIdle 0; ECheck [0] []; EOrder [(1,0)]; ERun 2 3; ECheck [1; 2] []; ERecv 0 (MWork 1);
   ERun 0 1; ECheck [0] [0; 1; 2]; ERecv 2 MFinish; EExit 2; ERecv 0 MFinish; ERecv 1 MFinish; EExit 0; EExit 1].

Example ex_valid : valid_cfg ex_cfg = true.
Proof. reflexivity. Qed.

Example ex_run_final : exists s, run ex_cfg (init ex_cfg [2; 0; 3; 1]) ex_trace = Some s /\ finalb ex_cfg s = true
  /\ final_okb ex_cfg s = true /\ log s = [(1, 0); (3, 2); (2, 0); (0, 1)].
Proof. eexists. vm_compute. repeat split. Qed.

Example ex_reachable_nonfinal : exists s, reachable ex_cfg s /\ finalb ex_cfg s = false /\ jobstack s = [1].
Proof.
  exists (match run ex_cfg (init ex_cfg [2; 0; 3; 1]) (firstn 6 ex_trace) with Some s => s | None => init ex_cfg [] end).
  split; [|split; vm_compute; reflexivity].
  exists [2; 0; 3; 1], (firstn 6 ex_trace). split.
  - repeat constructor; simpl; intuition discriminate.
  - vm_compute. reflexivity.
Qed.

Example ex_two_rounds : exists s, run ex_cfg (init ex_cfg [2; 0; 3; 1])
    (ex_trace ++ [ENewRound [5]; EOrder [(5,0)]; ERecv 0 (MWork 5); ERun 0 5; ECheck [0] [0;1;2];
                  ERecv 0 MFinish; ERecv 1 MFinish; ERecv 2 MFinish; EExit 0; EExit 1; EExit 2]) = Some s
  /\ final_okb ex_cfg s = true /\ round s = 1 /\ log s = [(5, 0)].
Proof. eexists. vm_compute. repeat split. Qed.

(** a root that only runs the master (include_boss = false), 3 ranks, one job *)
Example ex_noboss : exists s, run (mkcfg 3 false) (init (mkcfg 3 false) [0])
    [EOrder [(0,1)]; ERecv 1 (MWork 0); ERun 1 0; ECheck [1] [1;2]; EExit 0; ERecv 2 MFinish; ERecv 1 MFinish;
     EExit 1; EExit 2] = Some s /\ final_okb (mkcfg 3 false) s = true.
Proof. eexists. vm_compute. repeat split. Qed.

(** negative examples: the step function refuses what the code cannot do *)
Example ex_refuse_early_finish :
  step ex_cfg (init ex_cfg [0]) (ECheck [] [0; 1; 2]) = None.
Proof. reflexivity. Qed.
Example ex_refuse_steal : forall s, run ex_cfg (init ex_cfg [2; 0; 3; 1]) (firstn 6 ex_trace) = Some s ->
  step ex_cfg s (ERecv 0 MPend) = None.
Proof. intros s H. vm_compute in H. inversion H. reflexivity. Qed.

(** * The enumeration used for exhaustive exploration is complete *)

Lemma pairs_eqb_eq : forall a b, pairs_eqb a b = true -> a = b.
Proof.
  induction a as [|[x1 x2] a IH]; destruct b as [|[y1 y2] b]; simpl; intros H; try discriminate; [reflexivity|].
  apply andb_true_iff in H. destruct H as [H H3]. apply andb_true_iff in H. destruct H as [H1 H2].
  apply Nat.eqb_eq in H1. apply Nat.eqb_eq in H2. rewrite (IH b H3). subst. reflexivity.
Qed.

Lemma sublists_nil : forall (A : Type) (l : list A), In [] (sublists l).
Proof.
  intros A l. induction l as [|x l IH]; simpl; [left; reflexivity|]. apply in_or_app. right. exact IH.
Qed.

Lemma see_reportable : forall w s s', see w s = Some s' -> reportable s w = true.
Proof.
  intros w s s' H. unfold see in H. unfold reportable. destruct (outst s w); [|discriminate].
  destruct (pend_match s w); [reflexivity|discriminate].
Qed.

Lemma see_reportable_other : forall w s s' x, see w s = Some s' -> x <> w -> reportable s' x = reportable s x.
Proof.
  intros w s s' x H Hx. unfold see in H. destruct (outst s w); [|discriminate].
  destruct (pend_match s w) as [l|]; [|discriminate]. injection H as H. subst s'.
  unfold reportable, pend_match, wildcard_posted. simpl. upds. reflexivity.
Qed.

Lemma filter_ext_in' : forall (f g : nat -> bool) l, (forall x, In x l -> f x = g x) -> filter f l = filter g l.
Proof.
  intros f g l. induction l as [|x l IH]; intros H; simpl; [reflexivity|].
  rewrite (H x (or_introl eq_refl)). rewrite IH; [reflexivity|]. intros y Hy. apply H. right. exact Hy.
Qed.

Lemma check_loop_sublist : forall ws seen s s1, NoDup ws -> check_loop ws seen s = Some s1 ->
  In seen (sublists (filter (reportable s) ws)).
Proof.
  induction ws as [|w ws IH]; intros seen s s1 Hn H; simpl in H.
  - destruct seen; [left; reflexivity|discriminate].
  - inversion Hn as [|y l Hw Hn']; subst.
    destruct seen as [|w' seen']; [apply sublists_nil|].
    destruct (Nat.eqb_spec w w') as [E|E].
    + subst w'. destruct (see w s) as [s'|] eqn:Hs; [|discriminate].
      simpl. rewrite (see_reportable w s s' Hs). simpl. apply in_or_app. left. apply in_map.
      unfold wid in *. rewrite (filter_ext_in' (reportable s) (reportable s') ws).
      * apply (IH seen' s' s1 Hn' H).
      * intros x Hx. symmetry. apply (see_reportable_other w s s' x Hs). intros Ex. subst. contradiction.
    + pose proof (IH (w' :: seen') s s1 Hn' H) as Hi. simpl.
      destruct (reportable s w); [simpl; apply in_or_app; right; exact Hi|exact Hi].
Qed.

(** every enabled non-stuttering event of the current round is in [candidates]: the exploration of the
    extracted model that the check performs for small configurations visits ALL interleavings *)
Theorem candidates_complete : forall c s e s', step c s e = Some s' -> stutter e = false -> is_newround e = false ->
  In e (candidates c s).
Proof.
  intros c s e s' H Hst Hnr. unfold candidates. apply filter_In. split; [|unfold enabled; rewrite H; reflexivity].
  destruct e as [l|seen fins|w m|w j|r|r|js]; simpl in H; try discriminate.
  - destruct (exited s 0); [discriminate|]. destruct l as [|p l]; [discriminate|].
    destruct (pairs_eqb (p :: l) (order_pairs s)) eqn:Hp; [|discriminate]. apply pairs_eqb_eq in Hp.
    apply in_or_app. left. rewrite <- Hp. left. reflexivity.
  - destruct (exited s 0); [discriminate|].
    destruct (match seen, fins with [], [] => true | _, _ => false end); [discriminate|].
    destruct (check_loop (pool c) seen s) as [s1|] eqn:Hc; [|discriminate].
    destruct (list_eqb fins (finish_targets c s1)) eqn:Hf; [|discriminate]. apply list_eqb_eq in Hf. subst fins.
    apply in_or_app. right. apply in_or_app. left. apply in_flat_map. exists seen. split.
    + apply (check_loop_sublist (pool c) seen s s1 (pool_NoDup c) Hc).
    + rewrite Hc. left. reflexivity.
  - destruct (is_worker c w && negb (exited s w)) eqn:Hw; [|discriminate].
    apply andb_true_iff in Hw. destruct Hw as [Hw _]. apply in_pool in Hw.
    destruct (wst s w) eqn:Hs; try discriminate.
    destruct (wild_match s w) as [[m' l]|] eqn:Hm; [|discriminate].
    destruct (msg_eqb m m') eqn:Hmm; [|discriminate]. apply msg_eqb_eq in Hmm. subst m'.
    apply in_or_app. right. apply in_or_app. right. apply in_or_app. left. apply in_flat_map. exists w. split; [exact Hw|].
    rewrite Hm. apply in_or_app. left. left. reflexivity.
  - destruct (is_worker c w && negb (exited s w)) eqn:Hw; [|discriminate].
    apply andb_true_iff in Hw. destruct Hw as [Hw _]. apply in_pool in Hw.
    destruct (wst s w) as [|j'|] eqn:Hs; try discriminate.
    destruct (Nat.eqb_spec j j') as [E|E]; [|discriminate]. subst j'.
    apply in_or_app. right. apply in_or_app. right. apply in_or_app. left. apply in_flat_map. exists w. split; [exact Hw|].
    rewrite Hs. apply in_or_app. right. left. reflexivity.
  - destruct ((r <? np c) && negb (exited s r) && loop_done c s r) eqn:Hc; [|discriminate].
    apply andb_true_iff in Hc. destruct Hc as [Hc _]. apply andb_true_iff in Hc. destruct Hc as [Hr _].
    apply Nat.ltb_lt in Hr.
    apply in_or_app. right. apply in_or_app. right. apply in_or_app. right. apply in_map. apply in_ranks. exact Hr.
Qed.
