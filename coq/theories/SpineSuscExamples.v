(** Non-vacuity of the susceptibility spine: the Hubbard atom on exact rationals (PV.SpineExamples / PV.SpineBridgeExamples:
    E = (0, -1, -1, 1), beta = 1, the (N, S_z) partition PRODUCED BY THE SYMMETRY-ANALYSIS MODEL, four blocks of one state).

    The spin-flip susceptibility  A = c^+_0 c_1 (|dn> -> |up>),  B = c^+_1 c_0 (|up> -> |dn>):  the only pair of states with
    A_nm B_mn <> 0 is n = |up>, m = |dn>, two DIFFERENT states of EQUAL energy -1 -- a degenerate, resonant pair.  The library's
    part (block pair (1, 2)) stores no term at all and ZeroPoleWeight = w_up; at z = 0 the value is beta * w_up = 6/17, at
    z = 1/2 it is 0.  Both values are EDSpec.susc of the assembled eigen-data, by the general theorem. *)
Require Import Bool List Arith ZArith Lia QArith Qcanon Qcabs Ring_theory Field_theory.
From PV Require Import Outcome Fock Poly PolySem EDSpec HPart HPartSpec HPartProofs Sparse TermList GFPart GFPartProofs
     SuscPart SuscPartProofs
     Spine SpinePartition SpineOneBlock ChiSymmetryExamples SpineExamples SpineBridge SpineBridgeHam SpineBridgeMain SpineBridgeExamples
     SpineSusc SpineSuscPartition SpineSuscBridge.
From PV Require Symm SymmProofs.
From PVgen Require Import Gen_C01.
Import ListNotations.
Local Open Scope Qc_scope.

(** the tolerances of SpineExamples.T0 (MatrixElementTolerance 0, comparator tolerance 0, resonance tolerance 1/2) are exact for
    the susceptibility's tests too *)
Lemma T0_srel : forall R, susc_relevant Qc QcS (t_matrix_element Qc T0) R = false -> R = n0 Qc QcS.
Proof. exact T0_rel. Qed.
Lemma T0_scmp : forall a b, susc_compare Qc QcS (t_compare Qc T0) a b = false -> susc_compare Qc QcS (t_compare Qc T0) b a = true.
Proof. exact T0_cmp. Qed.

Definition hub_susc_run_symm : outcome (wres (list ((nat * nat) * spart_out Qc))) :=
  bind hub_class_run (fun c => spine_susc Qc QcS true 0 1 0 T0 true false (bridge 2 c) ED4 1 0 1 1 0).

(** [spine_susc_symmetry] applies: no hand-proved partition_ok / op_ok; the statement holds at every z *)
Example hub_susc_spine_symmetry :
  exists sy c parts D,
    hub_sy_run = Done sy /\ qc_sc_compute 2 (Symm.sy_ops sy) = Done c /\
    hub_susc_run_symm = Done (WDone parts) /\ spine_dm Qc QcS 1 (bridge 2 c) ED4 = Done D /\
    forall z : Qc,
    spine_susc_value Qc QcS parts 1 z =
    susc Qc QcS 1 (1 / (1 + 1)) (assembled_E Qc ED4) (assembled_w Qc D)
       (rotate Qc QcS 4 (assembled_U Qc QcS (bridge 2 c) ED4) (poly_matrix Qc QcS 2 (p_n_offdiag Qc 1 0 1)))
       (rotate Qc QcS 4 (assembled_U Qc QcS (bridge 2 c) ED4) (poly_matrix Qc QcS 2 (p_n_offdiag Qc 1 1 0)))
       z (z_is_zero Qc QcS z).
Proof.
  destruct hub_symmetry_partition as [sy [c [Esy [_ [Ec [_ Eb]]]]]].
  destruct (SymmProofs.default_candidates_shift_uniformly Qc (Q2Qc 0) (Q2Qc 1) Qcplus Qcmult Qcminus Qcopp SymmProofs.Qczero
              SymmProofs.Qchalf Qc_ring_ok false false (Symm.SymmDefault Qc) hub_spins hub_h sy I Esy) as [Hr Hu].
  assert (Erun : hub_susc_run_symm = spine_susc Qc QcS true 0 1 0 T0 true false (bridge 2 c) ED4 1 0 1 1 0).
  { unfold hub_susc_run_symm, hub_class_run. rewrite Esy. cbn [bind]. rewrite Ec. reflexivity. }
  assert (EO : eig_ok Qc (bridge 2 c) ED4) by (rewrite Eb; exact S4_eig_ok).
  destruct (spine_susc Qc QcS true 0 1 0 T0 true false (bridge 2 c) ED4 1 0 1 1 0) as [[parts| | |]| | | |] eqn:E;
    try (rewrite Eb in E; vm_compute in E; discriminate E).
  destruct (spine_susc_symmetry Qc (Q2Qc 0) (Q2Qc 1) Qcplus Qcmult Qcminus Qcopp SymmProofs.Qczero Qc_ring_ok Qc_10
              Qc QcS Qcinv QcS_ring QcS_div eq_refl true 0 eq_refl eq_refl eq_refl eq_refl
              1 0 keep0 T0 T0_srel T0_scmp 2%nat (Symm.sy_ops sy) c Hr Ec Hu ED4 0%nat 1%nat 1%nat 0%nat
              ltac:(lia) ltac:(lia) ltac:(lia) ltac:(lia) EO true false 1 0 parts E) as [D [HD _]].
  exists sy, c, parts, D. split; [exact Esy|]. split; [exact Ec|]. split; [exact Erun|]. split; [exact HD|].
  intros z.
  destruct (spine_susc_symmetry Qc (Q2Qc 0) (Q2Qc 1) Qcplus Qcmult Qcminus Qcopp SymmProofs.Qczero Qc_ring_ok Qc_10
              Qc QcS Qcinv QcS_ring QcS_div eq_refl true 0 eq_refl eq_refl eq_refl eq_refl
              1 0 keep0 T0 T0_srel T0_scmp 2%nat (Symm.sy_ops sy) c Hr Ec Hu ED4 0%nat 1%nat 1%nat 0%nat
              ltac:(lia) ltac:(lia) ltac:(lia) ltac:(lia) EO true false 1 z parts E) as [D' [HD' Hv]].
  rewrite HD in HD'. injection HD' as <-. exact Hv.
Qed.

(** the values: beta * w_up = 6/17 at z = 0 (the zero test fires: |0| < 1e-15), nothing at z = 1/2; one part, block pair (1, 2),
    no stored term, ZeroPoleWeight = w_up = 6/17: the whole value is the degenerate zero-pole contribution *)
Definition hub_susc_value_symm (z : Qc) : Qc :=
  match hub_susc_run_symm with Done (WDone parts) => spine_susc_value Qc QcS parts 1 z | _ => 0 end.
Example hub_susc_value_zero_pole :
  hub_susc_value_symm 0 = Q2Qc (6 # 17) /\ hub_susc_value_symm 0 <> 0 /\ z_is_zero Qc QcS 0 = true /\
  hub_susc_value_symm hub_z = 0 /\ z_is_zero Qc QcS hub_z = false /\
  match hub_susc_run_symm with
  | Done (WDone parts) => map fst parts = ((1, 2) :: nil)%nat /\ map (fun p => so_terms Qc (snd p)) parts = (nil :: nil) /\
                          map (fun p => so_zero Qc (snd p)) parts = (Q2Qc (6 # 17) :: nil)
  | _ => False
  end.
Proof.
  assert (E : hub_susc_value_symm 0 = Q2Qc (6 # 17)) by (apply Qc_is_canon; vm_compute; reflexivity).
  split; [exact E|]. split; [rewrite E; intros H; apply (f_equal this) in H; vm_compute in H; discriminate H|].
  split; [vm_compute; reflexivity|]. split; [apply Qc_is_canon; vm_compute; reflexivity|]. split; [vm_compute; reflexivity|].
  assert (Er : exists parts, hub_susc_run_symm = Done (WDone parts)).
  { destruct hub_susc_spine_symmetry as [_ [_ [parts [_ [_ [_ [H _]]]]]]]. exists parts. exact H. }
  destruct Er as [parts Er]. rewrite Er.
  assert (E1 : match hub_susc_run_symm with Done (WDone ps) => map fst ps | _ => nil end = ((1, 2) :: nil)%nat) by (vm_compute; reflexivity).
  assert (E2 : match hub_susc_run_symm with Done (WDone ps) => map (fun p => so_terms Qc (snd p)) ps | _ => nil end = (nil :: nil))
    by (vm_compute; reflexivity).
  assert (E3 : match hub_susc_run_symm with Done (WDone ps) => map (fun p => this (so_zero Qc (snd p))) ps | _ => nil end
               = (this (Q2Qc (6 # 17)) :: nil)) by (vm_compute; reflexivity).
  rewrite Er in E1, E2, E3. split; [exact E1|]. split; [exact E2|].
  destruct parts as [|p [|q r]]; try discriminate E3. cbn [map] in E3 |- *. injection E3 as E3. f_equal. apply Qc_is_canon.
  rewrite E3. reflexivity.
Qed.

(** the right-hand side evaluated independently: EDSpec.susc on the assembled data of the atom gives the same numbers *)
Example hub_susc_spec_values :
  let D := match spine_dm Qc QcS 1 S4 ED4 with Done D => D | _ => nil end in
  let A := rotate Qc QcS 4 (assembled_U Qc QcS S4 ED4) (poly_matrix Qc QcS 2 (p_n_offdiag Qc 1 0 1)) in
  let B := rotate Qc QcS 4 (assembled_U Qc QcS S4 ED4) (poly_matrix Qc QcS 2 (p_n_offdiag Qc 1 1 0)) in
  susc Qc QcS 1 (1 / (1 + 1)) (assembled_E Qc ED4) (assembled_w Qc D) A B 0 true = Q2Qc (6 # 17) /\
  susc Qc QcS 1 (1 / (1 + 1)) (assembled_E Qc ED4) (assembled_w Qc D) A B hub_z false = 0 /\
  assembled_w Qc D = (Q2Qc (3 # 17) :: Q2Qc (6 # 17) :: Q2Qc (6 # 17) :: Q2Qc (2 # 17) :: nil).
Proof.
  cbv zeta. split; [apply Qc_is_canon; vm_compute; reflexivity|]. split; [apply Qc_is_canon; vm_compute; reflexivity|].
  assert (H : map this (assembled_w Qc (match spine_dm Qc QcS 1 S4 ED4 with Done D => D | _ => nil end)) =
              map this (Q2Qc (3 # 17) :: Q2Qc (6 # 17) :: Q2Qc (6 # 17) :: Q2Qc (2 # 17) :: nil)) by (vm_compute; reflexivity).
  revert H. generalize (assembled_w Qc (match spine_dm Qc QcS 1 S4 ED4 with Done D => D | _ => nil end)).
  intros l H. do 4 (destruct l as [|? l]; [discriminate H|]). destruct l; [|discriminate H].
  cbn [map] in H. injection H as H0 H1 H2 H3. repeat f_equal; apply Qc_is_canon; [rewrite H0|rewrite H1|rewrite H2|rewrite H3]; reflexivity.
Qed.

(** * [spine_susc_of_hamiltonian] instantiated: rationals with the discrete absolute value (SpineBridgeExamples.QcD), eps = 1/2,
    resonance tolerance 1/2 (with the discrete |.| the resonance test is "E_m = E_n" exactly) *)
Lemma TD_srel : forall R, susc_relevant Qc QcD (t_matrix_element Qc TD) R = false -> R = n0 Qc QcD.
Proof. exact TD_rel. Qed.
Lemma TD_scmp : forall a b, susc_compare Qc QcD (t_compare Qc TD) a b = false -> susc_compare Qc QcD (t_compare Qc TD) b a = true.
Proof. exact TD_cmp. Qed.

Definition hub_susc_run_D (c : Symm.qclass Qc) := spine_susc Qc QcD true eps_half 1 eps_half TD true false (bridge 2 c) ED4 1 0 1 1 0.

Example hub_susc_of_hamiltonian :
  exists c Hs parts D,
    hub_class_run = Done c /\ spine_hblocks Qc QcD true eps_half (bridge 2 c) hub_h = Done Hs /\
    (forall b, (b < 4)%nat -> eigensystem Qc QcD (block_size (bridge 2 c) b) (nth b Hs nil) (Uof Qc ED4 b) (Eof Qc ED4 b)) /\
    eigensystem Qc QcD 4 (poly_matrix Qc QcD 2 hub_h) (assembled_U Qc QcD (bridge 2 c) ED4) (assembled_E Qc ED4) /\
    hub_susc_run_D c = Done (WDone parts) /\ spine_dm Qc QcD 1 (bridge 2 c) ED4 = Done D /\
    spine_susc_value Qc QcD parts 1 0 =
    susc Qc QcD 1 eps_half (assembled_E Qc ED4) (assembled_w Qc D)
       (rotate Qc QcD 4 (assembled_U Qc QcD (bridge 2 c) ED4) (poly_matrix Qc QcD 2 (p_n_offdiag Qc 1 0 1)))
       (rotate Qc QcD 4 (assembled_U Qc QcD (bridge 2 c) ED4) (poly_matrix Qc QcD 2 (p_n_offdiag Qc 1 1 0))) 0 true /\
    spine_susc_value Qc QcD parts 1 0 = Q2Qc (6 # 17).
Proof.
  destruct (spine_susc_of_hamiltonian Qc QcD Qcinv Qcft SymmProofs.Qczero SymmProofs.Qchalf Qczero_spec eq_refl true eps_half
              eq_refl eq_refl eq_refl eq_refl QcD_zero_test 1 eps_half keepD TD TD_srel TD_scmp
              false false (Symm.SymmDefault Qc) hub_spins hub_h hub_sy hub_h_range I hub_sy_eq) as [c [Hs [Ec [HH F]]]].
  change (length hub_spins) with 2%nat in *.
  assert (Ecc : c = hub_c) by (pose proof hub_c_eq as E'; unfold qc_sc_compute in E'; cbn [n0 nadd nsub nopp QcD] in Ec; rewrite Ec in E';
      exact (f_equal (fun o : outcome (Symm.qclass Qc) => match o with Done x => x | _ => c end) E')).
  assert (Eb : bridge 2 c = S4) by (rewrite Ecc; vm_compute; reflexivity).
  assert (Ecl : hub_class_run = Done c) by (unfold hub_class_run; rewrite hub_sy_eq; cbn [bind]; exact Ec).
  assert (EO : eig_ok Qc (bridge 2 c) ED4) by (rewrite Eb; exact S4_eig_ok).
  assert (CERT : forall b, (b < 4)%nat -> eigensystem Qc QcD (block_size (bridge 2 c) b) (nth b Hs nil) (Uof Qc ED4 b) (Eof Qc ED4 b)).
  { revert HH. rewrite Eb. intros HH. vm_compute in HH. injection HH as <-. intros b Hb.
    do 4 (destruct b as [|b]; [split; intros r k Hr Hk; cbn in Hr, Hk;
                                 (destruct r as [|r]; [|lia]); (destruct k as [|k]; [|lia]); apply Qc_is_canon; vm_compute; reflexivity|]). lia. }
  destruct (F ED4 EO ltac:(intros b Hb; apply CERT; rewrite Eb in Hb; exact Hb)) as [EIG G].
  destruct (hub_susc_run_D c) as [[parts| | |]| | | |] eqn:E; try (unfold hub_susc_run_D in E; rewrite Eb in E; vm_compute in E; discriminate E).
  destruct (G 0%nat 1%nat 1%nat 0%nat ltac:(lia) ltac:(lia) ltac:(lia) ltac:(lia) true false 1 0 parts E) as [D [HD Hv]].
  exists c, Hs, parts, D. split; [exact Ecl|]. split; [exact HH|]. split; [exact CERT|]. split; [exact EIG|].
  split; [exact E|]. split; [exact HD|]. split; [exact Hv|].
  unfold hub_susc_run_D in E. rewrite Eb in E.
  assert (Ev : match spine_susc Qc QcD true eps_half 1 eps_half TD true false S4 ED4 1 0 1 1 0 with
               | Done (WDone ps) => spine_susc_value Qc QcD ps 1 0 | _ => 0 end = Q2Qc (6 # 17)) by (apply Qc_is_canon; vm_compute; reflexivity).
  rewrite E in Ev. exact Ev.
Qed.
