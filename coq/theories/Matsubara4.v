(** Model of MatsubaraContainer4<Vertex4>::fill / operator() (include/pomerol/MatsubaraContainers.h)
    and of Vertex4 (src/pomerol/Vertex4.cpp).

    All index arithmetic, loop bounds and conditions are the translator's output
    (PVgen.Gen_Matsubara4, regenerated from the header on every run); this file
    supplies only the storage and the control skeleton:  resize / write / read are
    bounds-checked and return [OOB] / [Uninit] instead of silently succeeding. *)
Require Import ZArith Bool List.
From PV Require Import Outcome.
From PVgen Require Import Gen_Matsubara4 Gen_Vertex4.
Local Open Scope Z_scope.

Section M4.
Variable T : Type.
Variable src : Z * Z * Z -> T.     (* pSource->value *)

(** std::vector<ComplexMatrixType> Values; std::vector<long> FermionicIndexOffset *)
Record storage := {
  nvals : Z;                         (* Values.size() *)
  noffs : Z;                         (* FermionicIndexOffset.size() *)
  dims  : Z -> Z * Z;                (* rows(), cols() of Values[V] *)
  offs  : Z -> Z;                    (* FermionicIndexOffset[V] *)
  cells : Z -> Z -> Z -> option T    (* Values[V](i,j); None = never written *)
}.

Definition empty_storage (nv no : Z) : storage :=
  {| nvals := nv; noffs := no; dims := fun _ => (0, 0); offs := fun _ => 0;
     cells := fun _ _ _ => None |}.

Definition set_dims (st : storage) (V r c : Z) : outcome storage :=
  if inb V (nvals st) && (0 <=? r) && (0 <=? c) then
    Done {| nvals := nvals st; noffs := noffs st;
            dims := fun v => if v =? V then (r, c) else dims st v;
            offs := offs st;
            cells := fun v => if v =? V then (fun _ _ => None) else cells st v |}
  else OOB.

Definition set_off (st : storage) (V o : Z) : outcome storage :=
  if inb V (noffs st) then
    Done {| nvals := nvals st; noffs := noffs st; dims := dims st;
            offs := fun v => if v =? V then o else offs st v;
            cells := cells st |}
  else OOB.

Definition set_cell (st : storage) (V i j : Z) (x : T) : outcome storage :=
  if inb V (nvals st) then
    let '(r, c) := dims st V in
    if inb i r && inb j c then
      Done {| nvals := nvals st; noffs := noffs st; dims := dims st; offs := offs st;
              cells := fun v a b => if (v =? V) && (a =? i) && (b =? j) then Some x
                                    else cells st v a b |}
    else OOB
  else OOB.

Definition fuelN (N : Z) : nat := Z.to_nat (8 * N + 8).

Definition fill_body (N : Z) (V : Z) (st : storage) : outcome storage :=
  let B := fill_bosonic N V in
  let S := fill_size N V B in
  bind (set_dims st V S S) (fun st1 =>
  bind (set_off st1 V (fill_offset N V B)) (fun st2 =>
  loop_up (fuelN N) (fill_nu_first N V B S) (fill_nu_cond N V B S) (fun nu st3 =>
    loop_up (fuelN N) (fill_nup_first N V B S) (fill_nup_cond N V B S) (fun nup st4 =>
      if forallb (fun i => inb i (noffs st4)) (fill_off_reads N V B S nu nup) then
        let n1 := fill_n1 (offs st4) N V B S nu nup in
        let n2 := fill_n2 (offs st4) N V B S nu nup n1 in
        let n3 := fill_n3 (offs st4) N V B S nu nup n1 n2 in
        let '(i, j) := fill_cell nu nup in
        set_cell st4 V i j (src (fill_src_args n1 n2 n3))
      else OOB) st3) st2)).

Definition fill (N : Z) : outcome storage :=
  if fill_is_empty N then Done (empty_storage 0 0)
  else loop_up (fuelN N) (fill_V_first N) (fill_V_cond N) (fill_body N)
               (empty_storage (fill_nvalues N) (fill_noffsets N)).

Definition lookup (st : storage) (N n1 n2 n3 : Z) : outcome T :=
  let V := lookup_V N n1 n2 n3 in
  if lookup_outer N V then
    if forallb (fun i => inb i (noffs st)) (lookup_off_reads N V n1 n2 n3) && inb V (nvals st) then
      let nu := lookup_nu (offs st) N V n1 n2 n3 in
      let nup := lookup_nup (offs st) N V n1 n2 n3 in
      let '(r, c) := dims st V in
      if lookup_inner nu nup r c then
        let '(i, j) := lookup_cell nu nup in
        if inb i r && inb j c then
          match cells st V i j with Some x => Done x | None => Uninit end
        else OOB
      else Done (src (lookup_src_args n1 n2 n3))
    else OOB
  else Done (src (lookup_src_args n1 n2 n3)).

(** Vertex4::compute(N) followed by operator()(n1,n2,n3) *)
Definition fill_then_lookup (N n1 n2 n3 : Z) : outcome T :=
  bind (fill N) (fun st => lookup st N n1 n2 n3).

End M4.

(** Executable instance used by the correspondence check: the source is the
    identity on triples, so the result shows which triple a cell was filled from. *)
Definition probe (N n1 n2 n3 : Z) : outcome (Z * Z * Z) :=
  fill_then_lookup (Z * Z * Z) (fun t => t) N n1 n2 n3.

(** number of cells written by [fill] (for the evidence: size of the window) *)
Definition window_cells (N : Z) : Z :=
  if fill_is_empty N then 0 else
  fold_left (fun acc V => let S := fill_size N V (fill_bosonic N V) in acc + S * S)
            (map Z.of_nat (seq 0 (Z.to_nat (fill_nvalues N)))) 0.
