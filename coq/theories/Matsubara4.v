(** Model of MatsubaraContainer4<Vertex4>::fill / operator() (include/pomerol/MatsubaraContainers.h)
    and of Vertex4 (src/pomerol/Vertex4.cpp).

    All index arithmetic, loop bounds and conditions are the translator's output
    (PVgen.Gen_Matsubara4, regenerated from the header on every run); this file
    supplies only the storage and the control skeleton:  resize / write / read are
    bounds-checked and return [OOB] / [Uninit] instead of silently succeeding. *)
Require Import ZArith Bool List.
From PV Require Import Outcome.
From PVgen Require Import Gen_Matsubara4 Gen_Vertex4.
Local Open Scope Z_scope.

Section M4.
Variable T : Type.
Variable src : Z * Z * Z -> T.     (* pSource->value *)

(** std::vector<ComplexMatrixType> Values; std::vector<long> FermionicIndexOffset *)
Record storage := {
  nvals : Z;                         (* Values.size() *)
  noffs : Z;                         (* FermionicIndexOffset.size() *)
  dims  : Z -> Z * Z;                (* rows(), cols() of Values[V] *)
  offs  : Z -> Z;                    (* FermionicIndexOffset[V] *)
  cells : Z -> Z -> Z -> option T    (* Values[V](i,j); None = never written *)
}.

Definition empty_storage (nv no : Z) : storage :=
  {| nvals := nv; noffs := no; dims := fun _ => (0, 0); offs := fun _ => 0;
     cells := fun _ _ _ => None |}.

Definition set_dims (st : storage) (V r c : Z) : outcome storage :=
  if inb V (nvals st) && (0 <=? r) && (0 <=? c) then
    Done {| nvals := nvals st; noffs := noffs st;
            dims := fun v => if v =? V then (r, c) else dims st v;
            offs := offs st;
            cells := fun v => if v =? V then (fun _ _ => None) else cells st v |}
  else OOB.

Definition set_off (st : storage) (V o : Z) : outcome storage :=
  if inb V (noffs st) then
    Done {| nvals := nvals st; noffs := noffs st; dims := dims st;
            offs := fun v => if v =? V then o else offs st v;
            cells := cells st |}
  else OOB.

Definition set_cell (st : storage) (V i j : Z) (x : T) : outcome storage :=
  if inb V (nvals st) then
    let '(r, c) := dims st V in
    if inb i r && inb j c then
      Done {| nvals := nvals st; noffs := noffs st; dims := dims st; offs := offs st;
              cells := fun v a b => if (v =? V) && (a =? i) && (b =? j) then Some x
                                    else cells st v a b |}
    else OOB
  else OOB.

Definition fuelN (N : Z) : nat := Z.to_nat (8 * N + 8).

Definition fill_body (N : Z) (V : Z) (st : storage) : outcome storage :=
  let B := fill_bosonic N V in
  let S := fill_size N V B in
  bind (set_dims st V S S) (fun st1 =>
  bind (set_off st1 V (fill_offset N V B)) (fun st2 =>
  loop_up (fuelN N) (fill_nu_first N V B S) (fill_nu_cond N V B S) (fun nu st3 =>
    loop_up (fuelN N) (fill_nup_first N V B S) (fill_nup_cond N V B S) (fun nup st4 =>
      if forallb (fun i => inb i (noffs st4)) (fill_off_reads N V B S nu nup) then
        let n1 := fill_n1 (offs st4) N V B S nu nup in
        let n2 := fill_n2 (offs st4) N V B S nu nup n1 in
        let n3 := fill_n3 (offs st4) N V B S nu nup n1 n2 in
        let '(i, j) := fill_cell nu nup in
        set_cell st4 V i j (src (fill_src_args n1 n2 n3))
      else OOB) st3) st2)).

(** Values.resize(nv); FermionicIndexOffset.resize(no) on an EXISTING storage, with
    std::vector::resize semantics: the sizes become nv / no; entries with index below
    min(old size, new size) keep their contents (for Values: the matrix with its dims and
    cells); every other entry is a default one: a 0x0 matrix without cells for Values, and 0
    for FermionicIndexOffset (new elements of a std::vector<long> are value-initialised,
    i.e. 0).  Entries at or beyond the new size do not exist any more: every access in this
    model is bounds-checked against nvals / noffs, and a later growing resize sees defaults
    there, not the old contents. *)
Definition resize_storage (st : storage) (nv no : Z) : storage :=
  {| nvals := nv; noffs := no;
     dims  := fun v => if inb v (Z.min (nvals st) nv) then dims st v else (0, 0);
     offs  := fun v => if inb v (Z.min (noffs st) no) then offs st v else 0;
     cells := fun v => if inb v (Z.min (nvals st) nv) then cells st v else (fun _ _ => None) |}.

(** MatsubaraContainer4::fill on a container whose vectors currently are [st]
    (Vertex4::compute may be called repeatedly on the same object, with any sequence of
    window sizes).  Nothing is discarded except by the two vector resizes and by the
    per-block matrix resize inside [fill_body] ([set_dims], which -- like Eigen's
    non-conservative resize -- leaves the block without initialised cells). *)
Definition fill_from (st : storage) (N : Z) : outcome storage :=
  if fill_is_empty N then Done (resize_storage st 0 0)
  else loop_up (fuelN N) (fill_V_first N) (fill_V_cond N) (fill_body N)
               (resize_storage st (fill_nvalues N) (fill_noffsets N)).

(** fill on a freshly constructed container (both vectors empty) *)
Definition fill (N : Z) : outcome storage := fill_from (empty_storage 0 0) N.

(** a history of fills on one container, starting from a freshly constructed one *)
Definition refill (Ns : list Z) : outcome storage :=
  fold_left (fun acc N => bind acc (fun st => fill_from st N)) Ns (Done (empty_storage 0 0)).

Definition lookup (st : storage) (N n1 n2 n3 : Z) : outcome T :=
  let V := lookup_V N n1 n2 n3 in
  if lookup_outer N V then
    if forallb (fun i => inb i (noffs st)) (lookup_off_reads N V n1 n2 n3) && inb V (nvals st) then
      let nu := lookup_nu (offs st) N V n1 n2 n3 in
      let nup := lookup_nup (offs st) N V n1 n2 n3 in
      let '(r, c) := dims st V in
      if lookup_inner nu nup r c then
        let '(i, j) := lookup_cell nu nup in
        if inb i r && inb j c then
          match cells st V i j with Some x => Done x | None => Uninit end
        else OOB
      else Done (src (lookup_src_args n1 n2 n3))
    else OOB
  else Done (src (lookup_src_args n1 n2 n3)).

(** Vertex4::compute(N) followed by operator()(n1,n2,n3) *)
Definition fill_then_lookup (N n1 n2 n3 : Z) : outcome T :=
  bind (fill N) (fun st => lookup st N n1 n2 n3).

End M4.

(** Executable instance used by the correspondence check: the source is the
    identity on triples, so the result shows which triple a cell was filled from. *)
Definition probe (N n1 n2 n3 : Z) : outcome (Z * Z * Z) :=
  fill_then_lookup (Z * Z * Z) (fun t => t) N n1 n2 n3.

(** compute(N1); ...; compute(Nk) on one object, then operator()(n1,n2,n3)
    (which uses the window size of the last fill; 0 for a fresh container) *)
Definition probe_seq (Ns : list Z) (n1 n2 n3 : Z) : outcome (Z * Z * Z) :=
  bind (refill (Z * Z * Z) (fun t => t) Ns)
       (fun st => lookup (Z * Z * Z) (fun t => t) st (last Ns 0) n1 n2 n3).

(** number of cells written by [fill] (for the evidence: size of the window) *)
Definition window_cells (N : Z) : Z :=
  if fill_is_empty N then 0 else
  fold_left (fun acc V => let S := fill_size N V (fill_bosonic N V) in acc + S * S)
            (map Z.of_nat (seq 0 (Z.to_nat (fill_nvalues N)))) 0.
