(** Bridge 1 of the spine: from the symmetry-analysis model (PV.Symm: StatesClassification::compute over the quantum
    numbers of the accepted operators; C07) to the classification the spine consumes (PV.HPart.classification), and the
    two inter-layer hypotheses of [SpinePartition.spine_gf_partition] DISCHARGED from C07's theorems:

      [bridge N c]            the HPart.classification with the block lists (StatesContainer) and the StateBlockIndex of the
                              Symm model's classification [c];
      [bridge_partition_ok]   partition_ok (bridge N c)        from the conclusions of C07 partition_exact
                              (SymmProofs.partition_exact = Properties_C07.C07_partition_exact);
      [bridge_op_ok]          op_ok (bridge N c) o (bridge_pairs o) for o = c_i, c^+_j, c^+_i c_j from the first conclusion of
                              C07 single_target (SymmProofs.single_target: block equality is preserved and reflected by the
                              operator); HPart.fo_prepare on the bridged classification is computed here
                              ([bridge_fo_prepare]) and has the same pairs as Symm.prepare ([bridge_pairs_symm_prepare]);
      [spine_gf_symmetry]     the spine theorem for the partition produced by Symm.sc_compute on operators that shift
                              uniformly; [spine_gf_symmetry_analysis]: on the operators accepted by Symm.symmetrize (default
                              and ignored analysis for the code as it is, every mode with the repaired acceptance test).
    Remaining hypothesis: [eig_ok] (shapes of the per-block eigen-data) only.  No axioms. *)
Require Import Bool List Arith Lia Sorted Permutation Ring_theory.
From PV Require Import Outcome Fock Poly PolySem EDSpec HPart HPartSpec HPartProofs Sparse TermList GFPart
     Spine SpinePartition SpineOneBlock.
From PV Require Symm SymmProofs Thermal.
From PVgen Require Import Gen_C01.
Import ListNotations.

(** * Generic list facts *)
Lemma nodup_app {A} (x y : list A) : NoDup x -> NoDup y -> (forall a, In a x -> In a y -> False) -> NoDup (x ++ y).
Proof.
  induction x as [|a x IH]; intros Hx Hy Hd; [exact Hy|]. inversion Hx as [|a' x' Ha Hx']; subst. cbn [app]. constructor.
  - intro H. apply in_app_or in H. destruct H as [H|H]; [exact (Ha H)|]. exact (Hd a (or_introl eq_refl) H).
  - apply IH; [exact Hx'|exact Hy|]. intros b Hb. apply Hd. right. exact Hb.
Qed.

Lemma nodup_concat (ls : list (list nat)) :
  (forall b, b < length ls -> NoDup (nth b ls [])) ->
  (forall b b' s, b < length ls -> b' < length ls -> In s (nth b ls []) -> In s (nth b' ls []) -> b = b') ->
  NoDup (concat ls).
Proof.
  induction ls as [|l t IH]; intros Hn Hd; [constructor|]. cbn [concat]. apply nodup_app.
  - apply (Hn 0). cbn [length]. lia.
  - apply IH.
    + intros b Hb. apply (Hn (S b)). cbn [length]. lia.
    + intros b b' s Hb Hb' H1 H2. assert (E : S b = S b') by (apply (Hd (S b) (S b') s); cbn [length nth]; try lia; assumption). lia.
  - intros a Ha Hc. apply in_concat in Hc. destruct Hc as [l' [Hl' Ha']]. destruct (In_nth _ _ [] Hl') as [b [Hb E]].
    assert (E0 : 0 = S b) by (apply (Hd 0 (S b) a); cbn [length nth]; try lia; [exact Ha|rewrite E; exact Ha']). lia.
Qed.

Lemma ssorted_lt_nodup (l : list nat) : StronglySorted lt l -> NoDup l.
Proof.
  induction 1 as [|a l _ IH Hall]; constructor; [|exact IH].
  intro Hin. rewrite Forall_forall in Hall. specialize (Hall a Hin). lia.
Qed.

(** the bimap of a list of pairs with distinct left and distinct right keys is the list itself *)
Lemma fo_bimap_id (prs : list (nat * nat)) : NoDup (map fst prs) -> NoDup (map snd prs) -> fo_bimap prs = prs.
Proof.
  unfold fo_bimap.
  assert (G : forall l acc, NoDup (map fst (acc ++ l)) -> NoDup (map snd (acc ++ l)) -> fold_left bimap_insert l acc = acc ++ l).
  { induction l as [|lr l IH]; intros acc H1 H2; cbn [fold_left]; [rewrite app_nil_r; reflexivity|].
    assert (E : bimap_insert acc lr = acc ++ [lr]).
    { unfold bimap_insert. destruct (existsb _ acc) eqn:X; [|reflexivity]. exfalso.
      apply existsb_exists in X. destruct X as [e [He X]]. rewrite map_app in H1, H2. cbn [map] in H1, H2.
      apply NoDup_remove_2 in H1. apply NoDup_remove_2 in H2. apply orb_true_iff in X. destruct X as [X|X]; apply Nat.eqb_eq in X.
      - apply H1. apply in_or_app. left. rewrite <- X. apply in_map. exact He.
      - apply H2. apply in_or_app. left. rewrite <- X. apply in_map. exact He. }
    rewrite E. rewrite IH; rewrite <- app_assoc; cbn [app]; [reflexivity|exact H1|exact H2]. }
  intros H1 H2. exact (G prs [] H1 H2).
Qed.

(** pairs (g R, R) for the R of a list on which the partial function g is defined *)
Section PairsOf.
Variable g : nat -> option nat.
Definition pairs_of (l : list nat) : list (nat * nat) :=
  flat_map (fun R => match g R with Some L => [(L, R)] | None => [] end) l.

Lemma in_pairs_of l L R : In (L, R) (pairs_of l) <-> In R l /\ g R = Some L.
Proof.
  unfold pairs_of. rewrite in_flat_map. split.
  - intros [R' [HR' H]]. destruct (g R') as [L'|] eqn:E; [|destruct H]. destruct H as [H|[]]. injection H as <- <-. split; assumption.
  - intros [HR E]. exists R. split; [exact HR|]. rewrite E. left. reflexivity.
Qed.

Lemma pairs_of_snd_nodup l : NoDup l -> NoDup (map snd (pairs_of l)).
Proof.
  induction l as [|R l IH]; intros Hnd; [constructor|]. inversion Hnd as [|R' l' HR Hnd']; subst.
  unfold pairs_of. cbn [flat_map]. fold (pairs_of l). destruct (g R) as [L|]; cbn [app map snd]; [|apply IH; exact Hnd'].
  constructor; [|apply IH; exact Hnd']. intro Hin. apply in_map_iff in Hin. destruct Hin as [[L' R'] [E Hin]]. cbn [snd] in E. subst R'.
  apply in_pairs_of in Hin. exact (HR (proj1 Hin)).
Qed.

Lemma pairs_of_fst_nodup l : NoDup l ->
  (forall R R' L, In R l -> In R' l -> g R = Some L -> g R' = Some L -> R = R') -> NoDup (map fst (pairs_of l)).
Proof.
  induction l as [|R l IH]; intros Hnd Hinj; [constructor|]. inversion Hnd as [|R' l' HR Hnd']; subst.
  assert (IH' : NoDup (map fst (pairs_of l))).
  { apply IH; [exact Hnd'|]. intros R1 R2 L H1 H2. apply Hinj; right; assumption. }
  unfold pairs_of. cbn [flat_map]. fold (pairs_of l). destruct (g R) as [L|] eqn:E; cbn [app map fst]; [|exact IH'].
  constructor; [|exact IH']. intro Hin. apply in_map_iff in Hin. destruct Hin as [[L' R'] [E' Hin]]. cbn [fst] in E'. subst L'.
  apply in_pairs_of in Hin. destruct Hin as [HR' E'].
  assert (R = R') by (apply (Hinj R R' L); [left; reflexivity|right; exact HR'|exact E|exact E']). subst R'. exact (HR HR').
Qed.
End PairsOf.

(** * The bridged classification *)
Definition bridge {Key : Type} (N : nat) (c : Symm.sclass Key) : classification :=
  mkClass N (Symm.sc_blocks c) (Symm.sc_sbi c).

(** the conclusions of C07 partition_exact that the bridge uses *)
Definition symm_partition_facts {Key : Type} (N : nat) (c : Symm.sclass Key) : Prop :=
  let size := Nat.pow 2 N in let nb := Symm.numberOfBlocks c in
  (forall s, s < size -> exists b, b < nb /\ Symm.getBlockNumber size c s = Done b /\
      forall b', b' < nb -> (In s (nth b' (Symm.sc_blocks c) []) <-> b' = b)) /\
  (forall b m s, Symm.getFockState c b m = Done s -> s < size /\ Symm.getBlockNumber size c s = Done b) /\
  (forall b, b < nb -> StronglySorted lt (nth b (Symm.sc_blocks c) [])).

Section BridgePartition.
Variable Key : Type.
Variable N : nat.
Variable c : Symm.sclass Key.
Notation size := (Nat.pow 2 N).
Notation blocks := (Symm.sc_blocks c).
Notation nbk := (length (Symm.sc_blocks c)).
Notation S := (bridge N c).
Hypothesis PF : symm_partition_facts N c.

Let P1 : forall s, s < size -> exists b, b < nbk /\ Symm.getBlockNumber size c s = Done b /\
      forall b', b' < nbk -> (In s (nth b' blocks []) <-> b' = b) := proj1 PF.
Let P3 : forall b m s, Symm.getFockState c b m = Done s -> s < size /\ Symm.getBlockNumber size c s = Done b := proj1 (proj2 PF).
Let P4 : forall b, b < nbk -> StronglySorted lt (nth b blocks []) := proj2 (proj2 PF).

Lemma gbn_nth s b : s < size -> Symm.getBlockNumber size c s = Done b -> nth_error (Symm.sc_sbi c) s = Some b.
Proof.
  intros Hs. unfold Symm.getBlockNumber. destruct (Nat.ltb_spec size s) as [H|_]; [lia|].
  destruct (nth_error (Symm.sc_sbi c) s) as [b'|]; [|discriminate]. intros E. injection E as <-. reflexivity.
Qed.

Lemma bridge_wf : wf_class S.
Proof.
  split.
  - intros b sts Hb. cbn [bridge sc_states] in Hb.
    assert (Hlt : b < nbk) by (apply nth_error_Some; congruence).
    rewrite <- (nth_error_nth _ _ [] Hb). apply ssorted_lt_nodup. apply P4. exact Hlt.
  - intros b sts s Hb Hs. cbn [bridge sc_states] in Hb. destruct (In_nth_error _ _ Hs) as [m Hm].
    assert (G : Symm.getFockState c b m = Done s) by (unfold Symm.getFockState; rewrite Hb, Hm; reflexivity).
    destruct (P3 b m s G) as [Hlt Hg]. split; [exact Hlt|]. cbn [bridge sc_index]. exact (gbn_nth s b Hlt Hg).
Qed.

Lemma bridge_in_block b s : b < nbk -> In s (nth b blocks []) -> s < size /\ nth_error (Symm.sc_sbi c) s = Some b.
Proof.
  intros Hb Hs. apply (proj2 bridge_wf b (nth b blocks []) s); [|exact Hs]. cbn [bridge sc_states]. apply nth_error_nth'. exact Hb.
Qed.

Theorem bridge_partition_ok : partition_ok S.
Proof.
  constructor.
  - exact bridge_wf.
  - intros s Hs. change (state_size S) with size in Hs. destruct (P1 s Hs) as [b [Hb [Hg Hi]]].
    unfold block_of. cbn [bridge sc_index sc_states]. rewrite (nth_error_nth _ _ 0 (gbn_nth s b Hs Hg)).
    split; [exact Hb|]. apply (Hi b Hb). reflexivity.
  - cbn [bridge sc_states]. change (state_size S) with size.
    rewrite <- (seq_length size 0). apply Permutation_length. apply NoDup_Permutation.
    + apply nodup_concat.
      * intros b Hb. apply ssorted_lt_nodup. apply P4. exact Hb.
      * intros b b' s Hb Hb' H1 H2. destruct (bridge_in_block b s Hb H1) as [Hs _].
        destruct (P1 s Hs) as [b0 [_ [_ Hi]]]. rewrite (proj1 (Hi b Hb) H1), (proj1 (Hi b' Hb') H2). reflexivity.
    + apply seq_NoDup.
    + intros s. rewrite in_seq, in_concat. split.
      * intros [l [Hl Hs]]. destruct (In_nth _ _ [] Hl) as [b [Hb E]]. subst l. destruct (bridge_in_block b s Hb Hs). lia.
      * intros [_ Hs]. cbn [Nat.add] in Hs. destruct (P1 s Hs) as [b [Hb [_ Hi]]].
        exists (nth b blocks []). split; [apply nth_In; exact Hb|]. apply (Hi b Hb). reflexivity.
Qed.

Lemma bridge_state_block b s : b < nbk -> In s (nth b blocks []) -> block_of S s = b.
Proof. intros Hb Hs. unfold block_of. cbn [bridge sc_index]. apply (nth_error_nth _ _ 0 (proj2 (bridge_in_block b s Hb Hs))). Qed.

Lemma bridge_block_state s : s < size -> block_of S s < nbk /\ In s (nth (block_of S s) blocks []).
Proof. intros Hs. exact (po_cover S bridge_partition_ok s Hs). Qed.

(** * The block map of an operator on the bridged classification *)
Section Operator.
Variable K : Type.
Variable NO : numops K.
Notation ltb := (nre_ltb K NO).
Notation kabs := (nabs K NO).
Variable fb : bool.
Variable eps : K.
Hypothesis one_not_small : ltb (kabs (n1 K NO)) eps = false.
Hypothesis mone_not_small : ltb (kabs (nopp K NO (n1 K NO))) eps = false.
Variable o : fop.
Hypothesis o_range : mono_in_range N (fop_mono o).
(** first conclusion of C07 single_target, for the monomial of o *)
Hypothesis ST : forall s s' sg sg' t t', s < size -> s' < size ->
  act_mono (fop_mono o) (state_of_nat N s) = Done (Some (sg, t)) ->
  act_mono (fop_mono o) (state_of_nat N s') = Done (Some (sg', t')) ->
  (nth s (Symm.sc_sbi c) 0 = nth s' (Symm.sc_sbi c) 0 <->
   nth (nat_of_state t) (Symm.sc_sbi c) 0 = nth (nat_of_state t') (Symm.sc_sbi c) 0).

Notation tgt := (tgt_of K NO N o).
Notation ftgt := (first_tgt K NO N o).

Lemma tgt_inv s t x : tgt s = Some (t, x) ->
  exists sg t', act_mono (fop_mono o) (state_of_nat N s) = Done (Some (sg, t')) /\ nat_of_state t' = t.
Proof.
  unfold tgt_of. destruct (act_mono (fop_mono o) (state_of_nat N s)) as [[[sg t']|]| | | |]; try discriminate.
  intros E. injection E as <- _. exists sg, t'. split; reflexivity.
Qed.

Lemma tgt_lt s t x : tgt s = Some (t, x) -> t < size.
Proof. exact (tgt_of_range K NO S o s t x). Qed.

Lemma ST_tgt s s' t t' x x' : s < size -> s' < size -> tgt s = Some (t, x) -> tgt s' = Some (t', x') ->
  (block_of S s = block_of S s' <-> block_of S t = block_of S t').
Proof.
  intros Hs Hs' E E'. destruct (tgt_inv s t x E) as [sg [u [A <-]]]. destruct (tgt_inv s' t' x' E') as [sg' [u' [A' <-]]].
  exact (ST s s' sg sg' u u' Hs Hs' A A').
Qed.

(** left block of the (first) image of block R, if any *)
Definition left_of (R : nat) : option nat :=
  match ftgt (nth R blocks []) with Some t => Some (block_of S t) | None => None end.
Definition bridge_pairs : list (nat * nat) := pairs_of left_of (seq 0 nbk).

Lemma bridge_mapsTo R : R < nbk -> mapsTo fb K NO eps S o R = Done (left_of R).
Proof.
  intros HR. unfold mapsTo, getFockStates, left_of. cbn [bridge sc_states sc_M]. rewrite (nth_error_nth' blocks [] HR). cbn [bind].
  rewrite (first_image_spec K NO eps one_not_small mone_not_small N o o_range). cbn [bind].
  destruct (ftgt (nth R blocks [])) as [t|] eqn:E; [|reflexivity].
  destruct (first_tgt_some K NO N o _ t E) as [s [x [_ Ht]]]. pose proof (tgt_lt s t x Ht) as Hlt.
  destruct (bridge_block_state t Hlt) as [Hb Hin].
  rewrite (getBlockNumber_wf fb S (block_of S t) (nth (block_of S t) blocks []) t bridge_wf); [reflexivity| |exact Hin].
  cbn [bridge sc_states]. apply nth_error_nth'. exact Hb.
Qed.

Theorem bridge_fo_prepare : fo_prepare fb K NO eps S o = Done bridge_pairs.
Proof.
  unfold fo_prepare, bridge_pairs. cbn [bridge sc_states].
  assert (G : forall l acc, (forall R, In R l -> R < nbk) ->
    fold_left (fun a right => bind a (fun parts => bind (mapsTo fb K NO eps S o right) (fun l0 =>
       match l0 with Some lft => Done (parts ++ [(lft, right)]) | None => Done parts end))) l (Done acc) =
    Done (acc ++ pairs_of left_of l)).
  { induction l as [|R l IH]; intros acc Hl; cbn [fold_left]; [unfold pairs_of; cbn [flat_map]; rewrite app_nil_r; reflexivity|].
    cbn [bind]. rewrite (bridge_mapsTo R (Hl R (or_introl eq_refl))). cbn [bind].
    unfold pairs_of. cbn [flat_map]. fold (pairs_of left_of l).
    destruct (left_of R) as [L|]; rewrite IH by (intros R' HR'; apply Hl; right; exact HR').
    - rewrite <- app_assoc. reflexivity.
    - reflexivity. }
  apply (G (seq 0 nbk) []). intros R HR. apply in_seq in HR. lia.
Qed.

Lemma left_of_some R L : R < nbk -> left_of R = Some L ->
  exists s t x, In s (nth R blocks []) /\ tgt s = Some (t, x) /\ block_of S t = L.
Proof.
  intros HR. unfold left_of. destruct (ftgt (nth R blocks [])) as [t|] eqn:E; [|discriminate]. intros H. injection H as <-.
  destruct (first_tgt_some K NO N o _ t E) as [s [x [Hs Ht]]]. exists s, t, x. repeat split; assumption.
Qed.

Lemma left_of_inj R R' L : In R (seq 0 nbk) -> In R' (seq 0 nbk) -> left_of R = Some L -> left_of R' = Some L -> R = R'.
Proof.
  intros HR HR' E E'. apply in_seq in HR. apply in_seq in HR'.
  destruct (left_of_some R L ltac:(lia) E) as [s [t [x [Hs [Ht Hb]]]]].
  destruct (left_of_some R' L ltac:(lia) E') as [s' [t' [x' [Hs' [Ht' Hb']]]]].
  destruct (bridge_in_block R s ltac:(lia) Hs) as [Hlt _]. destruct (bridge_in_block R' s' ltac:(lia) Hs') as [Hlt' _].
  rewrite <- (bridge_state_block R s ltac:(lia) Hs), <- (bridge_state_block R' s' ltac:(lia) Hs').
  apply (ST_tgt s s' t t' x x' Hlt Hlt' Ht Ht'). congruence.
Qed.

Theorem bridge_op_ok : op_ok K NO fb eps S o bridge_pairs.
Proof.
  constructor.
  - exact o_range.
  - exact bridge_fo_prepare.
  - apply fo_bimap_id.
    + apply pairs_of_fst_nodup; [apply seq_NoDup|exact left_of_inj].
    + apply pairs_of_snd_nodup. apply seq_NoDup.
  - intros L R H. apply in_pairs_of in H. destruct H as [HR E]. apply in_seq in HR. cbn [bridge sc_states].
    destruct (left_of_some R L ltac:(lia) E) as [s [t [x [_ [Ht <-]]]]].
    split; [|lia]. exact (proj1 (bridge_block_state t (tgt_lt s t x Ht))).
  - intros L R s t x H Hs Ht. apply in_pairs_of in H. destruct H as [HR E]. apply in_seq in HR. cbn [bridge sc_states] in Hs |- *.
    destruct (left_of_some R L ltac:(lia) E) as [s0 [t0 [x0 [Hs0 [Ht0 Hb0]]]]].
    destruct (bridge_in_block R s ltac:(lia) Hs) as [Hlt _]. destruct (bridge_in_block R s0 ltac:(lia) Hs0) as [Hlt0 _].
    assert (Eb : block_of S t = L).
    { rewrite <- Hb0. apply (ST_tgt s s0 t t0 x x0 Hlt Hlt0 Ht Ht0).
      rewrite (bridge_state_block R s ltac:(lia) Hs), (bridge_state_block R s0 ltac:(lia) Hs0). reflexivity. }
    rewrite <- Eb. exact (proj2 (bridge_block_state t (tgt_lt s t x Ht))).
  - intros R s t x HR Hs Ht. cbn [bridge sc_states] in HR, Hs.
    destruct (left_of R) as [L|] eqn:E.
    + exists L. apply in_pairs_of. split; [apply in_seq; lia|exact E].
    + exfalso. unfold left_of in E. destruct (ftgt (nth R blocks [])) as [t0|] eqn:E0; [discriminate|].
      change (sc_M S) with N in Ht. rewrite (first_tgt_none K NO N o _ E0 s Hs) in Ht. discriminate.
Qed.

(** membership in the pairs, in the words of C07 single_target's second conclusion *)
Lemma in_bridge_pairs L R : In (L, R) bridge_pairs <->
  (R < nbk /\ exists s sg t, In s (nth R blocks []) /\ act_mono (fop_mono o) (state_of_nat N s) = Done (Some (sg, t)) /\
                              nth (nat_of_state t) (Symm.sc_sbi c) 0 = L).
Proof.
  unfold bridge_pairs. rewrite in_pairs_of, in_seq. split.
  - intros [HR E]. split; [lia|]. destruct (left_of_some R L ltac:(lia) E) as [s [t [x [Hs [Ht Hb]]]]].
    destruct (tgt_inv s t x Ht) as [sg [u [A Eu]]]. exists s, sg, u. split; [exact Hs|]. split; [exact A|]. rewrite Eu. exact Hb.
  - intros [HR [s [sg [u [Hs [A Hb]]]]]]. split; [lia|].
    assert (Ht : tgt s = Some (nat_of_state u, if sg then nopp K NO (n1 K NO) else n1 K NO)) by (unfold tgt_of; rewrite A; reflexivity).
    destruct (left_of R) as [L'|] eqn:E.
    + f_equal. destruct (left_of_some R L' HR E) as [s0 [t0 [x0 [Hs0 [Ht0 Hb0]]]]].
      destruct (bridge_in_block R s HR Hs) as [Hlt _]. destruct (bridge_in_block R s0 HR Hs0) as [Hlt0 _].
      rewrite <- Hb0, <- Hb. apply (ST_tgt s0 s t0 _ x0 _ Hlt0 Hlt Ht0 Ht).
      rewrite (bridge_state_block R s HR Hs), (bridge_state_block R s0 HR Hs0). reflexivity.
    + exfalso. unfold left_of in E. destruct (ftgt (nth R blocks [])) as [t0|] eqn:E0; [discriminate|].
      rewrite (first_tgt_none K NO N o _ E0 s Hs) in Ht. discriminate.
Qed.

End Operator.
End BridgePartition.

(** * The spine theorem on the partition produced by the symmetry-analysis model *)
Definition kind_of (o : fop) : SymmProofs.fop_kind :=
  match o with FCdag i => SymmProofs.FCdag i | FC i => SymmProofs.FC i | FQuad i j => SymmProofs.FQuad i j end.

Section SymmetrySpine.
(** the coefficient ring of the symmetry analysis (Operator algebra of PV.Poly; C05/C07) *)
Variable KS : Type.
Variables (s0 s1 : KS) (sadd smul ssub : KS -> KS -> KS) (sopp : KS -> KS).
Variable szero : KS -> bool.
Variable shalf : KS.
Hypothesis SRING : ring_ok KS s0 s1 sadd smul ssub sopp szero.
Hypothesis S10 : s1 <> s0.
Notation sc_compute := (Symm.sc_compute KS s0 sadd ssub sopp szero).
Notation ushift := (SymmProofs.uniform_shift KS s0 s1 sadd smul sopp).
Notation symmetrize := (Symm.symmetrize KS s0 s1 sadd smul ssub sopp szero shalf).

Section Classification.
Variables (N : nat) (ops : list (poly KS)) (c : Symm.qclass KS).
Hypothesis Hops : Forall (poly_in_range KS N) ops.
Hypothesis Ec : sc_compute N ops = Done c.

Theorem symm_facts : symm_partition_facts N c.
Proof.
  destruct (SymmProofs.partition_exact KS s0 s1 sadd smul ssub sopp szero SRING N ops Hops) as [c' [Ec' H]].
  rewrite Ec in Ec'. injection Ec' as <-. cbn zeta in H. destruct H as [A [_ [C [D _]]]].
  split; [exact A|]. split.
  - intros b m s G. destruct (C b m s G) as [H1 [H2 _]]. split; assumption.
  - intros b Hb. exact (proj1 (D b Hb)).
Qed.

Theorem symm_partition_ok : partition_ok (bridge N c).
Proof. exact (bridge_partition_ok (list KS) N c symm_facts). Qed.

Hypothesis Hush : Forall (ushift N) ops.

Lemma symm_ST (o : fop) : SymmProofs.fop_in_range N (kind_of o) ->
  forall s s' sg sg' t t', s < Nat.pow 2 N -> s' < Nat.pow 2 N ->
  act_mono (fop_mono o) (state_of_nat N s) = Done (Some (sg, t)) ->
  act_mono (fop_mono o) (state_of_nat N s') = Done (Some (sg', t')) ->
  (nth s (Symm.sc_sbi c) 0 = nth s' (Symm.sc_sbi c) 0 <->
   nth (nat_of_state t) (Symm.sc_sbi c) 0 = nth (nat_of_state t') (Symm.sc_sbi c) 0).
Proof.
  intros Ho.
  pose proof (SymmProofs.single_target KS s0 s1 sadd smul ssub sopp szero SRING S10 N ops c (kind_of o) Hops Hush Ho Ec) as H.
  cbn zeta in H. destruct H as [H _]. destruct o; exact H.
Qed.

Lemma kind_range (o : fop) : SymmProofs.fop_in_range N (kind_of o) -> mono_in_range N (fop_mono o).
Proof. intros H. pose proof (SymmProofs.fop_mono_range N (kind_of o) H) as G. destruct o; exact G. Qed.

(** the block pairs recorded by HPart.fo_prepare on the bridged classification are those recorded by the Symm model's
    prepare (C07 single_target, second conclusion) *)
Theorem bridge_pairs_symm_prepare (K : Type) (NO : numops K) (o : fop) : SymmProofs.fop_in_range N (kind_of o) ->
  exists f, Symm.prepare KS sadd sopp szero N c (SymmProofs.fop_poly KS s1 (kind_of o)) = Done f /\
    Symm.fo_bimap f = Symm.fo_parts f /\
    forall L R, In (L, R) (Symm.fo_parts f) <-> In (L, R) (bridge_pairs (list KS) N c K NO o).
Proof.
  intros Ho.
  pose proof (SymmProofs.single_target KS s0 s1 sadd smul ssub sopp szero SRING S10 N ops c (kind_of o) Hops Hush Ho Ec) as H.
  cbn zeta in H. destruct H as [_ [f [Hf [Hb Hin]]]]. exists f. split; [exact Hf|]. split; [exact Hb|].
  intros L R. rewrite <- Hb, Hin.
  rewrite (in_bridge_pairs (list KS) N c symm_facts K NO o (symm_ST o Ho) L R).
  unfold Symm.numberOfBlocks. destruct o; reflexivity.
Qed.

Section Numbers.
Variable K : Type.
Variable NO : numops K.
Variable kinv : K -> K.
Hypothesis Kr : ring_theory (n0 K NO) (n1 K NO) (nadd K NO) (nmul K NO) (nsub K NO) (nopp K NO) (@eq K).
Hypothesis Kdiv : forall a b, ndiv K NO a b = nmul K NO a (kinv b).
Hypothesis conj0 : nconj K NO (n0 K NO) = n0 K NO.
Variable fb : bool.
Variable eps : K.
Hypothesis one_not_small : nre_ltb K NO (nabs K NO (n1 K NO)) eps = false.
Hypothesis mone_not_small : nre_ltb K NO (nabs K NO (nopp K NO (n1 K NO))) eps = false.
Hypothesis one_large : nre_ltb K NO eps (nabs K NO (n1 K NO)) = true.
Hypothesis mone_large : nre_ltb K NO eps (nabs K NO (nopp K NO (n1 K NO))) = true.

Theorem symm_op_ok (o : fop) : SymmProofs.fop_in_range N (kind_of o) ->
  op_ok K NO fb eps (bridge N c) o (bridge_pairs (list KS) N c K NO o).
Proof.
  intros Ho. exact (bridge_op_ok (list KS) N c symm_facts K NO fb eps one_not_small mone_not_small o (kind_range o Ho) (symm_ST o Ho)).
Qed.

Variables reference prec : K.
Hypothesis Hkeep : forall x, keep_entry K NO reference prec x = false -> x = n0 K NO.
Variable T : tols K.
Hypothesis Hrel : forall R, gf_relevant K NO (t_matrix_element K T) R = false -> R = n0 K NO.
Hypothesis Hcmp : forall a b, gf_compare K NO (t_compare K T) a b = false -> gf_compare K NO (t_compare K T) b a = true.

Theorem spine_gf_symmetry (ED : eigdata K) (i j : nat) : i < N -> j < N -> eig_ok K (bridge N c) ED ->
  forall (fixed lenient : bool) (beta z : K) (parts : list ((nat * nat) * part_out K)),
  spine_gf K NO fb eps reference prec T fixed lenient (bridge N c) ED beta i j = Done (WDone parts) ->
  exists D, spine_dm K NO beta (bridge N c) ED = Done D /\
    gf_value K NO parts z =
    gf K NO (assembled_E K ED) (assembled_w K D)
       (rotate K NO (Nat.pow 2 N) (assembled_U K NO (bridge N c) ED) (op_matrix K NO N (cann i)))
       (rotate K NO (Nat.pow 2 N) (assembled_U K NO (bridge N c) ED) (op_matrix K NO N (cdag j))) z.
Proof.
  intros Hi Hj EO fixed lenient beta z parts H.
  exact (spine_gf_partition K NO kinv Kr Kdiv conj0 fb eps one_not_small mone_not_small one_large mone_large
           reference prec Hkeep T Hrel Hcmp (bridge N c) ED i j _ _ symm_partition_ok EO
           (symm_op_ok (FC i) Hi) (symm_op_ok (FCdag j) Hj) fixed lenient beta z parts H).
Qed.

Theorem spine_gf_symmetry_total (ED : eigdata K) (i j : nat) : i < N -> j < N -> eig_ok K (bridge N c) ED ->
  forall (lenient : bool) (beta : K) D, spine_dm K NO beta (bridge N c) ED = Done D ->
  exists parts, spine_gf K NO fb eps reference prec T true lenient (bridge N c) ED beta i j = Done (WDone parts).
Proof.
  intros Hi Hj EO lenient beta D HD.
  exact (spine_gf_partition_total K NO kinv Kr Kdiv conj0 fb eps one_not_small mone_not_small one_large mone_large
           reference prec Hkeep T (bridge N c) ED i j _ _ symm_partition_ok EO
           (symm_op_ok (FC i) Hi) (symm_op_ok (FCdag j) Hj) lenient beta D HD).
Qed.
End Numbers.
End Classification.

(** ** ... on the operators accepted by the symmetry analysis of a Hamiltonian *)
(** the modes for which every accepted operator shifts uniformly: default and ignored analysis of the code as it is (the
    candidates are N and S_z), every mode with the repaired acceptance test (shiftfix) *)
Definition mode_uniform (sf : bool) (mode : Symm.symm_mode KS) (N : nat) : Prop :=
  match mode with
  | Symm.SymmCustom _ cands => sf = true /\ Forall (poly_in_range KS N) cands
  | _ => True
  end.

Theorem analysis_ops_ok fz sf mode spins (H : poly KS) sy : mode_uniform sf mode (length spins) ->
  symmetrize fz sf mode spins H = Done sy ->
  Forall (poly_in_range KS (length spins)) (Symm.sy_ops sy) /\ Forall (ushift (length spins)) (Symm.sy_ops sy).
Proof.
  intros Hm E. destruct mode as [| |cands].
  - exact (SymmProofs.default_candidates_shift_uniformly KS s0 s1 sadd smul ssub sopp szero shalf SRING fz sf (Symm.SymmDefault KS) spins H sy I E).
  - exact (SymmProofs.default_candidates_shift_uniformly KS s0 s1 sadd smul ssub sopp szero shalf SRING fz sf (Symm.SymmIgnore KS) spins H sy I E).
  - destruct Hm as [-> Hc].
    exact (SymmProofs.accepted_shift_uniformly_fixed KS s0 s1 sadd smul ssub sopp szero shalf SRING fz (Symm.SymmCustom KS cands) spins H sy Hc E).
Qed.

Theorem analysis_class_total fz sf mode spins (H : poly KS) sy : mode_uniform sf mode (length spins) ->
  symmetrize fz sf mode spins H = Done sy -> exists c, sc_compute (length spins) (Symm.sy_ops sy) = Done c.
Proof.
  intros Hm E. destruct (analysis_ops_ok fz sf mode spins H sy Hm E) as [Hr _].
  destruct (SymmProofs.partition_exact KS s0 s1 sadd smul ssub sopp szero SRING (length spins) (Symm.sy_ops sy) Hr) as [c [Ec _]].
  exists c. exact Ec.
Qed.

End SymmetrySpine.
