(** SymmAgreement.v -- C07 / C08: the source text of THIS tree selects the variant of PV.Symm for which the theorems of
    PV.SymmProofs are proved, and the theorems of property C07 for the configuration the source selects.

    Part 1 (independent of the generated files): the [*_with] forms of PV.SymmConfig, taken at the repaired values -- all
            three acceptance tests, the S_z guard "as many up as down indices", the ordered comparison of quantum numbers, prepare()
            loops over all blocks -- ARE the definitions of PV.Symm with [fixed_sz = true], [shiftfix = true]; at the unguarded /
            two-test values they are PV.Symm with [false].  The order in which checkSymmetry runs its tests is irrelevant
            ([run_tests_order_irrelevant]: every test returns, for an operator in range).
    Part 2  the agreement facts: closed computations on the constants that translator/gen_symm.py reads off
            Symmetrizer.cpp / Symmetrizer.h / FieldOperator.cpp on every run.  They fail -- and with them every theorem of
            props/Properties_C07_source.v -- as soon as
              * checkSymmetry loses one of its three tests                        ([source_checkSymmetry_tests]),
              * compute(bool) offers S_z under another condition than 2*#up = IndexSize   ([source_sz_guard_is_repaired];
                refuted for the unguarded code: SymmProofs.analysis_total_refuted),
              * QuantumNumbers::set stops hashing the ORDERED vector              ([source_hash_is_ordered];
                what goes wrong then: [unordered_hash_merges_blocks] below),
              * a prepare() loop no longer runs over 0 <= R < NumberOfBlocks()     ([source_prepare_visits_all_blocks];
                what goes wrong then: [short_prepare_loses_a_pair] below).
    Part 3  the C07 theorems about [symmetrize_code], [sc_compute_code], [prepare_*_code], [analyse_code]. *)
Require Import Bool List Arith Lia Sorted ZArith Zify ZifyNat.
From PV Require Import Outcome Fock Poly PolySem Symm SymmProofs SymmConfig.
From PVgen Require Import Gen_Symm Gen_SymmDefault Gen_SymmHash Gen_SymmPrepare.
Import ListNotations.

(** * Part 1: the [*_with] forms at the standard values *)

Lemma filter_length_compl : forall (A : Type) (f : A -> bool) (l : list A),
  length (filter f l) + length (filter (fun x => negb (f x)) l) = length l.
Proof.
  intros A f l. induction l as [|a l IH]; cbn [filter]; [reflexivity|].
  destruct (f a); cbn [negb length]; lia.
Qed.

Lemma existsb_eqb_filter : forall (f : nat -> bool) (l : list nat) (i : nat), In i l ->
  existsb (Nat.eqb i) (filter f l) = f i.
Proof.
  intros f l i Hi. apply eq_true_iff_eq. rewrite existsb_exists. split.
  - intros [x [Hx E]]. apply Nat.eqb_eq in E. subst x. apply filter_In in Hx. exact (proj2 Hx).
  - intro E. exists i. split; [apply filter_In; split; assumption|apply Nat.eqb_refl].
Qed.

(** #down = IndexSize - #up for the up indices that compute(bool) collects *)
Lemma sz_down_length : forall spins,
  length (spin_up_indices spins) + length (sz_down (length spins) (spin_up_indices spins)) = length spins.
Proof.
  intros spins. unfold sz_down, spin_up_indices.
  rewrite (filter_ext_in (fun i => negb (existsb (Nat.eqb i) (filter (fun i0 => spin_is_up (nth i0 spins 0)) (seq 0 (length spins)))))
                         (fun i => negb (spin_is_up (nth i spins 0)))).
  - rewrite filter_length_compl. apply seq_length.
  - intros i Hi. rewrite (existsb_eqb_filter _ _ _ Hi). reflexivity.
Qed.

Lemma guard_repaired_is_model_guard : forall spins,
  sz_guard_repaired (length (spin_up_indices spins)) (length spins) =
  negb (true && negb (Nat.eqb (length (spin_up_indices spins)) (length (sz_down (length spins) (spin_up_indices spins))))).
Proof.
  intros spins. pose proof (sz_down_length spins) as E. unfold sz_guard_repaired. cbn [andb]. rewrite negb_involutive.
  apply eq_true_iff_eq. rewrite !Nat.eqb_eq. lia.
Qed.

Lemma mapM_ext : forall (A B : Type) (f g : A -> outcome B) (l : list A),
  (forall a, In a l -> f a = g a) -> mapM f l = mapM g l.
Proof.
  intros A B f g l. induction l as [|a l IH]; intros E; cbn [mapM]; [reflexivity|].
  rewrite (E a (or_introl eq_refl)). rewrite IH; [reflexivity|]. intros x Hx. apply E. right; exact Hx.
Qed.

Section Generic.
Variable K : Type.
Variables (k0 k1 : K) (kadd kmul ksub : K -> K -> K) (kopp : K -> K).
Variable kzero : K -> bool.
Variable khalf : K.

Local Notation poly := (poly K).
Local Notation RING := (ring_ok K k0 k1 kadd kmul ksub kopp kzero).
Local Notation in_range := (poly_in_range K).
Local Notation check_symmetry := (check_symmetry K k0 k1 kadd kmul ksub kopp kzero).
Local Notation check_symmetry_with := (check_symmetry_with K k0 k1 kadd kmul ksub kopp kzero).
Local Notation run_test := (run_test K k0 k1 kadd kmul ksub kopp kzero).
Local Notation run_tests := (run_tests K k0 k1 kadd kmul ksub kopp kzero).
Local Notation sy_offer := (sy_offer K k0 k1 kadd kmul ksub kopp kzero).
Local Notation sy_offer_with := (sy_offer_with K).
Local Notation compute_custom_loop := (compute_custom_loop K k0 k1 kadd kmul ksub kopp kzero).
Local Notation compute_custom_loop_with := (compute_custom_loop_with K).
Local Notation compute_custom := (compute_custom K k0 k1 kadd kmul ksub kopp kzero).
Local Notation compute_custom_with := (compute_custom_with K).
Local Notation compute_default := (compute_default K k0 k1 kadd kmul ksub kopp kzero khalf).
Local Notation compute_default_with := (compute_default_with K k1 kadd kmul ksub kopp kzero khalf).
Local Notation symmetrize := (symmetrize K k0 k1 kadd kmul ksub kopp kzero khalf).
Local Notation symmetrize_with := (symmetrize_with K k1 kadd kmul ksub kopp kzero khalf).
Local Notation sc_compute := (sc_compute K k0 kadd ksub kopp kzero).
Local Notation sc_compute_with := (sc_compute_with K k0 kadd ksub kopp kzero).
Local Notation prepare := (prepare K kadd kopp kzero).
Local Notation prepare_with := (prepare_with K kadd kopp kzero).
Local Notation analyse := (analyse K k0 k1 kadd kmul ksub kopp kzero khalf).
Local Notation analyse_with := (analyse_with K k0 k1 kadd kmul ksub kopp kzero khalf).

(** ** checkSymmetry *)
Lemma check_symmetry_with_std : forall sf N H op, check_symmetry_with true true sf N H op = check_symmetry sf N H op.
Proof. intros sf N H op. reflexivity. Qed.

(** a list of tests accepts iff each of its tests does *)
Lemma run_tests_true : forall ts N H op,
  run_tests ts N H op = Done true <-> (forall t, In t ts -> run_test t N H op = Done true).
Proof.
  intros ts N H op. induction ts as [|t r IH]; cbn [SymmConfig.run_tests].
  - split; [intros _ t []|reflexivity].
  - split.
    + intros E u [<-|Hu].
      * destruct (run_test t N H op) as [b| | | |]; try discriminate. cbn [bind] in E. destruct b; [reflexivity|discriminate].
      * destruct (run_test t N H op) as [b| | | |]; try discriminate. cbn [bind] in E. destruct b; [|discriminate].
        apply IH; assumption.
    + intros E. rewrite (E t (or_introl eq_refl)). cbn [bind]. apply IH. intros u Hu. apply E. right; exact Hu.
Qed.

Lemma check_symmetry_with_true : forall cH cN cS N H op,
  check_symmetry_with cH cN cS N H op = Done true <->
  ((cH = true -> run_test TestCommuteH N H op = Done true) /\
   (cN = true -> run_test TestCommuteN N H op = Done true) /\
   (cS = true -> run_test TestUniformShift N H op = Done true)).
Proof.
  intros cH cN cS N H op. unfold SymmConfig.check_symmetry_with, SymmConfig.run_test. split.
  - intro E.
    assert (A : (if cH then commutes K kadd kmul ksub kopp kzero true H op else Done true) = Done true).
    { destruct (if cH then _ else _) as [b| | | |]; try discriminate. destruct b; [reflexivity|discriminate]. }
    rewrite A in E. cbn [bind] in E.
    assert (B : (if cN then commutes_all_n K k1 kadd kmul ksub kopp kzero (seq 0 N) op else Done true) = Done true).
    { destruct (if cN then _ else _) as [b| | | |]; try discriminate. destruct b; [reflexivity|discriminate]. }
    rewrite B in E. cbn [bind] in E.
    split; [intros ->; exact A|]. split; [intros ->; exact B|]. intros ->. exact E.
  - intros [A [B C]].
    assert (A' : (if cH then commutes K kadd kmul ksub kopp kzero true H op else Done true) = Done true)
      by (destruct cH; [apply A; reflexivity|reflexivity]).
    assert (B' : (if cN then commutes_all_n K k1 kadd kmul ksub kopp kzero (seq 0 N) op else Done true) = Done true)
      by (destruct cN; [apply B; reflexivity|reflexivity]).
    rewrite A'. cbn [bind]. rewrite B'. cbn [bind]. destruct cS; [apply C; reflexivity|reflexivity].
Qed.

Section Totality.
Hypothesis Hring : RING.

Lemma run_test_total : forall t N H op, in_range N op -> exists b, run_test t N H op = Done b.
Proof.
  intros t N H op Hop. destruct t; cbn [SymmConfig.run_test].
  - apply (commutes_total K kadd kmul ksub kopp kzero).
  - apply (commutes_all_n_total K k1 kadd kmul ksub kopp kzero).
  - apply (shift_test_all_total K k0 k1 kadd kmul ksub kopp kzero Hring); [exact Hop|].
    intros i Hi. apply in_seq in Hi. lia.
Qed.

Lemma run_tests_total : forall ts N H op, in_range N op -> exists b, run_tests ts N H op = Done b.
Proof.
  intros ts N H op Hop. induction ts as [|t r IH]; cbn [SymmConfig.run_tests]; [eauto|].
  destruct (run_test_total t N H op Hop) as [b E]. rewrite E. cbn [bind]. destruct b; [exact IH|eauto].
Qed.

Lemma check_symmetry_with_total : forall cH cN cS N H op, in_range N op -> exists b, check_symmetry_with cH cN cS N H op = Done b.
Proof.
  intros cH cN cS N H op Hop. unfold SymmConfig.check_symmetry_with.
  assert (A : exists b, (if cH then commutes K kadd kmul ksub kopp kzero true H op else Done true) = Done b)
    by (destruct cH; [apply (run_test_total TestCommuteH N H op Hop)|eauto]).
  destruct A as [b1 E1]. rewrite E1. cbn [bind]. destruct b1; [|eauto].
  assert (B : exists b, (if cN then commutes_all_n K k1 kadd kmul ksub kopp kzero (seq 0 N) op else Done true) = Done b)
    by (destruct cN; [apply (run_test_total TestCommuteN N H op Hop)|eauto]).
  destruct B as [b2 E2]. rewrite E2. cbn [bind]. destruct b2; [|eauto].
  destruct cS; [apply (run_test_total TestUniformShift N H op Hop)|eauto].
Qed.

(** the order (and multiplicity) in which checkSymmetry runs its tests does not matter: for an operator in range the list of
    tests computes what [check_symmetry_with] computes for the membership flags *)
Theorem run_tests_order_irrelevant : forall ts N H op, in_range N op ->
  run_tests ts N H op =
  check_symmetry_with (has_test TestCommuteH ts) (has_test TestCommuteN ts) (has_test TestUniformShift ts) N H op.
Proof.
  intros ts N H op Hop.
  destruct (run_tests_total ts N H op Hop) as [b E].
  destruct (check_symmetry_with_total (has_test TestCommuteH ts) (has_test TestCommuteN ts) (has_test TestUniformShift ts) N H op Hop) as [b' E'].
  rewrite E, E'. f_equal. apply eq_true_iff_eq. split.
  - intros ->. pose proof (proj1 (run_tests_true ts N H op) E) as E1. clear E. rename E1 into E.
    assert (G : check_symmetry_with (has_test TestCommuteH ts) (has_test TestCommuteN ts) (has_test TestUniformShift ts) N H op = Done true).
    { apply (proj2 (check_symmetry_with_true _ _ _ N H op)). repeat split; intro M; apply E; unfold has_test in M; apply existsb_exists in M;
        destruct M as [u [Hu Eu]]; destruct u; try discriminate; exact Hu. }
    rewrite G in E'. inversion E'. reflexivity.
  - intros ->. destruct (proj1 (check_symmetry_with_true _ _ _ N H op) E') as [A [B C]].
    assert (G : run_tests ts N H op = Done true).
    { apply (proj2 (run_tests_true ts N H op)). intros t Ht.
      assert (M : has_test t ts = true) by (unfold has_test; apply existsb_exists; exists t; split; [exact Ht|destruct t; reflexivity]).
      destruct t; [apply A|apply B|apply C]; exact M. }
    rewrite G in E. inversion E. reflexivity.
Qed.
End Totality.

(** ** compute *)
Lemma sy_offer_with_std : forall sf N H sy op, sy_offer_with (check_symmetry sf) N H sy op = sy_offer sf N H sy op.
Proof. reflexivity. Qed.

Lemma compute_custom_loop_with_std : forall sf N H cands sy,
  compute_custom_loop_with (check_symmetry sf) N H cands sy = compute_custom_loop sf N H cands sy.
Proof.
  intros sf N H cands. induction cands as [|q r IH]; intros sy; cbn [SymmConfig.compute_custom_loop_with Symm.compute_custom_loop]; [reflexivity|].
  rewrite sy_offer_with_std. destruct (sy_offer sf N H sy q) as [sy'| | | |]; cbn [bind]; try reflexivity. apply IH.
Qed.

(** unguarded construction of S_z = the model without the S_z repair *)
Lemma compute_default_with_unguarded : forall sf ignore spins H,
  compute_default_with (check_symmetry sf) (fun _ _ => true) ignore spins H = compute_default false sf ignore spins H.
Proof. reflexivity. Qed.

(** the guard 2*#up = IndexSize = the model with the S_z repair; [guard] needs to agree with it only where it is evaluated *)
Lemma compute_default_with_repaired : forall (guard : nat -> nat -> bool) sf ignore spins H,
  (forall nup n, nup <= n -> guard nup n = sz_guard_repaired nup n) ->
  compute_default_with (check_symmetry sf) guard ignore spins H = compute_default true sf ignore spins H.
Proof.
  intros guard sf ignore spins H G. unfold SymmConfig.compute_default_with, Symm.compute_default.
  destruct ignore; [reflexivity|]. rewrite sy_offer_with_std.
  destruct (sy_offer sf (length spins) H (sy_empty K) (p_N K k1 kadd kzero (length spins))) as [sy1| | | |]; cbn [bind]; try reflexivity.
  destruct (valid_sz spins); [|reflexivity]. cbv zeta.
  rewrite G by (pose proof (sz_down_length spins); lia).
  rewrite guard_repaired_is_model_guard.
  destruct (true && negb (Nat.eqb (length (spin_up_indices spins)) (length (sz_down (length spins) (spin_up_indices spins))))); reflexivity.
Qed.

Lemma symmetrize_with_repaired : forall (guard : nat -> nat -> bool) sf mode spins H,
  (forall nup n, nup <= n -> guard nup n = sz_guard_repaired nup n) ->
  symmetrize_with (check_symmetry sf) guard mode spins H = symmetrize true sf mode spins H.
Proof.
  intros guard sf mode spins H G. destruct mode as [| |cands]; cbn [SymmConfig.symmetrize_with Symm.symmetrize].
  - apply compute_default_with_repaired; exact G.
  - apply compute_default_with_repaired; exact G.
  - unfold SymmConfig.compute_custom_with, Symm.compute_custom. apply compute_custom_loop_with_std.
Qed.

Lemma symmetrize_with_unguarded : forall sf mode spins H,
  symmetrize_with (check_symmetry sf) (fun _ _ => true) mode spins H = symmetrize false sf mode spins H.
Proof.
  intros sf mode spins H. destruct mode as [| |cands]; cbn [SymmConfig.symmetrize_with Symm.symmetrize]; try reflexivity.
  unfold SymmConfig.compute_custom_with, Symm.compute_custom. apply compute_custom_loop_with_std.
Qed.

(** ** classification and prepare *)
Lemma sc_compute_with_ordered : forall N ops, sc_compute_with true N ops = sc_compute N ops.
Proof. reflexivity. Qed.

Lemma prepare_with_all_blocks : forall (range : nat -> nat * nat) N c O,
  (forall nb, range nb = all_blocks nb) -> prepare_with range N c O = prepare N c O.
Proof.
  intros range N c O R. unfold SymmConfig.prepare_with, Symm.prepare. rewrite R. unfold all_blocks. cbn [fst snd].
  rewrite Nat.sub_0_r. reflexivity.
Qed.

(** ** the whole analysis *)
Lemma analyse_with_repaired : forall (guard : nat -> nat -> bool) (rcd rc : nat -> nat * nat) sf mode spins H,
  (forall nup n, nup <= n -> guard nup n = sz_guard_repaired nup n) ->
  (forall nb, rcd nb = all_blocks nb) -> (forall nb, rc nb = all_blocks nb) ->
  analyse_with (check_symmetry sf) guard true rcd rc mode spins H = analyse true sf mode spins H.
Proof.
  intros guard rcd rc sf mode spins H G Rcd Rc. unfold SymmConfig.analyse_with, Symm.analyse. cbv zeta.
  rewrite (symmetrize_with_repaired guard sf mode spins H G).
  destruct (symmetrize true sf mode spins H) as [sy| | | |]; cbn [bind]; try reflexivity.
  rewrite sc_compute_with_ordered.
  destruct (sc_compute (length spins) (sy_ops sy)) as [c| | | |]; cbn [bind]; try reflexivity.
  rewrite (mapM_ext _ _ (fun i => prepare_with rcd (length spins) c (p_cdag K k1 i)) (prepare_cdag K k1 kadd kopp kzero (length spins) c))
    by (intros i _; unfold Symm.prepare_cdag; apply prepare_with_all_blocks; exact Rcd).
  rewrite (mapM_ext _ _ (fun i => prepare_with rc (length spins) c (p_c K k1 i)) (prepare_c K k1 kadd kopp kzero (length spins) c))
    by (intros i _; unfold Symm.prepare_c; apply prepare_with_all_blocks; exact Rc).
  reflexivity.
Qed.

End Generic.

(** * Part 2: the agreement facts (closed computations on the generated constants) *)

(** Symmetrizer::checkSymmetry contains the three tests: commutes with H, commutes with every n_i, [OP,c^+_i] = q_i c^+_i *)
Lemma source_checkSymmetry_tests :
  gen_checks_commute_H = true /\ gen_checks_commute_n = true /\ gen_checks_uniform_shift = true.
Proof. repeat split; reflexivity. Qed.

(** the flags are the membership flags of the list of tests in source order (whatever that order is) *)
Lemma source_tests_listed :
  has_test TestCommuteH gen_tests = gen_checks_commute_H /\
  has_test TestCommuteN gen_tests = gen_checks_commute_n /\
  has_test TestUniformShift gen_tests = gen_checks_uniform_shift.
Proof. repeat split; reflexivity. Qed.

(** Symmetrizer::compute(bool) offers S_z exactly when there are as many up as down indices.  The guard is an expression over
    SpinUpIndices.size() and IndexSize read off the source; the proof is linear arithmetic, so an equivalent rewrite of the
    condition (IndexSize == 2*SpinUpIndices.size(), ...) still passes and a weaker or stronger condition does not. *)
Local Ltac Zify.zify_post_hook ::= Z.div_mod_to_equations.     (* so that lia also decides guards written with / and % *)
Lemma source_sz_guard_is_repaired : forall nup n, nup <= n -> gen_sz_guard nup n = sz_guard_repaired nup n.
Proof.
  intros nup n Hle. unfold gen_sz_guard, sz_guard_repaired.
  first [reflexivity
        |apply eq_true_iff_eq;
         rewrite ?andb_true_iff, ?orb_true_iff, ?negb_true_iff, ?Nat.eqb_eq, ?Nat.eqb_neq, ?Nat.ltb_lt, ?Nat.leb_le; lia].
Qed.

(** QuantumNumbers::set recomputes the hash from the ordered vector *)
Lemma source_hash_is_ordered : gen_hash_is_ordered = true.
Proof. reflexivity. Qed.

(** the three prepare() loops run over 0 <= RightIndex < NumberOfBlocks() *)
Lemma source_prepare_visits_all_blocks :
  (forall nb, gen_prepare_cdag_range nb = all_blocks nb) /\
  (forall nb, gen_prepare_c_range nb = all_blocks nb) /\
  (forall nb, gen_prepare_quad_range nb = all_blocks nb) /\
  gen_prepare_visits_all_blocks = true.
Proof. repeat split; intros; reflexivity. Qed.

Lemma cfg_summary :
  cfg_shiftfix = true /\ (forall nup n, nup <= n -> cfg_sz_guard nup n = sz_guard_repaired nup n) /\
  cfg_hash_ordered = true /\ cfg_prepare_all_blocks = true.
Proof.
  split; [exact (proj2 (proj2 source_checkSymmetry_tests))|]. split; [exact source_sz_guard_is_repaired|].
  split; [exact source_hash_is_ordered|exact (proj2 (proj2 (proj2 source_prepare_visits_all_blocks)))].
Qed.

(** * Part 3: the configuration of this tree is PV.Symm with both repairs; the C07 theorems about it *)
Section Source.
Variable K : Type.
Variables (k0 k1 : K) (kadd kmul ksub : K -> K -> K) (kopp : K -> K).
Variable kzero : K -> bool.
Variable khalf : K.

Local Notation poly := (poly K).
Local Notation cp := (coef_poly K k0 k1 kadd kmul kopp).
Local Notation RING := (ring_ok K k0 k1 kadd kmul ksub kopp kzero).
Local Notation DOMAIN := (forall a b : K, kmul a b = k0 -> a = k0 \/ b = k0).
Local Notation in_range := (poly_in_range K).
Local Notation qnf := (qnf K k0 k1 kadd kmul kopp).
Local Notation uniform_shift := (uniform_shift K k0 k1 kadd kmul kopp).
Local Notation cands_in_range mode N :=
  (match mode with SymmCustom _ cands => Forall (in_range N) cands | _ => True end).
Local Notation check_symmetry_code := (check_symmetry_code K k0 k1 kadd kmul ksub kopp kzero).
Local Notation check_symmetry_source_order := (check_symmetry_source_order K k0 k1 kadd kmul ksub kopp kzero).
Local Notation symmetrize_code := (symmetrize_code K k0 k1 kadd kmul ksub kopp kzero khalf).
Local Notation sc_compute_code := (sc_compute_code K k0 kadd ksub kopp kzero).
Local Notation prepare_cdag_code := (prepare_cdag_code K k1 kadd kopp kzero).
Local Notation prepare_c_code := (prepare_c_code K k1 kadd kopp kzero).
Local Notation prepare_quad_code := (prepare_quad_code K k1 kadd kopp kzero).
Local Notation analyse_code := (analyse_code K k0 k1 kadd kmul ksub kopp kzero khalf).

(** prepare() of the three operator kinds of the property, each with the loop its own C++ function has *)
Definition prepare_code (N : nat) (c : qclass K) (o : fop_kind) : outcome fieldop :=
  match o with
  | FCdag i => prepare_cdag_code N c i
  | FC i => prepare_c_code N c i
  | FQuad i j => prepare_quad_code N c i j
  end.

Lemma check_symmetry_code_eq : forall N H op,
  check_symmetry_code N H op = check_symmetry K k0 k1 kadd kmul ksub kopp kzero true N H op.
Proof. intros N H op. reflexivity. Qed.

Lemma symmetrize_code_eq : forall mode spins H,
  symmetrize_code mode spins H = symmetrize K k0 k1 kadd kmul ksub kopp kzero khalf true true mode spins H.
Proof.
  intros mode spins H.
  exact (symmetrize_with_repaired K k0 k1 kadd kmul ksub kopp kzero khalf gen_sz_guard true mode spins H source_sz_guard_is_repaired).
Qed.

Lemma sc_compute_code_eq : forall N ops, sc_compute_code N ops = sc_compute K k0 kadd ksub kopp kzero N ops.
Proof. intros N ops. reflexivity. Qed.

Lemma prepare_code_eq : forall N c o, prepare_code N c o = prepare K kadd kopp kzero N c (fop_poly K k1 o).
Proof.
  intros N c o. destruct source_prepare_visits_all_blocks as [Rcd [Rc [Rq _]]].
  destruct o as [i|i|i j]; cbn [prepare_code];
    unfold SymmConfig.prepare_cdag_code, SymmConfig.prepare_c_code, SymmConfig.prepare_quad_code;
    rewrite (prepare_with_all_blocks K kadd kopp kzero) by assumption; reflexivity.
Qed.

Lemma analyse_code_eq : forall mode spins H,
  analyse_code mode spins H = analyse K k0 k1 kadd kmul ksub kopp kzero khalf true true mode spins H.
Proof.
  intros mode spins H. destruct source_prepare_visits_all_blocks as [Rcd [Rc _]].
  exact (analyse_with_repaired K k0 k1 kadd kmul ksub kopp kzero khalf gen_sz_guard gen_prepare_cdag_range gen_prepare_c_range true
           mode spins H source_sz_guard_is_repaired Rcd Rc).
Qed.

(** the configuration of this tree IS the hand-written model PV.Symm with both repairs *)
Theorem S_model_variant :
  (forall N H op, check_symmetry_code N H op = check_symmetry K k0 k1 kadd kmul ksub kopp kzero true N H op) /\
  (forall mode spins H, symmetrize_code mode spins H = symmetrize K k0 k1 kadd kmul ksub kopp kzero khalf true true mode spins H) /\
  (forall N ops, sc_compute_code N ops = sc_compute K k0 kadd ksub kopp kzero N ops) /\
  (forall N c o, prepare_code N c o = prepare K kadd kopp kzero N c (fop_poly K k1 o)) /\
  (forall mode spins H, analyse_code mode spins H = analyse K k0 k1 kadd kmul ksub kopp kzero khalf true true mode spins H).
Proof.
  split; [exact check_symmetry_code_eq|]. split; [exact symmetrize_code_eq|]. split; [exact sc_compute_code_eq|].
  split; [exact prepare_code_eq|exact analyse_code_eq].
Qed.

(** the tests as ordered in the source compute the same acceptance decision *)
Theorem S_source_order_irrelevant : RING -> forall N H op, in_range N op ->
  check_symmetry_source_order N H op = check_symmetry_code N H op.
Proof.
  intros Hring N H op Hop. unfold SymmConfig.check_symmetry_source_order, SymmConfig.check_symmetry_code.
  rewrite (run_tests_order_irrelevant K k0 k1 kadd kmul ksub kopp kzero Hring gen_tests N H op Hop).
  destruct source_tests_listed as [-> [-> ->]]. reflexivity.
Qed.

Theorem S_partition_exact : RING -> forall N ops, Forall (in_range N) ops ->
  exists c, sc_compute_code N ops = Done c /\
    let size := Nat.pow 2 N in let nb := numberOfBlocks c in
    (forall s, s < size -> exists b, b < nb /\ getBlockNumber size c s = Done b /\
        forall b', b' < nb -> (In s (nth b' (sc_blocks c) []) <-> b' = b)) /\
    (forall s, s < size -> exists b m,
        getBlockNumber size c s = Done b /\ getInnerState size c s = Done m /\ getFockState c b m = Done s) /\
    (forall b m s, getFockState c b m = Done s ->
        s < size /\ getBlockNumber size c s = Done b /\ getInnerState size c s = Done m) /\
    (forall b, b < nb -> StronglySorted lt (nth b (sc_blocks c) []) /\ nth b (sc_blocks c) [] <> []) /\
    (forall s s', s < size -> s' < size ->
        (getBlockNumber size c s = getBlockNumber size c s' <->
         qnf ops (state_of_nat N s) = qnf ops (state_of_nat N s'))).
Proof.
  intros Hring N ops Hops. rewrite sc_compute_code_eq.
  exact (partition_exact K k0 k1 kadd kmul ksub kopp kzero Hring N ops Hops).
Qed.

Theorem S_accepted_is_diagonal : RING -> forall N H Q, in_range N Q ->
  check_symmetry_code N H Q = Done true ->
  forall s t, length s = N -> length t = N -> s <> t -> cp Q s t = k0.
Proof.
  intros Hring N H Q HQ E. rewrite check_symmetry_code_eq in E.
  exact (accepted_is_diagonal K k0 k1 kadd kmul ksub kopp kzero Hring true N H Q HQ E).
Qed.

Theorem S_H_block_diagonal : RING -> DOMAIN -> forall mode spins H sy c,
  in_range (length spins) H -> cands_in_range mode (length spins) ->
  symmetrize_code mode spins H = Done sy -> sc_compute_code (length spins) (sy_ops sy) = Done c ->
  let size := Nat.pow 2 (length spins) in
  forall s t, s < size -> t < size ->
  cp H (state_of_nat (length spins) s) (state_of_nat (length spins) t) <> k0 ->
  exists b, getBlockNumber size c s = Done b /\ getBlockNumber size c t = Done b.
Proof.
  intros Hring Hdom mode spins H sy c HH Hm Es Ec. rewrite symmetrize_code_eq in Es. rewrite sc_compute_code_eq in Ec.
  exact (H_block_diagonal K k0 k1 kadd kmul ksub kopp kzero khalf Hring Hdom true true mode spins H sy c HH Hm Es Ec).
Qed.

(** every operator the analysis of this tree accepts -- default, ignored, custom -- shifts uniformly *)
Theorem S_accepted_shift_uniformly : RING -> forall mode spins H sy,
  cands_in_range mode (length spins) ->
  symmetrize_code mode spins H = Done sy ->
  Forall (in_range (length spins)) (sy_ops sy) /\ Forall (uniform_shift (length spins)) (sy_ops sy).
Proof.
  intros Hring mode spins H sy Hm Es. rewrite symmetrize_code_eq in Es.
  exact (accepted_shift_uniformly_fixed K k0 k1 kadd kmul ksub kopp kzero khalf Hring true mode spins H sy Hm Es).
Qed.

Theorem S_default_candidates_shift_uniformly : RING -> forall mode spins H sy,
  match mode with SymmCustom _ _ => False | _ => True end ->
  symmetrize_code mode spins H = Done sy ->
  Forall (in_range (length spins)) (sy_ops sy) /\ Forall (uniform_shift (length spins)) (sy_ops sy).
Proof.
  intros Hring mode spins H sy Hm Es. rewrite symmetrize_code_eq in Es.
  exact (default_candidates_shift_uniformly K k0 k1 kadd kmul ksub kopp kzero khalf Hring true true mode spins H sy Hm Es).
Qed.

(** single target, for the partition the analysis of this tree produces: no hypothesis on the accepted operators is left *)
Theorem S_single_target : RING -> k1 <> k0 -> forall mode spins H sy c o,
  cands_in_range mode (length spins) -> fop_in_range (length spins) o ->
  symmetrize_code mode spins H = Done sy -> sc_compute_code (length spins) (sy_ops sy) = Done c ->
  let N := length spins in
  let size := Nat.pow 2 N in
  let blk s := nth s (sc_sbi c) 0 in
  (forall s s' sg sg' t t', s < size -> s' < size ->
     act_mono (fop_mono o) (state_of_nat N s) = Done (Some (sg, t)) ->
     act_mono (fop_mono o) (state_of_nat N s') = Done (Some (sg', t')) ->
     (blk s = blk s' <-> blk (nat_of_state t) = blk (nat_of_state t'))) /\
  exists f, prepare_code N c o = Done f /\ fo_bimap f = fo_parts f /\
    forall L R, In (L, R) (fo_bimap f) <->
      (R < numberOfBlocks c /\
       exists s sg t, In s (nth R (sc_blocks c) []) /\
                      act_mono (fop_mono o) (state_of_nat N s) = Done (Some (sg, t)) /\ blk (nat_of_state t) = L).
Proof.
  intros Hring H10 mode spins H sy c o Hm Ho Es Ec.
  destruct (S_accepted_shift_uniformly Hring mode spins H sy Hm Es) as [Hr Hu].
  rewrite sc_compute_code_eq in Ec. cbv zeta. rewrite prepare_code_eq.
  exact (single_target K k0 k1 kadd kmul ksub kopp kzero Hring H10 (length spins) (sy_ops sy) c o Hr Hu Ho Ec).
Qed.

Theorem S_analysis_total : RING -> k1 <> k0 -> forall mode spins H,
  cands_in_range mode (length spins) -> exists a, analyse_code mode spins H = Done a.
Proof.
  intros Hring H10 mode spins H Hm. rewrite analyse_code_eq.
  exact (analysis_total K k0 k1 kadd kmul ksub kopp kzero khalf Hring H10 true mode spins H Hm).
Qed.

End Source.

(** * What goes wrong for the other values (evaluated at integer coefficients) *)
Open Scope Z_scope.

(** an order-insensitive comparison of quantum numbers merges blocks: with the integrals n_0, n_1 on two modes the states
    |10> and |01> have the tuples (1,0) and (0,1) -- two blocks when compared in order, one block when compared as multisets *)
Example unordered_hash_merges_blocks :
  let ops := [p_n Z 1 0%nat; p_n Z 1 1%nat] in
  (exists c, sc_compute_with Z 0 Z.add Z.sub Z.opp Zzero true 2 ops = Done c /\ numberOfBlocks c = 4%nat /\
             nth 1 (sc_sbi c) 0%nat <> nth 2 (sc_sbi c) 0%nat) /\
  (exists c, sc_compute_with Z 0 Z.add Z.sub Z.opp Zzero false 2 ops = Done c /\ numberOfBlocks c = 3%nat /\
             nth 1 (sc_sbi c) 0%nat = nth 2 (sc_sbi c) 0%nat).
Proof.
  cbv zeta. split; eexists; (split; [vm_compute; reflexivity|]); split; try reflexivity. vm_compute. discriminate.
Qed.

(** a prepare() loop that stops one block early loses a block pair: one mode, integral n_0, blocks {|0>}, {|1>};
    c_0 maps block 1 to block 0, and the loop over R < NumberOfBlocks() - 1 never looks at block 1 *)
Example short_prepare_loses_a_pair :
  exists c, z_sc_compute 1 [p_n Z 1 0%nat] = Done c /\
    prepare_with Z Z.add Z.opp Zzero all_blocks 1 c (p_c Z 1 0%nat) =
      Done {| fo_parts := [(0, 1)%nat]; fo_fromRight := [(1, 0)%nat]; fo_fromLeft := [(0, 0)%nat]; fo_bimap := [(0, 1)%nat] |} /\
    prepare_with Z Z.add Z.opp Zzero (fun nb => (0, nb - 1)%nat) 1 c (p_c Z 1 0%nat) = Done fo_empty.
Proof. eexists. split; [vm_compute; reflexivity|]. split; vm_compute; reflexivity. Qed.

(** the source theorems are not vacuous: two spinless sites with hopping (the lattice on which the unguarded code throws,
    SymmProofs.analysis_total_refuted) go through the analysis of this tree, N is accepted, S_z is not offered *)
Example analyse_code_two_spinless_sites :
  exists a, analyse_code Z 0 1 Z.add Z.mul Z.sub Z.opp Zzero 0 (SymmDefault Z) [0; 0]%nat H_hop01 = Done a /\
            sy_flags (an_symm a) = [true] /\ numberOfBlocks (an_class a) = 3%nat.
Proof. eexists. split; [vm_compute; reflexivity|]. split; reflexivity. Qed.
Close Scope Z_scope.
