(** Model of the single-particle Green's function:
      GreensFunctionPart::compute            src/pomerol/GreensFunctionPart.cpp:40-83
      GreensFunctionPart::operator(), of_tau include/pomerol/GreensFunctionPart.h:145-154
      GreensFunction::prepare / compute      src/pomerol/GreensFunction.cpp:25-77
      GreensFunction::operator(), of_tau     include/pomerol/GreensFunction.h:102-123
    The merge walk is [PV.Sparse.part_walk], the term container [PV.TermList]; the leaf expressions
    (residue, pole, relevance test, comparator, negligibility, term evaluation, tolerance constants,
    Matsubara argument) are the generated definitions of [PVgen.Gen_C01].

    Generic in the number type K with operations NO : numops K (PV.EDSpec); reals are embedded in K.
    Tolerances are parameters: the C++ values are the generated constants, the exact form uses 0. *)
Require Import Bool List Arith ZArith.
From PV Require Import EDSpec NumLit Sparse TermList.
From PVgen Require Import Gen_C01.
Import ListNotations.

(** sequence all options of a list *)
Fixpoint all_some {A} (l : list (option A)) : option (list A) :=
  match l with
  | [] => Some []
  | None :: _ => None
  | Some a :: r => match all_some r with Some r' => Some (a :: r') | None => None end
  end.

Section GF.
Variable K : Type.
Variable NO : numops K.
Notation k0 := (n0 K NO).
Notation kadd := (nadd K NO).

Definition gterm : Type := term K K.           (* (Pole, Residue) *)

(** the data a part refers to *)
Record part_in : Type := mkpart {
  p_C : cs K;           (* C.getRowMajorValue():  rows = outer block (HpartOuter), columns = inner block *)
  p_CX : cs K;          (* CX.getColMajorValue(): columns = outer block, rows = inner block *)
  p_eO : list K;        (* HpartOuter eigenvalues *)
  p_eI : list K;        (* HpartInner eigenvalues *)
  p_wO : list K;        (* DMpartOuter weights *)
  p_wI : list K         (* DMpartInner weights *)
}.

(** tolerances of a part *)
Record tols : Type := mktols {
  t_matrix_element : K;     (* MatrixElementTolerance *)
  t_compare : K;            (* Term::Compare::Tolerance *)
  t_negligible : K;         (* Term::IsNegligible::Tolerance *)
  t_resonance : K           (* ReduceResonanceTolerance (used by the susceptibility only) *)
}.
Definition gf_tols_cpp : tols :=
  mktols (gf_MatrixElementTolerance K NO) (gf_tol_compare K NO) (gf_tol_negligible K NO) (gf_ReduceResonanceTolerance K NO).

(** what happens at one matched position  (GreensFunctionPart.cpp:62-71):
      Residue = Cinner.value() * CXinner.value() * (DMpartOuter.getWeight(index1) + DMpartInner.getWeight(C_index2));
      if(abs(Residue) > MatrixElementTolerance){ Pole = HpartInner.getEigenValue(C_index2) - HpartOuter.getEigenValue(index1); add_term }
    Result: (kept?, (Pole, Residue)); [None] = a read outside a vector. The pole of a dropped term is ghost data
    (the C++ does not compute it) used by the truncation bound. *)
Definition gf_match (T : tols) (inp : part_in) (m : nat * (nat * nat)) : option (bool * gterm) :=
  let index1 := fst m in
  let p := fst (snd m) in
  let q := snd (snd m) in
  match rdv (p_C inp) p, rdv (p_CX inp) q, nth_error (cs_idx (p_C inp)) p with
  | Some va, Some vb, Some index2 =>
    match nth_error (p_wO inp) index1, nth_error (p_wI inp) index2,
          nth_error (p_eO inp) index1, nth_error (p_eI inp) index2 with
    | Some _, Some _, Some _, Some _ =>
      let rd_ (l : list K) := fun i => nth i l k0 in
      let Residue := gf_residue K NO va vb (rd_ (p_wO inp)) (rd_ (p_wI inp)) index1 index2 in
      let Pole := gf_pole K NO (rd_ (p_eO inp)) (rd_ (p_eI inp)) index1 index2 in
      Some (gf_relevant K NO (t_matrix_element T) Residue, (Pole, Residue))
    | _, _, _, _ => None
    end
  | _, _, _ => None
  end.

Definition kept (l : list (bool * gterm)) : list gterm := map snd (filter fst l).
Definition dropped (l : list (bool * gterm)) : list gterm := map snd (filter (fun x => negb (fst x)) l).

(** the TermList of a part *)
Definition gf_add_terms (T : tols) (ts : list gterm) : list gterm * list (event K K) :=
  add_terms K K (gf_compare K NO (t_compare T)) (gf_negligible K NO (t_negligible T)) (gf_term_add K NO) ts [].

(** result of compute(): the stored terms, and ghost data: every matched candidate with its kept flag, the events *)
Record part_out : Type := mkout {
  o_terms : list gterm;
  o_raw : list (bool * gterm);
  o_events : list (event K K)
}.

(** GreensFunctionPart::compute *)
Definition gf_part_compute (fixed lenient : bool) (T : tols) (inp : part_in) : wres part_out :=
  wbind (part_walk fixed lenient (p_C inp) (p_CX inp)) (fun l =>
    match all_some (map (gf_match T inp) l) with
    | None => WOOB SideA 0
    | Some raw => let r := gf_add_terms T (kept raw) in WDone (mkout (fst r) raw (snd r))
    end).

(** GreensFunctionPart::operator()(z) = Terms(z);  of_tau(tau) = Terms(tau, beta) *)
Definition gf_terms_eval (terms : list gterm) (z : K) : K :=
  eval K K K k0 kadd (fun t => gf_term_eval K NO (snd t) (fst t) z) terms.
Definition gf_terms_tau (terms : list gterm) (tau beta : K) : K :=
  eval K K K k0 kadd (fun t => gf_term_tau K NO (snd t) (fst t) tau beta) terms.
Definition gf_part_value (o : part_out) (z : K) : K := gf_part_eval K (gf_terms_eval (o_terms o) z).
Definition gf_part_value_tau (o : part_out) (tau beta : K) : K := gf_part_tau K (gf_terms_tau (o_terms o) tau beta).

(** * Stripe selection: GreensFunction::prepare  (GreensFunction.cpp:33-61)
    [cl]  = C's block bimap, left view:   (Cleft, Cright) in increasing Cleft
    [cxr] = CX's block bimap, right view: (CXright, CXleft) in increasing CXright
      while(Citer != end && CXiter != end){
          if(Cleft == CXright && Cright == CXleft) <select (Cleft, Cright)>;
          if(CleftInt <= CXrightInt) Citer++;  if(CleftInt >= CXrightInt) CXiter++; }                    *)
Fixpoint stripes (fuel : nat) (cl cxr : list (nat * nat)) : option (list (nat * nat)) :=
  match fuel with
  | O => match cl, cxr with _ :: _, _ :: _ => None | _, _ => Some [] end
  | S f =>
    match cl, cxr with
    | (Cleft, Cright) :: cl', (CXright, CXleft) :: cxr' =>
      let sel := if (Cleft =? CXright) && (Cright =? CXleft) then [(Cleft, Cright)] else [] in
      let cl2 := if Cleft <=? CXright then cl' else cl in
      let cxr2 := if CXright <=? Cleft then cxr' else cxr in
      match stripes f cl2 cxr2 with Some r => Some (sel ++ r) | None => None end
    | _, _ => Some []
    end
  end.
Definition stripes_fuel (cl cxr : list (nat * nat)) : nat := length cl + length cxr.

(** specification: the pairs (L, R) of C's map for which CX maps R <- L *)
Definition stripes_spec (cl cxr : list (nat * nat)) : list (nat * nat) :=
  filter (fun lr => existsb (fun rl => (fst lr =? fst rl) && (snd lr =? snd rl)) cxr) cl.

(** the whole object *)
Record gf_in : Type := mkgf {
  g_cl : list (nat * nat);              (* C.getBlockMapping().left *)
  g_cxr : list (nat * nat);             (* CX.getBlockMapping().right *)
  g_cpart : nat -> option (cs K);       (* C.getPartFromLeftIndex(L).getRowMajorValue() *)
  g_cxpart : nat -> option (cs K);      (* CX.getPartFromRightIndex(L).getColMajorValue() *)
  g_E : nat -> list K;                  (* H.getPart(b) eigenvalues *)
  g_W : nat -> list K;                  (* DM.getPart(b) weights *)
  g_ret : nat -> bool                   (* DM.isRetained(b) *)
}.

(** the parts pushed by prepare(): (Cleft, Cright) and the data of GreensFunctionPart(C.part(Cleft), CX.part(CXright = Cleft),
    H.getPart(Cright) [inner], H.getPart(Cleft) [outer], DM.getPart(Cright), DM.getPart(Cleft)); [None] = a missing part *)
Definition gf_prepare (g : gf_in) : option (list ((nat * nat) * part_in)) :=
  match stripes (stripes_fuel (g_cl g) (g_cxr g)) (g_cl g) (g_cxr g) with
  | None => None
  | Some sel =>
    all_some (map (fun lr =>
      match g_cpart g (fst lr), g_cxpart g (fst lr) with
      | Some c, Some cx => Some (lr, mkpart c cx (g_E g (fst lr)) (g_E g (snd lr)) (g_W g (fst lr)) (g_W g (snd lr)))
      | _, _ => None
      end) (filter (fun lr => g_ret g (fst lr) || g_ret g (snd lr)) sel))
  end.

(** compute(): every part, in order; the first bad read aborts *)
Fixpoint compute_parts (fixed lenient : bool) (T : tols) (ps : list ((nat * nat) * part_in))
  : wres (list ((nat * nat) * part_out)) :=
  match ps with
  | [] => WDone []
  | (lr, inp) :: r =>
    wbind (gf_part_compute fixed lenient T inp) (fun o =>
      wmap (cons (lr, o)) (compute_parts fixed lenient T r))
  end.

Definition gf_compute (fixed lenient : bool) (T : tols) (g : gf_in) : wres (list ((nat * nat) * part_out)) :=
  match gf_prepare g with
  | None => WOOB SideA 0
  | Some ps => compute_parts fixed lenient T ps
  end.

(** GreensFunction::operator()(z): if(Vanishing) return 0; else sum over parts     (GreensFunction.h:105-113) *)
Definition gf_value (parts : list ((nat * nat) * part_out)) (z : K) : K :=
  match parts with
  | [] => k0
  | _ => fold_left (fun acc p => kadd acc (gf_part_value (snd p) z)) parts k0
  end.
Definition gf_value_tau (parts : list ((nat * nat) * part_out)) (tau beta : K) : K :=
  match parts with
  | [] => k0
  | _ => fold_left (fun acc p => kadd acc (gf_part_value_tau (snd p) tau beta)) parts k0
  end.

(** Matsubara argument: MatsubaraSpacing * RealType(2n+1), MatsubaraSpacing = I*M_PI/beta *)
Definition gf_matsubara (kpi beta : K) (n : Z) : K :=
  nmul K NO (matsubara_spacing K NO (nI K NO) kpi beta) (nofZ K NO (gf_total_matsubara_mult n)).

End GF.
