(** Non-vacuity of the two-particle spine on a NON-TRIVIAL partition: chi_{0110} = <c_up c_dn ; c^+_dn c^+_up> of the Hubbard atom
    (PV.SpineExamples) with the (N, S_z) partition PRODUCED BY THE SYMMETRY-ANALYSIS MODEL (SpineBridgeExamples: hub_sy, hub_c; four
    blocks of one state), at the RESONANT triple (z1, z2, z3) = (1/2, 7/2, 1/2) of PV.SpineChiExamples, number type QcD.
    Every hypothesis of [SpineChiBridge.spine_chi_symmetry] is discharged ([partition_ok] / [op_ok] come from C07 through the bridge, the
    two data hypotheses from their boolean checkers); the value through the partitioned pipeline is 64/459, the value of the
    one-block run; six parts on six different chains of blocks. *)
Require Import Bool List Arith ZArith Lia QArith Qcanon Qcabs Ring_theory Field_theory.
From PV Require Import Outcome Fock Poly PolySem EDSpec HPart HPartProofs Spine SpinePartition SpineExamples SpineBridge SpineBridgeHam SpineBridgeExamples
     ChiSymmetryExamples Chi ChiProofs ChiLehmann SpineChi SpineChiPart SpineChiOneBlock SpineChiTermLists SpineChiMain SpineChiExamples
     SpineChiPartition SpineChiBridge.
From PV Require Symm SymmProofs Thermal.
Import ListNotations.
Local Open Scope Qc_scope.

Definition hub_chi_run4 := spine_chi Qc QcD kD true eps_half 0 TLD (bridge 2 hub_c) ED4 1 0 1 1 0.
Lemma hub_chi_run4_eq : hub_chi_run4 = spine_chi Qc QcD kD true eps_half 0 TLD (bridge 2 hub_c) ED4 1 0 1 1 0.
Proof. reflexivity. Qed.

Definition hub_D4 : list (Thermal.dmpart Qc) := match spine_dm Qc QcD 1 (bridge 2 hub_c) ED4 with Done D => D | _ => nil end.
Lemma hub_D4_eq : spine_dm Qc QcD 1 (bridge 2 hub_c) ED4 = Done hub_D4.
Proof. vm_compute. reflexivity. Qed.

Lemma hub_c_bridge : bridge 2 hub_c = S4.
Proof. vm_compute. reflexivity. Qed.

Example hub_chi_symmetry_spine :
  exists s D,
    hub_sy_run = Done hub_sy /\ qc_sc_compute 2 (Symm.sy_ops hub_sy) = Done hub_c /\
    Symm.sc_blocks hub_c = ((0 :: nil) :: (1 :: nil) :: (2 :: nil) :: (3 :: nil) :: nil)%nat /\
    hub_chi_run4 = Done s /\ spine_dm Qc QcD 1 (bridge 2 hub_c) ED4 = Done D /\
    gf_value Qc QcD TLD s chi_z1 chi_z2 chi_z3 =
    Done (chi Qc QcD 1 eps_half (assembled_E Qc ED4) (assembled_w Qc D)
            (rotate Qc QcD 4 (assembled_U Qc QcD (bridge 2 hub_c) ED4) (op_matrix Qc QcD 2 (cann 0)))
            (rotate Qc QcD 4 (assembled_U Qc QcD (bridge 2 hub_c) ED4) (op_matrix Qc QcD 2 (cann 1)))
            (rotate Qc QcD 4 (assembled_U Qc QcD (bridge 2 hub_c) ED4) (op_matrix Qc QcD 2 (cdag 1)))
            (rotate Qc QcD 4 (assembled_U Qc QcD (bridge 2 hub_c) ED4) (op_matrix Qc QcD 2 (cdag 0)))
            chi_z1 chi_z2 chi_z3).
Proof.
  destruct (SymmProofs.default_candidates_shift_uniformly Qc (Q2Qc 0) (Q2Qc 1) Qcplus Qcmult Qcminus Qcopp SymmProofs.Qczero
              SymmProofs.Qchalf Qc_ring_ok false false (Symm.SymmDefault Qc) hub_spins hub_h hub_sy I hub_sy_eq) as [Hr Hu].
  assert (EO : eig_ok Qc (bridge 2 hub_c) ED4) by (rewrite hub_c_bridge; exact S4_eig_ok).
  destruct hub_chi_run4 as [s| | | |] eqn:E; try (vm_compute in E; discriminate E).
  rewrite hub_chi_run4_eq in E.
  destruct (spine_chi_symmetry Qc (Q2Qc 0) (Q2Qc 1) Qcplus Qcmult Qcminus Qcopp SymmProofs.Qczero Qc_ring_ok Qc_10
              Qc QcD QcD_field eq_refl true eps_half eq_refl eq_refl eq_refl eq_refl kD kD_exact TLD TLD_guards QcD_nz TLD_negl TLD_negl
              eq_refl eq_refl qofZ_add qofZ_pos 0%nat 2%nat (Symm.sy_ops hub_sy) hub_c Hr hub_c_eq Hu ED4 1 0%nat 1%nat 1%nat 0%nat
              ltac:(lia) ltac:(lia) ltac:(lia) ltac:(lia) EO
              ltac:(apply (cmp_exact_b_sound Qc QcD Qc_eq_bool Qc_eq_bool_spec); vm_compute; reflexivity)
              ltac:(apply (cmp_exact_b_sound Qc QcD Qc_eq_bool Qc_eq_bool_spec); vm_compute; reflexivity)
              s E) as [D [HD Hv]].
  assert (ED' : D = hub_D4).
  { rewrite hub_D4_eq in HD. exact (f_equal (fun o : outcome (list (Thermal.dmpart Qc)) => match o with Done x => x | _ => D end) (eq_sym HD)). }
  exists s, D. split; [exact hub_sy_eq|]. split; [exact hub_c_eq|]. split; [vm_compute; reflexivity|]. split; [reflexivity|].
  split; [exact HD|]. apply Hv. rewrite ED'.
  apply (chi_regular6_b_sound Qc QcD Qc_eq_bool Qc_eq_bool_spec). vm_compute. reflexivity.
Qed.

(** the same chi_0110 = 64/459 through the partitioned pipeline; six parts, on six different chains of blocks; the assembled data are
    those of the one-block run *)
Definition hub_chi_value4 : Qc :=
  match hub_chi_run4 with Done s => match gf_value Qc QcD TLD s chi_z1 chi_z2 chi_z3 with Done v => v | _ => 0 end | _ => 0 end.
Example hub_chi_value4_resonant :
  hub_chi_value4 = Q2Qc (64 # 459) /\ hub_chi_value4 = hub_chi_value /\ hub_chi_value4 <> 0 /\
  match hub_chi_run4 with
  | Done s => map (fun pq => p_blocks Qc (fst pq)) (g_parts Qc s) =
              ((0, 1, 3, 1) :: (0, 2, 3, 1) :: (0, 2, 0, 1) :: (2, 3, 1, 3) :: (2, 0, 1, 3) :: (2, 0, 2, 3) :: nil)%Z /\
              existsb resonant_term_fires (g_parts Qc s) = true
  | _ => False
  end /\
  assembled_E Qc ED4 = hub_E /\ assembled_U Qc QcD (bridge 2 hub_c) ED4 = hub_U.
Proof.
  assert (E : hub_chi_value4 = Q2Qc (64 # 459)) by (apply Qc_is_canon; vm_compute; reflexivity).
  split; [exact E|]. split; [rewrite E; symmetry; exact (proj1 hub_chi_value_resonant)|].
  split; [rewrite E; intros H; apply (f_equal this) in H; vm_compute in H; discriminate H|].
  split.
  - destruct hub_chi_symmetry_spine as [s [D [_ [_ [_ [Es _]]]]]]. rewrite Es.
    assert (E1 : match hub_chi_run4 with Done s => map (fun pq => p_blocks Qc (fst pq)) (g_parts Qc s) | _ => nil end =
                 ((0, 1, 3, 1) :: (0, 2, 3, 1) :: (0, 2, 0, 1) :: (2, 3, 1, 3) :: (2, 0, 1, 3) :: (2, 0, 2, 3) :: nil)%Z) by (vm_compute; reflexivity).
    assert (E2 : match hub_chi_run4 with Done s => existsb resonant_term_fires (g_parts Qc s) | _ => false end = true) by (vm_compute; reflexivity).
    rewrite Es in E1, E2. split; assumption.
  - split; [reflexivity|]. rewrite hub_c_bridge. vm_compute. reflexivity.
Qed.

(** [spine_chi_of_hamiltonian] instantiated: Hamiltonian polynomial -> symmetry analysis -> blocks filled by the model of
    HamiltonianPart::prepare -> exact per-block certificates of ED4 -> exact eigen-system of the Jordan-Wigner matrix of h, and
    chi_0110 at the resonant triple = EDSpec.chi of that eigen-system = 64/459 *)
Example hub_chi_of_hamiltonian :
  exists Hs s D,
    hub_class_run = Done hub_c /\ spine_hblocks Qc QcD true eps_half (bridge 2 hub_c) hub_h = Done Hs /\
    (forall b, (b < 4)%nat -> eigensystem Qc QcD (block_size (bridge 2 hub_c) b) (nth b Hs nil) (Uof Qc ED4 b) (Eof Qc ED4 b)) /\
    eigensystem Qc QcD 4 (poly_matrix Qc QcD 2 hub_h) (assembled_U Qc QcD (bridge 2 hub_c) ED4) (assembled_E Qc ED4) /\
    hub_chi_run4 = Done s /\ spine_dm Qc QcD 1 (bridge 2 hub_c) ED4 = Done D /\
    gf_value Qc QcD TLD s chi_z1 chi_z2 chi_z3 =
    Done (chi Qc QcD 1 eps_half (assembled_E Qc ED4) (assembled_w Qc D)
            (rotate Qc QcD 4 (assembled_U Qc QcD (bridge 2 hub_c) ED4) (op_matrix Qc QcD 2 (cann 0)))
            (rotate Qc QcD 4 (assembled_U Qc QcD (bridge 2 hub_c) ED4) (op_matrix Qc QcD 2 (cann 1)))
            (rotate Qc QcD 4 (assembled_U Qc QcD (bridge 2 hub_c) ED4) (op_matrix Qc QcD 2 (cdag 1)))
            (rotate Qc QcD 4 (assembled_U Qc QcD (bridge 2 hub_c) ED4) (op_matrix Qc QcD 2 (cdag 0)))
            chi_z1 chi_z2 chi_z3) /\
    gf_value Qc QcD TLD s chi_z1 chi_z2 chi_z3 = Done (Q2Qc (64 # 459)).
Proof.
  destruct (spine_chi_of_hamiltonian Qc QcD QcD_field SymmProofs.Qczero SymmProofs.Qchalf Qczero_spec eq_refl true eps_half
              eq_refl eq_refl eq_refl eq_refl QcD_zero_test kD kD_exact TLD TLD_guards QcD_nz TLD_negl TLD_negl eq_refl eq_refl qofZ_add qofZ_pos
              0%nat false false (Symm.SymmDefault Qc) hub_spins hub_h hub_sy hub_h_range I hub_sy_eq) as [c [Hs [Ec [HH F]]]].
  change (length hub_spins) with 2%nat in *.
  assert (Ecc : c = hub_c) by (pose proof hub_c_eq as E'; unfold qc_sc_compute in E'; cbn [n0 nadd nsub nopp QcD] in Ec; rewrite Ec in E';
      exact (f_equal (fun o : outcome (Symm.qclass Qc) => match o with Done x => x | _ => c end) E')).
  subst c.
  assert (Ecl : hub_class_run = Done hub_c) by (unfold hub_class_run; rewrite hub_sy_eq; cbn [bind]; exact Ec).
  assert (EO : eig_ok Qc (bridge 2 hub_c) ED4) by (rewrite hub_c_bridge; exact S4_eig_ok).
  assert (CERT : forall b, (b < 4)%nat -> eigensystem Qc QcD (block_size (bridge 2 hub_c) b) (nth b Hs nil) (Uof Qc ED4 b) (Eof Qc ED4 b)).
  { revert HH. rewrite hub_c_bridge. intros HH. vm_compute in HH. injection HH as <-. intros b Hb.
    do 4 (destruct b as [|b]; [split; intros r k Hr Hk; cbn in Hr, Hk;
                                 (destruct r as [|r]; [|lia]); (destruct k as [|k]; [|lia]); apply Qc_is_canon; vm_compute; reflexivity|]). lia. }
  destruct (F ED4 EO ltac:(intros b Hb; apply CERT; rewrite hub_c_bridge in Hb; exact Hb)) as [EIG G].
  destruct hub_chi_run4 as [s| | | |] eqn:E; try (vm_compute in E; discriminate E).
  pose proof E as E0. rewrite hub_chi_run4_eq in E.
  destruct (G 1 0%nat 1%nat 1%nat 0%nat ltac:(lia) ltac:(lia) ltac:(lia) ltac:(lia)
              ltac:(apply (cmp_exact_b_sound Qc QcD Qc_eq_bool Qc_eq_bool_spec); vm_compute; reflexivity)
              ltac:(apply (cmp_exact_b_sound Qc QcD Qc_eq_bool Qc_eq_bool_spec); vm_compute; reflexivity)
              s E) as [D [HD Hv]].
  assert (ED' : D = hub_D4).
  { rewrite hub_D4_eq in HD. exact (f_equal (fun o : outcome (list (Thermal.dmpart Qc)) => match o with Done x => x | _ => D end) (eq_sym HD)). }
  assert (Hval := Hv chi_z1 chi_z2 chi_z3 ltac:(rewrite ED'; apply (chi_regular6_b_sound Qc QcD Qc_eq_bool Qc_eq_bool_spec); vm_compute; reflexivity)).
  exists Hs, s, D. split; [exact Ecl|]. split; [exact HH|]. split; [exact CERT|]. split; [exact EIG|].
  split; [reflexivity|]. split; [exact HD|]. split; [exact Hval|].
  pose proof (proj1 hub_chi_value4_resonant) as Ev. unfold hub_chi_value4 in Ev. rewrite E0 in Ev. rewrite Hval in Ev |- *. f_equal. exact Ev.
Qed.
