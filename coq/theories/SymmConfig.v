(** SymmConfig.v -- C07 / C08: the configuration of the model PV.Symm that the SOURCE TEXT selects.

    PV.Symm models Symmetrizer::checkSymmetry / compute, StatesClassification::compute and FieldOperator::mapsTo / prepare with
    two boolean switches ([fixed_sz], [shiftfix]) for the two repairs made to /repo, and with three things built in: the tests
    "commutes with H" and "commutes with every n_i" of checkSymmetry, the comparison of quantum-number tuples entry by entry IN
    ORDER (the C++ compares boost hashes of the vector), and prepare() loops that visit every block.  Which of these describes
    the tree at hand is no longer decided only by probe scenarios at run time: translator/gen_symm.py reads the deciding code
    sites on every run,

      PVgen.Gen_Symm         gen_tests / gen_checks_commute_H / gen_checks_commute_n / gen_checks_uniform_shift
                             the acceptance tests of Symmetrizer::checkSymmetry, in source order and as membership flags
      PVgen.Gen_SymmDefault  gen_sz_guard nup indexsize      the condition under which compute(bool) constructs and offers S_z
      PVgen.Gen_SymmHash     gen_hash_is_ordered             QuantumNumbers::set recomputes the hash from the ordered vector
      PVgen.Gen_SymmPrepare  gen_prepare_{cdag,c,quad}_range the (first, bound) of the three prepare() loops, as written

    and this file instantiates the model WITH THOSE VALUES ([*_code] below).  The pieces of PV.Symm that have a switch built in
    are restated here with the switch as an argument ([*_with]); PV.SymmAgreement proves that the [*_with] forms at the repaired
    values are the definitions of PV.Symm, and that the generated values are the repaired ones (closed computations on the
    generated constants, which fail when the source changes).  The theorems of props/Properties_C07_source.v are stated about
    the [*_code] definitions.

    Definitions only. *)
Require Import Bool List Arith.
From PV Require Import Outcome Fock Poly Symm.
From PVgen Require Import Gen_Symm Gen_SymmDefault Gen_SymmHash Gen_SymmPrepare.
Import ListNotations.

Section Cfg.
Variable K : Type.
Variables (k0 k1 : K) (kadd kmul ksub : K -> K -> K) (kopp : K -> K).
Variable kzero : K -> bool.
Variable khalf : K.

Local Notation poly := (poly K).
Local Notation commutes := (commutes K kadd kmul ksub kopp kzero true).
Local Notation commutes_all_n := (commutes_all_n K k1 kadd kmul ksub kopp kzero).
Local Notation shift_test_all := (shift_test_all K k0 k1 kadd kmul ksub kopp kzero).
Local Notation p_N := (p_N K k1 kadd kzero).
Local Notation p_Sz := (p_Sz K k1 kadd kmul ksub kopp kzero khalf).
Local Notation p_cdag := (p_cdag K k1).
Local Notation p_c := (p_c K k1).
Local Notation p_n_offdiag := (p_n_offdiag K k1).
Local Notation qn_of := (qn_of K k0 kadd kopp).
Local Notation qn_eqb := (qn_eqb K ksub kzero).
Local Notation mapsTo := (mapsTo K kadd kopp kzero).

(** * Symmetrizer::checkSymmetry *)

(** one acceptance test of the source (PVgen.Gen_Symm.sym_test) *)
Definition run_test (t : sym_test) (N : nat) (H op : poly) : outcome bool :=
  match t with
  | TestCommuteH => commutes H op                          (* if (!Storage.commutes( *OP1)) return false; *)
  | TestCommuteN => commutes_all_n (seq 0 N) op            (* for (i < IndexSize) if (!n(i).commutes( *OP1)) return false; *)
  | TestUniformShift => shift_test_all N (seq 0 N) op      (* for (i < IndexSize) { ... comm == cdag*q ... } *)
  end.

(** the tests in the order given, each one ending the function with [false] when it fails *)
Fixpoint run_tests (ts : list sym_test) (N : nat) (H op : poly) : outcome bool :=
  match ts with
  | [] => Done true
  | t :: r => bind (run_test t N H op) (fun b => if b then run_tests r N H op else Done false)
  end.

(** the same three tests in the model's order, each one present or not *)
Definition check_symmetry_with (cH cN cS : bool) (N : nat) (H op : poly) : outcome bool :=
  bind (if cH then commutes H op else Done true) (fun b1 =>
    if b1 then
      bind (if cN then commutes_all_n (seq 0 N) op else Done true) (fun b2 =>
        if b2 then (if cS then shift_test_all N (seq 0 N) op else Done true)
        else Done false)
    else Done false).

Definition has_test (t : sym_test) (ts : list sym_test) : bool :=
  existsb (fun u => match t, u with
                    | TestCommuteH, TestCommuteH | TestCommuteN, TestCommuteN | TestUniformShift, TestUniformShift => true
                    | _, _ => false
                    end) ts.

(** * Symmetrizer::compute for an arbitrary acceptance test and an arbitrary S_z guard *)
Section Pipeline.
Variable check : nat -> poly -> poly -> outcome bool.      (* checkSymmetry: IndexSize, Storage, candidate *)
Variable guard : nat -> nat -> bool.                       (* SpinUpIndices.size(), IndexSize *)

Definition sy_offer_with (N : nat) (H : poly) (sy : symm K) (op : poly) : outcome (symm K) :=
  bind (check N H op) (fun b =>
    Done {| sy_ops := if b then sy_ops sy ++ [op] else sy_ops sy; sy_flags := sy_flags sy ++ [b] |}).

Fixpoint compute_custom_loop_with (N : nat) (H : poly) (cands : list poly) (sy : symm K) : outcome (symm K) :=
  match cands with
  | [] => Done sy
  | q :: r => bind (sy_offer_with N H sy q) (compute_custom_loop_with N H r)
  end.
Definition compute_custom_with (N : nat) (H : poly) (cands : list poly) : outcome (symm K) :=
  compute_custom_loop_with N H cands (sy_empty K).

(** Symmetrizer::compute(bool): N always; S_z when every label is up or down and [guard #up IndexSize] holds *)
Definition compute_default_with (ignore : bool) (spins : list nat) (H : poly) : outcome (symm K) :=
  let N := length spins in
  if ignore then Done (sy_empty K) else
  bind (sy_offer_with N H (sy_empty K) (p_N N)) (fun sy1 =>
    if valid_sz spins then
      let ups := spin_up_indices spins in
      if guard (length ups) N
      then bind (p_Sz N ups) (fun op_sz => sy_offer_with N H sy1 op_sz)
      else Done sy1
    else Done sy1).

Definition symmetrize_with (mode : symm_mode K) (spins : list nat) (H : poly) : outcome (symm K) :=
  match mode with
  | SymmDefault _ => compute_default_with false spins H
  | SymmIgnore _ => compute_default_with true spins H
  | SymmCustom _ cands => compute_custom_with (length spins) H cands
  end.
End Pipeline.

(** * StatesClassification::compute for an ordered / order-insensitive comparison of quantum numbers *)

(** equality of the tuples as multisets: what an order-insensitive hash can distinguish at best *)
Fixpoint qn_remove_one (x : K) (l : list K) : option (list K) :=
  match l with
  | [] => None
  | y :: r => if kzero (ksub x y) then Some r
              else match qn_remove_one x r with Some r' => Some (y :: r') | None => None end
  end.
Fixpoint qn_eqb_unordered (a b : list K) : bool :=
  match a with
  | [] => match b with [] => true | _ => false end
  | x :: a' => match qn_remove_one x b with Some b' => qn_eqb_unordered a' b' | None => false end
  end.
Definition qn_eqb_with (ordered : bool) : list K -> list K -> bool :=
  if ordered then qn_eqb else qn_eqb_unordered.

Definition sc_compute_with (ordered : bool) (N : nat) (ops : list poly) : outcome (qclass K) :=
  sc_compute_gen (list K) (qn_eqb_with ordered) (fun s => qn_of ops (state_of_nat N s)) (Nat.pow 2 N).

(** * prepare() for an arbitrary range of right blocks: for (R = first; R < bound; R++) *)
Definition prepare_with (range : nat -> nat * nat) (N : nat) (c : qclass K) (O : poly) : outcome fieldop :=
  let fb := range (numberOfBlocks c) in
  prepare_loop (mapsTo N c O) (seq (fst fb) (snd fb - fst fb)) fo_empty.

(** * The whole analysis *)
Definition analyse_with (check : nat -> poly -> poly -> outcome bool) (guard : nat -> nat -> bool) (ordered : bool)
    (range_cdag range_c : nat -> nat * nat) (mode : symm_mode K) (spins : list nat) (H : poly) : outcome (analysis K) :=
  let N := length spins in
  bind (symmetrize_with check guard mode spins H) (fun sy =>
  bind (sc_compute_with ordered N (sy_ops sy)) (fun c =>
  bind (mapM (fun i => prepare_with range_cdag N c (p_cdag i)) (seq 0 N)) (fun cd =>
  bind (mapM (fun i => prepare_with range_c N c (p_c i)) (seq 0 N)) (fun cc =>
  Done {| an_symm := sy; an_class := c; an_cdag := cd; an_c := cc |})))).

(** * The configuration the source text of this tree has *)

(** the S_z guard of the repaired compute(bool): as many up as down indices *)
Definition sz_guard_repaired (nup indexsize : nat) : bool := Nat.eqb (2 * nup) indexsize.
(** the range of a prepare() loop that visits every block *)
Definition all_blocks (nblocks : nat) : nat * nat := (0, nblocks).

Definition check_symmetry_code : nat -> poly -> poly -> outcome bool :=
  check_symmetry_with gen_checks_commute_H gen_checks_commute_n gen_checks_uniform_shift.
(** the same tests run in the order of the source text (equal to [check_symmetry_code] on operators in range: SymmAgreement) *)
Definition check_symmetry_source_order : nat -> poly -> poly -> outcome bool := run_tests gen_tests.

Definition symmetrize_code : symm_mode K -> list nat -> poly -> outcome (symm K) :=
  symmetrize_with check_symmetry_code gen_sz_guard.
Definition sc_compute_code : nat -> list poly -> outcome (qclass K) := sc_compute_with gen_hash_is_ordered.
Definition prepare_cdag_code (N : nat) (c : qclass K) (i : nat) : outcome fieldop := prepare_with gen_prepare_cdag_range N c (p_cdag i).
Definition prepare_c_code (N : nat) (c : qclass K) (i : nat) : outcome fieldop := prepare_with gen_prepare_c_range N c (p_c i).
Definition prepare_quad_code (N : nat) (c : qclass K) (i j : nat) : outcome fieldop :=
  prepare_with gen_prepare_quad_range N c (p_n_offdiag i j).
Definition analyse_code : symm_mode K -> list nat -> poly -> outcome (analysis K) :=
  analyse_with check_symmetry_code gen_sz_guard gen_hash_is_ordered gen_prepare_cdag_range gen_prepare_c_range.

End Cfg.

(** the switches of PV.Symm that the generated values correspond to (for the cross-check of checks/C07.py: the variant
    established by probe scenarios must be this one) *)
Definition cfg_shiftfix : bool := gen_checks_uniform_shift.
Definition cfg_sz_guard : nat -> nat -> bool := gen_sz_guard.
Definition cfg_hash_ordered : bool := gen_hash_is_ordered.
Definition cfg_prepare_all_blocks : bool := gen_prepare_visits_all_blocks.
