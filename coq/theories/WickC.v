(** C12 -- the field setting of PV.Wick instantiated at Coquelicot's complex numbers:
    the hypotheses of the generic development are satisfiable, every point
      (real levels e1 e2, x_i = e^{-beta e_i}, fermionic Matsubara frequencies z_k = i (2 n_k + 1) pi / beta)
    is regular, and so the vertex of the free two-mode model vanishes for ALL real e1, e2 (degenerate,
    zero, particle-hole symmetric included), all beta > 0, all index quadruples and all frequency triples
    (coinciding frequencies and n1 + n2 = -1 included). *)
Require Import Reals List ZArith Bool Arith Lia Lra.
From Coquelicot Require Import Coquelicot.
From PV Require Import Outcome Fock Poly EDSpec Matsubara4Spec Wick WickProofs WickMain.
From PVgen Require Import Gen_Vertex4.
Import ListNotations.
Local Open Scope R_scope.

(** exact zero test on C (classical: equality of reals is decidable through the standard real axioms) *)
Definition Cisz (z : C) : bool := if Ceq_dec z (RtoC 0) then true else false.

Lemma Cisz_spec : forall z, Cisz z = true <-> z = RtoC 0.
Proof. intros z. unfold Cisz. destruct (Ceq_dec z (RtoC 0)); split; intros; try assumption; try reflexivity; try discriminate; contradiction. Qed.

Lemma Cisz_0 : Cisz (RtoC 0) = true.
Proof. now apply Cisz_spec. Qed.
Lemma Cisz_1 : Cisz (RtoC 1) = false.
Proof.
  destruct (Cisz (RtoC 1)) eqn:E; [|reflexivity]. apply Cisz_spec in E.
  apply (f_equal fst) in E. simpl in E. lra.
Qed.

Lemma C_two : Cplus (RtoC 1) (RtoC 1) <> RtoC 0.
Proof. intro E. apply (f_equal fst) in E. simpl in E. lra. Qed.

(** the tests: |x| := x, "a < b" := (a = 0 and b <> 0), tol := 1 realise the exact zero tests *)
Lemma C_nz_test : forall x : C, Cisz (RtoC 0) && negb (Cisz x) = negb (Cisz x).
Proof. intros x. now rewrite Cisz_0. Qed.
Lemma C_res_test : forall x : C, Cisz x && negb (Cisz (RtoC 1)) = Cisz x.
Proof. intros x. rewrite Cisz_1. simpl. apply andb_true_r. Qed.

Definition CSetting : fsetting := {|
  fK := C; f0 := RtoC 0; f1 := RtoC 1; fadd := Cplus; fmul := Cmult; fsub := Cminus; fopp := Copp;
  fdiv := Cdiv; finv := Cinv; fKf := C_field_theory;
  fisz := Cisz; fisz_spec := Cisz_spec;
  fabs := fun z => z; fltb := fun a b => Cisz a && negb (Cisz b); ftol := RtoC 1;
  fnz_test := C_nz_test; fres_test := C_res_test; ftwo := C_two |}.

(** fermionic Matsubara frequencies  z_n = i (2n+1) pi / beta *)
Definition om (beta : R) (n : Z) : R := IZR (2 * n + 1) * PI / beta.
Definition zfC (beta : R) (n : Z) : C := (0, om beta n).

Lemma om_neq_0 : forall beta n, 0 < beta -> om beta n <> 0.
Proof.
  intros beta n Hb. unfold om. intros E.
  assert (H : IZR (2 * n + 1) * PI = 0).
  { apply (Rmult_eq_compat_r beta) in E. unfold Rdiv in E. rewrite Rmult_assoc, Rinv_l, Rmult_1_r, Rmult_0_l in E; lra. }
  apply Rmult_integral in H. destruct H as [H|H]; [apply eq_IZR_R0 in H; lia | pose proof PI_RGT_0; lra].
Qed.

Lemma om_comb : forall beta n1 n2 n3, om beta n1 + om beta n2 - om beta n3 = om beta (n1 + n2 - n3).
Proof.
  intros beta n1 n2 n3. unfold om.
  replace (IZR (2 * (n1 + n2 - n3) + 1)) with (IZR (2 * n1 + 1) + IZR (2 * n2 + 1) - IZR (2 * n3 + 1)).
  - unfold Rdiv. ring.
  - rewrite <- plus_IZR, <- minus_IZR. f_equal. lia.
Qed.

Lemma om_inj : forall beta n m, 0 < beta -> om beta n = om beta m -> n = m.
Proof.
  intros beta n m Hb E. unfold om in E.
  assert (H : IZR (2 * n + 1) = IZR (2 * m + 1)).
  { pose proof PI_RGT_0 as Hpi.
    apply (Rmult_eq_compat_r (beta / PI)) in E. unfold Rdiv in E.
    replace (IZR (2 * n + 1) * PI * / beta * (beta * / PI)) with (IZR (2 * n + 1)) in E by (field; lra).
    replace (IZR (2 * m + 1) * PI * / beta * (beta * / PI)) with (IZR (2 * m + 1)) in E by (field; lra).
    exact E. }
  apply eq_IZR in H. lia.
Qed.

Lemma zfC_inj : forall beta, 0 < beta -> forall n m, Cminus (zfC beta n) (zfC beta m) = RtoC 0 -> n = m.
Proof.
  intros beta Hb n m E. apply (f_equal snd) in E. simpl in E. apply (om_inj beta); [exact Hb | lra].
Qed.

(** every physical point is regular *)
Theorem regular_C : forall (e1 e2 beta : R) (n1 n2 n3 : Z), 0 < beta ->
  regular CSetting (RtoC e1) (RtoC e2) (RtoC (exp (- beta * e1))) (RtoC (exp (- beta * e2)))
          (zfC beta n1) (zfC beta n2) (zfC beta n3).
Proof.
  intros e1 e2 beta n1 n2 n3 Hb.
  pose proof (om_neq_0 beta n1 Hb) as H1. pose proof (om_neq_0 beta n2 Hb) as H2. pose proof (om_neq_0 beta n3 Hb) as H3.
  pose proof (om_neq_0 beta (n1 + n2 - n3) Hb) as H4. rewrite <- om_comb in H4.
  pose proof (exp_pos (- beta * e1)) as Hx1. pose proof (exp_pos (- beta * e2)) as Hx2.
  constructor; simpl; unfold zfC.
  - intro E. apply (f_equal fst) in E. simpl in E. lra.
  - intro E. apply (f_equal fst) in E. simpl in E. lra.
  - intro E. apply (f_equal snd) in E. simpl in E. lra.
  - intro E. apply (f_equal snd) in E. simpl in E. lra.
  - intro E. apply (f_equal snd) in E. simpl in E. lra.
  - intro E. apply (f_equal snd) in E. simpl in E. lra.
  - intro E. apply (f_equal snd) in E. simpl in E. lra.
  - intro E. apply (f_equal snd) in E. simpl in E. lra.
  - intro E. apply (f_equal snd) in E. simpl in E. lra.
  - intro E. apply (f_equal snd) in E. simpl in E. lra.
  - intro E. pose proof (f_equal fst E) as Ea. pose proof (f_equal snd E) as Eb. simpl in Ea, Eb.
    split; apply injective_projections; simpl; lra.
  - intro E. pose proof (f_equal fst E) as Ea. pose proof (f_equal snd E) as Eb. simpl in Ea, Eb.
    split; apply injective_projections; simpl; lra.
  - intro E. pose proof (f_equal fst E) as Ea. pose proof (f_equal snd E) as Eb. simpl in Ea, Eb.
    split; apply injective_projections; simpl; lra.
  - intro E. pose proof (f_equal fst E) as Ea. pose proof (f_equal snd E) as Eb. simpl in Ea, Eb.
    split; apply injective_projections; simpl; lra.
  - intro E. pose proof (f_equal fst E) as Ea. pose proof (f_equal snd E) as Eb. simpl in Ea, Eb.
    split; apply injective_projections; simpl; lra.
  - intro E. apply (f_equal snd) in E. simpl in E. lra.
  - intro E. apply (f_equal fst) in E. simpl in E. assert (e1 = e2) by lra. now subst e2.
  - intro E. apply (f_equal fst) in E. simpl in E.
    apply injective_projections; simpl; [|ring].
    rewrite Rmult_0_l, Rminus_0_r, <- exp_plus. replace (- beta * e1 + - beta * e2) with (- beta * (e1 + e2)) by ring.
    replace (e1 + e2) with 0 by lra. rewrite Rmult_0_r. apply exp_0.
Qed.

(** free_vertex_zero over the complex numbers: Vertex4::value (generated) = 0 for the free two-mode model,
    all real levels, all beta > 0, all index quadruples, all triples of fermionic Matsubara numbers *)
Theorem free_vertex_zero_C : forall (e1 e2 beta : R) (i j k l : nat) (n1 n2 n3 : Z),
  0 < beta -> (i < 2)%nat -> (j < 2)%nat -> (k < 2)%nat -> (l < 2)%nat ->
  let x1 := RtoC (exp (- beta * e1)) in
  let x2 := RtoC (exp (- beta * e2)) in
  vertex_value C Cplus Cminus Cmult (RtoC beta)
     (Chi4 CSetting (zfC beta) (RtoC beta) (RtoC e1) (RtoC e2) x1 x2 i j k l)
     (Gmn CSetting (zfC beta) (RtoC e1) (RtoC e2) x1 x2 i k) (Gmn CSetting (zfC beta) (RtoC e1) (RtoC e2) x1 x2 j l)
     (Gmn CSetting (zfC beta) (RtoC e1) (RtoC e2) x1 x2 i l) (Gmn CSetting (zfC beta) (RtoC e1) (RtoC e2) x1 x2 j k)
     n1 n2 n3 = RtoC 0.
Proof.
  intros e1 e2 beta i j k l n1 n2 n3 Hb Hi Hj Hk Hl x1 x2.
  apply (free_vertex_zero CSetting (zfC beta) (zfC_inj beta Hb)); try assumption.
  now apply regular_C.
Qed.

(** ... and the free propagator over C: G_ij(i omega_n) = delta_ij / (i omega_n - e_i) *)
Theorem free_gf_diag_C : forall (e1 e2 beta : R) (i j : nat) (n : Z),
  0 < beta -> (i < 2)%nat -> (j < 2)%nat ->
  Gmn CSetting (zfC beta) (RtoC e1) (RtoC e2) (RtoC (exp (- beta * e1))) (RtoC (exp (- beta * e2))) i j n =
  if Nat.eqb i j then Cdiv (RtoC 1) (Cminus (zfC beta n) (RtoC (nth i [e1; e2] 0))) else RtoC 0.
Proof.
  intros e1 e2 beta i j n Hb Hi Hj.
  rewrite (Gmn_free CSetting (zfC beta) _ _ _ _ (zfC beta n) (zfC beta n) i j n Hi Hj (regular_C e1 e2 beta n n n Hb)).
  unfold gfree. destruct (Nat.eqb i j); [|reflexivity]. simpl.
  destruct i as [|[|i]]; [reflexivity | reflexivity | exfalso; lia].
Qed.

(** * The Gibbs table of PV.Wick is what the specification's weight function computes
      (PV.EDSpec.weights at the number type CNum-like real ordering): for real levels and x_i = e^{-beta e_i},
      whatever reference energy e0 the function subtracts. *)
Definition CNumR : numops C := {|
  n0 := RtoC 0; n1 := RtoC 1; nadd := Cplus; nsub := Cminus; nmul := Cmult; ndiv := Cdiv;
  nopp := Copp; nconj := Cconj; nexp := fun z => RtoC (exp (Re z));
  nre_ltb := fun a b => if Rlt_dec (Re a) (Re b) then true else false; nabs := fun z => RtoC (Cmod z);
  nofZ := fun k => RtoC (IZR k); nI := Ci |}.

Lemma weights_shift_2 : forall (beta e1 e2 : R) (e0 : C),
  let E := energies CSetting [RtoC e1; RtoC e2] in
  let u := map (fun e => nexp C CNumR (Copp (Cmult (RtoC beta) (Cminus e e0)))) E in
  let Z := ksum C CNumR u (fun x => x) in
  map (fun x => Cdiv x Z) u = gibbs CSetting [RtoC (exp (- beta * e1)); RtoC (exp (- beta * e2))].
Proof.
  intros beta e1 e2 [a0 b0]. cbv zeta.
  set (t := exp (beta * a0)). set (x1 := exp (- beta * e1)). set (x2 := exp (- beta * e2)).
  assert (Ht : 0 < t) by apply exp_pos. assert (Hx1 : 0 < x1) by apply exp_pos. assert (Hx2 : 0 < x2) by apply exp_pos.
  assert (U0 : exp (Re (Copp (Cmult (RtoC beta) (Cminus (RtoC 0) (a0, b0))))) = t).
  { unfold t. f_equal. simpl. ring. }
  assert (U1 : exp (Re (Copp (Cmult (RtoC beta) (Cminus (Cplus (RtoC 0) (RtoC e1)) (a0, b0))))) = t * x1).
  { unfold t, x1. rewrite <- exp_plus. f_equal. simpl. ring. }
  assert (U2 : exp (Re (Copp (Cmult (RtoC beta) (Cminus (Cplus (RtoC 0) (RtoC e2)) (a0, b0))))) = t * x2).
  { unfold t, x2. rewrite <- exp_plus. f_equal. simpl. ring. }
  assert (U3 : exp (Re (Copp (Cmult (RtoC beta) (Cminus (Cplus (Cplus (RtoC 0) (RtoC e1)) (RtoC e2)) (a0, b0))))) = t * x1 * x2).
  { unfold t, x1, x2. rewrite <- !exp_plus. f_equal. simpl. ring. }
  rewrite (energies2 CSetting), (gibbs2 CSetting).
  cbn [map nexp CNumR ksum fold_left nadd n0]. cbn [fK f0 f1 fadd fmul fsub fdiv CSetting].
  rewrite U0, U1, U2, U3.
  assert (Hcomp : forall a b : C, fst a = fst b -> snd a = snd b -> a = b) by (intros; now apply injective_projections).
  assert (H1 : 0 < t * x1) by now apply Rmult_lt_0_compat.
  assert (H2 : 0 < t * x2) by now apply Rmult_lt_0_compat.
  assert (H3 : 0 < t * x1 * x2) by now apply Rmult_lt_0_compat.
  assert (H4 : 0 < x1 * x2) by now apply Rmult_lt_0_compat.
  apply (f_equal2 cons); [|apply (f_equal2 cons); [|apply (f_equal2 cons); [|apply (f_equal2 cons); [|reflexivity]]]];
  (apply Hcomp; unfold Cdiv, Cinv, Cmult, Cplus, RtoC; simpl; field; repeat split; nra).
Qed.

Theorem weights_is_gibbs_2 : forall (beta e1 e2 : R),
  weights C CNumR (RtoC beta) (energies CSetting [RtoC e1; RtoC e2]) =
  gibbs CSetting [RtoC (exp (- beta * e1)); RtoC (exp (- beta * e2))].
Proof. intros beta e1 e2. unfold weights. apply weights_shift_2. Qed.
