(** LehmannGenProofsGF.v -- C01: the descriptions generated from GreensFunctionPart.cpp / GreensFunctionPart.h / GreensFunction.h are
    the ones PV.Sparse / PV.GFPart follow (closed computations: they stop checking when the source says something else), hence the
    [..._src] functions of PV.LehmannGen are the model functions, and the theorems of props/Properties_C01.v hold of them. *)
Require Import Bool List Arith ZArith Lia Reals Ring_theory Field_theory.
From PV Require Import EDSpec NumLit BigSum Sparse SparseProofs TermList TermListProofs GFPart GFPartProofs GFFullProofs
     LehmannShapes LehmannInterp LehmannInterpProofs LehmannGenEquiv LehmannGen LehmannGenProofs.
From PVgen Require Import Gen_C01 Gen_LehGFPartCompute Gen_LehAddTerm Gen_LehTermListEval Gen_LehGFTermTau Gen_LehGFPartEval Gen_LehGFEval.
Import ListNotations.

(** * leaves *)
Lemma gen_gf_nest_is_model : gen_gf_nest = model_merge_nest gf_chase_guarded.
Proof. reflexivity. Qed.

Lemma gen_gf_blocks_is_model (K : Type) (NO : numops K) :
  gen_gf_blocks K NO = [model_gf_body K (gf_residue K NO) (gf_pole K NO) (gf_relevant K NO)].
Proof. reflexivity. Qed.

Lemma gen_gf_term_tau_is_model (K : Type) (NO : numops K) (R P tau beta : K) :
  gen_gf_term_tau K NO R P tau beta = gf_term_tau K NO R P tau beta.
Proof. reflexivity. Qed.

Lemma gen_gfpart_eval_is_model (K : Type) (NO : numops K) :
  gen_gfpart_z_args = [PaArg 0] /\ gen_gfpart_tau_args = [PaArg 0; PaBeta] /\
  (forall t zw beta a, gen_gfpart_z K NO t zw beta a = gf_part_eval K t) /\
  (forall t zw beta a, gen_gfpart_tau K NO t zw beta a = gf_part_tau K t) /\
  (forall n, gen_gfpart_matsubara n = gf_matsubara_mult n).
Proof. repeat split; reflexivity. Qed.

(** GreensFunction::operator()(z) / of_tau: if(Vanishing) return 0; else { Value = 0; for(parts) Value += part(arg); return Value; } *)
Definition model_gf_value (K : Type) : list (vstmt K) :=
  [VsIf VcVanishing [VsReturnZero] [VsInit; VsForParts AccPlus; VsReturnValue]].
(** the source may write the same function in another, equivalent way ([LehmannGenEquiv.vequiv]: same returned value for every
    state of the object), e.g.  Value = 0; if(!Vanishing) for(parts) Value += part(arg); return Value; *)
Lemma gen_gf_value_is_model (K : Type) (NO : numops K) :
  vequiv (gen_gf_value_z K NO) (model_gf_value K) /\ vequiv (gen_gf_value_tau K NO) (model_gf_value K) /\
  (forall n, gen_gf_matsubara n = gf_total_matsubara_mult n).
Proof. split; [|split]; [vequiv_auto|vequiv_auto|reflexivity]. Qed.

Lemma all_some_option_map {A B C} (f : A -> option B) (h : B -> C) (l : list A) :
  all_some (map (fun x => option_map h (f x)) l) = option_map (map h) (all_some (map f l)).
Proof.
  induction l as [|x l IH]; [reflexivity|].
  cbn [map all_some]. destruct (f x) as [y|]; cbn [option_map]; [|reflexivity].
  rewrite IH. destruct (all_some (map f l)); reflexivity.
Qed.

Lemma fold_left_ext_all {A B} (f h : A -> B -> A) : (forall a b, f a b = h a b) -> forall l a, fold_left f l a = fold_left h l a.
Proof. intros E. induction l as [|b l IH]; intros a; [reflexivity|]. cbn [fold_left]. rewrite E. apply IH. Qed.

Section GF.
Variable K : Type.
Variable NO : numops K.
Notation k0 := (n0 K NO).
Notation gterm := (gterm K).

(** what compute() does with a candidate of the model: add_term iff relevant *)
Definition events_of_cand (c : bool * gterm) : list (mevent K) :=
  if fst c then [MeAdd (snd (snd c)) (fst (snd c))] else [].

Lemma gf_visit_is_match (T : tols K) (blk : nat * nat) (inp : part_in K) (m : nat * (nat * nat)) :
  visit_events K NO [model_gf_body K (gf_residue K NO) (gf_pole K NO) (gf_relevant K NO)] T blk inp (0, m) =
  option_map events_of_cand (gf_match K NO T inp m).
Proof.
  unfold visit_events, menv_at, gf_match. cbn [fst snd].
  destruct (rdv (p_C K inp) (fst (snd m))) as [va|]; [|reflexivity].
  destruct (rdv (p_CX K inp) (snd (snd m))) as [vb|]; [|reflexivity].
  destruct (nth_error (cs_idx (p_C K inp)) (fst (snd m))) as [i2|]; [|reflexivity].
  destruct (nth_error (p_wO K inp) (fst m)); [|reflexivity].
  destruct (nth_error (p_wI K inp) i2); [|reflexivity].
  destruct (nth_error (p_eO K inp) (fst m)); [|reflexivity].
  destruct (nth_error (p_eI K inp) i2); [|reflexivity].
  cbn [option_map]. rewrite model_gf_body_events. reflexivity.
Qed.

Theorem gf_part_events_is_model (lenient : bool) (T : tols K) (blk : nat * nat) (inp : part_in K) :
  part_events K NO gen_gf_nest (gen_gf_blocks K NO) lenient T blk inp =
  wmap (fun o => flat_map events_of_cand (o_raw K o)) (gf_part_compute K NO gf_chase_guarded lenient T inp).
Proof.
  unfold part_events, gf_part_compute. rewrite gen_gf_nest_is_model, gen_gf_blocks_is_model, part_walk_src_is_model.
  destruct (part_walk gf_chase_guarded lenient (p_C K inp) (p_CX K inp)) as [l| | |]; cbn [wmap wbind]; try reflexivity.
  unfold tag0o. rewrite map_map.
  rewrite (map_ext _ (fun m => option_map events_of_cand (gf_match K NO T inp m)) (fun m => gf_visit_is_match T blk inp m)).
  rewrite all_some_option_map.
  destruct (all_some (map (gf_match K NO T inp) l)) as [raw|]; cbn [option_map wmap]; [|reflexivity].
  cbn [o_raw]. rewrite flat_map_concat_map. reflexivity.
Qed.

Lemma terms_of_cand_events (add : gterm -> list gterm -> list gterm) (raw : list (bool * gterm)) :
  terms_of_events K add (flat_map events_of_cand raw) = fold_left (fun l t => add t l) (kept K raw) [].
Proof.
  unfold terms_of_events, kept. generalize (@nil gterm).
  induction raw as [|[keep [P R]] raw IH]; intros acc; [reflexivity|].
  cbn [flat_map filter fst]. unfold events_of_cand at 1. cbn [fst snd]. destruct keep.
  - cbn [app map fold_left snd]. apply IH.
  - cbn [app]. apply IH.
Qed.

(** the interpreted add_term of the source, on (Pole, Residue) terms with the Term's own comparator / += / negligibility test *)
Lemma gf_add_term_src_is_ref (T : tols K) (t : gterm) (l : list gterm) :
  gf_add_term_src K NO T t l =
  snd (add_term_ref gterm (tcomp K K (gf_compare K NO (t_compare K T))) (tplus K K (gf_term_add K NO))
                    (tnegl K K (gf_negligible K NO (t_negligible K T))) (length l) t l).
Proof.
  unfold gf_add_term_src, gt_add_term_by. rewrite gen_add_term_is_model.
  rewrite (add_term_by_model gterm (gt_comp K (gf_compare K NO) (t_compare K T)) (gt_plus K (gf_term_add K NO))
                             (gt_negl K (gf_negligible K NO) (t_negligible K T)) t l).
  reflexivity.
Qed.

Definition gf_terms_src (T : tols K) (ts : list gterm) : list gterm :=
  add_terms_ref K K (gf_compare K NO (t_compare K T)) (gf_negligible K NO (t_negligible K T)) (gf_term_add K NO) ts [].

(** GreensFunctionPart::compute of the source = the model's walk and candidates, followed by the source's add_term *)
Theorem gf_part_compute_src_is_model (lenient : bool) (T : tols K) (blk : nat * nat) (inp : part_in K) :
  gf_part_compute_src K NO lenient T blk inp =
  wmap (fun o => gf_terms_src T (kept K (o_raw K o))) (gf_part_compute K NO gf_chase_guarded lenient T inp).
Proof.
  unfold gf_part_compute_src. rewrite gf_part_events_is_model.
  destruct (gf_part_compute K NO gf_chase_guarded lenient T inp) as [o| | |]; cbn [wmap]; try reflexivity.
  rewrite terms_of_cand_events. unfold gf_terms_src, add_terms_ref. f_equal.
  apply fold_left_ext_all. intros l t. apply gf_add_term_src_is_ref.
Qed.

Lemma gf_part_compute_terms (fixed lenient : bool) (T : tols K) (inp : part_in K) (o : part_out K) :
  gf_part_compute K NO fixed lenient T inp = WDone o -> o_terms K o = fst (gf_add_terms K NO T (kept K (o_raw K o))).
Proof.
  unfold gf_part_compute. destruct (part_walk fixed lenient (p_C K inp) (p_CX K inp)); cbn [wbind]; try discriminate.
  destruct (all_some (map (gf_match K NO T inp) a)); [|discriminate]. intros E. injection E as <-. reflexivity.
Qed.

(** the source's compute returns exactly the model's term list: for every comparator, every tolerance, every input
    (PV.TermList.add_term is the retry loop the source has: LehmannGenProofs.add_terms_ref_is_termlist) *)
Theorem gf_terms_src_is_model (T : tols K) (ts : list gterm) : gf_terms_src T ts = fst (gf_add_terms K NO T ts).
Proof. unfold gf_terms_src, gf_add_terms. apply add_terms_ref_is_termlist. Qed.

Theorem gf_part_compute_src_agrees (lenient : bool) (T : tols K) (blk : nat * nat) (inp : part_in K) :
  forall o, gf_part_compute K NO gf_chase_guarded lenient T inp = WDone o ->
  gf_part_compute_src K NO lenient T blk inp = WDone (o_terms K o).
Proof.
  intros o E. rewrite gf_part_compute_src_is_model, E. cbn [wmap]. f_equal.
  rewrite (gf_part_compute_terms _ _ _ _ _ E). apply gf_terms_src_is_model.
Qed.

(** the converse direction: whatever the source's compute returns, the model returns too *)
Theorem gf_part_compute_src_done (lenient : bool) (T : tols K) (blk : nat * nat) (inp : part_in K) (terms : list gterm) :
  gf_part_compute_src K NO lenient T blk inp = WDone terms ->
  exists o, gf_part_compute K NO gf_chase_guarded lenient T inp = WDone o /\ terms = gf_terms_src T (kept K (o_raw K o)).
Proof.
  rewrite gf_part_compute_src_is_model.
  destruct (gf_part_compute K NO gf_chase_guarded lenient T inp) as [o| | |]; cbn [wmap]; try discriminate.
  intros E. injection E as <-. exists o. split; reflexivity.
Qed.
End GF.

(** * evaluation *)
Section GFEval.
Variable K : Type.
Variable NO : numops K.
Notation k0 := (n0 K NO).
Notation kadd := (nadd K NO).
Notation gterm := (gterm K).

Lemma gf_terms_call_z (terms : list gterm) (z : K) : terms_call_by K NO (gf_term_call K NO) terms [z] = gf_terms_eval K NO terms z.
Proof. unfold terms_call_by. rewrite termlist_eval_src_is_fold. reflexivity. Qed.
Lemma gf_terms_call_tau (terms : list gterm) (tau beta : K) :
  terms_call_by K NO (gf_term_call K NO) terms [tau; beta] = gf_terms_tau K NO terms tau beta.
Proof. unfold terms_call_by. rewrite termlist_eval_src_is_fold. reflexivity. Qed.

Theorem gf_part_value_src_is_model (o : part_out K) (beta z : K) :
  gf_part_value_src K NO (o_terms K o) beta z = gf_part_value K NO o z.
Proof.
  unfold gf_part_value_src, gf_part_value. destruct (gen_gfpart_eval_is_model K NO) as [Ea [_ [Ez _]]].
  rewrite Ea, Ez. cbn [map part_arg_eval nth]. rewrite gf_terms_call_z. reflexivity.
Qed.
Theorem gf_part_value_tau_src_is_model (o : part_out K) (tau beta : K) :
  gf_part_value_tau_src K NO (o_terms K o) tau beta = gf_part_value_tau K NO o tau beta.
Proof.
  unfold gf_part_value_tau_src, gf_part_value_tau. destruct (gen_gfpart_eval_is_model K NO) as [_ [Ea [_ [Et _]]]].
  rewrite Ea, Et. cbn [map part_arg_eval nth]. rewrite gf_terms_call_tau. reflexivity.
Qed.

Definition terms_of_parts (parts : list ((nat * nat) * part_out K)) : list (list gterm) := map (fun p => o_terms K (snd p)) parts.

Theorem gf_value_src_is_model (parts : list ((nat * nat) * part_out K)) (beta z : K) :
  gf_value_src K NO (terms_of_parts parts) beta z = Some (gf_value K NO parts z).
Proof.
  unfold gf_value_src, gf_value, terms_of_parts. rewrite (proj1 (gen_gf_value_is_model K NO)).
  destruct parts as [|p parts]; [reflexivity|].
  unfold value_by, model_gf_value. cbn [map is_nil vexec_list vexec vcond_eval snd fst acc_apply].
  rewrite map_map. f_equal. cbn [fold_left]. rewrite gf_part_value_src_is_model.
  rewrite fold_left_map_l. apply fold_left_ext_all. intros a q. rewrite gf_part_value_src_is_model. reflexivity.
Qed.
Theorem gf_value_tau_src_is_model (parts : list ((nat * nat) * part_out K)) (tau beta : K) :
  gf_value_tau_src K NO (terms_of_parts parts) tau beta = Some (gf_value_tau K NO parts tau beta).
Proof.
  unfold gf_value_tau_src, gf_value_tau, terms_of_parts. rewrite (proj1 (proj2 (gen_gf_value_is_model K NO))).
  destruct parts as [|p parts]; [reflexivity|].
  unfold value_by, model_gf_value. cbn [map is_nil vexec_list vexec vcond_eval snd fst acc_apply].
  rewrite map_map. f_equal. cbn [fold_left]. rewrite gf_part_value_tau_src_is_model.
  rewrite fold_left_map_l. apply fold_left_ext_all. intros a q. rewrite gf_part_value_tau_src_is_model. reflexivity.
Qed.

Theorem gf_matsubara_src_is_model (kpi beta : K) (n : Z) :
  gf_matsubara_src K NO kpi beta n = gf_matsubara K NO kpi beta n /\ gfpart_matsubara_src K NO kpi beta n = gf_matsubara K NO kpi beta n.
Proof. split; reflexivity. Qed.

(** * the whole object, exact form *)
Lemma gf_part_compute_src_eq (lenient : bool) (T : tols K) (blk : nat * nat) (inp : part_in K) :
  gf_part_compute_src K NO lenient T blk inp = wmap (o_terms K) (gf_part_compute K NO gf_chase_guarded lenient T inp).
Proof.
  destruct (gf_part_compute K NO gf_chase_guarded lenient T inp) as [o| | |] eqn:E.
  - rewrite (gf_part_compute_src_agrees K NO lenient T blk inp o E). reflexivity.
  - rewrite gf_part_compute_src_is_model, E. reflexivity.
  - rewrite gf_part_compute_src_is_model, E. reflexivity.
  - rewrite gf_part_compute_src_is_model, E. reflexivity.
Qed.

Theorem gf_compute_src_eq (lenient : bool) (T : tols K) (g : gf_in K) :
  gf_compute_src K NO lenient T g = wmap terms_of_parts (gf_compute K NO gf_chase_guarded lenient T g).
Proof.
  unfold gf_compute_src, gf_compute. destruct (gf_prepare K g) as [ps|]; [|reflexivity].
  induction ps as [|[lr inp] ps IH]; [reflexivity|].
  cbn [gf_compute_parts_src compute_parts]. rewrite (gf_part_compute_src_eq lenient T lr inp).
  destruct (gf_part_compute K NO gf_chase_guarded lenient T inp) as [o| | |]; cbn [wmap wbind]; try reflexivity.
  rewrite IH. destruct (compute_parts K NO gf_chase_guarded lenient T ps); reflexivity.
Qed.
End GFEval.

(** * the theorems of props/Properties_C01.v, about the source *)
Section Transport.
Variable K : Type.
Variable NO : numops K.
Variable kinv : K -> K.
Hypothesis Kf : field_theory (n0 K NO) (n1 K NO) (nadd K NO) (nmul K NO) (nsub K NO) (nopp K NO) (ndiv K NO) kinv (@eq K).

Theorem gf_walk_src_complete (VA VB : Type) (a : cs VA) (b : cs VB) (lenient : bool) (l : list (nat * (nat * (nat * nat)))) :
  cs_wf a -> cs_wf b -> cs_outer a <= cs_outer b ->
  part_walk_src lenient gen_gf_nest a b = WDone l -> l = tag0o (matches_part a b).
Proof.
  intros Wa Wb Ho. rewrite gen_gf_nest_is_model, part_walk_src_is_model.
  destruct (part_walk gf_chase_guarded lenient a b) as [m| | |] eqn:E; cbn [wmap]; try discriminate.
  intros X. injection X as <-. rewrite (part_walk_complete a b Wa Wb Ho _ _ _ E). reflexivity.
Qed.

(** the loops of the source never read past the end of an inner vector: the walk returns, in every mode *)
Theorem gf_walk_src_in_bounds (VA VB : Type) (a : cs VA) (b : cs VB) (lenient : bool) :
  cs_wf a -> cs_wf b -> cs_outer a <= cs_outer b ->
  part_walk_src lenient gen_gf_nest a b = WDone (tag0o (matches_part a b)).
Proof.
  intros Wa Wb Ho. rewrite gen_gf_nest_is_model, part_walk_src_is_model.
  change gf_chase_guarded with true. rewrite (part_walk_in_bounds a b Wa Wb Ho lenient). reflexivity.
Qed.

Theorem gf_part_exact_src (T : tols K) :
  (forall R, gf_relevant K NO (t_matrix_element K T) R = false -> R = n0 K NO) ->
  (forall a b, gf_compare K NO (t_compare K T) a b = false -> gf_compare K NO (t_compare K T) b a = true) ->
  forall (lenient : bool) (blk : nat * nat) (inp : part_in K), part_wf K inp ->
  forall (terms : list (gterm K)) (beta z : K),
  gf_part_compute_src K NO lenient T blk inp = WDone terms ->
  gf_part_value_src K NO terms beta z = gf_part_spec K NO inp z.
Proof.
  intros Hr Ht lenient blk inp W terms beta z E.
  rewrite (gf_part_compute_src_eq K NO lenient T blk inp) in E.
  destruct (gf_part_compute K NO gf_chase_guarded lenient T inp) as [o| | |] eqn:Em; cbn [wmap] in E; try discriminate E.
  injection E as <-. rewrite gf_part_value_src_is_model.
  exact (GFPartProofs.gf_part_exact K NO kinv (F_R Kf) (Fdiv_def Kf) T Hr Ht gf_chase_guarded lenient inp W o z Em).
Qed.

(** tolerance form: the source computes the model's term list (no hypothesis), and the error bound of C01 holds of the value
    the source returns *)
Theorem gf_part_tolerance_src (norm : K -> R) :
  (forall a b, (norm (nadd K NO a b) <= norm a + norm b)%R) -> (forall a, norm (nopp K NO a) = norm a) -> norm (n0 K NO) = 0%R ->
  forall (T : tols K) (lenient : bool) (blk : nat * nat) (inp : part_in K), part_wf K inp ->
  forall (o : part_out K) (beta z : K),
  gf_part_compute K NO gf_chase_guarded lenient T inp = WDone o ->
  gf_part_compute_src K NO lenient T blk inp = WDone (o_terms K o) /\
  (norm (nsub K NO (gf_part_value_src K NO (o_terms K o) beta z) (gf_part_spec K NO inp z)) <=
   rsum (dropped K (o_raw K o)) (fun t => norm (fz K NO z t)) +
   rsum2 (o_events K o) (kept K (o_raw K o))
         (fun e t => norm (ev_err K K K (n0 K NO) (nadd K NO) (nsub K NO) (fz K NO z) e t)))%R.
Proof.
  intros N1 N2 N3 T lenient blk inp W o beta z E. split.
  - exact (gf_part_compute_src_agrees K NO lenient T blk inp o E).
  - rewrite gf_part_value_src_is_model.
    exact (GFPartProofs.gf_part_tolerance K NO kinv (F_R Kf) (Fdiv_def Kf) norm N1 N2 N3 gf_chase_guarded lenient T inp W o z E).
Qed.

Theorem gf_blocks_eq_full_src (T : tols K) :
  (forall R, gf_relevant K NO (t_matrix_element K T) R = false -> R = n0 K NO) ->
  (forall a b, gf_compare K NO (t_compare K T) a b = false -> gf_compare K NO (t_compare K T) b a = true) ->
  forall (nb : nat) (dim : nat -> nat) (g : gf_in K) (Cf CXf : nat -> nat -> nat -> nat -> K),
  blocks_sound K NO nb dim g Cf CXf ->
  forall (E w : list K) (Ci CXj : list (list K)), assembled K NO nb dim g Cf CXf E w Ci CXj ->
  forall (lenient : bool) (beta z : K) (parts : list (list (gterm K))),
  gf_compute_src K NO lenient T g = WDone parts ->
  gf_value_src K NO parts beta z = Some (gf K NO E w Ci CXj z).
Proof.
  intros Hr Ht nb dim g Cf CXf Bs E w Ci CXj As lenient beta z parts Ec.
  rewrite (gf_compute_src_eq K NO lenient T g) in Ec.
  destruct (gf_compute K NO gf_chase_guarded lenient T g) as [mp| | |] eqn:Em; cbn [wmap] in Ec; try discriminate Ec.
  injection Ec as <-. rewrite gf_value_src_is_model. f_equal.
  exact (GFFullProofs.gf_blocks_eq_full K NO kinv (F_R Kf) (Fdiv_def Kf) T Hr Ht nb dim g Cf CXf Bs E w Ci CXj As gf_chase_guarded lenient z mp Em).
Qed.
End Transport.

(** * examples *)
(** tolerance form, over the integers (comparator: p2 - p1 >= 10, a strict partial order).
    [exZ_inp]: two like poles (0 and 3) are merged.
    [exZ2_inp]: the third pole, 8, is like BOTH stored poles 0 and 15: the source and the model merge it into the upper one
    (the former find / erase / insert form merged it into the lower one: LehmannGenProofs.add_term_forms_differ) *)
Definition ZopsL : numops Z :=
  {| n0 := 0%Z; n1 := 1%Z; nadd := Z.add; nsub := Z.sub; nmul := Z.mul; ndiv := Z.quot; nopp := Z.opp; nconj := fun x => x;
     nexp := fun x => x; nre_ltb := Z.ltb; nabs := Z.abs; nofZ := fun x => x; nI := 0%Z |}.
Definition TZ : tols Z := mktols Z 0%Z 10%Z 0%Z 0%Z.
(** C = [[1, 1, 1]] (one outer state, three inner ones), CX likewise; inner energies 0, 3, 50: the poles 0 and 3 are like *)
Definition exZ_inp : part_in Z :=
  mkpart Z (mkcs 3%nat [0; 3]%nat [0; 1; 2]%nat [1; 1; 1]%Z) (mkcs 3%nat [0; 3]%nat [0; 1; 2]%nat [1; 1; 1]%Z) [0%Z] [0; 3; 50]%Z [1%Z] [2; 3; 4]%Z.
Definition exZ2_inp : part_in Z :=
  mkpart Z (mkcs 3%nat [0; 3]%nat [0; 1; 2]%nat [1; 1; 1]%Z) (mkcs 3%nat [0; 3]%nat [0; 1; 2]%nat [1; 1; 1]%Z) [0%Z] [0; 15; 8]%Z [1%Z] [2; 3; 4]%Z.
Lemma TZ_irrefl : forall a, gf_compare Z ZopsL (t_compare Z TZ) a a = false.
Proof. intros a. unfold gf_compare. cbn. rewrite Z.sub_diag. reflexivity. Qed.
Lemma TZ_trans : forall a b c, gf_compare Z ZopsL (t_compare Z TZ) a b = true -> gf_compare Z ZopsL (t_compare Z TZ) b c = true ->
  gf_compare Z ZopsL (t_compare Z TZ) a c = true.
Proof.
  intros a b c. unfold gf_compare. cbn. rewrite !negb_true_iff, !Z.ltb_ge. lia.
Qed.
Example ex_gf_src_tolerance :
  exists o, gf_part_compute Z ZopsL gf_chase_guarded false TZ exZ_inp = WDone o /\
            o_terms Z o = [(0, 7); (50, 5)]%Z /\
            gf_part_compute_src Z ZopsL false TZ (0, 1)%nat exZ_inp = WDone (o_terms Z o).
Proof.
  eexists. split; [vm_compute; reflexivity|]. split; [reflexivity|].
  vm_compute. reflexivity.
Qed.
Example ex_gf_src_two_likes :
  exists o, gf_part_compute Z ZopsL gf_chase_guarded false TZ exZ2_inp = WDone o /\
            o_terms Z o = [(0, 3); (15, 9)]%Z /\
            o_events Z o = [EvChain [] FinInserted; EvChain [] FinInserted; EvChain [((15, 4), (15, 9))%Z] FinInserted] /\
            gf_part_compute_src Z ZopsL false TZ (0, 1)%nat exZ2_inp = WDone (o_terms Z o).
Proof.
  eexists. split; [vm_compute; reflexivity|]. split; [reflexivity|]. split; [reflexivity|].
  vm_compute. reflexivity.
Qed.

(** Term::operator()(tau, beta) of the source and Term::operator()(i w) are consistent (PV.TermIntegrals, about the generated
    expression of this tree: a single-branch or otherwise rewritten formula stops this proof) *)
From Coquelicot Require Import Coquelicot.
From PV Require Import TermIntegrals.
Theorem gf_tau_freq_consistent_src :
  forall (c wn P beta : R) (n : Z), (0 < beta)%R ->
  let w := fermi_freq beta n in
  let Res := (c * (wn + wn * exp (- beta * P)))%R in
  let d := (P * P + w * w)%R in
  is_RInt (fun tau => (gen_gf_term_tau R Rops Res P tau beta * cos (w * tau))%R) 0 beta (- P * Res / d)%R /\
  is_RInt (fun tau => (gen_gf_term_tau R Rops Res P tau beta * sin (w * tau))%R) 0 beta (- w * Res / d)%R.
Proof. exact TermIntegrals.gf_tau_freq_consistent. Qed.

From PV Require Import GFExamples.
Require Import RealField.
(** exact form, over the reals: the part of PV.GFExamples *)
Example ex_gf_src_exact (beta z : R) :
  exists terms, gf_part_compute_src R Rops false T0 (0, 1)%nat ex_inp = WDone terms /\
                gf_part_value_src R Rops terms beta z = gf_part_spec R Rops ex_inp z.
Proof.
  destruct (gf_part_compute_fixed R Rops false T0 ex_inp ex_part_wf) as [o Eo].
  exists (o_terms R o). assert (E : gf_part_compute_src R Rops false T0 (0, 1)%nat ex_inp = WDone (o_terms R o)).
  { rewrite (gf_part_compute_src_eq R Rops false T0 (0, 1)%nat ex_inp). change gf_chase_guarded with true. rewrite Eo. reflexivity. }
  split; [exact E|].
  exact (gf_part_exact_src R Rops Rinv Rfield T0 T0_rel T0_cmp false (0, 1)%nat ex_inp ex_part_wf (o_terms R o) beta z E).
Qed.

