(** C17 -- proofs about PV.Bounds: the in-bounds theorems for the models INSTANTIATED WITH THE SWITCHES READ OFF THE SOURCE
    (PVgen.Gen_C17), and in-bounds corollaries of theorems proved for the other properties.

    Every "source" theorem below is closed by a term that typechecks only while the generated switch unfolds to [true]
    (the kernel's conversion does the unfolding): when a guard is dropped from the C++ the translator emits [false], this file
    no longer compiles, and checks/C17.py looks for a concrete failing input (sanitizer runs). *)
Require Import Bool List Arith Lia.
From PV Require Import Outcome Poly PolySem AlgebraBasics HPart HPartSpec HPartProofs Sparse SparseProofs GFPart SuscPart GFPartProofs SuscPartProofs
                       Index IndexProofs Chi ChiProofs Lattice LatticeProofs EDSpec Bounds.
Require PVgen.Gen_C17.
Import ListNotations.

(** * The switches, as the source has them today.  (If one of these fails, that guard is gone from the C++.) *)
Lemma source_gf_chase_guarded : PVgen.Gen_C17.gf_chase_guarded = true. Proof. reflexivity. Qed.
Lemma source_susc_chase_guarded : PVgen.Gen_C17.susc_chase_guarded = true. Proof. reflexivity. Qed.
Lemma source_chaseIndices_guarded : PVgen.Gen_C17.chaseIndices_guarded = true. Proof. reflexivity. Qed.
Lemma source_label_bound_checked : PVgen.Gen_C17.label_bound_checked = true. Proof. reflexivity. Qed.
Lemma source_operator_eq_sized :
  PVgen.Gen_C17.operator_eq_sizes_maps = true /\ PVgen.Gen_C17.operator_eq_sizes_monomials = true.
Proof. split; reflexivity. Qed.
Lemma source_index_spin_major_skips : PVgen.Gen_C17.index_spin_major_skips = true. Proof. reflexivity. Qed.
Lemma source_tpgf_table :
  PVgen.Gen_C17.tpgf_sizes_table_first = true /\ PVgen.Gen_C17.tpgf_guards_empty_reduce = true.
Proof. split; reflexivity. Qed.
Lemma source_getsite_rejects_unknown : PVgen.Gen_C17.getsite_rejects_unknown = true. Proof. reflexivity. Qed.

(** * Index-chasing loops of the source *)
Theorem source_gf_walk_in_bounds :
  forall (VA VB : Type) (a : cs VA) (b : cs VB), cs_wf a -> cs_wf b -> cs_outer a <= cs_outer b ->
  forall lenient : bool, gf_part_walk_source lenient a b = WDone (matches_part a b).
Proof.
  intros VA VB a b Wa Wb Ho lenient. unfold gf_part_walk_source. rewrite source_gf_chase_guarded.
  exact (part_walk_in_bounds a b Wa Wb Ho lenient).
Qed.

Theorem source_susc_walk_in_bounds :
  forall (VA VB : Type) (a : cs VA) (b : cs VB), cs_wf a -> cs_wf b -> cs_outer a <= cs_outer b ->
  forall lenient : bool, susc_part_walk_source lenient a b = WDone (matches_part a b).
Proof.
  intros VA VB a b Wa Wb Ho lenient. unfold susc_part_walk_source. rewrite source_susc_chase_guarded.
  exact (part_walk_in_bounds a b Wa Wb Ho lenient).
Qed.

Theorem source_gf_compute_in_bounds :
  forall (K : Type) (NO : numops K) (lenient : bool) (T : GFPart.tols K) (inp : GFPart.part_in K), GFPartProofs.part_wf K inp ->
  exists o, gf_part_compute_source K NO lenient T inp = WDone o.
Proof.
  intros K NO lenient T inp W. unfold gf_part_compute_source. rewrite source_gf_chase_guarded.
  exact (gf_part_compute_fixed K NO lenient T inp W).
Qed.

Theorem source_susc_compute_in_bounds :
  forall (K : Type) (NO : numops K) (lenient : bool) (T : GFPart.tols K) (inp : GFPart.part_in K), GFPartProofs.part_wf K inp ->
  exists o, susc_part_compute_source K NO lenient T inp = WDone o.
Proof.
  intros K NO lenient T inp W. unfold susc_part_compute_source. rewrite source_susc_chase_guarded.
  exact (susc_part_compute_fixed K NO lenient T inp W).
Qed.

Theorem source_chaseIndices_in_bounds :
  forall (VA VB : Type) (a : cs VA) (b : cs VB), cs_wf a -> cs_wf b ->
  forall (lenient : bool) (oa ob p q : nat), oa < cs_outer a -> ob < cs_outer b ->
  ptr_at a oa <= p < ptr_at a (S oa) -> ptr_at b ob <= q < ptr_at b (S ob) ->
  exists r, chaseIndices_source lenient a (ptr_at a (S oa)) b (ptr_at b (S ob)) p q = WDone r.
Proof.
  intros VA VB a b Wa Wb lenient oa ob p q Ha Hb Hp Hq. unfold chaseIndices_source. rewrite source_chaseIndices_guarded.
  exact (chaseIndices_in_bounds a b Wa Wb lenient oa ob p q Ha Hb Hp Hq).
Qed.

Theorem source_chase_walk2_in_bounds :
  forall (VA VB : Type) (a : cs VA) (b : cs VB), cs_wf a -> cs_wf b ->
  forall (lenient : bool) (oa ob : nat), oa < cs_outer a -> ob < cs_outer b ->
  chase_walk2_source lenient a oa b ob = WDone (matches_outer2 a b oa ob).
Proof.
  intros VA VB a b Wa Wb lenient oa ob Ha Hb. unfold chase_walk2_source. rewrite source_chaseIndices_guarded.
  exact (walk2_in_bounds a b Wa Wb lenient oa ob Ha Hb).
Qed.

(** * State labels: every label is either looked up inside the tables or rejected by an exception *)
Theorem source_state_label_checked :
  forall (K : Type) (S : classification) (parts : list (hpart K)) (weights : list (list K)) (q : nat),
  state_size S <= q ->
  getBlockNumber_source S q = Throws ex_wrong_state /\
  getInnerState_source S q = Throws ex_wrong_state /\
  getEigenValue_source K S parts q = Throws ex_wrong_state /\
  dm_getWeight_source K S weights q = Throws ex_wrong_state.
Proof.
  intros K S parts weights q H.
  unfold getBlockNumber_source, getInnerState_source, getEigenValue_source, dm_getWeight_source, label_fb.
  rewrite source_label_bound_checked.
  destruct (state_label_checked_classification S q H) as [E1 E2].
  repeat split.
  - exact E1.
  - exact E2.
  - exact (state_label_checked K S parts q H).
  - unfold dm_getWeight. rewrite E1. reflexivity.
Qed.

Section Lookups.
Variable K : Type.

Lemma shaped_nth : forall {A B} (blocks : list (list A)) (vs : list (list B)) b st,
  shaped blocks vs -> nth_error blocks b = Some st -> exists v, nth_error vs b = Some v /\ length v = length st.
Proof.
  intros A B blocks vs b st H. revert b. induction H as [|x y l l' Hxy HF IH]; intros b Hb.
  - destruct b; discriminate.
  - destruct b as [|b]; cbn [nth_error] in *.
    + inversion Hb; subst. exists y. split; [reflexivity|exact Hxy].
    + exact (IH b Hb).
Qed.

Lemma nth_error_lt_some : forall {A} (l : list A) k, k < length l -> exists x, nth_error l k = Some x.
Proof.
  intros A l k H. destruct (nth_error l k) as [x|] eqn:E; [exists x; reflexivity|].
  apply nth_error_None in E. lia.
Qed.

(** Hamiltonian::getEigenValue(QuantumState), for EITHER form of the label test: inside the tables for every label < 2^M *)
Theorem getEigenValue_in_bounds : forall (fb : bool) (S : classification) (parts : list (hpart K)) (q : nat),
  wf_class S -> covers S -> shaped (sc_states S) (map fst parts) -> q < state_size S ->
  exists e, getEigenValue fb K S parts q = Done e.
Proof.
  intros fb S parts q Hwf Hcov Hsh Hq.
  destruct (Hcov q Hq) as [b [states [Hb Hin]]].
  destruct (In_nth_error states q Hin) as [k Hk].
  destruct (shaped_nth _ _ b states Hsh Hb) as [v [Hv Hlen]].
  rewrite nth_error_map in Hv. unfold hpart in *. destruct (nth_error parts b) as [part|] eqn:Hp; [|discriminate Hv].
  cbn [option_map] in Hv. inversion Hv; subst v.
  assert (Hkl : k < length (fst part)).
  { rewrite Hlen. apply nth_error_Some. rewrite Hk. discriminate. }
  destruct (nth_error_lt_some (fst part) k Hkl) as [e He].
  exists e. exact (eigenvalue_lookup K fb S parts b states k q part e Hwf Hb Hk Hp He).
Qed.

(** DensityMatrix::getWeight(QuantumState) *)
Theorem dm_getWeight_in_bounds : forall (fb : bool) (S : classification) (weights : list (list K)) (q : nat),
  wf_class S -> covers S -> shaped (sc_states S) weights -> q < state_size S ->
  exists w, dm_getWeight fb K S weights q = Done w.
Proof.
  intros fb S weights q Hwf Hcov Hsh Hq.
  destruct (Hcov q Hq) as [b [states [Hb Hin]]].
  destruct (In_nth_error states q Hin) as [k Hk].
  destruct (shaped_nth _ _ b states Hsh Hb) as [v [Hv Hlen]].
  assert (Hkl : k < length v).
  { rewrite Hlen. apply nth_error_Some. rewrite Hk. discriminate. }
  destruct (nth_error_lt_some v k Hkl) as [w Hw].
  exists w. unfold dm_getWeight, getInnerState_label.
  rewrite (getBlockNumber_wf fb S b states q Hwf Hb Hin). cbn [bind].
  rewrite label_not_rejected by exact Hq. rewrite Nat.mod_small by exact Hq.
  rewrite (getInnerState_wf fb S b states k q Hwf Hb Hk). cbn [bind].
  rewrite Hv, Hw. reflexivity.
Qed.

(** the source: for EVERY label the two look-ups return a stored value or throw exWrongState -- never read outside *)
Theorem source_label_lookups_never_oob :
  forall (S : classification) (parts : list (hpart K)) (weights : list (list K)) (q : nat),
  wf_class S -> covers S -> shaped (sc_states S) (map fst parts) -> shaped (sc_states S) weights ->
  ((exists e, getEigenValue_source K S parts q = Done e) \/ getEigenValue_source K S parts q = Throws ex_wrong_state) /\
  ((exists w, dm_getWeight_source K S weights q = Done w) \/ dm_getWeight_source K S weights q = Throws ex_wrong_state).
Proof.
  intros S parts weights q Hwf Hcov Hs1 Hs2.
  destruct (Nat.lt_ge_cases q (state_size S)) as [Hq|Hq].
  - split; left.
    + exact (getEigenValue_in_bounds label_fb S parts q Hwf Hcov Hs1 Hq).
    + exact (dm_getWeight_in_bounds label_fb S weights q Hwf Hcov Hs2 Hq).
  - destruct (source_state_label_checked K S parts weights q Hq) as [_ [_ [E1 E2]]].
    split; right; assumption.
Qed.
End Lookups.

(** the hypotheses are satisfiable: the one-mode space {0}, {1} in two blocks *)
Example lookups_hyps_satisfiable :
  let S := classification_of_blocks 1 [[0]; [1]] in
  wf_class S /\ covers S /\ shaped (sc_states S) [[5]; [7]] /\
  dm_getWeight_source nat S [[5]; [7]] 1 = Done 7 /\ dm_getWeight_source nat S [[5]; [7]] 2 = Throws ex_wrong_state.
Proof.
  cbv zeta. split; [|split; [|split; [|split]]].
  - split.
    + intros b states Hb. destruct b as [|[|b]]; cbn in Hb; inversion Hb; subst; try (destruct b; discriminate).
      * constructor; [intros []|constructor].
      * constructor; [intros []|constructor].
    + intros b states s Hb Hs. destruct b as [|[|b]]; cbn in Hb; inversion Hb; subst; try (destruct b; discriminate).
      * destruct Hs as [<-|[]]. split; [cbn; lia|reflexivity].
      * destruct Hs as [<-|[]]. split; [cbn; lia|reflexivity].
  - intros s Hs. cbn in Hs. destruct s as [|[|s]]; [| |lia].
    + exists 0, [0]. split; [reflexivity|left; reflexivity].
    + exists 1, [1]. split; [reflexivity|left; reflexivity].
  - repeat constructor.
  - reflexivity.
  - reflexivity.
Qed.

(** * Operator equality of the source never reads past the end of an operand *)
Theorem source_operator_eq_total :
  forall (K : Type) (ksub : K -> K -> K) (kzero : K -> bool) (a b : poly K),
  exists r, operator_eq_source K ksub kzero a b = Done r.
Proof.
  intros K ksub kzero a b. unfold operator_eq_source, operator_eq.
  destruct source_operator_eq_sized as [E1 E2]. rewrite E1, E2.
  exact (poly_eq_total K ksub kzero a b).
Qed.

(** without the comparison of the numbers of monomials std::equal leaves the right operand *)
Theorem operator_eq_unsized_maps_oob :
  exists a b : poly nat, operator_eq nat Nat.sub (fun c => Nat.eqb c 0) false true a b = OOB.
Proof. exists [([], 1)], []. reflexivity. Qed.

(** * IndexClassification::prepare of the source, both ordering modes, any sites with distinct labels *)
Theorem source_index_prepare_in_bounds :
  forall (order_spins : bool) (ss : list site), NoDup (labels ss) ->
  exists t, index_prepare_source order_spins ss = Done t /\
    (forall i, i < IndexSize t -> exists x, getInfo t i = Done x /\ valid ss x) /\
    (forall i, IndexSize t <= i -> getInfo t i = Throws exWrongIndex).
Proof.
  intros order_spins ss Hnd. unfold index_prepare_source. rewrite source_index_spin_major_skips.
  assert (Hh : harmless true order_spins ss) by (left; reflexivity).
  destruct (prepare_total true order_spins ss Hnd Hh) as [t Ht].
  exists t. split; [exact Ht|]. split.
  - exact (getInfo_total true order_spins ss t Hnd Hh Ht).
  - intros i Hi. exact (getInfo_throws t i Hi).
Qed.

(** * TwoParticleGF::compute of the source: a table entry per frequency, for every frequency list incl. the empty one *)
Theorem source_tpgf_compute_in_bounds :
  forall (K : Type) (NO : numops K) (g : nat) (tl : Chi.tols K) (clear : bool) (ps : list (Chi.part_in K)) (freqs : list (K * K * K)),
  exists table s', tpgf_compute_source K NO g tl clear freqs (gf_prepared K ps) = Done (table, s') /\ length table = length freqs.
Proof.
  intros K NO g tl clear ps freqs. unfold tpgf_compute_source.
  destruct source_tpgf_table as [E1 E2]. rewrite E1, E2.
  destruct (table_eq_on_demand K NO g tl clear ps freqs) as [table [s' [sx [H1 [_ [H3 _]]]]]].
  exists table, s'. split; assumption.
Qed.

(** compute before prepare is reported by an exception, compute after compute returns an empty table; no storage is touched *)
Theorem tpgf_compute_status_checked :
  forall (K : Type) (NO : numops K) (sf gr : bool) (g : nat) (tl : Chi.tols K) (clear : bool) (freqs : list (K * K * K)) (s : gf_st K),
  (g_status K s = Constructed -> gf_compute_gen K NO sf gr g tl clear freqs s = Throws 2) /\
  (g_status K s = Computed -> gf_compute_gen K NO sf gr g tl clear freqs s = Done ([], s)).
Proof.
  intros K NO sf gr g tl clear freqs s. unfold gf_compute_gen. split; intros E; rewrite E; reflexivity.
Qed.

(** * Lattice operations of the source (getSite as the source has it) never touch storage outside the containers *)
Theorem source_lattice_no_oob :
  forall (L : Type) (leqb : L -> L -> bool) (V : Type) (vo : vops V) (o : op L V) (st : state L V),
  op_wf L V o -> snd (step L leqb V vo (lattice_cfg_source true) o st) <> OOB.
Proof.
  intros L leqb V vo o st W.
  apply (no_undefined_behaviour L leqb V vo (lattice_cfg_source true) o st); [|reflexivity|exact W].
  unfold lattice_cfg_source. cbn [fix_getsite]. exact source_getsite_rejects_unknown.
Qed.

(** * In-bounds corollaries of theorems proved for C03 / C10 *)
(** HamiltonianPart::prepare writes only inside the block matrix when the Hamiltonian respects the block (C07's subject) *)
Theorem hamiltonianpart_prepare_in_bounds :
  forall (fb : bool) (K : Type) (NO : numops K) (eps : K),
  (forall x, nadd K NO (n0 K NO) x = x) -> (forall x, nadd K NO x (n0 K NO) = x) ->
  (forall x, is_zero K NO eps x = true <-> x = n0 K NO) ->
  forall (S : classification) (p : poly K) (b : nat) (states : list nat),
  wf_class S -> poly_in_range K (sc_M S) p -> nth_error (sc_states S) b = Some states ->
  respects K NO (sc_M S) p states ->
  exists m, hpart_prepare fb K NO eps S p b = Done m.
Proof.
  intros fb K NO eps H1 H2 H3 S p b states Hwf Hr Hb Hresp.
  eexists. exact (hpart_prepare_is_restriction fb K NO eps H1 H2 H3 S p b states Hwf Hr Hb Hresp).
Qed.

(** FieldOperatorPart::compute: the two loops over a block pair read Fock positions and eigenvector entries inside the blocks *)
Theorem fieldoperatorpart_compute_in_bounds :
  forall (fb : bool) (K : Type) (NO : numops K) (eps : K),
  nre_ltb K NO (nabs K NO (n1 K NO)) eps = false ->
  nre_ltb K NO (nabs K NO (nopp K NO (n1 K NO))) eps = false ->
  nre_ltb K NO eps (nabs K NO (n1 K NO)) = true ->
  nre_ltb K NO eps (nabs K NO (nopp K NO (n1 K NO))) = true ->
  forall (S : classification) (o : fop) (from to : nat) (fromStates toStates : list nat) (Hfrom Hto : mat K),
  wf_class S -> mono_in_range (sc_M S) (fop_mono o) ->
  nth_error (sc_states S) from = Some fromStates -> nth_error (sc_states S) to = Some toStates ->
  square K (length fromStates) Hfrom -> square K (length toStates) Hto ->
  (forall Kst L sg, In Kst fromStates -> tgt_of K NO (sc_M S) o Kst = Some (L, sg) -> In L toStates) ->
  exists Lc Rr, fop_fill fb K NO eps S o Hfrom Hto (length toStates) (length fromStates) fromStates = Done (Lc, Rr).
Proof.
  intros fb K NO eps A1 A2 A3 A4 S o from to fromStates toStates Hfrom Hto Hwf Hm Hf Ht Sq1 Sq2 Htgt.
  destruct (fop_fill_char fb K NO eps A1 A2 A3 A4 S o from to fromStates toStates Hfrom Hto Hwf Hm Hf Ht Sq1 Sq2 Htgt)
    as [Lc [Rr [E _]]].
  exists Lc, Rr. exact E.
Qed.

(** * The hypotheses of the source theorems are satisfiable by non-trivial values *)
Require Import String.
Example index_prepare_hyps_satisfiable :
  let ss := [mkSite "A"%string 1 1; mkSite "B"%string 1 2] in
  NoDup (labels ss) /\ exists t, index_prepare_source true ss = Done t /\ IndexSize t = 3.
Proof.
  cbv zeta. split.
  - cbn. constructor; [intros [H|[]]; discriminate H|constructor; [intros []|constructor]].
  - eexists. split; reflexivity.
Qed.

(** two 2x2 matrices with different sparsity patterns in one block: a = [[.,x],[x,.]], b = [[x,.],[.,x]] *)
Example chase_hyps_satisfiable :
  let a := mkcs 2 [0; 1; 2] [1; 0] [tt; tt] in
  let b := mkcs 2 [0; 1; 2] [0; 1] [tt; tt] in
  cs_wf a /\ cs_wf b /\ cs_outer a <= cs_outer b /\
  gf_part_walk_source false a b = WDone (matches_part a b) /\ matches_part a b = [].
Proof.
  cbv zeta.
  assert (Wa : cs_wf (mkcs 2 [0; 1; 2] [1; 0] [tt; tt])) by (apply cs_wf_b_sound; reflexivity).
  assert (Wb : cs_wf (mkcs 2 [0; 1; 2] [0; 1] [tt; tt])) by (apply cs_wf_b_sound; reflexivity).
  split; [exact Wa|]. split; [exact Wb|]. split; [cbn; lia|]. split.
  - apply source_gf_walk_in_bounds; [exact Wa|exact Wb|cbn; lia].
  - reflexivity.
Qed.
