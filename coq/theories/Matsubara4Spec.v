(** Specification side for C15: the documented window of the precomputed storage
    and the documented disconnected part chi^0 (doc/gamma4.tex). Hand-written,
    independent of the generated index arithmetic. *)
Require Import ZArith Bool.
Local Open Scope Z_scope.

(** A frequency triple is inside the precomputed window of size N iff all four
    fermionic Matsubara numbers n1, n2, n3, n4 = n1+n2-n3 lie in [-N, N). *)
Definition in_range (N n : Z) : bool := (- N <=? n) && (n <? N).
Definition in_window (N n1 n2 n3 : Z) : bool :=
  in_range N n1 && in_range N n2 && in_range N n3 && in_range N (n1 + n2 - n3).

Section Chi0.
Variable K : Type.
Variables (k0 k1 : K) (kmul ksub : K -> K -> K).
Variable beta : K.
Variables G13 G24 G14 G23 : Z -> K.
Definition delta (a b : Z) : K := if a =? b then k1 else k0.
(** chi^0_1234(w1,w2;w3,w4) = beta d(w1,w4) d(w2,w3) g14(w1) g23(w2) - beta d(w1,w3) d(w2,w4) g13(w1) g24(w2) *)
Definition chi0 (n1 n2 n3 : Z) : K :=
  let n4 := n1 + n2 - n3 in
  ksub (kmul (kmul (kmul beta (delta n1 n4)) (delta n2 n3)) (kmul (G14 n1) (G23 n2)))
       (kmul (kmul (kmul beta (delta n1 n3)) (delta n2 n4)) (kmul (G13 n1) (G24 n2))).
End Chi0.
