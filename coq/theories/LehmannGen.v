(** LehmannGen.v -- the single-particle Green's function and the dynamical susceptibility rebuilt around the control structure
    that translator/gen_lehmann.py reads off the C++ on every run (C01, C14).

      PVgen.Gen_LehGFPartCompute     gen_gf_nest, gen_gf_blocks           GreensFunctionPart::compute
      PVgen.Gen_LehSuscPartCompute   gen_susc_nest, gen_susc_blocks       SusceptibilityPart::compute
      PVgen.Gen_LehAddTerm           gen_add_term                         TermList::add_term
      PVgen.Gen_LehTermListEval      gen_termlist_eval                    TermList::operator()
      PVgen.Gen_LehGFTermTau / Gen_LehSuscTermTau     gen_*_term_tau      Term::operator()(tau, beta)
      PVgen.Gen_LehGFPartEval / Gen_LehSuscPartEval   gen_*part_z / _tau (+ _args), gen_*part_matsubara   the call operators of a part
      PVgen.Gen_LehGFEval / Gen_LehSuscEval           gen_*_value_z / _tau, gen_*_matsubara             the call operators of the object
      PVgen.Gen_LehEACompute         gen_ea_first / _cmp / _op / _summand EnsembleAverage::compute

    The [..._src] functions are the interpreters of PV.LehmannInterp applied to these descriptions; the leaf expressions that a
    description does not carry itself (Term::Compare, IsNegligible, operator+=) are PVgen.Gen_C01's.  What is shared with the
    hand-written models PV.GFPart / PV.SuscPart: the record types of the inputs, the bounds-checked reads of the weights and
    eigenvalues at a matched position ([menv_at] = the reads of GFPart.gf_match).  PV.LehmannGenProofs* prove `description of
    this tree = description the model follows` (closed computations that stop checking when the source says something else)
    and from them `..._src = model`.   Definitions only. *)
Require Import Bool List Arith ZArith.
From PV Require Import EDSpec NumLit Sparse TermList GFPart SuscPart LehmannShapes LehmannInterp.
From PVgen Require Import Gen_C01 Gen_LehGFPartCompute Gen_LehSuscPartCompute Gen_LehAddTerm Gen_LehTermListEval
     Gen_LehGFTermTau Gen_LehSuscTermTau Gen_LehGFPartEval Gen_LehSuscPartEval Gen_LehGFEval Gen_LehSuscEval Gen_LehEACompute.
Import ListNotations.

Section Src.
Variable K : Type.
Variable NO : numops K.
Notation k0 := (n0 K NO).
Notation kadd := (nadd K NO).
Notation ksub := (nsub K NO).
Notation gterm := (gterm K).

(** the environment of the loop body at a visit (index1, (position in the row-major matrix, position in the column-major one)):
    the reads GFPart.gf_match / SuscPart.susc_match make, failing where they fail; [blk] = (block number of HpartOuter, of
    HpartInner) -- the models have no use for it, the source might *)
Definition menv_at (T : tols K) (blk : nat * nat) (inp : part_in K) (v : nat * (nat * nat)) : option (menv K) :=
  let index1 := fst v in
  let p := fst (snd v) in
  let q := snd (snd v) in
  match rdv (p_C K inp) p, rdv (p_CX K inp) q, nth_error (cs_idx (p_C K inp)) p with
  | Some va, Some vb, Some index2 =>
    match nth_error (p_wO K inp) index1, nth_error (p_wI K inp) index2,
          nth_error (p_eO K inp) index1, nth_error (p_eI K inp) index2 with
    | Some _, Some _, Some _, Some _ =>
      let rd_ (l : list K) := fun i => nth i l k0 in
      Some (mk_menv index1 index2 (nth q (cs_idx (p_CX K inp)) 0) va vb
                    (rd_ (p_wO K inp)) (rd_ (p_wI K inp)) (rd_ (p_eO K inp)) (rd_ (p_eI K inp))
                    (t_matrix_element K T) (t_resonance K T) (fst blk) (snd blk))
    | _, _, _, _ => None
    end
  | _, _, _ => None
  end.
Definition visit_events (blocks : list (list (mstmt K))) (T : tols K) (blk : nat * nat) (inp : part_in K)
           (v : nat * (nat * (nat * nat))) : option (list (mevent K)) :=
  option_map (block_events K k0 blocks (fst v)) (menv_at T blk inp (snd v)).

(** the term container of a part: std::set of (Pole, Residue) with the comparator / negligibility test / operator+= of the Term *)
Definition gt_comp (cmp : K -> K -> K -> bool) (tol : K) (x y : gterm) : bool := cmp tol (fst x) (fst y).
Definition gt_plus (add : K -> K -> K) (x y : gterm) : gterm := (fst x, add (snd x) (snd y)).
Definition gt_negl (neg : K -> K -> nat -> bool) (tol : K) (x : gterm) (d : nat) : bool := neg tol (snd x) d.
Definition gt_add_term_by (descr : list at_stmt) (cmp : K -> K -> K -> bool) (add : K -> K -> K) (neg : K -> K -> nat -> bool)
           (T : tols K) (t : gterm) (l : list gterm) : list gterm :=
  snd (add_term_by gterm (gt_comp cmp (t_compare K T)) (gt_plus add) (gt_negl neg (t_negligible K T)) descr t l).
Definition gf_add_term_src : tols K -> gterm -> list gterm -> list gterm :=
  gt_add_term_by gen_add_term (gf_compare K NO) (gf_term_add K NO) (gf_negligible K NO).
Definition susc_add_term_src : tols K -> gterm -> list gterm -> list gterm :=
  gt_add_term_by gen_add_term (susc_compare K NO) (susc_term_add K NO) (susc_negligible K NO).

(** Terms / ZeroPoleWeight after the events of compute(), in order; Terms.clear() comes first, ZeroPoleWeight starts at 0 *)
Definition terms_of_events (add : gterm -> list gterm -> list gterm) (evs : list (mevent K)) : list gterm :=
  fold_left (fun l ev => match ev with MeAdd r p => add (p, r) l | MeZero _ => l end) evs [].
Definition zero_of_events (evs : list (mevent K)) : K :=
  fold_left (fun acc ev => match ev with MeZero w => kadd acc w | MeAdd _ _ => acc end) evs k0.

Definition part_events (nest : merge_nest) (blocks : list (list (mstmt K))) (lenient : bool) (T : tols K) (blk : nat * nat)
           (inp : part_in K) : wres (list (mevent K)) :=
  wbind (part_walk_src lenient nest (p_C K inp) (p_CX K inp)) (fun vs =>
    match all_some (map (visit_events blocks T blk inp) vs) with
    | None => WOOB SideA 0
    | Some evs => WDone (concat evs)
    end).

(** GreensFunctionPart::compute: the stored terms *)
Definition gf_part_compute_src (lenient : bool) (T : tols K) (blk : nat * nat) (inp : part_in K) : wres (list gterm) :=
  wmap (terms_of_events (gf_add_term_src T)) (part_events gen_gf_nest (gen_gf_blocks K NO) lenient T blk inp).
(** SusceptibilityPart::compute: the stored terms and ZeroPoleWeight *)
Definition susc_part_compute_src (lenient : bool) (T : tols K) (blk : nat * nat) (inp : part_in K) : wres (list gterm * K) :=
  wmap (fun evs => (terms_of_events (susc_add_term_src T) evs, zero_of_events evs))
       (part_events gen_susc_nest (gen_susc_blocks K NO) lenient T blk inp).

(** * Evaluation *)
Definition part_arg_eval (params : list K) (beta rrt dflt : K) (a : part_arg) : K :=
  match a with
  | PaArg n => nth n params k0
  | PaBeta => beta
  | PaReduceResonanceTolerance => rrt
  | PaDefault => dflt
  end.

(** the overloads of Term::operator(): one argument = the frequency, two = (tau, beta) *)
Definition gf_term_call (t : gterm) (args : list K) : K :=
  match args with
  | [z] => gf_term_eval K NO (snd t) (fst t) z
  | [tau; beta] => gen_gf_term_tau K NO (snd t) (fst t) tau beta
  | _ => k0
  end.
Definition susc_term_call (t : gterm) (args : list K) : K :=
  match args with
  | [z] => susc_term_eval K NO (snd t) (fst t) z
  | [tau; beta] => gen_susc_term_tau K NO (snd t) (fst t) tau beta
  | _ => k0
  end.
Definition terms_call_by (call : gterm -> list K -> K) (terms : list gterm) (args : list K) : K :=
  termlist_eval_by gterm K k0 kadd ksub gen_termlist_eval (fun t => call t args) terms.

(** GreensFunctionPart::operator()(z), of_tau(tau) *)
Definition gf_part_value_src (terms : list gterm) (beta z : K) : K :=
  gen_gfpart_z K NO (terms_call_by gf_term_call terms (map (part_arg_eval [z] beta k0 k0) gen_gfpart_z_args)) k0 beta z.
Definition gf_part_value_tau_src (terms : list gterm) (tau beta : K) : K :=
  gen_gfpart_tau K NO (terms_call_by gf_term_call terms (map (part_arg_eval [tau] beta k0 k0) gen_gfpart_tau_args)) k0 beta tau.
(** SusceptibilityPart::operator()(z), of_tau(tau); a part = (Terms, ZeroPoleWeight) *)
Definition susc_part_value_src (part : list gterm * K) (beta z : K) : K :=
  gen_suscpart_z K NO (terms_call_by susc_term_call (fst part) (map (part_arg_eval [z] beta k0 k0) gen_suscpart_z_args)) (snd part) beta z.
Definition susc_part_value_tau_src (part : list gterm * K) (tau beta : K) : K :=
  gen_suscpart_tau K NO (terms_call_by susc_term_call (fst part) (map (part_arg_eval [tau] beta k0 k0) gen_suscpart_tau_args)) (snd part) beta tau.

Definition is_nil {A} (l : list A) : bool := match l with [] => true | _ => false end.

(** GreensFunction::operator()(z), of_tau(tau): Vanishing = no part was created by prepare(); [None] = no return executed *)
Definition gf_value_src (parts : list (list gterm)) (beta z : K) : option K :=
  value_by K k0 kadd ksub (is_nil parts) false (map (fun ts => gf_part_value_src ts beta z) parts) (mk_venv z beta k0 k0)
           (gen_gf_value_z K NO).
Definition gf_value_tau_src (parts : list (list gterm)) (tau beta : K) : option K :=
  value_by K k0 kadd ksub (is_nil parts) false (map (fun ts => gf_part_value_tau_src ts tau beta) parts) (mk_venv tau beta k0 k0)
           (gen_gf_value_tau K NO).
(** Susceptibility::operator()(z), of_tau(tau); [sub] = Some (ave_A, ave_B) after subtractDisconnected *)
Definition susc_value_src (parts : list (list gterm * K)) (sub : option (K * K)) (beta z : K) : option K :=
  value_by K k0 kadd ksub (is_nil parts) (match sub with Some _ => true | None => false end)
           (map (fun p => susc_part_value_src p beta z) parts)
           (mk_venv z beta (match sub with Some ab => fst ab | None => k0 end) (match sub with Some ab => snd ab | None => k0 end))
           (gen_susc_value_z K NO).
Definition susc_value_tau_src (parts : list (list gterm * K)) (sub : option (K * K)) (tau beta : K) : option K :=
  value_by K k0 kadd ksub (is_nil parts) (match sub with Some _ => true | None => false end)
           (map (fun p => susc_part_value_tau_src p tau beta) parts)
           (mk_venv tau beta (match sub with Some ab => fst ab | None => k0 end) (match sub with Some ab => snd ab | None => k0 end))
           (gen_susc_value_tau K NO).

(** operator()(long n): the argument handed to operator()(ComplexType) *)
Definition gf_matsubara_src (kpi beta : K) (n : Z) : K :=
  nmul K NO (matsubara_spacing K NO (nI K NO) kpi beta) (nofZ K NO (gen_gf_matsubara n)).
Definition gfpart_matsubara_src (kpi beta : K) (n : Z) : K :=
  nmul K NO (matsubara_spacing K NO (nI K NO) kpi beta) (nofZ K NO (gen_gfpart_matsubara n)).
Definition susc_matsubara_src (kpi beta : K) (n : Z) : K :=
  nmul K NO (matsubara_spacing K NO (nI K NO) kpi beta) (nofZ K NO (gen_susc_matsubara n)).
Definition suscpart_matsubara_src (kpi beta : K) (n : Z) : K :=
  nmul K NO (matsubara_spacing K NO (nI K NO) kpi beta) (nofZ K NO (gen_suscpart_matsubara n)).

(** * The whole object: prepare() (PV.GFPart.gf_prepare; its loop body is tied by PVgen.Gen_RetainGF / Gen_RetainSusc through
    PV.ThermalGen), then compute() of every part; HpartOuter = H.getPart(left block), HpartInner = H.getPart(right block) *)
Fixpoint gf_compute_parts_src (lenient : bool) (T : tols K) (ps : list ((nat * nat) * part_in K)) : wres (list (list gterm)) :=
  match ps with
  | [] => WDone []
  | (lr, inp) :: r =>
    wbind (gf_part_compute_src lenient T lr inp) (fun o => wmap (cons o) (gf_compute_parts_src lenient T r))
  end.
Definition gf_compute_src (lenient : bool) (T : tols K) (g : gf_in K) : wres (list (list gterm)) :=
  match gf_prepare K g with
  | None => WOOB SideA 0
  | Some ps => gf_compute_parts_src lenient T ps
  end.
Fixpoint susc_compute_parts_src (lenient : bool) (T : tols K) (ps : list ((nat * nat) * part_in K)) : wres (list (list gterm * K)) :=
  match ps with
  | [] => WDone []
  | (lr, inp) :: r =>
    wbind (susc_part_compute_src lenient T lr inp) (fun o => wmap (cons o) (susc_compute_parts_src lenient T r))
  end.
Definition susc_compute_src (lenient : bool) (T : tols K) (g : gf_in K) : wres (list (list gterm * K)) :=
  match gf_prepare K g with
  | None => WOOB SideA 0
  | Some ps => susc_compute_parts_src lenient T ps
  end.

(** * EnsembleAverage::compute *)
Definition ea_part_src (a : cs K) (w : list K) : K :=
  fold_left (fun acc i => acc_apply kadd ksub gen_ea_op acc (gen_ea_summand K NO (cs_coeff K NO a) (fun i => nth i w k0) i))
            (match outer_range gen_ea_first gen_ea_cmp (cs_outer a) with Some os => os | None => [] end) k0.

End Src.
