(** LehmannGen.v -- the single-particle Green's function and the dynamical susceptibility rebuilt around the control structure
    that translator/gen_lehmann.py reads off the C++ on every run (C01, C14).

      PVgen.Gen_LehGFPartCompute     gen_gf_nest, gen_gf_blocks           GreensFunctionPart::compute
      PVgen.Gen_LehSuscPartCompute   gen_susc_nest, gen_susc_blocks       SusceptibilityPart::compute
      PVgen.Gen_LehAddTerm           gen_add_term                         TermList::add_term
      (further fragments below, each named where it is used)

    The [..._src] functions are the interpreters of PV.LehmannInterp applied to these descriptions; the leaf expressions that a
    description does not carry itself (Term::Compare, IsNegligible, operator+=) are PVgen.Gen_C01's.  What is shared with the
    hand-written models PV.GFPart / PV.SuscPart: the record types of the inputs, the bounds-checked reads of the weights and
    eigenvalues at a matched position ([menv_at] = the reads of GFPart.gf_match).  PV.LehmannGenProofs* prove `description of
    this tree = description the model follows` (closed computations that stop checking when the source says something else)
    and from them `..._src = model`.   Definitions only. *)
Require Import Bool List Arith ZArith.
From PV Require Import EDSpec NumLit Sparse TermList GFPart SuscPart LehmannShapes LehmannInterp.
From PVgen Require Import Gen_C01 Gen_LehGFPartCompute Gen_LehSuscPartCompute Gen_LehAddTerm.
Import ListNotations.

Section Src.
Variable K : Type.
Variable NO : numops K.
Notation k0 := (n0 K NO).
Notation kadd := (nadd K NO).
Notation ksub := (nsub K NO).
Notation gterm := (gterm K).

(** the environment of the loop body at a visit (index1, (position in the row-major matrix, position in the column-major one)):
    the reads GFPart.gf_match / SuscPart.susc_match make, failing where they fail; [blk] = (block number of HpartOuter, of
    HpartInner) -- the models have no use for it, the source might *)
Definition menv_at (T : tols K) (blk : nat * nat) (inp : part_in K) (v : nat * (nat * nat)) : option (menv K) :=
  let index1 := fst v in
  let p := fst (snd v) in
  let q := snd (snd v) in
  match rdv (p_C K inp) p, rdv (p_CX K inp) q, nth_error (cs_idx (p_C K inp)) p with
  | Some va, Some vb, Some index2 =>
    match nth_error (p_wO K inp) index1, nth_error (p_wI K inp) index2,
          nth_error (p_eO K inp) index1, nth_error (p_eI K inp) index2 with
    | Some _, Some _, Some _, Some _ =>
      let rd_ (l : list K) := fun i => nth i l k0 in
      Some (mk_menv index1 index2 (nth q (cs_idx (p_CX K inp)) 0) va vb
                    (rd_ (p_wO K inp)) (rd_ (p_wI K inp)) (rd_ (p_eO K inp)) (rd_ (p_eI K inp))
                    (t_matrix_element K T) (t_resonance K T) (fst blk) (snd blk))
    | _, _, _, _ => None
    end
  | _, _, _ => None
  end.
Definition visit_events (blocks : list (list (mstmt K))) (T : tols K) (blk : nat * nat) (inp : part_in K)
           (v : nat * (nat * (nat * nat))) : option (list (mevent K)) :=
  option_map (block_events K k0 blocks (fst v)) (menv_at T blk inp (snd v)).

(** the term container of a part: std::set of (Pole, Residue) with the comparator / negligibility test / operator+= of the Term *)
Definition gt_comp (cmp : K -> K -> K -> bool) (tol : K) (x y : gterm) : bool := cmp tol (fst x) (fst y).
Definition gt_plus (add : K -> K -> K) (x y : gterm) : gterm := (fst x, add (snd x) (snd y)).
Definition gt_negl (neg : K -> K -> nat -> bool) (tol : K) (x : gterm) (d : nat) : bool := neg tol (snd x) d.
Definition gt_add_term_by (descr : list at_stmt) (cmp : K -> K -> K -> bool) (add : K -> K -> K) (neg : K -> K -> nat -> bool)
           (T : tols K) (t : gterm) (l : list gterm) : list gterm :=
  snd (add_term_by gterm (gt_comp cmp (t_compare K T)) (gt_plus add) (gt_negl neg (t_negligible K T)) descr t l).
Definition gf_add_term_src : tols K -> gterm -> list gterm -> list gterm :=
  gt_add_term_by gen_add_term (gf_compare K NO) (gf_term_add K NO) (gf_negligible K NO).
Definition susc_add_term_src : tols K -> gterm -> list gterm -> list gterm :=
  gt_add_term_by gen_add_term (susc_compare K NO) (susc_term_add K NO) (susc_negligible K NO).

(** Terms / ZeroPoleWeight after the events of compute(), in order; Terms.clear() comes first, ZeroPoleWeight starts at 0 *)
Definition terms_of_events (add : gterm -> list gterm -> list gterm) (evs : list (mevent K)) : list gterm :=
  fold_left (fun l ev => match ev with MeAdd r p => add (p, r) l | MeZero _ => l end) evs [].
Definition zero_of_events (evs : list (mevent K)) : K :=
  fold_left (fun acc ev => match ev with MeZero w => kadd acc w | MeAdd _ _ => acc end) evs k0.

Definition part_events (nest : merge_nest) (blocks : list (list (mstmt K))) (lenient : bool) (T : tols K) (blk : nat * nat)
           (inp : part_in K) : wres (list (mevent K)) :=
  wbind (part_walk_src lenient nest (p_C K inp) (p_CX K inp)) (fun vs =>
    match all_some (map (visit_events blocks T blk inp) vs) with
    | None => WOOB SideA 0
    | Some evs => WDone (concat evs)
    end).

(** GreensFunctionPart::compute: the stored terms *)
Definition gf_part_compute_src (lenient : bool) (T : tols K) (blk : nat * nat) (inp : part_in K) : wres (list gterm) :=
  wmap (terms_of_events (gf_add_term_src T)) (part_events gen_gf_nest (gen_gf_blocks K NO) lenient T blk inp).
(** SusceptibilityPart::compute: the stored terms and ZeroPoleWeight *)
Definition susc_part_compute_src (lenient : bool) (T : tols K) (blk : nat * nat) (inp : part_in K) : wres (list gterm * K) :=
  wmap (fun evs => (terms_of_events (susc_add_term_src T) evs, zero_of_events evs))
       (part_events gen_susc_nest (gen_susc_blocks K NO) lenient T blk inp).

End Src.
