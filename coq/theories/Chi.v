(** Model of the two-particle Green's function of pomerol (property C02), following the C++ loop for loop:

      src/pomerol/TwoParticleGFPart.cpp   chaseIndices, TwoParticleGFPart::compute, operator(), clear,
                                          NonResonantTerm / ResonantTerm constructors and operator+=
      include/pomerol/TwoParticleGFPart.h Compare, IsNegligible of both term types
      include/pomerol/TermList.h          add_term on a std::set, evaluation
      src/pomerol/TwoParticleGF.cpp       prepare, compute(clear, freqs) incl. table accumulation and purge
      include/pomerol/TwoParticleGF.h     operator()(z1,z2,z3)

    The leaf arithmetic (poles and coefficients of addMultiterm, its guards and targets, both term evaluators,
    the frequency permutation {z1, z2, -z3}[perm], the matrix-element product, the weight guard, the sign) is NOT
    written here: it is the translator output PVgen.Gen_Multiterm, regenerated from the C++ on every run.

    Numbers: generic in a number type [K] with the operations of [EDSpec.numops] (so that the same code is
    instantiated at binary64 complex numbers for the correspondence runs and at fields for the theorems).
    Real quantities (energies, weights, poles, tolerances) are elements of K as well. *)
Require Import Bool List Arith ZArith QArith Lia.
From PV Require Import Outcome EDSpec.
From PVgen Require Import Gen_Multiterm.
Import ListNotations.
Local Open Scope nat_scope.

(** * std::set<T, Compare> and TermList<T>::add_term  (include/pomerol/TermList.h)

    A std::set is modelled by the list of its elements in iteration order.
    - find(t)   (TermList.h:49): lower bound = first element e with !comp(e,t); found iff it exists and !comp(t,e).
    - insert(t) (TermList.h:51,57): libstdc++ _M_get_insert_unique_pos: the position is the upper bound (first element
      e with comp(t,e)); the element before that position, if any, must satisfy comp(pred,t), otherwise pred is
      equivalent to t and the insertion is SILENTLY REFUSED (the set is left unchanged, the term is lost).
      For a strict weak order this is "refuse iff an equivalent element exists".
    - erase(key) (TermList.h:55): removes equal_range(key) = [lower bound, upper bound). *)
Section TermList.
Variable T : Type.
Variable comp : T -> T -> bool.      (* TermType::Compare::operator() *)
Variable plus : T -> T -> T.         (* TermType::operator+=  (sum = *it; sum += term) *)
Variable negl : T -> nat -> bool.    (* TermType::IsNegligible::operator()(t, ToleranceDivisor) *)

(** longest prefix of elements e with comp(e,t) = true; the rest starts at the lower bound of t *)
Fixpoint split_lower (t : T) (l : list T) : list T * list T :=
  match l with
  | [] => ([], [])
  | e :: r => if comp e t then let (a, b) := split_lower t r in (e :: a, b) else ([], l)
  end.

(** longest prefix of elements e with comp(t,e) = false; the rest starts at the upper bound of t *)
Fixpoint split_upper (t : T) (l : list T) : list T * list T :=
  match l with
  | [] => ([], [])
  | e :: r => if comp t e then ([], l) else let (a, b) := split_upper t r in (e :: a, b)
  end.

Definition set_find (t : T) (l : list T) : option T :=
  match snd (split_lower t l) with
  | e :: _ => if comp t e then None else Some e
  | [] => None
  end.

(** std::set::insert: Inserted l' | Blocked a e b  (the set is a ++ e :: b and e, the element before the insertion
    position, is not less than t: the iterator returned by insert points to e) *)
Inductive ins_res : Type := Inserted (l : list T) | Blocked (a : list T) (e : T) (b : list T).
Definition set_insert_res (t : T) (l : list T) : ins_res :=
  let (a, b) := split_upper t l in
  match rev a with
  | [] => Inserted (t :: b)
  | pred :: ra => if comp pred t then Inserted (a ++ t :: b) else Blocked (rev ra) pred b
  end.
(** returns (inserted?, new set) *)
Definition set_insert (t : T) (l : list T) : bool * list T :=
  match set_insert_res t l with Inserted l' => (true, l') | Blocked _ _ _ => (false, l) end.

Definition set_erase (k : T) (l : list T) : list T :=
  let (a, b) := split_lower k l in a ++ snd (split_upper k b).

(** TermList<T>::add_term as it is in the repository today (TermList.h:48-59); the boolean records a refused insertion
    (the C++ ignores the return value of std::set::insert): the term [sum] is then LOST *)
Definition add_term_plain (t : T) (l : list T) : bool * list T :=
  match set_find t l with
  | None => set_insert t l                                  (* TermList.h:50-51 *)
  | Some e =>
    let sum := plus e t in                                  (* TermList.h:53-54 *)
    let l' := set_erase e l in                              (* TermList.h:55 *)
    if negl sum (length l' + 1) then (true, l')             (* TermList.h:56 *)
    else set_insert sum l'                                  (* TermList.h:57 *)
  end.

(** the repaired add_term (proposed/fix-termlist-refused-insert.diff):
      sum = term; for(;;) { res = data.insert(sum); if(res.second) return;
                            reduced = *res.first; reduced += sum; data.erase(res.first);
                            if(is_negligible(reduced, data.size()+1)) return; sum = reduced; }
    every retry removes one stored term, so length l + 1 rounds suffice *)
Fixpoint add_term_loop (fuel : nat) (sum : T) (l : list T) : bool * list T :=
  match set_insert_res sum l with
  | Inserted l' => (true, l')
  | Blocked a e b =>
    let reduced := plus e sum in
    let l' := a ++ b in
    if negl reduced (length l' + 1) then (true, l')
    else match fuel with
         | O => (false, l')           (* not reachable with fuel = length l *)
         | S f => add_term_loop f reduced l'
         end
  end.

(** [retry] selects the shape the source has (generated: Gen_Multiterm.add_term_retries) *)
Definition add_term_gen (retry : bool) (t : T) (l : list T) : bool * list T :=
  if retry then add_term_loop (length l) t l else add_term_plain t l.
Definition add_term := add_term_gen add_term_retries.

(** a sequence of add_term calls; counts the refused insertions *)
Fixpoint add_terms_gen (retry : bool) (ts : list T) (st : nat * list T) : nat * list T :=
  match ts with
  | [] => st
  | t :: r => let (ok, l') := add_term_gen retry t (snd st) in
              add_terms_gen retry r ((if ok then fst st else S (fst st)), l')
  end.
Definition add_terms := add_terms_gen add_term_retries.

End TermList.

Section Chi.
Variable K : Type.
Variable NO : numops K.
Notation "0" := (n0 K NO).
Notation "1" := (n1 K NO).
Notation kadd := (nadd K NO).
Notation ksub := (nsub K NO).
Notation kmul := (nmul K NO).
Notation kdiv := (ndiv K NO).
Notation kopp := (nopp K NO).
Notation ltb := (nre_ltb K NO).
Notation kabs := (nabs K NO).
Notation ofZ := (nofZ K NO).

(** the three comparison parameters of the generated code *)
Definition abs_gt (x t : K) : bool := ltb t (kabs x).      (* abs(x) > t *)
Definition abs_lt (x t : K) : bool := ltb (kabs x) t.      (* abs(x) < t *)
Definition real_ge (a b : K) : bool := negb (ltb a b).     (* a >= b *)
Definition ofQ (q : Q) : K := kdiv (ofZ (Qnum q)) (ofZ (Zpos (Qden q))).

(** the generated definitions take all operations of the generic field, always in this order *)
Notation G f := (f K kadd ksub kmul kdiv kopp abs_gt abs_lt real_ge) (only parsing).

(** tolerances of a part: the TermList comparators / negligibility thresholds set by the constructor of
    TwoParticleGFPart (TwoParticleGFPart.cpp:79-80) and the two tolerances used by compute / operator()
    (TwoParticleGFPart.cpp:85-86, overwritten by TwoParticleGF::prepare, TwoParticleGF.cpp:102-104) *)
Record tols := { t_cmp_nr : K; t_neg_nr : K; t_cmp_r : K; t_neg_r : K; t_reduce : K; t_coeff : K }.
Definition tols_code : tols :=
  {| t_cmp_nr := ofQ part_nonres_compare_tol; t_neg_nr := ofQ part_nonres_negligible_tol;
     t_cmp_r := ofQ part_res_compare_tol; t_neg_r := ofQ part_res_negligible_tol;
     t_reduce := if prepare_copies_tolerances then ofQ gf_ReduceResonanceTolerance else ofQ part_ReduceResonanceTolerance;
     t_coeff := if prepare_copies_tolerances then ofQ gf_CoefficientTolerance else ofQ part_CoefficientTolerance |}.

(** * Terms (include/pomerol/TwoParticleGFPart.h:39-113, 123-203) *)
Record nrterm := { nr_coeff : K; nr_p0 : K; nr_p1 : K; nr_p2 : K; nr_isz4 : bool; nr_weight : Z }.
Record rterm := { r_res : K; r_nonres : K; r_p0 : K; r_p1 : K; r_p2 : K; r_isz1z2 : bool; r_weight : Z }.

(** constructors: Weight = 1 (TwoParticleGFPart.cpp:29, 51) *)
Definition mk_nr (c p1 p2 p3 : K) (f : bool) : nrterm :=
  {| nr_coeff := c; nr_p0 := p1; nr_p1 := p2; nr_p2 := p3; nr_isz4 := f; nr_weight := 1%Z |}.
Definition mk_r (rc nc p1 p2 p3 : K) (f : bool) : rterm :=
  {| r_res := rc; r_nonres := nc; r_p0 := p1; r_p1 := p2; r_p2 := p3; r_isz1z2 := f; r_weight := 1%Z |}.

(** Compare (TwoParticleGFPart.h:53-68, 141-156): real_eq on the first two poles, `>= Tolerance` on the third *)
Definition real_eq (tol x1 x2 : K) : bool := ltb (kabs (ksub x1 x2)) tol.
Definition cmp_poles (tol a0 a1 a2 b0 b1 b2 : K) : bool :=
  if negb (real_eq tol a0 b0) then ltb a0 b0
  else if negb (real_eq tol a1 b1) then ltb a1 b1
  else real_ge (ksub b2 a2) tol.
Definition nr_comp (tol : K) (t1 t2 : nrterm) : bool :=
  if Bool.eqb (nr_isz4 t1) (nr_isz4 t2)
  then cmp_poles tol (nr_p0 t1) (nr_p1 t1) (nr_p2 t1) (nr_p0 t2) (nr_p1 t2) (nr_p2 t2)
  else negb (nr_isz4 t1) && nr_isz4 t2.                         (* t1.isz4 < t2.isz4 *)
Definition r_comp (tol : K) (t1 t2 : rterm) : bool :=
  if Bool.eqb (r_isz1z2 t1) (r_isz1z2 t2)
  then cmp_poles tol (r_p0 t1) (r_p1 t1) (r_p2 t1) (r_p0 t2) (r_p1 t2) (r_p2 t2)
  else negb (r_isz1z2 t1) && r_isz1z2 t2.

(** operator+= (TwoParticleGFPart.cpp:33-41, 55-64): the poles MOVE to the weighted mean *)
Definition wmean (w1 : Z) (p1 : K) (w2 : Z) (p2 : K) : K :=
  kdiv (kadd (kmul (ofZ w1) p1) (kmul (ofZ w2) p2)) (ofZ (w1 + w2)).
Definition nr_plus (a b : nrterm) : nrterm :=
  {| nr_coeff := kadd (nr_coeff a) (nr_coeff b);
     nr_p0 := wmean (nr_weight a) (nr_p0 a) (nr_weight b) (nr_p0 b);
     nr_p1 := wmean (nr_weight a) (nr_p1 a) (nr_weight b) (nr_p1 b);
     nr_p2 := wmean (nr_weight a) (nr_p2 a) (nr_weight b) (nr_p2 b);
     nr_isz4 := nr_isz4 a; nr_weight := (nr_weight a + nr_weight b)%Z |}.
Definition r_plus (a b : rterm) : rterm :=
  {| r_res := kadd (r_res a) (r_res b); r_nonres := kadd (r_nonres a) (r_nonres b);
     r_p0 := wmean (r_weight a) (r_p0 a) (r_weight b) (r_p0 b);
     r_p1 := wmean (r_weight a) (r_p1 a) (r_weight b) (r_p1 b);
     r_p2 := wmean (r_weight a) (r_p2 a) (r_weight b) (r_p2 b);
     r_isz1z2 := r_isz1z2 a; r_weight := (r_weight a + r_weight b)%Z |}.

(** IsNegligible (TwoParticleGFPart.h:71-81, 159-170) *)
Definition nr_negl (tol : K) (t : nrterm) (d : nat) : bool := abs_lt (nr_coeff t) (kdiv tol (ofZ (Z.of_nat d))).
Definition r_negl (tol : K) (t : rterm) (d : nat) : bool :=
  abs_lt (r_res t) (kdiv tol (ofZ (Z.of_nat d))) && abs_lt (r_nonres t) (kdiv tol (ofZ (Z.of_nat d))).

(** evaluation of one term: the generated evaluators *)
Definition nr_eval (t : nrterm) (z1 z2 z3 : K) : K :=
  G nonres_eval (nr_coeff t) (nr_p0 t) (nr_p1 t) (nr_p2 t) (nr_isz4 t) z1 z2 z3.
Definition r_eval (tol : K) (t : rterm) (z1 z2 z3 : K) : K :=
  G res_eval tol (r_res t) (r_nonres t) (r_p0 t) (r_p1 t) (r_p2 t) (r_isz1z2 t) z1 z2 z3.

(** TermList::operator() (TermList.h:68-77): res = 0; for each term in set order: res += term(args) *)
Definition list_eval {T} (ev : T -> K) (l : list T) : K := fold_left (fun acc t => kadd acc (ev t)) l 0.

(** * Sparse matrices (Eigen compressed storage) and chaseIndices

    One outer slice (a row of a RowMajor matrix, a column of a ColMajor matrix) is the list of its stored
    (inner index, value) pairs; an InnerIterator is the not yet consumed suffix of that list.
    [InnerIterator::index()] on an exhausted iterator reads the inner-index array one past the slice (the first
    entry of the next slice, or one past the allocated array for the last slice: that read is the subject of C17).
    chaseIndices does perform this read (TwoParticleGFPart.cpp:15,17: `index() < x && iter`, index() first); the
    model returns an arbitrary value [g] for it, and every theorem holds for all [g]. *)
Definition slice := list (nat * K).
Definition smat := list slice.
Definition it_valid (it : slice) : bool := match it with [] => false | _ :: _ => true end.
Definition it_index (g : nat) (it : slice) : nat := match it with (i, _) :: _ => i | [] => g end.
Definition it_value (it : slice) : K := match it with (_, v) :: _ => v | [] => 0 end.
Definition outer (m : smat) (k : nat) : slice := nth k m [].
(** SparseMatrix::coeff(row,col): search of the inner index in the outer slice, 0 if not stored *)
Definition coeff (m : smat) (k inner : nat) : K :=
  match find (fun e => Nat.eqb (fst e) inner) (outer m k) with Some e => snd e | None => 0 end.

(** the `for(; iter.index() < target && iter; ++iter);` loops of chaseIndices (TwoParticleGFPart.cpp:15,17) *)
Fixpoint advance (g target : nat) (it : slice) {struct it} : slice :=
  if (it_index g it <? target) && it_valid it
  then match it with [] => [] | _ :: tl => advance g target tl end
  else it.

(** chaseIndices (TwoParticleGFPart.cpp:6-20): (result, index1_iter, index2_iter) *)
Definition chase (g : nat) (it1 it2 : slice) : bool * slice * slice :=
  let index1 := it_index g it1 in
  let index2 := it_index g it2 in
  if index1 =? index2 then (true, it1, it2)
  else if index1 <? index2 then (false, advance g index2 it1, it2)
  else (false, it1, advance g index1 it2).

(** `while (bra && ket) { if (chaseIndices(ket, bra)) { BODY; ++bra; ++ket; } }` (TwoParticleGFPart.cpp:119-125
    and 136-162): the list of (common inner index, ket value, bra value) for which BODY runs, in order *)
Fixpoint walk (g : nat) (fuel : nat) (ket bra : slice) (acc : list (nat * K * K)) : outcome (list (nat * K * K)) :=
  if it_valid bra && it_valid ket then
    match fuel with
    | O => OutOfFuel
    | S f =>
      match chase g ket bra with
      | (true, ket', bra') =>
        walk g f (tl ket') (tl bra') (acc ++ [(it_index g ket', it_value ket', it_value bra')])
      | (false, ket', bra') => walk g f ket' bra' acc
      end
    end
  else Done acc.
Definition walk_fuel (ket bra : slice) : nat := S (length ket + length bra).

(** * TwoParticleGFPart *)
Record part_in := {
  p_O1 : smat;        (* O1.getRowMajorValue()  : outer = row    = index1 *)
  p_O2 : smat;        (* O2.getColMajorValue()  : outer = column = index3 *)
  p_O3 : smat;        (* O3.getRowMajorValue()  : outer = row    = index3 *)
  p_CX4 : smat;       (* CX4.getColMajorValue() : outer = column = index1 *)
  p_E1 : list K; p_E2 : list K; p_E3 : list K; p_E4 : list K;     (* Hpart1..4 eigenvalues *)
  p_W1 : list K; p_W2 : list K; p_W3 : list K; p_W4 : list K;     (* DMpart1..4 weights *)
  p_beta : K;
  p_perm : nat * nat * nat; p_sign : Z;                           (* Permutation3 *)
  p_blocks : Z * Z * Z * Z                                        (* LeftIndices[0..3], for reporting only *)
}.

(** one execution of the innermost loop body (TwoParticleGFPart.cpp:143-158) *)
Record visit := { v_i1 : nat; v_i2 : nat; v_i3 : nat; v_i4 : nat; v_O1 : K; v_O2 : K }.

Definition bindo {A B} := @bind A B.

(** the loops of compute (TwoParticleGFPart.cpp:114-164): every (index1,index2,index3,index4) for which the
    innermost body runs, in execution order *)
Definition visits_13 (g : nat) (p : part_in) (index1 index3 : nat) : outcome (list visit) :=
  let bra4 := outer (p_CX4 p) index1 in                    (* cpp:116 *)
  let ket4 := outer (p_O3 p) index3 in                     (* cpp:117 *)
  bind (walk g (walk_fuel ket4 bra4) ket4 bra4 []) (fun m4 =>
  let Index4List := map (fun m => fst (fst m)) m4 in       (* cpp:121 *)
  if match Index4List with [] => true | _ => false end then Done []      (* cpp:127 *)
  else
    let bra2 := outer (p_O2 p) index3 in                   (* cpp:134 *)
    let ket2 := outer (p_O1 p) index1 in                   (* cpp:135 *)
    bind (walk g (walk_fuel ket2 bra2) ket2 bra2 []) (fun m2 =>
    Done (concat (map (fun m =>
            map (fun index4 => {| v_i1 := index1; v_i2 := fst (fst m); v_i3 := index3; v_i4 := index4;
                                  v_O1 := snd (fst m); v_O2 := snd m |}) Index4List) m2)))).

Fixpoint visits_loop3 (g : nat) (p : part_in) (index1 : nat) (i3s : list nat) : outcome (list visit) :=
  match i3s with
  | [] => Done []
  | index3 :: r => bind (visits_13 g p index1 index3) (fun a =>
                   bind (visits_loop3 g p index1 r) (fun b => Done (a ++ b)))
  end.
Fixpoint visits_loop1 (g : nat) (p : part_in) (i1s i3s : list nat) : outcome (list visit) :=
  match i1s with
  | [] => Done []
  | index1 :: r => bind (visits_loop3 g p index1 i3s) (fun a =>
                   bind (visits_loop1 g p r i3s) (fun b => Done (a ++ b)))
  end.
Definition part_visits (g : nat) (p : part_in) : outcome (list visit) :=
  let index1Max := length (p_CX4 p) in                     (* cpp:106 CX4matrix.outerSize() *)
  let index3Max := length (p_O2 p) in                      (* cpp:109 O2matrix.outerSize() *)
  visits_loop1 g p (seq 0 index1Max) (seq 0 index3Max).

(** body of the innermost loop: the terms it hands to the two term lists (cpp:145-157) *)
Definition signK (s : Z) : K := ofZ s.
Definition visit_emissions (tl : tols) (p : part_in) (v : visit) : list (bool * emission K) :=
  let E1 := nth (v_i1 v) (p_E1 p) 0 in let E2 := nth (v_i2 v) (p_E2 p) 0 in
  let E3 := nth (v_i3 v) (p_E3 p) 0 in let E4 := nth (v_i4 v) (p_E4 p) 0 in
  let w1 := nth (v_i1 v) (p_W1 p) 0 in let w2 := nth (v_i2 v) (p_W2 p) 0 in
  let w3 := nth (v_i3 v) (p_W3 p) 0 in let w4 := nth (v_i4 v) (p_W4 p) 0 in
  if G compute_weight_guard (t_coeff tl) w1 w2 w3 w4 then                    (* cpp:148 *)
    let me := G compute_matrix_element (v_O1 v) (v_O2 v)
                 (coeff (p_O3 p) (v_i3 v) (v_i4 v)) (coeff (p_CX4 p) (v_i1 v) (v_i4 v)) in (* cpp:149-152 *)
    let me := G compute_apply_sign me (signK (p_sign p)) in                          (* cpp:154 *)
    G compute_call (t_coeff tl) me (p_beta p) E1 E2 E3 E4 w1 w2 w3 w4   (* cpp:156 *)
  else [].

(** state of a part: the two term lists, Status == Computed, number of refused std::set insertions so far *)
Record part_st := { ps_nr : list nrterm; ps_r : list rterm; ps_computed : bool; ps_refused : nat }.
Definition part_constructed : part_st := {| ps_nr := []; ps_r := []; ps_computed := false; ps_refused := 0 |}.

Definition emit (tl : tols) (st : part_st) (ge : bool * emission K) : part_st :=
  if fst ge then
    match snd ge with
    | EmitNonRes _ c p1 p2 p3 f =>
      let (ok, l) := add_term nrterm (nr_comp (t_cmp_nr tl)) nr_plus (nr_negl (t_neg_nr tl)) (mk_nr c p1 p2 p3 f) (ps_nr st) in
      {| ps_nr := l; ps_r := ps_r st; ps_computed := ps_computed st;
         ps_refused := if ok then ps_refused st else S (ps_refused st) |}
    | EmitRes _ rc nc p1 p2 p3 f =>
      let (ok, l) := add_term rterm (r_comp (t_cmp_r tl)) r_plus (r_negl (t_neg_r tl)) (mk_r rc nc p1 p2 p3 f) (ps_r st) in
      {| ps_nr := ps_nr st; ps_r := l; ps_computed := ps_computed st;
         ps_refused := if ok then ps_refused st else S (ps_refused st) |}
    end
  else st.

(** the terms handed to the two term lists by compute, in order (guards applied) *)
Definition part_emissions (g : nat) (tl : tols) (p : part_in) : outcome (list (emission K)) :=
  bind (part_visits g p) (fun vs =>
  Done (map (fun ge : bool * emission K => snd ge) (filter (fun ge : bool * emission K => fst ge) (concat (map (visit_emissions tl p) vs))))).

(** The separation hypothesis of ChiProofs.chi_termlist_no_loss as a boolean (used by the correspondence check to know
    on which inputs the term lists are guaranteed to behave like a set ordered by a strict weak order):
    within one term list and one value of the flag, for each of the three pole positions, any two pole values are
    either at most tol/4 or at least 2 tol apart. *)
Definition sep_pair (tol x y : K) : bool :=
  let d := kabs (ksub x y) in negb (ltb (kdiv tol (ofZ 4)) d) || negb (ltb d (kmul (ofZ 2) tol)).
(** distinct values only (equal = neither is less than the other); keeps the test quadratic in the number of DISTINCT poles *)
Definition same_val (x y : K) : bool := negb (ltb x y) && negb (ltb y x).
Definition dedup_vals (vals : list K) : list K :=
  fold_left (fun acc x => if existsb (same_val x) acc then acc else x :: acc) vals [].
Definition separated_b (tol : K) (vals : list K) : bool :=
  let d := dedup_vals vals in forallb (fun x => forallb (sep_pair tol x) d) d.
Definition em_poles (res flag : bool) (k : nat) (e : emission K) : list K :=
  match e with
  | EmitNonRes _ _ p1 p2 p3 f => if negb res && Bool.eqb f flag then [nth k [p1; p2; p3] 0] else []
  | EmitRes _ _ _ p1 p2 p3 f => if res && Bool.eqb f flag then [nth k [p1; p2; p3] 0] else []
  end.
Definition emissions_separated_b (tl : tols) (es : list (emission K)) : bool :=
  forallb (fun res : bool => forallb (fun flag : bool => forallb (fun k : nat =>
     separated_b (if res then t_cmp_r tl else t_cmp_nr tl) (flat_map (em_poles res flag k) es))
     [O; S O; S (S O)]) [false; true]) [false; true].

(** TwoParticleGFPart::compute (cpp:90-173) *)
Definition part_compute (g : nat) (tl : tols) (p : part_in) : outcome part_st :=
  bind (part_visits g p) (fun vs =>
  let st := fold_left (fun st v => fold_left (emit tl) (visit_emissions tl p v) st) vs part_constructed in   (* cpp:92-93 clear *)
  Done {| ps_nr := ps_nr st; ps_r := ps_r st; ps_computed := true; ps_refused := ps_refused st |}).        (* cpp:172 *)

(** TwoParticleGFPart::clear (cpp:257-262) *)
Definition part_clear (st : part_st) : part_st :=
  {| ps_nr := []; ps_r := []; ps_computed := false; ps_refused := ps_refused st |}.

(** TwoParticleGFPart::operator()(z1,z2,z3) (cpp:232-245); the logic_error is Throws 1 *)
Definition perm_nth (perm : nat * nat * nat) (slot : nat) : nat :=
  match slot with O => fst (fst perm) | S O => snd (fst perm) | _ => snd perm end.
Definition permuted (perm : nat * nat * nat) (z1 z2 z3 : K) (k : nat) : K :=
  nth (perm_nth perm (nth k (G part_perm_slots) O)) (G part_frequencies z1 z2 z3) 0.
Definition part_eval (tl : tols) (p : part_in) (st : part_st) (z1 z2 z3 : K) : outcome K :=
  let y1 := permuted (p_perm p) z1 z2 z3 0 in
  let y2 := permuted (p_perm p) z1 z2 z3 1 in
  let y3 := permuted (p_perm p) z1 z2 z3 2 in
  if negb (ps_computed st) then Throws 1                                                  (* cpp:240-242 *)
  else Done (G part_value
               (fun a b c => list_eval (fun t => nr_eval t a b c) (ps_nr st))
               (fun a b c tol => list_eval (fun t => r_eval tol t a b c) (ps_r st))
               (t_reduce tl) y1 y2 y3).                                                   (* cpp:244 *)

(** * TwoParticleGF *)

(** a field operator: its block bimap as (left,right) pairs and its parts keyed by the left index;
    each part carries the row-major and the column-major copy of its matrix *)
Record fieldop := { fo_map : list (Z * Z); fo_parts : list (Z * (smat * smat)) }.
Record world := {
  w_E : list (list K);          (* eigenvalues per block *)
  w_W : list (list K);          (* weights per block *)
  w_ret : list bool;            (* DensityMatrix::isRetained per block *)
  w_beta : K;
  w_C1 : fieldop; w_C2 : fieldop; w_CX3 : fieldop; w_CX4 : fieldop
}.
Definition ERROR_BLOCK : Z := (-1)%Z.
Definition is_correct (b : Z) : bool := (0 <=? b)%Z.
(** FieldOperator::getRightIndex / getLeftIndex (FieldOperator.cpp:151-165) *)
Definition right_of (o : fieldop) (l : Z) : Z :=
  match find (fun lr => Z.eqb (fst lr) l) (fo_map o) with Some lr => snd lr | None => ERROR_BLOCK end.
Definition left_of (o : fieldop) (r : Z) : Z :=
  match find (fun lr => Z.eqb (snd lr) r) (fo_map o) with Some lr => fst lr | None => ERROR_BLOCK end.
(** getPartFromLeftIndex: `mapPartsFromLeft.find(in)->second` is undefined for a missing key: OOB *)
Definition part_of (o : fieldop) (l : Z) : outcome (smat * smat) :=
  match find (fun e => Z.eqb (fst e) l) (fo_parts o) with Some e => Done (snd e) | None => OOB end.

(** the operator standing at a position of permutation number pn (TwoParticleGF.cpp:29-58) *)
Definition op_at (w : world) (pn pos : nat) : option fieldop :=
  match nth_error permutations3 pn with
  | None => None
  | Some (perm, _) =>
    match perm_nth perm pos with
    | 0 => Some (w_C1 w) | 1 => Some (w_C2 w) | 2 => Some (w_CX3 w) | _ => None
    end
  end.
Definition getLeftIndex (w : world) (pn pos : nat) (r : Z) : Z :=
  match op_at w pn pos with Some o => left_of o r | None => ERROR_BLOCK end.
Definition getRightIndex (w : world) (pn pos : nat) (l : Z) : Z :=
  match op_at w pn pos with Some o => right_of o l | None => ERROR_BLOCK end.
Definition blk {A} (l : list A) (d : A) (b : Z) : A := nth (Z.to_nat b) l d.

(** iteration order of `CX4NontrivialBlocks.right`: pairs sorted by the right index *)
Fixpoint insert_by_right (x : Z * Z) (l : list (Z * Z)) : list (Z * Z) :=
  match l with
  | [] => [x]
  | y :: r => if (snd x <? snd y)%Z then x :: l else y :: insert_by_right x r
  end.
Definition right_view (m : list (Z * Z)) : list (Z * Z) := fold_right insert_by_right [] m.

(** body of the loop over permutations (TwoParticleGF.cpp:68-106): None = no part for this permutation *)
Definition prepare_one (w : world) (lr : Z * Z) (pn : nat) : outcome (option part_in) :=
  let L0 := snd lr in                                      (* cpp:70 outer_iter->first  (right index of CX4) *)
  let L3 := fst lr in                                      (* cpp:71 outer_iter->second (left index of CX4) *)
  let L2 := getLeftIndex w pn 2 L3 in                      (* cpp:72 *)
  let L1 := getRightIndex w pn 0 L0 in                     (* cpp:73 *)
  if Z.eqb (getRightIndex w pn 1 L1) L2 && is_correct L1 && is_correct L2 then       (* cpp:79 *)
    if blk (w_ret w) false L0 || blk (w_ret w) false L1 || blk (w_ret w) false L2 || blk (w_ret w) false L3 then  (* cpp:81-84 *)
      match op_at w pn 0, op_at w pn 1, op_at w pn 2, nth_error permutations3 pn with
      | Some o1, Some o2, Some o3, Some (perm, sg) =>
        bind (part_of o1 L0) (fun m1 => bind (part_of o2 L1) (fun m2 =>
        bind (part_of o3 L2) (fun m3 => bind (part_of (w_CX4 w) L3) (fun m4 =>
        Done (Some {| p_O1 := fst m1; p_O2 := snd m2; p_O3 := fst m3; p_CX4 := snd m4;
                      p_E1 := blk (w_E w) [] L0; p_E2 := blk (w_E w) [] L1; p_E3 := blk (w_E w) [] L2; p_E4 := blk (w_E w) [] L3;
                      p_W1 := blk (w_W w) [] L0; p_W2 := blk (w_W w) [] L1; p_W3 := blk (w_W w) [] L2; p_W4 := blk (w_W w) [] L3;
                      p_beta := w_beta w; p_perm := perm; p_sign := sg; p_blocks := (L0, L1, L2, L3) |})))))   (* cpp:93-100 *)
      | _, _, _, _ => OOB
      end
    else Done None
  else Done None.

Fixpoint collect {A} (l : list (outcome (option A))) : outcome (list A) :=
  match l with
  | [] => Done []
  | x :: r => bind x (fun a => bind (collect r) (fun b => Done (match a with Some v => v :: b | None => b end)))
  end.

(** TwoParticleGF::prepare (TwoParticleGF.cpp:60-113): the parts, in creation order *)
Definition gf_prepare (w : world) : outcome (list part_in) :=
  collect (concat (map (fun lr => map (fun pn => prepare_one w lr pn) (seq 0 6)) (right_view (fo_map (w_CX4 w))))).

Inductive gf_status := Constructed | Prepared | Computed.
Record gf_st := { g_status : gf_status; g_parts : list (part_in * part_st); g_vanishing : bool }.
Definition gf_prepared (ps : list part_in) : gf_st :=
  {| g_status := Prepared; g_parts := map (fun p => (p, part_constructed)) ps;
     g_vanishing := match ps with [] => true | _ => false end |}.        (* cpp:108-112; Vanishing initialised true, cpp:15 *)

(** TwoParticleGF::operator()(z1,z2,z3) (TwoParticleGF.h:146-159) *)
Fixpoint sum_parts (tl : tols) (ps : list (part_in * part_st)) (z1 z2 z3 : K) (acc : K) : outcome K :=
  match ps with
  | [] => Done acc
  | (p, st) :: r => bind (part_eval tl p st z1 z2 z3) (fun v => sum_parts tl r z1 z2 z3 (kadd acc v))
  end.
Definition gf_value (tl : tols) (s : gf_st) (z1 z2 z3 : K) : outcome K :=
  if g_vanishing s then Done 0 else sum_parts tl (g_parts s) z1 z2 z3 0.

(** ComputeAndClearWrap::run (TwoParticleGF.cpp:126-141) for one part: new part state and updated table *)
Fixpoint accumulate (tl : tols) (p : part_in) (st : part_st) (freqs : list (K * K * K)) (data : list K) : outcome (list K) :=
  match freqs, data with
  | f :: fr, d :: dr =>
    bind (part_eval tl p st (fst (fst f)) (snd (fst f)) (snd f)) (fun v =>       (* cpp:134  data[w] += part(freqs[w]) *)
    bind (accumulate tl p st fr dr) (fun r => Done (kadd d v :: r)))
  | [], _ => Done data
  | _ :: _, [] => OOB
  end.
Definition wrap_run (g : nat) (tl : tols) (clear fill : bool) (freqs : list (K * K * K))
           (p : part_in) (data : list K) : outcome (part_st * list K) :=
  bind (part_compute g tl p) (fun st =>                                          (* cpp:127 *)
  bind (if fill then accumulate tl p st freqs data else Done data) (fun data' =>  (* cpp:128-139 *)
  Done ((if clear then part_clear st else st), data'))).                         (* cpp:140 *)

Fixpoint run_parts (g : nat) (tl : tols) (clear fill : bool) (freqs : list (K * K * K))
         (ps : list (part_in * part_st)) (data : list K) : outcome (list (part_in * part_st) * list K) :=
  match ps with
  | [] => Done ([], data)
  | (p, _) :: r =>
    bind (wrap_run g tl clear fill freqs p data) (fun sd =>
    bind (run_parts g tl clear fill freqs r (snd sd)) (fun rd =>
    Done ((p, fst sd) :: fst rd, snd rd)))
  end.

(** TwoParticleGF::compute(clear, freqs, comm) on a single rank (TwoParticleGF.cpp:153-189): (returned table, new state).
    exStatusMismatch is Throws 2. `&m_data[0]` on an empty vector (cpp:176) is undefined behaviour: OOB.
    The two booleans say which shape the source has (generated: Gen_Multiterm.compute_sizes_table_before_vanishing_test,
    compute_guards_empty_reduce); both false = the repository today, true = the minimal repairs
    proposed/fix-chi-vanishing-table.diff (the table is sized before the `if (!Vanishing)` test) and
    proposed/fix-chi-empty-freqs-ub.diff (the reduction is skipped for an empty table). *)
Definition gf_compute_gen (size_first guard_reduce : bool) (g : nat) (tl : tols) (clear : bool) (freqs : list (K * K * K)) (s : gf_st)
  : outcome (list K * gf_st) :=
  match g_status s with
  | Constructed => Throws 2                                                      (* cpp:156 *)
  | Computed => Done ([], s)                                                     (* cpp:157 *)
  | Prepared =>
    let m_data0 : list K := if size_first then repeat 0 (length freqs) else [] in   (* cpp:155 *)
    if negb (g_vanishing s) then                                                 (* cpp:158 *)
      let fill := negb (Nat.eqb (length freqs) 0) in                             (* cpp:161 *)
      let m_data := repeat 0 (length freqs) in                                   (* cpp:163 *)
      bind (run_parts g tl clear fill freqs (g_parts s) m_data) (fun pd =>       (* cpp:164-167 *)
      if negb guard_reduce && match snd pd with [] => true | _ => false end then OOB    (* cpp:176 &m_data[0] *)
      else Done (snd pd, {| g_status := Computed; g_parts := fst pd; g_vanishing := g_vanishing s |}))   (* cpp:177-188 *)
    else Done (m_data0, {| g_status := Computed; g_parts := g_parts s; g_vanishing := g_vanishing s |})   (* cpp:187-188 *)
  end.
(** the source as it is now *)
Definition gf_compute := gf_compute_gen compute_sizes_table_before_vanishing_test compute_guards_empty_reduce.

End Chi.
