(** The per-term Fourier integrals behind the Lehmann representation (Coquelicot; classical real numbers).

      fermionic  w = (2n+1) pi/beta :   - int_0^beta w_n e^{-P tau} e^{i w tau} dtau = (w_n + w_m)/(i w - P),   w_m = w_n e^{-beta P}
      bosonic    W = 2n pi/beta     :     int_0^beta w_n e^{-P tau} e^{i W tau} dtau = (w_m - w_n)/(i W - P)    unless P = 0 = W,
                                                                                     = beta w_n                 if P = 0 = W
    stated for the real and imaginary parts (cos and sin transforms), and the link to the generated term formulas:
    both overflow-avoiding branches of Term::operator()(tau, beta) are the same function, and its transform is
    Term::operator()(z) at the Matsubara frequency (imaginary-time and frequency values are consistent). *)
Require Import Reals Lra Lia ZArith.
From Coquelicot Require Import Coquelicot.
From PV Require Import EDSpec NumLit.
From PVgen Require Import Gen_C01.
Local Open Scope R_scope.

(** * Trigonometry at Matsubara frequencies *)
Lemma cos_2nPI (n : nat) : cos (2 * INR n * PI) = 1.
Proof. replace (2 * INR n * PI) with (0 + 2 * INR n * PI) by ring. rewrite cos_period. apply cos_0. Qed.
Lemma sin_2nPI (n : nat) : sin (2 * INR n * PI) = 0.
Proof. replace (2 * INR n * PI) with (0 + 2 * INR n * PI) by ring. rewrite sin_period. apply sin_0. Qed.

Lemma cos_2kPI (k : Z) : cos (2 * IZR k * PI) = 1.
Proof.
  destruct (Z_le_gt_dec 0 k) as [H|H].
  - rewrite <- (Z2Nat.id k H), <- INR_IZR_INZ. apply cos_2nPI.
  - replace (2 * IZR k * PI) with (- (2 * IZR (- k) * PI)) by (rewrite opp_IZR; ring).
    rewrite cos_neg. rewrite <- (Z2Nat.id (- k)) by lia. rewrite <- INR_IZR_INZ. apply cos_2nPI.
Qed.
Lemma sin_2kPI (k : Z) : sin (2 * IZR k * PI) = 0.
Proof.
  destruct (Z_le_gt_dec 0 k) as [H|H].
  - rewrite <- (Z2Nat.id k H), <- INR_IZR_INZ. apply sin_2nPI.
  - replace (2 * IZR k * PI) with (- (2 * IZR (- k) * PI)) by (rewrite opp_IZR; ring).
    rewrite sin_neg. rewrite <- (Z2Nat.id (- k)) by lia. rewrite <- INR_IZR_INZ, sin_2nPI. ring.
Qed.

Definition fermi_freq (beta : R) (n : Z) : R := IZR (2 * n + 1) * PI / beta.
Definition bose_freq (beta : R) (n : Z) : R := IZR (2 * n) * PI / beta.

Lemma fermi_end beta n : beta <> 0 -> cos (fermi_freq beta n * beta) = -1 /\ sin (fermi_freq beta n * beta) = 0.
Proof.
  intros Hb. unfold fermi_freq.
  replace (IZR (2 * n + 1) * PI / beta * beta) with (2 * IZR n * PI + PI) by (rewrite plus_IZR, mult_IZR; field; exact Hb).
  rewrite neg_cos, neg_sin, cos_2kPI, sin_2kPI. split; ring.
Qed.
Lemma bose_end beta n : beta <> 0 -> cos (bose_freq beta n * beta) = 1 /\ sin (bose_freq beta n * beta) = 0.
Proof.
  intros Hb. unfold bose_freq.
  replace (IZR (2 * n) * PI / beta * beta) with (2 * IZR n * PI) by (rewrite mult_IZR; field; exact Hb).
  rewrite cos_2kPI, sin_2kPI. split; reflexivity.
Qed.
Lemma fermi_freq_neq_0 beta n : 0 < beta -> fermi_freq beta n <> 0.
Proof.
  intros Hb. unfold fermi_freq. intros E.
  assert (IZR (2 * n + 1) <> 0) by (apply not_0_IZR; lia).
  assert (PI <> 0) by (apply PI_neq0).
  apply Rmult_integral in E. destruct E as [E|E].
  - apply Rmult_integral in E. tauto.
  - assert (/ beta <> 0) by (apply Rinv_neq_0_compat; lra). tauto.
Qed.
Lemma bose_freq_neq_0 beta n : 0 < beta -> n <> 0%Z -> bose_freq beta n <> 0.
Proof.
  intros Hb Hn. unfold bose_freq. intros E.
  assert (IZR (2 * n) <> 0) by (apply not_0_IZR; lia).
  assert (PI <> 0) by (apply PI_neq0).
  apply Rmult_integral in E. destruct E as [E|E].
  - apply Rmult_integral in E. tauto.
  - assert (/ beta <> 0) by (apply Rinv_neq_0_compat; lra). tauto.
Qed.

(** * The two exponential-trigonometric integrals, with explicit primitives *)
Section Prim.
Variables P w : R.
Hypothesis Hd : P * P + w * w <> 0.

Definition Fc (t : R) : R := exp (- P * t) * (- P * cos (w * t) + w * sin (w * t)) / (P * P + w * w).
Definition Fs (t : R) : R := exp (- P * t) * (- P * sin (w * t) - w * cos (w * t)) / (P * P + w * w).

Lemma Fc_derive t : is_derive Fc t (exp (- P * t) * cos (w * t)).
Proof. unfold Fc. auto_derive; [auto|]. field. exact Hd. Qed.
Lemma Fs_derive t : is_derive Fs t (exp (- P * t) * sin (w * t)).
Proof. unfold Fs. auto_derive; [auto|]. field. exact Hd. Qed.

Lemma int_cos a b : is_RInt (fun t => exp (- P * t) * cos (w * t)) a b (Fc b - Fc a).
Proof.
  apply (is_RInt_derive Fc (fun t => exp (- P * t) * cos (w * t))).
  - intros t _. apply Fc_derive.
  - intros t _. apply (ex_derive_continuous (fun t => exp (- P * t) * cos (w * t))). auto_derive; auto.
Qed.
Lemma int_sin a b : is_RInt (fun t => exp (- P * t) * sin (w * t)) a b (Fs b - Fs a).
Proof.
  apply (is_RInt_derive Fs (fun t => exp (- P * t) * sin (w * t))).
  - intros t _. apply Fs_derive.
  - intros t _. apply (ex_derive_continuous (fun t => exp (- P * t) * sin (w * t))). auto_derive; auto.
Qed.
End Prim.

Lemma int_scaled (f : R -> R) a b l c : is_RInt f a b l -> is_RInt (fun t => c * f t) a b (c * l).
Proof. intros H. exact (is_RInt_scal (V := R_NormedModule) f a b c l H). Qed.
Lemma int_const (a b c : R) : is_RInt (fun _ => c) a b ((b - a) * c).
Proof. exact (is_RInt_const (V := R_NormedModule) a b c). Qed.
Lemma int_opp (f : R -> R) a b l : is_RInt f a b l -> is_RInt (fun t => - f t) a b (- l).
Proof. intros H. exact (is_RInt_opp (V := R_NormedModule) f a b l H). Qed.

Lemma sumsq_neq_0 P w : w <> 0 -> P * P + w * w <> 0.
Proof. intros H. assert (0 < w * w) by (destruct (Rtotal_order w 0) as [L|[E|G]]; [nra|tauto|nra]). nra. Qed.
Lemma sumsq_neq_0' P w : P <> 0 -> P * P + w * w <> 0.
Proof. intros H. assert (0 < P * P) by (destruct (Rtotal_order P 0) as [L|[E|G]]; [nra|tauto|nra]). nra. Qed.

(** * Fermionic term:  - int_0^beta w_n e^{-P tau} e^{i w tau} dtau = (w_n + w_m)/(i w - P) *)
Theorem fermi_term_integral (beta P wn : R) (n : Z) :
  0 < beta ->
  let w := fermi_freq beta n in
  let wm := wn * exp (- beta * P) in
  let d := P * P + w * w in
  is_RInt (fun tau => - (wn * (exp (- P * tau) * cos (w * tau)))) 0 beta (- P * (wn + wm) / d) /\
  is_RInt (fun tau => - (wn * (exp (- P * tau) * sin (w * tau)))) 0 beta (- w * (wn + wm) / d).
Proof.
  intros Hb w wm d.
  assert (Hw : w <> 0) by (apply fermi_freq_neq_0; exact Hb).
  assert (Hd : d <> 0) by (apply sumsq_neq_0; exact Hw).
  destruct (fermi_end beta n ltac:(lra)) as [Ec Es]. fold w in Ec, Es.
  split.
  - replace (- P * (wn + wm) / d) with (- (wn * (Fc P w beta - Fc P w 0))).
    + apply int_opp. apply int_scaled. apply int_cos. exact Hd.
    + unfold Fc, wm, d.
      rewrite Ec, Es, !Rmult_0_r, cos_0, sin_0, exp_0.
      replace (- P * beta) with (- beta * P) by ring. field. exact Hd.
  - replace (- w * (wn + wm) / d) with (- (wn * (Fs P w beta - Fs P w 0))).
    + apply int_opp. apply int_scaled. apply int_sin. exact Hd.
    + unfold Fs, wm, d.
      rewrite Ec, Es, !Rmult_0_r, cos_0, sin_0, exp_0.
      replace (- P * beta) with (- beta * P) by ring. field. exact Hd.
Qed.

(** the right-hand side is the complex number (w_n + w_m)/(i w - P) *)
Lemma cdiv_real_by (a P w : R) : P * P + w * w <> 0 ->
  Cdiv (RtoC a) (- P, w) = (- P * a / (P * P + w * w), - w * a / (P * P + w * w)).
Proof.
  intros Hd. unfold Cdiv, Cinv, Cmult, RtoC. simpl. f_equal; field; intros E; apply Hd; rewrite <- E; ring.
Qed.

Corollary fermi_term_integral_C (beta P wn : R) (n : Z) :
  0 < beta ->
  let w := fermi_freq beta n in
  let wm := wn * exp (- beta * P) in
  exists re im, is_RInt (fun tau => - (wn * (exp (- P * tau) * cos (w * tau)))) 0 beta re /\
                is_RInt (fun tau => - (wn * (exp (- P * tau) * sin (w * tau)))) 0 beta im /\
                (re, im) = Cdiv (RtoC (wn + wm)) (Cminus (Cmult Ci (RtoC w)) (RtoC P)).
Proof.
  intros Hb w wm. destruct (fermi_term_integral beta P wn n Hb) as [H1 H2]. fold w in H1, H2. fold wm in H1, H2.
  eexists. eexists. split; [exact H1|]. split; [exact H2|].
  assert (Hd : P * P + w * w <> 0) by (apply sumsq_neq_0; apply fermi_freq_neq_0; exact Hb).
  replace (Cminus (Cmult Ci (RtoC w)) (RtoC P)) with ((- P, w) : C).
  - rewrite cdiv_real_by by exact Hd. reflexivity.
  - unfold Cminus, Cmult, Cplus, Copp, Ci, RtoC. simpl. f_equal; ring.
Qed.

(** * Bosonic term:  int_0^beta w_n e^{-P tau} e^{i W tau} dtau = (w_m - w_n)/(i W - P),  or beta w_n when P = 0 = W *)
Theorem bose_term_integral (beta P wn : R) (n : Z) :
  0 < beta -> (P <> 0 \/ n <> 0%Z) ->
  let W := bose_freq beta n in
  let wm := wn * exp (- beta * P) in
  let d := P * P + W * W in
  is_RInt (fun tau => wn * (exp (- P * tau) * cos (W * tau))) 0 beta (- P * (wm - wn) / d) /\
  is_RInt (fun tau => wn * (exp (- P * tau) * sin (W * tau))) 0 beta (- W * (wm - wn) / d).
Proof.
  intros Hb Hnz W wm d.
  assert (Hd : d <> 0).
  { destruct Hnz as [HP|Hn]; [apply sumsq_neq_0'; exact HP|apply sumsq_neq_0; apply bose_freq_neq_0; assumption]. }
  destruct (bose_end beta n ltac:(lra)) as [Ec Es]. fold W in Ec, Es.
  split.
  - replace (- P * (wm - wn) / d) with (wn * (Fc P W beta - Fc P W 0)).
    + apply int_scaled. apply int_cos. exact Hd.
    + unfold Fc, wm, d.
      rewrite Ec, Es, !Rmult_0_r, cos_0, sin_0, exp_0.
      replace (- P * beta) with (- beta * P) by ring. field. exact Hd.
  - replace (- W * (wm - wn) / d) with (wn * (Fs P W beta - Fs P W 0)).
    + apply int_scaled. apply int_sin. exact Hd.
    + unfold Fs, wm, d.
      rewrite Ec, Es, !Rmult_0_r, cos_0, sin_0, exp_0.
      replace (- P * beta) with (- beta * P) by ring. field. exact Hd.
Qed.

Lemma static_aux_cos (wn t : R) : wn = wn * (exp (- 0 * t) * cos (0 * t)).
Proof. replace (- 0 * t) with 0 by ring. replace (0 * t) with 0 by ring. rewrite exp_0, cos_0. ring. Qed.
Lemma static_aux_sin (wn t : R) : 0 = wn * (exp (- 0 * t) * sin (0 * t)).
Proof. replace (0 * t) with 0 by ring. rewrite sin_0. ring. Qed.

(** the static limit: degenerate states at zero frequency contribute beta * w_n *)
Theorem bose_term_integral_zero (beta wn : R) :
  let W := bose_freq beta 0 in
  is_RInt (fun tau => wn * (exp (- 0 * tau) * cos (W * tau))) 0 beta (beta * wn) /\
  is_RInt (fun tau => wn * (exp (- 0 * tau) * sin (W * tau))) 0 beta 0.
Proof.
  intros W. assert (EW : W = 0) by (unfold W, bose_freq; simpl; unfold Rdiv; ring).
  rewrite EW. split.
  - apply (is_RInt_ext (fun _ => wn)).
    + intros t _. apply static_aux_cos.
    + replace (beta * wn) with ((beta - 0) * wn) by ring. apply int_const.
  - apply (is_RInt_ext (fun _ => 0)).
    + intros t _. apply static_aux_sin.
    + replace 0 with ((beta - 0) * 0) at 2 by ring. apply int_const.
Qed.

(** * The generated term formulas over the reals *)
Definition Rltb (a b : R) : bool := if Rlt_dec a b then true else false.
Definition Rops : numops R :=
  {| n0 := 0; n1 := 1; nadd := Rplus; nsub := Rminus; nmul := Rmult; ndiv := Rdiv; nopp := Ropp; nconj := fun x => x;
     nexp := exp; nre_ltb := Rltb; nabs := Rabs; nofZ := IZR; nI := 0 |}.

(** both overflow-avoiding branches of GreensFunctionPart::Term::operator()(tau, beta) are one function *)
Theorem gf_term_tau_branches (Res P tau beta : R) :
  gf_term_tau R Rops Res P tau beta = - Res * exp (- tau * P) / (1 + exp (- beta * P)).
Proof.
  unfold gf_term_tau. cbn [n0 n1 nadd nsub nmul ndiv nopp nexp nre_ltb Rops].
  assert (Hp : 0 < exp (- beta * P)) by apply exp_pos.
  assert (Hq : 0 < exp (beta * P)) by apply exp_pos.
  destruct (Rltb 0 P); [reflexivity|].
  replace ((beta - tau) * P) with (beta * P + - tau * P) by ring. rewrite exp_plus.
  replace (- beta * P) with (- (beta * P)) by ring. rewrite exp_Ropp.
  field. split; [lra|]. assert (0 < / exp (beta * P)) by (apply Rinv_0_lt_compat; exact Hq). lra.
Qed.

(** with Residue = c (w_n + w_m) this is the Lehmann integrand  - c w_n e^{-tau P} *)
Corollary gf_term_tau_integrand (c wn P tau beta : R) :
  gf_term_tau R Rops (c * (wn + wn * exp (- beta * P))) P tau beta = - (c * (wn * exp (- tau * P))).
Proof.
  rewrite gf_term_tau_branches. assert (Hp : 0 < exp (- beta * P)) by apply exp_pos. field. lra.
Qed.

Theorem susc_term_tau_branches (Res P tau beta : R) : P <> 0 -> 0 < beta ->
  susc_term_tau R Rops Res P tau beta = Res * exp (- tau * P) / (1 - exp (- beta * P)).
Proof.
  intros HP Hb. unfold susc_term_tau. cbn [n0 n1 nadd nsub nmul ndiv nopp nexp nre_ltb Rops].
  assert (Hq : 0 < exp (beta * P)) by apply exp_pos.
  assert (Hne : exp (beta * P) <> 1).
  { intros E. rewrite <- exp_0 in E. apply exp_inv in E. apply Rmult_integral in E. destruct E; lra. }
  destruct (Rltb 0 P); [reflexivity|].
  replace ((beta - tau) * P) with (beta * P + - tau * P) by ring. rewrite exp_plus.
  replace (- beta * P) with (- (beta * P)) by ring. rewrite exp_Ropp.
  field. split; [lra|]. intros E. apply Hne. lra.
Qed.

Corollary susc_term_tau_integrand (c wn P tau beta : R) : P <> 0 -> 0 < beta ->
  susc_term_tau R Rops (c * (wn - wn * exp (- beta * P))) P tau beta = c * (wn * exp (- tau * P)).
Proof.
  intros HP Hb. rewrite susc_term_tau_branches by assumption.
  assert (Hne : exp (- beta * P) <> 1).
  { intros E. rewrite <- exp_0 in E. apply exp_inv in E. apply Rmult_integral in E. destruct E; lra. }
  field. lra.
Qed.

Lemma gf_pt (c wn P beta t x : R) :
  - (c * wn * (exp (- P * t) * x)) = gf_term_tau R Rops (c * (wn + wn * exp (- beta * P))) P t beta * x.
Proof. rewrite gf_term_tau_integrand. replace (- t * P) with (- P * t) by ring. ring. Qed.
Lemma susc_pt (c wn P beta t x : R) : P <> 0 -> 0 < beta ->
  c * wn * (exp (- P * t) * x) = susc_term_tau R Rops (c * (wn - wn * exp (- beta * P))) P t beta * x.
Proof. intros HP Hb. rewrite susc_term_tau_integrand by assumption. replace (- t * P) with (- P * t) by ring. ring. Qed.

(** imaginary-time and frequency values of a Green's-function term are consistent:
    int_0^beta Term(tau) e^{i w tau} dtau = Term(i w) = Res/(i w - P) *)
Theorem gf_tau_freq_consistent (c wn P beta : R) (n : Z) :
  0 < beta ->
  let w := fermi_freq beta n in
  let Res := c * (wn + wn * exp (- beta * P)) in
  let d := P * P + w * w in
  is_RInt (fun tau => gf_term_tau R Rops Res P tau beta * cos (w * tau)) 0 beta (- P * Res / d) /\
  is_RInt (fun tau => gf_term_tau R Rops Res P tau beta * sin (w * tau)) 0 beta (- w * Res / d).
Proof.
  intros Hb w Res d. destruct (fermi_term_integral beta P (c * wn) n Hb) as [H1 H2]. fold w in H1, H2.
  split.
  - apply (is_RInt_ext (fun tau => - (c * wn * (exp (- P * tau) * cos (w * tau))))).
    + intros t _. unfold Res. apply gf_pt.
    + replace (- P * Res / d) with (- P * (c * wn + c * wn * exp (- beta * P)) / (P * P + w * w)); [exact H1|].
      unfold Res, d. unfold Rdiv. ring.
  - apply (is_RInt_ext (fun tau => - (c * wn * (exp (- P * tau) * sin (w * tau))))).
    + intros t _. unfold Res. apply gf_pt.
    + replace (- w * Res / d) with (- w * (c * wn + c * wn * exp (- beta * P)) / (P * P + w * w)); [exact H2|].
      unfold Res, d. unfold Rdiv. ring.
Qed.

(** and of a susceptibility term (P <> 0): int_0^beta Term(tau) e^{i W tau} dtau = - Res/(i W - P) = Term(i W) *)
Theorem susc_tau_consistent (c wn P beta : R) (n : Z) :
  0 < beta -> P <> 0 ->
  let W := bose_freq beta n in
  let Res := c * (wn - wn * exp (- beta * P)) in
  let d := P * P + W * W in
  is_RInt (fun tau => susc_term_tau R Rops Res P tau beta * cos (W * tau)) 0 beta (- (- P * Res / d)) /\
  is_RInt (fun tau => susc_term_tau R Rops Res P tau beta * sin (W * tau)) 0 beta (- (- W * Res / d)).
Proof.
  intros Hb HP W Res d. destruct (bose_term_integral beta P (c * wn) n Hb (or_introl HP)) as [H1 H2]. fold W in H1, H2.
  split.
  - apply (is_RInt_ext (fun tau => c * wn * (exp (- P * tau) * cos (W * tau)))).
    + intros t _. unfold Res. apply susc_pt; assumption.
    + replace (- (- P * Res / d)) with (- P * (c * wn * exp (- beta * P) - c * wn) / (P * P + W * W)); [exact H1|].
      unfold Res, d. unfold Rdiv. ring.
  - apply (is_RInt_ext (fun tau => c * wn * (exp (- P * tau) * sin (W * tau)))).
    + intros t _. unfold Res. apply susc_pt; assumption.
    + replace (- (- W * Res / d)) with (- W * (c * wn * exp (- beta * P) - c * wn) / (P * P + W * W)); [exact H2|].
      unfold Res, d. unfold Rdiv. ring.
Qed.

(** the zero-frequency test of the library singles out exactly n = 0 on the bosonic Matsubara axis (beta < 10^15) *)
Theorem zero_test_only_n0 (beta : R) (n : Z) : 0 < beta -> beta <= 1e15 ->
  (Rabs (bose_freq beta n) < 1e-15 <-> n = 0%Z).
Proof.
  intros Hb Hb2. unfold bose_freq. split.
  - intros H. destruct (Z.eq_dec n 0) as [E|NE]; [exact E|exfalso].
    assert (1 <= Rabs (IZR n)).
    { rewrite <- abs_IZR. apply IZR_le. lia. }
    rewrite mult_IZR in H. unfold Rdiv in H. rewrite !Rabs_mult in H.
    rewrite (Rabs_pos_eq 2) in H by lra. rewrite (Rabs_pos_eq PI) in H by (pose proof PI_RGT_0; lra).
    rewrite Rabs_inv in H. rewrite (Rabs_pos_eq beta) in H by lra.
    pose proof PI_RGT_0. pose proof (PI2_3_2). unfold PI2 in *.
    assert (Hinv : 1e-15 <= / beta).
    { replace 1e-15 with (/ 1e15) by lra. apply Rinv_le_contravar; lra. }
    assert (0 < / beta) by (apply Rinv_0_lt_compat; lra).
    assert (A1 : 3 <= Rabs (IZR n) * PI) by nra.
    assert (A2 : 3 * 1e-15 <= Rabs (IZR n) * PI * / beta) by (apply Rmult_le_compat; lra).
    lra.
  - intros ->. simpl. unfold Rdiv. rewrite !Rmult_0_l, Rabs_R0. lra.
Qed.

(** the overflow-safe form used by PV.TruncSpec.susc_tau_safe is the same number as the term of EDSpec.susc_tau:
    w_n e^{tau (E_n - E_m)} with w_n = e^{-beta (E_n - E_0)}/Z *)
Lemma tau_exponent_combined (beta tau En Em e0 Z : R) :
  exp (- (beta * (En - e0))) / Z * exp (tau * (En - Em)) = exp (- ((beta - tau) * (En - e0) + tau * (Em - e0))) / Z.
Proof.
  unfold Rdiv. rewrite Rmult_assoc, (Rmult_comm (/ Z)), <- Rmult_assoc, <- exp_plus. f_equal. f_equal. ring.
Qed.
