(** ThermalExamples.v -- the hypotheses of the theorems of ThermalProofs.v are satisfiable by non-trivial
    values (AGENTS_GUIDE: every theorem with hypotheses gets an Example).

    The example world: two spinless modes, particle number conserved.  Fock states 0..3; blocks
    {0}, {1,2}, {3}; in the block {1,2} the eigenvectors are the columns of the rotation
    ((3/5, -4/5), (4/5, 3/5)) with eigenvalues -1, +1, i.e. H restricted to {1,2} is
    ((7/25, -24/25), (-24/25, -7/25)). *)
Require Import Reals Bool List Arith Lra Lia.
From Coquelicot Require Import Complex.
From PV Require Import Outcome Thermal ThermalSpec ThermalProofs.
Import ListNotations.
Local Open Scope R_scope.

Definition ex_b0 : Rhpart := mk_hpart R [0%nat] [0] [[1]].
Definition ex_b1 : Rhpart := mk_hpart R [1%nat; 2%nat] [-1; 1] [[3/5; -4/5]; [4/5; 3/5]].
Definition ex_b2 : Rhpart := mk_hpart R [3%nat] [2] [[1]].
Definition exH : list Rhpart := [ex_b0; ex_b1; ex_b2].
Definition exfock : list nat := [0; 1; 2; 3]%nat.
(** the Hamiltonian in the Fock basis *)
Definition exHm (f g : nat) : R :=
  match f, g with
  | 1%nat, 1%nat => 7/25 | 1%nat, 2%nat => -24/25 | 2%nat, 1%nat => -24/25 | 2%nat, 2%nat => -7/25
  | 3%nat, 3%nat => 2
  | _, _ => 0
  end.
(** a density matrix with explicit weights (sum 1), nothing truncated *)
Definition exD : list Rdmpart :=
  [mk_dmpart R [1/10] (1/10) true; mk_dmpart R [2/10; 3/10] (5/10) true; mk_dmpart R [4/10] (4/10) true].
(** the hopping operator c^+_0 c_1 + c^+_1 c_0 in the Fock basis, and its diagonal part on block 1 in the eigenbasis *)
Definition exO (f g : nat) : R :=
  match f, g with 1%nat, 2%nat => 1 | 2%nat, 1%nat => 1 | _, _ => 0 end.
Definition exA : fieldop R := [mk_oppart R 1 1 [[24/25; -7/25]; [-7/25; -24/25]]].

Ltac in_cases H := repeat (destruct H as [H|H]; [subst|]); try destruct H.

(** ground_energy_is_min, and the hypothesis [Rdm_compute beta H = Done D] of the weights_* theorems *)
Example ex_blocks_nonempty : exH <> [] /\ forall hp, In hp exH -> hp_eig R hp <> [].
Proof. split; [discriminate|]. intros hp Hhp. unfold exH in Hhp. in_cases Hhp; discriminate. Qed.

Example ex_dm_computed : exists D, Rdm_compute 2 exH = Done D /\ length D = 3%nat.
Proof.
  destruct (ground_energy_is_min exH (proj1 ex_blocks_nonempty) (proj2 ex_blocks_nonempty)) as [g [Eg _]].
  eexists. split; [apply (dm_compute_char 2 exH g Eg)|reflexivity].
Qed.

(** the ground energy of the example is -1 (attained in the two-state block) *)
Example ex_ground : Rground_energy exH = Done (-1).
Proof.
  destruct (ground_energy_is_min exH (proj1 ex_blocks_nonempty) (proj2 ex_blocks_nonempty)) as [g [Eg [[hp [Hhp Hg]] Lg]]].
  rewrite Eg. f_equal.
  assert (g <= -1) by (apply (Lg ex_b1); [right; left; reflexivity|left; reflexivity]).
  unfold exH in Hhp. in_cases Hhp; cbn in Hg; in_cases Hg; lra.
Qed.

(** hypotheses of Section Traces *)
Example ex_fock_nodup : NoDup exfock.
Proof. unfold exfock. repeat constructor; cbn; intuition lia. Qed.

Example ex_blocks_wf : forall hp, In hp exH -> wf_hpart hp.
Proof.
  intros hp Hhp. unfold exH in Hhp. in_cases Hhp; unfold wf_hpart; cbn; repeat split; try reflexivity;
    try (intros row Hr; in_cases Hr; reflexivity); repeat constructor; cbn; intuition lia.
Qed.

Example ex_blocks_in_fock : forall hp, In hp exH -> incl (hp_states R hp) exfock.
Proof.
  intros hp Hhp f Hf. unfold exH in Hhp. in_cases Hhp; cbn in Hf; in_cases Hf; cbn; intuition.
Qed.

Example ex_parts_paired : length exD = length exH.
Proof. reflexivity. Qed.

Example ex_weights_sized : forall hd, In hd (combine exH exD) -> length (dp_weights R (snd hd)) = hp_size R (fst hd).
Proof. intros hd Hhd. cbn in Hhd. in_cases Hhd; reflexivity. Qed.

(** avg_energy_is_trace: the assembled eigenvectors are normalised eigenvectors of exHm *)
Example ex_eigen_equation : forall hp s f, In hp exH -> (s < hp_size R hp)%nat -> In f exfock ->
  lsum (fun g => exHm f g * comp hp s g) exfock = nth s (hp_eig R hp) 0 * comp hp s f.
Proof.
  intros hp s f Hhp Hs Hf. unfold exH in Hhp. unfold exfock in Hf.
  in_cases Hhp; cbn in Hs; in_cases Hf;
    (destruct s as [|[|s]]; [| |]; try lia; unfold comp, exfock; cbn; lra).
Qed.

Example ex_eigenvectors_normalised : forall hp s, In hp exH -> (s < hp_size R hp)%nat ->
  lsum (fun f => comp hp s f * comp hp s f) exfock = 1.
Proof.
  intros hp s Hhp Hs. unfold exH in Hhp.
  in_cases Hhp; cbn in Hs; (destruct s as [|[|s]]; [| |]; try lia; unfold comp, exfock; cbn; lra).
Qed.

(** so the theorem applies: the average energy of the example is Tr(rho H), and evaluates to 9/10 *)
Example ex_avg_energy : Rdm_average_energy exH exD = trace_rho_op exfock exH exD exHm /\ Rdm_average_energy exH exD = 9/10.
Proof.
  split.
  - apply (avg_energy_is_trace exfock exH exD exHm ex_eigen_equation ex_eigenvectors_normalised ex_weights_sized).
  - unfold Rdm_average_energy, dm_average_energy, dm_sum_parts, part_average_energy. cbn. lra.
Qed.

(** ensemble_average_is_trace *)
Example ex_ensemble_average_hyps :
  NoDup (map (op_left R) exA) /\
  (forall p, In p exA -> (op_left R p < length exH)%nat) /\
  (forall p, In p exA -> op_left R p = op_right R p ->
     length (op_mat R p) = hp_size R (nth (op_left R p) exH dummy_hp) /\
     forall n, (n < hp_size R (nth (op_left R p) exH dummy_hp))%nat ->
       coeff R 0 (op_mat R p) n n = expect exfock exO (nth (op_left R p) exH dummy_hp) n) /\
  (forall b, (b < length exH)%nat -> (forall p, In p exA -> op_left R p = op_right R p -> op_left R p <> b) ->
     forall s, (s < hp_size R (nth b exH dummy_hp))%nat -> expect exfock exO (nth b exH dummy_hp) s = 0) /\
  (forall b, (b < length exD)%nat -> Ris_retained exD b = true).
Proof.
  repeat split.
  - cbn. repeat constructor. intros [].
  - intros p Hp. unfold exA in Hp. in_cases Hp. cbn. lia.
  - unfold exA in H. in_cases H. reflexivity.
  - intros n Hn. unfold exA in H. in_cases H. cbn in Hn.
    destruct n as [|[|n]]; try lia; unfold expect, comp, exfock; cbn; lra.
  - intros b Hb Hnd s Hs. cbn in Hb.
    destruct b as [|[|[|b]]]; try lia.
    + cbn in Hs. destruct s; [|lia]. unfold expect, comp, exfock; cbn; lra.
    + exfalso. apply (Hnd (mk_oppart R 1 1 [[24/25; -7/25]; [-7/25; -24/25]])); [left; reflexivity|reflexivity|reflexivity].
    + cbn in Hs. destruct s; [|lia]. unfold expect, comp, exfock; cbn; lra.
  - intros b Hb. cbn in Hb. destruct b as [|[|[|b]]]; try lia; reflexivity.
Qed.

(** and the ensemble average of the example evaluates: 24/25 * 2/10 - 24/25 * 3/10 = -12/125 = Tr(rho O) *)
Example ex_ensemble_average :
  Rea_prepare exA exD = Done (trace_rho_op exfock exH exD exO) /\ Rea_prepare exA exD = Done (-12/125).
Proof.
  destruct ex_ensemble_average_hyps as [h1 [h2 [h3 [h4 h5]]]]. split.
  - apply (ensemble_average_is_trace exfock exH exD ex_parts_paired ex_weights_sized exA exO h1 h2 h3 h4 h5).
  - unfold Rea_prepare, ea_prepare. cbn. f_equal. lra.
Qed.

(** truncation of the example at eps = 1/4: block 0 (weight 1/10) is discarded, blocks 1 and 2 are kept *)
Example ex_truncate_flags :
  map (dp_retained R) (Rdm_truncate (1/4) exD) = [false; true; true].
Proof.
  unfold Rdm_truncate, dm_truncate, truncate, exD. cbn [map dp_weights dp_retained existsb].
  assert (F1 : Rltb (1/4) (1/10) = false) by (apply Rltb_false; lra).
  assert (F2 : Rltb (1/4) (2/10) = false) by (apply Rltb_false; lra).
  assert (T3 : Rltb (1/4) (3/10) = true) by (apply Rltb_true; lra).
  assert (T4 : Rltb (1/4) (4/10) = true) by (apply Rltb_true; lra).
  rewrite F1, F2, T3, T4. reflexivity.
Qed.

(** ea_truncation_bound *)
Example ex_ea_bound_hyps :
  NoDup (map (op_left R) exA) /\
  (forall p, In p exA -> op_left R p = op_right R p -> (op_left R p < length exD)%nat) /\
  (forall dp w, In dp exD -> In w (dp_weights R dp) -> 0 <= w) /\
  (forall b, (b < length exD)%nat -> Ris_retained exD b = true) /\
  (forall p i, In p exA -> op_left R p = op_right R p -> (i < length (op_mat R p))%nat ->
     Rabs (coeff R 0 (op_mat R p) i i) <= 1) /\
  lsum (fun p => if Nat.eqb (op_left R p) (op_right R p) then INR (length (op_mat R p)) else 0) exA <= 4.
Proof.
  destruct ex_ensemble_average_hyps as [h1 [_ [_ [_ h5]]]].
  repeat split; try assumption.
  - intros p Hp _. unfold exA in Hp. in_cases Hp. cbn. lia.
  - intros dp w Hdp Hw. unfold exD in Hdp. in_cases Hdp; cbn in Hw; in_cases Hw; lra.
  - intros p i Hp _ Hi. unfold exA in Hp. in_cases Hp. cbn in Hi. destruct i as [|[|i]]; try lia; cbn;
      apply Rabs_le; lra.
  - cbn. lra.
Qed.

(** gf_truncation_bound: one dropped part with one term, weights 1/10 <= eps = 1/4 *)
Definition ex_term : lterm := mk_lterm (RtoC 1) (RtoC 1) (1/10) (1/10) 2.
Definition ex_parts : list gfpart := [mk_gfpart 0 1 [[ex_term]]].
Example ex_gf_bound_hyps :
  snd (0, 1) <> 0 /\
  (forall p row t, In p ex_parts -> gfpart_kept (fun _ => false) p = false -> In row (gp_rows p) -> In t row ->
     0 <= lt_wn t <= 1/4 /\ 0 <= lt_wm t <= 1/4) /\
  (forall p row, In p ex_parts -> In row (gp_rows p) -> lsum (fun t => Cmod (lt_c t) * Cmod (lt_c t)) row <= 1) /\
  (forall p row, In p ex_parts -> In row (gp_rows p) -> lsum (fun t => Cmod (lt_cx t) * Cmod (lt_cx t)) row <= 1) /\
  lsum (fun p => INR (length (gp_rows p))) ex_parts <= 1.
Proof.
  repeat split.
  - cbn. lra.
  - unfold ex_parts in H. in_cases H. cbn in H1. in_cases H1. cbn in H2. in_cases H2. cbn. lra.
  - unfold ex_parts in H. in_cases H. cbn in H1. in_cases H1. cbn in H2. in_cases H2. cbn. lra.
  - unfold ex_parts in H. in_cases H. cbn in H1. in_cases H1. cbn in H2. in_cases H2. cbn. lra.
  - unfold ex_parts in H. in_cases H. cbn in H1. in_cases H1. cbn in H2. in_cases H2. cbn. lra.
  - intros p row Hp Hrow. unfold ex_parts in Hp. in_cases Hp. cbn in Hrow. in_cases Hrow. cbn. rewrite Cmod_1. lra.
  - intros p row Hp Hrow. unfold ex_parts in Hp. in_cases Hp. cbn in Hrow. in_cases Hrow. cbn. rewrite Cmod_1. lra.
  - cbn. lra.
Qed.

(** gf_truncation_bound_dm: the same part with weights taken from the computed density matrix of exH *)
Example ex_gf_bound_dm_hyps : exists D parts,
  Rdm_compute 2 exH = Done D /\ parts <> [] /\
  (forall p row t, In p parts -> In row (gp_rows p) -> In t row ->
     (gp_outer p < length D)%nat /\ (gp_inner p < length D)%nat /\
     In (lt_wn t) (dp_weights R (nth (gp_outer p) D dummy_dp)) /\
     In (lt_wm t) (dp_weights R (nth (gp_inner p) D dummy_dp))).
Proof.
  destruct ex_dm_computed as [D [E L]]. destruct (dm_compute_sizes 2 exH D E) as [_ S].
  exists D, [mk_gfpart 0 1 [[mk_lterm (RtoC 1) (RtoC 1) (weight_at D 0 0) (weight_at D 1 0) (-1)]]].
  split; [exact E|]. split; [discriminate|].
  intros p row t Hp Hrow Ht. in_cases Hp. cbn in Hrow. in_cases Hrow. cbn in Ht. in_cases Ht. cbn [gp_outer gp_inner lt_wn lt_wm].
  assert (S0 : length (dp_weights R (nth 0 D dummy_dp)) = 1%nat).
  { apply (S (nth 0 exH dummy_hp, nth 0 D dummy_dp)). rewrite <- combine_nth by (rewrite L; reflexivity).
    apply nth_In. rewrite combine_length, L. cbn. lia. }
  assert (S1 : length (dp_weights R (nth 1 D dummy_dp)) = 2%nat).
  { apply (S (nth 1 exH dummy_hp, nth 1 D dummy_dp)). rewrite <- combine_nth by (rewrite L; reflexivity).
    apply nth_In. rewrite combine_length, L. cbn. lia. }
  repeat split; try lia; unfold weight_at; apply nth_In; lia.
Qed.

(** the occupancy theorems apply to the example world *)
Example ex_occupancy : Rdm_average_occupancy_i 2 0 exH exD = Done (trace_rho_op exfock exH exD (op_n 0)).
Proof. apply (occupancy_is_trace exfock exH exD ex_fock_nodup ex_blocks_wf ex_blocks_in_fock 2 0). lia. Qed.

(** susc_truncation_bound: one dropped part with one non-resonant term in the Gibbs ratio, beta = 2, pole 1 *)
Definition ex_sterm : sterm := mk_sterm (RtoC 1) (RtoC 1) (1/10) (1/10 * exp (- 2 * 1)) 1 true.
Definition ex_sparts : list suscpart := [mk_suscpart 0 1 [[ex_sterm]]].
Example ex_susc_bound_hyps :
  fst (0, 3) = 0 /\
  (forall p row t, In p ex_sparts -> suscpart_kept (fun _ => false) p = false -> In row (sp_rows p) -> In t row ->
     0 <= st_wn t <= 1/4 /\ 0 <= st_wm t <= 1/4 /\ st_wm t = st_wn t * exp (- 2 * st_pole t)) /\
  (forall p row, In p ex_sparts -> In row (sp_rows p) -> lsum (fun t => Cmod (st_a t) * Cmod (st_a t)) row <= 1) /\
  (forall p row, In p ex_sparts -> In row (sp_rows p) -> lsum (fun t => Cmod (st_b t) * Cmod (st_b t)) row <= 1) /\
  lsum (fun p => INR (length (sp_rows p))) ex_sparts <= 1.
Proof.
  assert (E1 : 0 < exp (- 2 * 1) <= 1).
  { split; [apply exp_pos|]. apply Rle_trans with (exp 0); [left; apply exp_increasing; lra|rewrite exp_0; lra]. }
  split; [reflexivity|]. split; [|split; [|split]].
  - intros p row t Hp _ Hrow Ht. unfold ex_sparts in Hp. in_cases Hp. cbn in Hrow. in_cases Hrow. cbn in Ht. in_cases Ht.
    cbn [ex_sterm st_wn st_wm st_pole]. destruct E1 as [E1 E2].
    assert (0 <= 1 / 10 * exp (- 2 * 1)) by (apply Rmult_le_pos; lra).
    assert (1 / 10 * exp (- 2 * 1) <= 1 / 4) by (apply Rle_trans with (1 / 10 * 1); [apply Rmult_le_compat_l; lra|lra]).
    repeat split; try lra; reflexivity.
  - intros p row Hp Hrow. unfold ex_sparts in Hp. in_cases Hp. cbn in Hrow. in_cases Hrow. cbn. rewrite Cmod_1. lra.
  - intros p row Hp Hrow. unfold ex_sparts in Hp. in_cases Hp. cbn in Hrow. in_cases Hrow. cbn. rewrite Cmod_1. lra.
  - cbn. lra.
Qed.
