(** DispatchGen.v -- the step function of the dispatcher model rebuilt around the control structure that the translator reads off
    the C++ (C16).

    PV.Dispatch is hand-written.  translator/gen_dispatch.py regenerates, on every run, from the source text of the tree under test
    (one file per C++ function, vocabulary PV.DispatchShapes):

      PVgen.Gen_DispOrderWorker       gen_order_worker                                   MPIMaster::order_worker
      PVgen.Gen_DispOrder             gen_order_loop / _cond / _body                     MPIMaster::order
      PVgen.Gen_DispCheckWorkers      gen_cw_shape, gen_cw_poll_..., gen_cw_finish_...   MPIMaster::check_workers
      PVgen.Gen_DispAutorange         gen_autorange_nprocs / _throws / _positions / _keep / _item     _autorange_workers
      PVgen.Gen_DispFillStack         gen_fill_job_... , gen_fill_worker_...             MPIMaster::fill_stack_
      PVgen.Gen_DispMasterCtor        gen_ctor_base_inits / _base_body / _by_tasks / _by_count, gen_autorange_tasks   the constructors
      PVgen.Gen_DispMasterSwap        gen_swap_members, gen_master_members               MPIMaster::swap / struct MPIMaster
      PVgen.Gen_DispMasterIsFinished  gen_master_finished_count, gen_master_finished     MPIMaster::is_finished
      PVgen.Gen_DispWorkerCtor        gen_worker_ctor_status / _recv                     MPIWorker::MPIWorker
      PVgen.Gen_DispWorkerIsFinished  gen_worker_is_finished                             MPIWorker::is_finished
      PVgen.Gen_DispWorkerIsWorking   gen_worker_is_working                              MPIWorker::is_working
      PVgen.Gen_DispReceiveOrder      gen_receive_order, gen_receive_order_completed     MPIWorker::receive_order
      PVgen.Gen_DispReportDone        gen_report_done                                    MPIWorker::report_job_done
      PVgen.Gen_DispSkelRun           gen_skel_run, gen_skel_job_..., gen_skel_master, gen_skel_loop_..., gen_skel_map_...   mpi_skel::run
      PVgen.Gen_SplitColors           gen_skel_root, gen_skel_barriers_... (translator/gen_c06.py; imported, not generated again)

    Below every function of PV.Dispatch that one of these describes is written once more as an INTERPRETER of the description
    ([..._by], with the description as argument) and instantiated with the generated one ([..._src]).  What the translator does not
    describe is shared with Dispatch.v: the MPI layer (the per-link queues, [wild_match], the matching rule of [pend_match] -- which
    here takes "is the worker's wildcard receive posted" from the generated receive_order), the state record, the events.
    An interpreter answers [None] (no step) for anything it has no reading for.  The loop of the master-only root
    (include_boss = false) is not in the library but in test/mpi_dispatcher_test_nomaster.cpp; its two bodies are written here by
    hand in the same vocabulary ([noboss_root_body], [noboss_worker_body]) -- the member functions they call are the generated ones.

    PV.DispatchGenProofs proves `generated piece = what Dispatch.v has` (closed computations that stop checking when the source says
    something else), from them [step_src c s e = step c s e], and the theorems of props/Properties_C16_source.v.   Definitions only. *)
Require Import List Arith Bool PeanoNat.
From PV Require Import Dispatch DispatchShapes.
From PVgen Require Import Gen_DispOrderWorker Gen_DispOrder Gen_DispCheckWorkers Gen_DispAutorange Gen_DispFillStack
                          Gen_DispMasterCtor Gen_DispMasterSwap Gen_DispMasterIsFinished Gen_DispWorkerCtor
                          Gen_DispWorkerIsFinished Gen_DispWorkerIsWorking Gen_DispReceiveOrder Gen_DispReportDone
                          Gen_DispSkelRun.
Import ListNotations.

Scheme Equality for m_member.
Scheme Equality for ctor_init.
Scheme Equality for sk_call.

(** * State updates, one field at a time *)
Definition set_jobstack (v : list job) (s : sys) : sys :=
  mksys v (wstack s) (outst s) (wfin s) (dmap s) (alljobs s) (wst s) (chan s) (pend_older s) (exited s) (log s) (err s) (round s).
Definition set_wstack (v : list wid) (s : sys) : sys :=
  mksys (jobstack s) v (outst s) (wfin s) (dmap s) (alljobs s) (wst s) (chan s) (pend_older s) (exited s) (log s) (err s) (round s).
Definition set_outst (v : wid -> bool) (s : sys) : sys :=
  mksys (jobstack s) (wstack s) v (wfin s) (dmap s) (alljobs s) (wst s) (chan s) (pend_older s) (exited s) (log s) (err s) (round s).
Definition set_wfin (v : wid -> bool) (s : sys) : sys :=
  mksys (jobstack s) (wstack s) (outst s) v (dmap s) (alljobs s) (wst s) (chan s) (pend_older s) (exited s) (log s) (err s) (round s).
Definition set_dmap (v : job -> option wid) (s : sys) : sys :=
  mksys (jobstack s) (wstack s) (outst s) (wfin s) v (alljobs s) (wst s) (chan s) (pend_older s) (exited s) (log s) (err s) (round s).
Definition set_wst (v : wid -> wstat) (s : sys) : sys :=
  mksys (jobstack s) (wstack s) (outst s) (wfin s) (dmap s) (alljobs s) v (chan s) (pend_older s) (exited s) (log s) (err s) (round s).
Definition set_chan (v : wid -> list msg) (s : sys) : sys :=
  mksys (jobstack s) (wstack s) (outst s) (wfin s) (dmap s) (alljobs s) (wst s) v (pend_older s) (exited s) (log s) (err s) (round s).
Definition set_pend_older (v : wid -> bool) (s : sys) : sys :=
  mksys (jobstack s) (wstack s) (outst s) (wfin s) (dmap s) (alljobs s) (wst s) (chan s) v (exited s) (log s) (err s) (round s).
Definition set_log (v : list (job * wid)) (s : sys) : sys :=
  mksys (jobstack s) (wstack s) (outst s) (wfin s) (dmap s) (alljobs s) (wst s) (chan s) (pend_older s) (exited s) v (err s) (round s).
Definition set_err (v : bool) (s : sys) : sys :=
  mksys (jobstack s) (wstack s) (outst s) (wfin s) (dmap s) (alljobs s) (wst s) (chan s) (pend_older s) (exited s) (log s) v (round s).

(** a sequence of statements, each a partial state transformer *)
Fixpoint run_stmts {St X : Type} (exec : St -> X -> option X) (l : list St) (x : X) : option X :=
  match l with
  | [] => Some x
  | st :: r => match exec st x with Some x' => run_stmts exec r x' | None => None end
  end.

Definition isnil {A : Type} (l : list A) : bool := match l with [] => true | _ => false end.

(** * Messages *)
(** Comm.send(dest, int(tag) [, payload]): the message the model's link carries *)
Definition msg_of (t : d_tag) (p : d_payload) (j : job) : option msg :=
  match t, p with
  | TagWork, PayJobArg => Some (MWork j)
  | TagFinish, PayNone => Some MFinish
  | TagPending, PayNone => Some MPend
  | _, _ => None
  end.
Definition send_to (w : wid) (m : msg) (s : sys) : sys := set_chan (upd (chan s) w (chan s w ++ [m])) s.

(** enum WorkerTag as the member Status *)
Definition tag_of_status (st : wstat) : d_tag := match st with Pending => TagPending | Work _ => TagWork | Finish => TagFinish end.
Definition tag_eqb (a b : d_tag) : bool :=
  match a, b with
  | TagPending, TagPending | TagWork, TagWork | TagFinish, TagFinish | TagAny, TagAny => true
  | _, _ => false
  end.
Definition status_holds (c : d_status_cond) (st : wstat) : option bool :=
  match c with
  | StatusIs TagUnrecognised | StatusIsNot TagUnrecognised | StatusIs TagAny | StatusIsNot TagAny => None
  | StatusIs t => Some (tag_eqb (tag_of_status st) t)
  | StatusIsNot t => Some (negb (tag_eqb (tag_of_status st) t))
  | StatusCondUnrecognised => None
  end.

(** * MPIMaster::order_worker *)
Definition ow_exec (w : wid) (j : job) (st : ow_stmt) (s : sys) : option sys :=
  match st with
  | OwSend PeerWorkerArg t p => match msg_of t p j with Some (MWork j') => Some (send_to w (MWork j') s) | _ => None end
  | OwRecordDispatch => Some (set_dmap (upd (dmap s) j (Some w)) s)
  | OwPostCompletionRecv PeerWorkerArg TagPending =>
    (* the request object of this worker is overwritten (an active one would be lost: err); the receive posted here is younger
       than the worker's wildcard receive *)
    Some (set_err (err s || outst s w) (set_pend_older (upd (pend_older s) w false) (set_outst (upd (outst s) w true) s)))
  | _ => None
  end.
Definition order_worker_by (d : list ow_stmt) (w : wid) (j : job) (s : sys) : option sys := run_stmts (ow_exec w j) d s.
Definition order_worker_src : wid -> job -> sys -> option sys := order_worker_by gen_order_worker.

(** * MPIMaster::order: state and the pairs dispatched so far *)
Definition ord_arg_val (a : ord_arg) (s : sys) : option nat :=
  match a with
  | ArgTopWorker => hd_error (wstack s)
  | ArgTopJob => hd_error (jobstack s)
  | ArgUnrecognised => None
  end.
Definition ord_exec (ow : list ow_stmt) (st : ord_stmt) (x : sys * list (job * wid)) : option (sys * list (job * wid)) :=
  match st with
  | OrdOrderWorker a b =>
    match ord_arg_val a (fst x), ord_arg_val b (fst x) with
    | Some w, Some j => match order_worker_by ow w j (fst x) with Some s' => Some (s', snd x ++ [(j, w)]) | None => None end
    | _, _ => None
    end
  | OrdPopWorker => match wstack (fst x) with _ :: ws => Some (set_wstack ws (fst x), snd x) | [] => None end
  | OrdPopJob => match jobstack (fst x) with _ :: js => Some (set_jobstack js (fst x), snd x) | [] => None end
  | OrdEarlyExit => None
  end.
Fixpoint order_iter (cond : bool -> bool -> bool) (body : list ord_stmt) (ow : list ow_stmt) (fuel : nat)
    (x : sys * list (job * wid)) : option (sys * list (job * wid)) :=
  if cond (isnil (wstack (fst x))) (isnil (jobstack (fst x))) then
    match fuel with
    | 0 => None
    | S f => match run_stmts (ord_exec ow) body x with Some x' => order_iter cond body ow f x' | None => None end
    end
  else Some x.
(** fuel: a body that pops a job per iteration ends after at most |JobStack| iterations *)
Definition order_by (lp : ord_loop) (cond : bool -> bool -> bool) (body : list ord_stmt) (ow : list ow_stmt) (s : sys)
  : option (sys * list (job * wid)) :=
  match lp with
  | OrdWhile => order_iter cond body ow (length (jobstack s)) (s, [])
  | OrdOnce => if cond (isnil (wstack s)) (isnil (jobstack s)) then run_stmts (ord_exec ow) body (s, []) else Some (s, [])
  | OrdLoopUnrecognised => None
  end.
Definition order_src : sys -> option (sys * list (job * wid)) := order_by gen_order_loop gen_order_cond gen_order_body gen_order_worker.

(** * The constructors: worker pool, the two stacks *)
(** _autorange_workers on the root (comm.rank() = 0 there: the master is built on ROOT = 0) *)
Definition pool_by (positions : nat -> list nat) (keep : bool -> nat -> nat -> bool) (item : ar_item) (c : cfg) : list wid :=
  match item with
  | ArLoopVariable => filter (keep (ib c) 0) (positions (np c))
  | ArItemUnrecognised => []
  end.
Definition pool_src : cfg -> list wid := pool_by gen_autorange_positions gen_autorange_keep gen_autorange_item.
Definition nprocs_src (c : cfg) : nat := length (pool_src c).          (* Nprocs(worker_pool.size()) *)
(** "No workers to evaluate" is not thrown *)
Definition valid_cfg_src (c : cfg) : bool := negb (gen_autorange_throws (gen_autorange_nprocs (np c) (ib c))).

(** values of a vector at a list of positions; a position outside the vector is undefined behaviour: [None] *)
Fixpoint values_at (v : list nat) (positions : list nat) : option (list nat) :=
  match positions with
  | [] => Some []
  | i :: r => match nth_error v i, values_at v r with Some x, Some l => Some (x :: l) | _, _ => None end
  end.
(** a std::stack after pushing these values in order, top first *)
Definition stack_of_pushes (l : list nat) : list nat := rev l.

Definition fs_pushes_job (b : list fs_stmt) : bool :=
  match b with [FsPushJob FsTaskNumbersAt] => true | _ => false end.
Definition fs_pushes_worker (b : list fs_stmt) : bool :=
  match b with
  | [FsRecordIndex; FsPushWorker FsWorkerPoolAt] | [FsPushWorker FsWorkerPoolAt; FsRecordIndex] => true
  | _ => false
  end.
(** fill_stack_: (JobStack, WorkerStack) *)
Definition fill_stack_by (jpos wpos : nat -> nat -> list nat) (jbody wbody : list fs_stmt) (tasks : list job) (workers : list wid)
  : option (list job * list wid) :=
  if fs_pushes_job jbody && fs_pushes_worker wbody then
    match values_at tasks (jpos (length tasks) (length workers)), values_at workers (wpos (length tasks) (length workers)) with
    | Some js, Some ws => Some (stack_of_pushes js, stack_of_pushes ws)
    | _, _ => None
    end
  else None.

Definition has_init (l : list ctor_init) (i : ctor_init) : bool := existsb (ctor_init_beq i) l.
Definition base_inits_ok (l : list ctor_init) : bool :=
  forallb (has_init l) [InitNtasksFromTasks; InitNprocsFromPool; InitTaskNumbers; InitWorkerPool; InitWaitStatusesNull; InitWorkersFinishFalse]
  && negb (has_init l InitUnrecognised).
(** swap(x) moves every data member but Comm (which both objects initialise from the same communicator) *)
Definition swap_complete (swapped declared : list m_member) : bool :=
  forallb (fun m => m_member_beq m MComm || existsb (m_member_beq m) swapped) declared
  && negb (existsb (m_member_beq MMemberUnrecognised) declared).

(** MPIMaster(comm, task_numbers, include_boss) -> (JobStack, WorkerStack) *)
Definition master_stacks_by (by_tasks base_body : list ctor_stmt) (inits : list ctor_init) (swapped declared : list m_member)
    (fill : list job -> list wid -> option (list job * list wid)) (pool : list wid) (js : list job)
  : option (list job * list wid) :=
  match by_tasks, base_body with
  | [CtBuild PoolAutorange TasksArgument; CtSwap], [CtFillStack] =>
    if base_inits_ok inits && swap_complete swapped declared then fill js pool else None
  | _, _ => None
  end.
Definition master_stacks_src (c : cfg) (js : list job) : option (list job * list wid) :=
  master_stacks_by gen_ctor_by_tasks gen_ctor_base_body gen_ctor_base_inits gen_swap_members gen_master_members
    (fill_stack_by gen_fill_job_positions gen_fill_worker_positions gen_fill_job_body gen_fill_worker_body) (pool_src c) js.

(** MPIWorker::MPIWorker: the initial Status; the wildcard receive is posted *)
Definition status_of_tag (t : d_tag) : option wstat :=
  match t with TagPending => Some Pending | TagFinish => Some Finish | _ => None end.
Definition ctor_posts_wildcard (r : option (d_peer * d_tag * d_payload)) : bool :=
  match r with Some (PeerBoss, TagAny, PayCurrentJob) => true | _ => false end.

(** new master + new workers on a communicator whose MPI state is [ch] (Dispatch.fresh) *)
Definition fresh_by (stacks : option (list job * list wid)) (wstatus : d_tag) (wrecv : option (d_peer * d_tag * d_payload))
    (js : list job) (ch : wid -> list msg) (e : bool) (rd : nat) : option sys :=
  match stacks, status_of_tag wstatus with
  | Some (jst, wstk), Some st0 =>
    if ctor_posts_wildcard wrecv then
      Some (mksys jst wstk (fun _ => false) (fun _ => false) (fun _ => None) js (fun _ => st0) ch (fun _ => false) (fun _ => false) [] e rd)
    else None
  | _, _ => None
  end.
Definition fresh_src (c : cfg) (js : list job) (ch : wid -> list msg) (e : bool) (rd : nat) : option sys :=
  fresh_by (master_stacks_src c js) gen_worker_ctor_status gen_worker_ctor_recv js ch e rd.
Definition init_src (c : cfg) (js : list job) : option sys := fresh_src c js (fun _ => []) false 0.
Definition restart_src (c : cfg) (s : sys) (js : list job) : option sys :=
  fresh_src c js (chan s) (err s || existsb (outst s) (pool_src c)) (S (round s)).

(** * MPIWorker::receive_order *)
(** is the wildcard receive posted after a completion that delivered status [st]?  (re-post, then cancel if finished) *)
Definition ra_posted (fin : d_status_cond) (st : wstat) (a : ro_act) (posted : bool) : option bool :=
  match a with
  | RaStatusFromTag => Some posted
  | RaRepost PeerBoss TagAny PayCurrentJob => Some true
  | RaCancelIfFinished => match status_holds fin st with Some true => Some false | Some false => Some posted | None => None end
  | RaCancelAlways => Some false
  | _ => None
  end.
Definition posted_after (completed : list ro_act) (fin : d_status_cond) (st : wstat) : bool :=
  match run_stmts (ra_posted fin st) completed false with Some b => b | None => false end.
(** the model does not store the bit: Status = Pending is reached from the constructor and from report_job_done after a Work order,
    Status = Work j / Finish right after the completion that delivered it *)
Definition wildcard_posted_by (ctor_recv : option (d_peer * d_tag * d_payload)) (completed : list ro_act) (fin : d_status_cond)
    (s : sys) (w : wid) : bool :=
  match wst s w with
  | Pending => ctor_posts_wildcard ctor_recv && posted_after completed fin (Work 0)
  | st => posted_after completed fin st
  end.
Definition wildcard_posted_src : sys -> wid -> bool :=
  wildcard_posted_by gen_worker_ctor_recv gen_receive_order_completed gen_worker_is_finished.

(** Dispatch.pend_match with the posted bit as a parameter *)
Definition pend_match_by (posted : sys -> wid -> bool) (s : sys) (w : wid) : option (list msg) :=
  if shared w && negb (pend_older s w) && posted s w then
    match chan s w with
    | m :: l => match take_first is_pend l with Some (_, r) => Some (m :: r) | None => None end
    | [] => None
    end
  else match take_first is_pend (chan s w) with Some (_, r) => Some r | None => None end.
Definition pend_match_src : sys -> wid -> option (list msg) := pend_match_by wildcard_posted_src.

(** the statements after a successful test(), which delivered message m *)
Definition ra_exec (w : wid) (m : msg) (a : ro_act) (s : sys) : option sys :=
  match a with
  | RaStatusFromTag => Some (set_wst (upd (wst s) w (status_of m)) s)
  | RaRepost PeerBoss TagAny PayCurrentJob => Some (set_pend_older (upd (pend_older s) w true) s)   (* younger than any active receive of the master *)
  | RaCancelIfFinished | RaCancelAlways => Some s                                               (* see wildcard_posted_by *)
  | _ => None
  end.
Definition ro_exec (completed : list ro_act) (w : wid) (m : msg) (st : ro_stmt) (s : sys) : option sys :=
  match st with
  | RoReturnIf c => match status_holds c (wst s w) with Some false => Some s | _ => None end      (* returning = no receive event *)
  | RoTestThen =>
    match wild_match s w with
    | Some (m', l) => if msg_eqb m m' then run_stmts (ra_exec w m) completed (set_chan (upd (chan s) w l) s) else None
    | None => None
    end
  | RoEarlyExit => None
  end.
Definition receive_order_by (d : list ro_stmt) (completed : list ro_act) (w : wid) (m : msg) (s : sys) : option sys :=
  run_stmts (ro_exec completed w m) d s.
Definition receive_order_src : wid -> msg -> sys -> option sys := receive_order_by gen_receive_order gen_receive_order_completed.

(** * MPIWorker::report_job_done *)
Definition rd_exec (w : wid) (st : rd_stmt) (s : sys) : option sys :=
  match st with
  | RdSend PeerBoss t p => match msg_of t p 0 with Some MPend => Some (send_to w MPend s) | _ => None end
  | RdSetStatus t => match status_of_tag t with Some st' => Some (set_wst (upd (wst s) w st') s) | None => None end
  | _ => None
  end.
Definition report_done_by (d : list rd_stmt) (w : wid) (s : sys) : option sys := run_stmts (rd_exec w) d s.
Definition report_done_src : wid -> sys -> option sys := report_done_by gen_report_done.

(** * MPIMaster::check_workers *)
Definition cw_exec (w : wid) (a : cw_act) (s : sys) : option sys :=
  match a with
  | CwPushIdle PeerPoolAt => Some (set_wstack (w :: wstack s) s)
  | CwSend PeerPoolAt t p => match msg_of t p 0 with Some MFinish => Some (send_to w MFinish s) | _ => None end
  | CwMarkFinishedAt => Some (set_wfin (upd (wfin s) w true) s)
  | _ => None
  end.
(** wait_statuses[i].test() reports the completion (once: Boost 1.83), then THEN *)
Definition see_by (pm : sys -> wid -> option (list msg)) (test : cw_test) (thn : list cw_act) (w : wid) (s : sys) : option sys :=
  match test with
  | CwTestCompletionAt =>
    if outst s w then
      match pm s w with
      | Some l => run_stmts (cw_exec w) thn (set_chan (upd (chan s) w l) (set_outst (upd (outst s) w false) s))
      | None => None
      end
    else None
  | CwTestUnrecognised => None
  end.
(** Dispatch.check_loop with [see] as a parameter *)
Fixpoint check_loop_by (see : wid -> sys -> option sys) (ws : list wid) (seen : list wid) (s : sys) : option sys :=
  match ws with
  | [] => match seen with [] => Some s | _ => None end
  | w :: ws' =>
    match seen with
    | [] => Some s
    | w' :: seen' =>
      if w =? w' then match see w s with Some s' => check_loop_by see ws' seen' s' | None => None end
      else check_loop_by see ws' seen s
    end
  end.
Definition guard_holds (g : cw_guard) (w : wid) (s : sys) : option bool :=
  match g with
  | CwNotYetFinishedAt => Some (negb (wfin s w))
  | CwGuardNone => Some true
  | CwGuardUnrecognised => None
  end.
(** the loop of the Finish block: state and the workers Finish was sent to, in order *)
Fixpoint finish_loop_by (g : cw_guard) (thn : list cw_act) (ws : list wid) (x : sys * list wid) : option (sys * list wid) :=
  match ws with
  | [] => Some x
  | w :: r =>
    match guard_holds g w (fst x) with
    | Some true => match run_stmts (cw_exec w) thn (fst x) with Some s' => finish_loop_by g thn r (s', snd x ++ [w]) | None => None end
    | Some false => finish_loop_by g thn r x
    | None => None
    end
  end.

Record cw_desc : Type := mkCw {
  cwd_shape : list cw_stmt;
  cwd_poll_positions : nat -> list nat;
  cwd_poll_test : cw_test;
  cwd_poll_then : list cw_act;
  cwd_finish_cond : bool -> nat -> nat -> bool;
  cwd_finish_loop : cw_loop;
  cwd_finish_positions : nat -> list nat;
  cwd_finish_guard : cw_guard;
  cwd_finish_then : list cw_act
}.
Definition gen_cw : cw_desc :=
  mkCw gen_cw_shape gen_cw_poll_positions gen_cw_poll_test gen_cw_poll_then gen_cw_finish_cond gen_cw_finish_loop
       gen_cw_finish_positions gen_cw_finish_guard gen_cw_finish_then.

(** one top-level statement of check_workers; [seen] / [fins] are what the event says was reported / sent *)
Definition cw_stmt_exec (d : cw_desc) (pm : sys -> wid -> option (list msg)) (pool : list wid) (seen fins : list wid)
    (st : cw_stmt) (s : sys) : option sys :=
  match st with
  | CwPollLoop =>
    match values_at pool (cwd_poll_positions d (length pool)) with
    | Some ws => check_loop_by (see_by pm (cwd_poll_test d) (cwd_poll_then d)) ws seen s
    | None => None
    end
  | CwFinishBlock =>
    if cwd_finish_cond d (isnil (jobstack s)) (length (wstack s)) (length pool) then
      match cwd_finish_loop d, values_at pool (cwd_finish_positions d (length pool)) with
      | CwOverPositions, Some ws =>
        match finish_loop_by (cwd_finish_guard d) (cwd_finish_then d) ws (s, []) with
        | Some (s', sent) => if list_eqb fins sent then Some s' else None
        | None => None
        end
      | _, _ => None
      end
    else if list_eqb fins [] then Some s else None
  | CwEarlyExit => None
  end.
Definition check_workers_by (d : cw_desc) (pm : sys -> wid -> option (list msg)) (pool : list wid) (seen fins : list wid) (s : sys)
  : option sys := run_stmts (cw_stmt_exec d pm pool seen fins) (cwd_shape d) s.
Definition check_workers_src (c : cfg) : list wid -> list wid -> sys -> option sys :=
  check_workers_by gen_cw pend_match_src (pool_src c).

(** * MPIMaster::is_finished *)
Definition master_finished_by (cnt : mf_count) (cmp : nat -> nat -> bool) (pool : list wid) (s : sys) : bool :=
  match cnt with
  | MfSumOfWorkersFinish => cmp (length (filter (wfin s) pool)) (length pool)
  | MfCountUnrecognised => false
  end.
Definition master_finished_src (c : cfg) (s : sys) : bool :=
  master_finished_by gen_master_finished_count gen_master_finished (pool_src c) s.

(** * The dispatch loop: which calls an iteration makes on which rank *)
(** the loop of the master-only root and of its workers, test/mpi_dispatcher_test_nomaster.cpp:36-53 (hand-written here) *)
Definition noboss_root_body : list sk_loop_stmt := [LbCall GdRoot CallOrder; LbCall GdRoot CallCheckWorkers].
Definition noboss_worker_body : list sk_loop_stmt := [LbCall GdAlways CallReceiveOrder; LbIfWorking [CallRunCurrentJob; CallReportDone]].

Definition root_src : wid := 0.        (* ROOT; the translator refuses another value, Gen_SplitColors.gen_skel_root has it as a number *)
Definition include_boss_of (m : sk_master) : option bool := match m with SmTaskList b => Some b | SmMasterUnrecognised => None end.

Definition loop_body_by (skel : list sk_loop_stmt) (c : cfg) (r : wid) : list sk_loop_stmt :=
  if ib c then skel else if r =? root_src then noboss_root_body else noboss_worker_body.
Definition guard_on (g : sk_guard) (r : wid) : bool :=
  match g with GdAlways => true | GdRoot => r =? root_src | GdUnrecognised => false end.
Definition stmt_calls (r : wid) (k : sk_call) (st : sk_loop_stmt) : bool :=
  match st with LbCall g k' => sk_call_beq k k' && guard_on g r | _ => false end.
Definition has_early_exit (b : list sk_loop_stmt) : bool :=
  existsb (fun st => match st with LbEarlyExit => true | LbCall GdUnrecognised _ => true | LbCall _ CallUnrecognised => true | _ => false end) b.
(** rank r's iteration contains the unguarded / root-guarded call k *)
Definition rank_calls (skel : list sk_loop_stmt) (c : cfg) (r : wid) (k : sk_call) : bool :=
  negb (has_early_exit (loop_body_by skel c r)) && existsb (stmt_calls r k) (loop_body_by skel c r).
(** the calls under `if (worker.is_working())` *)
Fixpoint working_calls (b : list sk_loop_stmt) : option (list sk_call) :=
  match b with
  | [] => None
  | LbIfWorking cs :: _ => Some cs
  | _ :: r => working_calls r
  end.

(** the current job of a worker whose Status is Work: the payload of the order *)
Definition current_job (st : wstat) : option job := match st with Work j => Some j | _ => None end.
Definition wc_exec (rd : wid -> sys -> option sys) (w : wid) (j : job) (k : sk_call) (s : sys) : option sys :=
  match k with
  | CallRunCurrentJob => Some (set_log ((j, w) :: log s) s)         (* parts[p].run() *)
  | CallReportDone => rd w s
  | _ => None
  end.

(** the rank runs an MPIWorker in its loop *)
Definition is_worker_by (skel : list sk_loop_stmt) (c : cfg) (r : wid) : bool := (r <? np c) && rank_calls skel c r CallReceiveOrder.

(** the loop condition of rank r is false *)
Definition loop_done_by (skel : list sk_loop_stmt) (lc : sk_loop_cond) (fin : d_status_cond) (mfin : cfg -> sys -> bool)
    (c : cfg) (s : sys) (r : wid) : bool :=
  if is_worker_by skel c r then
    match lc with
    | LcUntilWorkerFinished => match status_holds fin (wst s r) with Some b => b | None => false end
    | LcCondUnrecognised => false
    end
  else mfin c s.

(** * mpi_skel::run as a whole: rounds are separated, the loop is the loop *)
Definition is_barrier (st : sk_stmt) : bool := match st with SkBarrier BarComm => true | _ => false end.
Fixpoint split_at_loop (l : list sk_stmt) : option (list sk_stmt * list sk_stmt) :=
  match l with
  | [] => None
  | SkDispatchLoop :: r => Some ([], r)
  | st :: r => match split_at_loop r with Some (a, b) => Some (st :: a, b) | None => None end
  end.
Definition barriers_before (l : list sk_stmt) : nat := match split_at_loop l with Some (a, _) => length (filter is_barrier a) | None => 0 end.
Definition barriers_after (l : list sk_stmt) : nat := match split_at_loop l with Some (_, b) => length (filter is_barrier b) | None => 0 end.
Definition sk_stmt_known (st : sk_stmt) : bool :=
  match st with SkBarrier BarComm | SkBuildMasterOnRoot | SkDispatchLoop | SkMapExchange | SkReturnMap => true | _ => false end.
(** Between a rank leaving the loop of round k and the first message of round k+1 (sent by the root inside its loop, after it
    built the next master) every rank passes a barrier on the communicator of the round.  Required here: at least one barrier
    after the loop (no rank is past it while another is still in the loop: the master lives until all have left, the map is
    exchanged afterwards) and at least one between the entry of the call and the loop, the master being built before the loop;
    every statement is one the interpreter knows (in particular the loop is not under an `if`, there is no early return, and
    every barrier is on the communicator of the round). *)
Definition rounds_separated_by (l : list sk_stmt) : bool :=
  forallb sk_stmt_known l && (1 <=? barriers_before l) && (1 <=? barriers_after l)
  && match split_at_loop l with Some (a, b) => existsb (fun st => match st with SkBuildMasterOnRoot => true | _ => false end) a | None => false end.
Definition rounds_separated_src : bool := rounds_separated_by gen_skel_run.

(** * The step function *)
Record loop_desc : Type := mkLoop {
  ld_body : list sk_loop_stmt;
  ld_cond : sk_loop_cond;
  ld_separated : bool
}.
Definition gen_loop : loop_desc := mkLoop gen_skel_loop_body gen_skel_loop_cond rounds_separated_src.

Definition step_by (ld : loop_desc)
    (order : sys -> option (sys * list (job * wid)))
    (check : cfg -> list wid -> list wid -> sys -> option sys)
    (recv : wid -> msg -> sys -> option sys)
    (report : wid -> sys -> option sys)
    (working finished : d_status_cond)
    (mfin : cfg -> sys -> bool)
    (restart : cfg -> sys -> list job -> option sys)
    (c : cfg) (s : sys) (e : event) : option sys :=
  match e with
  | EOrder l =>
    if rank_calls (ld_body ld) c root_src CallOrder && negb (exited s root_src) then
      match l with
      | [] => None
      | _ => match order s with Some (s', ps) => if pairs_eqb l ps then Some s' else None | None => None end
      end
    else None
  | ECheck seen fins =>
    if rank_calls (ld_body ld) c root_src CallCheckWorkers && negb (exited s root_src) then
      if match seen, fins with [], [] => true | _, _ => false end then None else check c seen fins s
    else None
  | ERecv w m =>
    if is_worker_by (ld_body ld) c w && negb (exited s w) then recv w m s else None
  | ERun w j =>
    if is_worker_by (ld_body ld) c w && negb (exited s w) then
      match status_holds working (wst s w), current_job (wst s w), working_calls (loop_body_by (ld_body ld) c w) with
      | Some true, Some j', Some cs => if j =? j' then run_stmts (wc_exec report w j) cs s else None
      | _, _, _ => None
      end
    else None
  | EExit r =>
    if (r <? np c) && negb (exited s r) && loop_done_by (ld_body ld) (ld_cond ld) finished mfin c s r then Some (do_exit r s) else None
  | EIdle r =>
    if (r <? np c) && negb (exited s r) then Some s else None
  | ENewRound js =>
    if ld_separated ld && forallb (exited s) (ranks c) && nodupb js then restart c s js else None
  end.

Definition step_src : cfg -> sys -> event -> option sys :=
  step_by gen_loop order_src check_workers_src receive_order_src report_done_src gen_worker_is_working gen_worker_is_finished
          master_finished_src restart_src.

Definition enabled_src (c : cfg) (s : sys) (e : event) : bool := match step_src c s e with Some _ => true | None => false end.

Fixpoint run_src (c : cfg) (s : sys) (t : list event) : option sys :=
  match t with
  | [] => Some s
  | e :: t' => match step_src c s e with Some s' => run_src c s' t' | None => None end
  end.

(** reachable from the initial state of a first round the constructors build, by any sequence of events *)
Definition reachable_src (c : cfg) (s : sys) : Prop :=
  exists js t s0, NoDup js /\ init_src c js = Some s0 /\ run_src c s0 t = Some s.

(** the configuration of mpi_skel::run on a communicator of P ranks *)
Definition skel_cfg_by (m : sk_master) (P : nat) : option cfg := match include_boss_of m with Some b => Some (mkcfg P b) | None => None end.
Definition skel_cfg_src : nat -> option cfg := skel_cfg_by gen_skel_master.

(** * The job order mpi_skel::run hands to the master: ids sorted with the generated comparison (insertion sort as ONE
      admissible result of std::sort) *)
Fixpoint insert_by (before : nat -> nat -> bool) (x : nat) (l : list nat) : list nat :=
  match l with
  | [] => [x]
  | y :: r => if before x y then x :: y :: r else y :: insert_by before x r
  end.
Definition sort_by (before : nat -> nat -> bool) (l : list nat) : list nat := fold_right (insert_by before) [] l.
Definition job_order_by (ids : nat -> list nat) (before : nat -> nat -> bool) (sorted : bool) (cx : list nat) : list job :=
  if sorted then sort_by (fun l r => before (nth l cx 0) (nth r cx 0)) (ids (length cx)) else ids (length cx).
Definition job_order_src : list nat -> list job := job_order_by gen_skel_job_ids gen_skel_job_before gen_skel_jobs_sorted.

(** * The exchange of the job map after the loop
    [keys]: the keys of DispatchMap in the order std::map iterates; [tasks]: task_numbers; [dm]: DispatchMap. *)
Definition vec_by (f : sk_vec_fill) (keys tasks : list job) (dm : job -> option wid) : option (list nat) :=
  match f with
  | VfKeysInMapOrder => Some keys
  | VfValuesInMapOrder => Some (map (fun j => match dm j with Some w => w | None => 0 end) keys)
  | VfTaskNumbers => Some tasks
  | VfUnrecognised => None
  end.
Record xroot : Type := mkXroot { xr_copied : bool; xr_jobs : option (list nat); xr_workers : option (list nat); xr_sent : list (sk_vec * list nat) }.
Definition root_exec (keys tasks : list job) (dm : job -> option wid) (st : sk_map_stmt) (x : xroot) : option xroot :=
  match st with
  | MsCopyMap MapFromDispatchMap => Some (mkXroot true (xr_jobs x) (xr_workers x) (xr_sent x))
  | MsFill v f =>
    if xr_copied x then
      match vec_by f keys tasks dm, v with
      | Some l, VecJobs => Some (mkXroot true (Some l) (xr_workers x) (xr_sent x))
      | Some l, VecWorkers => Some (mkXroot true (xr_jobs x) (Some l) (xr_sent x))
      | None, _ => None
      end
    else None
  | MsBcast v RkRoot =>
    match (match v with VecJobs => xr_jobs x | VecWorkers => xr_workers x end) with
    | Some l => Some (mkXroot (xr_copied x) (xr_jobs x) (xr_workers x) (xr_sent x ++ [(v, l)]))
    | None => None
    end
  | _ => None
  end.
Record xother : Type := mkXother { xo_jobs : option (list nat); xo_workers : option (list nat); xo_incoming : list (sk_vec * list nat);
                                  xo_map : option (job -> option wid) }.
Definition vec_eqb (a b : sk_vec) : bool := match a, b with VecJobs, VecJobs | VecWorkers, VecWorkers => true | _, _ => false end.
Definition rebuild (jobs workers : list nat) : job -> option wid :=
  fold_left (fun m jw => upd m (fst jw) (Some (snd jw))) (combine jobs workers) (fun _ => None).
Definition other_exec (st : sk_map_stmt) (x : xother) : option xother :=
  match st with
  | MsBcast v RkRoot =>
    match xo_incoming x with
    | (v', l) :: rest =>
      if vec_eqb v v' then
        match v with
        | VecJobs => Some (mkXother (Some l) (xo_workers x) rest (xo_map x))
        | VecWorkers => Some (mkXother (xo_jobs x) (Some l) rest (xo_map x))
        end
      else None                                     (* the two sides are in different collectives *)
    | [] => None
    end
  | MsRebuildPairwise =>
    match xo_jobs x, xo_workers x with
    | Some js, Some ws => Some (mkXother (xo_jobs x) (xo_workers x) (xo_incoming x) (Some (rebuild js ws)))
    | _, _ => None
    end
  | _ => None
  end.
(** the map a non-root rank returns *)
Definition map_exchange_by (rootd otherd : list sk_map_stmt) (keys tasks : list job) (dm : job -> option wid) : option (job -> option wid) :=
  match run_stmts (root_exec keys tasks dm) rootd (mkXroot false None None []) with
  | Some xr =>
    match run_stmts other_exec otherd (mkXother None None (xr_sent xr) None) with
    | Some xo => match xo_incoming xo with [] => xo_map xo | _ => None end
    | None => None
    end
  | None => None
  end.
Definition map_exchange_src : list job -> list job -> (job -> option wid) -> option (job -> option wid) :=
  map_exchange_by gen_skel_map_root gen_skel_map_other.
