(** ThermalSpec.v -- specification side of C09 / C19 over Coq's real numbers:
    the instance of the model PV.Thermal at R, finite sums, and the FULL-Fock-space definition of the
    density matrix and of Tr(rho O) that the block-wise averages of pomerol are compared with
    (the counterpart over R of EDSpec.weights / trace_rho / avg_energy, which the float oracle evaluates). *)
Require Import Reals Bool List Arith Lra.
From PV Require Import Outcome Thermal.
Import ListNotations.
Local Open Scope R_scope.

(** * The model at R *)
Definition Rltb (a b : R) : bool := if Rlt_dec a b then true else false.

Notation Rhpart := (hpart R).
Notation Rdmpart := (dmpart R).
Notation Roppart := (oppart R).
Definition Rmin_coeff := min_coeff R Rltb.
Definition Rground_energy := ground_energy R Rltb.
Definition Runnormalized_weight := unnormalized_weight R Rminus Rmult Ropp exp.
Definition Rcompute_unnormalized := compute_unnormalized R 0 Rplus Rminus Rmult Ropp exp.
Definition Rnormalize := normalize R Rdiv.
Definition Rdm_unnormalized := dm_unnormalized R 0 Rplus Rminus Rmult Ropp exp.
Definition Rdm_Z := dm_Z R 0 Rplus.
Definition Rdm_compute := dm_compute R 0 Rplus Rminus Rmult Rdiv Ropp exp Rltb.
Definition Rtruncate := truncate R Rltb.
Definition Rdm_truncate := dm_truncate R Rltb.
Definition Ris_retained := is_retained R.
Definition Rdm_average_energy := dm_average_energy R 0 Rplus Rmult.
Definition Rdm_average_occupancy := dm_average_occupancy R 0 Rplus Rmult Rabs INR.
Definition Rdm_average_occupancy_i := dm_average_occupancy_i R 0 Rplus Rmult Rabs INR.
Definition Rdm_average_double_occupancy := dm_average_double_occupancy R 0 Rplus Rmult Rabs INR.
Definition Rdm_get_weight := dm_get_weight R.
Definition Rham_get_eigenvalue := ham_get_eigenvalue R.
Definition Rea_compute := ea_compute R 0 Rplus Rmult.
Definition Rea_prepare := ea_prepare R 0 Rplus Rmult.

(** * Finite sums over lists *)
Fixpoint lsum {A : Type} (f : A -> R) (l : list A) : R :=
  match l with
  | [] => 0
  | a :: t => f a + lsum f t
  end.

(** [(i, x_i)] for the elements of a list *)
Definition enum {A : Type} (l : list A) : list (nat * A) := combine (seq 0 (length l)) l.

(** * Addressing weights and energies: state s of block a *)
Definition dummy_hp : Rhpart := mk_hpart R [] [] [].
Definition dummy_dp : Rdmpart := mk_dmpart R [] 0 true.
Definition weight_at (D : list Rdmpart) (a s : nat) : R := nth s (dp_weights R (nth a D dummy_dp)) 0.
Definition energy_at (H : list Rhpart) (a s : nat) : R := nth s (hp_eig R (nth a H dummy_hp)) 0.
(** (a, s) names an eigenstate *)
Definition valid_state (H : list Rhpart) (a s : nat) : Prop :=
  (a < length H)%nat /\ (s < length (hp_eig R (nth a H dummy_hp)))%nat.
Definition total_weight (D : list Rdmpart) : R := lsum (fun dp => lsum (fun w => w) (dp_weights R dp)) D.
Definition total_states (H : list Rhpart) : nat := fold_right (fun hp n => (hp_size R hp + n)%nat) 0%nat H.

(** every eigenvalue shifted by the same constant *)
Definition shift_hpart (c : R) (hp : Rhpart) : Rhpart :=
  mk_hpart R (hp_states R hp) (map (fun e => e + c) (hp_eig R hp)) (hp_vec R hp).

(** * Well-formed block data *)
(** vectors of one block have the size of the block; the states of a block are distinct *)
Definition wf_hpart (hp : Rhpart) : Prop :=
  length (hp_states R hp) = length (hp_eig R hp) /\
  length (hp_vec R hp) = length (hp_eig R hp) /\
  (forall row, In row (hp_vec R hp) -> length row = length (hp_eig R hp)) /\
  NoDup (hp_states R hp).

(** * The density matrix on the full Fock space *)
Section FullSpace.
Variable fock : list nat.          (* all Fock states (labels), e.g. seq 0 (2^M) *)
Variable H : list Rhpart.
Variable D : list Rdmpart.

(** Component on the Fock state f of the eigenvector s of a block: the block's eigenvector padded with
    zeros outside the block (this is how driver_ed assembles the global matrix U). *)
Definition comp (hp : Rhpart) (s f : nat) : R :=
  match index_of f (hp_states R hp) with
  | Some fi => nth s (nth fi (hp_vec R hp) []) 0
  | None => 0
  end.

(** sum over all eigenstates |n> = |block, s> with their weights:  Sum_n w_n F(n) *)
Definition sum_states (F : Rhpart -> nat -> R) : R :=
  lsum (fun hd => lsum (fun sw => snd sw * F (fst hd) (fst sw)) (enum (dp_weights R (snd hd)))) (combine H D).

(** rho = Sum_n w_n |n><n| in the Fock basis *)
Definition rho (f g : nat) : R := sum_states (fun hp s => comp hp s f * comp hp s g).

(** Tr(rho O) for an operator given by its matrix O f g = <f|O|g> in the Fock basis *)
Definition trace_rho_op (O : nat -> nat -> R) : R :=
  lsum (fun f => lsum (fun g => rho f g * O g f) fock) fock.

(** <n|O|n> *)
Definition expect (O : nat -> nat -> R) (hp : Rhpart) (s : nat) : R :=
  lsum (fun f => lsum (fun g => comp hp s f * O f g * comp hp s g) fock) fock.

(** The operators of C09 in the Fock basis *)
Definition b2r (b : bool) : R := if b then 1 else 0.
Definition diag_op (d : nat -> R) (f g : nat) : R := if Nat.eqb f g then d f else 0.
Definition op_n (i : nat) := diag_op (fun f => b2r (Nat.testbit f i)).                    (* n_i *)
Definition op_N (M : nat) := diag_op (fun f => INR (popcount M f)).                       (* N = Sum_i n_i *)
Definition op_nn (i j : nat) := diag_op (fun f => b2r (Nat.testbit f i) * b2r (Nat.testbit f j)). (* n_i n_j *)

End FullSpace.
