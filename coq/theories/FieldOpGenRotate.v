(** FieldOpGenRotate.v -- C10, end to end for the loops as the source text has them: the dense matrix computed by the generated two-loop
    structure of FieldOperatorPart::compute (PV.FieldOpGen.fop_dense_src) is the rotation  U_to^+ (Jordan-Wigner block) U_from.
    RotateBridge.fop_dense_is_rotated_jw transported along FieldOpGenProofs.fop_dense_src_is_model; ssreflect / mathcomp style. *)
From mathcomp Require Import all_ssreflect all_algebra.
From PV Require Import Outcome Fock Poly PolySem EDSpec HPart HPartSpec HPartProofs Rotate RotateBridge FieldOpGen FieldOpGenProofs.
Import GRing.Theory.
Local Open Scope ring_scope.

Theorem rotation_formula_model_src :
  forall (F : fieldType) (conj : {rmorphism F -> F}) (fb : bool) (S : classification) (o : fop) (from to : nat)
         (fromStates toStates : list nat) (Hfrom Hto : mat F),
  wf_class S -> mono_in_range (sc_M S) (fop_mono o) ->
  List.nth_error (sc_states S) from = Some fromStates -> List.nth_error (sc_states S) to = Some toStates ->
  square F (length fromStates) Hfrom -> square F (length toStates) Hto ->
  (forall Kst L sg, List.In Kst fromStates -> tgt_of F (Fops conj) (sc_M S) o Kst = Some (L, sg) -> List.In L toStates) ->
  exists D : mat F,
    fop_dense_src fb F (Fops conj) 0 S o from to Hfrom Hto = Done D /\
    (\matrix_(n < length toStates, m < length fromStates) mget F (Fops conj) D n m) =
    adj conj (Uto conj toStates Hto) *m JWblock conj S o fromStates toStates *m Ufrom conj fromStates Hfrom.
Proof.
move=> F conj fb S o from to fromStates toStates Hfrom Hto.
rewrite fop_dense_src_is_model. exact: fop_dense_is_rotated_jw.
Qed.
