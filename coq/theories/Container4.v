(** Executable model of IndexContainer4<TwoParticleGF,TwoParticleGFContainer> (include/pomerol/IndexContainer4.h)
    together with TwoParticleGFContainer (src/pomerol/TwoParticleGFContainer.cpp) and the status logic of
    TwoParticleGF (src/pomerol/TwoParticleGF.cpp, include/pomerol/TwoParticleGF.h), on one MPI rank.

    The permutation table, the alias table of [set], the frequency array and argument slots of
    ElementWithPermFreq::operator() come from the translator (PVgen.Gen_Container4).  Everything with control
    flow is modelled here by hand, line references are to the C++ sources.

    Values are symbolic: an evaluation yields (sign, quadruple of the element, frequency triple passed to the
    element), so that it can be compared with the real code and interpreted in an abstract chi.

    [fixed] selects between the code as read on 2026-09-26 ([fixed = false]: IndexContainer4::fill clears
    ElementsMap only) and the minimally repaired code ([fixed = true]: fill also clears NonTrivialElements).
    Which of the two the library currently is, is decided by the correspondence check (checks/C13.py). *)
Require Import ZArith Bool List Arith.
Import ListNotations.
From PVgen Require Import Gen_Container4.
Local Open Scope Z_scope.

(** * Keys: IndexCombination4 (include/pomerol/Index.h:102) *)

Definition quad := (nat * nat * nat * nat)%type.
Definition triple := (Z * Z * Z)%type.

(* IndexCombination4::operator==, src/pomerol/Index.cpp:111-114 *)
Definition quad_eqb (a b : quad) : bool :=
  let '(a1, a2, a3, a4) := a in
  let '(b1, b2, b3, b4) := b in
  Nat.eqb a1 b1 && Nat.eqb a2 b2 && Nat.eqb a3 b3 && Nat.eqb a4 b4.

(* IndexCombination4::operator<, src/pomerol/Index.cpp:103-109: lexicographic *)
Definition quad_ltb (a b : quad) : bool :=
  let '(a1, a2, a3, a4) := a in
  let '(b1, b2, b3, b4) := b in
  Nat.ltb a1 b1 ||
  (Nat.eqb a1 b1 && Nat.ltb a2 b2) ||
  (Nat.eqb a1 b1 && Nat.eqb a2 b2 && Nat.ltb a3 b3) ||
  (Nat.eqb a1 b1 && Nat.eqb a2 b2 && Nat.eqb a3 b3 && Nat.ltb a4 b4).

(** * std::map<IndexCombination4, A> as an association list kept in key order *)

Definition qmap (A : Type) := list (quad * A).

Fixpoint qfind {A : Type} (k : quad) (m : qmap A) : option A :=
  match m with
  | [] => None
  | (k', v) :: r => if quad_eqb k k' then Some v else qfind k r
  end.

(* position of a new key: behind every smaller key *)
Fixpoint qins {A : Type} (k : quad) (v : A) (m : qmap A) : qmap A :=
  match m with
  | [] => [(k, v)]
  | (k', v') :: r => if quad_ltb k' k then (k', v') :: qins k v r else (k, v) :: m
  end.

(* std::map::insert(pair): no effect when the key is already present *)
Definition qinsert {A : Type} (k : quad) (v : A) (m : qmap A) : qmap A :=
  match qfind k m with
  | Some _ => m
  | None => qins k v m
  end.

Definition qkeys {A : Type} (m : qmap A) : list quad := map fst m.

(* std::set<IndexCombination4> built from a sequence of insertions: sorted, without repetitions *)
Definition qset_of_list (l : list quad) : list quad :=
  qkeys (fold_left (fun acc q => qinsert q tt acc) l []).

(** * Elements: TwoParticleGF objects, identified by creation order *)

(* ComputableObject::{Constructed, Prepared, Computed}, include/pomerol/ComputableObject.h:17 *)
Inductive status := Constructed | Prepared | Computed.

Definition perm4 := ((nat * nat * nat * nat) * Z)%type.   (* Permutation4: perm[4], sign (Misc.h:161) *)

Definition estore := list (quad * status).                (* element id = position *)

Fixpoint upd {A : Type} (i : nat) (x : A) (l : list A) : list A :=
  match l, i with
  | [], _ => []
  | _ :: r, O => x :: r
  | y :: r, S j => y :: upd j x r
  end.

Record cstate := mkState {
  emap : qmap (nat * perm4);     (* ElementsMap: key -> (pElement, FrequenciesPermutation)   IndexContainer4.h:61 *)
  nontriv : qmap nat;            (* NonTrivialElements: key -> pElement                      IndexContainer4.h:62 *)
  elems : estore                 (* every TwoParticleGF created so far: (its indices, Status) *)
}.

Definition init : cstate := mkState [] [] [].

Inductive exn :=
| StatusMismatch      (* ComputableObject::exStatusMismatch  "Object status mismatch"  (TwoParticleGF.cpp:159) *)
| UncomputedPart      (* std::logic_error "2PGFPart : Calling operator() on uncomputed container..." (TwoParticleGFPart.cpp:240) *)
| Dangling.           (* a map entry refers to an element that was never created: impossible, excluded by theorem *)

Inductive cout :=
| OUnit
| OThrows (e : exn)
| OVal (sign : Z) (q0 : quad) (t : triple)   (* sign * (element for q0)(t) *)
| OZero (sign : Z).                          (* sign * 0.0 of an element that was never prepared (Vanishing is still true) *)

Inductive cop :=
| Fill (qs : list quad)                 (* container.fill(qs);  qs = [] means "all combinations" *)
| PrepareAll (qs : list quad)           (* container.prepareAll(qs) *)
| ComputeAll (split : bool)             (* container.computeAll(false, freqs, comm, split) *)
| Lookup (q : quad)                     (* container(q) *)
| PrepareElem (q : quad)                (* static_cast<TwoParticleGF&>(container(q)).prepare() *)
| ComputeElem (q : quad)                (* static_cast<TwoParticleGF&>(container(q)).compute(false, freqs, comm) *)
| Eval (q : quad) (n : triple).         (* container(q)(n1,n2,n3) *)

(** * Generated tables in use *)

Definition bad_perm : perm4 := ((0, 0, 0, 0)%nat, 0).    (* read past the table: no theorem accepts it *)
Definition perm_at (k : nat) : perm4 := nth k permutations4 bad_perm.

Definition sel (q : quad) (k : nat) : nat :=
  let '(q1, q2, q3, q4) := q in
  match k with O => q1 | 1%nat => q2 | 2%nat => q3 | _ => q4 end.

Definition pnth (p : perm4) (k : nat) : nat := sel (fst p) k.

Definition alias_key (q : quad) (pos : nat * nat * nat * nat) : quad :=
  let '(p1, p2, p3, p4) := pos in (sel q p1, sel q p2, sel q p3, sel q p4).

Definition alias_cond (q : quad) (req : list (nat * nat)) : bool :=
  forallb (fun ab => negb (Nat.eqb (sel q (fst ab)) (sel q (snd ab)))) req.

(* ElementWithPermFreq::operator(), IndexContainer4.h:87-96: numbers {n1,n2,n3,n1+n2-n3} selected by perm[0..2],
   result multiplied by the sign *)
Definition perm_eval (p : perm4) (n : triple) : Z * triple :=
  let '(n1, n2, n3) := n in
  let M := freq_array n1 n2 n3 in
  let arg (k : nat) := nth (pnth p (nth k eval_arg_slots 0%nat)) M 0 in
  ((if eval_multiplies_sign then snd p else 1), (arg 0%nat, arg 1%nat, arg 2%nat)).

(** * IndexContainer4 *)

Definition isInContainer (st : cstate) (q : quad) : bool :=     (* IndexContainer4.h:115-118 *)
  match qfind q (emap st) with Some _ => true | None => false end.

(* one alias block of set, IndexContainer4.h:174-186 / 187-199 / 200-212 *)
Definition add_alias (q : quad) (e : nat) (em : qmap (nat * perm4))
           (a : list (nat * nat) * (nat * nat * nat * nat) * nat) : qmap (nat * perm4) :=
  let '(req, pos, k) := a in
  if alias_cond q req then
    let q' := alias_key q pos in
    match qfind q' em with
    | Some _ => em                                   (* if(!isInContainer(q')) *)
    | None => qinsert q' (e, perm_at k) em
    end
  else em.

(* IndexContainer4::set, IndexContainer4.h:155-215 *)
Definition set_ (st : cstate) (q : quad) : cstate * (nat * perm4) :=
  let e := length (elems st) in                                         (* :158 createElement -> new TwoParticleGF (Constructed) *)
  let el := elems st ++ [(q, Constructed)] in
  let owner := (e, perm_at set_owner_perm_index) in
  let em0 := qinsert q owner (emap st) in                               (* :159-162 ElementsMap.insert(...) *)
  let ret := match qfind q em0 with Some r => r | None => owner end in  (* .first: the entry now stored under q *)
  let nt := if set_inserts_nontrivial then qinsert q e (nontriv st)     (* :172 NonTrivialElements.insert(...) *)
            else nontriv st in
  let em := fold_left (add_alias q e) set_aliases em0 in                (* :174-212 *)
  (mkState em nt el, ret).                                              (* :214 *)

(* IndexContainer4::operator()(Indices), IndexContainer4.h:219-236: a cache miss adds a new element *)
Definition lookup (st : cstate) (q : quad) : cstate * (nat * perm4) :=
  match qfind q (emap st) with
  | None => set_ st q
  | Some r => (st, r)
  end.

(* IndexContainer4::enumerateInitialIndices, IndexContainer4.h:248-260 *)
Definition enumerate (nidx : nat) : list quad :=
  qset_of_list
    (flat_map (fun i1 =>
       flat_map (fun i2 =>
         flat_map (fun i3 =>
           map (fun i4 => (i1, i2, i3, i4)) (seq i3 (nidx - i3)))
           (seq 0 nidx))
         (seq i1 (nidx - i1)))
       (seq 0 nidx)).

(* IndexContainer4::fill, IndexContainer4.h:130-151 *)
Definition fill (fixed : bool) (nidx : nat) (st : cstate) (qs : list quad) : cstate :=
  let st0 := mkState []                                            (* :138 ElementsMap.clear() *)
                     (if fixed then [] else nontriv st)            (* repaired code only: NonTrivialElements.clear() *)
                     (elems st) in
  let II := match qs with
            | [] => enumerate nidx                                 (* :141-142 *)
            | _ => qset_of_list qs                                 (* :144 (a std::set: sorted, no repetitions) *)
            end in
  fold_left (fun st q => if isInContainer st q then st else fst (set_ st q)) II st0.   (* :146-150 *)

(** * TwoParticleGF status logic *)

(* TwoParticleGF::prepare, TwoParticleGF.cpp:62-117: no-op when Status >= Prepared; never throws *)
Definition prepare_elem (e : nat) (el : estore) : estore * cout :=
  match nth_error el e with
  | None => (el, OThrows Dangling)
  | Some (q, Constructed) => (upd e (q, Prepared) el, OUnit)
  | Some (q, _) => (el, OUnit)
  end.

(* TwoParticleGF::compute, TwoParticleGF.cpp:156-193 with clear = false *)
Definition compute_elem (e : nat) (el : estore) : estore * cout :=
  match nth_error el e with
  | None => (el, OThrows Dangling)
  | Some (q, Constructed) => (el, OThrows StatusMismatch)          (* :159 *)
  | Some (q, Prepared) => (upd e (q, Computed) el, OUnit)          (* :191 *)
  | Some (q, Computed) => (el, OUnit)                              (* :160 *)
  end.

(* a loop over elements that stops at the first exception *)
Fixpoint run_seq (f : nat -> estore -> estore * cout) (ids : list nat) (el : estore) : estore * cout :=
  match ids with
  | [] => (el, OUnit)
  | e :: r =>
    let '(el', o) := f e el in
    match o with
    | OUnit => run_seq f r el'
    | _ => (el', o)
    end
  end.

(* TwoParticleGF::operator()(long,long,long), TwoParticleGF.h:176-196, behind ElementWithPermFreq::operator():
   Vanishing is true until prepare() finds a part; a non-vanishing element sums its parts, each of which throws
   unless it is Computed (TwoParticleGFPart.cpp:240).  [van q0] = "prepare() finds no part for q0" (model data). *)
Definition eval_elem (van : quad -> bool) (el : estore) (r : nat * perm4) (n : triple) : cout :=
  let '(e, p) := r in
  let '(s, t) := perm_eval p n in
  match nth_error el e with
  | None => OThrows Dangling
  | Some (q0, Constructed) => OZero s
  | Some (q0, Prepared) => if van q0 then OVal s q0 t else OThrows UncomputedPart
  | Some (q0, Computed) => OVal s q0 t
  end.

(** * TwoParticleGFContainer *)

Definition emap_ids (st : cstate) : list nat := map (fun kv => fst (snd kv)) (emap st).
Definition nontriv_ids (st : cstate) : list nat := map snd (nontriv st).

Definition with_elems (st : cstate) (el : estore) : cstate := mkState (emap st) (nontriv st) el.

(* TwoParticleGFContainer::prepareAll, TwoParticleGFContainer.cpp:37-47: fill, then prepare() through every
   entry of ElementsMap (aliases included) *)
Definition prepare_all (fixed : bool) (nidx : nat) (st : cstate) (qs : list quad) : cstate * cout :=
  let st1 := fill fixed nidx st qs in
  let '(el, o) := run_seq prepare_elem (emap_ids st1) (elems st1) in
  (with_elems st1 el, o).

(* computeAll_nosplit (TwoParticleGFContainer.cpp:57-66): compute() through every entry of ElementsMap;
   computeAll_split (:68-132) on one rank: compute() on every entry of NonTrivialElements (:100-106), the
   distribution loop (:111-128) changes no status on the sending rank.  An exception leaves the loop. *)
Definition compute_all (st : cstate) (split : bool) : cstate * cout :=
  let ids := if split then nontriv_ids st else emap_ids st in
  let '(el, o) := run_seq compute_elem ids (elems st) in
  (with_elems st el, o).

Definition cstep (fixed : bool) (van : quad -> bool) (nidx : nat) (st : cstate) (op : cop) : cstate * cout :=
  match op with
  | Fill qs => (fill fixed nidx st qs, OUnit)
  | PrepareAll qs => prepare_all fixed nidx st qs
  | ComputeAll split => compute_all st split
  | Lookup q => (fst (lookup st q), OUnit)
  | PrepareElem q =>
    let '(st1, r) := lookup st q in
    let '(el, o) := prepare_elem (fst r) (elems st1) in (with_elems st1 el, o)
  | ComputeElem q =>
    let '(st1, r) := lookup st q in
    let '(el, o) := compute_elem (fst r) (elems st1) in (with_elems st1 el, o)
  | Eval q n =>
    let '(st1, r) := lookup st q in
    (st1, eval_elem van (elems st1) r n)
  end.

(** The variant the translator reads off the current source text (informative; the check compares the library with
    both variants). *)
Definition source_says_fixed : bool := fill_clears_nontrivial.
