(** Proofs about [PV.TermList] (add_term = the retry loop of TermList.h):
    0. for ANY comparator: a refused insert() leaves the set as  b ++ blocker :: a;  the bound of the model's
       for(;;) (the number of stored terms) is never exhausted ([add_term_fuel_suffices]);
    A. the error identity of add_term / add_terms over any commutative ring of values
       (what the evaluated sum gains or loses per event, for merge chains of any length);
    B. under "compare is a strict partial order" (irreflexive, transitive -- true of
       [p2 - p1 >= tol] with tol > 0): the invariant [sorted_sep] is preserved, the chain of merges has at most ONE
       step (the reduced term keeps the pole of the erased one and fits where that one was), no term is lost
       other than by the negligibility test;  hence [termlist_eval_preserved];
       under "compare is total" (tol = 0, the exact form): nothing is ever merged or dropped;
    C. the justification of the list model: a search-tree descent by a predicate that is monotone
       along the in-order sequence ends where the linear scan ends (find: [tree_find_is_list_find];
       insert, its verdict and the blocking element it points to: [tree_insert_is_list_insert]);
    D. the instance over the real numbers. *)
Require Import Bool List Arith Lia Ring Ring_theory.
From PV Require Import TermList.
Import ListNotations.

(** * 0. any comparator *)
Section Basic.
Variables P C : Type.
Variable comp : P -> P -> bool.
Variable negl : C -> nat -> bool.
Variable cadd : C -> C -> C.
Notation scan := (scan P C).

Lemma scan_app_eq pred (l : list (term P C)) : fst (scan pred l) ++ snd (scan pred l) = l.
Proof.
  induction l as [|x l IH]; [reflexivity|]. cbn [TermList.scan].
  destruct (pred x); cbn [fst snd app]; [reflexivity|]. rewrite IH. reflexivity.
Qed.

(** insert(): either the term went in somewhere, or the set is  b ++ blocker :: a *)
Lemma set_insert_res_shape t l :
  match set_insert_res P C comp t l with
  | Inserted l' => exists B A, l = B ++ A /\ l' = B ++ t :: A
  | Blocked b e a => l = b ++ e :: a
  end.
Proof.
  unfold set_insert_res.
  pose proof (scan_app_eq (fun x => comp (pole P C t) (pole P C x)) l) as E.
  destruct (scan (fun x => comp (pole P C t) (pole P C x)) l) as [B A]. cbn [fst snd] in *.
  destruct (rev B) as [|j rb] eqn:R.
  - exists [], l. split; reflexivity.
  - assert (EB : B = rev rb ++ [j]) by (rewrite <- (rev_involutive B), R; reflexivity).
    destruct (comp (pole P C j) (pole P C t)).
    + exists B, A. split; [symmetry; exact E|reflexivity].
    + rewrite <- E, EB, <- app_assoc. reflexivity.
Qed.

Lemma set_insert_res_nil t : set_insert_res P C comp t [] = Inserted [t].
Proof. reflexivity. Qed.

(** every retry removes one stored term: with [length l <= fuel] the loop ends by an insertion or by the negligibility test *)
Lemma add_term_loop_fuel : forall fuel sum l, length l <= fuel ->
  snd (snd (add_term_loop P C comp negl cadd fuel sum l)) <> FinFuel.
Proof.
  induction fuel as [|f IH]; intros sum l Hl.
  - destruct l; [|cbn [length] in Hl; lia]. cbn. discriminate.
  - cbn [add_term_loop]. pose proof (set_insert_res_shape sum l) as Sh.
    destruct (set_insert_res P C comp sum l) as [l'|b e a]; [cbn; discriminate|].
    destruct (negl _ _); [cbn; discriminate|]. cbn [fst snd]. apply IH.
    subst l. rewrite !app_length in *. cbn [length] in Hl. lia.
Qed.

Theorem add_term_fuel_suffices t l :
  match snd (add_term P C comp negl cadd t l) with EvChain _ fin => fin <> FinFuel end.
Proof. unfold add_term. cbn [snd]. apply add_term_loop_fuel. apply Nat.le_refl. Qed.

(** the steps of a chain: every reduced term is  blocker += running sum  (pole of the blocker, residues added) *)
Fixpoint chain_ok (cur : term P C) (steps : list (term P C * term P C)) : Prop :=
  match steps with
  | [] => True
  | (e, red) :: r => red = (pole P C e, cadd (residue P C e) (residue P C cur)) /\ chain_ok red r
  end.
Lemma add_term_loop_chain_ok : forall fuel sum l, chain_ok sum (fst (snd (add_term_loop P C comp negl cadd fuel sum l))).
Proof.
  induction fuel as [|f IH]; intros sum l; cbn [add_term_loop];
    destruct (set_insert_res P C comp sum l) as [l'|b e a]; try exact I;
    destruct (negl _ _); cbn [fst snd chain_ok]; try (split; [reflexivity|exact I]).
  split; [reflexivity|apply IH].
Qed.
Theorem add_term_chain_ok t l :
  match snd (add_term P C comp negl cadd t l) with EvChain steps _ => chain_ok t steps end.
Proof. unfold add_term. cbn [snd]. apply add_term_loop_chain_ok. Qed.
End Basic.

(** * A. error identity *)
Section EvalRing.
Variables P C : Type.
Variable comp : P -> P -> bool.
Variable negl : C -> nat -> bool.
Variable cadd : C -> C -> C.
Variable K : Type.
Variables (k0 k1 : K) (kadd kmul ksub : K -> K -> K) (kopp : K -> K).
Hypothesis Kr : ring_theory k0 k1 kadd kmul ksub kopp (@eq K).
Add Ring Kring : Kr.
Variable f : term P C -> K.

Notation "a + b" := (kadd a b).
Notation "a - b" := (ksub a b).
Notation "0" := k0.
Notation ev := (eval P C K k0 kadd f).
Notation scan := (scan P C).

Lemma fold_acc (l : list (term P C)) (a : K) :
  fold_left (fun acc t => acc + f t) l a = a + ev l.
Proof.
  unfold eval. revert a. induction l as [|x l IH]; intros a; cbn [fold_left].
  - ring.
  - rewrite (IH (a + f x)), (IH (0 + f x)). ring.
Qed.

Lemma eval_nil : ev [] = 0.
Proof. reflexivity. Qed.

Lemma eval_cons x l : ev (x :: l) = f x + ev l.
Proof. unfold eval at 1. cbn [fold_left]. rewrite fold_acc. ring. Qed.

Lemma eval_app l1 l2 : ev (l1 ++ l2) = ev l1 + ev l2.
Proof.
  induction l1 as [|x l1 IH]; cbn [app].
  - rewrite eval_nil. ring.
  - rewrite !eval_cons, IH. ring.
Qed.

Lemma set_insert_eval t l :
  ev (fst (set_insert P C comp t l)) = ev l + (if snd (set_insert P C comp t l) then f t else 0).
Proof.
  unfold set_insert. pose proof (set_insert_res_shape P C comp t l) as Sh.
  destruct (set_insert_res P C comp t l) as [l'|b e a]; cbn [fst snd].
  - destruct Sh as [B [A [-> ->]]]. rewrite !eval_app, eval_cons. ring.
  - ring.
Qed.

Lemma set_erase_eval k l :
  ev (fst (set_erase P C comp k l)) + ev (snd (set_erase P C comp k l)) = ev l.
Proof.
  unfold set_erase.
  pose proof (scan_app_eq P C (fun x => negb (comp (pole P C x) k)) l) as E1.
  destruct (scan (fun x => negb (comp (pole P C x) k)) l) as [b a]. cbn [fst snd] in *.
  pose proof (scan_app_eq P C (fun x => comp k (pole P C x)) a) as E2.
  destruct (scan (fun x => comp k (pole P C x)) a) as [er a']. cbn [fst snd] in *.
  rewrite <- E1, <- E2, !eval_app. ring.
Qed.

(** what the evaluated sum gains beyond [f cur] when the running sum [cur] goes through the chain [steps]:
    every step replaces the erased term and the running sum by the reduced term; a reduced term that is dropped is lost *)
Fixpoint chain_err (cur : term P C) (steps : list (term P C * term P C)) (fin : final) : K :=
  match steps with
  | [] => match fin with FinInserted => 0 | _ => 0 - f cur end
  | (e, red) :: r => (f red - f e - f cur) + chain_err red r fin
  end.

(** what the evaluated sum gains beyond [f t] when [t] is added *)
Definition ev_err (e : event P C) (t : term P C) : K :=
  match e with EvChain steps fin => chain_err t steps fin end.

Lemma add_term_loop_eval : forall fuel sum l,
  ev (fst (add_term_loop P C comp negl cadd fuel sum l)) =
  ev l + f sum + chain_err sum (fst (snd (add_term_loop P C comp negl cadd fuel sum l)))
                               (snd (snd (add_term_loop P C comp negl cadd fuel sum l))).
Proof.
  induction fuel as [|n IH]; intros sum l; cbn [add_term_loop];
    pose proof (set_insert_res_shape P C comp sum l) as Sh;
    destruct (set_insert_res P C comp sum l) as [l'|b e a].
  - destruct Sh as [B [A [-> ->]]]. cbn [fst snd chain_err]. rewrite !eval_app, eval_cons. ring.
  - subst l. destruct (negl _ _); cbn [fst snd chain_err]; rewrite !eval_app, eval_cons; ring.
  - destruct Sh as [B [A [-> ->]]]. cbn [fst snd chain_err]. rewrite !eval_app, eval_cons. ring.
  - subst l. destruct (negl _ _); cbn [fst snd chain_err].
    + rewrite !eval_app, eval_cons. ring.
    + rewrite IH. rewrite !eval_app, eval_cons. ring.
Qed.

Theorem add_term_eval t l :
  ev (fst (add_term P C comp negl cadd t l)) = ev l + f t + ev_err (snd (add_term P C comp negl cadd t l)) t.
Proof. unfold add_term. cbn [fst snd ev_err]. apply add_term_loop_eval. Qed.

(** one step of a chain and the two ends, spelled out *)
Lemma ev_err_new t : ev_err (EvChain [] FinInserted) t = 0.
Proof. reflexivity. Qed.
Lemma ev_err_step e red r fin t :
  ev_err (EvChain ((e, red) :: r) fin) t = (f red - f e - f t) + ev_err (EvChain r fin) red.
Proof. reflexivity. Qed.

Fixpoint sum_err (es : list (event P C)) (ts : list (term P C)) : K :=
  match es, ts with
  | e :: es', t :: ts' => ev_err e t + sum_err es' ts'
  | _, _ => 0
  end.

Theorem add_terms_eval ts : forall l,
  ev (fst (add_terms P C comp negl cadd ts l)) =
  ev l + ev ts + sum_err (snd (add_terms P C comp negl cadd ts l)) ts.
Proof.
  induction ts as [|t ts IH]; intros l; cbn [add_terms fst snd sum_err].
  - rewrite eval_nil. ring.
  - rewrite IH, add_term_eval, eval_cons. ring.
Qed.

Lemma add_terms_length ts : forall l, length (snd (add_terms P C comp negl cadd ts l)) = length ts.
Proof. induction ts as [|t ts IH]; intros l; cbn [add_terms snd length]; [reflexivity|]. rewrite IH. reflexivity. Qed.

End EvalRing.

(** * B. the invariant, under a strict partial order *)
Section Order.
Variables P C : Type.
Variable comp : P -> P -> bool.
Variable negl : C -> nat -> bool.
Variable cadd : C -> C -> C.
Hypothesis comp_irrefl : forall a, comp a a = false.
Hypothesis comp_trans : forall a b c, comp a b = true -> comp b c = true -> comp a c = true.

Notation term := (term P C).
Notation pole := (pole P C).
Notation residue := (residue P C).
Notation scan := (scan P C).
Notation sorted_sep := (sorted_sep P C comp).

Lemma comp_asym a b : comp a b = true -> comp b a = false.
Proof.
  intros H. destruct (comp b a) eqn:E; [|reflexivity].
  rewrite <- (comp_irrefl a). symmetry. apply (comp_trans a b a); assumption.
Qed.

Definition all_lt (B : list term) (k : P) : Prop := forall x, In x B -> comp (pole x) k = true.
Definition all_gt (k : P) (A : list term) : Prop := forall y, In y A -> comp k (pole y) = true.

Lemma sorted_sep_cons_inv x r : sorted_sep (x :: r) -> sorted_sep r /\ all_gt (pole x) r.
Proof.
  revert x. induction r as [|y r IH]; intros x H.
  - split; [exact I|intros z []].
  - cbn [TermList.sorted_sep] in H. destruct H as [Hxy Hs]. split; [exact Hs|].
    destruct (IH y Hs) as [_ Hy]. intros z [<-|Hz]; [exact Hxy|].
    apply (comp_trans _ (pole y)); [exact Hxy|apply Hy; exact Hz].
Qed.

Lemma sorted_sep_cons x r : sorted_sep r -> all_gt (pole x) r -> sorted_sep (x :: r).
Proof.
  intros Hs Hg. destruct r as [|y r]; [exact I|].
  cbn [TermList.sorted_sep]. split; [apply Hg; left; reflexivity|exact Hs].
Qed.

Lemma sorted_sep_app_inv B A : sorted_sep (B ++ A) ->
  sorted_sep B /\ sorted_sep A /\ (forall x y, In x B -> In y A -> comp (pole x) (pole y) = true).
Proof.
  induction B as [|x B IH]; intros H.
  - split; [exact I|]. split; [exact H|intros x y []].
  - cbn [app] in H. destruct (sorted_sep_cons_inv _ _ H) as [Hs Hg].
    destruct (IH Hs) as [HB [HA Hc]]. split; [|split; [exact HA|]].
    + apply sorted_sep_cons; [exact HB|]. intros z Hz. apply Hg. apply in_or_app. left. exact Hz.
    + intros x' y [<-|Hx'] Hy; [apply Hg; apply in_or_app; right; exact Hy|apply Hc; assumption].
Qed.

Lemma sorted_sep_app B A : sorted_sep B -> sorted_sep A ->
  (forall x y, In x B -> In y A -> comp (pole x) (pole y) = true) -> sorted_sep (B ++ A).
Proof.
  induction B as [|x B IH]; intros HB HA Hc; [exact HA|].
  cbn [app]. destruct (sorted_sep_cons_inv _ _ HB) as [HB' Hg].
  apply sorted_sep_cons.
  - apply IH; [exact HB'|exact HA|]. intros x' y Hx' Hy. apply Hc; [right; exact Hx'|exact Hy].
  - intros z Hz. apply in_app_or in Hz. destruct Hz as [Hz|Hz]; [apply Hg; exact Hz|apply Hc; [left; reflexivity|exact Hz]].
Qed.

Definition head_true (pred : term -> bool) (A : list term) : Prop :=
  match A with [] => True | y :: _ => pred y = true end.

Lemma scan_spec pred l :
  l = fst (scan pred l) ++ snd (scan pred l) /\ (forall x, In x (fst (scan pred l)) -> pred x = false) /\
  head_true pred (snd (scan pred l)).
Proof.
  induction l as [|x l IH]; cbn [TermList.scan].
  - split; [reflexivity|]. split; [intros x []|exact I].
  - destruct (pred x) eqn:E; cbn [fst snd].
    + split; [reflexivity|]. split; [intros y []|exact E].
    + destruct IH as [I1 [I2 I3]]. split; [cbn [app]; rewrite <- I1; reflexivity|].
      split; [|exact I3]. intros y [<-|Hy]; [exact E|apply I2; exact Hy].
Qed.

Lemma scan_at pred B A : (forall x, In x B -> pred x = false) -> head_true pred A -> scan pred (B ++ A) = (B, A).
Proof.
  induction B as [|x B IH]; intros HB HA; cbn [app].
  - destruct A as [|y A]; [reflexivity|]. cbn [TermList.scan]. cbn [head_true] in HA. rewrite HA. reflexivity.
  - cbn [TermList.scan]. rewrite (HB x (or_introl eq_refl)).
    rewrite IH; [reflexivity| |exact HA]. intros z Hz. apply HB. right. exact Hz.
Qed.

Lemma insert_res_at t B A : all_lt B (pole t) -> all_gt (pole t) A ->
  set_insert_res P C comp t (B ++ A) = Inserted (B ++ t :: A).
Proof.
  intros HB HA. unfold set_insert_res. rewrite (scan_at _ B A).
  - cbn [fst snd]. destruct (rev B) as [|j r] eqn:R.
    + assert (B = []) by (rewrite <- (rev_involutive B), R; reflexivity). subst B. reflexivity.
    + assert (Hj : In j B) by (apply in_rev; rewrite R; left; reflexivity).
      rewrite (HB j Hj). reflexivity.
  - intros x Hx. apply comp_asym. apply HB. exact Hx.
  - destruct A as [|y A]; [exact I|]. cbn [head_true]. apply HA. left. reflexivity.
Qed.

Lemma insert_at t B A : all_lt B (pole t) -> all_gt (pole t) A ->
  set_insert P C comp t (B ++ A) = (B ++ t :: A, true).
Proof. intros HB HA. unfold set_insert. rewrite (insert_res_at t B A HB HA). reflexivity. Qed.

(** the insertion of t is refused by x, the LAST stored term that is not greater than t, when x is not less than t either *)
Lemma insert_res_blocked_at x t B A : sorted_sep (B ++ x :: A) ->
  comp (pole x) (pole t) = false -> comp (pole t) (pole x) = false -> all_gt (pole t) A ->
  set_insert_res P C comp t (B ++ x :: A) = Blocked B x A.
Proof.
  intros Hs H1 H2 HA. destruct (sorted_sep_app_inv _ _ Hs) as [_ [_ Hc]].
  unfold set_insert_res. change (B ++ x :: A) with (B ++ [x] ++ A). rewrite app_assoc. rewrite (scan_at _ (B ++ [x]) A).
  - cbn [fst snd]. rewrite rev_app_distr. cbn [rev app]. rewrite H1, rev_involutive. reflexivity.
  - intros y Hy. apply in_app_or in Hy. destruct Hy as [Hy|[<-|[]]]; [|exact H2].
    destruct (comp (pole t) (pole y)) eqn:E; [|reflexivity].
    rewrite <- H2. symmetry. apply (comp_trans _ (pole y)); [exact E|apply Hc; [exact Hy|left; reflexivity]].
  - destruct A as [|y A']; [exact I|]. cbn [head_true]. apply HA. left. reflexivity.
Qed.

(** the complete description of insert() on a sequence satisfying the invariant *)
Lemma insert_res_split t l : sorted_sep l ->
  (exists B A, l = B ++ A /\ all_lt B (pole t) /\ all_gt (pole t) A /\
               set_insert_res P C comp t l = Inserted (B ++ t :: A)) \/
  (exists x B A, l = B ++ x :: A /\ comp (pole x) (pole t) = false /\ comp (pole t) (pole x) = false /\
                 all_gt (pole t) A /\ set_insert_res P C comp t l = Blocked B x A).
Proof.
  intros Hs.
  destruct (scan_spec (fun x => comp (pole t) (pole x)) l) as [E [HB HA]].
  destruct (scan (fun x => comp (pole t) (pole x)) l) as [B0 A0]. cbn [fst snd] in *.
  assert (HsBA : sorted_sep (B0 ++ A0)) by (rewrite <- E; exact Hs).
  destruct (sorted_sep_app_inv _ _ HsBA) as [HsB [HsA Hc]].
  assert (HgA : all_gt (pole t) A0).
  { destruct A0 as [|y A']; [intros z []|]. cbn [head_true] in HA.
    destruct (sorted_sep_cons_inv _ _ HsA) as [_ Hg].
    intros z [<-|Hz]; [exact HA|]. apply (comp_trans _ (pole y)); [exact HA|apply Hg; exact Hz]. }
  destruct (rev B0) as [|j rb] eqn:R.
  - assert (B0 = []) by (rewrite <- (rev_involutive B0), R; reflexivity). subst B0. cbn [app] in E.
    left. exists [], A0. split; [exact E|]. split; [intros z []|]. split; [exact HgA|].
    rewrite E. exact (insert_res_at t [] A0 (fun z (H : In z []) => match H with end) HgA).
  - assert (EB : B0 = rev rb ++ [j]) by (rewrite <- (rev_involutive B0), R; reflexivity).
    assert (Hj : In j B0) by (rewrite EB; apply in_or_app; right; left; reflexivity).
    destruct (comp (pole j) (pole t)) eqn:Ej.
    + left. exists B0, A0. split; [exact E|].
      assert (HlB : all_lt B0 (pole t)).
      { intros z Hz. rewrite EB in Hz. apply in_app_or in Hz. destruct Hz as [Hz|[<-|[]]]; [|exact Ej].
        rewrite EB in HsB. destruct (sorted_sep_app_inv _ _ HsB) as [_ [_ Hc']].
        apply (comp_trans _ (pole j)); [apply Hc'; [exact Hz|left; reflexivity]|exact Ej]. }
      split; [exact HlB|]. split; [exact HgA|]. rewrite E. apply insert_res_at; assumption.
    + right. exists j, (rev rb), A0.
      assert (El : l = rev rb ++ j :: A0) by (rewrite E, EB, <- app_assoc; reflexivity).
      split; [exact El|]. split; [exact Ej|]. split; [apply HB; exact Hj|]. split; [exact HgA|].
      rewrite El. apply insert_res_blocked_at; [rewrite <- El; exact Hs|exact Ej|apply HB; exact Hj|exact HgA].
Qed.

Lemma find_split k l : sorted_sep l ->
  match set_find P C comp k l with
  | None => exists B A, l = B ++ A /\ all_lt B k /\ all_gt k A
  | Some x => exists B A, l = B ++ x :: A /\ all_lt B k /\ comp (pole x) k = false /\ comp k (pole x) = false
  end.
Proof.
  intros Hs. unfold set_find.
  destruct (scan_spec (fun x => negb (comp (pole x) k)) l) as [E [HB HA]].
  destruct (scan (fun x => negb (comp (pole x) k)) l) as [B A0]. cbn [fst snd] in *.
  assert (HB' : all_lt B k).
  { intros x Hx. specialize (HB x Hx). apply negb_false_iff in HB. exact HB. }
  destruct A0 as [|y A].
  - exists B, []. split; [exact E|]. split; [exact HB'|intros y []].
  - cbn [head_true] in HA. apply negb_true_iff in HA.
    destruct (comp k (pole y)) eqn:Ek.
    + exists B, (y :: A). split; [exact E|]. split; [exact HB'|].
      rewrite E in Hs. destruct (sorted_sep_app_inv _ _ Hs) as [_ [HsA _]].
      destruct (sorted_sep_cons_inv _ _ HsA) as [_ Hg].
      intros z [<-|Hz]; [exact Ek|]. apply (comp_trans _ (pole y)); [exact Ek|apply Hg; exact Hz].
    + exists B, A. auto.
Qed.

Lemma erase_at x B A : sorted_sep (B ++ x :: A) ->
  set_erase P C comp (pole x) (B ++ x :: A) = (B ++ A, [x]).
Proof.
  intros Hs. destruct (sorted_sep_app_inv _ _ Hs) as [_ [HsA Hc]].
  destruct (sorted_sep_cons_inv _ _ HsA) as [_ Hg].
  unfold set_erase. rewrite (scan_at _ B (x :: A)).
  - cbn [fst snd].
    change (x :: A) with ([x] ++ A). rewrite (scan_at _ [x] A).
    + reflexivity.
    + intros z [<-|[]]. apply comp_irrefl.
    + destruct A as [|y A]; [exact I|]. cbn [head_true]. apply Hg. left. reflexivity.
  - intros z Hz. apply negb_false_iff. apply Hc; [exact Hz|left; reflexivity].
  - cbn [head_true]. rewrite comp_irrefl. reflexivity.
Qed.

(** the complete description of add_term on a sequence satisfying the invariant: at most one merge *)
Theorem add_term_spec t l : sorted_sep l ->
  (exists B A, l = B ++ A /\ all_lt B (pole t) /\ all_gt (pole t) A /\
               add_term P C comp negl cadd t l = (B ++ t :: A, EvChain [] FinInserted)) \/
  (exists x B A, l = B ++ x :: A /\
     comp (pole x) (pole t) = false /\ comp (pole t) (pole x) = false /\ all_gt (pole t) A /\
     let sum : term := (pole x, cadd (residue x) (residue t)) in
     add_term P C comp negl cadd t l =
       if negl (residue sum) (length (B ++ A) + 1) then (B ++ A, EvChain [(x, sum)] FinNegligible)
       else (B ++ sum :: A, EvChain [(x, sum)] FinInserted)).
Proof.
  intros Hs. destruct (insert_res_split t l Hs) as [[B [A [E [HB [HA R]]]]]|[x [B [A [E [H1 [H2 [HA R]]]]]]]].
  - left. exists B, A. split; [exact E|]. split; [exact HB|]. split; [exact HA|].
    unfold add_term. destruct (length l); cbn [add_term_loop]; rewrite R; reflexivity.
  - right. exists x, B, A. split; [exact E|]. split; [exact H1|]. split; [exact H2|]. split; [exact HA|].
    cbv zeta. unfold add_term.
    assert (L : length l = S (length (B ++ A))) by (rewrite E, !app_length; cbn [length]; lia).
    rewrite L. cbn [add_term_loop]. rewrite R.
    destruct (negl _ _); [reflexivity|].
    rewrite E in Hs. destruct (sorted_sep_app_inv _ _ Hs) as [_ [HsA Hc]].
    destruct (sorted_sep_cons_inv _ _ HsA) as [_ Hg].
    assert (R2 : set_insert_res P C comp (pole x, cadd (residue x) (residue t)) (B ++ A) =
                 Inserted (B ++ (pole x, cadd (residue x) (residue t)) :: A)).
    { apply insert_res_at.
      - intros z Hz. cbn [TermList.pole fst]. apply Hc; [exact Hz|left; reflexivity].
      - intros z Hz. cbn [TermList.pole fst]. apply Hg. exact Hz. }
    destruct (length (B ++ A)); cbn [add_term_loop]; rewrite R2; reflexivity.
Qed.

Theorem add_term_sorted t l : sorted_sep l -> sorted_sep (fst (add_term P C comp negl cadd t l)).
Proof.
  intros Hs. destruct (add_term_spec t l Hs) as [[B [A [E [HB [HA R]]]]]|[x [B [A [E [H1 [H2 [_ R]]]]]]]].
  - rewrite R. cbn [fst]. subst l. destruct (sorted_sep_app_inv _ _ Hs) as [HsB [HsA Hc]].
    apply sorted_sep_app; [exact HsB|apply sorted_sep_cons; assumption|].
    intros x y Hx [<-|Hy]; [apply HB; exact Hx|apply Hc; assumption].
  - cbv zeta in R. rewrite R. subst l. destruct (sorted_sep_app_inv _ _ Hs) as [HsB [HsA Hc]].
    destruct (sorted_sep_cons_inv _ _ HsA) as [HsA' Hg].
    destruct (negl _ _); cbn [fst].
    + apply sorted_sep_app; [exact HsB|exact HsA'|]. intros y z Hy Hz. apply Hc; [exact Hy|right; exact Hz].
    + apply sorted_sep_app; [exact HsB|apply sorted_sep_cons; [exact HsA'|exact Hg]|].
      intros y z Hy [<-|Hz]; [change (comp (pole y) (pole x) = true); apply Hc; [exact Hy|left; reflexivity]|apply Hc; [exact Hy|right; exact Hz]].
Qed.

(** no term is ever lost silently (the loop is never cut short), and a chain has at most one merge *)
Theorem add_term_never_refused t l : sorted_sep l ->
  match snd (add_term P C comp negl cadd t l) with
  | EvChain steps fin => fin <> FinFuel /\ length steps <= 1
  end.
Proof.
  intros Hs. destruct (add_term_spec t l Hs) as [[B [A [_ [_ [_ R]]]]]|[x [B [A [_ [_ [_ [_ R]]]]]]]].
  - rewrite R. cbn [snd length]. split; [discriminate|lia].
  - cbv zeta in R. rewrite R. destruct (negl _ _); cbn [snd length]; (split; [discriminate|lia]).
Qed.

Theorem add_terms_sorted ts : forall l, sorted_sep l -> sorted_sep (fst (add_terms P C comp negl cadd ts l)).
Proof.
  induction ts as [|t ts IH]; intros l Hs; cbn [add_terms fst]; [exact Hs|].
  apply IH. apply add_term_sorted. exact Hs.
Qed.

Theorem add_terms_events_short ts : forall l, sorted_sep l ->
  Forall (fun e => match e with EvChain steps fin => fin <> FinFuel /\ length steps <= 1 end)
         (snd (add_terms P C comp negl cadd ts l)).
Proof.
  induction ts as [|t ts IH]; intros l Hs; cbn [add_terms snd]; [constructor|].
  constructor; [apply add_term_never_refused; exact Hs|]. apply IH. apply add_term_sorted. exact Hs.
Qed.

(** the C++ assertion `assert(Terms.check_terms())` *)
Lemma sorted_sep_check l : sorted_sep l -> check_sorted P C comp l = true.
Proof.
  induction l as [|a [|b r] IH]; intros H; try reflexivity.
  cbn [TermList.sorted_sep] in H. destruct H as [H1 H2].
  cbn [check_sorted]. rewrite H1. cbn [andb]. apply IH. exact H2.
Qed.
Corollary add_terms_check_terms ts l : sorted_sep l ->
  check_terms P C comp (fst (add_terms P C comp negl cadd ts l)) = true.
Proof. intros Hs. unfold check_terms. apply sorted_sep_check. apply add_terms_sorted. exact Hs. Qed.

(** ** with values in a ring: merging terms with EQUAL poles preserves the evaluated sum *)
Section Preserved.
Variable K : Type.
Variables (k0 k1 : K) (kadd kmul ksub : K -> K -> K) (kopp : K -> K).
Hypothesis Kr : ring_theory k0 k1 kadd kmul ksub kopp (@eq K).
Add Ring Kring2 : Kr.
Variable f : term -> K.
Hypothesis f_additive : forall p r1 r2, f (p, cadd r1 r2) = kadd (f (p, r1)) (f (p, r2)).
Notation ev := (eval P C K k0 kadd f).

Theorem termlist_eval_preserved t l :
  sorted_sep l ->
  (forall x, set_find P C comp (pole t) l = Some x ->
             pole x = pole t /\ negl (cadd (residue x) (residue t)) (length l) = false) ->
  ev (fst (add_term P C comp negl cadd t l)) = kadd (ev l) (f t).
Proof.
  intros Hs Hx. destruct (add_term_spec t l Hs) as [[B [A [E [_ [_ R]]]]]|[x [B [A [E [H1 [H2 [HA R]]]]]]]].
  - rewrite R. cbn [fst]. subst l.
    rewrite !(eval_app P C K k0 k1 kadd kmul ksub kopp Kr f), (eval_cons P C K k0 k1 kadd kmul ksub kopp Kr f). ring.
  - (* the blocking term x is the term find() returns: the hypothesis makes the like term unique *)
    assert (Fx : set_find P C comp (pole t) l = Some x).
    { pose proof (find_split (pole t) l Hs) as F.
      assert (Inx : In x l) by (rewrite E; apply in_or_app; right; left; reflexivity).
      destruct (set_find P C comp (pole t) l) as [y|] eqn:Ef.
      - destruct F as [B' [A' [E' [HB' [Hy1 Hy2]]]]]. destruct (Hx y eq_refl) as [Hp _].
        rewrite E' in Inx. apply in_app_or in Inx. destruct Inx as [Inx|[Inx|Inx]].
        + rewrite (HB' x Inx) in H1. discriminate H1.
        + rewrite Inx. reflexivity.
        + rewrite E' in Hs. destruct (sorted_sep_app_inv _ _ Hs) as [_ [HsA' _]].
          destruct (sorted_sep_cons_inv _ _ HsA') as [_ Hg]. pose proof (Hg x Inx) as X. rewrite Hp, H2 in X. discriminate X.
      - destruct F as [B' [A' [E' [HB' HA']]]]. rewrite E' in Inx. apply in_app_or in Inx. destruct Inx as [Inx|Inx].
        + rewrite (HB' x Inx) in H1. discriminate H1.
        + rewrite (HA' x Inx) in H2. discriminate H2. }
    destruct (Hx x Fx) as [Hp Hn]. cbv zeta in R. rewrite R.
    assert (L : length (B ++ A) + 1 = length l).
    { subst l. rewrite !app_length. cbn [length]. lia. }
    cbn [TermList.residue snd] in R |- *. rewrite L, Hn. cbn [fst]. subst l.
    rewrite !(eval_app P C K k0 k1 kadd kmul ksub kopp Kr f), !(eval_cons P C K k0 k1 kadd kmul ksub kopp Kr f).
    rewrite f_additive. rewrite Hp. destruct t as [pt rt]. destruct x as [px rx].
    cbn [TermList.pole TermList.residue fst snd] in *. subst px. ring.
Qed.
End Preserved.
End Order.

(** ** compare total (Tolerance = 0): the exact form -- nothing is merged, nothing refused, nothing dropped *)
Section Total.
Variables P C : Type.
Variable comp : P -> P -> bool.
Variable negl : C -> nat -> bool.
Variable cadd : C -> C -> C.
Hypothesis comp_total : forall a b, comp a b = false -> comp b a = true.

Lemma find_none_total k l : set_find P C comp k l = None.
Proof.
  unfold set_find.
  destruct (scan_spec P C (fun x => negb (comp (pole P C x) k)) l) as [_ [_ H]].
  destruct (snd (scan P C (fun x => negb (comp (pole P C x) k)) l)) as [|x r]; [reflexivity|].
  cbn [head_true] in H. apply negb_true_iff in H. rewrite (comp_total _ _ H). reflexivity.
Qed.

Lemma insert_res_total t l : exists l', set_insert_res P C comp t l = Inserted l'.
Proof.
  unfold set_insert_res.
  destruct (scan_spec P C (fun x => comp (pole P C t) (pole P C x)) l) as [_ [H _]].
  destruct (scan P C (fun x => comp (pole P C t) (pole P C x)) l) as [B A]. cbn [fst snd] in *.
  destruct (rev B) as [|j r] eqn:R; [eexists; reflexivity|].
  assert (Hj : In j B) by (apply in_rev; rewrite R; left; reflexivity).
  rewrite (comp_total _ _ (H j Hj)). eexists; reflexivity.
Qed.

Lemma insert_total t l : snd (set_insert P C comp t l) = true.
Proof. unfold set_insert. destruct (insert_res_total t l) as [l' ->]. reflexivity. Qed.

Theorem add_term_total t l : snd (add_term P C comp negl cadd t l) = EvChain [] FinInserted.
Proof.
  unfold add_term. destruct (insert_res_total t l) as [l' E].
  destruct (length l); cbn [add_term_loop]; rewrite E; reflexivity.
Qed.

Section ExactEval.
Variable K : Type.
Variables (k0 k1 : K) (kadd kmul ksub : K -> K -> K) (kopp : K -> K).
Hypothesis Kr : ring_theory k0 k1 kadd kmul ksub kopp (@eq K).
Add Ring Kring3 : Kr.
Variable f : term P C -> K.
Notation ev := (eval P C K k0 kadd f).

Theorem termlist_exact_total ts : forall l,
  ev (fst (add_terms P C comp negl cadd ts l)) = kadd (ev l) (ev ts).
Proof.
  induction ts as [|t ts IH]; intros l; cbn [add_terms fst].
  - rewrite (eval_nil P C K k0 kadd f). ring.
  - rewrite IH, (add_term_eval P C comp negl cadd K k0 k1 kadd kmul ksub kopp Kr f), add_term_total.
    cbn [ev_err chain_err]. rewrite (eval_cons P C K k0 k1 kadd kmul ksub kopp Kr f). ring.
Qed.
End ExactEval.
End Total.

(** * C. why a list models the red-black tree: descents by a monotone predicate end at the scan position *)
Section Tree.
Variables P C : Type.
Notation term := (term P C).

Inductive tree : Type := Leaf | Node (l : tree) (x : term) (r : tree).
Fixpoint inorder (t : tree) : list term :=
  match t with Leaf => [] | Node l x r => inorder l ++ x :: inorder r end.

(** stl_tree.h _M_lower_bound(x, y, k):  while (x != 0) if (!comp(key(x), k)) y = x, x = left(x); else x = right(x);  return y
    with pred x = !comp(key(x), k); likewise _M_upper_bound with pred x = comp(k, key(x)) *)
Fixpoint descend (pred : term -> bool) (t : tree) (y : option term) : option term :=
  match t with
  | Leaf => y
  | Node l x r => if pred x then descend pred l (Some x) else descend pred r y
  end.

(** monotone along a sequence: once true, true for everything behind *)
Definition monotone (pred : term -> bool) (l : list term) : Prop :=
  forall B x A, l = B ++ x :: A -> pred x = true -> forall y, In y A -> pred y = true.

Lemma monotone_app_l pred l1 l2 : monotone pred (l1 ++ l2) -> monotone pred l1.
Proof.
  intros M B x A E Hx y Hy. apply (M B x (A ++ l2)); [|exact Hx|apply in_or_app; left; exact Hy].
  rewrite E, <- app_assoc. reflexivity.
Qed.
Lemma monotone_app_r pred l1 l2 : monotone pred (l1 ++ l2) -> monotone pred l2.
Proof.
  intros M B x A E Hx y Hy. apply (M (l1 ++ B) x A); [|exact Hx|exact Hy].
  rewrite E, <- app_assoc. reflexivity.
Qed.

Lemma scan_all_false pred (l r : list term) :
  (forall x, In x l -> pred x = false) -> snd (scan P C pred (l ++ r)) = snd (scan P C pred r).
Proof.
  induction l as [|x l IH]; intros H; [reflexivity|].
  cbn [app TermList.scan]. rewrite (H x (or_introl eq_refl)). cbn [snd]. apply IH. intros z Hz. apply H. right. exact Hz.
Qed.

Lemma scan_found pred (l r : list term) z rest :
  snd (scan P C pred l) = z :: rest -> snd (scan P C pred (l ++ r)) = z :: rest ++ r.
Proof.
  induction l as [|x l IH]; intros H; [discriminate H|].
  cbn [app TermList.scan] in *. destruct (pred x); cbn [snd] in *.
  - injection H as <- <-. reflexivity.
  - apply IH. exact H.
Qed.

Theorem tree_lower_bound_is_scan pred : forall t y, monotone pred (inorder t) ->
  descend pred t y = match snd (scan P C pred (inorder t)) with z :: _ => Some z | [] => y end.
Proof.
  induction t as [|l IHl x r IHr]; intros y M; [reflexivity|].
  cbn [descend inorder]. cbn [inorder] in M. destruct (pred x) eqn:E.
  - rewrite IHl by (apply (monotone_app_l _ _ _ M)).
    destruct (snd (scan P C pred (inorder l))) as [|z rest] eqn:S.
    + destruct (scan_spec P C pred (inorder l)) as [E1 [E2 _]]. rewrite S, app_nil_r in E1.
      assert (Hl : forall z, In z (inorder l) -> pred z = false).
      { intros z Hz. apply E2. rewrite <- E1. exact Hz. }
      rewrite scan_all_false by exact Hl. cbn [TermList.scan]. rewrite E. reflexivity.
    + rewrite (scan_found _ _ _ _ _ S). reflexivity.
  - assert (Hl : forall z, In z (inorder l) -> pred z = false).
    { intros z Hz. destruct (pred z) eqn:Ez; [|reflexivity].
      apply in_split in Hz. destruct Hz as [B [A Hz]].
      rewrite <- E. symmetry. apply (M B z (A ++ x :: inorder r)); [|exact Ez|apply in_or_app; right; left; reflexivity].
      rewrite Hz, <- app_assoc. reflexivity. }
    rewrite scan_all_false by exact Hl. cbn [TermList.scan]. rewrite E. cbn [snd].
    apply IHr. apply (monotone_app_r pred (inorder l ++ [x])). rewrite <- app_assoc. exact M.
Qed.

(** for a sequence satisfying the invariant both predicates used by libstdc++ are monotone *)
Variable comp : P -> P -> bool.
Hypothesis comp_trans : forall a b c, comp a b = true -> comp b c = true -> comp a c = true.
Hypothesis comp_irrefl : forall a, comp a a = false.

Lemma monotone_lower k l : sorted_sep P C comp l -> monotone (fun x => negb (comp (pole P C x) k)) l.
Proof.
  intros Hs B x A E Hx y Hy. subst l.
  destruct (sorted_sep_app_inv P C comp comp_trans _ _ Hs) as [_ [HsA _]].
  destruct (sorted_sep_cons_inv P C comp comp_trans _ _ HsA) as [_ Hg].
  apply negb_true_iff in Hx. apply negb_true_iff.
  destruct (comp (pole P C y) k) eqn:Ey; [|reflexivity].
  rewrite <- Hx. symmetry. apply (comp_trans _ (pole P C y)); [apply Hg; exact Hy|exact Ey].
Qed.

Lemma monotone_upper k l : sorted_sep P C comp l -> monotone (fun x => comp k (pole P C x)) l.
Proof.
  intros Hs B x A E Hx y Hy. subst l.
  destruct (sorted_sep_app_inv P C comp comp_trans _ _ Hs) as [_ [HsA _]].
  destruct (sorted_sep_cons_inv P C comp comp_trans _ _ HsA) as [_ Hg].
  apply (comp_trans _ (pole P C x)); [exact Hx|apply Hg; exact Hy].
Qed.

(** std::set::find on any tree whose in-order sequence satisfies the invariant = the model's set_find *)
Corollary tree_find_is_list_find k t : sorted_sep P C comp (inorder t) ->
  match descend (fun x => negb (comp (pole P C x) k)) t None with
  | Some j => if comp k (pole P C j) then None else Some j
  | None => None
  end = set_find P C comp k (inorder t).
Proof.
  intros Hs. rewrite tree_lower_bound_is_scan by (apply monotone_lower; exact Hs).
  unfold set_find. destruct (snd (scan P C _ (inorder t))); reflexivity.
Qed.

(** std::set::insert.  stl_tree.h _M_get_insert_unique_pos(k):
      x = root; y = header; comp = true;
      while (x != 0) { y = x; comp = compare(k, key(x)); x = comp ? left(x) : right(x); }
      j = iterator(y);
      if (comp) { if (j == begin()) return <insert at y>; else --j; }
      if (compare(key(j), k)) return <insert at y>;
      return <refused: the iterator returned by insert() points to j>;
    The descent goes left where pred x = compare(k, key(x)) holds.  When it ends, j -- y itself if the last comparison was false,
    the in-order predecessor of y otherwise, i.e. the deepest ancestor at which the descent went right -- is in both cases the
    LAST node on the path with pred false, and `j == begin()` means there is none: [descend_last]. *)
Fixpoint descend_last (pred : term -> bool) (t : tree) (j : option term) : option term :=
  match t with
  | Leaf => j
  | Node l x r => if pred x then descend_last pred l j else descend_last pred r (Some x)
  end.

Lemma scan_fst_app_true pred (l r : list term) x : pred x = true ->
  fst (scan P C pred (l ++ x :: r)) = fst (scan P C pred l).
Proof.
  intros Hx. induction l as [|y l IH]; cbn [app TermList.scan].
  - rewrite Hx. reflexivity.
  - destruct (pred y); cbn [fst]; [reflexivity|]. rewrite IH. reflexivity.
Qed.

Lemma scan_fst_all_false pred (l r : list term) :
  (forall x, In x l -> pred x = false) -> fst (scan P C pred (l ++ r)) = l ++ fst (scan P C pred r).
Proof.
  induction l as [|x l IH]; intros H; [reflexivity|].
  cbn [app TermList.scan]. rewrite (H x (or_introl eq_refl)). cbn [fst]. rewrite IH; [reflexivity|].
  intros z Hz. apply H. right. exact Hz.
Qed.

(** for a predicate monotone along the in-order sequence the descent ends at the last element before the scan position,
    whatever the shape of the tree *)
Theorem tree_insert_pos_is_scan pred : forall t j, monotone pred (inorder t) ->
  descend_last pred t j = match rev (fst (scan P C pred (inorder t))) with z :: _ => Some z | [] => j end.
Proof.
  induction t as [|l IHl x r IHr]; intros j M; [reflexivity|].
  cbn [descend_last inorder]. cbn [inorder] in M. destruct (pred x) eqn:E.
  - rewrite (scan_fst_app_true pred _ _ x E). apply IHl. apply (monotone_app_l _ _ _ M).
  - assert (Hl : forall z, In z (inorder l) -> pred z = false).
    { intros z Hz. destruct (pred z) eqn:Ez; [|reflexivity].
      apply in_split in Hz. destruct Hz as [B [A Hz]].
      rewrite <- E. symmetry. apply (M B z (A ++ x :: inorder r)); [|exact Ez|apply in_or_app; right; left; reflexivity].
      rewrite Hz, <- app_assoc. reflexivity. }
    rewrite (scan_fst_all_false pred _ _ Hl). cbn [TermList.scan]. rewrite E. cbn [fst].
    rewrite rev_app_distr. cbn [rev]. rewrite <- app_assoc. cbn [app].
    rewrite IHr by (apply (monotone_app_r pred (inorder l ++ [x])); rewrite <- app_assoc; exact M).
    destruct (rev (fst (scan P C pred (inorder r)))); reflexivity.
Qed.

(** std::set::insert on any tree whose in-order sequence satisfies the invariant gives the verdict, and points to the blocking
    element, of the model's set_insert_res *)
Corollary tree_insert_is_list_insert (t0 : term) t : sorted_sep P C comp (inorder t) ->
  match descend_last (fun x => comp (pole P C t0) (pole P C x)) t None with
  | Some j => if comp (pole P C j) (pole P C t0) then None else Some j
  | None => None
  end = match set_insert_res P C comp t0 (inorder t) with Inserted _ => None | Blocked _ j _ => Some j end.
Proof.
  intros Hs. rewrite tree_insert_pos_is_scan by (apply monotone_upper; exact Hs).
  unfold set_insert_res. destruct (rev (fst (scan P C _ (inorder t)))) as [|j rb]; [reflexivity|].
  destruct (comp (pole P C j) (pole P C t0)); reflexivity.
Qed.
End Tree.

(** Examples over nat (comparator p2 >= p1 + 10, a strict partial order; residues added):
    - a new pole like TWO stored ones (0 and 15 stored, 8 added): insert() is refused by the UPPER neighbour, which takes the sum;
    - on a sequence that does NOT satisfy the invariant (0 and 5 stored: never produced from the empty set) the chain has two
      steps, and the events record both. *)
Definition ncomp10 (x y : nat) : bool := x + 10 <=? y.
Example ex_blocked_by_upper :
  set_insert_res nat nat ncomp10 (8, 1) [(0, 1); (15, 1)] = Blocked [(0, 1)] (15, 1) [] /\
  add_term nat nat ncomp10 (fun _ _ => false) Nat.add (8, 1) [(0, 1); (15, 1)] =
    ([(0, 1); (15, 2)], EvChain [((15, 1), (15, 2))] FinInserted).
Proof. split; reflexivity. Qed.
Example ex_chain_two_steps :
  add_term nat nat ncomp10 (fun _ _ => false) Nat.add (3, 1) [(0, 1); (5, 1)] =
    ([(0, 3)], EvChain [((5, 1), (5, 2)); ((0, 1), (0, 3))] FinInserted).
Proof. reflexivity. Qed.
Example ex_chain_dropped :
  add_term nat nat ncomp10 (fun r n => r * n <=? 4) Nat.add (3, 1) [(0, 1); (40, 7)] =
    ([(40, 7)], EvChain [((0, 1), (0, 2))] FinNegligible).
Proof. reflexivity. Qed.

(** * D. the real numbers: compare(p1, p2) = (p2 - p1 >= tol) *)
Require Import Reals Lra.
Local Open Scope R_scope.

Definition compR (tol p1 p2 : R) : bool := if Rle_dec tol (p2 - p1) then true else false.

Lemma compR_true tol a b : compR tol a b = true <-> tol <= b - a.
Proof. unfold compR. destruct (Rle_dec tol (b - a)); split; intros; try assumption; try reflexivity; try discriminate; contradiction. Qed.
Lemma compR_false tol a b : compR tol a b = false <-> b - a < tol.
Proof. unfold compR. destruct (Rle_dec tol (b - a)); split; intros; try discriminate; try reflexivity; lra. Qed.

Lemma compR_irrefl tol : 0 < tol -> forall a, compR tol a a = false.
Proof. intros H a. apply compR_false. lra. Qed.
Lemma compR_trans tol : 0 <= tol -> forall a b c, compR tol a b = true -> compR tol b c = true -> compR tol a c = true.
Proof. intros H a b c H1 H2. apply compR_true in H1. apply compR_true in H2. apply compR_true. lra. Qed.
Lemma compR_total0 : forall a b, compR 0 a b = false -> compR 0 b a = true.
Proof. intros a b H. apply compR_false in H. apply compR_true. lra. Qed.

(** stored poles stay at least tol apart *)
Theorem gf_termlist_separated (C : Type) (negl : C -> nat -> bool) (cadd : C -> C -> C) (tol : R) :
  0 < tol -> forall ts l, sorted_sep R C (compR tol) l ->
  sorted_sep R C (compR tol) (fst (add_terms R C (compR tol) negl cadd ts l)).
Proof.
  intros H ts l. apply add_terms_sorted; [apply compR_irrefl; exact H|apply compR_trans; lra].
Qed.

(** Examples: hypotheses are satisfiable, and the model does what the comments say *)
Example ex_sorted : sorted_sep R nat (compR 1) [(0, 1%nat); (1, 2%nat); (5/2, 3%nat)].
Proof. cbn. repeat split; apply compR_true; lra. Qed.

(** the non-transitive equivalence: 1/2 is "like" both 0 and 1 (tol = 3/4), which are not like each other;
    find picks the smaller *)
Example ex_find_two_likes :
  set_find R nat (compR (3/4)) (1/2) [(0, 1%nat); (1, 2%nat)] = Some (0, 1%nat).
Proof.
  unfold set_find. cbn [scan pole fst snd].
  assert (E1 : compR (3/4) 0 (1/2) = false) by (apply compR_false; lra).
  assert (E2 : compR (3/4) (1/2) 0 = false) by (apply compR_false; lra).
  rewrite E1. cbn [negb snd pole fst]. rewrite E2. reflexivity.
Qed.
