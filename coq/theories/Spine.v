(** The "spine": the model pipeline for one component G_ij(z) of the single-particle Green's function, composed from the
    models of the individual layers.  DEFINITIONS ONLY (executable); the theorems are in SpineSparseProofs.v,
    SpineLinAlg.v, SpineOneBlock.v, SpinePartition.v and are stated in props/Properties_Spine.v.

      StatesClassification            PV.HPart.classification      (the partition of the 2^M Fock states; C07's subject)
      HamiltonianPart::prepare        PV.HPart.hpart_prepare       (C03)        [spine_hblocks]
      eigen-data (E_b, U_b)           an INPUT (external solver; certified per run)
      DensityMatrix::prepare/compute  PV.Thermal.dm_compute        (C09)        [spine_dm]
      FieldOperator::prepare          PV.HPart.fo_prepare, fo_bimap (C07/C10)
      FieldOperatorPart::compute      PV.HPart.fop_dense, then the sparse view that keeps what HPart.prune keeps
                                      ([cs_row_major] / [cs_col_major]: Eigen's compressed row- / column-major storage) (C10)
      GreensFunction::prepare         PV.GFPart.gf_prepare  (the views of the two bimaps: PV.Symm.left_view / right_view; C01/C08)
      GreensFunctionPart::compute     PV.GFPart.gf_compute         (C01)
      GreensFunction::operator()      PV.GFPart.gf_value

    What is NOT in the pipeline: the route through FieldOperatorContainer::computeAll, which fills c_i as the adjoint of the
    stored c^+_i (C10: container_copy_is_adjoint, annihilation_is_adjoint); here c_i is computed by its own
    FieldOperatorPart::compute, which is what AnnihilationOperator::compute does. *)
Require Import Bool List Arith ZArith.
From PV Require Import Outcome Fock Poly EDSpec HPart HPartSpec Sparse TermList GFPart.
From PV Require Symm Thermal.
Import ListNotations.

(** * Compressed storage of a dense matrix *)
Section SparseOfDense.
Variable K : Type.
Variable NO : numops K.

(** outerIndexPtr: running sums of the row lengths *)
Fixpoint ptrs_from (s : nat) (rows : list (list (nat * K))) : list nat :=
  match rows with
  | [] => [s]
  | r :: t => s :: ptrs_from (s + length r) t
  end.

(** rows given as their stored (inner index, value) entries *)
Definition cs_of_rows (inner : nat) (rows : list (list (nat * K))) : cs K :=
  mkcs inner (ptrs_from 0 rows) (concat (map (map fst) rows)) (concat (map (map snd) rows)).

(** sparseView / prune of one row: the entries that pass the test, in increasing inner index *)
Definition sparse_row (keep : K -> bool) (r : list K) : list (nat * K) :=
  filter (fun jc => keep (snd jc)) (idx r).

(** Eigen::SparseMatrix<RowMajor> of a dense matrix with [ncols] columns *)
Definition cs_row_major (keep : K -> bool) (ncols : nat) (D : mat K) : cs K :=
  cs_of_rows ncols (map (sparse_row keep) D).
(** Eigen::SparseMatrix<ColMajor> of a dense [nrows] x [ncols] matrix: outer index = column *)
Definition cs_col_major (keep : K -> bool) (nrows ncols : nat) (D : mat K) : cs K :=
  cs_row_major keep nrows (transpose K NO ncols D).

End SparseOfDense.

(** * The pipeline *)
Section Pipeline.
Variable K : Type.
Variable NO : numops K.
Variable fb : bool.                (* the label-bound variant of StatesClassification (HPart.label_rejected) *)
Variable eps : K.                  (* std::numeric_limits<RealType>::epsilon(): zero test of actRight, sign test of compute *)
Variables reference prec : K.      (* sparseView / prune(reference, precision) of FieldOperatorPart::compute *)
Variable T : tols K.               (* tolerances of GreensFunctionPart *)
Variables fixed lenient : bool.    (* which variant of the merge-walk loops (PV.Sparse) *)

Definition eigdata : Type := list (list K * mat K).         (* per block: (eigenvalues, eigenvector matrix as rows) *)
Definition Eof (ED : eigdata) (b : nat) : list K := fst (nth b ED ([], [])).
Definition Uof (ED : eigdata) (b : nat) : mat K := snd (nth b ED ([], [])).
Definition block_size (S : classification) (b : nat) : nat := length (nth b (sc_states S) []).

(** Hamiltonian::prepare: every block filled by HamiltonianPart::prepare *)
Definition spine_hblocks (S : classification) (h : poly K) : outcome (list (mat K)) :=
  outcome_map (hpart_prepare fb K NO eps S h) (seq 0 (length (sc_states S))).

(** DensityMatrix on the diagonalised blocks *)
Definition thermal_hparts (S : classification) (ED : eigdata) : list (Thermal.hpart K) :=
  map (fun se => Thermal.mk_hpart K (fst se) (fst (snd se)) (snd (snd se))) (combine (sc_states S) ED).
Definition spine_dm (beta : K) (S : classification) (ED : eigdata) : outcome (list (Thermal.dmpart K)) :=
  Thermal.dm_compute K (n0 K NO) (nadd K NO) (nsub K NO) (nmul K NO) (ndiv K NO) (nopp K NO) (nexp K NO) (nre_ltb K NO)
                     beta (thermal_hparts S ED).
Definition Wof (D : list (Thermal.dmpart K)) (b : nat) : list K :=
  Thermal.dp_weights K (nth b D (Thermal.mk_dmpart K [] (n0 K NO) false)).

(** a field operator: prepare (the block pairs (left, right)), then compute of every part:
    part (left, right) is built from U_right (HFrom) and U_left (HTo) *)
Definition op_compute (S : classification) (ED : eigdata) (o : fop) : outcome (list ((nat * nat) * mat K)) :=
  bind (fo_prepare fb K NO eps S o) (fun prs =>
    outcome_map (fun lr =>
      bind (fop_dense fb K NO eps S o (snd lr) (fst lr) (Uof ED (snd lr)) (Uof ED (fst lr))) (fun D => Done (lr, D))) prs).

Definition keep : K -> bool := keep_entry K NO reference prec.

(** mapPartsFromLeft / mapPartsFromRight are std::maps filled with operator[]=: the LAST part with the key wins *)
Definition part_from_left (parts : list ((nat * nat) * mat K)) (L : nat) : option ((nat * nat) * mat K) :=
  find (fun e => Nat.eqb (fst (fst e)) L) (rev parts).
Definition part_from_right (parts : list ((nat * nat) * mat K)) (R : nat) : option ((nat * nat) * mat K) :=
  find (fun e => Nat.eqb (snd (fst e)) R) (rev parts).

Definition swap (lr : nat * nat) : nat * nat := (snd lr, fst lr).

(** what GreensFunction reads from C = c_i, CX = c^+_j, H and DM *)
Definition spine_gf_in (S : classification) (ED : eigdata) (D : list (Thermal.dmpart K))
           (cparts cxparts : list ((nat * nat) * mat K)) : gf_in K :=
  mkgf K
    (Symm.left_view (fo_bimap (map fst cparts)))                       (* C.getBlockMapping().left *)
    (map swap (Symm.right_view (fo_bimap (map fst cxparts))))          (* CX.getBlockMapping().right, as (CXright, CXleft) *)
    (fun L => match part_from_left cparts L with                       (* C.getPartFromLeftIndex(L).getRowMajorValue() *)
              | Some (lr, M) => Some (cs_row_major K keep (block_size S (snd lr)) M)
              | None => None
              end)
    (fun L => match part_from_right cxparts L with                     (* CX.getPartFromRightIndex(L).getColMajorValue() *)
              | Some (lr, M) => Some (cs_col_major K NO keep (block_size S (fst lr)) (block_size S (snd lr)) M)
              | None => None
              end)
    (Eof ED) (Wof D) (Thermal.is_retained K D).

(** the whole chain for G_ij *)
Definition spine_gf (S : classification) (ED : eigdata) (beta : K) (i j : nat)
  : outcome (wres (list ((nat * nat) * part_out K))) :=
  bind (spine_dm beta S ED) (fun D =>
  bind (op_compute S ED (FC i)) (fun cparts =>
  bind (op_compute S ED (FCdag j)) (fun cxparts =>
    Done (gf_compute K NO fixed lenient T (spine_gf_in S ED D cparts cxparts))))).

(** * The global (full Fock space) data the blocks assemble to *)
Definition block_of (S : classification) (s : nat) : nat := nth s (sc_index S) 0.
Definition pos_in (S : classification) (s : nat) : nat :=
  match find_pos (nth (block_of S s) (sc_states S) []) s 0 with Some k => k | None => 0 end.

Definition assembled_E (ED : eigdata) : list K := concat (map fst ED).
Definition assembled_w (D : list (Thermal.dmpart K)) : list K := concat (map (Thermal.dp_weights K) D).
(** row s (Fock label), column (offset of block b) + k:  U_b[position of s][k] if s is in block b, else 0 *)
Definition useg (S : classification) (s : nat) (bU : nat * (list K * mat K)) : list K :=
  if Nat.eqb (fst bU) (block_of S s) then nth (pos_in S s) (snd (snd bU)) (repeat (n0 K NO) (length (fst (snd bU))))
  else repeat (n0 K NO) (length (fst (snd bU))).
Definition assembled_U (S : classification) (ED : eigdata) : mat K :=
  map (fun s => concat (map (useg S s) (combine (seq 0 (length ED)) ED))) (seq 0 (state_size S)).

(** the classification that ignores all symmetries: one block with the labels in increasing order *)
Definition one_block (M : nat) : classification := classification_of_blocks M [seq 0 (Nat.pow 2 M)].

End Pipeline.
