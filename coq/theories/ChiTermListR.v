(** C02: under a separation hypothesis on the poles, the term lists of TwoParticleGFPart (as they are in the repository,
    add_term WITHOUT the retry) never refuse an insertion, i.e. no term weight is lost; without the hypothesis weight
    IS lost (ChiProofs.chi_termlist_loss_witness), and the repaired add_term conserves it unconditionally
    (ChiProofs.add_term_loop_conserves).

    Hypothesis (per term list, per value of the flag, per pole position; the boolean Chi.separated_b is the same test):
        any two pole values are either at most tol/4 or at least 2 tol apart.
    Under it the tolerance comparator (Compare of TwoParticleGFPart.h) is a strict weak order on all terms that can
    occur -- the original ones and every weighted mean produced by operator+= -- and ChiProofs.add_terms_plain_no_refusal
    applies.  Model instantiated at Coq's real numbers.

    Axioms: the classical axioms of the standard library's real numbers. *)
Require Import Reals Lra Lia Bool List ZArith Sorted Psatz.
From PV Require Import Outcome EDSpec Chi ChiProofs.
Import ListNotations.
Local Open Scope R_scope.

Definition Rltb (a b : R) : bool := if Rlt_dec a b then true else false.
Definition Rops : numops R :=
  {| n0 := 0; n1 := 1; nadd := Rplus; nsub := Rminus; nmul := Rmult; ndiv := Rdiv; nopp := Ropp; nconj := fun x => x;
     nexp := exp; nre_ltb := Rltb; nabs := Rabs; nofZ := IZR; nI := 0 |}.

Lemma Rltb_true a b : Rltb a b = true <-> a < b.
Proof. unfold Rltb. destruct (Rlt_dec a b); split; intros; try assumption; try reflexivity; try discriminate; contradiction. Qed.
Lemma Rltb_false a b : Rltb a b = false <-> b <= a.
Proof. unfold Rltb. destruct (Rlt_dec a b); split; intros; try discriminate; try reflexivity; lra. Qed.

Lemma filter_length_lt {A} (p q : A -> bool) (l : list A) :
  (forall v, In v l -> p v = true -> q v = true) ->
  (exists v0, In v0 l /\ q v0 = true /\ p v0 = false) ->
  (length (filter p l) < length (filter q l))%nat.
Proof.
  intros Himp [v0 [Hin [Hq Hp]]].
  assert (Hle : forall l', (forall v, In v l' -> p v = true -> q v = true) -> (length (filter p l') <= length (filter q l'))%nat).
  { induction l' as [|x l' IH]; intros H; [cbn; lia|]. cbn [filter].
    assert (IH' : (length (filter p l') <= length (filter q l'))%nat) by (apply IH; intros v Hv; apply H; right; exact Hv).
    destruct (p x) eqn:Ep.
    - rewrite (H x (or_introl eq_refl) Ep). cbn [length]. lia.
    - destruct (q x); cbn [length]; lia. }
  induction l as [|x l IH]; [destruct Hin|]. cbn [filter]. destruct Hin as [->|Hin].
  - rewrite Hp, Hq. cbn [length]. specialize (Hle l (fun v Hv => Himp v (or_intror Hv))). lia.
  - specialize (IH (fun v Hv => Himp v (or_intror Hv)) Hin).
    destruct (p x) eqn:Ep.
    + rewrite (Himp x (or_introl eq_refl) Ep). cbn [length]. lia.
    + destruct (q x); cbn [length]; lia.
Qed.

Section Separation.
Variables (tol : R) (V : list R).
Hypothesis tol_pos : 0 < tol.
(** the separation hypothesis on the pole values that occur at one position *)
Hypothesis Vsep : forall u v, In u V -> In v V -> Rabs (u - v) <= tol / 4 \/ 2 * tol <= Rabs (u - v).

(** values that can occur as a pole after any number of reductions: within tol/4 of an original value, and either
    within tol/4 of or at least 2 tol - tol/4 away from every original value *)
Definition GoodR (x : R) : Prop :=
  (exists v, In v V /\ Rabs (x - v) <= tol / 4) /\
  (forall w, In w V -> Rabs (x - w) <= tol / 4 \/ 2 * tol - tol / 4 <= Rabs (x - w)).

Lemma GoodR_orig v : In v V -> GoodR v.
Proof.
  intros Hv. split.
  - exists v. split; [exact Hv|]. replace (v - v) with 0 by ring. rewrite Rabs_R0. lra.
  - intros w Hw. destruct (Vsep v w Hv Hw) as [H|H]; [left; exact H|right; lra].
Qed.

Ltac rabs := repeat match goal with
  | H : context [Rabs ?x] |- _ => revert H
  end; unfold Rabs; repeat destruct Rcase_abs; intros; try lra.

Lemma good_close_or_far x y : GoodR x -> GoodR y ->
  Rabs (x - y) <= tol / 2 \/ 2 * tol - tol / 2 <= Rabs (x - y).
Proof.
  intros [[v [Hv Hxv]] _] [_ Hy]. destruct (Hy v Hv) as [H|H]; [left|right]; rabs.
Qed.

(** cluster index: the number of original values that lie clearly below x *)
Definition belowb (x v : R) : bool := Rltb (v + tol / 2) x.
Definition cl (x : R) : nat := length (filter (belowb x) V).

Lemma close_same_below x y v : GoodR x -> GoodR y -> In v V -> Rabs (x - y) <= tol / 2 -> belowb x v = belowb y v.
Proof.
  intros [_ Hx] [_ Hy] Hv Hc. unfold belowb.
  destruct (Hx v Hv) as [H1|H1]; destruct (Hy v Hv) as [H2|H2];
    destruct (Rltb (v + tol / 2) x) eqn:E1; destruct (Rltb (v + tol / 2) y) eqn:E2; try reflexivity;
    try apply Rltb_true in E1; try apply Rltb_true in E2; try apply Rltb_false in E1; try apply Rltb_false in E2;
    exfalso; rabs.
Qed.

Lemma cl_close x y : GoodR x -> GoodR y -> Rabs (x - y) <= tol / 2 -> cl x = cl y.
Proof.
  intros Gx Gy Hc. unfold cl. f_equal. apply filter_ext_in. intros v Hv. apply close_same_below; assumption.
Qed.

Lemma cl_far x y : GoodR x -> GoodR y -> x < y -> 2 * tol - tol / 2 <= Rabs (x - y) -> (cl x < cl y)%nat.
Proof.
  intros Gx Gy Hlt Hf. unfold cl. apply filter_length_lt.
  - intros v _ Hb. unfold belowb in *. apply Rltb_true in Hb. apply Rltb_true. lra.
  - destruct Gx as [[v0 [Hv0 Hn]] _]. exists v0. split; [exact Hv0|]. unfold belowb. split.
    + apply Rltb_true. rabs.
    + apply Rltb_false. rabs.
Qed.

Lemma cl_eq_close x y : GoodR x -> GoodR y -> cl x = cl y -> Rabs (x - y) <= tol / 2.
Proof.
  intros Gx Gy E. destruct (good_close_or_far x y Gx Gy) as [H|H]; [exact H|]. exfalso.
  destruct (Rlt_le_dec x y) as [Hl|Hl].
  - pose proof (cl_far x y Gx Gy Hl H). lia.
  - assert (y < x) by (revert H; unfold Rabs; destruct Rcase_abs; intros; lra).
    assert (H' : 2 * tol - tol / 2 <= Rabs (y - x)) by (rewrite Rabs_minus_sym; exact H).
    pose proof (cl_far y x Gy Gx H0 H'). lia.
Qed.

(** the three tests of Compare on Good values, in terms of the cluster index *)
Lemma real_eq_cl x y : GoodR x -> GoodR y -> real_eq R Rops tol x y = Nat.eqb (cl x) (cl y).
Proof.
  intros Gx Gy. unfold real_eq. cbn [nre_ltb nabs nsub Rops].
  destruct (good_close_or_far x y Gx Gy) as [H|H].
  - rewrite (cl_close x y Gx Gy H), Nat.eqb_refl. apply Rltb_true. lra.
  - replace (Nat.eqb (cl x) (cl y)) with false.
    + apply Rltb_false. lra.
    + symmetry. apply Nat.eqb_neq. intros E. pose proof (cl_eq_close x y Gx Gy E). lra.
Qed.

Lemma ltb_cl x y : GoodR x -> GoodR y -> cl x <> cl y -> Rltb x y = Nat.ltb (cl x) (cl y).
Proof.
  intros Gx Gy Hne. destruct (good_close_or_far x y Gx Gy) as [H|H]; [exfalso; apply Hne; apply cl_close; assumption|].
  destruct (Rlt_le_dec x y) as [Hl|Hl].
  - pose proof (cl_far x y Gx Gy Hl H) as Hc. replace (Nat.ltb (cl x) (cl y)) with true by (symmetry; apply Nat.ltb_lt; exact Hc).
    apply Rltb_true. exact Hl.
  - assert (Hyx : y < x) by (revert H; unfold Rabs; destruct Rcase_abs; intros; lra).
    assert (H' : 2 * tol - tol / 2 <= Rabs (y - x)) by (rewrite Rabs_minus_sym; exact H).
    pose proof (cl_far y x Gy Gx Hyx H') as Hc.
    replace (Nat.ltb (cl x) (cl y)) with false by (symmetry; apply Nat.ltb_ge; lia).
    apply Rltb_false. lra.
Qed.

Lemma ge_cl x y : GoodR x -> GoodR y -> real_ge R Rops (y - x) tol = Nat.ltb (cl x) (cl y).
Proof.
  intros Gx Gy. unfold real_ge. cbn [nre_ltb Rops].
  destruct (good_close_or_far x y Gx Gy) as [H|H].
  - rewrite (cl_close x y Gx Gy H), Nat.ltb_irrefl.
    replace (Rltb (y - x) tol) with true; [reflexivity|]. symmetry. apply Rltb_true. rabs.
  - destruct (Rlt_le_dec x y) as [Hl|Hl].
    + pose proof (cl_far x y Gx Gy Hl H) as Hc. replace (Nat.ltb (cl x) (cl y)) with true by (symmetry; apply Nat.ltb_lt; exact Hc).
      replace (Rltb (y - x) tol) with false; [reflexivity|]. symmetry. apply Rltb_false. rabs.
    + assert (Hyx : y < x) by (revert H; unfold Rabs; destruct Rcase_abs; intros; lra).
      assert (H' : 2 * tol - tol / 2 <= Rabs (y - x)) by (rewrite Rabs_minus_sym; exact H).
      pose proof (cl_far y x Gy Gx Hyx H') as Hc.
      replace (Nat.ltb (cl x) (cl y)) with false by (symmetry; apply Nat.ltb_ge; lia).
      replace (Rltb (y - x) tol) with true; [reflexivity|]. symmetry. apply Rltb_true. lra.
Qed.

(** weighted mean of two close Good values (operator+=): Good again, same cluster *)
Lemma wmean_between (w1 w2 : Z) (x y : R) : (0 < w1)%Z -> (0 < w2)%Z -> x <= y ->
  x <= wmean R Rops w1 x w2 y <= y /\ x <= wmean R Rops w2 y w1 x <= y.
Proof.
  intros H1 H2 Hxy. unfold wmean. cbn [nofZ nadd nmul ndiv Rops]. rewrite !plus_IZR.
  apply IZR_lt in H1. apply IZR_lt in H2. set (a := IZR w1) in *. set (b := IZR w2) in *.
  assert (Hab : 0 < a + b) by lra.
  assert (E1 : (a * x + b * y) / (a + b) = x + (b / (a + b)) * (y - x)) by (field; lra).
  assert (E2 : (b * y + a * x) / (b + a) = x + (b / (a + b)) * (y - x)) by (field; lra).
  rewrite E1, E2.
  assert (L0 : 0 <= b / (a + b)) by (apply Rlt_le, Rdiv_lt_0_compat; lra).
  assert (L1 : b / (a + b) <= 1).
  { apply (Rmult_le_reg_r (a + b)); [lra|]. unfold Rdiv. rewrite Rmult_assoc, Rinv_l by lra. lra. }
  split; split; nra.
Qed.

Lemma wmean_range (w1 w2 : Z) (x y : R) : (0 < w1)%Z -> (0 < w2)%Z ->
  Rmin x y <= wmean R Rops w1 x w2 y <= Rmax x y.
Proof.
  intros H1 H2. destruct (Rle_dec x y) as [Hxy|Hxy].
  - rewrite Rmin_left, Rmax_right by lra. apply (wmean_between w1 w2 x y H1 H2 Hxy).
  - rewrite Rmin_right, Rmax_left by lra. apply (wmean_between w2 w1 y x H2 H1). lra.
Qed.

Lemma wmean_good (w1 w2 : Z) (x y : R) : (0 < w1)%Z -> (0 < w2)%Z -> GoodR x -> GoodR y -> cl x = cl y ->
  GoodR (wmean R Rops w1 x w2 y) /\ cl (wmean R Rops w1 x w2 y) = cl x.
Proof.
  intros H1 H2 Gx Gy E. pose proof (cl_eq_close x y Gx Gy E) as Hc.
  pose proof (wmean_range w1 w2 x y H1 H2) as Hm. set (m := wmean R Rops w1 x w2 y) in *.
  assert (Gm : GoodR m).
  { destruct Gx as [[v [Hv Hxv]] Hx]. destruct Gy as [_ Hy]. split.
    - exists v. split; [exact Hv|]. destruct (Hy v Hv) as [H|H]; revert Hm; unfold Rmin, Rmax; destruct (Rle_dec x y); intros; rabs.
    - intros w Hw. destruct (Hx w Hw) as [Hxw|Hxw]; destruct (Hy w Hw) as [Hyw|Hyw];
        [left|exfalso|exfalso|right]; revert Hm; unfold Rmin, Rmax; destruct (Rle_dec x y); intros; rabs. }
  split; [exact Gm|]. apply cl_close; [exact Gm|split; apply Gx|].
  revert Hm; unfold Rmin, Rmax; destruct (Rle_dec x y); intros; rabs.
Qed.

End Separation.

(** * Terms: three poles, a flag, a statistical weight *)
Section Terms.
Variable tol : R.
Hypothesis tol_pos : 0 < tol.
(** original pole values per flag and pole position, each family separated *)
Variables V0 V1 V2 : bool -> list R.
Definition separated (V : list R) : Prop := forall u v, In u V -> In v V -> Rabs (u - v) <= tol / 4 \/ 2 * tol <= Rabs (u - v).
Hypothesis sep0 : forall f, separated (V0 f).
Hypothesis sep1 : forall f, separated (V1 f).
Hypothesis sep2 : forall f, separated (V2 f).

Variable T : Type.
Variables (flag : T -> bool) (q0 q1 q2 : T -> R) (wt : T -> Z).
Variables (comp : T -> T -> bool) (plus : T -> T -> T) (negl : T -> nat -> bool).
Hypothesis comp_def : forall a b, comp a b =
  if Bool.eqb (flag a) (flag b) then cmp_poles R Rops tol (q0 a) (q1 a) (q2 a) (q0 b) (q1 b) (q2 b)
  else negb (flag a) && flag b.
Hypothesis plus_flag : forall a b, flag (plus a b) = flag a.
Hypothesis plus_q0 : forall a b, q0 (plus a b) = wmean R Rops (wt a) (q0 a) (wt b) (q0 b).
Hypothesis plus_q1 : forall a b, q1 (plus a b) = wmean R Rops (wt a) (q1 a) (wt b) (q1 b).
Hypothesis plus_q2 : forall a b, q2 (plus a b) = wmean R Rops (wt a) (q2 a) (wt b) (q2 b).
Hypothesis plus_wt : forall a b, wt (plus a b) = (wt a + wt b)%Z.

Definition GoodT (t : T) : Prop :=
  (0 < wt t)%Z /\ GoodR tol (V0 (flag t)) (q0 t) /\ GoodR tol (V1 (flag t)) (q1 t) /\ GoodR tol (V2 (flag t)) (q2 t).
Definition Key : Type := (bool * nat * nat * nat)%type.
Definition keyT (t : T) : Key :=
  (flag t, cl tol (V0 (flag t)) (q0 t), cl tol (V1 (flag t)) (q1 t), cl tol (V2 (flag t)) (q2 t)).
Definition klt (k k' : Key) : Prop :=
  match k, k' with
  | (f, a, b, c), (f', a', b', c') =>
    (f = false /\ f' = true) \/ (f = f' /\ (a < a' \/ (a = a' /\ (b < b' \/ (b = b' /\ c < c')))))%nat
  end.

Lemma klt_trans a b c : klt a b -> klt b c -> klt a c.
Proof.
  destruct a as [[[f1 a1] b1] c1], b as [[[f2 a2] b2] c2], c as [[[f3 a3] b3] c3]. unfold klt.
  destruct f1, f2, f3; intuition (try discriminate; try lia).
Qed.
Lemma klt_irrefl a : ~ klt a a.
Proof. destruct a as [[[f1 a1] b1] c1]. unfold klt. destruct f1; intuition (try discriminate; try lia). Qed.
Lemma klt_total a b : klt a b \/ a = b \/ klt b a.
Proof.
  destruct a as [[[f1 a1] b1] c1], b as [[[f2 a2] b2] c2]. unfold klt.
  destruct f1, f2; try (left; left; split; reflexivity); try (right; right; left; split; reflexivity).
  - destruct (lt_eq_lt_dec a1 a2) as [[H|H]|H]; [left; right; split; [reflexivity|left; exact H]| |right; right; right; split; [reflexivity|left; exact H]].
    destruct (lt_eq_lt_dec b1 b2) as [[H'|H']|H']; [left; right; split; [reflexivity|right; split; [exact H|left; exact H']]| |
      right; right; right; split; [reflexivity|right; split; [symmetry; exact H|left; exact H']]].
    destruct (lt_eq_lt_dec c1 c2) as [[H''|H'']|H''];
      [left; right; split; [reflexivity|right; split; [exact H|right; split; [exact H'|exact H'']]]|
       right; left; subst; reflexivity|
       right; right; right; split; [reflexivity|right; split; [symmetry; exact H|right; split; [symmetry; exact H'|exact H'']]]].
  - destruct (lt_eq_lt_dec a1 a2) as [[H|H]|H]; [left; right; split; [reflexivity|left; exact H]| |right; right; right; split; [reflexivity|left; exact H]].
    destruct (lt_eq_lt_dec b1 b2) as [[H'|H']|H']; [left; right; split; [reflexivity|right; split; [exact H|left; exact H']]| |
      right; right; right; split; [reflexivity|right; split; [symmetry; exact H|left; exact H']]].
    destruct (lt_eq_lt_dec c1 c2) as [[H''|H'']|H''];
      [left; right; split; [reflexivity|right; split; [exact H|right; split; [exact H'|exact H'']]]|
       right; left; subst; reflexivity|
       right; right; right; split; [reflexivity|right; split; [symmetry; exact H|right; split; [symmetry; exact H'|exact H'']]]].
Qed.

Lemma comp_keyT a b : GoodT a -> GoodT b -> (comp a b = true <-> klt (keyT a) (keyT b)).
Proof.
  intros (Wa & A0 & A1 & A2) (Wb & B0 & B1 & B2). rewrite comp_def. unfold keyT, klt.
  destruct (flag a) eqn:Fa, (flag b) eqn:Fb; cbn [Bool.eqb negb andb].
  4:{ (* both false *)
    unfold cmp_poles. cbn [nsub nre_ltb Rops].
    rewrite (real_eq_cl tol (V0 false) tol_pos _ _ A0 B0).
    rewrite (real_eq_cl tol (V1 false) tol_pos _ _ A1 B1).
    rewrite (ge_cl tol (V2 false) tol_pos _ _ A2 B2).
    cbn [nre_ltb Rops].
    destruct (Nat.eqb_spec (cl tol (V0 false) (q0 a)) (cl tol (V0 false) (q0 b))) as [E0|N0]; cbn [negb].
    - destruct (Nat.eqb_spec (cl tol (V1 false) (q1 a)) (cl tol (V1 false) (q1 b))) as [E1|N1]; cbn [negb].
      + rewrite Nat.ltb_lt. intuition (try discriminate; try lia).
      + rewrite (ltb_cl tol (V1 false) tol_pos _ _ A1 B1 N1). rewrite Nat.ltb_lt. intuition (try discriminate; try lia).
    - rewrite (ltb_cl tol (V0 false) tol_pos _ _ A0 B0 N0). rewrite Nat.ltb_lt. intuition (try discriminate; try lia). }
  1:{ unfold cmp_poles. cbn [nsub nre_ltb Rops].
    rewrite (real_eq_cl tol (V0 true) tol_pos _ _ A0 B0).
    rewrite (real_eq_cl tol (V1 true) tol_pos _ _ A1 B1).
    rewrite (ge_cl tol (V2 true) tol_pos _ _ A2 B2).
    cbn [nre_ltb Rops].
    destruct (Nat.eqb_spec (cl tol (V0 true) (q0 a)) (cl tol (V0 true) (q0 b))) as [E0|N0]; cbn [negb].
    - destruct (Nat.eqb_spec (cl tol (V1 true) (q1 a)) (cl tol (V1 true) (q1 b))) as [E1|N1]; cbn [negb].
      + rewrite Nat.ltb_lt. intuition (try discriminate; try lia).
      + rewrite (ltb_cl tol (V1 true) tol_pos _ _ A1 B1 N1). rewrite Nat.ltb_lt. intuition (try discriminate; try lia).
    - rewrite (ltb_cl tol (V0 true) tol_pos _ _ A0 B0 N0). rewrite Nat.ltb_lt. intuition (try discriminate; try lia). }
  - intuition (try discriminate; try lia).
  - intuition (try discriminate; try lia).
Qed.

Lemma plus_goodT a b : GoodT a -> GoodT b -> keyT a = keyT b -> GoodT (plus a b) /\ keyT (plus a b) = keyT a.
Proof.
  intros (Wa & A0 & A1 & A2) (Wb & B0 & B1 & B2) E. unfold keyT in E.
  assert (Ef : flag b = flag a) by (inversion E; congruence).
  rewrite Ef in E, B0, B1, B2. inversion E as [[E0 E1 E2]].
  destruct (wmean_good tol (V0 (flag a)) tol_pos (wt a) (wt b) _ _ Wa Wb A0 B0 E0) as [G0 C0].
  destruct (wmean_good tol (V1 (flag a)) tol_pos (wt a) (wt b) _ _ Wa Wb A1 B1 E1) as [G1 C1].
  destruct (wmean_good tol (V2 (flag a)) tol_pos (wt a) (wt b) _ _ Wa Wb A2 B2 E2) as [G2 C2].
  unfold GoodT, keyT. rewrite plus_flag, plus_q0, plus_q1, plus_q2, plus_wt.
  split; [split; [lia|split; [exact G0|split; [exact G1|exact G2]]]|]. rewrite C0, C1, C2. reflexivity.
Qed.

(** no insertion is refused, for any sequence of terms whose poles are among the separated values *)
Theorem termlist_no_loss_generic (ts : list T) :
  (forall t, In t ts -> (0 < wt t)%Z /\ In (q0 t) (V0 (flag t)) /\ In (q1 t) (V1 (flag t)) /\ In (q2 t) (V2 (flag t))) ->
  fst (add_terms_gen T comp plus negl false ts (O, [])) = O.
Proof.
  intros H.
  refine (proj1 (add_terms_plain_no_refusal T comp plus negl GoodT Key keyT klt klt_trans klt_irrefl klt_total comp_keyT plus_goodT ts O [] _ _)).
  - split; constructor.
  - apply Forall_forall. intros t Ht. destruct (H t Ht) as (W & I0 & I1 & I2).
    split; [exact W|]. split; [apply GoodR_orig; [exact tol_pos|apply sep0|exact I0]|].
    split; [apply GoodR_orig; [exact tol_pos|apply sep1|exact I1]|apply GoodR_orig; [exact tol_pos|apply sep2|exact I2]].
Qed.

End Terms.

(** * chi_termlist_no_loss for the two term types of TwoParticleGFPart *)
Theorem chi_termlist_no_loss_nonresonant (tol tneg : R) (V0 V1 V2 : bool -> list R) (ts : list (nrterm R)) :
  0 < tol ->
  (forall f, separated tol (V0 f)) -> (forall f, separated tol (V1 f)) -> (forall f, separated tol (V2 f)) ->
  (forall t, In t ts -> (0 < nr_weight R t)%Z /\ In (nr_p0 R t) (V0 (nr_isz4 R t)) /\ In (nr_p1 R t) (V1 (nr_isz4 R t)) /\
                        In (nr_p2 R t) (V2 (nr_isz4 R t))) ->
  fst (add_terms_gen (nrterm R) (nr_comp R Rops tol) (nr_plus R Rops) (nr_negl R Rops tneg) false ts (O, [])) = O.
Proof.
  intros Ht S0 S1 S2 H.
  apply (termlist_no_loss_generic tol Ht V0 V1 V2 S0 S1 S2 (nrterm R) (nr_isz4 R) (nr_p0 R) (nr_p1 R) (nr_p2 R) (nr_weight R));
    try (intros; reflexivity). exact H.
Qed.

Theorem chi_termlist_no_loss_resonant (tol tneg : R) (V0 V1 V2 : bool -> list R) (ts : list (rterm R)) :
  0 < tol ->
  (forall f, separated tol (V0 f)) -> (forall f, separated tol (V1 f)) -> (forall f, separated tol (V2 f)) ->
  (forall t, In t ts -> (0 < r_weight R t)%Z /\ In (r_p0 R t) (V0 (r_isz1z2 R t)) /\ In (r_p1 R t) (V1 (r_isz1z2 R t)) /\
                        In (r_p2 R t) (V2 (r_isz1z2 R t))) ->
  fst (add_terms_gen (rterm R) (r_comp R Rops tol) (r_plus R Rops) (r_negl R Rops tneg) false ts (O, [])) = O.
Proof.
  intros Ht S0 S1 S2 H.
  apply (termlist_no_loss_generic tol Ht V0 V1 V2 S0 S1 S2 (rterm R) (r_isz1z2 R) (r_p0 R) (r_p1 R) (r_p2 R) (r_weight R));
    try (intros; reflexivity). exact H.
Qed.

(** the hypotheses are satisfiable by a non-trivial input: poles 0, tol/8 (merged) and 3 tol (separate) *)
Example chi_termlist_no_loss_example :
  fst (add_terms_gen (nrterm R) (nr_comp R Rops 1) (nr_plus R Rops) (nr_negl R Rops 0) false
         [mk_nr R 1 0 0 0 false; mk_nr R 1 (/ 8) 0 0 false; mk_nr R 1 3 0 0 false] (O, [])) = O.
Proof.
  apply (chi_termlist_no_loss_nonresonant 1 0 (fun _ => [0; / 8; 3]) (fun _ => [0]) (fun _ => [0])); [lra| | | |].
  - intros f u v Hu Hv. cbn in Hu, Hv.
    destruct Hu as [<-|[<-|[<-|[]]]]; destruct Hv as [<-|[<-|[<-|[]]]];
      unfold Rabs; destruct Rcase_abs; lra.
  - intros f u v [<-|[]] [<-|[]]. left. unfold Rabs; destruct Rcase_abs; lra.
  - intros f u v [<-|[]] [<-|[]]. left. unfold Rabs; destruct Rcase_abs; lra.
  - intros t Ht. cbn in Ht. destruct Ht as [<-|[<-|[<-|[]]]]; cbn; repeat split; try lia; auto.
Qed.
