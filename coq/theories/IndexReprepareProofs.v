(** C18 -- repeated prepare() on one object: the table after a history of calls is the table of the last call. *)
Require Import Bool List Arith Lia.
From PV Require Import Outcome Index IndexProofs IndexReprepare.
Import ListNotations.

Lemma vec_resize_nil : forall n, vec_resize [] n = repeat None n.
Proof.
  intro n. unfold vec_resize. rewrite firstn_nil. cbn [length app]. rewrite Nat.sub_0_r. reflexivity.
Qed.

(** after the reset the body is the single call of PV.Index on a fresh object, whatever the object held before *)
Lemma prepare_on_is_prepare : forall (fixed m : bool) (ss : list site) (t0 : table),
  prepare_on fixed m ss t0 = prepare fixed m ss.
Proof.
  intros fixed m ss t0. unfold prepare_on, prepare_body, reset, prepare, fill_vector.
  cbn [IndexSize IndicesToInfo InfoToIndices]. rewrite vec_resize_nil. rewrite Nat.add_0_l.
  destruct m; reflexivity.
Qed.

Lemma prepare_history_snoc : forall (fixed : bool) (ms : list bool) (m : bool) (ss : list site) (t0 t : table),
  prepare_history fixed ms ss t0 = Done t ->
  prepare_history fixed (ms ++ [m]) ss t0 = prepare fixed m ss.
Proof.
  intros fixed ms. induction ms as [|m0 r IH]; intros m ss t0 t Hh.
  - cbn [app prepare_history]. rewrite prepare_on_is_prepare.
    destruct (prepare fixed m ss); reflexivity.
  - cbn [app prepare_history] in *. destruct (prepare_on fixed m0 ss t0) as [t1| | | |] eqn:E1; cbn [bind] in *; try discriminate.
    apply (IH m ss t1 t Hh).
Qed.

(** every call of a history returns normally when every single call does *)
Lemma prepare_history_total : forall (fixed : bool) (ms : list bool) (ss : list site) (t0 : table),
  NoDup (labels ss) -> Forall (fun m => harmless fixed m ss) ms ->
  exists t, prepare_history fixed ms ss t0 = Done t.
Proof.
  intros fixed ms. induction ms as [|m r IH]; intros ss t0 Hnd Hall.
  - exists t0. reflexivity.
  - inversion Hall as [|x l Hm Hr]; subst.
    destruct (IndexProofs.prepare_total fixed m ss Hnd Hm) as [t1 Ht1].
    cbn [prepare_history]. rewrite prepare_on_is_prepare, Ht1. cbn [bind]. apply IH; assumption.
Qed.

(** prepare(m1); ...; prepare(mk); prepare(m) on one object leaves the table of a single prepare(m) *)
Theorem prepare_history_is_last : forall (fixed : bool) (ms : list bool) (m : bool) (ss : list site) (t0 : table),
  NoDup (labels ss) -> Forall (fun m' => harmless fixed m' ss) ms ->
  prepare_history fixed (ms ++ [m]) ss t0 = prepare fixed m ss.
Proof.
  intros fixed ms m ss t0 Hnd Hall.
  destruct (prepare_history_total fixed ms ss t0 Hnd Hall) as [t Ht].
  apply (prepare_history_snoc fixed ms m ss t0 t Ht).
Qed.

Theorem prepare_twice_is_last : forall (fixed m1 m2 : bool) (ss : list site),
  NoDup (labels ss) -> harmless fixed m1 ss ->
  prepare_history fixed [m1; m2] ss constructed = prepare fixed m2 ss.
Proof.
  intros fixed m1 m2 ss Hnd H1.
  apply (prepare_history_is_last fixed [m1] m2 ss constructed Hnd). constructor; [exact H1 | constructor].
Qed.

(** the hypotheses are satisfiable by a lattice on which the two orders differ: A(2 orbitals, 2 spins), B(1, 3) *)
Definition ex_sites : list site :=
  [mkSite (String.String (Ascii.ascii_of_nat 65) String.EmptyString) 2 2;
   mkSite (String.String (Ascii.ascii_of_nat 66) String.EmptyString) 1 3].

Example prepare_twice_hypotheses : NoDup (labels ex_sites) /\ harmless true false ex_sites /\ harmless true true ex_sites.
Proof.
  split; [|split; left; reflexivity].
  cbn. constructor.
  - intros [H|[]]. discriminate H.
  - constructor; [intros [] | constructor].
Qed.

Example prepare_twice_orders_differ :
  prepare true false ex_sites <> prepare true true ex_sites /\
  prepare_history true [false; true] ex_sites constructed = prepare true true ex_sites /\
  prepare_history true [true; false] ex_sites constructed = prepare true false ex_sites.
Proof. split; [|split]; vm_compute; [discriminate | reflexivity | reflexivity]. Qed.

(** the reset at the top of prepare is what makes the second call work: the body alone, started on the state the first
    call left behind (the code before 1fd1f00), doubles IndexSize and dereferences the appended null pointers *)
Example second_call_without_reset_fails : forall t1,
  prepare true false ex_sites = Done t1 -> prepare_body true true ex_sites t1 = Uninit.
Proof. intros t1 H. vm_compute in H. injection H as <-. vm_compute. reflexivity. Qed.
