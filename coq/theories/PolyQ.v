(** Executable instance of the operator-algebra model at exact rationals (K = Q, kept reduced). *)
Require Import Bool List Arith ZArith QArith.
From PV Require Import Outcome Fock Poly.
Import ListNotations.

Definition qadd (a b : Q) : Q := Qred (Qplus a b).
Definition qmul (a b : Q) : Q := Qred (Qmult a b).
Definition qsub (a b : Q) : Q := Qred (Qminus a b).
Definition qopp (a : Q) : Q := Qred (Qopp a).
Definition qzero (a : Q) : bool := Z.eqb (Qnum a) 0.
Definition qhalf : Q := Qmake 1 2.

Definition qpoly := poly Q.
Definition q_insert := insert Q qadd qzero.
Definition q_padd := padd Q qadd qzero.
Definition q_psub := psub Q qsub qopp qzero.
Definition q_pneg := pneg Q qopp.
Definition q_pscale := pscale Q qmul qzero.
Definition q_padd_const := padd_const Q qadd qzero.
Definition q_psub_const := psub_const Q qsub qopp qzero.
Definition q_pmul := pmul Q qadd qmul qopp qzero.
Definition q_commutator := commutator Q qadd qmul qsub qopp qzero.
Definition q_anticommutator := anticommutator Q qadd qmul qopp qzero.
Definition q_poly_eq := poly_eq Q qsub qzero.
Definition q_commutes := commutes Q qadd qmul qsub qopp qzero.
Definition q_c := p_c Q 1%Q.
Definition q_cdag := p_cdag Q 1%Q.
Definition q_n := p_n Q 1%Q.
Definition q_n_offdiag := p_n_offdiag Q 1%Q.
Definition q_N := p_N Q 1%Q qadd qzero.
Definition q_Sz := p_Sz Q 1%Q qadd qmul qsub qopp qzero qhalf.
Definition q_act := act_poly Q qadd qopp.
Definition q_normalize := normalize Q qadd qopp qzero.
