(** C11 -- definitions.  The single-particle Green's function as a finite Lehmann sum over
    Coq's reals / Coquelicot's complex numbers, in two forms:

    - the plain form the library stores: a list of terms (Residue_k : C, Pole_k : R),
        G(z) = sum_k R_k / (z - P_k),      G(tau) = sum_k term_tau(R_k, P_k, tau, beta),
      where the per-term formulas are the GENERATED ones (PVgen.Gen_GFTau, translated on every
      run from GreensFunctionPart::Term::operator()) instantiated at C and at R;

    - the structured form with matrix elements in the eigenbasis and c^+_j = (c_j)^dagger:
        G_ij(z) = sum_{n,m} c^i_{nm} conj(c^j_{nm}) (w_n + w_m) / (z - (E_m - E_n)).
      This is PV.EDSpec.gf, instantiated at the [numops] instance [CNum] below (Coquelicot's C,
      real exponential), with CX_j[m][n] = conj(C_j[n][m]); the equality is proved in
      GFIdentitiesProofs (G_is_EDSpec_gf), so the relation to the executable specification is by
      INSTANTIATION of numops, not by a restatement.

    Proofs are in GFIdentitiesProofs.v; statements of the property in props/Properties_C11.v. *)
Require Import Reals List ZArith Bool Arith.
From Coquelicot Require Import Coquelicot.
From PV Require Import EDSpec.
From PVgen Require Import Gen_GFTau.
Import ListNotations.
Local Open Scope R_scope.

(** * Number operations *)
Definition Rltb (a b : R) : bool := if Rlt_dec a b then true else false.

(** EDSpec's number type at Coquelicot's complex numbers; the exponential is the real one
    (EDSpec applies it to real arguments only). *)
Definition CNum : numops C := {|
  n0 := RtoC 0; n1 := RtoC 1; nadd := Cplus; nsub := Cminus; nmul := Cmult; ndiv := Cdiv;
  nopp := Copp; nconj := Cconj; nexp := fun z => RtoC (exp (Re z));
  nre_ltb := fun a b => Rltb (Re a) (Re b); nabs := fun z => RtoC (Cmod z);
  nofZ := fun k => RtoC (IZR k); nI := Ci |}.

(** operations for the generated per-term formulas *)
Definition ROps : termops R := {|
  t_add := Rplus; t_sub := Rminus; t_mul := Rmult; t_div := Rdiv; t_opp := Ropp; t_exp := exp;
  t_ofZ := IZR; t_ltb := Rltb |}.
Definition COps : termops C := {|
  t_add := Cplus; t_sub := Cminus; t_mul := Cmult; t_div := Cdiv; t_opp := Copp;
  t_exp := fun z => RtoC (exp (Re z)); t_ofZ := fun k => RtoC (IZR k);
  t_ltb := fun a b => Rltb (Re a) (Re b) |}.

(** * Plain Lehmann sums (what the library stores: TermList<Term>) *)
Definition term := (C * R)%type.           (* (Residue, Pole) *)

Definition csum (l : list C) : C := fold_right Cplus (RtoC 0) l.
Definition rsum (l : list R) : R := fold_right Rplus 0 l.

(** GreensFunctionPart::Term::operator()(Frequency), generated *)
Definition term_z (t : term) (z : C) : C := term_freq C COps (fst t) (RtoC (snd t)) z.
(** GreensFunctionPart::Term::operator()(tau, beta), generated, complex residue *)
Definition term_t (t : term) (beta tau : R) : C :=
  term_tau C COps (fst t) (RtoC (snd t)) (RtoC tau) (RtoC beta).
(** the same generated formula at real numbers (real residue r) *)
Definition term_tR (r P beta tau : R) : R := term_tau R ROps r P tau beta.

Definition lehmann (l : list term) (z : C) : C := csum (map (fun t => term_z t z) l).
Definition lehmann_tau (l : list term) (beta tau : R) : C := csum (map (fun t => term_t t beta tau) l).
Definition residue_sum (l : list term) : C := csum (map fst l).

(** * Structured Lehmann data: eigenbasis of dimension dim, energies, weights,
      matrix elements  cop i n m = <n| c_i |m>. *)
Record ldata := { dim : nat; En : nat -> R; wn : nat -> R; cop : nat -> nat -> nat -> C }.

Definition residue (D : ldata) (i j n m : nat) : C :=
  (cop D i n m * Cconj (cop D j n m) * RtoC (wn D n + wn D m))%C.
Definition pole (D : ldata) (n m : nat) : R := En D m - En D n.
Definition gterms (D : ldata) (i j : nat) : list term :=
  flat_map (fun n => map (fun m => (residue D i j n m, pole D n m)) (seq 0 (dim D))) (seq 0 (dim D)).

Definition G (D : ldata) (i j : nat) (z : C) : C := lehmann (gterms D i j) z.
Definition Gtau (D : ldata) (beta : R) (i j : nat) (tau : R) : C := lehmann_tau (gterms D i j) beta tau.

Definition delta (i j : nat) : C := if Nat.eqb i j then RtoC 1 else RtoC 0.

(** tables / matrices of EDSpec built from the functions of an [ldata] *)
Definition tabR (d : nat) (f : nat -> R) : list C := map (fun k => RtoC (f k)) (seq 0 d).
Definition matC (d : nat) (f : nat -> nat -> C) : list (list C) :=
  map (fun r => map (fun c => f r c) (seq 0 d)) (seq 0 d).

(** * Hypotheses on the data (each is a property the ED chain establishes: C10, C09) *)

(** the canonical anticommutation relation {c_i, c^+_j} = delta_ij, diagonal entries in the eigenbasis:
    sum_m c^i_{nm} conj(c^j_{nm}) + sum_m conj(c^j_{mn}) c^i_{mn} = delta_ij for every n *)
Definition car_diag (D : ldata) (i j : nat) : Prop :=
  forall n, (n < dim D)%nat ->
    (csum (map (fun m => cop D i n m * Cconj (cop D j n m)) (seq 0 (dim D))) +
     csum (map (fun m => Cconj (cop D j m n) * cop D i m n) (seq 0 (dim D))))%C = delta i j.

(** sum_n w_n = 1 *)
Definition weights_normalised (D : ldata) : Prop := rsum (map (wn D) (seq 0 (dim D))) = 1.
Definition weights_nonneg (D : ldata) : Prop := forall n, (n < dim D)%nat -> 0 <= wn D n.

(** the Boltzmann relation  w_m = w_n exp(-beta (E_m - E_n)) *)
Definition boltzmann (D : ldata) (beta : R) : Prop :=
  forall n m, (n < dim D)%nat -> (m < dim D)%nat -> wn D m = wn D n * exp (- beta * (En D m - En D n)).

(** residues that are non-negative reals (diagonal components: |c_nm|^2 (w_n + w_m)) *)
Definition nonneg_residues (l : list term) : Prop :=
  forall t, In t l -> Im (fst t) = 0 /\ 0 <= Re (fst t).

(** the occupation <n_i> = Tr(rho c^+_i c_i) = sum_m w_m sum_n |c^i_{nm}|^2 from the density matrix *)
Definition occupation (D : ldata) (i : nat) : R :=
  rsum (map (fun m => wn D m * rsum (map (fun n => (Cmod (cop D i n m)) ^ 2) (seq 0 (dim D)))) (seq 0 (dim D))).
(** the matrix of c^+_i c_i in the eigenbasis *)
Definition ndens (D : ldata) (i : nat) (m m' : nat) : C :=
  csum (map (fun n => (Cconj (cop D i n m) * cop D i n m')%C) (seq 0 (dim D))).

(** fermionic Matsubara frequency  omega_n = (2n+1) pi / beta *)
Definition matsubara (beta : R) (n : Z) : R := IZR (2 * n + 1) * PI / beta.

(** * A non-trivial value for the examples: one fermionic mode with level e at inverse temperature b.
      States 0 = empty, 1 = occupied; <0|c_0|1> = 1. *)
Definition one_mode (e b : R) : ldata := {|
  dim := 2;
  En := fun n => if Nat.eqb n 1 then e else 0;
  wn := fun n => if Nat.eqb n 1 then exp (- b * e) / (1 + exp (- b * e)) else 1 / (1 + exp (- b * e));
  cop := fun i n m => if (Nat.eqb i 0 && Nat.eqb n 0 && Nat.eqb m 1)%bool then RtoC 1 else RtoC 0 |}.
