(** IndexShapes.v -- the vocabulary in which translator/gen_index.py describes the control structure of IndexClassification
    (property C18).  The generated files coq/gen/Gen_Index*.v say in these terms what the source text of the tree under test does;
    PV.IndexGen interprets the descriptions (the [..._src] functions).

    Hand-written; nothing here computes anything. *)

(** the members of IndexClassification that prepare() may reset before it starts *)
Inductive idx_member : Set :=
| MemIndexSize                  (* IndexSize = 0; *)
| MemInfoToIndices              (* InfoToIndices.clear(); *)
| MemIndicesToInfo.             (* IndicesToInfo.clear(); *)

(** what the test in front of the orbital loop of the spin-major enumeration does with a site it does not want *)
Inductive skip_action : Set :=
| SkipContinue                  (* if (...) continue;  -- next site *)
| SkipBreak.                    (* if (...) break;     -- no further site for this spin *)

(** how the loop at the end of prepare() stores (key, value) into the std::map InfoToIndices *)
Inductive map_store : Set :=
| StoreAssign                   (* InfoToIndices[key] = value;                          an equivalent key is overwritten *)
| StoreInsert.                  (* InfoToIndices.insert(std::make_pair(key, value));    an equivalent key keeps its old value *)
