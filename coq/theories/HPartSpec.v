(** Specification side for C03 / C10, on top of the full-Fock-space specification [EDSpec]:
    restriction of a full-space matrix to the states of a block, rotation of a block of an operator
    into the eigenbasis and back, assembly of the stored blocks into one global eigenbasis matrix,
    anticommutators.  Used (extracted, at binary64 complex numbers) by the correspondence checks, and
    as the right-hand sides of the theorems in HPartProofs.v. *)
Require Import Bool List Arith ZArith.
From PV Require Import Outcome Fock Poly EDSpec.
Import ListNotations.

Section Spec.
Variable K : Type.
Variable NO : numops K.
Notation "0" := (n0 K NO).
Notation "1" := (n1 K NO).
Notation kadd := (nadd K NO).
Notation ksub := (nsub K NO).
Notation ltb := (nre_ltb K NO).
Notation kabs := (nabs K NO).

(** rows [rows], columns [cols] of a matrix *)
Definition restrict (m : mat K) (rows cols : list nat) : mat K :=
  map (fun t => map (fun s => mget K NO m t s) cols) rows.

(** the block <to states| P |from states> of the full-space matrix of a polynomial *)
Definition jw_block (M : nat) (p : list (monomial * K)) (toStates fromStates : list nat) : mat K :=
  restrict (poly_matrix K NO M p) toStates fromStates.

(** U_to^+ O U_from   (O : nt x nf) *)
Definition rotate_block (nt nf : nat) (Uto O Ufrom : mat K) : mat K :=
  mmul K NO nf (adjoint K NO nt Uto) (mmul K NO nf O Ufrom).
(** U_to C U_from^+ *)
Definition rotate_back (nt nf : nat) (Uto C Ufrom : mat K) : mat K :=
  mmul K NO nf Uto (mmul K NO nf C (adjoint K NO nf Ufrom)).

(** max |a_ij - b_ij| over the shape of [a] *)
Definition max_dev (a b : mat K) : K :=
  max_abs K NO (concat (map (fun ir => map (fun jc => ksub (snd jc) (mget K NO b (fst ir) (fst jc))) (idx (snd ir))) (idx a))).

(** number of entries (t, s) of a full-space matrix that are non-zero although the pair
    (block of t, block of s) is not one of the stored block pairs *)
Definition outside_blocks (m : mat K) (blk : nat -> nat) (pairs : list (nat * nat)) : nat :=
  length (filter (fun x => x)
    (concat (map (fun ir => map (fun jc =>
       ltb 0 (kabs (snd jc)) &&
       negb (existsb (fun lr => Nat.eqb (fst lr) (blk (fst ir)) && Nat.eqb (snd lr) (blk (fst jc))) pairs))
       (idx (snd ir))) (idx m)))).

(** global eigenbasis index g = offset of its block + position; [sizes] = block sizes in block order *)
Fixpoint locate (sizes : list nat) (g : nat) (b : nat) : nat * nat :=
  match sizes with
  | [] => (b, g)
  | n :: rest => if g <? n then (b, g) else locate rest (g - n) (S b)
  end.

(** the stored blocks ((left, right), matrix) assembled into one dim x dim matrix *)
Definition assemble (sizes : list nat) (parts : list ((nat * nat) * mat K)) : mat K :=
  let dim := fold_left Nat.add sizes 0%nat in
  map (fun g =>
    let bk := locate sizes g 0 in
    map (fun g' =>
      let bk' := locate sizes g' 0 in
      match find (fun e => Nat.eqb (fst (fst e)) (fst bk) && Nat.eqb (snd (fst e)) (fst bk')) parts with
      | Some (_, m) => mget K NO m (snd bk) (snd bk')
      | None => 0
      end) (seq 0 dim)) (seq 0 dim).

Definition madd (a b : mat K) : mat K := map (fun rr => map (fun xy => kadd (fst xy) (snd xy)) (combine (fst rr) (snd rr))) (combine a b).
Definition anticomm (dim : nat) (a b : mat K) : mat K := madd (mmul K NO dim a b) (mmul K NO dim b a).
Definition scalar_mat (dim : nat) (c : K) : mat K :=
  map (fun i => map (fun j => if Nat.eqb i j then c else 0) (seq 0 dim)) (seq 0 dim).

End Spec.
