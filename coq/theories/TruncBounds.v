(** TruncBounds.v -- block truncation at the level of the full-space specification (property C19).

    PV.EDSpec defines the two-particle Green's function ([chi], kernel [phi] of doc/gamma4.tex) and the dynamical
    susceptibility ([susc]) as Lehmann sums over ALL eigenstates.  DensityMatrix::truncateBlocks does not change a
    weight; what changes is the set of parts the prepare functions create: a part is skipped iff ALL its blocks are
    discarded (props/Properties_C19.v: tpgf_parts_skipped_only_if_all_discarded, susc_parts_skipped_only_if_all_discarded).
    A Lehmann chain (i,j,k,l) with non-vanishing matrix elements lies in exactly one part, the one whose four blocks
    are the blocks of i, j, k, l.  Hence the truncated observable is the SAME Lehmann sum with the chains omitted all
    of whose states lie in discarded blocks.

    This file writes that down: [chi_mask] / [susc_mask] are EDSpec.chi / EDSpec.susc with a Boolean mask on the
    chains (definitionally equal to the EDSpec functions for the mask "true": TruncBoundsProofs.chi_mask_all,
    susc_mask_all), and [trunc_keep4] / [trunc_keep2] are the masks produced by truncation on top of an arbitrary
    mask [pres] (terms present in both runs; the library's own residue thresholds drop the same terms in both runs
    because the weights are unchanged).

    Generic in the number type, like EDSpec; the bounds are proved at Coquelicot's complex numbers in
    TruncBoundsProofs.v. *)
Require Import Bool List Arith ZArith Reals.
From Coquelicot Require Import Complex.
From PV Require Import Outcome Fock Poly EDSpec ThermalSpec.
Import ListNotations.

Section Masked.
Variable K : Type.
Variable NO : numops K.
Notation "0" := (n0 K NO).
Infix "+" := (nadd K NO).
Infix "-" := (nsub K NO).
Infix "*" := (nmul K NO).
Infix "/" := (ndiv K NO).
Notation "- x" := (nopp K NO x).
Notation ltb := (nre_ltb K NO).
Notation kabs := (nabs K NO).
Notation ksum := (ksum K NO).
Notation mget := (mget K NO).
Notation phi := (phi K NO).

(** the entries of a row that the specification does not skip (EDSpec.chi_ordering's [nz]) *)
Definition nzrow (r : list K) : list (nat * K) := filter (fun jc => ltb 0 (kabs (snd jc))) (idx r).

(** a sum over the Lehmann 4-chains i -> j -> k -> l of three matrices, exactly as EDSpec.chi_ordering runs it;
    [F i j k l a b c] is the summand, a = <i|O1|j>, b = <j|O2|k>, c = <k|O3|l> *)
Definition chain_sum (O1 O2 O3 : list (list K)) (F : nat -> nat -> nat -> nat -> K -> K -> K -> K) : K :=
  ksum (idx O1) (fun ir =>
    ksum (nzrow (snd ir)) (fun ja =>
      ksum (nzrow (nth (fst ja) O2 [])) (fun kb =>
        ksum (nzrow (nth (fst kb) O3 [])) (fun lc =>
          F (fst ir) (fst ja) (fst kb) (fst lc) (snd ja) (snd kb) (snd lc))))).

(** EDSpec.chi_ordering with a mask on the chains *)
Definition chi_ordering_mask (keep : nat -> nat -> nat -> nat -> bool) (beta tol : K) (E w : list K)
    (O1 O2 O3 O4 : list (list K)) (z1 z2 z3 : K) : K :=
  chain_sum O1 O2 O3 (fun i j k l a b c =>
    if keep i j k l
    then a * b * c * mget O4 l i *
         phi beta tol (nth i E 0) (nth j E 0) (nth k E 0) (nth l E 0)
             (nth i w 0) (nth j w 0) (nth k w 0) (nth l w 0) z1 z2 z3
    else 0).

(** EDSpec.chi with a mask per operator ordering (the permutation of (c_1, c_2, c^+_3) names the ordering) *)
Definition chi_mask (keep : list nat -> nat -> nat -> nat -> nat -> bool) (beta tol : K) (E w : list K)
    (C1 C2 CX3 CX4 : list (list K)) (z1 z2 z3 : K) : K :=
  let ops := [C1; C2; CX3] in
  let zs := [z1; z2; - z3] in
  ksum perms3 (fun ps =>
    let p := fst ps in
    let v := chi_ordering_mask (keep p) beta tol E w
               (nth (nth 0 p 0%nat) ops []) (nth (nth 1 p 0%nat) ops []) (nth (nth 2 p 0%nat) ops []) CX4
               (nth (nth 0 p 0%nat) zs 0) (nth (nth 1 p 0%nat) zs 0) (nth (nth 2 p 0%nat) zs 0) in
    if snd ps then - v else v).

(** EDSpec.susc with a mask on the pairs (n, m) *)
Definition susc_mask (keep : nat -> nat -> bool) (beta tol : K) (E w : list K) (A B : list (list K))
    (z : K) (z_is_zero : bool) : K :=
  ksum (idx A) (fun nr =>
    let n := fst nr in
    ksum (idx (snd nr)) (fun mc =>
      let m := fst mc in
      if keep n m then
        let ab := snd mc * mget B m n in
        let P := nth m E 0 - nth n E 0 in
        if ltb (kabs P) tol then (if z_is_zero then beta * ab * nth n w 0 else 0)
        else ab * (nth m w 0 - nth n w 0) / (z - P)
      else 0)).

End Masked.

(** * The masks produced by block truncation *)

(** [drop s] = eigenstate s lies in a discarded block *)
Definition state_dropped (ret : nat -> bool) (blk : nat -> nat) (s : nat) : bool := negb (ret (blk s)).

(** TwoParticleGF::prepare skips a part iff all four blocks are discarded: a chain survives truncation iff it was
    present and not all of its four states are dropped *)
Definition all_dropped4 (drop : nat -> bool) (i j k l : nat) : bool := drop i && drop j && drop k && drop l.
Definition trunc_keep4 (drop : nat -> bool) (pres : list nat -> nat -> nat -> nat -> nat -> bool)
    (p : list nat) (i j k l : nat) : bool :=
  pres p i j k l && negb (all_dropped4 drop i j k l).

(** Susceptibility::prepare skips a part iff both blocks are discarded *)
Definition trunc_keep2 (drop : nat -> bool) (pres : nat -> nat -> bool) (n m : nat) : bool :=
  pres n m && negb (drop n && drop m).

(** * Matrices over C as lists of rows: shape and squared Frobenius norm (hypotheses of the bounds) *)
Definition sq (n : nat) (O : list (list C)) : Prop := length O = n /\ forall row, In row O -> length row = n.
Definition frob2 (O : list (list C)) : R := lsum (fun row => lsum (fun x => (Cmod x * Cmod x)%R) row) O.
