(** LatticeGenProofs.v -- C20: the statement-by-statement translations that translator/gen_lattice.py makes of Lattice.cpp /
    LatticePresets.cpp are the functions PV.Lattice writes by hand (in its repaired configuration), hence the state machine
    PV.LatticeGen builds from the translations is [step repaired], hence the theorems of PV.LatticeProofs hold of it.

    Layer 1 (leaf agreements, [gen_..._is_model]): one lemma per generated file, closed by reflexivity, a case analysis on the
    site look-ups, or (Lattice::addTerm) an induction over the validation loop.  They stop checking when the source text says
    something else.
    Layer 2: the table of translations [presets_src] agrees entry by entry with the model; [step_src = step repaired].
    Layer 3: the theorems of props/Properties_C20_source.v, transported along layer 2. *)
Require Import List Bool Arith Lia QArith.
From PV Require Import Outcome Lattice LatticeProofs LatticeShapes LatticeGen.
From PVgen Require Import Gen_LatticePresets Gen_LatticeInit Gen_LatticeAddSite Gen_LatticeAddSite3 Gen_LatticeAddTerm
                          Gen_LatticeStorageAddTerm Gen_LatticeGetTerms Gen_LatticeGetMaxTermOrder Gen_LatticeGetSite Gen_LatticeCopy
                          Gen_LatticeAddCoulombS Gen_LatticeAddCoulombP6 Gen_LatticeAddCoulombP5 Gen_LatticeAddLevel
                          Gen_LatticeAddMagnetization Gen_LatticeAddSzSz Gen_LatticeAddSS Gen_LatticeAddHopping8
                          Gen_LatticeAddHopping7 Gen_LatticeAddHopping6 Gen_LatticeAddHopping4.
Import ListNotations.
Local Open Scope nat_scope.
Local Open Scope bool_scope.

Ltac split_cmp :=
  repeat match goal with
  | |- context [Nat.eqb ?a ?b] => destruct (Nat.eqb_spec a b)
  | |- context [Nat.ltb ?a ?b] => destruct (Nat.ltb_spec a b)
  | |- context [Nat.leb ?a ?b] => destruct (Nat.leb_spec a b)
  end.

Section Proofs.
Variable L : Type.
Variable leqb : L -> L -> bool.
Variable V : Type.
Variable vo : vops V.

Notation term := (term L V).
Notation W := (W L V).
Notation state := (state L V).

(** * Layer 1: what the source text says *)

Lemma gen_init_is_model : gen_init_maxorder = 0.
Proof. reflexivity. Qed.

Lemma gen_addSite_is_model : forall (S : Type) (l : L) (s : S),
  gen_addSite_entry L S l s = (l, s) /\ gen_addSite_overwrites = true.
Proof. intros. split; reflexivity. Qed.

Lemma gen_addSite3_is_model : forall (l : L) (a b : nat), gen_addSite3 L l a b = (l, (a, b)).
Proof. intros. reflexivity. Qed.

(** TermStorage::addTerm: the list of the term's own order, MaxTermOrder = max, whatever was there *)
Lemma gen_ts_is_model : forall (mo N : nat) (fresh : bool),
  gen_ts_key N = N /\ gen_ts_maxorder mo N fresh = Nat.max mo N /\ gen_ts_stores_copy = true.
Proof.
  intros. split; [reflexivity|]. split; [|reflexivity].
  unfold gen_ts_maxorder. split_cmp; lia.
Qed.

Lemma gen_getTerms_is_model : forall (T : Type) (found : option (list T)),
  gen_getTerms T found = match found with Some l => l | None => [] end.
Proof. intros. reflexivity. Qed.

Lemma gen_getMaxTermOrder_is_model : forall n : nat, gen_getMaxTermOrder n = n.
Proof. intros. reflexivity. Qed.

Lemma gen_getSite_is_model : forall found : option shape,
  gen_getSite found = match found with Some s => Done s | None => Throws exWrongLabel end.
Proof. intros [s|]; reflexivity. Qed.

Lemma gen_copy_is_model : forall (S T : Type) (s : S) (t : T) (n : nat), gen_copy S T s t n = (s, t, n).
Proof. intros. reflexivity. Qed.

(** ** Lattice::addTerm: the loop over the positions of the term is PV.Lattice.validate *)

Definition lift (r : outcome unit) : W :=
  match r with
  | Done _ => wret L V
  | Throws c => wthrow L V c
  | _ => woob L V
  end.

(** the three tests of one position, as validate makes them *)
Definition item_check (m : site_map L) (l : L) (o s : nat) : outcome unit :=
  match find_site L leqb l m with
  | None => Throws exWrongLabel
  | Some (norb, nspin) =>
    if norb <=? o then Throws exWrongLabel else if nspin <=? s then Throws exWrongLabel else Done tt
  end.

Lemma skipn_nth_error {A : Type} : forall (l : list A) (i : nat),
  skipn i l = match nth_error l i with Some x => x :: skipn (S i) l | None => [] end.
Proof.
  induction l as [|a l IH]; intros [|i]; cbn [skipn nth_error]; try reflexivity.
  rewrite IH. destruct (nth_error l i); reflexivity.
Qed.

Lemma validate_loop : forall (m : site_map L) (t : term) (K : L -> nat -> nat -> W),
  (forall l o s, K l o s = lift (item_check m l o s)) ->
  forall k i : nat,
  wfor_from L V k i (fun c => wterm_at L V t c K) =
  lift (validate L leqb m k (skipn i (t_labels t)) (skipn i (t_orbs t)) (skipn i (t_spins t))).
Proof.
  intros m t K HK k. induction k as [|k IH]; intro i; cbn [wfor_from validate]; [reflexivity|].
  rewrite (skipn_nth_error (t_labels t) i), (skipn_nth_error (t_orbs t) i), (skipn_nth_error (t_spins t) i).
  unfold wterm_at.
  destruct (nth_error (t_labels t) i) as [l|]; [|reflexivity].
  destruct (nth_error (t_orbs t) i) as [o|]; [|reflexivity].
  destruct (nth_error (t_spins t) i) as [s|]; [|reflexivity].
  rewrite HK, IH. unfold item_check.
  destruct (find_site L leqb l m) as [[norb nspin]|]; [|reflexivity].
  destruct (norb <=? o); [reflexivity|]. destruct (nspin <=? s); [reflexivity|].
  cbn [lift]. unfold wseq, wret. cbn [fst snd app].
  destruct (lift _) as [ts r]. reflexivity.
Qed.

Lemma gen_addTerm_is_model : forall (m : site_map L) (t : term),
  gen_addTerm L leqb V vo m t = w_addTerm L leqb V vo m t.
Proof.
  intros m t. unfold gen_addTerm, w_addTerm. cbv zeta. unfold wfor.
  rewrite (validate_loop m t).
  - cbn [skipn]. destruct (validate L leqb m (t_order t) (t_labels t) (t_orbs t) (t_spins t)); cbn [lift]; try reflexivity.
    unfold wwhen. destruct (vnz vo (t_val t)); reflexivity.
  - intros l o s. unfold item_check, site_absent, wsite.
    destruct (find_site L leqb l m) as [[norb nspin]|]; [|reflexivity].
    destruct (norb <=? o); [reflexivity|]. destruct (nspin <=? s); reflexivity.
Qed.

(** ** the presets that call nothing *)

Lemma gen_addCoulombS4_is_model : forall (P : preset_table L V) (m : site_map L) (l : L) (U lev : V),
  gen_addCoulombS4 L leqb V vo P m l U lev = addCoulombS L leqb V vo m l U lev.
Proof.
  intros. unfold gen_addCoulombS4, addCoulombS, site_absent, wsite.
  destruct (find_site L leqb l m) as [[norb nspin]|]; reflexivity.
Qed.

Lemma gen_addCoulombP6_is_model : forall (P : preset_table L V) (m : site_map L) (l : L) (U Up J lev : V),
  gen_addCoulombP6 L leqb V vo P m l U Up J lev = addCoulombP L leqb V vo m l U Up J lev.
Proof.
  intros. unfold gen_addCoulombP6, addCoulombP, site_absent, wsite.
  destruct (find_site L leqb l m) as [[norb nspin]|]; reflexivity.
Qed.

Lemma gen_addLevel3_is_model : forall (P : preset_table L V) (m : site_map L) (l : L) (lev : V),
  gen_addLevel3 L leqb V vo P m l lev = addLevel L leqb V vo m l lev.
Proof.
  intros. unfold gen_addLevel3, addLevel, site_absent, wsite.
  destruct (find_site L leqb l m) as [[norb nspin]|]; reflexivity.
Qed.

Lemma gen_addMagnetization3_is_model : forall (P : preset_table L V) (m : site_map L) (l : L) (mag : V),
  gen_addMagnetization3 L leqb V vo P m l mag = addMagnetization L leqb V vo m l mag.
Proof.
  intros. unfold gen_addMagnetization3, addMagnetization, site_absent, wsite.
  destruct (find_site L leqb l m) as [[norb nspin]|]; reflexivity.
Qed.

(** ** the presets that call Lattice::addTerm or another preset: the callee is read from the table *)

Definition addTerm_ok (P : preset_table L V) : Prop :=
  forall m t, p_addTerm L V P m t = w_addTerm L leqb V vo m t.
Definition coulombP6_ok (P : preset_table L V) : Prop :=
  forall m l U Up J lev, p_addCoulombP6 L V P m l U Up J lev = addCoulombP L leqb V vo m l U Up J lev.
Definition szsz_ok (P : preset_table L V) : Prop :=
  forall m l1 l2 J, p_addSzSz4 L V P m l1 l2 J = addSzSz L leqb V vo repaired m l1 l2 J.
Definition hopping8_ok (P : preset_table L V) : Prop :=
  forall m l1 l2 t o1 o2 s1 s2, p_addHopping8 L V P m l1 l2 t o1 o2 s1 s2 = addHopping8 L leqb V vo m l1 l2 t o1 o2 s1 s2.

Lemma wadd_via_is_model : forall (P : preset_table L V), addTerm_ok P ->
  forall (m : site_map L) (f : fcall L V), wadd_via L leqb V (p_addTerm L V P) m f = wadd_f L leqb V vo m f.
Proof. intros P H m f. unfold wadd_via, wadd_f. destruct (factory L leqb V f); try reflexivity. apply H. Qed.

Lemma wfor_from_ext : forall (f g : nat -> W), (forall i, f i = g i) ->
  forall k i, wfor_from L V k i f = wfor_from L V k i g.
Proof. intros f g H k. induction k as [|k IH]; intro i; cbn [wfor_from]; [reflexivity|]. rewrite H, IH. reflexivity. Qed.

Lemma wfor_ext : forall (n : nat) (f g : nat -> W), (forall i, f i = g i) -> wfor L V n f = wfor L V n g.
Proof. intros. unfold wfor. apply wfor_from_ext. assumption. Qed.

(** both spin sizes AND both orbital sizes of the two sites are compared: the repaired configuration of PV.Lattice.
    The source's `if (Label1 != Label2) {A} else {B}` is read as `if (Label1 == Label2) {B} else {A}` (translator/cstmt.py: an
    if / else with a negated condition is oriented positively, so that inverting the branches in the source changes nothing);
    PV.Lattice keeps the order of the source text, hence the case analysis on [leqb l1 l2] inside the loop. *)
Lemma gen_addSzSz4_is_model : forall (P : preset_table L V) (m : site_map L) (l1 l2 : L) (J : V),
  gen_addSzSz4 L leqb V vo P m l1 l2 J = addSzSz L leqb V vo repaired m l1 l2 J.
Proof.
  intros. unfold gen_addSzSz4, addSzSz, site_absent, wsite.
  destruct (find_site L leqb l1 m) as [[o1 s1]|]; [|reflexivity].
  destruct (find_site L leqb l2 m) as [[o2 s2]|]; [|reflexivity].
  cbn [fst snd]. replace (cmp_spins repaired (o1, s1) (o2, s2)) with s2 by reflexivity.
  repeat match goal with
         | |- (if ?c then _ else _) = (if ?c then _ else _) => destruct c; [reflexivity|]
         end.
  apply wfor_ext. intro i. destruct (leqb l1 l2); reflexivity.
Qed.

Lemma gen_addCoulombP5_is_model : forall (P : preset_table L V), coulombP6_ok P ->
  forall (m : site_map L) (l : L) (U J lev : V),
  gen_addCoulombP5 L leqb V vo P m l U J lev = addCoulombP3 L leqb V vo m l U J lev.
Proof. intros P H m l U J lev. unfold gen_addCoulombP5, addCoulombP3. apply H. Qed.

Lemma gen_addSS4_is_model : forall (P : preset_table L V), szsz_ok P ->
  forall (m : site_map L) (l1 l2 : L) (J : V),
  gen_addSS4 L leqb V vo P m l1 l2 J = addSS L leqb V vo repaired m l1 l2 J.
Proof.
  intros P H m l1 l2 J. unfold gen_addSS4, addSS, site_absent, wsite.
  destruct (find_site L leqb l1 m) as [[o1 s1]|]; [|reflexivity].
  destruct (find_site L leqb l2 m) as [[o2 s2]|]; [|reflexivity].
  rewrite H. reflexivity.
Qed.

Lemma gen_addHopping8_is_model : forall (P : preset_table L V), addTerm_ok P ->
  forall (m : site_map L) (l1 l2 : L) (t : V) (o1 o2 s1 s2 : nat),
  gen_addHopping8 L leqb V vo P m l1 l2 t o1 o2 s1 s2 = addHopping8 L leqb V vo m l1 l2 t o1 o2 s1 s2.
Proof.
  intros P H m l1 l2 t o1 o2 s1 s2. unfold gen_addHopping8, addHopping8, site_absent, wsite.
  destruct (find_site L leqb l1 m) as [[a1 b1]|]; [|reflexivity].
  destruct (find_site L leqb l2 m) as [[a2 b2]|]; [|reflexivity].
  rewrite !(wadd_via_is_model P H). reflexivity.
Qed.

Lemma gen_addHopping7_is_model : forall (P : preset_table L V), hopping8_ok P ->
  forall (m : site_map L) (l1 l2 : L) (t : V) (o1 o2 s : nat),
  gen_addHopping7 L leqb V vo P m l1 l2 t o1 o2 s = addHopping7 L leqb V vo m l1 l2 t o1 o2 s.
Proof. intros P H m l1 l2 t o1 o2 s. unfold gen_addHopping7, addHopping7. apply H. Qed.

(** the per-orbital overload compares the spin sizes of the two sites ... *)
Lemma gen_addHopping6_is_model : forall (P : preset_table L V), hopping8_ok P ->
  forall (m : site_map L) (l1 l2 : L) (t : V) (o1 o2 : nat),
  gen_addHopping6 L leqb V vo P m l1 l2 t o1 o2 = addHopping6 L leqb V vo repaired m l1 l2 t o1 o2.
Proof.
  intros P H m l1 l2 t o1 o2. unfold gen_addHopping6, addHopping6, site_absent, wsite.
  destruct (find_site L leqb l1 m) as [[a1 b1]|]; [|reflexivity].
  destruct (find_site L leqb l2 m) as [[a2 b2]|]; [|reflexivity].
  cbv zeta. cbn [fst snd cmp_spins fix_shapecheck repaired].
  destruct ((a1 <=? o1) || (a2 <=? o2)); [reflexivity|].
  destruct (negb (b1 =? b2)); [reflexivity|].
  apply wfor_ext. intro z. apply H.
Qed.

(** ... and the all-orbitals overload compares BOTH the orbital and the spin sizes before it stores anything *)
Lemma gen_addHopping4_is_model : forall (P : preset_table L V), hopping8_ok P ->
  forall (m : site_map L) (l1 l2 : L) (t : V),
  gen_addHopping4 L leqb V vo P m l1 l2 t = addHopping4 L leqb V vo repaired m l1 l2 t.
Proof.
  intros P H m l1 l2 t. unfold gen_addHopping4, addHopping4, site_absent, wsite.
  destruct (find_site L leqb l1 m) as [[a1 b1]|]; [|reflexivity].
  destruct (find_site L leqb l2 m) as [[a2 b2]|]; [|reflexivity].
  cbv zeta. cbn [fst snd cmp_spins fix_shapecheck repaired].
  destruct (negb (a1 =? a2) || negb (b1 =? b2)); [reflexivity|].
  apply wfor_ext. intro z. apply wfor_ext. intro i. apply H.
Qed.

(** * Layer 2: the table of translations, the state machine *)

Lemma presets_round1 : forall P : preset_table L V,
  addTerm_ok (presets_step L leqb V vo P) /\ coulombP6_ok (presets_step L leqb V vo P) /\ szsz_ok (presets_step L leqb V vo P).
Proof.
  intro P. split; [|split].
  - intros m t. apply gen_addTerm_is_model.
  - intros m l U Up J lev. apply gen_addCoulombP6_is_model.
  - intros m l1 l2 J. apply gen_addSzSz4_is_model.
Qed.

Lemma presets_round2 : forall P : preset_table L V, addTerm_ok P ->
  hopping8_ok (presets_step L leqb V vo P).
Proof. intros P H m l1 l2 t o1 o2 s1 s2. apply gen_addHopping8_is_model. exact H. Qed.

(** every entry of the table PV.LatticeGen uses is the hand-written function *)
Theorem presets_src_is_model : forall (m : site_map L) (p : pcall L V),
  preset_src L leqb V vo m p = preset L leqb V vo repaired m p.
Proof.
  intros m p. unfold preset_src, presets_src.
  set (P1 := presets_step L leqb V vo (presets_stub L V)).
  set (P2 := presets_step L leqb V vo P1).
  destruct (presets_round1 (presets_stub L V)) as [A1 _]. fold P1 in A1.
  destruct (presets_round1 P1) as [A2 [C2 S2]]. fold P2 in A2, C2, S2.
  pose proof (presets_round2 P1 A1) as H2. fold P2 in H2.
  destruct p; cbn [preset p_addCoulombS4 p_addCoulombP6 p_addCoulombP5 p_addLevel3 p_addMagnetization3 p_addSzSz4 p_addSS4
                   p_addHopping8 p_addHopping7 p_addHopping6 p_addHopping4 presets_step].
  - apply gen_addCoulombS4_is_model.
  - apply gen_addCoulombP6_is_model.
  - apply gen_addCoulombP5_is_model. exact C2.
  - apply gen_addLevel3_is_model.
  - apply gen_addMagnetization3_is_model.
  - apply gen_addSzSz4_is_model.
  - apply gen_addSS4_is_model. exact S2.
  - apply gen_addHopping8_is_model. exact A2.
  - apply gen_addHopping7_is_model. exact H2.
  - apply gen_addHopping6_is_model. exact H2.
  - apply gen_addHopping4_is_model. exact H2.
Qed.

Theorem w_addTerm_src_is_model : forall (m : site_map L) (t : term),
  w_addTerm_src L leqb V vo m t = w_addTerm L leqb V vo m t.
Proof. intros. unfold w_addTerm_src, presets_src. cbn [p_addTerm presets_step]. apply gen_addTerm_is_model. Qed.

Lemma max_is_model : forall a b : nat, Nat.max a b = if a <? b then b else a.
Proof. intros. split_cmp; lia. Qed.

Lemma tm_find_is_get : forall (n : nat) (m : term_map L V),
  match tm_find L V n m with Some l => l | None => [] end = tm_get L V n m.
Proof.
  intros n m. induction m as [|[k l] m IH]; cbn [tm_find tm_get]; [reflexivity|].
  destruct (k =? n); [reflexivity | exact IH].
Qed.

Theorem ts_add_src_is_model : forall (t : term) (st : state), ts_add_src L V t st = ts_add L V t st.
Proof.
  intros t st. unfold ts_add_src, ts_add. cbv zeta.
  destruct (gen_ts_is_model (maxorder st) (t_order t)
              (match tm_find L V (gen_ts_key (t_order t)) (terms st) with None => true | Some _ => false end)) as [Hk [Hm _]].
  rewrite Hm, Hk, max_is_model. reflexivity.
Qed.

Theorem push_all_src_is_model : forall (ts : list term) (st : state), push_all_src L V ts st = push_all L V ts st.
Proof.
  intros ts. unfold push_all_src, push_all. induction ts as [|t r IH]; intro st; cbn [fold_left]; [reflexivity|].
  rewrite ts_add_src_is_model. apply IH.
Qed.

Theorem getTerms_src_is_model : forall (st : state) (n : nat), getTerms_src L V st n = getTerms L V st n.
Proof. intros. unfold getTerms_src, getTerms. rewrite gen_getTerms_is_model. apply tm_find_is_get. Qed.

Theorem getSite_src_is_model : forall (st : state) (l : L), getSite_src L leqb V st l = getSite L leqb V repaired st l.
Proof.
  intros. unfold getSite_src, getSite. rewrite gen_getSite_is_model.
  destruct (find_site L leqb l (sites st)); reflexivity.
Qed.

Theorem add_site3_src_is_model : forall (l : L) (a b : nat) (m : site_map L),
  add_site3_src L leqb l a b m = set_site L leqb l (a, b) m.
Proof. intros. reflexivity. Qed.

Theorem copy_src_is_model : forall st : state, copy_src L V st = copy L V st.
Proof. intros. reflexivity. Qed.

Theorem effect_src_is_model : forall (m : site_map L) (o : op L V),
  effect_src L leqb V vo m o = effect L leqb V vo repaired m o.
Proof.
  intros m o. destruct o; cbn [effect_src effect]; try reflexivity.
  - apply w_addTerm_src_is_model.
  - unfold wadd_via, wadd_f. destruct (factory L leqb V f); try reflexivity. apply w_addTerm_src_is_model.
  - apply presets_src_is_model.
Qed.

Theorem step_src_is_model : forall (o : op L V) (st : state),
  step_src L leqb V vo o st = step L leqb V vo repaired o st.
Proof.
  intros o st. destruct o; cbn [step_src step].
  - rewrite add_site3_src_is_model. reflexivity.
  - rewrite effect_src_is_model, push_all_src_is_model. reflexivity.
  - rewrite effect_src_is_model, push_all_src_is_model. reflexivity.
  - rewrite effect_src_is_model, push_all_src_is_model. reflexivity.
  - rewrite getSite_src_is_model. reflexivity.
  - rewrite getTerms_src_is_model. reflexivity.
  - unfold maxorder_src. rewrite gen_getMaxTermOrder_is_model. reflexivity.
  - rewrite copy_src_is_model. reflexivity.
Qed.

Theorem init_src_is_model : init_src L V = init L V.
Proof. reflexivity. Qed.

Theorem run_src_is_model : forall (h : list (op L V)) (st : state),
  run_src L leqb V vo h st = run L leqb V vo repaired h st.
Proof.
  intros h. unfold run_src, run. induction h as [|o h IH]; intro st; cbn [fold_left]; [reflexivity|].
  rewrite step_src_is_model. apply IH.
Qed.

Theorem results_src_is_model : forall (h : list (op L V)) (st : state),
  results_src L leqb V vo h st = results L leqb V vo repaired h st.
Proof.
  intros h. induction h as [|o h IH]; intro st; cbn [results_src results]; [reflexivity|].
  rewrite step_src_is_model, IH. reflexivity.
Qed.

Theorem accepted_src_is_model : forall (h : list (op L V)) (st : state),
  accepted_src L leqb V vo h st = accepted L leqb V vo repaired h st.
Proof.
  intros h. induction h as [|o h IH]; intro st; cbn [accepted_src accepted]; [reflexivity|].
  rewrite effect_src_is_model, step_src_is_model, IH. reflexivity.
Qed.

(** * Layer 3: C20 about the state machine built from the source text *)

Theorem addTerm_rejects_invalid_src : forall (st : state) (t : term),
  term_wfb L V t = true -> term_valid L leqb V (sites st) t = false ->
  step_src L leqb V vo (AddTerm t) st = (st, Throws exWrongLabel).
Proof. intros. rewrite step_src_is_model. apply LatticeProofs.addTerm_rejects_invalid; assumption. Qed.

Theorem factoryTerm_rejects_src : forall (st : state) (f : fcall L V),
  (factory_defined L V f = false -> step_src L leqb V vo (AddFactoryTerm f) st = (st, Throws exWrongIndices)) /\
  (forall t, factory L leqb V f = Done t -> term_valid L leqb V (sites st) t = false ->
             step_src L leqb V vo (AddFactoryTerm f) st = (st, Throws exWrongLabel)).
Proof. intros. rewrite step_src_is_model. apply LatticeProofs.factoryTerm_rejects. Qed.

Theorem addTerm_zero_ignored_src : forall (st : state) (t : term),
  term_wfb L V t = true -> vnz vo (t_val t) = false ->
  step_src L leqb V vo (AddTerm t) st =
  (st, if term_valid L leqb V (sites st) t then Done ONone else Throws exWrongLabel).
Proof. intros. rewrite step_src_is_model. apply LatticeProofs.addTerm_zero_ignored; assumption. Qed.

Theorem addTerm_accepts_valid_src : forall (st : state) (t : term),
  term_wfb L V t = true -> term_valid L leqb V (sites st) t = true -> vnz vo (t_val t) = true ->
  step_src L leqb V vo (AddTerm t) st = (ts_add_src L V t st, Done ONone) /\
  sites (ts_add_src L V t st) = sites st /\
  forall n, getTerms_src L V (ts_add_src L V t st) n =
            if t_order t =? n then getTerms_src L V st n ++ [t] else getTerms_src L V st n.
Proof.
  intros st t H1 H2 H3. rewrite step_src_is_model, ts_add_src_is_model.
  destruct (LatticeProofs.addTerm_accepts_valid L leqb V vo repaired st t H1 H2 H3) as [A [B C]].
  split; [exact A|]. split; [exact B|]. intro n. rewrite !getTerms_src_is_model. apply C.
Qed.

Theorem presets_reject_undefined_src : forall (st : state) (p : pcall L V),
  preset_defined L leqb V (sites st) p = false ->
  exists c, step_src L leqb V vo (Preset p) st = (st, Throws c).
Proof.
  intros st p H. destruct (LatticeProofs.presets_reject_undefined L leqb V vo repaired st p eq_refl H) as [c Hc].
  exists c. rewrite step_src_is_model. exact Hc.
Qed.

Theorem presets_accept_defined_src : forall (st : state) (p : pcall L V),
  preset_defined L leqb V (sites st) p = true ->
  exists ps, step_src L leqb V vo (Preset p) st = (push_all_src L V ps st, Done ONone) /\
             Forall (fun t => term_valid L leqb V (sites st) t = true) ps.
Proof.
  intros st p H. destruct (LatticeProofs.presets_accept_defined L leqb V vo repaired st p eq_refl H) as [ps [A B]].
  exists ps. rewrite step_src_is_model, push_all_src_is_model. split; assumption.
Qed.

Theorem exception_leaves_lattice_unchanged_src : forall (o : op L V) (st st' : state) (c : nat),
  op_wf L V o -> step_src L leqb V vo o st = (st', Throws c) -> st' = st.
Proof.
  intros o st st' c Hw H. rewrite step_src_is_model in H.
  apply (LatticeProofs.exception_leaves_lattice_unchanged L leqb V vo repaired o st st' c eq_refl Hw H).
Qed.

Theorem pushes_valid_when_stored_src : forall (o : op L V) (st : state),
  op_wf L V o ->
  Forall (fun t => term_valid L leqb V (sites st) t = true) (fst (effect_src L leqb V vo (sites st) o)).
Proof.
  intros o st Hw. rewrite effect_src_is_model.
  apply (LatticeProofs.pushes_valid_when_stored L leqb V vo repaired o st eq_refl Hw).
Qed.

Theorem getTerms_by_order_src : forall (h : list (op L V)) (n : nat),
  step_src L leqb V vo (GetTerms n) (run_src L leqb V vo h (init_src L V)) =
  (run_src L leqb V vo h (init_src L V),
   Done (OTerms (filter (fun t => t_order t =? n) (accepted_src L leqb V vo h (init_src L V))))).
Proof.
  intros. rewrite step_src_is_model, run_src_is_model, accepted_src_is_model, init_src_is_model.
  apply LatticeProofs.getTerms_by_order.
Qed.

Theorem maxOrder_spec_src : forall h : list (op L V),
  step_src L leqb V vo MaxOrder (run_src L leqb V vo h (init_src L V)) =
  (run_src L leqb V vo h (init_src L V),
   Done (ONat (fold_left Nat.max (map t_order (accepted_src L leqb V vo h (init_src L V))) 0))).
Proof.
  intros. rewrite step_src_is_model, run_src_is_model, accepted_src_is_model, init_src_is_model.
  apply LatticeProofs.maxOrder_spec.
Qed.

Theorem copy_same_model_src : forall st : state,
  copy_src L V st = st /\ sites (copy_src L V st) = sites st /\
  (forall n, getTerms_src L V (copy_src L V st) n = getTerms_src L V st n) /\
  maxorder_src L V (copy_src L V st) = maxorder_src L V st.
Proof.
  intro st. rewrite copy_src_is_model. destruct (LatticeProofs.copy_same_model L V st) as [A [B [C D]]].
  split; [exact A|]. split; [exact B|]. split.
  - intro n. rewrite !getTerms_src_is_model. apply C.
  - unfold maxorder_src. rewrite !gen_getMaxTermOrder_is_model. exact D.
Qed.

Theorem copy_behaves_the_same_src : forall (o : op L V) (st : state),
  step_src L leqb V vo o (fst (step_src L leqb V vo Copy st)) = step_src L leqb V vo o st.
Proof. intros. rewrite !step_src_is_model. apply LatticeProofs.copy_behaves_the_same. Qed.

Theorem no_undefined_behaviour_src : forall (o : op L V) (st : state),
  op_wf L V o -> snd (step_src L leqb V vo o st) <> OOB.
Proof.
  intros o st Hw. rewrite step_src_is_model.
  apply (LatticeProofs.no_undefined_behaviour L leqb V vo repaired o st eq_refl eq_refl Hw).
Qed.

Section WithLabels.
Hypothesis leqb_spec : forall a b, leqb a b = true <-> a = b.

Theorem stored_terms_valid_src : forall h : list (op L V),
  history_ok L leqb V vo repaired h (init L V) ->
  forall n t, In t (getTerms_src L V (run_src L leqb V vo h (init_src L V)) n) ->
              term_valid L leqb V (sites (run_src L leqb V vo h (init_src L V))) t = true.
Proof.
  intros h Hh n t. rewrite getTerms_src_is_model, run_src_is_model, init_src_is_model.
  apply (LatticeProofs.stored_terms_valid L leqb leqb_spec V vo repaired h eq_refl Hh).
Qed.

Theorem getSite_spec_src : forall (h : list (op L V)) (l : L),
  step_src L leqb V vo (GetSite l) (run_src L leqb V vo h (init_src L V)) =
  (run_src L leqb V vo h (init_src L V),
   match last_added L leqb V l h None with Some s => Done (OSite s) | None => Throws exWrongLabel end).
Proof.
  intros. rewrite step_src_is_model, run_src_is_model, init_src_is_model.
  apply (LatticeProofs.getSite_spec L leqb leqb_spec V vo repaired h l eq_refl).
Qed.

Theorem getSite_after_addSite_src : forall (h1 h2 : list (op L V)) (l : L) (a b : nat),
  not_readded L V l h2 ->
  snd (step_src L leqb V vo (GetSite l) (run_src L leqb V vo (h1 ++ AddSite l a b :: h2) (init_src L V)))
  = Done (OSite (a, b)).
Proof.
  intros h1 h2 l a b H. rewrite step_src_is_model, run_src_is_model, init_src_is_model.
  apply (LatticeProofs.getSite_after_addSite L leqb leqb_spec V vo repaired h1 h2 l a b eq_refl H).
Qed.

Theorem getSite_unknown_fails_src : forall (h : list (op L V)) (l : L),
  not_readded L V l h ->
  step_src L leqb V vo (GetSite l) (run_src L leqb V vo h (init_src L V)) =
  (run_src L leqb V vo h (init_src L V), Throws exWrongLabel).
Proof.
  intros h l H. rewrite step_src_is_model, run_src_is_model, init_src_is_model.
  apply (LatticeProofs.getSite_unknown_fails L leqb leqb_spec V vo repaired h l eq_refl H).
Qed.

Theorem judge_sound_src : forall (o : op L V) (st : state),
  (forall v, veqb vo v v = true) -> op_wf L V o ->
  judge L leqb V vo (sites st) o (is_exn (snd (step_src L leqb V vo o st)))
        (fst (effect_src L leqb V vo (sites st) o)) = [].
Proof.
  intros o st Hv Hw. rewrite step_src_is_model, effect_src_is_model.
  apply (LatticeProofs.judge_sound L leqb leqb_spec V vo repaired o st Hv eq_refl Hw).
Qed.

End WithLabels.
End Proofs.

(** * Non-vacuity: the machine built from the source text runs, on the histories in which the order of calls matters *)
Module SrcExamples.
  Local Open Scope Q_scope.

  (** two 2-orbital sites; a Coulomb term without level (only 4-operator terms are stored), then hoppings (2-operator terms) *)
  Definition h_decreasing : list qop :=
    [AddSite 0%nat 2%nat 2%nat; AddSite 1%nat 2%nat 2%nat; Preset (PCoulombS 0%nat (1 # 1) 0); Preset (PHopping4 0%nat 1%nat (1 # 2))].

  Example ex_src_is_model_on_history :
    results_src nat Nat.eqb Q q_ops (h_decreasing ++ [MaxOrder; GetTerms 2%nat; GetSite 1%nat; Copy; GetSite 7%nat]) (init_src nat Q)
    = results nat Nat.eqb Q q_ops repaired (h_decreasing ++ [MaxOrder; GetTerms 2%nat; GetSite 1%nat; Copy; GetSite 7%nat]) (init nat Q).
  Proof. vm_compute. reflexivity. Qed.

  (** MaxTermOrder is the LARGEST order stored, also when the first 2-operator term comes after a 4-operator term *)
  Example ex_maxorder_is_a_maximum :
    snd (step_src nat Nat.eqb Q q_ops MaxOrder (run_src nat Nat.eqb Q q_ops h_decreasing (init_src nat Q))) = Done (ONat 4%nat) /\
    length (getTerms_src nat Q (run_src nat Nat.eqb Q q_ops h_decreasing (init_src nat Q)) 4%nat) = 2%nat /\
    length (getTerms_src nat Q (run_src nat Nat.eqb Q q_ops h_decreasing (init_src nat Q)) 2%nat) = 8%nat.
  Proof. vm_compute. repeat split; reflexivity. Qed.

  (** addHopping(L, A, B, t) between sites with different numbers of orbitals is rejected and stores nothing *)
  Definition h_shapes : list qop := [AddSite 0%nat 1%nat 2%nat; AddSite 1%nat 2%nat 2%nat].
  Example ex_hopping4_rejects_mismatch :
    let st := run_src nat Nat.eqb Q q_ops h_shapes (init_src nat Q) in
    step_src nat Nat.eqb Q q_ops (Preset (PHopping4 0%nat 1%nat (1 # 2))) st = (st, Throws exWrongIndices) /\
    step_src nat Nat.eqb Q q_ops (Preset (PHopping4 1%nat 0%nat (1 # 2))) st = (st, Throws exWrongIndices).
  Proof. vm_compute. split; reflexivity. Qed.

  (** a term whose site labels go A, B, A is validated position by position against the right site *)
  Example ex_addTerm_interleaved_labels :
    let st := run_src nat Nat.eqb Q q_ops h_shapes (init_src nat Q) in
    step_src nat Nat.eqb Q q_ops
      (AddTerm (mkTerm [true; false; true; false] [0; 1; 0; 1]%nat [0; 0; 1; 1]%nat [0; 0; 0; 0]%nat (1 # 1))) st
    = (st, Throws exWrongLabel).
  Proof. vm_compute. reflexivity. Qed.
End SrcExamples.
