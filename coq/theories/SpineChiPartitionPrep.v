(** Item (2) of the Stage-5 list in props/Properties_Spine.v -- [chain_ok]: on the world SpineChi.spine_chi_world built from four
    field operators computed by Spine.op_compute on a partition with [partition_ok] and [op_ok], the model of
    TwoParticleGF::prepare (Chi.gf_prepare: for every pair of CX4's bimap, in the order of its right view, the six permutations
    through Chi.prepare_one: getRightIndex / getLeftIndex on the Z-valued copies of the bimaps, the stripe condition, the retention
    test, getPartFromLeftIndex) creates EXACTLY the recorded block chains:
      for the pair (L3, L0) of CX4 and the ordering (A, B, C) of the first three operators a part is created iff
      (L0, L1) is recorded for A, (L2, L3) for C and (L1, L2) for B; the part then is SpineChiChain.chain_part on the four
      stored dense parts, the eigenvalues and weights of L0 .. L3                                      [prepare_ops_spec]
    It is the block-chain counterpart of GFFullProofs.gf_prepare_spec.  The retention test is true for every block (Thermal.dm_compute
    retains all: SpinePartition.spine_dm_ok); no part lookup fails.

    Also here: the value of such a part ([chainp_value]): sign * (the 4-fold sum of the FULL-SPACE summand over the four blocks),
    from SpineChiChain.chain_part_emitted and SpineChiTermLists.termlists_faithful_exact; the stored dense parts are the blocks of the
    rotated full-space operator (SpinePartition.part_of_pair / rotated_block_entry). *)
Require Import Bool List Arith ZArith Lia Permutation Ring_theory Field_theory.
From PV Require Import Outcome Fock Poly EDSpec HPart HPartSpec HPartProofs BigSum GFFullProofs Spine SpineLinAlg SpinePartition
     Chi ChiProofs ChiLehmann SpineChi SpineChiPart SpineChiOneBlock SpineChiTermLists SpineChiMain SpineChiChain.
From PV Require Thermal.
From PVgen Require Import Gen_Multiterm.
Import ListNotations.

(** * lookups in a bimap given as a list of (left, right) pairs of naturals, and its Z-valued copy *)
Definition zp (lr : nat * nat) : Z * Z := (Z.of_nat (fst lr), Z.of_nat (snd lr)).
Definition rgt (prs : list (nat * nat)) (L : nat) : option nat := option_map snd (find (fun lr => fst lr =? L) prs).
Definition lft (prs : list (nat * nat)) (R : nat) : option nat := option_map fst (find (fun lr => snd lr =? R) prs).

Lemma Zofnat_eqb a b : Z.eqb (Z.of_nat a) (Z.of_nat b) = (a =? b).
Proof. destruct (Nat.eqb_spec a b) as [->|H]; [apply Z.eqb_refl|]. apply Z.eqb_neq. lia. Qed.

Lemma rgt_in prs L R : NoDup (map fst prs) -> (rgt prs L = Some R <-> In (L, R) prs).
Proof.
  unfold rgt. induction prs as [|[a b] prs IH]; intros ND.
  - cbn. split; [discriminate|intros []].
  - cbn [map fst] in ND. inversion ND as [|x l Hn ND']; subst. cbn [find fst]. destruct (Nat.eqb_spec a L) as [->|NE].
    + cbn [option_map snd]. split.
      * intros E. injection E as <-. left. reflexivity.
      * intros [E|Hin]; [injection E as <-; reflexivity|]. exfalso. apply Hn. change L with (fst (L, R)). apply in_map. exact Hin.
    + rewrite (IH ND'). split; [intros H; right; exact H|]. intros [E|H]; [injection E as E1 E2; congruence|exact H].
Qed.

Lemma lft_in prs L R : NoDup (map snd prs) -> (lft prs R = Some L <-> In (L, R) prs).
Proof.
  unfold lft. induction prs as [|[a b] prs IH]; intros ND.
  - cbn. split; [discriminate|intros []].
  - cbn [map snd] in ND. inversion ND as [|x l Hn ND']; subst. cbn [find snd]. destruct (Nat.eqb_spec b R) as [->|NE].
    + cbn [option_map fst]. split.
      * intros E. injection E as <-. left. reflexivity.
      * intros [E|Hin]; [injection E as <-; reflexivity|]. exfalso. apply Hn. change R with (snd (L, R)). apply in_map. exact Hin.
    + rewrite (IH ND'). split; [intros H; right; exact H|]. intros [E|H]; [injection E as E1 E2; congruence|exact H].
Qed.

Lemma find_zp_fst prs L :
  find (fun lr : Z * Z => Z.eqb (fst lr) (Z.of_nat L)) (map zp prs) = option_map zp (find (fun lr => fst lr =? L) prs).
Proof.
  induction prs as [|[a b] prs IH]; [reflexivity|]. cbn [map find]. change (fst (zp (a, b))) with (Z.of_nat a). cbn [fst].
  rewrite Zofnat_eqb. destruct (a =? L); [reflexivity|exact IH].
Qed.
Lemma find_zp_snd prs R :
  find (fun lr : Z * Z => Z.eqb (snd lr) (Z.of_nat R)) (map zp prs) = option_map zp (find (fun lr => snd lr =? R) prs).
Proof.
  induction prs as [|[a b] prs IH]; [reflexivity|]. cbn [map find]. change (snd (zp (a, b))) with (Z.of_nat b). cbn [snd].
  rewrite Zofnat_eqb. destruct (b =? R); [reflexivity|exact IH].
Qed.

Lemma memb_rgt prs L R : NoDup (map fst prs) -> memb (L, R) prs = match rgt prs L with Some R' => R' =? R | None => false end.
Proof.
  intros ND. destruct (memb (L, R) prs) eqn:Mb.
  - apply memb_in in Mb. apply (rgt_in prs L R ND) in Mb. rewrite Mb. symmetry. apply Nat.eqb_refl.
  - destruct (rgt prs L) as [R'|] eqn:E; [|reflexivity]. destruct (Nat.eqb_spec R' R) as [->|NE]; [|reflexivity].
    apply (rgt_in prs L R ND) in E. apply memb_in in E. congruence.
Qed.

(** iteration order of CX4's right view: a permutation of the bimap *)
Lemma insert_by_right_perm x l : Permutation (insert_by_right x l) (x :: l).
Proof.
  induction l as [|y l IH]; [apply Permutation_refl|]. cbn [insert_by_right]. destruct (snd x <? snd y)%Z; [apply Permutation_refl|].
  apply (Permutation_trans (perm_skip y IH)). apply perm_swap.
Qed.
Lemma right_view_perm m : Permutation (right_view m) m.
Proof.
  induction m as [|x m IH]; [apply Permutation_refl|]. cbn [right_view fold_right].
  apply (Permutation_trans (insert_by_right_perm x _)). apply perm_skip. exact IH.
Qed.

(** * the body of the loop over permutations with the three operators of the ordering made explicit *)
Section PrepareOps.
Variable K : Type.
Definition prepare_ops (w : world K) (o1 o2 o3 : fieldop K) (perm : nat * nat * nat) (sg : Z) (lr : Z * Z) : outcome (option (part_in K)) :=
  let L0 := snd lr in
  let L3 := fst lr in
  let L2 := left_of K o3 L3 in
  let L1 := right_of K o1 L0 in
  if Z.eqb (right_of K o2 L1) L2 && is_correct L1 && is_correct L2 then
    if blk (w_ret K w) false L0 || blk (w_ret K w) false L1 || blk (w_ret K w) false L2 || blk (w_ret K w) false L3 then
      bind (part_of K o1 L0) (fun m1 => bind (part_of K o2 L1) (fun m2 =>
      bind (part_of K o3 L2) (fun m3 => bind (part_of K (w_CX4 K w) L3) (fun m4 =>
      Done (Some {| p_O1 := fst m1; p_O2 := snd m2; p_O3 := fst m3; p_CX4 := snd m4;
                    p_E1 := blk (w_E K w) [] L0; p_E2 := blk (w_E K w) [] L1; p_E3 := blk (w_E K w) [] L2; p_E4 := blk (w_E K w) [] L3;
                    p_W1 := blk (w_W K w) [] L0; p_W2 := blk (w_W K w) [] L1; p_W3 := blk (w_W K w) [] L2; p_W4 := blk (w_W K w) [] L3;
                    p_beta := w_beta K w; p_perm := perm; p_sign := sg; p_blocks := (L0, L1, L2, L3) |})))))
    else Done None
  else Done None.

(** the six iterations of the loop over permutations3 (Misc.cpp): O1, O2, O3 = the permuted (C1, C2, CX3) *)
Lemma prepare_one_cases (w : world K) (lr : Z * Z) :
  map (prepare_one K w lr) (seq 0 6) =
  [ prepare_ops w (w_C1 K w) (w_C2 K w) (w_CX3 K w) (0, 1, 2) 1%Z lr;
    prepare_ops w (w_C1 K w) (w_CX3 K w) (w_C2 K w) (0, 2, 1) (-1)%Z lr;
    prepare_ops w (w_C2 K w) (w_C1 K w) (w_CX3 K w) (1, 0, 2) (-1)%Z lr;
    prepare_ops w (w_C2 K w) (w_CX3 K w) (w_C1 K w) (1, 2, 0) 1%Z lr;
    prepare_ops w (w_CX3 K w) (w_C1 K w) (w_C2 K w) (2, 0, 1) 1%Z lr;
    prepare_ops w (w_CX3 K w) (w_C2 K w) (w_C1 K w) (2, 1, 0) (-1)%Z lr ].
Proof. reflexivity. Qed.
End PrepareOps.

(** * the world of SpineChi.spine_chi on a partition *)
Section ChainOk.
Variable K : Type.
Variable NO : numops K.
Notation k0 := (n0 K NO).
Notation k1 := (n1 K NO).
Notation kadd := (nadd K NO).
Notation ksub := (nsub K NO).
Notation kmul := (nmul K NO).
Hypothesis Kf : field_theory k0 k1 kadd kmul ksub (nopp K NO) (ndiv K NO) (ChiLehmann.kinv K NO) (@eq K).
Let Kr := F_R Kf.
Add Field KfieldCO : Kf.
Hypothesis conj0 : nconj K NO k0 = k0.
Variable fb : bool.
Variable eps : K.
Hypothesis one_not_small : nre_ltb K NO (nabs K NO k1) eps = false.
Hypothesis mone_not_small : nre_ltb K NO (nabs K NO (nopp K NO k1)) eps = false.
Hypothesis one_large : nre_ltb K NO eps (nabs K NO k1) = true.
Hypothesis mone_large : nre_ltb K NO eps (nabs K NO (nopp K NO k1)) = true.
Variable keepf : K -> bool.
Hypothesis Hkeep : forall x, keepf x = false -> x = k0.

Variable S : classification.
Variable ED : eigdata K.
Notation nb := (length (sc_states S)).
Notation dimf := (block_size S).
Notation N := (state_size S).
Notation M := (sc_M S).
Notation Ug := (assembled_U K NO S ED).
Notation offs := (off (block_size S)).
Hypothesis PO : partition_ok S.
Hypothesis EO : eig_ok K S ED.
Variable D : list (Thermal.dmpart K).
Hypothesis DO : dm_ok K NO S D.
Variable beta : K.
Notation Eg := (assembled_E K ED).
Notation wg := (assembled_w K D).

(** one field operator as the layers below hand it over: [op_ok] (C07) and the parts computed by Spine.op_compute (C10) *)
Record opdata : Type := {
  od_o : fop; od_prs : list (nat * nat); od_parts : list ((nat * nat) * mat K);
  od_ok : op_ok K NO fb eps S od_o od_prs;
  od_cmp : op_compute K NO fb eps S ED od_o = Done od_parts
}.
Definition od_fo (d : opdata) : fieldop K := chi_fieldop K NO keepf S (od_parts d).
Definition od_Dm (d : opdata) (L : nat) : mat K := match part_from_left K (od_parts d) L with Some (_, Dm) => Dm | None => [] end.
Definition od_X (d : opdata) : mat K := rotate K NO N Ug (poly_matrix K NO M (fop_poly K NO (od_o d))).

Lemma od_map d : fo_map K (od_fo d) = map zp (od_prs d).
Proof. unfold od_fo, chi_fieldop. cbn [fo_map]. rewrite (bimap_parts K NO fb eps S ED _ _ (od_ok d) _ (od_cmp d)). reflexivity. Qed.
Lemma od_nd d : NoDup (map fst (od_prs d)) /\ NoDup (map snd (od_prs d)).
Proof. exact (prs_nodup K NO fb eps S _ _ (od_ok d)). Qed.
Lemma od_range d L R : In (L, R) (od_prs d) -> L < nb /\ R < nb.
Proof. exact (oo_pairs K NO fb eps S _ _ (od_ok d) L R). Qed.

Lemma right_of_zp (fo : fieldop K) prs L : fo_map K fo = map zp prs ->
  right_of K fo (Z.of_nat L) = match rgt prs L with Some R => Z.of_nat R | None => (-1)%Z end.
Proof. intros H. unfold right_of, rgt. rewrite H, find_zp_fst. destruct (find _ prs) as [[a b]|]; reflexivity. Qed.
Lemma left_of_zp (fo : fieldop K) prs R : fo_map K fo = map zp prs ->
  left_of K fo (Z.of_nat R) = match lft prs R with Some L => Z.of_nat L | None => (-1)%Z end.
Proof. intros H. unfold left_of, lft. rewrite H, find_zp_snd. destruct (find _ prs) as [[a b]|]; reflexivity. Qed.

Lemma part_of_chi (parts : list ((nat * nat) * mat K)) L :
  part_of K (chi_fieldop K NO keepf S parts) (Z.of_nat L) =
  match part_from_left K parts L with
  | Some (lr, Dm) => Done (smat_rows K keepf Dm, smat_cols K NO keepf (dimf (snd lr)) Dm)
  | None => OOB
  end.
Proof.
  unfold part_of, chi_fieldop, part_from_left. cbn [fo_parts].
  induction (rev parts) as [|[[a b] Dm] r IH]; [reflexivity|]. cbn [map find fst snd]. rewrite Zofnat_eqb.
  destruct (a =? L); [reflexivity|exact IH].
Qed.

Notation pop d := (part_of_pair K NO Kr fb eps one_not_small mone_not_small one_large mone_large S ED PO EO _ _ (od_ok d) _ (od_cmp d)) (only parsing).

Lemma od_part_of d L R : In (L, R) (od_prs d) ->
  part_of K (od_fo d) (Z.of_nat L) = Done (smat_rows K keepf (od_Dm d L), smat_cols K NO keepf (dimf R) (od_Dm d L)).
Proof.
  intros Hin. destruct (pop d L R Hin) as [Dm [Hf _]]. unfold od_fo, od_Dm. rewrite part_of_chi, Hf. reflexivity.
Qed.

Lemma od_shape d L R : In (L, R) (od_prs d) -> shape K (dimf L) (dimf R) (od_Dm d L).
Proof. intros Hin. destruct (pop d L R Hin) as [Dm [Hf [_ [Hl [Hr _]]]]]. unfold od_Dm. rewrite Hf. split; assumption. Qed.

(** the stored dense part is the block of the rotated full-space operator *)
Lemma od_entry d L R n m : In (L, R) (od_prs d) -> n < dimf L -> m < dimf R ->
  nth m (nth n (od_Dm d L) []) k0 = mget K NO (od_X d) (offs L + n) (offs R + m).
Proof.
  intros Hin Hn Hm. destruct (od_range d L R Hin) as [HL HR]. destruct (pop d L R Hin) as [Dm [Hf [_ [_ [_ Hent]]]]].
  unfold od_Dm, od_X. rewrite Hf. rewrite (rotated_block_entry K NO Kr conj0 S ED PO EO (od_o d) L R n m HL HR Hn Hm).
  exact (Hent n m Hn Hm).
Qed.
(** ... and the rotated operator vanishes on every pair of blocks that is not recorded *)
Lemma od_entry_zero d L R n m : L < nb -> R < nb -> n < dimf L -> m < dimf R -> ~ In (L, R) (od_prs d) ->
  mget K NO (od_X d) (offs L + n) (offs R + m) = k0.
Proof.
  intros HL HR Hn Hm Hnot. unfold od_X. rewrite (rotated_block_entry K NO Kr conj0 S ED PO EO (od_o d) L R n m HL HR Hn Hm).
  apply (bigsum_zero K k0 k1 kadd kmul ksub (nopp K NO) Kr). intros k Hk. apply in_seq in Hk.
  apply (rot_term_zero K NO fb eps S ED PO (od_o d) (od_prs d) (od_ok d) L R n m k HL HR); [lia|exact Hnot].
Qed.

Lemma E_block b : nth b (map fst ED) [] = Eof K ED b.
Proof. unfold Eof. change (@nil K) with (fst (@nil K, @nil (list K))). apply map_nth. Qed.
Lemma W_block b : nth b (map (Thermal.dp_weights K) D) [] = Wof K NO D b.
Proof. unfold Wof. change (@nil K) with (Thermal.dp_weights K (Thermal.mk_dmpart K [] k0 false)). apply map_nth. Qed.

(** the part of the chain L0 -> L1 -> L2 -> L3 -> L0 for the ordering (A, B, C; X) *)
Definition chainp (dA dB dC dX : opdata) (perm : nat * nat * nat) (sg : Z) (L0 L1 L2 L3 : nat) : part_in K :=
  chain_part K NO keepf (dimf L0) (dimf L2) (Eof K ED L0) (Eof K ED L1) (Eof K ED L2) (Eof K ED L3)
    (Wof K NO D L0) (Wof K NO D L1) (Wof K NO D L2) (Wof K NO D L3) beta
    (od_Dm dA L0) (od_Dm dB L1) (od_Dm dC L2) (od_Dm dX L3) perm sg (Z.of_nat L0, Z.of_nat L1, Z.of_nat L2, Z.of_nat L3).

(** [chain_ok]: TwoParticleGF::prepare's loop body on the pair (L3, L0) of CX4 for one ordering *)
Theorem prepare_ops_spec (w : world K) (dA dB dC dX : opdata) perm sg L3 L0 :
  w_E K w = map fst ED -> w_W K w = map (Thermal.dp_weights K) D -> w_ret K w = map (Thermal.dp_retained K) D ->
  w_beta K w = beta -> w_CX4 K w = od_fo dX ->
  In (L3, L0) (od_prs dX) ->
  prepare_ops K w (od_fo dA) (od_fo dB) (od_fo dC) perm sg (zp (L3, L0)) =
  Done (match rgt (od_prs dA) L0, lft (od_prs dC) L3 with
        | Some L1, Some L2 => if memb (L1, L2) (od_prs dB) then Some (chainp dA dB dC dX perm sg L0 L1 L2 L3) else None
        | _, _ => None
        end).
Proof.
  intros HE HW HR HB HX Hin. unfold prepare_ops.
  change (snd (zp (L3, L0))) with (Z.of_nat L0). change (fst (zp (L3, L0))) with (Z.of_nat L3). cbv zeta.
  rewrite (right_of_zp _ _ L0 (od_map dA)), (left_of_zp _ _ L3 (od_map dC)).
  destruct (rgt (od_prs dA) L0) as [L1|] eqn:EA.
  2:{ change (is_correct (-1)) with false. rewrite andb_false_r. cbn [andb]. destruct (lft (od_prs dC) L3); reflexivity. }
  destruct (lft (od_prs dC) L3) as [L2|] eqn:EC.
  2:{ change (is_correct (-1)) with false. rewrite andb_false_r. reflexivity. }
  rewrite (right_of_zp _ _ L1 (od_map dB)).
  rewrite (memb_rgt _ L1 L2 (proj1 (od_nd dB))).
  assert (IC : forall n, is_correct (Z.of_nat n) = true) by (intros n; unfold is_correct; apply Z.leb_le; lia).
  rewrite !IC, !andb_true_r.
  destruct (rgt (od_prs dB) L1) as [L2'|] eqn:EB.
  2:{ replace (Z.eqb (-1) (Z.of_nat L2)) with false by (symmetry; apply Z.eqb_neq; lia). reflexivity. }
  rewrite Zofnat_eqb. destruct (Nat.eqb_spec L2' L2) as [->|NE]; [|reflexivity].
  apply (rgt_in _ _ _ (proj1 (od_nd dA))) in EA. apply (rgt_in _ _ _ (proj1 (od_nd dB))) in EB.
  apply (lft_in _ _ _ (proj2 (od_nd dC))) in EC.
  destruct (od_range dX L3 L0 Hin) as [H3 H0].
  rewrite HR. unfold blk at 1. rewrite Nat2Z.id. change (nth L0 (map (Thermal.dp_retained K) D) false) with (Thermal.is_retained K D L0).
  rewrite (do_ret K NO S D DO L0 H0). cbn [orb].
  rewrite (od_part_of dA L0 L1 EA), (od_part_of dB L1 L2 EB), (od_part_of dC L2 L3 EC), HX, (od_part_of dX L3 L0 Hin).
  cbn [bind fst snd]. rewrite HE, HW, HB. unfold blk. rewrite !Nat2Z.id, !E_block, !W_block. reflexivity.
Qed.

(** * the value of the part of a recorded chain *)
Lemma E_entry b k : b < nb -> k < dimf b -> nth k (Eof K ED b) k0 = nth (offs b + k) Eg k0.
Proof.
  intros Hb Hk. unfold assembled_E. rewrite (offs_concat S (map fst ED) k0 b k); try assumption.
  - rewrite E_block. reflexivity.
  - rewrite map_length. exact (eo_len K S ED EO).
  - intros b' Hb'. rewrite E_block. exact (eo_E K S ED EO b' Hb').
Qed.
Lemma W_entry b k : b < nb -> k < dimf b -> nth k (Wof K NO D b) k0 = nth (offs b + k) wg k0.
Proof.
  intros Hb Hk. unfold assembled_w. rewrite (offs_concat S (map (Thermal.dp_weights K) D) k0 b k); try assumption.
  - rewrite W_block. reflexivity.
  - rewrite map_length. exact (do_len K NO S D DO).
  - intros b' Hb'. rewrite W_block. exact (do_W K NO S D DO b' Hb').
Qed.

(** the states a part on a chain of four blocks visits lie in the four blocks *)
Lemma chain_part_visits d0 d1 d2 d3 E0 E1 E2 E3 w0 w1 w2 w3 X1 X2 X3 X4 perm sg blocks :
  shape K d0 d1 X1 -> shape K d1 d2 X2 -> shape K d2 d3 X3 -> shape K d3 d0 X4 ->
  forall v, In v (spec_visits K (chain_part K NO keepf d0 d2 E0 E1 E2 E3 w0 w1 w2 w3 beta X1 X2 X3 X4 perm sg blocks)) ->
  v_i1 K v < d0 /\ v_i2 K v < d1 /\ v_i3 K v < d2 /\ v_i4 K v < d3.
Proof.
  intros S1 S2 S3 S4 v Hv. apply in_spec_visits in Hv. destruct Hv as [i1 [i3 [H1 [H3 Hv]]]].
  cbn [p_CX4 p_O2 chain_part] in H1, H3. rewrite (cols_length K NO keepf) in H1, H3.
  apply in_spec13 in Hv. destruct Hv as [e2 [e4 [He2 [He4 ->]]]].
  cbn [p_O1 p_O2 p_O3 p_CX4 chain_part] in He2, He4. unfold smat_cols in He2, He4. rewrite !(outer_rows K keepf) in He2, He4.
  pose proof (common_srow_lt K NO keepf _ _ _ He2) as L2. pose proof (common_srow_lt K NO keepf _ _ _ He4) as L4.
  rewrite (proj2 S1 i1 H1) in L2. rewrite (proj2 S3 i3 H3) in L4.
  unfold mk_visit. cbn [v_i1 v_i2 v_i3 v_i4]. repeat split; assumption.
Qed.

Variable tl : tols K.
Hypothesis guards_exact : forall x, abs_gt K NO x (t_coeff K tl) = false -> x = k0.
Hypothesis negl_exact_nr : forall x d, abs_lt K NO x (ndiv K NO (t_neg_nr K tl) (nofZ K NO (Z.of_nat d))) = true -> x = k0.
Hypothesis negl_exact_r : forall x d, abs_lt K NO x (ndiv K NO (t_neg_r K tl) (nofZ K NO (Z.of_nat d))) = true -> x = k0.
Hypothesis ofZ_add : forall a b : Z, nofZ K NO (a + b)%Z = kadd (nofZ K NO a) (nofZ K NO b).
Hypothesis ofZ_pos : forall z : Z, (0 < z)%Z -> nofZ K NO z <> k0.
Variable g : nat.
Hypothesis CE_nr : cmp_exact K NO (t_cmp_nr K tl) (pole_list K NO N Eg).
Hypothesis CE_r : cmp_exact K NO (t_cmp_r K tl) (pole_list K NO N Eg).

(** the summand of the full-space 4-fold sum for the ordering (A, B, C; X) at the frequencies (y1, y2, y3) *)
Definition Tfull (dA dB dC dX : opdata) (y1 y2 y3 : K) (I J Kk L : nat) : K :=
  dense_term K NO tl Eg wg beta (od_X dA) (od_X dB) (od_X dC) (od_X dX) y1 y2 y3 I J Kk L.
(** ... summed over the states of four blocks *)
Definition Qsum (dA dB dC dX : opdata) (y1 y2 y3 : K) (L0 L1 L2 L3 : nat) : K :=
  lsum K NO (seq 0 (dimf L0)) (fun i => lsum K NO (seq 0 (dimf L1)) (fun j => lsum K NO (seq 0 (dimf L2)) (fun k =>
  lsum K NO (seq 0 (dimf L3)) (fun l => Tfull dA dB dC dX y1 y2 y3 (offs L0 + i) (offs L1 + j) (offs L2 + k) (offs L3 + l))))).

Section OneChain.
Variables dA dB dC dX : opdata.
Variable perm : nat * nat * nat.
Variable sg : Z.
Variables L0 L1 L2 L3 : nat.
Hypothesis HA : In (L0, L1) (od_prs dA).
Hypothesis HB : In (L1, L2) (od_prs dB).
Hypothesis HC : In (L2, L3) (od_prs dC).
Hypothesis HX : In (L3, L0) (od_prs dX).
Variables y1 y2 y3 : K.
Hypothesis REG : chi_regular K NO tl N Eg wg y1 y2 y3.
Notation p := (chainp dA dB dC dX perm sg L0 L1 L2 L3).

Lemma chain_blocks_range : L0 < nb /\ L1 < nb /\ L2 < nb /\ L3 < nb.
Proof.
  destruct (od_range dA L0 L1 HA) as [H0 H1]. destruct (od_range dC L2 L3 HC) as [H2 H3]. repeat split; assumption.
Qed.

Lemma chainp_regular :
  chain_regular K NO tl (dimf L0) (dimf L1) (dimf L2) (dimf L3) (Eof K ED L0) (Eof K ED L1) (Eof K ED L2) (Eof K ED L3)
                (Wof K NO D L0) (Wof K NO D L1) (Wof K NO D L2) (Wof K NO D L3) y1 y2 y3.
Proof.
  destruct chain_blocks_range as [H0 [H1 [H2 H3]]].
  intros a b c d Ha Hb Hc Hd. unfold chain_quad_ok.
  rewrite (E_entry L0 a H0 Ha), (E_entry L1 b H1 Hb), (E_entry L2 c H2 Hc), (E_entry L3 d H3 Hd).
  rewrite (W_entry L0 a H0 Ha), (W_entry L1 b H1 Hb), (W_entry L2 c H2 Hc), (W_entry L3 d H3 Hd).
  exact (REG _ _ _ _ (offs_lt S PO L0 a H0 Ha) (offs_lt S PO L1 b H1 Hb) (offs_lt S PO L2 c H2 Hc) (offs_lt S PO L3 d H3 Hd)).
Qed.

Theorem chainp_lists_value :
  kadd (list_eval K NO (fun t => nr_eval K NO t y1 y2 y3) (ps_nr K (computed_st K NO g tl p)))
       (list_eval K NO (fun t => r_eval K NO (t_reduce K tl) t y1 y2 y3) (ps_r K (computed_st K NO g tl p))) =
  kmul (signK K NO sg) (Qsum dA dB dC dX y1 y2 y3 L0 L1 L2 L3).
Proof.
  destruct chain_blocks_range as [H0 [H1 [H2 H3]]].
  pose proof (od_shape dA L0 L1 HA) as SA. pose proof (od_shape dB L1 L2 HB) as SB.
  pose proof (od_shape dC L2 L3 HC) as SC. pose proof (od_shape dX L3 L0 HX) as SX.
  rewrite (termlists_faithful_exact K NO Kf ofZ_add ofZ_pos tl (pole_list K NO N Eg) y1 y2 y3 CE_nr CE_r negl_exact_nr negl_exact_r g p).
  - unfold chainp.
    pose proof (chain_part_emitted K NO Kf keepf Hkeep tl guards_exact (dimf L0) (dimf L1) (dimf L2) (dimf L3)
                  (Eof K ED L0) (Eof K ED L1) (Eof K ED L2) (Eof K ED L3) (Wof K NO D L0) (Wof K NO D L1) (Wof K NO D L2) (Wof K NO D L3)
                  beta _ _ _ _ SA SB SC SX perm sg (Z.of_nat L0, Z.of_nat L1, Z.of_nat L2, Z.of_nat L3) y1 y2 y3 chainp_regular) as CPE.
    unfold chain_visit_total in CPE. rewrite CPE. f_equal. unfold chain_sum, Qsum.
    apply lsum_ext. intros i Hi. apply in_seq in Hi. apply lsum_ext. intros j Hj. apply in_seq in Hj.
    apply lsum_ext. intros k Hk. apply in_seq in Hk. apply lsum_ext. intros l Hl. apply in_seq in Hl.
    unfold chain_term, Tfull, dense_term, CPHI, PHI.
    rewrite (od_entry dA L0 L1 i j HA), (od_entry dB L1 L2 j k HB), (od_entry dC L2 L3 k l HC), (od_entry dX L3 L0 l i HX) by lia.
    rewrite (E_entry L0 i), (E_entry L1 j), (E_entry L2 k), (E_entry L3 l) by (assumption || lia).
    rewrite (W_entry L0 i), (W_entry L1 j), (W_entry L2 k), (W_entry L3 l) by (assumption || lia).
    reflexivity.
  - unfold chainp. apply chain_part_sorted.
  - intros v Hv. unfold chainp in Hv |- *.
    destruct (chain_part_visits _ _ _ _ _ _ _ _ _ _ _ _ _ _ _ _ _ _ _ SA SB SC SX v Hv) as [V1 [V2 [V3 V4]]].
    cbn [p_E1 p_E2 p_E3 p_E4 chain_part].
    rewrite (E_entry L0 _ H0 V1), (E_entry L1 _ H1 V2), (E_entry L2 _ H2 V3), (E_entry L3 _ H3 V4).
    repeat split; apply in_pole_list; apply (offs_lt S PO); assumption.
Qed.

End OneChain.

(** the value TwoParticleGFPart::operator() returns for that part at (z1, z2, z3) *)
Theorem chainp_value (dA dB dC dX : opdata) perm sg L0 L1 L2 L3 z1 z2 z3 :
  In (L0, L1) (od_prs dA) -> In (L1, L2) (od_prs dB) -> In (L2, L3) (od_prs dC) -> In (L3, L0) (od_prs dX) ->
  chi_regular K NO tl N Eg wg (permuted K NO perm z1 z2 z3 0) (permuted K NO perm z1 z2 z3 1) (permuted K NO perm z1 z2 z3 2) ->
  part_val K NO tl (chainp dA dB dC dX perm sg L0 L1 L2 L3) (computed_st K NO g tl (chainp dA dB dC dX perm sg L0 L1 L2 L3)) (z1, z2, z3) =
  kmul (signK K NO sg)
       (Qsum dA dB dC dX (permuted K NO perm z1 z2 z3 0) (permuted K NO perm z1 z2 z3 1) (permuted K NO perm z1 z2 z3 2) L0 L1 L2 L3).
Proof.
  intros HA HB HC HX REG. rewrite part_val_lists.
  change (p_perm K (chainp dA dB dC dX perm sg L0 L1 L2 L3)) with perm.
  exact (chainp_lists_value dA dB dC dX perm sg L0 L1 L2 L3 HA HB HC HX _ _ _ REG).
Qed.

(** * Item (3): the full-space 4-fold sum splits over block chains; chains that are not recorded contribute 0 *)
Hypothesis nz_exact : forall x, nre_ltb K NO k0 (nabs K NO x) = false -> x = k0.
Notation lsum := (ChiLehmann.lsum K NO).
Notation lsum_ext := (ChiLehmann.lsum_ext K NO).
Notation lsum_zero := (ChiLehmann.lsum_zero K NO Kf).

Lemma lsum_bigsum {A} (l : list A) (f : A -> K) : lsum l f = bigsum K k0 kadd l f.
Proof. induction l as [|a l IH]; [reflexivity|]. rewrite lsum_cons. cbn [bigsum]. rewrite IH. reflexivity. Qed.

Lemma lsum_blocks (f : nat -> K) :
  lsum (seq 0 N) f = lsum (seq 0 nb) (fun b => lsum (seq 0 (dimf b)) (fun k => f (offs b + k))).
Proof.
  rewrite <- (offs_total S PO) at 1. rewrite !lsum_bigsum. rewrite (bsum_blocks K NO Kr dimf f nb).
  apply (bigsum_ext K k0 kadd). intros b _. rewrite lsum_bigsum. reflexivity.
Qed.

Lemma lsum_pick (n b0 : nat) (F : nat -> K) : b0 < n -> (forall b, b < n -> b <> b0 -> F b = k0) -> lsum (seq 0 n) F = F b0.
Proof.
  intros Hb Hz. transitivity (lsum (seq 0 n) (fun b => if b0 =? b then F b else k0)).
  - apply lsum_ext. intros b Hin. apply in_seq in Hin. destruct (Nat.eqb_spec b0 b) as [_|NE]; [reflexivity|]. apply Hz; lia.
  - rewrite lsum_bigsum. rewrite (bigsum_delta_seq K k0 k1 kadd kmul ksub (nopp K NO) Kr 0 n b0 F).
    destruct (Nat.leb_spec 0 b0); [|lia]. destruct (Nat.ltb_spec b0 (0 + n)); [reflexivity|lia].
Qed.

(** a sum over a bimap, indexed by the right block *)
Lemma lsum_by_snd (n : nat) (G : nat * nat -> K) : forall prs : list (nat * nat),
  NoDup (map snd prs) -> (forall L R, In (L, R) prs -> R < n) ->
  lsum prs G = lsum (seq 0 n) (fun R => match lft prs R with Some L => G (L, R) | None => k0 end).
Proof.
  induction prs as [|[a b] prs IH]; intros ND Hr.
  - rewrite lsum_nil. symmetry. apply lsum_zero. intros R _. reflexivity.
  - cbn [map snd] in ND. inversion ND as [|x l Hn ND']; subst. rewrite lsum_cons.
    rewrite (IH ND') by (intros L R H; apply (Hr L R); right; exact H).
    assert (Hb : b < n) by (apply (Hr a b); left; reflexivity).
    transitivity (kadd (lsum (seq 0 n) (fun R => if b =? R then G (a, R) else k0))
                       (lsum (seq 0 n) (fun R => match lft prs R with Some L => G (L, R) | None => k0 end))).
    + f_equal. rewrite lsum_bigsum, (bigsum_delta_seq K k0 k1 kadd kmul ksub (nopp K NO) Kr 0 n b (fun R => G (a, R))).
      destruct (Nat.leb_spec 0 b); [|lia]. destruct (Nat.ltb_spec b (0 + n)); [reflexivity|lia].
    + rewrite <- (SpineChiPart.lsum_plus K NO Kf). apply lsum_ext. intros R _. unfold lft at 2. cbn [find snd].
      destruct (Nat.eqb_spec b R) as [->|NE]; cbn [option_map fst].
      * assert (E : lft prs R = None).
        { destruct (lft prs R) as [L|] eqn:E; [|reflexivity]. exfalso. apply Hn. apply (lft_in prs L R ND') in E.
          change R with (snd (L, R)). apply in_map. exact E. }
        rewrite E. ring.
      * fold (lft prs R). ring.
Qed.

Definition chain (dA dB dC dX : opdata) (L0 L1 L2 L3 : nat) : Prop :=
  In (L0, L1) (od_prs dA) /\ In (L1, L2) (od_prs dB) /\ In (L2, L3) (od_prs dC) /\ In (L3, L0) (od_prs dX).

Lemma pair_in_dec (x : nat * nat) (l : list (nat * nat)) : {In x l} + {~ In x l}.
Proof. apply in_dec. decide equality; apply Nat.eq_dec. Qed.

(** the summand vanishes off the recorded chains (SpinePartition.rot_term_zero for the pair that is not recorded) *)
Lemma Tfull_zero dA dB dC dX y1 y2 y3 L0 L1 L2 L3 i j k l :
  L0 < nb -> L1 < nb -> L2 < nb -> L3 < nb -> i < dimf L0 -> j < dimf L1 -> k < dimf L2 -> l < dimf L3 ->
  ~ chain dA dB dC dX L0 L1 L2 L3 ->
  Tfull dA dB dC dX y1 y2 y3 (offs L0 + i) (offs L1 + j) (offs L2 + k) (offs L3 + l) = k0.
Proof.
  intros H0 H1 H2 H3 Hi Hj Hk Hl Hnot. unfold Tfull, dense_term.
  destruct (pair_in_dec (L0, L1) (od_prs dA)) as [IA|NA].
  2:{ pose proof (od_entry_zero dA L0 L1 i j H0 H1 Hi Hj NA) as Z. unfold mget in Z. rewrite Z. ring. }
  destruct (pair_in_dec (L1, L2) (od_prs dB)) as [IB|NB].
  2:{ pose proof (od_entry_zero dB L1 L2 j k H1 H2 Hj Hk NB) as Z. unfold mget in Z. rewrite Z. ring. }
  destruct (pair_in_dec (L2, L3) (od_prs dC)) as [IC|NC].
  2:{ pose proof (od_entry_zero dC L2 L3 k l H2 H3 Hk Hl NC) as Z. unfold mget in Z. rewrite Z. ring. }
  destruct (pair_in_dec (L3, L0) (od_prs dX)) as [IX|NX].
  2:{ pose proof (od_entry_zero dX L3 L0 l i H3 H0 Hl Hi NX) as Z. unfold mget in Z. rewrite Z. ring. }
  exfalso. apply Hnot. repeat split; assumption.
Qed.

(** the chain through L0, followed the way TwoParticleGF::prepare follows it: L3 from CX4, L1 from A, L2 from C, test on B *)
Definition sel (dA dB dC dX : opdata) (L0 : nat) : option (nat * nat * nat) :=
  match lft (od_prs dX) L0 with
  | Some L3 => match rgt (od_prs dA) L0, lft (od_prs dC) L3 with
               | Some L1, Some L2 => if memb (L1, L2) (od_prs dB) then Some (L1, L2, L3) else None
               | _, _ => None
               end
  | None => None
  end.

Lemma sel_sound dA dB dC dX L0 L1 L2 L3 : sel dA dB dC dX L0 = Some (L1, L2, L3) -> chain dA dB dC dX L0 L1 L2 L3.
Proof.
  unfold sel. destruct (lft (od_prs dX) L0) as [L3'|] eqn:EX; [|discriminate].
  destruct (rgt (od_prs dA) L0) as [L1'|] eqn:EA; [|discriminate].
  destruct (lft (od_prs dC) L3') as [L2'|] eqn:EC; [|discriminate].
  destruct (memb (L1', L2') (od_prs dB)) eqn:EB; [|discriminate].
  intros E. injection E as <- <- <-.
  apply (lft_in _ _ _ (proj2 (od_nd dX))) in EX. apply (rgt_in _ _ _ (proj1 (od_nd dA))) in EA.
  apply (lft_in _ _ _ (proj2 (od_nd dC))) in EC. apply memb_in in EB. repeat split; assumption.
Qed.
Lemma sel_complete dA dB dC dX L0 L1 L2 L3 : chain dA dB dC dX L0 L1 L2 L3 -> sel dA dB dC dX L0 = Some (L1, L2, L3).
Proof.
  intros [HA [HB [HC HX]]]. unfold sel.
  rewrite (proj2 (lft_in _ _ _ (proj2 (od_nd dX))) HX), (proj2 (rgt_in _ _ _ (proj1 (od_nd dA))) HA),
          (proj2 (lft_in _ _ _ (proj2 (od_nd dC))) HC), (proj2 (memb_in _ _) HB). reflexivity.
Qed.

Definition inner (dA dB dC dX : opdata) (y1 y2 y3 : K) (L0 : nat) : K :=
  lsum (seq 0 (dimf L0)) (fun i => lsum (seq 0 nb) (fun L1 => lsum (seq 0 (dimf L1)) (fun j =>
  lsum (seq 0 nb) (fun L2 => lsum (seq 0 (dimf L2)) (fun k => lsum (seq 0 nb) (fun L3 => lsum (seq 0 (dimf L3)) (fun l =>
    Tfull dA dB dC dX y1 y2 y3 (offs L0 + i) (offs L1 + j) (offs L2 + k) (offs L3 + l)))))))).

Ltac zero_nest := repeat (apply lsum_zero; let x := fresh "x" in let H := fresh "Hx" in intros x H; apply in_seq in H).

Lemma inner_sel dA dB dC dX y1 y2 y3 L0 : L0 < nb ->
  inner dA dB dC dX y1 y2 y3 L0 =
  match sel dA dB dC dX L0 with Some (L1, L2, L3) => Qsum dA dB dC dX y1 y2 y3 L0 L1 L2 L3 | None => k0 end.
Proof.
  intros H0. destruct (sel dA dB dC dX L0) as [[[L1 L2] L3]|] eqn:Es.
  - pose proof (sel_sound _ _ _ _ _ _ _ _ Es) as [HA [HB [HC HX]]].
    destruct (od_range dA L0 L1 HA) as [_ H1]. destruct (od_range dC L2 L3 HC) as [H2 H3].
    unfold inner, Qsum. apply lsum_ext. intros i Hi. apply in_seq in Hi.
    rewrite (lsum_pick nb L1); [|exact H1|].
    2:{ intros b Hb Hne. zero_nest. apply Tfull_zero; try (assumption || lia).
        intros CH. apply sel_complete in CH. congruence. }
    apply lsum_ext. intros j Hj. apply in_seq in Hj.
    rewrite (lsum_pick nb L2); [|exact H2|].
    2:{ intros b Hb Hne. zero_nest. apply Tfull_zero; try (assumption || lia).
        intros CH. apply sel_complete in CH. congruence. }
    apply lsum_ext. intros k Hk. apply in_seq in Hk.
    rewrite (lsum_pick nb L3); [|exact H3|].
    2:{ intros b Hb Hne. zero_nest. apply Tfull_zero; try (assumption || lia).
        intros CH. apply sel_complete in CH. congruence. }
    reflexivity.
  - unfold inner. zero_nest. apply Tfull_zero; try (assumption || lia).
    intros CH. apply sel_complete in CH. congruence.
Qed.

Lemma od_X_square d : square K N (od_X d).
Proof. split; [apply rotate_length|]. intros r Hr. apply rotate_row_length. exact Hr. Qed.

(** THE FOUR-FOLD REGROUPING: the Lehmann 4-chain sum of one operator ordering on the full space is the sum, over the pairs (L3, L0) of
    CX4's bimap, of the block sums of the chains TwoParticleGF::prepare creates *)
Theorem ordering_sum (dA dB dC dX : opdata) (y1 y2 y3 : K) :
  chi_ordering K NO beta (t_reduce K tl) Eg wg (od_X dA) (od_X dB) (od_X dC) (od_X dX) y1 y2 y3 =
  lsum (od_prs dX) (fun lr =>
    match rgt (od_prs dA) (snd lr), lft (od_prs dC) (fst lr) with
    | Some L1, Some L2 => if memb (L1, L2) (od_prs dB) then Qsum dA dB dC dX y1 y2 y3 (snd lr) L1 L2 (fst lr) else k0
    | _, _ => k0
    end).
Proof.
  rewrite (chi_ordering_dense K NO Kf tl nz_exact N Eg wg beta _ _ _ (od_X dX) (od_X_square dA) (od_X_square dB) (od_X_square dC) y1 y2 y3).
  fold (Tfull dA dB dC dX y1 y2 y3).
  transitivity (lsum (seq 0 nb) (inner dA dB dC dX y1 y2 y3)).
  - rewrite lsum_blocks. apply lsum_ext. intros L0 _. unfold inner. apply lsum_ext. intros i _.
    rewrite lsum_blocks. apply lsum_ext. intros L1 _. apply lsum_ext. intros j _.
    rewrite lsum_blocks. apply lsum_ext. intros L2 _. apply lsum_ext. intros k _.
    rewrite lsum_blocks. reflexivity.
  - rewrite (lsum_by_snd nb _ (od_prs dX) (proj2 (od_nd dX))) by (intros L R H; exact (proj2 (od_range dX L R H))).
    apply lsum_ext. intros L0 HL0. apply in_seq in HL0. rewrite (inner_sel dA dB dC dX y1 y2 y3 L0) by lia.
    unfold sel. destruct (lft (od_prs dX) L0) as [L3|]; [|reflexivity]. cbn [fst snd].
    destruct (rgt (od_prs dA) L0) as [L1|]; [|reflexivity]. destruct (lft (od_prs dC) L3) as [L2|]; [|reflexivity].
    destruct (memb (L1, L2) (od_prs dB)); reflexivity.
Qed.

(** ... and the parts created for one ordering evaluate to sign * that sum: chain_ok + the value of a chain part + the regrouping *)
Theorem ordering_value (w : world K) (dA dB dC dX : opdata) perm sg z1 z2 z3 :
  w_E K w = map fst ED -> w_W K w = map (Thermal.dp_weights K) D -> w_ret K w = map (Thermal.dp_retained K) D ->
  w_beta K w = beta -> w_CX4 K w = od_fo dX ->
  chi_regular K NO tl N Eg wg (permuted K NO perm z1 z2 z3 0) (permuted K NO perm z1 z2 z3 1) (permuted K NO perm z1 z2 z3 2) ->
  lsum (od_prs dX) (fun lr =>
    match prepare_ops K w (od_fo dA) (od_fo dB) (od_fo dC) perm sg (zp lr) with
    | Done (Some p) => part_val K NO tl p (computed_st K NO g tl p) (z1, z2, z3)
    | _ => k0
    end) =
  kmul (signK K NO sg)
       (chi_ordering K NO beta (t_reduce K tl) Eg wg (od_X dA) (od_X dB) (od_X dC) (od_X dX)
                     (permuted K NO perm z1 z2 z3 0) (permuted K NO perm z1 z2 z3 1) (permuted K NO perm z1 z2 z3 2)).
Proof.
  intros HE HW HR HB HX REG. rewrite ordering_sum. rewrite <- (ChiLehmann.lsum_scal K NO Kf).
  apply lsum_ext. intros [L3 L0] Hin. rewrite (prepare_ops_spec w dA dB dC dX perm sg L3 L0 HE HW HR HB HX Hin). cbn [fst snd].
  destruct (rgt (od_prs dA) L0) as [L1|] eqn:EA; [|ring].
  destruct (lft (od_prs dC) L3) as [L2|] eqn:EC; [|ring].
  destruct (memb (L1, L2) (od_prs dB)) eqn:EB; [|ring].
  apply (rgt_in _ _ _ (proj1 (od_nd dA))) in EA. apply (lft_in _ _ _ (proj2 (od_nd dC))) in EC. apply memb_in in EB.
  exact (chainp_value dA dB dC dX perm sg L0 L1 L2 L3 z1 z2 z3 EA EB EC Hin REG).
Qed.

(** * the world of SpineChi.spine_chi: prepare, compute, on-demand value = EDSpec.chi *)
Hypothesis ofZ_1 : nofZ K NO (Zpos xH) = k1.
Hypothesis ofZ_m1 : nofZ K NO (Zneg xH) = nopp K NO k1.

Lemma collect_lsum {A} (F : A -> K) : forall (l : list (outcome (option A))) ps, collect l = Done ps ->
  lsum ps F = lsum l (fun x => match x with Done (Some p) => F p | _ => k0 end).
Proof.
  induction l as [|x l IH]; intros ps H; cbn [collect] in H.
  - injection H as <-. reflexivity.
  - destruct x as [a| | | |]; cbn [bind] in H; try discriminate.
    destruct (collect l) as [b| | | |] eqn:Hc; cbn [bind] in H; try discriminate. injection H as <-.
    rewrite lsum_cons. destruct a as [v|]; [rewrite lsum_cons|]; rewrite (IH b eq_refl); [reflexivity|ring].
Qed.

Lemma collect_total {A} : forall (l : list (outcome (option A))), (forall x, In x l -> exists a, x = Done a) -> exists ps, collect l = Done ps.
Proof.
  induction l as [|x l IH]; intros H; [exists []; reflexivity|].
  destruct (H x (or_introl eq_refl)) as [a ->]. destruct IH as [ps Hps]; [intros y Hy; apply H; right; exact Hy|].
  cbn [collect bind]. rewrite Hps. cbn [bind]. eexists. reflexivity.
Qed.

Variables d1 d2 d3 d4 : opdata.
Definition wd : world K := spine_chi_world K NO keepf S ED D beta (od_parts d1) (od_parts d2) (od_parts d3) (od_parts d4).

Theorem world_value (z1 z2 z3 : K) (s : gf_st K) :
  chi_regular6 K NO tl N Eg wg z1 z2 z3 ->
  chi_on_demand K NO g tl wd = Done s ->
  gf_value K NO tl s z1 z2 z3 = Done (chi K NO beta (t_reduce K tl) Eg wg (od_X d1) (od_X d2) (od_X d3) (od_X d4) z1 z2 z3).
Proof.
  intros REG. unfold chi_on_demand.
  destruct (gf_prepare K wd) as [ps| | | |] eqn:HP; cbn [bind]; try discriminate.
  destruct (on_demand_value K NO tl g ps) as [sx [Ec Ev]]. rewrite Ec. cbn [bind snd]. intros H. injection H as <-.
  pose proof (Ev (z1, z2, z3)) as Ev'. cbn [fst snd] in Ev'. rewrite Ev'. f_equal.
  change (col K NO g tl ps k0 (z1, z2, z3)) with (ksum K NO ps (fun p => part_val K NO tl p (computed_st K NO g tl p) (z1, z2, z3))).
  rewrite (ChiLehmann.ksum_lsum K NO Kf).
  unfold gf_prepare in HP. rewrite (collect_lsum _ _ _ HP).
  rewrite (SpineChiPart.lsum_concat K NO Kf), (ChiLehmann.lsum_map K NO).
  rewrite (ChiLehmann.lsum_perm K NO Kf _ _ _ (right_view_perm _)).
  change (fo_map K (w_CX4 K wd)) with (fo_map K (od_fo d4)). rewrite od_map, (ChiLehmann.lsum_map K NO).
  set (G := fun x : outcome (option (part_in K)) =>
              match x with Done (Some p) => part_val K NO tl p (computed_st K NO g tl p) (z1, z2, z3) | _ => k0 end).
  change (w_C1 K wd) with (od_fo d1) in *.
  transitivity (kadd (lsum (od_prs d4) (fun lr => G (prepare_ops K wd (od_fo d1) (od_fo d2) (od_fo d3) (0, 1, 2) 1%Z (zp lr))))
               (kadd (lsum (od_prs d4) (fun lr => G (prepare_ops K wd (od_fo d1) (od_fo d3) (od_fo d2) (0, 2, 1) (-1)%Z (zp lr))))
               (kadd (lsum (od_prs d4) (fun lr => G (prepare_ops K wd (od_fo d2) (od_fo d1) (od_fo d3) (1, 0, 2) (-1)%Z (zp lr))))
               (kadd (lsum (od_prs d4) (fun lr => G (prepare_ops K wd (od_fo d2) (od_fo d3) (od_fo d1) (1, 2, 0) 1%Z (zp lr))))
               (kadd (lsum (od_prs d4) (fun lr => G (prepare_ops K wd (od_fo d3) (od_fo d1) (od_fo d2) (2, 0, 1) 1%Z (zp lr))))
                     (lsum (od_prs d4) (fun lr => G (prepare_ops K wd (od_fo d3) (od_fo d2) (od_fo d1) (2, 1, 0) (-1)%Z (zp lr))))))))).
  - rewrite <- !(SpineChiPart.lsum_plus K NO Kf). apply lsum_ext. intros lr _.
    rewrite (prepare_one_cases K wd (zp lr) : map (fun pn => prepare_one K wd (zp lr) pn) (seq 0 6) = _). rewrite !lsum_cons, lsum_nil. fold G.
    change (w_C1 K wd) with (od_fo d1). change (w_C2 K wd) with (od_fo d2). change (w_CX3 K wd) with (od_fo d3). ring.
  - unfold G.
    assert (R : forall ps, In ps permutations3 ->
              chi_regular K NO tl N Eg wg (permuted K NO (fst ps) z1 z2 z3 0) (permuted K NO (fst ps) z1 z2 z3 1) (permuted K NO (fst ps) z1 z2 z3 2))
      by exact REG.
    rewrite (ordering_value wd d1 d2 d3 d4 (0, 1, 2) 1%Z z1 z2 z3 eq_refl eq_refl eq_refl eq_refl eq_refl (R ((0, 1, 2), 1%Z) ltac:(cbn; tauto))).
    rewrite (ordering_value wd d1 d3 d2 d4 (0, 2, 1) (-1)%Z z1 z2 z3 eq_refl eq_refl eq_refl eq_refl eq_refl (R ((0, 2, 1), (-1)%Z) ltac:(cbn; tauto))).
    rewrite (ordering_value wd d2 d1 d3 d4 (1, 0, 2) (-1)%Z z1 z2 z3 eq_refl eq_refl eq_refl eq_refl eq_refl (R ((1, 0, 2), (-1)%Z) ltac:(cbn; tauto))).
    rewrite (ordering_value wd d2 d3 d1 d4 (1, 2, 0) 1%Z z1 z2 z3 eq_refl eq_refl eq_refl eq_refl eq_refl (R ((1, 2, 0), 1%Z) ltac:(cbn; tauto))).
    rewrite (ordering_value wd d3 d1 d2 d4 (2, 0, 1) 1%Z z1 z2 z3 eq_refl eq_refl eq_refl eq_refl eq_refl (R ((2, 0, 1), 1%Z) ltac:(cbn; tauto))).
    rewrite (ordering_value wd d3 d2 d1 d4 (2, 1, 0) (-1)%Z z1 z2 z3 eq_refl eq_refl eq_refl eq_refl eq_refl (R ((2, 1, 0), (-1)%Z) ltac:(cbn; tauto))).
    unfold chi, perms3, ksum. cbn [fold_left fst snd nth]. unfold signK. rewrite ofZ_1, ofZ_m1.
    unfold permuted, part_perm_slots, part_frequencies. cbn [fst snd perm_nth nth]. ring.
Qed.

(** TwoParticleGF::prepare never fails on that world, hence the on-demand pipeline returns *)
Theorem world_total : exists s, chi_on_demand K NO g tl wd = Done s.
Proof.
  unfold chi_on_demand.
  assert (HP : exists ps, gf_prepare K wd = Done ps).
  { unfold gf_prepare. apply collect_total. intros x Hx. apply in_concat in Hx. destruct Hx as [l [Hl Hx]].
    apply in_map_iff in Hl. destruct Hl as [lr [<- Hlr]].
    apply (Permutation_in _ (right_view_perm _)) in Hlr.
    change (fo_map K (w_CX4 K wd)) with (fo_map K (od_fo d4)) in Hlr. rewrite od_map in Hlr.
    apply in_map_iff in Hlr. destruct Hlr as [[L3 L0] [<- Hin]].
    rewrite (prepare_one_cases K wd (zp (L3, L0)) : map (fun pn => prepare_one K wd (zp (L3, L0)) pn) (seq 0 6) = _) in Hx.
    change (w_C1 K wd) with (od_fo d1) in Hx. change (w_C2 K wd) with (od_fo d2) in Hx. change (w_CX3 K wd) with (od_fo d3) in Hx.
    cbn [In] in Hx.
    repeat (destruct Hx as [<-|Hx];
            [rewrite (prepare_ops_spec wd _ _ _ d4 _ _ L3 L0 eq_refl eq_refl eq_refl eq_refl eq_refl Hin); eexists; reflexivity|]).
    destruct Hx. }
  destruct HP as [ps HP]. rewrite HP. cbn [bind].
  destruct (on_demand_value K NO tl g ps) as [sx [Ec _]]. rewrite Ec. eexists. reflexivity.
Qed.

End ChainOk.
