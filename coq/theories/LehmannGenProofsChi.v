(** LehmannGenProofsChi.v -- C02: the descriptions generated from TwoParticleGFPart.cpp / TwoParticleGF.h / TwoParticleGF.cpp /
    TermList.h are the ones PV.Chi follows (closed computations: they stop checking when the source says something else), hence
    the [..._src] functions of PV.LehmannGenChi are the model functions, and the theorems of props/Properties_C02.v hold of them. *)
Require Import Bool List Arith ZArith QArith Lia.
From PV Require Import Outcome EDSpec Chi ChiProofs LehmannShapes LehmannInterp LehmannInterpProofs LehmannGenEquiv LehmannGenChi.
From PVgen Require Import Gen_C01 Gen_Multiterm Gen_LehAddTerm Gen_LehTermListEval Gen_LehChaseIndices Gen_LehTPGFPartCompute
     Gen_LehAddMultiterm Gen_LehTPGFTermPlus Gen_LehTPGFPartEval Gen_LehTPGFEval Gen_LehTPGFCompute.
Import ListNotations.
Local Open Scope nat_scope.

(** * 1. TermList::add_term *)
Lemma gen_add_term_is_retry : gen_add_term = model_add_term /\ add_term_retries = true.
Proof. split; reflexivity. Qed.

Section AddTerm.
Variable T : Type.
Variable comp : T -> T -> bool.
Variable plus : T -> T -> T.
Variable negl : T -> nat -> bool.

Lemma split_upper_is_chi (t : T) (l : list T) : LehmannInterp.split_upper T comp t l = Chi.split_upper T comp t l.
Proof.
  induction l as [|e r IH]; [reflexivity|]. cbn [LehmannInterp.split_upper Chi.split_upper].
  destruct (comp t e); [reflexivity|]. rewrite IH. reflexivity.
Qed.

Lemma insert_src_is_chi (t : T) (l : list T) :
  match set_insert_res T comp t l with
  | Inserted _ l' => insert_src T comp t l = ((true, t, l), l')
  | Blocked _ a e b => insert_src T comp t l = ((false, e, a ++ b), l)
  end.
Proof.
  unfold set_insert_res, insert_src. change (LehmannInterp.split_upper T comp t l) with (Chi.split_upper T comp t l).
  destruct (Chi.split_upper T comp t l) as [x y]. destruct (rev x) as [|pred rx]; [reflexivity|].
  destruct (comp pred t); reflexivity.
Qed.

Lemma add_term_ref_is_chi : forall (fuel : nat) (sum : T) (l : list T),
  add_term_ref T comp plus negl fuel sum l = add_term_loop T comp plus negl fuel sum l.
Proof.
  induction fuel as [|f IH]; intros sum l; cbn [add_term_ref add_term_loop]; pose proof (insert_src_is_chi sum l) as E;
    destruct (set_insert_res T comp sum l) as [l'|a e b]; rewrite E; cbn [fst snd]; try reflexivity.
  destruct (negl (plus e sum) (length (a ++ b) + 1)); [reflexivity|apply IH].
Qed.

(** add_term of the source (interpreted statement list) = add_term of PV.Chi as the generated flag selects it *)
Theorem add_term_src_is_chi (t : T) (l : list T) :
  add_term_by T comp plus negl gen_add_term t l = Chi.add_term T comp plus negl t l.
Proof.
  rewrite (proj1 gen_add_term_is_retry), add_term_by_model, add_term_ref_is_chi.
  unfold Chi.add_term, add_term_gen. rewrite (proj2 gen_add_term_is_retry). reflexivity.
Qed.
End AddTerm.

(** * 2. chaseIndices and the merge loops over slices *)
Definition chase2_cond (guarded : bool) (i : itr) (target : ival) : icond :=
  if guarded then IcAnd (IcValid i) (IcCmp CmpLt (IvRead i) target) else IcAnd (IcCmp CmpLt (IvRead i) target) (IcValid i).
Definition model_chase_indices (guarded : bool) : list wstmt :=
  [WsReadIndex ItA; WsReadIndex ItB;
   WsIf (IcCmp CmpEq (IvLocal ItA) (IvLocal ItB)) [WsReturn true] [];
   WsIf (IcCmp CmpLt (IvLocal ItA) (IvLocal ItB))
     [WsFor (chase2_cond guarded ItA (IvLocal ItB)) ItA]
     [WsFor (chase2_cond guarded ItB (IvLocal ItA)) ItB];
   WsReturn false].
Lemma gen_chase_indices_is_model : gen_chase_indices = model_chase_indices chaseIndices_guarded.
Proof. reflexivity. Qed.

Section Slices.
Variable K : Type.
Variable NO : numops K.
Variable g : nat.
Notation sst := (sst K).
Notation mk_sst := (mk_sst K).

Lemma sl_for_is_advance_A (guarded : bool) : forall (a : slice K) (fuel : nat) (b : slice K) (la lb : nat),
  length a < fuel ->
  sl_for K g (chase2_cond guarded ItA (IvLocal ItB)) ItA fuel (mk_sst a b la lb) = Some (mk_sst (advance K g lb a) b la lb).
Proof.
  induction a as [|x r IH]; intros fuel b la lb Hf; (destruct fuel as [|f]; [lia|]).
  - assert (Hadv : advance K g lb [] = []) by (cbn [advance Chi.it_valid]; rewrite andb_false_r; reflexivity).
    rewrite Hadv. cbn [sl_for].
    destruct guarded; cbn [chase2_cond sl_cond sl_valid sl_ival sl_read s_it s_a s_lb cmp_eval Chi.it_valid it_index]; [reflexivity|].
    destruct (g <? lb); reflexivity.
  - cbn [sl_for]. cbn [length] in Hf.
    assert (E : sl_cond K g (chase2_cond guarded ItA (IvLocal ItB)) (mk_sst (x :: r) b la lb) = (fst x <? lb)).
    { destruct x as [i v].
      destruct guarded; cbn [chase2_cond sl_cond sl_valid sl_ival sl_read s_it s_a s_lb cmp_eval Chi.it_valid it_index fst]; [reflexivity|].
      destruct (i <? lb); reflexivity. }
    rewrite E. destruct x as [i v]. cbn [advance fst it_index Chi.it_valid andb].
    destruct (i <? lb) eqn:El; cbn [andb].
    + cbn [sl_advance s_a s_b s_la s_lb tl]. apply IH. lia.
    + reflexivity.
Qed.

Lemma sl_for_is_advance_B (guarded : bool) : forall (b : slice K) (fuel : nat) (a : slice K) (la lb : nat),
  length b < fuel ->
  sl_for K g (chase2_cond guarded ItB (IvLocal ItA)) ItB fuel (mk_sst a b la lb) = Some (mk_sst a (advance K g la b) la lb).
Proof.
  induction b as [|x r IH]; intros fuel a la lb Hf; (destruct fuel as [|f]; [lia|]).
  - assert (Hadv : advance K g la [] = []) by (cbn [advance Chi.it_valid]; rewrite andb_false_r; reflexivity).
    rewrite Hadv. cbn [sl_for].
    destruct guarded; cbn [chase2_cond sl_cond sl_valid sl_ival sl_read s_it s_b s_la cmp_eval Chi.it_valid it_index]; [reflexivity|].
    destruct (g <? la); reflexivity.
  - cbn [sl_for]. cbn [length] in Hf.
    assert (E : sl_cond K g (chase2_cond guarded ItB (IvLocal ItA)) (mk_sst a (x :: r) la lb) = (fst x <? la)).
    { destruct x as [i v].
      destruct guarded; cbn [chase2_cond sl_cond sl_valid sl_ival sl_read s_it s_b s_la cmp_eval Chi.it_valid it_index fst]; [reflexivity|].
      destruct (i <? la); reflexivity. }
    rewrite E. destruct x as [i v]. cbn [advance fst it_index Chi.it_valid andb].
    destruct (i <? la) eqn:El; cbn [andb].
    + cbn [sl_advance s_a s_b s_la s_lb tl]. apply IH. lia.
    + reflexivity.
Qed.

(** chaseIndices of the source is PV.Chi.chase *)
Theorem chase_call_is_chase (guarded : bool) (a b : slice K) :
  chase_call K NO g (model_chase_indices guarded) a b =
  Some (snd (fst (chase K g a b)), snd (chase K g a b), fst (fst (chase K g a b))).
Proof.
  unfold chase_call, chase, model_chase_indices.
  cbv beta iota zeta delta [sexec_list sexec sx_ret sx_s sx_upd sl_set_local sl_read s_it s_a s_b s_la s_lb sl_cond sl_ival cmp_eval
                            sx_out sx_push sl_fuel option_map].
  destruct (it_index K g a =? it_index K g b) eqn:E; [reflexivity|].
  destruct (it_index K g a <? it_index K g b) eqn:L.
  - rewrite (sl_for_is_advance_A guarded a (S (length a)) b (it_index K g a) (it_index K g b)) by lia. reflexivity.
  - rewrite (sl_for_is_advance_B guarded b (S (length b)) a (it_index K g a) (it_index K g b)) by lia. reflexivity.
Qed.

(** the two while loops of TwoParticleGFPart::compute as PV.Chi.walk has them *)
Definition model_tp_while : icond := IcAnd (IcValid ItB) (IcValid ItA).
Definition model_tp_body4 : list wstmt := [WsIfChase [WsPush (IvRead ItB); WsAdvance ItB; WsAdvance ItA]].
Definition model_tp_body2 : list wstmt := [WsIfChase [WsReadIndex ItA; WsBody 0; WsAdvance ItB; WsAdvance ItA]].

Section Whiles.
Variable call : slice K -> slice K -> option (slice K * slice K * bool).
Hypothesis Hcall : forall a b, call a b = Some (snd (fst (chase K g a b)), snd (chase K g a b), fst (fst (chase K g a b))).

Definition midx (m : nat * K * K) : nat := fst (fst m).

Lemma sl_while4_is_walk : forall (fuel : nat) (ket bra : slice K) (la lb : nat) out (pre : list nat) (acc : list (nat * K * K)),
  sl_while K NO g call model_tp_while model_tp_body4 fuel (mk_sst ket bra la lb) out (pre ++ map midx acc) =
  omap (fun r => (out, pre ++ map midx r)) (walk K NO g fuel ket bra acc).
Proof.
  induction fuel as [|f IH]; intros ket bra la lb out pre acc.
  - cbn [sl_while walk]. cbv beta iota delta [model_tp_while sl_cond sl_valid s_it s_a s_b].
    destruct (Chi.it_valid K bra); [destruct (Chi.it_valid K ket)|]; reflexivity.
  - cbn [sl_while walk]. cbv beta iota delta [model_tp_while sl_cond sl_valid s_it s_a s_b].
    destruct (Chi.it_valid K bra); cbn [andb]; [|reflexivity].
    destruct (Chi.it_valid K ket); [|reflexivity].
    unfold model_tp_body4.
    cbv beta iota zeta delta [sexec_list sexec sx_ret sx_s sx_upd sl_set_local sl_read s_it s_a s_b s_la s_lb sl_ival
                              sx_out sx_push sl_advance].
    rewrite Hcall. unfold chase.
    destruct (it_index K g ket =? it_index K g bra) eqn:E; cbn [fst snd].
    + apply Nat.eqb_eq in E.
      assert (Hp : (pre ++ map midx acc) ++ [it_index K g bra] =
                   pre ++ map midx (acc ++ [(it_index K g ket, it_value K NO ket, it_value K NO bra)])).
      { rewrite map_app, app_assoc. cbn [map midx fst]. rewrite E. reflexivity. }
      rewrite Hp. apply IH.
    + destruct (it_index K g ket <? it_index K g bra); cbn [fst snd]; apply IH.
Qed.

Definition mvisit (m : nat * K * K) : nat * (nat * nat * K * K) := (0, (fst (fst m), 0, snd (fst m), snd m)).

(** in the second while the local of the bra iterator is never assigned: it keeps its initial value 0 *)
Lemma sl_while2_is_walk : forall (fuel : nat) (ket bra : slice K) (la : nat) (pre : list (nat * (nat * nat * K * K))) push
                                 (acc : list (nat * K * K)),
  sl_while K NO g call model_tp_while model_tp_body2 fuel (mk_sst ket bra la 0) (pre ++ map mvisit acc) push =
  omap (fun r => (pre ++ map mvisit r, push)) (walk K NO g fuel ket bra acc).
Proof.
  induction fuel as [|f IH]; intros ket bra la pre push acc.
  - cbn [sl_while walk]. cbv beta iota delta [model_tp_while sl_cond sl_valid s_it s_a s_b].
    destruct (Chi.it_valid K bra); [destruct (Chi.it_valid K ket)|]; reflexivity.
  - cbn [sl_while walk]. cbv beta iota delta [model_tp_while sl_cond sl_valid s_it s_a s_b].
    destruct (Chi.it_valid K bra); cbn [andb]; [|reflexivity].
    destruct (Chi.it_valid K ket); [|reflexivity].
    unfold model_tp_body2.
    cbv beta iota zeta delta [sexec_list sexec sx_ret sx_s sx_upd sl_set_local sl_read s_it s_a s_b s_la s_lb sl_ival
                              sx_out sx_push sl_advance].
    rewrite Hcall. unfold chase.
    destruct (it_index K g ket =? it_index K g bra) eqn:E; cbn [fst snd].
    + assert (Hp : (pre ++ map mvisit acc) ++ [(0, (it_index K g ket, 0, it_value K NO ket, it_value K NO bra))] =
                   pre ++ map mvisit (acc ++ [(it_index K g ket, it_value K NO ket, it_value K NO bra)])).
      { rewrite map_app, app_assoc. reflexivity. }
      rewrite Hp. apply IH.
    + destruct (it_index K g ket <? it_index K g bra); cbn [fst snd]; apply IH.
Qed.
End Whiles.
End Slices.

(** * 3. addMultiterm, operator+=, the innermost body of compute *)
Section Leaves.
Variable K : Type.
Variable NO : numops K.
Notation k0 := (n0 K NO).
Notation kadd := (nadd K NO).
Notation ksub := (nsub K NO).
Notation kmul := (nmul K NO).
Notation kdiv := (ndiv K NO).
Notation kopp := (nopp K NO).
Notation G f := (f K kadd ksub kmul kdiv kopp (abs_gt K NO) (abs_lt K NO) (real_ge K NO)) (only parsing).

(** two independent readings of addMultiterm (translator/gen_c02.py: guarded list; translator/gen_lehmann.py: statements) agree:
    the terms the statement list hands over are the entries of the guarded list whose guard holds, in order *)
Lemma gen_addmultiterm_is_model (tol Coeff beta Ei Ej Ek El Wi Wj Wk Wl : K) :
  map (temit_emission K) (addmultiterm_by K k0 (gen_addmultiterm K NO) tol [Coeff; beta; Ei; Ej; Ek; El; Wi; Wj; Wk; Wl]) =
  map snd (filter fst (G addMultiterm tol Coeff beta Ei Ej Ek El Wi Wj Wk Wl)).
Proof.
  unfold addmultiterm_by, gen_addmultiterm, addMultiterm, abs_gt.
  cbn [texec_list texec fst snd app locf nth filter map].
  destruct (nre_ltb K NO tol (nabs K NO (kmul (kopp Coeff) (kadd Wj Wk))));
  destruct (nre_ltb K NO tol (nabs K NO (kmul Coeff (kadd Wi Wl))));
  destruct (nre_ltb K NO tol (nabs K NO (kmul (kmul Coeff beta) Wi)));
  destruct (nre_ltb K NO tol (nabs K NO (kmul Coeff (ksub Wk Wi))));
  destruct (nre_ltb K NO tol (nabs K NO (kmul (kmul (kopp Coeff) beta) Wj)));
  destruct (nre_ltb K NO tol (nabs K NO (kmul Coeff (ksub Wj Wl))));
  reflexivity.
Qed.

(** operator+= of both term types: the pole moves to the weighted mean computed in REAL arithmetic (long * double), the weights add,
    the coefficients add; the loop runs over the three poles *)
Lemma gen_term_plus_is_model :
  nr_plus_src K NO = nr_plus K NO /\ r_plus_src K NO = r_plus K NO /\
  gen_nr_plus_range = (0, CmpLt, 3) /\ gen_r_plus_range = (0, CmpLt, 3).
Proof. repeat split; reflexivity. Qed.

(** the innermost body of TwoParticleGFPart::compute, with the leaf expressions of PVgen.Gen_Multiterm: locals
    E1 E3 weight1 weight3 | E2 weight2 | E4 weight4 (loc 0 .. 7), then under the weight guard the matrix element (loc 8), the sign, the call *)
Definition model_tp_inner : list (pstmt K) :=
  [PsLet (fun e loc => te_E e 1 (te_i1 e)); PsLet (fun e loc => te_E e 3 (te_i3 e));
   PsLet (fun e loc => te_W e 1 (te_i1 e)); PsLet (fun e loc => te_W e 3 (te_i3 e));
   PsLet (fun e loc => te_E e 2 (te_idxA e)); PsLet (fun e loc => te_W e 2 (te_idxA e));
   PsLet (fun e loc => te_E e 4 (te_i4 e)); PsLet (fun e loc => te_W e 4 (te_i4 e));
   PsIf (fun e loc => G compute_weight_guard (te_tol e) (loc 2) (loc 5) (loc 3) (loc 7))
     [PsLet (fun e loc => G compute_matrix_element (te_va e) (te_vb e) (te_coeff e 2 (te_i3 e) (te_i4 e)) (te_coeff e 3 (te_i1 e) (te_i4 e)));
      PsMulAssign 8 (fun e loc => te_sign e);
      PsAddMultiterm [(fun e loc => loc 8); (fun e loc => te_beta e); (fun e loc => loc 0); (fun e loc => loc 4); (fun e loc => loc 1);
                      (fun e loc => loc 6); (fun e loc => loc 2); (fun e loc => loc 5); (fun e loc => loc 3); (fun e loc => loc 7)]] []].
Lemma gen_tp_inner_is_model : gen_tp_inner K NO = model_tp_inner.
Proof. reflexivity. Qed.

(** the loop nest *)
Definition model_tp_nest : tp_nest :=
  mk_tp_nest 0 CmpLt 3 0 CmpLt 1 (3, 1) (2, 3) true model_tp_while model_tp_body4 true (1, 3) (0, 1) model_tp_while model_tp_body2 0 CmpLt.
Lemma gen_tp_nest_is_model : gen_tp_nest = model_tp_nest.
Proof. reflexivity. Qed.

(** TwoParticleGFPart::operator()(z1,z2,z3): {z1, z2, -z3}[perm], the Status test, NonResonantTerms(z1,z2,z3) + ResonantTerms(z1,z2,z3, ReduceResonanceTolerance) *)
Lemma gen_tp_eval_is_model :
  gen_tp_eval K NO =
  mk_tp_eval (fun z1 z2 z3 => G part_frequencies z1 z2 z3) (G part_perm_slots) true
             [PaArg 0; PaArg 1; PaArg 2] [PaArg 0; PaArg 1; PaArg 2; PaReduceResonanceTolerance] AccPlus.
Proof. reflexivity. Qed.

(** TwoParticleGF::operator(): if(Vanishing) return 0; else { Value = 0; for(parts) Value += part(z1,z2,z3); return Value; } and 2n+1 *)
Lemma gen_tpgf_value_is_model :
  vequiv (gen_tpgf_value K NO) [VsIf VcVanishing [VsReturnZero] [VsInit; VsForParts AccPlus; VsReturnValue]] /\
  forall n1 n2 n3 : Z, gen_tpgf_matsubara n1 n2 n3 = (2 * n1 + 1, 2 * n2 + 1, 2 * n3 + 1)%Z.
Proof. split; [vequiv_auto|reflexivity]. Qed.
End Leaves.

(** TwoParticleGF::compute(clear, freqs, comm) and ComputeAndClearWrap::run: the order and the guards PV.Chi.gf_compute_gen / wrap_run
    follow, with the two structural flags PVgen.Gen_Multiterm reads; every part's two term lists are broadcast from the rank that
    computed the part (job_map[p]) *)
Lemma gen_tpgf_compute_is_model :
  gen_tpgf_compute = mk_tpgf_compute true true compute_sizes_table_before_vanishing_test true compute_guards_empty_reduce 0 true
                                     [RootOwner; RootOwner] true /\
  gen_wrap_run = mk_wrap_run true true 0 CmpLt AccPlus [0; 1; 2] true.
Proof. split; reflexivity. Qed.

(** * 4. TwoParticleGFPart::compute of the source is PV.Chi.part_compute *)
Section Compute.
Variable K : Type.
Variable NO : numops K.
Notation k0 := (n0 K NO).
Notation kadd := (nadd K NO).
Notation ksub := (nsub K NO).
Notation kmul := (nmul K NO).
Notation kdiv := (ndiv K NO).
Notation kopp := (nopp K NO).
Notation G f := (f K kadd ksub kmul kdiv kopp (abs_gt K NO) (abs_lt K NO) (real_ge K NO)) (only parsing).

Lemma chase_src_is_chase (g : nat) (a b : slice K) :
  chase_src K NO g a b = Some (snd (fst (chase K g a b)), snd (chase K g a b), fst (fst (chase K g a b))).
Proof. unfold chase_src. rewrite gen_chase_indices_is_model. apply chase_call_is_chase. Qed.

Definition visit_of (index1 index3 : nat) (v : tp_visit K) : visit K :=
  let '(la, lb, va, vb, i4) := v in {| v_i1 := index1; v_i2 := la; v_i3 := index3; v_i4 := i4; v_O1 := va; v_O2 := vb |}.

Lemma map_nth_seq {A} (l : list A) (d : A) : map (fun i => nth i l d) (seq 0 (length l)) = l.
Proof.
  induction l as [|x l IH]; [reflexivity|]. cbn [length seq map nth]. f_equal.
  rewrite <- seq_shift, map_map. exact IH.
Qed.

Lemma omap_bind {A B C} (o : outcome A) (f : A -> outcome B) (h : B -> C) : omap h (bind o f) = bind o (fun a => omap h (f a)).
Proof. destruct o; reflexivity. Qed.
Lemma bind_omap {A B C} (o : outcome A) (h : A -> B) (f : B -> outcome C) : bind (omap h o) f = bind o (fun a => f (h a)).
Proof. destruct o; reflexivity. Qed.
Lemma bind_ext {A B} (o : outcome A) (f h : A -> outcome B) : (forall a, f a = h a) -> bind o f = bind o h.
Proof. intros E. destruct o; cbn; [apply E|reflexivity|reflexivity|reflexivity|reflexivity]. Qed.

Theorem visits_13_src_is_model (g : nat) (p : part_in K) (index1 index3 : nat) :
  omap (map (visit_of index1 index3)) (visits_13_src K NO g p index1 index3) = visits_13 K NO g p index1 index3.
Proof.
  unfold visits_13_src, visits_13. rewrite gen_tp_nest_is_model.
  cbn [model_tp_nest tn_bra4 tn_ket4 tn_while4 tn_body4 tn_guard_nonempty tn_bra2 tn_ket2 tn_while2 tn_body2 tn_inner_first tn_inner_cmp
       iter_slice mat_of fst snd Nat.eqb andb].
  rewrite (sl_while4_is_walk K NO g (chase_src K NO g) (chase_src_is_chase g) _ _ _ 0 0 [] [] []).
  cbn [app map]. rewrite omap_bind, bind_omap. apply bind_ext. intros m4. cbn [snd].
  change (map (midx K) m4) with (map (fun m : nat * K * K => fst (fst m)) m4).
  destruct (map (fun m : nat * K * K => fst (fst m)) m4) as [|i4 l4] eqn:E4; [reflexivity|].
  rewrite (sl_while2_is_walk K NO g (chase_src K NO g) (chase_src_is_chase g) _ _ _ 0 [] [] []).
  cbn [app map]. rewrite omap_bind, bind_omap. apply bind_ext. intros m2. cbn [omap bind fst].
  f_equal. unfold index_list_range. cbn [outer_range]. rewrite Nat.sub_0_r, map_nth_seq.
  rewrite concat_map, !map_map. f_equal. apply map_ext. intros m. rewrite map_map. reflexivity.
Qed.

Definition visit_of3 (x : nat * nat * tp_visit K) : visit K := visit_of (fst (fst x)) (snd (fst x)) (snd x).

Lemma loop3_src_is_model (g : nat) (p : part_in K) (index1 : nat) : forall i3s,
  omap (map visit_of3)
       (loop_visits K (fun index3 => omap (map (fun v => (index1, index3, v))) (visits_13_src K NO g p index1 index3)) i3s) =
  visits_loop3 K NO g p index1 i3s.
Proof.
  induction i3s as [|index3 r IH]; [reflexivity|].
  cbn [loop_visits visits_loop3]. rewrite <- (visits_13_src_is_model g p index1 index3), <- IH.
  destruct (visits_13_src K NO g p index1 index3) as [a| | | |]; cbn [omap bind]; try reflexivity.
  destruct (loop_visits K _ r) as [b| | | |]; cbn [omap bind]; try reflexivity.
  f_equal. rewrite !map_app, !map_map. reflexivity.
Qed.

Lemma loop1_src_is_model (g : nat) (p : part_in K) (i3s : list nat) : forall i1s,
  omap (map visit_of3)
       (loop_visits K (fun index1 =>
          loop_visits K (fun index3 => omap (map (fun v => (index1, index3, v))) (visits_13_src K NO g p index1 index3)) i3s) i1s) =
  visits_loop1 K NO g p i1s i3s.
Proof.
  induction i1s as [|index1 r IH]; [reflexivity|].
  cbn [loop_visits visits_loop1]. rewrite <- (loop3_src_is_model g p index1 i3s), <- IH.
  destruct (loop_visits K (fun index3 => omap (map (fun v => (index1, index3, v))) (visits_13_src K NO g p index1 index3)) i3s)
    as [a| | | |]; cbn [omap bind]; try reflexivity.
  destruct (loop_visits K _ r) as [b| | | |]; cbn [omap bind]; try reflexivity.
  f_equal. rewrite !map_app. reflexivity.
Qed.

(** the loop nest of the source visits what PV.Chi.part_visits visits, in the same order *)
Theorem part_visits_src_is_model (g : nat) (p : part_in K) :
  omap (map visit_of3) (part_visits_src K NO g p) = part_visits K NO g p.
Proof.
  unfold part_visits_src, part_visits. rewrite gen_tp_nest_is_model.
  cbn [model_tp_nest tn_first1 tn_cmp1 tn_bound1 tn_first3 tn_cmp3 tn_bound3 range_of outer_range mat_of].
  rewrite !Nat.sub_0_r. apply loop1_src_is_model.
Qed.

(** one execution of the innermost body of the source hands over the guarded terms PV.Chi.visit_emissions lists *)
Theorem visit_emits_src_is_model (tl : tols K) (p : part_in K) (x : nat * nat * tp_visit K) :
  visit_emits_src K NO tl p x = map snd (filter fst (visit_emissions K NO tl p (visit_of3 x))).
Proof.
  destruct x as [[index1 index3] [[[[la lb] va] vb] i4]].
  unfold visit_emits_src, visit_emissions, visit_of3, visit_of, tp_inner_by. rewrite gen_tp_inner_is_model.
  cbn [fst snd v_i1 v_i2 v_i3 v_i4 v_O1 v_O2].
  unfold model_tp_inner. cbn [pexec_list pexec fst snd app locf nth length firstn tenv_of
                                  te_E te_W te_i1 te_i3 te_idxA te_idxB te_i4 te_tol te_va te_vb te_coeff te_sign te_beta part_E part_W mat_of].
  destruct (compute_weight_guard K kadd ksub kmul kdiv kopp (abs_gt K NO) (abs_lt K NO) (real_ge K NO) (t_coeff K tl)
              (nth index1 (p_W1 K p) k0) (nth la (p_W2 K p) k0) (nth index3 (p_W3 K p) k0) (nth i4 (p_W4 K p) k0)).
  - cbn [pexec fst snd app locf nth upd_nth map flat_map firstn length]. rewrite app_nil_r.
    unfold compute_call, compute_apply_sign. apply gen_addmultiterm_is_model.
  - reflexivity.
Qed.

(** a term handed over by the source goes into its term list as in PV.Chi.emit: add_term of the source, operator+= of the source *)
Lemma emit_src_is_model (tl : tols K) (st : part_st K) (e : emission K) : emit_src K NO tl st e = emit K NO tl st (true, e).
Proof.
  unfold emit_src, emit, nr_add_term_src, r_add_term_src. cbn [fst snd].
  destruct (gen_term_plus_is_model K NO) as [En [Er _]]. rewrite En, Er.
  destruct e as [c p1 p2 p3 f|rc nc p1 p2 p3 f].
  - rewrite add_term_src_is_chi.
    destruct (Chi.add_term (nrterm K) (nr_comp K NO (t_cmp_nr K tl)) (nr_plus K NO) (nr_negl K NO (t_neg_nr K tl)) (mk_nr K c p1 p2 p3 f) (ps_nr K st));
      reflexivity.
  - rewrite add_term_src_is_chi.
    destruct (Chi.add_term (rterm K) (r_comp K NO (t_cmp_r K tl)) (r_plus K NO) (r_negl K NO (t_neg_r K tl)) (mk_r K rc nc p1 p2 p3 f) (ps_r K st));
      reflexivity.
Qed.

Lemma fold_emit_kept (tl : tols K) : forall (l : list (bool * emission K)) (st : part_st K),
  fold_left (emit_src K NO tl) (map snd (filter fst l)) st = fold_left (emit K NO tl) l st.
Proof.
  induction l as [|[b e] l IH]; intros st; [reflexivity|].
  cbn [filter fst]. destruct b; cbn [map fold_left snd].
  - rewrite emit_src_is_model. apply IH.
  - rewrite IH. reflexivity.
Qed.

Lemma fold_visits (tl : tols K) (p : part_in K) : forall (vs : list (nat * nat * tp_visit K)) (st : part_st K),
  fold_left (fun st v => fold_left (emit_src K NO tl) (visit_emits_src K NO tl p v) st) vs st =
  fold_left (fun st v => fold_left (emit K NO tl) (visit_emissions K NO tl p v) st) (map visit_of3 vs) st.
Proof.
  induction vs as [|v vs IH]; intros st; [reflexivity|].
  cbn [map fold_left]. rewrite visit_emits_src_is_model, fold_emit_kept. apply IH.
Qed.

(** TwoParticleGFPart::compute *)
Theorem part_compute_src_is_model (g : nat) (tl : tols K) (p : part_in K) :
  part_compute_src K NO g tl p = part_compute K NO g tl p.
Proof.
  unfold part_compute_src, part_compute. rewrite <- part_visits_src_is_model.
  destruct (part_visits_src K NO g p) as [vs| | | |]; cbn [omap bind]; try reflexivity.
  rewrite fold_visits. reflexivity.
Qed.

(** * 5. evaluation *)
Lemma fold_termlist {T} (f : T -> K) (l : list T) :
  termlist_eval_by T K k0 kadd ksub gen_termlist_eval f l = list_eval K NO f l.
Proof. reflexivity. Qed.

(** TwoParticleGFPart::operator()(z1, z2, z3) *)
Theorem part_eval_src_is_model (tl : tols K) (p : part_in K) (st : part_st K) (z1 z2 z3 : K) :
  part_eval_src K NO tl p st z1 z2 z3 = part_eval K NO tl p st z1 z2 z3.
Proof.
  unfold part_eval_src, part_eval. rewrite gen_tp_eval_is_model.
  cbn [pe_frequencies pe_slots pe_status_checked pe_nonres_args pe_res_args pe_combine andb map tp_arg_eval nth nr_call r_call acc_apply].
  destruct (ps_computed K st); cbn [negb]; [|reflexivity].
  rewrite !fold_termlist. reflexivity.
Qed.

(** TwoParticleGF::operator()(z1, z2, z3) *)
Lemma part_values_sum (tl : tols K) (z1 z2 z3 : K) : forall (ps : list (part_in K * part_st K)) (acc : K),
  bind (part_values_src K NO tl ps z1 z2 z3) (fun vals => Done (fold_left (fun a v => kadd a v) vals acc)) =
  sum_parts K NO tl ps z1 z2 z3 acc.
Proof.
  induction ps as [|[p st] ps IH]; intros acc; [reflexivity|].
  cbn [part_values_src sum_parts]. rewrite part_eval_src_is_model.
  destruct (part_eval K NO tl p st z1 z2 z3) as [v| | | |]; cbn [bind]; try reflexivity.
  rewrite <- IH. destruct (part_values_src K NO tl ps z1 z2 z3); reflexivity.
Qed.

Theorem gf_value_src_is_model (tl : tols K) (s : gf_st K) (z1 z2 z3 : K) :
  LehmannGenChi.gf_value_src K NO tl s z1 z2 z3 = Chi.gf_value K NO tl s z1 z2 z3.
Proof.
  unfold LehmannGenChi.gf_value_src, Chi.gf_value. rewrite !(proj1 (gen_tpgf_value_is_model K NO)).
  destruct (g_vanishing K s); [reflexivity|].
  rewrite <- part_values_sum.
  destruct (part_values_src K NO tl (g_parts K s) z1 z2 z3); reflexivity.
Qed.
End Compute.

(** * 6. the theorems of props/Properties_C02.v, about the source *)
Section Transport.
Variable K : Type.
Variable NO : numops K.

Lemma omap_done_inv {A B} (h : A -> B) (o : outcome A) (y : B) : omap h o = Done y -> exists x, o = Done x /\ h x = y.
Proof. destruct o as [x| | | |]; cbn; try discriminate. intros E. injection E as <-. exists x. split; reflexivity. Qed.

(** the loop nest of the source visits every quadruple with four stored matrix elements exactly once *)
Theorem chi_walk_complete_src (g : nat) (p : part_in K) : part_sorted K p ->
  exists vs, part_visits_src K NO g p = Done vs /\
    NoDup (map (quad K) (map (visit_of3 K) vs)) /\
    forall i1 i2 i3 i4,
      In (i1, i2, i3, i4) (map (quad K) (map (visit_of3 K) vs)) <->
      stored K (p_O1 K p) i1 i2 /\ stored K (p_O2 K p) i3 i2 /\ stored K (p_O3 K p) i3 i4 /\ stored K (p_CX4 K p) i1 i4.
Proof.
  intros Hs. destruct (chi_walk_complete K NO g p Hs) as [vs' [E [Hn Hi]]].
  rewrite <- part_visits_src_is_model in E. destruct (omap_done_inv _ _ _ E) as [vs [E1 E2]].
  exists vs. rewrite E2. split; [exact E1|]. split; [exact Hn|exact Hi].
Qed.

(** compute() of a part of the source terminates normally for any matrices *)
Theorem part_compute_total_src (g : nat) (tl : tols K) (p : part_in K) :
  exists st, part_compute_src K NO g tl p = Done st /\ ps_computed K st = true.
Proof. rewrite part_compute_src_is_model. apply part_compute_total. Qed.

(** table path = on-demand path, for the source: compute (shape read off TwoParticleGF::compute) returns one entry per frequency,
    and entry w is what operator() of the source returns for freqs[w] on the non-purged object *)
Theorem table_eq_on_demand_src (g : nat) (tl : tols K) (clear : bool) (ps : list (part_in K)) (freqs : list (K * K * K)) :
  exists table s' sx,
    gf_compute_src K NO g tl clear freqs (gf_prepared K ps) = Done (table, s') /\
    gf_compute_src K NO g tl false [] (gf_prepared K ps) = Done ([], sx) /\
    length table = length freqs /\
    forall w f, nth_error freqs w = Some f ->
      LehmannGenChi.gf_value_src K NO tl sx (fst (fst f)) (snd (fst f)) (snd f) = Done (nth w table (n0 K NO)).
Proof.
  unfold gf_compute_src. rewrite (proj1 gen_tpgf_compute_is_model).
  cbn [tc_size_before_vanishing tc_reduce_guarded].
  change compute_sizes_table_before_vanishing_test with true. change compute_guards_empty_reduce with true.
  destruct (table_eq_on_demand K NO g tl clear ps freqs) as [table [s' [sx [E1 [E2 [E3 E4]]]]]].
  exists table, s', sx. split; [exact E1|]. split; [exact E2|]. split; [exact E3|].
  intros w f Hw. rewrite gf_value_src_is_model. apply E4. exact Hw.
Qed.
End Transport.

(** the hypotheses are satisfiable: a part with one stored element per matrix over the integers; the source functions computed on it *)
Definition exZ_part : part_in Z :=
  {| p_O1 := [[(0, 1%Z)]]; p_O2 := [[(0, 1%Z)]]; p_O3 := [[(0, 1%Z)]]; p_CX4 := [[(0, 1%Z)]];
     p_E1 := [0%Z]; p_E2 := [1%Z]; p_E3 := [0%Z]; p_E4 := [1%Z];
     p_W1 := [2%Z]; p_W2 := [1%Z]; p_W3 := [2%Z]; p_W4 := [1%Z];
     p_beta := 1%Z; p_perm := (0, 1, 2); p_sign := 1%Z; p_blocks := (0, 1, 0, 1)%Z |}.
Example ex_chi_src_visits : part_visits_src Z Zops 0 exZ_part = Done [(0, 0, (0, 0, 1%Z, 1%Z, 0))].
Proof. vm_compute. reflexivity. Qed.
Example ex_chi_src_compute :
  exists st, part_compute_src Z Zops 0 Ztols exZ_part = Done st /\ part_compute Z Zops 0 Ztols exZ_part = Done st /\
             length (ps_nr Z st) = 2 /\ length (ps_r Z st) = 2.
Proof. eexists. split; [vm_compute; reflexivity|]. split; [vm_compute; reflexivity|]. split; reflexivity. Qed.
Example ex_chi_src_sorted : part_sorted Z exZ_part.
Proof.
  repeat split; intros o; (destruct o as [|[|o]]; cbn; repeat constructor).
Qed.
