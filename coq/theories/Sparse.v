(** Compressed sparse row / column storage and the index-chasing merge walks of pomerol.

    Model of what the C++ does with Eigen::SparseMatrix<..., RowMajor|ColMajor> in
      src/pomerol/GreensFunctionPart.cpp:51-80   (GreensFunctionPart::compute)
      src/pomerol/SusceptibilityPart.cpp:53-88   (SusceptibilityPart::compute, same loop shape)
      src/pomerol/TwoParticleGFPart.cpp:6-20     (chaseIndices) and :119-125 (the Index4List loop)

    A compressed Eigen matrix is three arrays: outerIndexPtr (length outer+1), innerIndexPtr and
    valuePtr (length nnz).  An InnerIterator(mat, o) is the pair m_id = outerIndexPtr[o],
    m_end = outerIndexPtr[o+1]; `operator bool` is m_id < m_end, `index()` is innerIndexPtr[m_id]
    and `value()` is valuePtr[m_id] -- NEITHER tests m_id against m_end or against the array
    length.  Every such read goes through the bounds-checked [rd] below, which says whether the
    position was inside the inner vector of the iterator ([Val]), past its end but still inside
    the array -- i.e. the read returns an entry of a LATER row/column -- ([PastEnd], carrying the
    value that is in memory there), or outside the array ([ROOB]).

    Two switches:
      [fixed]   false = the loops as they are written today; true = the minimally repaired loops
                (the iterator is tested before index() is read).
      [lenient] false = stop at the first bad read and report it (strict; used for the in-bounds
                theorems); true = a PastEnd read continues with the value that is in memory, as the
                hardware does, and only a read outside the array stops the run (used to show that
                the defect cannot change the result, and to predict the sanitizer's verdict).

    Generic in the value type; nothing here looks at values. *)
Require Import Bool List Arith Lia.
Import ListNotations.

Record cs (V : Type) : Type := mkcs {
  cs_inner : nat;          (* inner dimension: number of columns of a row-major matrix *)
  cs_ptr : list nat;       (* outerIndexPtr, length = outer + 1 *)
  cs_idx : list nat;       (* innerIndexPtr *)
  cs_val : list V          (* valuePtr *)
}.
Arguments mkcs {V}.
Arguments cs_inner {V}.
Arguments cs_ptr {V}.
Arguments cs_idx {V}.
Arguments cs_val {V}.

Definition cs_outer {V} (m : cs V) : nat := pred (length (cs_ptr m)).

(** well-formedness of a compressed matrix *)
Definition ptr_at {V} (m : cs V) (o : nat) : nat := nth o (cs_ptr m) 0.
Definition idx_at {V} (m : cs V) (p : nat) : nat := nth p (cs_idx m) 0.

Record cs_wf {V} (m : cs V) : Prop := {
  wf_ptr_nonempty : length (cs_ptr m) = S (cs_outer m);
  wf_ptr_mono : forall o, o < cs_outer m -> ptr_at m o <= ptr_at m (S o);
  wf_ptr_last : ptr_at m (cs_outer m) = length (cs_idx m);
  wf_val_len : length (cs_val m) = length (cs_idx m);
  wf_idx_incr : forall o p, o < cs_outer m -> ptr_at m o <= p -> S p < ptr_at m (S o) ->
                            idx_at m p < idx_at m (S p);
  wf_idx_bound : forall p, p < length (cs_idx m) -> idx_at m p < cs_inner m
}.

(** boolean version, for examples and for the driver *)
Fixpoint mono_b (l : list nat) : bool :=
  match l with
  | a :: ((b :: _) as r) => (a <=? b) && mono_b r
  | _ => true
  end.
Fixpoint incr_from (idx : list nat) (p n : nat) : bool :=   (* idx[p] < idx[p+1] < ... over n consecutive gaps *)
  match n with
  | O => true
  | S n' => (nth p idx 0 <? nth (S p) idx 0) && incr_from idx (S p) n'
  end.
Definition cs_wf_b {V} (m : cs V) : bool :=
  match cs_ptr m with
  | [] => false
  | _ =>
    mono_b (cs_ptr m) &&
    (ptr_at m (cs_outer m) =? length (cs_idx m)) &&
    (length (cs_val m) =? length (cs_idx m)) &&
    forallb (fun o => incr_from (cs_idx m) (ptr_at m o) (pred (ptr_at m (S o) - ptr_at m o))) (seq 0 (cs_outer m)) &&
    forallb (fun i => i <? cs_inner m) (cs_idx m)
  end.

(** * Reads *)
Inductive read (A : Type) : Type :=
| Val (a : A)        (* inside the inner vector the iterator belongs to *)
| PastEnd (a : A)    (* m_id >= m_end but still inside the array: an entry of a later inner vector *)
| ROOB.              (* outside the array *)
Arguments Val {A} a.
Arguments PastEnd {A} a.
Arguments ROOB {A}.

(** InnerIterator::index() with m_id = [id], m_end = [e] *)
Definition rd {V} (m : cs V) (e id : nat) : read nat :=
  match nth_error (cs_idx m) id with
  | Some v => if id <? e then Val v else PastEnd v
  | None => ROOB
  end.

(** InnerIterator::value() *)
Definition rdv {V} (m : cs V) (id : nat) : option V := nth_error (cs_val m) id.

(** InnerIterator(mat, o): (m_id, m_end) = (outerIndexPtr[o], outerIndexPtr[o+1]); [None] = read outside outerIndexPtr *)
Definition iter_begin {V} (m : cs V) (o : nat) : option (nat * nat) :=
  match nth_error (cs_ptr m) o, nth_error (cs_ptr m) (S o) with
  | Some s, Some e => Some (s, e)
  | _, _ => None
  end.

(** * Results of a walk *)
Inductive side : Type := SideA | SideB.      (* which matrix the bad read was in: first / second argument *)

Inductive wres (A : Type) : Type :=
| WDone (a : A)
| WPastEnd (s : side) (pos : nat)   (* index() read at position pos >= m_end, inside the array *)
| WOOB (s : side) (pos : nat)       (* read outside the array (or outside outerIndexPtr) *)
| WFuel.                            (* the model's fuel ran out: never a legitimate result *)
Arguments WDone {A} a.
Arguments WPastEnd {A} s pos.
Arguments WOOB {A} s pos.
Arguments WFuel {A}.

Definition wmap {A B} (f : A -> B) (r : wres A) : wres B :=
  match r with
  | WDone a => WDone (f a)
  | WPastEnd s p => WPastEnd s p
  | WOOB s p => WOOB s p
  | WFuel => WFuel
  end.
Definition wbind {A B} (r : wres A) (f : A -> wres B) : wres B :=
  match r with
  | WDone a => f a
  | WPastEnd s p => WPastEnd s p
  | WOOB s p => WOOB s p
  | WFuel => WFuel
  end.

Definition is_done {A} (r : wres A) : bool := match r with WDone _ => true | _ => false end.

(** * The chase loop of GreensFunctionPart::compute / SusceptibilityPart::compute

      for(;QuantumState(CXinner.index())<C_index2; ++CXinner);          GreensFunctionPart.cpp:76,77
                                                                       SusceptibilityPart.cpp:84,85
    index() is read WITHOUT testing the iterator.  Repaired form ([fixed] = true):
      for(;CXinner && QuantumState(CXinner.index())<C_index2; ++CXinner);                            *)
Fixpoint chase {V} (fixed lenient : bool) (sd : side) (m : cs V) (e target : nat)
         (fuel id : nat) : wres nat :=
  match fuel with
  | O => WFuel
  | S f =>
    if fixed && negb (id <? e) then WDone id
    else
      match rd m e id with
      | Val j => if j <? target then chase fixed lenient sd m e target f (S id) else WDone id
      | PastEnd j =>
        if lenient then (if j <? target then chase fixed lenient sd m e target f (S id) else WDone id)
        else WPastEnd sd id
      | ROOB => WOOB sd id
      end
  end.

(** enough fuel for any chase: the position grows by one per step and a read at length idx is ROOB *)
Definition chase_fuel {V} (m : cs V) : nat := S (S (length (cs_idx m))).

Definition wcons {A} (x : A) (r : wres (list A)) : wres (list A) := wmap (cons x) r.

(** * The merge walk over one outer index

      while(Cinner && CXinner){                                  GreensFunctionPart.cpp:57
          C_index2 = Cinner.index(); CX_index2 = CXinner.index();                  :58,59
          if(C_index2 == CX_index2){ ...; ++Cinner; ++CXinner; }                   :62-73
          else{ if(CX_index2 < C_index2) for(;CXinner.index()<C_index2; ++CXinner);   :76
                else for(;Cinner.index()<CX_index2; ++Cinner); }                     :77
      }
    [a] is the row-major matrix (Cinner: m_id = p, m_end = pe), [b] the column-major one
    (CXinner: q, qe).  Result: the matched positions (p, q) in the order they are met. *)
Fixpoint walk {VA VB} (fixed lenient : bool) (a : cs VA) (b : cs VB) (pe qe : nat)
         (fuel p q : nat) : wres (list (nat * nat)) :=
  match fuel with
  | O => WFuel
  | S f =>
    if (p <? pe) && (q <? qe) then
      match rd a pe p with
      | Val i =>
        match rd b qe q with
        | Val j =>
          if i =? j then wcons (p, q) (walk fixed lenient a b pe qe f (S p) (S q))
          else if j <? i then
            wbind (chase fixed lenient SideB b qe i (chase_fuel b) q)
                  (fun q' => walk fixed lenient a b pe qe f p q')
          else
            wbind (chase fixed lenient SideA a pe j (chase_fuel a) p)
                  (fun p' => walk fixed lenient a b pe qe f p' q)
        | PastEnd _ => WPastEnd SideB q
        | ROOB => WOOB SideB q
        end
      | PastEnd _ => WPastEnd SideA p
      | ROOB => WOOB SideA p
      end
    else WDone []
  end.

Definition walk_fuel (p pe q qe : nat) : nat := S ((pe - p) + (qe - q)).

(** the walk for outer index [o], from the construction of the two iterators *)
Definition walk_outer {VA VB} (fixed lenient : bool) (a : cs VA) (b : cs VB) (o : nat)
  : wres (list (nat * nat)) :=
  match iter_begin a o with
  | None => WOOB SideA o
  | Some (p, pe) =>
    match iter_begin b o with
    | None => WOOB SideB o
    | Some (q, qe) => walk fixed lenient a b pe qe (walk_fuel p pe q qe) p q
    end
  end.

(** for(index1=0; index1<outerSize; ++index1) with outerSize = Cmatrix.outerSize()     :47,51
    result: (index1, position in a, position in b) of every match, in visiting order *)
Fixpoint part_walk_from {VA VB} (fixed lenient : bool) (a : cs VA) (b : cs VB) (n o : nat)
  : wres (list (nat * (nat * nat))) :=
  match n with
  | O => WDone []
  | S n' =>
    wbind (walk_outer fixed lenient a b o) (fun l =>
      wmap (fun rest => map (fun pq => (o, pq)) l ++ rest) (part_walk_from fixed lenient a b n' (S o)))
  end.
Definition part_walk {VA VB} (fixed lenient : bool) (a : cs VA) (b : cs VB) : wres (list (nat * (nat * nat))) :=
  part_walk_from fixed lenient a b (cs_outer a) 0.

(** * Specification: the positions with equal inner index *)
Definition row_matches (ia ib : nat -> nat) (p q k : nat) : list (nat * nat) :=
  flat_map (fun q' => if ia p =? ib q' then [(p, q')] else []) (seq q k).
Definition matches (ia ib : nat -> nat) (p n q k : nat) : list (nat * nat) :=
  flat_map (fun p' => row_matches ia ib p' q k) (seq p n).

(** all pairs (p, q), p in the o-th inner vector of a, q in the o-th inner vector of b, with the same inner index,
    in lexicographic (= doubly increasing) order *)
Definition matches_outer {VA VB} (a : cs VA) (b : cs VB) (o : nat) : list (nat * nat) :=
  matches (idx_at a) (idx_at b) (ptr_at a o) (ptr_at a (S o) - ptr_at a o) (ptr_at b o) (ptr_at b (S o) - ptr_at b o).
Definition matches_part {VA VB} (a : cs VA) (b : cs VB) : list (nat * (nat * nat)) :=
  flat_map (fun o => map (fun pq => (o, pq)) (matches_outer a b o)) (seq 0 (cs_outer a)).

(** * chaseIndices of TwoParticleGFPart.cpp:6-20

      index1 = index1_iter.index(); index2 = index2_iter.index();      (both iterators valid: tested by the caller's while)
      if(index1 == index2) return true;
      if(index1 < index2) for(;index1_iter.index()<index2 && index1_iter; ++index1_iter);
      else                for(;index2_iter.index()<index1 && index2_iter; ++index2_iter);
      return false;
    The loop condition reads index() BEFORE testing the iterator.  Repaired form: `it && it.index() < t`. *)
Fixpoint chase2 {V} (fixed lenient : bool) (sd : side) (m : cs V) (e target : nat)
         (fuel id : nat) : wres nat :=
  match fuel with
  | O => WFuel
  | S f =>
    if fixed then
      (if id <? e then
         match rd m e id with
         | Val j => if j <? target then chase2 fixed lenient sd m e target f (S id) else WDone id
         | PastEnd _ => WPastEnd sd id
         | ROOB => WOOB sd id
         end
       else WDone id)
    else
      match rd m e id with
      | Val j => if (j <? target) && (id <? e) then chase2 fixed lenient sd m e target f (S id) else WDone id
      | PastEnd j =>
        if lenient then (if (j <? target) && (id <? e) then chase2 fixed lenient sd m e target f (S id) else WDone id)
        else WPastEnd sd id
      | ROOB => WOOB sd id
      end
  end.

(** result: (matched?, new position in a, new position in b) *)
Definition chaseIndices {VA VB} (fixed lenient : bool) (a : cs VA) (pe : nat) (b : cs VB) (qe : nat) (p q : nat)
  : wres (bool * (nat * nat)) :=
  match rd a pe p with
  | Val i =>
    match rd b qe q with
    | Val j =>
      if i =? j then WDone (true, (p, q))
      else if i <? j then wmap (fun p' => (false, (p', q))) (chase2 fixed lenient SideA a pe j (chase_fuel a) p)
      else wmap (fun q' => (false, (p, q'))) (chase2 fixed lenient SideB b qe i (chase_fuel b) q)
    | PastEnd _ => WPastEnd SideB q
    | ROOB => WOOB SideB q
    end
  | PastEnd _ => WPastEnd SideA p
  | ROOB => WOOB SideA p
  end.

(** while (bra && ket){ if(chaseIndices(ket,bra)){ push_back; ++bra; ++ket; } }   TwoParticleGFPart.cpp:119-125, 136-162 *)
Fixpoint walk2 {VA VB} (fixed lenient : bool) (a : cs VA) (b : cs VB) (pe qe : nat)
         (fuel p q : nat) : wres (list (nat * nat)) :=
  match fuel with
  | O => WFuel
  | S f =>
    if (p <? pe) && (q <? qe) then
      wbind (chaseIndices fixed lenient a pe b qe p q) (fun r =>
        match r with
        | (true, (p', q')) => wcons (p', q') (walk2 fixed lenient a b pe qe f (S p') (S q'))
        | (false, (p', q')) => walk2 fixed lenient a b pe qe f p' q'
        end)
    else WDone []
  end.

(** walk2 between the inner vector [oa] of a and the inner vector [ob] of b (they differ in the 2PGF code) *)
Definition walk2_outer {VA VB} (fixed lenient : bool) (a : cs VA) (oa : nat) (b : cs VB) (ob : nat)
  : wres (list (nat * nat)) :=
  match iter_begin a oa with
  | None => WOOB SideA oa
  | Some (p, pe) =>
    match iter_begin b ob with
    | None => WOOB SideB ob
    | Some (q, qe) => walk2 fixed lenient a b pe qe (walk_fuel p pe q qe) p q
    end
  end.

(** * Building a compressed matrix from sorted triplets (used by examples and by the driver) *)
Fixpoint count_lt (o : nat) (rows : list nat) : nat :=   (* number of entries with row < o *)
  match rows with
  | [] => 0
  | r :: t => (if r <? o then 1 else 0) + count_lt o t
  end.
(** [trip] sorted by (outer, inner): list of (outer index, inner index, value) *)
Definition cs_of_triplets {V} (outer inner : nat) (trip : list (nat * nat * V)) : cs V :=
  let rows := map (fun t => fst (fst t)) trip in
  mkcs inner (map (fun o => count_lt o rows) (seq 0 (S outer)))
       (map (fun t => snd (fst t)) trip) (map snd trip).
