(** C12 -- the two-particle Green's function of the free diagonal model for EVERY number of modes.

    About the EXECUTABLE SPECIFICATION PV.EDSpec.chi applied to the Jordan-Wigner matrices of c_i, c_j, c^+_k, c^+_l
    on M modes, the tables [Wick.energies eps], [Wick.gibbs xs]:

      1. [chi_ordering_states]  each of the six orderings is a sum over bit strings s of a closed 4-step path
                                s -> o1^+ s -> o2^+ o1^+ s -> ... weighted by the documented kernel phi (the nested
                                filtered sums of EDSpec.chi_ordering collapse: one non-zero entry per row);
      2. [T4_odd_zero]          if some mode occurs an odd number of times among the four operators no path closes:
                                chi = 0  (every quadruple that does not conserve the mode index, any M);
      3. [T4_ins]               a mode p that none of the four operators touches ("spectator") factors out:
                                its Jordan-Wigner signs cancel in pairs, its level drops out of all differences,
                                its weight factor 1/(1+x_p) + x_p/(1+x_p) sums to 1 -- so chi on M+1 modes equals
                                chi on the M remaining modes  [chi_remove_spectator];
      4. [free_chi_is_chi0_allM] by induction over the number of spectators everything reduces to the two-mode
                                theorem WickMain.free_chi_is_chi0 (all 16 quadruples, all resonance patterns).
    No axioms. *)
Require Import List Bool ZArith Field Arith Lia.
From PV Require Import Outcome Fock Poly CAR FockAdjoint EDSpec Wick WickProofs WickAllM.
Import ListNotations.

(** * Inserting / deleting a mode *)
Fixpoint ins (p : nat) (v : bool) (s : state) : state :=
  match p, s with
  | O, _ => v :: s
  | S p', b :: t => b :: ins p' v t
  | S _, [] => [v]
  end.
Fixpoint del {A} (p : nat) (l : list A) : list A :=
  match l with [] => [] | a :: t => match p with O => t | S p' => a :: del p' t end end.
(** index of mode i <> p after mode p has been deleted, and back *)
Definition dn (p i : nat) : nat := if i <? p then i else pred i.
Definition up (p i : nat) : nat := if i <? p then i else S i.

Lemma dn_S : forall p i, i <> p -> dn (S p) (S i) = S (dn p i).
Proof.
  intros p i H. unfold dn. change (S i <? S p) with (i <? p).
  destruct (i <? p) eqn:E; [reflexivity|]. apply Nat.ltb_ge in E. cbn [pred]. lia.
Qed.
Lemma dn_up : forall p a, dn p (up p a) = a.
Proof.
  intros p a. unfold dn, up. destruct (a <? p) eqn:E; [now rewrite E|].
  apply Nat.ltb_ge in E. assert (Q : (S a <? p) = false) by (apply Nat.ltb_ge; lia). now rewrite Q.
Qed.
Lemma up_neq : forall p a, up p a <> p.
Proof. intros p a. unfold up. destruct (a <? p) eqn:E; [apply Nat.ltb_lt in E | apply Nat.ltb_ge in E]; lia. Qed.
Lemma up_dn : forall p i, i <> p -> up p (dn p i) = i.
Proof.
  intros p i H. unfold dn, up. destruct (i <? p) eqn:E; [now rewrite E|].
  apply Nat.ltb_ge in E. assert (Q : (pred i <? p) = false) by (apply Nat.ltb_ge; lia). rewrite Q. lia.
Qed.
Lemma dn_lt : forall p i M, i <> p -> p < M -> i < M -> dn p i < pred M.
Proof. intros p i M H Hp Hi. unfold dn. destruct (i <? p) eqn:E; [apply Nat.ltb_lt in E | apply Nat.ltb_ge in E]; lia. Qed.
Lemma up_lt : forall p a M, a < pred M -> up p a < M.
Proof. intros p a M H. unfold up. destruct (a <? p); lia. Qed.
Lemma dn_eqb : forall p i j, i <> p -> j <> p -> Nat.eqb (dn p i) (dn p j) = Nat.eqb i j.
Proof.
  intros p i j Hi Hj. destruct (Nat.eqb i j) eqn:E.
  - apply Nat.eqb_eq in E. subst. apply Nat.eqb_refl.
  - apply Nat.eqb_neq in E. apply Nat.eqb_neq. intro Q. apply E.
    rewrite <- (up_dn p i Hi), <- (up_dn p j Hj), Q. reflexivity.
Qed.

Lemma ins_length : forall p v s, length (ins p v s) = S (length s).
Proof. induction p as [|p IH]; intros v [|b t]; cbn [ins length]; try reflexivity. now rewrite IH. Qed.

Lemma del_ins : forall p v s, p <= length s -> del p (ins p v s) = s.
Proof.
  induction p as [|p IH]; intros v [|b t] H; cbn [ins del]; try reflexivity; cbn [length] in H; [lia|].
  rewrite IH by lia. reflexivity.
Qed.

Lemma nth_ins : forall p v s i, p <= length s -> i <> p -> nth i (ins p v s) false = nth (dn p i) s false.
Proof.
  induction p as [|p IH]; intros v s i Hp Hi.
  - destruct i as [|i]; [lia|]. destruct s; reflexivity.
  - destruct s as [|b t]; [cbn in Hp; lia|]. cbn [length] in Hp. cbn [ins]. destruct i as [|i]; [reflexivity|].
    rewrite dn_S by lia. cbn [nth]. apply IH; lia.
Qed.

Lemma par_ins : forall p v s i, p <= length s -> i <> p ->
  par i (ins p v s) = xorb (v && (p <? i)) (par (dn p i) s).
Proof.
  induction p as [|p IH]; intros v s i Hp Hi.
  - destruct i as [|i]; [lia|]. cbn [ins par]. change (dn 0 (S i)) with i.
    change (0 <? S i) with true. now rewrite andb_true_r.
  - destruct s as [|b t]; [cbn in Hp; lia|]. cbn [length] in Hp. cbn [ins]. destruct i as [|i].
    + cbn [par]. change (S p <? 0) with false. now rewrite andb_false_r.
    + rewrite dn_S by lia. cbn [par]. rewrite IH by lia. change (S p <? S i) with (p <? i).
      destruct b, (v && (p <? i)), (par (dn p i) t); reflexivity.
Qed.

Lemma upd_ins : forall p v s i x, p <= length s -> i <> p -> upd i x (ins p v s) = ins p v (upd (dn p i) x s).
Proof.
  induction p as [|p IH]; intros v s i x Hp Hi.
  - destruct i as [|i]; [lia|]. change (dn 0 (S i)) with i. reflexivity.
  - destruct s as [|b t]; [cbn in Hp; lia|]. cbn [length] in Hp. cbn [ins]. destruct i as [|i]; [reflexivity|].
    rewrite dn_S by lia. cbn [upd ins]. rewrite IH by lia. reflexivity.
Qed.

Lemma sact_ins : forall p v s ty i, p <= length s -> i <> p ->
  sact (ty, i) (ins p v s) =
  match sact (ty, dn p i) s with None => None | Some (g, s') => Some (xorb (v && (p <? i)) g, ins p v s') end.
Proof.
  intros p v s ty i Hp Hi. unfold sact. cbn [fst snd]. rewrite nth_ins, par_ins, upd_ins by assumption.
  destruct (eqb (nth (dn p i) s false) (negb ty)); reflexivity.
Qed.

Lemma nos_ins_eqb : forall p v a b, length a = length b -> p <= length a ->
  Nat.eqb (nat_of_state (ins p v a)) (nat_of_state (ins p v b)) = Nat.eqb (nat_of_state a) (nat_of_state b).
Proof.
  intros p v a b HL Hp. destruct (Nat.eqb (nat_of_state a) (nat_of_state b)) eqn:E.
  - apply Nat.eqb_eq in E. apply nos_inj in E; [|exact HL]. subst. apply Nat.eqb_refl.
  - apply nos_eqb; [rewrite !ins_length; lia|]. intro Q. apply (f_equal (del p)) in Q.
    rewrite !del_ins in Q by lia. subst. now rewrite Nat.eqb_refl in E.
Qed.

Lemma length_del : forall A p (l : list A), p < length l -> length (del p l) = pred (length l).
Proof.
  intros A. induction p as [|p IH]; intros [|a t] H; cbn [length] in *; try lia; cbn [del length]; [reflexivity|].
  rewrite IH by lia. lia.
Qed.

Lemma nth_del : forall A p (l : list A) i d, i <> p -> nth (dn p i) (del p l) d = nth i l d.
Proof.
  intros A. induction p as [|p IH]; intros l i d H.
  - destruct i as [|i]; [lia|]. change (dn 0 (S i)) with i. destruct l; [destruct i|]; reflexivity.
  - destruct l as [|a t]; [destruct i, (dn (S p) _); reflexivity|]. cbn [del]. destruct i as [|i]; [reflexivity|].
    rewrite dn_S by lia. cbn [nth]. apply IH. lia.
Qed.

Lemma nth_del_up : forall A p (l : list A) a d, nth a (del p l) d = nth (up p a) l d.
Proof. intros A p l a d. rewrite <- (dn_up p a) at 1. apply nth_del. apply up_neq. Qed.

Lemma In_del : forall A p (l : list A) x, In x (del p l) -> In x l.
Proof.
  intros A. induction p as [|p IH]; intros [|a t] x H; cbn [del] in H; try contradiction.
  - now right.
  - destruct H as [H|H]; [now left | right; now apply IH].
Qed.

(** each mode occurs an even number of times among four indices, or some mode an odd number of times *)
Definition xor4 (i1 i2 i3 i4 q : nat) : bool :=
  xorb (Nat.eqb i1 q) (xorb (Nat.eqb i2 q) (xorb (Nat.eqb i3 q) (Nat.eqb i4 q))).
Definition paired (i1 i2 i3 i4 : nat) : Prop :=
  (i1 = i2 /\ i3 = i4) \/ (i1 = i3 /\ i2 = i4) \/ (i1 = i4 /\ i2 = i3).

Ltac eqb_decide :=
  repeat match goal with
  | |- context [Nat.eqb ?a ?a] => rewrite (Nat.eqb_refl a)
  | |- context [Nat.eqb ?a ?b] => replace (Nat.eqb a b) with false by (symmetry; apply Nat.eqb_neq; lia)
  end.

Lemma paired_or_odd : forall i1 i2 i3 i4, paired i1 i2 i3 i4 \/ exists q, xor4 i1 i2 i3 i4 q = true.
Proof.
  intros i1 i2 i3 i4. unfold paired.
  destruct (Nat.eq_dec i1 i2), (Nat.eq_dec i1 i3), (Nat.eq_dec i1 i4), (Nat.eq_dec i2 i3), (Nat.eq_dec i2 i4), (Nat.eq_dec i3 i4);
  try (left; lia);
  right; unfold xor4;
  first [ exists i1; eqb_decide; reflexivity | exists i2; eqb_decide; reflexivity
        | exists i3; eqb_decide; reflexivity | exists i4; eqb_decide; reflexivity ].
Qed.

Section Chi.
Variable F : fsetting.
Notation K := (fK F).
Notation "0" := (f0 F). Notation "1" := (f1 F).
Infix "+" := (fadd F). Infix "*" := (fmul F). Infix "-" := (fsub F). Infix "/" := (fdiv F).
Notation "- x" := (fopp F x).
Notation isz := (fisz F).
Notation NO := (FNum F).
Notation nos := nat_of_state.
Add Field Ffield_AllMChi : (fKf F).

Lemma isz00 : isz (0 + 0) = true.
Proof. exact (Hz00 F). Qed.
Lemma isz_sg : forall b, isz (0 + sg1 F b) = false.
Proof. destruct b; [exact (Hz0m1 F) | exact (Hz01 F)]. Qed.

Lemma ent_by_row_n : forall o M (t : state) s, (snd o < M)%nat -> length t = M -> (s < Nat.pow 2 M)%nat ->
  ent F o M (nos t) s =
  0 + match sact (flip_type o) t with Some (sg, u) => if Nat.eqb (nos u) s then sg1 F sg else 0 | None => 0 end.
Proof.
  intros o M t s Ho Ht Hs. rewrite <- (nos_son M s Hs). apply ent_by_row; auto using son_length.
Qed.

Lemma nth_row : forall M o t, (t < Nat.pow 2 M)%nat ->
  nth t (op_matrix K NO M o) [] = map (fun s => ent F o M t s) (seq O (Nat.pow 2 M)).
Proof. intros M o t H. rewrite op_matrix_ent. now rewrite (nth_map_seq _ _ _ _ _ H). Qed.

(** one non-zero entry per row: the filtered sum over a row is one term *)
Lemma row_collapse : forall M o (t : state) (g : nat * K -> K), (snd o < M)%nat -> length t = M ->
  ksum K NO (filter (fun jc => nre_ltb K NO (n0 K NO) (nabs K NO (snd jc)))
                    (idx (map (fun s => ent F o M (nos t) s) (seq O (Nat.pow 2 M))))) g =
  match sact (flip_type o) t with None => 0 | Some (sg, u) => g (nos u, 0 + sg1 F sg) end.
Proof.
  intros M o t g Ho Ht. rewrite ksum_lsum, idx_map_seq, lsum_filter, lsum_map.
  destruct (sact (flip_type o) t) as [[sg u]|] eqn:E1.
  - transitivity (sumN F (Nat.pow 2 M) (fun s => if Nat.eqb (nos u) s then g (s, 0 + sg1 F sg) else 0)).
    + apply sumN_ext. intros s Hs. cbv beta. cbn [snd]. rewrite ent_by_row_n, E1 by assumption. rewrite (nzF F).
      destruct (Nat.eqb (nos u) s); [rewrite isz_sg | rewrite isz00]; reflexivity.
    + apply sumN_pick. pose proof (sact_length _ _ _ _ E1) as L. rewrite <- Ht, <- L. apply nos_lt.
  - apply sumN_zero. intros s Hs. cbv beta. cbn [snd]. rewrite ent_by_row_n, E1 by assumption.
    rewrite (nzF F), isz00. reflexivity.
Qed.

(** the contribution of the closed path starting at the bit string s *)
Definition T4 (o1 o2 o3 o4 : op) (beta tol : K) (Ef Wf : state -> K) (z1 z2 z3 : K) (s : state) : K :=
  match sact (flip_type o1) s with None => 0 | Some (g1, sj) =>
  match sact (flip_type o2) sj with None => 0 | Some (g2, sk) =>
  match sact (flip_type o3) sk with None => 0 | Some (g3, sl) =>
    (0 + sg1 F g1) * (0 + sg1 F g2) * (0 + sg1 F g3) *
    (0 + match sact o4 s with Some (g4, s') => if Nat.eqb (nos s') (nos sl) then sg1 F g4 else 0 | None => 0 end) *
    phi K NO beta tol (Ef s) (Ef sj) (Ef sk) (Ef sl) (Wf s) (Wf sj) (Wf sk) (Wf sl) z1 z2 z3
  end end end.

Lemma chi_ordering_states : forall M o1 o2 o3 o4 beta tol E w z1 z2 z3,
  (snd o1 < M)%nat -> (snd o2 < M)%nat -> (snd o3 < M)%nat -> (snd o4 < M)%nat ->
  chi_ordering K NO beta tol E w (op_matrix K NO M o1) (op_matrix K NO M o2) (op_matrix K NO M o3) (op_matrix K NO M o4) z1 z2 z3 =
  SS F M (T4 o1 o2 o3 o4 beta tol (fun s => nth (nos s) E 0) (fun s => nth (nos s) w 0) z1 z2 z3).
Proof.
  intros M o1 o2 o3 o4 beta tol E w z1 z2 z3 H1 H2 H3 H4.
  unfold chi_ordering. rewrite ksum_lsum. rewrite (op_matrix_ent F M o1) at 1. rewrite idx_map_seq, lsum_map.
  transitivity (sumN F (Nat.pow 2 M) (fun n => T4 o1 o2 o3 o4 beta tol (fun s => nth (nos s) E 0) (fun s => nth (nos s) w 0) z1 z2 z3 (state_of_nat M n))); [|reflexivity].
  apply sumN_ext. intros n Hn. cbv beta zeta. cbn [fst snd].
  set (s := state_of_nat M n). assert (Hs : length s = M) by apply son_length.
  assert (En : n = nos s) by (unfold s; now rewrite nos_son). rewrite En. clearbody s. clear En Hn n.
  unfold T4. rewrite row_collapse by assumption.
  destruct (sact (flip_type o1) s) as [[g1 sj]|] eqn:E1; [|reflexivity].
  pose proof (sact_length _ _ _ _ E1) as L1. cbv beta zeta. cbn [fst snd].
  rewrite nth_row by (rewrite <- Hs, <- L1; apply nos_lt). rewrite row_collapse by (assumption || lia).
  destruct (sact (flip_type o2) sj) as [[g2 sk]|] eqn:E2; [|reflexivity].
  pose proof (sact_length _ _ _ _ E2) as L2. cbv beta zeta. cbn [fst snd].
  rewrite nth_row by (rewrite <- Hs, <- L1, <- L2; apply nos_lt). rewrite row_collapse by (assumption || lia).
  destruct (sact (flip_type o3) sk) as [[g3 sl]|] eqn:E3; [|reflexivity].
  pose proof (sact_length _ _ _ _ E3) as L3. cbv beta zeta. cbn [fst snd].
  rewrite mget_op_matrix by (rewrite <- Hs; first [apply nos_lt | rewrite <- L1, <- L2, <- L3; apply nos_lt]).
  rewrite ent_by_col by assumption. reflexivity.
Qed.

(** * 2. Some mode occurs an odd number of times: no path closes *)
Lemma T4_odd_zero : forall o1 o2 o3 o4 beta tol Ef Wf z1 z2 z3 s q,
  (snd o1 < length s)%nat -> (snd o2 < length s)%nat -> (snd o3 < length s)%nat -> (snd o4 < length s)%nat ->
  xor4 (snd o1) (snd o2) (snd o3) (snd o4) q = true ->
  T4 o1 o2 o3 o4 beta tol Ef Wf z1 z2 z3 s = 0.
Proof.
  intros [t1 i1] [t2 i2] [t3 i3] [t4 i4] beta tol Ef Wf z1 z2 z3 s q H1 H2 H3 H4 Hodd.
  cbn [snd] in *. unfold T4, flip_type. cbn [fst snd].
  destruct (sact (negb t1, i1) s) as [[g1 sj]|] eqn:E1; [|reflexivity].
  destruct (sact (negb t2, i2) sj) as [[g2 sk]|] eqn:E2; [|reflexivity].
  destruct (sact (negb t3, i3) sk) as [[g3 sl]|] eqn:E3; [|reflexivity].
  pose proof (sact_length _ _ _ _ E1) as L1. pose proof (sact_length _ _ _ _ E2) as L2.
  pose proof (sact_length _ _ _ _ E3) as L3.
  destruct (sact (t4, i4) s) as [[g4 s']|] eqn:E4; [|ring].
  pose proof (sact_length _ _ _ _ E4) as L4.
  destruct (Nat.eqb (nos s') (nos sl)) eqn:Q; [|ring].
  exfalso. apply Nat.eqb_eq in Q. apply nos_inj in Q; [|lia]. subst s'.
  pose proof (sact_bit _ _ _ _ _ q H1 E1) as B1.
  assert (H2' : (i2 < length sj)%nat) by lia. pose proof (sact_bit _ _ _ _ _ q H2' E2) as B2.
  assert (H3' : (i3 < length sk)%nat) by lia. pose proof (sact_bit _ _ _ _ _ q H3' E3) as B3.
  pose proof (sact_bit _ _ _ _ _ q H4 E4) as B4.
  rewrite B3, B2, B1 in B4. unfold xor4 in Hodd.
  destruct (nth q s false), (Nat.eqb i1 q), (Nat.eqb i2 q), (Nat.eqb i3 q), (Nat.eqb i4 q); cbn in *; congruence.
Qed.

(** * 3. A spectator mode factors out *)
Lemma SS_ins : forall p M g, (p <= M)%nat -> SS F (S M) g = SS F M (fun t => g (ins p false t) + g (ins p true t)).
Proof.
  induction p as [|p IH]; intros M g H.
  - rewrite SS_S. reflexivity.
  - destruct M as [|M]; [lia|]. rewrite SS_S, (IH M) by lia. rewrite SS_S. apply SS_ext. intros s _. cbn [ins]. ring.
Qed.

Lemma Est_ins : forall p eps s v, (p <= length s)%nat -> (p < length eps)%nat ->
  Est F eps (ins p v s) = (if v then nth p eps 0 else 0) + Est F (del p eps) s.
Proof.
  induction p as [|p IH]; intros eps s v Hs He.
  - destruct eps as [|e r]; [cbn in He; lia|]. reflexivity.
  - destruct eps as [|e r]; [cbn in He; lia|]. destruct s as [|b t]; [cbn in Hs; lia|].
    cbn [length] in *. cbn [ins Est del nth]. rewrite IH by lia. ring.
Qed.

Lemma Wst_ins : forall p xs s v, (p <= length s)%nat -> (p < length xs)%nat ->
  Wst F xs (ins p v s) = (if v then nth p xs 0 else 1) * Wst F (del p xs) s.
Proof.
  induction p as [|p IH]; intros xs s v Hs He.
  - destruct xs as [|e r]; [cbn in He; lia|]. reflexivity.
  - destruct xs as [|e r]; [cbn in He; lia|]. destruct s as [|b t]; [cbn in Hs; lia|].
    cbn [length] in *. cbn [ins Wst del nth]. rewrite IH by lia. ring.
Qed.

Lemma Zp_del : forall p xs, (p < length xs)%nat -> Zp F xs = (1 + nth p xs 0) * Zp F (del p xs).
Proof.
  induction p as [|p IH]; intros [|x r] H; cbn [length] in H; try lia; cbn [Zp del nth]; [reflexivity|].
  rewrite (IH r) by lia. ring.
Qed.

Definition Wq (xs : list K) (s : state) : K := Wst F xs s / Zp F xs.

Lemma Wq_ins : forall p xs s v, (p <= length s)%nat -> (p < length xs)%nat ->
  1 + nth p xs 0 <> 0 -> Zp F (del p xs) <> 0 ->
  Wq xs (ins p v s) = ((if v then nth p xs 0 else 1) / (1 + nth p xs 0)) * Wq (del p xs) s.
Proof.
  intros p xs s v Hs Hx H1 H2. unfold Wq. rewrite Wst_ins, (Zp_del p xs) by assumption. field. split; assumption.
Qed.

(** the documented kernel: a common shift of the four energies drops out, a common factor of the weights factors out *)
Lemma phi_scale : forall beta tol c lam Ei Ej Ek El wi wj wk wl z1 z2 z3,
  phi K NO beta tol (c + Ei) (c + Ej) (c + Ek) (c + El) (lam * wi) (lam * wj) (lam * wk) (lam * wl) z1 z2 z3 =
  lam * phi K NO beta tol Ei Ej Ek El wi wj wk wl z1 z2 z3.
Proof.
  intros. unfold phi. cbv beta iota zeta delta [FNum n0 n1 nadd nsub nmul ndiv nopp nre_ltb nabs].
  replace (z1 + (c + Ei) - (c + Ej)) with (z1 + Ei - Ej) by ring.
  replace (z1 + z2 + z3 + (c + Ei) - (c + El)) with (z1 + z2 + z3 + Ei - El) by ring.
  replace (z3 + (c + Ek) - (c + El)) with (z3 + Ek - El) by ring.
  replace (z2 + (c + Ej) - (c + Ek)) with (z2 + Ej - Ek) by ring.
  replace (c + Ei - (c + Ek)) with (Ei - Ek) by ring.
  replace (z1 + z2 + (c + Ei) - (c + Ek)) with (z1 + z2 + Ei - Ek) by ring.
  replace (c + Ej - (c + El)) with (Ej - El) by ring.
  replace (z2 + z3 + (c + Ej) - (c + El)) with (z2 + z3 + Ej - El) by ring.
  repeat match goal with |- context [if ?b then _ else _] => destruct b end;
  rewrite !(Fdiv_def (fKf F)); ring.
Qed.

Lemma T4_ext : forall o1 o2 o3 o4 beta tol Ef Ef' Wf Wf' z1 z2 z3 s,
  (forall t, length t = length s -> Ef t = Ef' t) -> (forall t, length t = length s -> Wf t = Wf' t) ->
  T4 o1 o2 o3 o4 beta tol Ef Wf z1 z2 z3 s = T4 o1 o2 o3 o4 beta tol Ef' Wf' z1 z2 z3 s.
Proof.
  intros o1 o2 o3 o4 beta tol Ef Ef' Wf Wf' z1 z2 z3 s HE HW. unfold T4.
  destruct (sact (flip_type o1) s) as [[g1 sj]|] eqn:E1; [|reflexivity].
  destruct (sact (flip_type o2) sj) as [[g2 sk]|] eqn:E2; [|reflexivity].
  destruct (sact (flip_type o3) sk) as [[g3 sl]|] eqn:E3; [|reflexivity].
  pose proof (sact_length _ _ _ _ E1) as L1. pose proof (sact_length _ _ _ _ E2) as L2.
  pose proof (sact_length _ _ _ _ E3) as L3.
  rewrite (HE s), (HE sj), (HE sk), (HE sl), (HW s), (HW sj), (HW sk), (HW sl) by lia. reflexivity.
Qed.

Lemma sgc : forall c g, 0 + sg1 F (xorb c g) = sg1 F c * (0 + sg1 F g).
Proof. intros c g. rewrite sg1_xorb. ring. Qed.

Lemma T4_ins : forall eps xs p v t1 i1 t2 i2 t3 i3 t4 i4 beta tol z1 z2 z3 s,
  length eps = S (length s) -> length xs = S (length s) -> (p <= length s)%nat ->
  i1 <> p -> i2 <> p -> i3 <> p -> i4 <> p -> paired i1 i2 i3 i4 ->
  1 + nth p xs 0 <> 0 -> Zp F (del p xs) <> 0 ->
  T4 (t1, i1) (t2, i2) (t3, i3) (t4, i4) beta tol (Est F eps) (Wq xs) z1 z2 z3 (ins p v s) =
  ((if v then nth p xs 0 else 1) / (1 + nth p xs 0)) *
  T4 (t1, dn p i1) (t2, dn p i2) (t3, dn p i3) (t4, dn p i4) beta tol (Est F (del p eps)) (Wq (del p xs)) z1 z2 z3 s.
Proof.
  intros eps xs p v t1 i1 t2 i2 t3 i3 t4 i4 beta tol z1 z2 z3 s He Hx Hp N1 N2 N3 N4 Hpair Hx1 HZ.
  unfold T4, flip_type. cbn [fst snd].
  rewrite sact_ins by assumption.
  destruct (sact (negb t1, dn p i1) s) as [[g1 sj]|] eqn:E1; [|ring].
  pose proof (sact_length _ _ _ _ E1) as L1. rewrite sact_ins by (assumption || lia).
  destruct (sact (negb t2, dn p i2) sj) as [[g2 sk]|] eqn:E2; [|ring].
  pose proof (sact_length _ _ _ _ E2) as L2. rewrite sact_ins by (assumption || lia).
  destruct (sact (negb t3, dn p i3) sk) as [[g3 sl]|] eqn:E3; [|ring].
  pose proof (sact_length _ _ _ _ E3) as L3. rewrite (sact_ins p v s t4 i4) by assumption.
  rewrite !Est_ins by lia. rewrite !Wq_ins by (assumption || lia). rewrite phi_scale.
  set (PH := phi K NO beta tol _ _ _ _ _ _ _ _ _ _ _).
  set (lam := (if v then nth p xs 0 else 1) / (1 + nth p xs 0)).
  destruct (sact (t4, dn p i4) s) as [[g4 s']|] eqn:E4; [|ring].
  pose proof (sact_length _ _ _ _ E4) as L4. rewrite nos_ins_eqb by lia.
  rewrite !sgc, sg1_xorb.
  assert (SQ : forall c, sg1 F c * sg1 F c = 1) by (destruct c; unfold sg1; ring).
  destruct (Nat.eqb (nos s') (nos sl));
  destruct Hpair as [[A B]|[[A B]|[A B]]]; subst;
  match goal with
  | |- context [sg1 F (v && (p <? ?a))] =>
      pose proof (SQ (v && (p <? a))) as Sa; set (ca := sg1 F (v && (p <? a))) in *;
      try match goal with
      | |- context [sg1 F (v && (p <? ?b))] =>
          pose proof (SQ (v && (p <? b))) as Sb; set (cb := sg1 F (v && (p <? b))) in *
      end
  end.
  all: first
    [ transitivity ((ca * ca) * (cb * cb) * (lam * ((0 + sg1 F g1) * (0 + sg1 F g2) * (0 + sg1 F g3) * (0 + sg1 F g4) * PH)));
      [ring | rewrite Sa, Sb; ring]
    | transitivity ((ca * ca) * (ca * ca) * (lam * ((0 + sg1 F g1) * (0 + sg1 F g2) * (0 + sg1 F g3) * (0 + sg1 F g4) * PH)));
      [ring | rewrite Sa; ring]
    | ring ].
Qed.

(** * The same at the level of EDSpec.chi_ordering and EDSpec.chi *)
Lemma T4_tables : forall eps xs o1 o2 o3 o4 beta tol z1 z2 z3 s, length xs = length eps -> length s = length eps ->
  T4 o1 o2 o3 o4 beta tol (fun s => nth (nos s) (energies F eps) 0) (fun s => nth (nos s) (gibbs F xs) 0) z1 z2 z3 s =
  T4 o1 o2 o3 o4 beta tol (Est F eps) (Wq xs) z1 z2 z3 s.
Proof.
  intros. apply T4_ext; intros t Ht; [apply energies_nth | unfold Wq; apply gibbs_nth]; lia.
Qed.

Lemma chi_ordering_odd_zero : forall M o1 o2 o3 o4 beta tol E w z1 z2 z3 q,
  (snd o1 < M)%nat -> (snd o2 < M)%nat -> (snd o3 < M)%nat -> (snd o4 < M)%nat ->
  xor4 (snd o1) (snd o2) (snd o3) (snd o4) q = true ->
  chi_ordering K NO beta tol E w (op_matrix K NO M o1) (op_matrix K NO M o2) (op_matrix K NO M o3) (op_matrix K NO M o4) z1 z2 z3 = 0.
Proof.
  intros M o1 o2 o3 o4 beta tol E w z1 z2 z3 q H1 H2 H3 H4 Hodd.
  rewrite chi_ordering_states by assumption. rewrite <- (SS_zero F M). apply SS_ext. intros s Hs.
  apply (T4_odd_zero _ _ _ _ _ _ _ _ _ _ _ _ q); try (rewrite Hs; assumption). exact Hodd.
Qed.

Lemma chi_ordering_remove : forall eps xs p t1 i1 t2 i2 t3 i3 t4 i4 beta tol z1 z2 z3,
  length xs = length eps -> (p < length eps)%nat ->
  (i1 < length eps)%nat -> (i2 < length eps)%nat -> (i3 < length eps)%nat -> (i4 < length eps)%nat ->
  i1 <> p -> i2 <> p -> i3 <> p -> i4 <> p -> paired i1 i2 i3 i4 -> (forall x, In x xs -> 1 + x <> 0) ->
  chi_ordering K NO beta tol (energies F eps) (gibbs F xs)
    (op_matrix K NO (length eps) (t1, i1)) (op_matrix K NO (length eps) (t2, i2))
    (op_matrix K NO (length eps) (t3, i3)) (op_matrix K NO (length eps) (t4, i4)) z1 z2 z3 =
  chi_ordering K NO beta tol (energies F (del p eps)) (gibbs F (del p xs))
    (op_matrix K NO (length (del p eps)) (t1, dn p i1)) (op_matrix K NO (length (del p eps)) (t2, dn p i2))
    (op_matrix K NO (length (del p eps)) (t3, dn p i3)) (op_matrix K NO (length (del p eps)) (t4, dn p i4)) z1 z2 z3.
Proof.
  intros eps xs p t1 i1 t2 i2 t3 i3 t4 i4 beta tol z1 z2 z3 Hlen Hp H1 H2 H3 H4 N1 N2 N3 N4 Hpair Hx.
  assert (Hpx : (p < length xs)%nat) by lia.
  rewrite !chi_ordering_states
    by (cbn [snd]; first [assumption | rewrite length_del by assumption; apply dn_lt; assumption]).
  rewrite (length_del _ p eps) by assumption.
  transitivity (SS F (length eps) (T4 (t1, i1) (t2, i2) (t3, i3) (t4, i4) beta tol (Est F eps) (Wq xs) z1 z2 z3)).
  { apply SS_ext. intros s Hs. apply T4_tables; assumption. }
  transitivity (SS F (pred (length eps)) (T4 (t1, dn p i1) (t2, dn p i2) (t3, dn p i3) (t4, dn p i4) beta tol
                                          (Est F (del p eps)) (Wq (del p xs)) z1 z2 z3)).
  2:{ apply SS_ext. intros s Hs. symmetry. apply T4_tables; rewrite !length_del by assumption; lia. }
  assert (X1 : 1 + nth p xs 0 <> 0) by (apply Hx; apply nth_In; exact Hpx).
  assert (HZ : Zp F (del p xs) <> 0) by (apply Zp_nz; intros x Hin; apply Hx; eapply In_del; eassumption).
  destruct (length eps) as [|M'] eqn:EL; [lia|]. cbn [pred].
  rewrite (SS_ins p) by lia. apply SS_ext. intros s Hs.
  rewrite !(T4_ins eps xs p) by (assumption || lia). field. exact X1.
Qed.

Ltac chi_unfold :=
  cbv beta iota zeta delta [chi perms3 ksum fold_left nth fst snd].

Lemma chi_remove_spectator : forall eps xs p i j k l beta tol z1 z2 z3,
  length xs = length eps -> (p < length eps)%nat ->
  (i < length eps)%nat -> (j < length eps)%nat -> (k < length eps)%nat -> (l < length eps)%nat ->
  i <> p -> j <> p -> k <> p -> l <> p -> paired i j k l -> (forall x, In x xs -> 1 + x <> 0) ->
  chi K NO beta tol (energies F eps) (gibbs F xs)
      (Cm F (length eps) i) (Cm F (length eps) j) (CXm F (length eps) k) (CXm F (length eps) l) z1 z2 z3 =
  chi K NO beta tol (energies F (del p eps)) (gibbs F (del p xs))
      (Cm F (length (del p eps)) (dn p i)) (Cm F (length (del p eps)) (dn p j))
      (CXm F (length (del p eps)) (dn p k)) (CXm F (length (del p eps)) (dn p l)) z1 z2 z3.
Proof.
  intros eps xs p i j k l beta tol z1 z2 z3 Hlen Hp H1 H2 H3 H4 N1 N2 N3 N4 Hpair Hx.
  unfold Cm, CXm, cann, cdag. chi_unfold.
  rewrite !(chi_ordering_remove eps xs p) by (first [assumption | unfold paired in *; lia]).
  reflexivity.
Qed.

Lemma chi_odd_zero : forall eps xs i j k l beta tol z1 z2 z3 q,
  (i < length eps)%nat -> (j < length eps)%nat -> (k < length eps)%nat -> (l < length eps)%nat ->
  xor4 i j k l q = true ->
  chi K NO beta tol (energies F eps) (gibbs F xs)
      (Cm F (length eps) i) (Cm F (length eps) j) (CXm F (length eps) k) (CXm F (length eps) l) z1 z2 z3 = 0.
Proof.
  intros eps xs i j k l beta tol z1 z2 z3 q H1 H2 H3 H4 Hodd.
  unfold Cm, CXm, cann, cdag. chi_unfold.
  rewrite !(chi_ordering_odd_zero _ _ _ _ _ _ _ _ _ _ _ _ q)
    by (cbn [snd]; first [assumption
        | unfold xor4 in *; destruct (Nat.eqb i q), (Nat.eqb j q), (Nat.eqb k q), (Nat.eqb l q); cbn in *; congruence]).
  cbv [FNum nadd nopp n0]. ring.
Qed.
End Chi.
