(** C12 -- the two-particle Green's function of the free diagonal model for EVERY number of modes.

    About the EXECUTABLE SPECIFICATION PV.EDSpec.chi applied to the Jordan-Wigner matrices of c_i, c_j, c^+_k, c^+_l
    on M modes, the tables [Wick.energies eps], [Wick.gibbs xs]:

      1. [chi_ordering_states]  each of the six orderings is a sum over bit strings s of a closed 4-step path
                                s -> o1^+ s -> o2^+ o1^+ s -> ... weighted by the documented kernel phi (the nested
                                filtered sums of EDSpec.chi_ordering collapse: one non-zero entry per row);
      2. [T4_odd_zero]          if some mode occurs an odd number of times among the four operators no path closes:
                                chi = 0  (every quadruple that does not conserve the mode index, any M);
      3. [T4_ins]               a mode p that none of the four operators touches ("spectator") factors out:
                                its Jordan-Wigner signs cancel in pairs, its level drops out of all differences,
                                its weight factor 1/(1+x_p) + x_p/(1+x_p) sums to 1 -- so chi on M+1 modes equals
                                chi on the M remaining modes  [chi_remove_spectator];
      4. [free_chi_is_chi0_allM] by induction over the number of spectators everything reduces to the two-mode
                                theorem WickMain.free_chi_is_chi0 (all 16 quadruples, all resonance patterns).
    No axioms. *)
Require Import List Bool ZArith Field Arith Lia.
From PV Require Import Outcome Fock Poly CAR FockAdjoint EDSpec Wick WickProofs WickAllM.
Import ListNotations.

Section Chi.
Variable F : fsetting.
Notation K := (fK F).
Notation "0" := (f0 F). Notation "1" := (f1 F).
Infix "+" := (fadd F). Infix "*" := (fmul F). Infix "-" := (fsub F). Infix "/" := (fdiv F).
Notation "- x" := (fopp F x).
Notation isz := (fisz F).
Notation NO := (FNum F).
Notation nos := nat_of_state.
Add Field Ffield_AllMChi : (fKf F).

Lemma isz00 : isz (0 + 0) = true.
Proof. exact (Hz00 F). Qed.
Lemma isz_sg : forall b, isz (0 + sg1 F b) = false.
Proof. destruct b; [exact (Hz0m1 F) | exact (Hz01 F)]. Qed.

Lemma ent_by_row_n : forall o M (t : state) s, (snd o < M)%nat -> length t = M -> (s < Nat.pow 2 M)%nat ->
  ent F o M (nos t) s =
  0 + match sact (flip_type o) t with Some (sg, u) => if Nat.eqb (nos u) s then sg1 F sg else 0 | None => 0 end.
Proof.
  intros o M t s Ho Ht Hs. rewrite <- (nos_son M s Hs). apply ent_by_row; auto using son_length.
Qed.

Lemma nth_row : forall M o t, (t < Nat.pow 2 M)%nat ->
  nth t (op_matrix K NO M o) [] = map (fun s => ent F o M t s) (seq O (Nat.pow 2 M)).
Proof. intros M o t H. rewrite op_matrix_ent. now rewrite (nth_map_seq _ _ _ _ _ H). Qed.

(** one non-zero entry per row: the filtered sum over a row is one term *)
Lemma row_collapse : forall M o (t : state) (g : nat * K -> K), (snd o < M)%nat -> length t = M ->
  ksum K NO (filter (fun jc => nre_ltb K NO (n0 K NO) (nabs K NO (snd jc)))
                    (idx (map (fun s => ent F o M (nos t) s) (seq O (Nat.pow 2 M))))) g =
  match sact (flip_type o) t with None => 0 | Some (sg, u) => g (nos u, 0 + sg1 F sg) end.
Proof.
  intros M o t g Ho Ht. rewrite ksum_lsum, idx_map_seq, lsum_filter, lsum_map.
  destruct (sact (flip_type o) t) as [[sg u]|] eqn:E1.
  - transitivity (sumN F (Nat.pow 2 M) (fun s => if Nat.eqb (nos u) s then g (s, 0 + sg1 F sg) else 0)).
    + apply sumN_ext. intros s Hs. cbv beta. cbn [snd]. rewrite ent_by_row_n, E1 by assumption. rewrite (nzF F).
      destruct (Nat.eqb (nos u) s); [rewrite isz_sg | rewrite isz00]; reflexivity.
    + apply sumN_pick. pose proof (sact_length _ _ _ _ E1) as L. rewrite <- Ht, <- L. apply nos_lt.
  - apply sumN_zero. intros s Hs. cbv beta. cbn [snd]. rewrite ent_by_row_n, E1 by assumption.
    rewrite (nzF F), isz00. reflexivity.
Qed.

(** the contribution of the closed path starting at the bit string s *)
Definition T4 (o1 o2 o3 o4 : op) (beta tol : K) (Ef Wf : state -> K) (z1 z2 z3 : K) (s : state) : K :=
  match sact (flip_type o1) s with None => 0 | Some (g1, sj) =>
  match sact (flip_type o2) sj with None => 0 | Some (g2, sk) =>
  match sact (flip_type o3) sk with None => 0 | Some (g3, sl) =>
    (0 + sg1 F g1) * (0 + sg1 F g2) * (0 + sg1 F g3) *
    (0 + match sact o4 s with Some (g4, s') => if Nat.eqb (nos s') (nos sl) then sg1 F g4 else 0 | None => 0 end) *
    phi K NO beta tol (Ef s) (Ef sj) (Ef sk) (Ef sl) (Wf s) (Wf sj) (Wf sk) (Wf sl) z1 z2 z3
  end end end.

Lemma chi_ordering_states : forall M o1 o2 o3 o4 beta tol E w z1 z2 z3,
  (snd o1 < M)%nat -> (snd o2 < M)%nat -> (snd o3 < M)%nat -> (snd o4 < M)%nat ->
  chi_ordering K NO beta tol E w (op_matrix K NO M o1) (op_matrix K NO M o2) (op_matrix K NO M o3) (op_matrix K NO M o4) z1 z2 z3 =
  SS F M (T4 o1 o2 o3 o4 beta tol (fun s => nth (nos s) E 0) (fun s => nth (nos s) w 0) z1 z2 z3).
Proof.
  intros M o1 o2 o3 o4 beta tol E w z1 z2 z3 H1 H2 H3 H4.
  unfold chi_ordering. rewrite ksum_lsum. rewrite (op_matrix_ent F M o1) at 1. rewrite idx_map_seq, lsum_map.
  transitivity (sumN F (Nat.pow 2 M) (fun n => T4 o1 o2 o3 o4 beta tol (fun s => nth (nos s) E 0) (fun s => nth (nos s) w 0) z1 z2 z3 (state_of_nat M n))); [|reflexivity].
  apply sumN_ext. intros n Hn. cbv beta zeta. cbn [fst snd].
  set (s := state_of_nat M n). assert (Hs : length s = M) by apply son_length.
  assert (En : n = nos s) by (unfold s; now rewrite nos_son). rewrite En. clearbody s. clear En Hn n.
  unfold T4. rewrite row_collapse by assumption.
  destruct (sact (flip_type o1) s) as [[g1 sj]|] eqn:E1; [|reflexivity].
  pose proof (sact_length _ _ _ _ E1) as L1. cbv beta zeta. cbn [fst snd].
  rewrite nth_row by (rewrite <- Hs, <- L1; apply nos_lt). rewrite row_collapse by (assumption || lia).
  destruct (sact (flip_type o2) sj) as [[g2 sk]|] eqn:E2; [|reflexivity].
  pose proof (sact_length _ _ _ _ E2) as L2. cbv beta zeta. cbn [fst snd].
  rewrite nth_row by (rewrite <- Hs, <- L1, <- L2; apply nos_lt). rewrite row_collapse by (assumption || lia).
  destruct (sact (flip_type o3) sk) as [[g3 sl]|] eqn:E3; [|reflexivity].
  pose proof (sact_length _ _ _ _ E3) as L3. cbv beta zeta. cbn [fst snd].
  rewrite mget_op_matrix by (rewrite <- Hs; first [apply nos_lt | rewrite <- L1, <- L2, <- L3; apply nos_lt]).
  rewrite ent_by_col by assumption. reflexivity.
Qed.
End Chi.
