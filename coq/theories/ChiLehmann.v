(** C02: the model's sum over parts is the documented Lehmann sum (EDSpec.chi), exact form.

    Setting: a number type with the operations of [EDSpec.numops] that form a field; one block containing all states
    (symmetries ignored), dense n x n matrices D1 D2 D3 D4 of c_i, c_j, c^+_k, c^+_l in the eigenbasis; the model
    receives their sparsifications (the stored entries are exactly those the specification does not skip).

    What is proved here is the DIRECT form: the sum, over the parts created by TwoParticleGF::prepare and over the
    quadruples visited by TwoParticleGFPart::compute, of the values of the terms handed to the two term lists (with the
    code's guards, the code's resonance test, Permutation.sign and the permuted frequencies {z1, z2, -z3}[perm])
    equals EDSpec.chi.  The step from the term lists to this sum is ChiProofs.add_terms_plain_no_refusal /
    add_term_plain_spec (no term refused, merges only between terms of equal key); its instantiation for exactly
    coinciding poles over a field with complex frequencies is NOT done (see chi_model_eq_lehmann_partial in
    props/Properties_C02.v). *)
Require Import Bool List Arith ZArith Lia Sorted Permutation Field Ring Setoid.
From PV Require Import Outcome EDSpec Chi ChiProofs.
From PVgen Require Import Gen_Multiterm.
Import ListNotations.

Section Lehmann.
Variable K : Type.
Variable NO : numops K.
Notation "0" := (n0 K NO).
Notation "1" := (n1 K NO).
Notation kadd := (nadd K NO).
Notation ksub := (nsub K NO).
Notation kmul := (nmul K NO).
Notation kdiv := (ndiv K NO).
Notation kopp := (nopp K NO).
Notation ltb := (nre_ltb K NO).
Notation kabs := (nabs K NO).
Notation ofZ := (nofZ K NO).
Infix "+" := (nadd K NO).
Infix "*" := (nmul K NO).
Infix "-" := (nsub K NO).
Infix "/" := (ndiv K NO).
Notation "- x" := (nopp K NO x).
Definition kinv (x : K) : K := 1 / x.
Hypothesis Kf : field_theory 0 1 kadd kmul ksub kopp kdiv kinv (@eq K).
Add Field KfieldL : Kf.
Notation G f := (f K kadd ksub kmul kdiv kopp (abs_gt K NO) (abs_lt K NO) (real_ge K NO)) (only parsing).

(** * Sums *)
Definition lsum {A} (l : list A) (f : A -> K) : K := fold_right (fun a acc => f a + acc) 0 l.

Lemma lsum_nil {A} (f : A -> K) : lsum [] f = 0.
Proof. reflexivity. Qed.
Lemma lsum_cons {A} (a : A) (l : list A) (f : A -> K) : lsum (a :: l) f = f a + lsum l f.
Proof. reflexivity. Qed.

Lemma ksum_acc {A} (l : list A) (f : A -> K) (x : K) : fold_left (fun acc a => acc + f a) l x = x + lsum l f.
Proof.
  revert x. induction l as [|a l IH]; intros x; cbn [fold_left].
  - rewrite lsum_nil. ring.
  - rewrite IH, lsum_cons. ring.
Qed.
Lemma ksum_lsum {A} (l : list A) (f : A -> K) : ksum K NO l f = lsum l f.
Proof. unfold ksum. rewrite ksum_acc. ring. Qed.
Lemma list_eval_lsum {T} (ev : T -> K) (l : list T) : list_eval K NO ev l = lsum l ev.
Proof. unfold list_eval. rewrite ksum_acc. ring. Qed.

Lemma lsum_app {A} (l l' : list A) (f : A -> K) : lsum (l ++ l') f = lsum l f + lsum l' f.
Proof.
  induction l as [|a l IH]; cbn [app].
  - rewrite lsum_nil. ring.
  - rewrite !lsum_cons, IH. ring.
Qed.
Lemma lsum_ext {A} (l : list A) (f g : A -> K) : (forall a, In a l -> f a = g a) -> lsum l f = lsum l g.
Proof.
  induction l as [|a l IH]; intros H; [reflexivity|]. rewrite !lsum_cons.
  rewrite (H a (or_introl eq_refl)), IH; [reflexivity|]. intros b Hb. apply H. right. exact Hb.
Qed.
Lemma lsum_flat_map {A B} (l : list A) (h : A -> list B) (f : B -> K) :
  lsum (flat_map h l) f = lsum l (fun a => lsum (h a) f).
Proof. induction l as [|a l IH]; [reflexivity|]. cbn [flat_map]. rewrite lsum_app, lsum_cons, IH. reflexivity. Qed.
Lemma lsum_map {A B} (l : list A) (h : A -> B) (f : B -> K) : lsum (map h l) f = lsum l (fun a => f (h a)).
Proof. induction l as [|a l IH]; [reflexivity|]. cbn [map]. rewrite !lsum_cons, IH. reflexivity. Qed.
Lemma lsum_zero {A} (l : list A) (f : A -> K) : (forall a, In a l -> f a = 0) -> lsum l f = 0.
Proof.
  induction l as [|a l IH]; intros H; [reflexivity|]. rewrite lsum_cons.
  rewrite (H a (or_introl eq_refl)), IH; [ring|]. intros b Hb. apply H. right. exact Hb.
Qed.
Lemma lsum_scal {A} (l : list A) (f : A -> K) (c : K) : lsum l (fun a => c * f a) = c * lsum l f.
Proof. induction l as [|a l IH]; [rewrite !lsum_nil; ring|]. rewrite !lsum_cons, IH. ring. Qed.
Lemma lsum_perm {A} (l l' : list A) (f : A -> K) : Permutation l l' -> lsum l f = lsum l' f.
Proof.
  induction 1 as [|x l l' _ IH|x y l|l l' l'' _ IH1 _ IH2].
  - reflexivity.
  - rewrite !lsum_cons, IH. reflexivity.
  - rewrite !lsum_cons. ring.
  - rewrite IH1. exact IH2.
Qed.
Lemma lsum_filter_split {A} (p : A -> bool) (l : list A) (f : A -> K) :
  lsum l f = lsum (filter p l) f + lsum (filter (fun a => negb (p a)) l) f.
Proof.
  induction l as [|a l IH]; cbn [filter]; [rewrite !lsum_nil; ring|]. rewrite lsum_cons, IH.
  destruct (p a); cbn [negb]; rewrite lsum_cons; ring.
Qed.

(** two duplicate-free lists carry the same sum when the summand vanishes on their symmetric difference *)
Lemma lsum_nodup_eq {A} (eq_dec : forall a b : A, {a = b} + {a <> b}) (l l' : list A) (f : A -> K) :
  NoDup l -> NoDup l' ->
  (forall a, In a l -> ~ In a l' -> f a = 0) -> (forall a, In a l' -> ~ In a l -> f a = 0) ->
  lsum l f = lsum l' f.
Proof.
  intros N N' H H'.
  set (inb := fun (m : list A) (a : A) => if in_dec eq_dec a m then true else false).
  rewrite (lsum_filter_split (inb l') l f), (lsum_filter_split (inb l) l' f).
  rewrite (lsum_zero (filter (fun a => negb (inb l' a)) l)), (lsum_zero (filter (fun a => negb (inb l a)) l')).
  - f_equal. apply lsum_perm. apply NoDup_Permutation.
    + apply NoDup_filter. exact N.
    + apply NoDup_filter. exact N'.
    + intros a. rewrite !filter_In. unfold inb. destruct (in_dec eq_dec a l'), (in_dec eq_dec a l); intuition discriminate.
  - intros a Ha. apply filter_In in Ha. destruct Ha as [Ha Hn]. apply H'; [exact Ha|].
    unfold inb in Hn. destruct (in_dec eq_dec a l); [discriminate|assumption].
  - intros a Ha. apply filter_In in Ha. destruct Ha as [Ha Hn]. apply H; [exact Ha|].
    unfold inb in Hn. destruct (in_dec eq_dec a l'); [discriminate|assumption].
Qed.


(** * Layer 1: what one call of addMultiterm contributes (generated definitions unfolded here only) *)
Variable tl : tols K.
(** exact form of the coefficient guards: `abs(x) > CoefficientTolerance` fails only for x = 0 *)
Hypothesis guards_exact : forall x, abs_gt K NO x (t_coeff K tl) = false -> x = 0.

Definition emission_eval (y1 y2 y3 : K) (e : emission K) : K :=
  match e with
  | EmitNonRes _ c p1 p2 p3 f => nr_eval K NO (mk_nr K c p1 p2 p3 f) y1 y2 y3
  | EmitRes _ rc nc p1 p2 p3 f => r_eval K NO (t_reduce K tl) (mk_r K rc nc p1 p2 p3 f) y1 y2 y3
  end.
(** value of the terms actually handed to the term lists (guard = true) *)
Definition emitted_value (y1 y2 y3 : K) (ges : list (bool * emission K)) : K :=
  lsum (filter (fun ge : bool * emission K => fst ge) ges) (fun ge => emission_eval y1 y2 y3 (snd ge)).

(** the resonance tests the code performs for the terms of one multiterm *)
Definition code_res (isz1z2 : bool) (Ei Ej Ek El y1 y2 y3 : K) : bool :=
  G res_is_resonant (t_reduce K tl) (ksub Ej Ei) (ksub Ek Ej) (ksub El Ek) isz1z2 y1 y2 y3.

Lemma div_zero (d : K) : 0 / d = 0.
Proof. rewrite (Fdiv_def Kf). ring. Qed.

Lemma lsum_filter_guard {A} (g : A -> bool) (ev : A -> K) (l : list A) :
  (forall a, In a l -> g a = false -> ev a = 0) -> lsum (filter g l) ev = lsum l ev.
Proof.
  induction l as [|a l IH]; intros H; [reflexivity|]. cbn [filter]. rewrite lsum_cons.
  assert (IH' : lsum (filter g l) ev = lsum l ev) by (apply IH; intros b Hb; apply H; right; exact Hb).
  destruct (g a) eqn:E.
  - rewrite lsum_cons, IH'. reflexivity.
  - rewrite IH', (H a (or_introl eq_refl) E). ring.
Qed.

Lemma gen_addMultiterm_emissions (C beta Ei Ej Ek El wi wj wk wl y1 y2 y3 : K) :
  Forall (fun ge : bool * emission K =>
            (fst ge = false -> emission_eval y1 y2 y3 (snd ge) = 0) /\
            emission_eval y1 y2 y3 (snd ge) =
            emission_value K kadd kmul ksub kopp kdiv (abs_gt K NO) (abs_lt K NO) (real_ge K NO)
                           (code_res true Ei Ej Ek El y1 y2 y3) (code_res false Ei Ej Ek El y1 y2 y3) y1 y2 y3 (snd ge))
         (G addMultiterm (t_coeff K tl) C beta Ei Ej Ek El wi wj wk wl).
Proof.
  unfold addMultiterm. cbv zeta.
  repeat constructor; cbn [fst snd emission_eval emission_value];
    unfold nr_eval, r_eval, mk_nr, mk_r, code_res, res_eval, res_is_resonant;
    cbn [nr_coeff nr_p0 nr_p1 nr_p2 nr_isz4 r_res r_nonres r_p0 r_p1 r_p2 r_isz1z2]; try reflexivity.
  - intros Hg. rewrite (guards_exact _ Hg). unfold nonres_eval. apply div_zero.
  - intros Hg. rewrite (guards_exact _ Hg). unfold nonres_eval. apply div_zero.
  - intros Hg. apply orb_false_elim in Hg. destruct Hg as [H1 H2].
    rewrite (guards_exact _ H1), (guards_exact _ H2).
    unfold res_eval_with, res_value_z1z2. destruct (res_test_z1z2 _ _ _ _ _ _ _ _ _ _ _); rewrite ?div_zero; reflexivity.
  - intros Hg. apply orb_false_elim in Hg. destruct Hg as [H1 H2].
    rewrite (guards_exact _ H1), (guards_exact _ H2).
    unfold res_eval_with, res_value_z2z3. destruct (res_test_z2z3 _ _ _ _ _ _ _ _ _ _ _); rewrite ?div_zero; reflexivity.
Qed.

(** one call of addMultiterm: the terms handed to the term lists evaluate to Coeff * phi (documented kernel with the
    code's resonance decisions) *)
Lemma multiterm_emitted_value (C beta Ei Ej Ek El wi wj wk wl y1 y2 y3 : K) :
  y1 + Ei - Ej <> 0 -> y2 + Ej - Ek <> 0 -> y3 + Ek - El <> 0 -> y1 + y2 + y3 + Ei - El <> 0 ->
  (code_res true Ei Ej Ek El y1 y2 y3 = false -> y1 + y2 + Ei - Ek <> 0) ->
  (code_res false Ei Ej Ek El y1 y2 y3 = false -> y2 + y3 + Ej - El <> 0) ->
  emitted_value y1 y2 y3 (G addMultiterm (t_coeff K tl) C beta Ei Ej Ek El wi wj wk wl) =
  C * phi_doc K kadd kmul ksub kdiv (code_res true Ei Ej Ek El y1 y2 y3) (code_res false Ei Ej Ek El y1 y2 y3)
              beta Ei Ej Ek El wi wj wk wl y1 y2 y3.
Proof.
  intros H1 H2 H3 H4 H12 H23. unfold emitted_value.
  pose proof (gen_addMultiterm_emissions C beta Ei Ej Ek El wi wj wk wl y1 y2 y3) as HF. rewrite Forall_forall in HF.
  rewrite lsum_filter_guard by (intros ge Hin Hg; apply (proj1 (HF ge Hin)); exact Hg).
  rewrite (lsum_ext _ _ (fun ge => emission_value K kadd kmul ksub kopp kdiv (abs_gt K NO) (abs_lt K NO) (real_ge K NO)
                            (code_res true Ei Ej Ek El y1 y2 y3) (code_res false Ei Ej Ek El y1 y2 y3) y1 y2 y3 (snd ge)))
    by (intros ge Hin; apply (proj2 (HF ge Hin))).
  rewrite <- (multiterm_eq_doc_phi K 0 1 kadd kmul ksub kopp kdiv kinv Kf (abs_gt K NO) (abs_lt K NO) (real_ge K NO)
                _ _ (t_coeff K tl) C beta Ei Ej Ek El wi wj wk wl y1 y2 y3 H1 H2 H3 H4 H12 H23).
  unfold multiterm_sum. rewrite ksum_acc. ring.
Qed.

End Lehmann.
