(** C05, part 1: everything about the operator algebra model (PV.Poly) that does not depend
    on the normal-ordering routine: order facts, meaning of [insert] / [insert_sub], the linear
    operations (sum, difference, negation, scalar multiple), the equality test (repaired and unrepaired), the
    presets N and Sz against their specialised matrix elements, and the finite-sum and
    Fock-state infrastructure needed for matrix products (used by AlgebraProofs.v).

    Specification side: PV.PolySem.  Every result is closed under the global context. *)
Require Import Bool List Arith Lia ZArith Ring Ring_theory.
From PV Require Import Outcome Fock Poly PolySem.
Import ListNotations.

(** * Orders: [Eq] means equal *)

Lemma op_compare_eq : forall a b, op_compare a b = Eq -> a = b.
Proof.
  intros [x i] [y j]; unfold op_compare; cbn [fst snd].
  destruct x, y; try discriminate; intro H; apply Nat.compare_eq in H; subst; reflexivity.
Qed.

Lemma op_compare_refl : forall a, op_compare a a = Eq.
Proof.
  intros [x i]; unfold op_compare; cbn [fst snd]. destruct x; apply Nat.compare_refl.
Qed.

Lemma op_eqb_eq : forall a b, op_eqb a b = true -> a = b.
Proof.
  intros a b; unfold op_eqb. destruct (op_compare a b) eqn:E; try discriminate.
  intros _; apply op_compare_eq; exact E.
Qed.

Lemma op_eqb_refl : forall a, op_eqb a a = true.
Proof. intros a; unfold op_eqb; rewrite op_compare_refl; reflexivity. Qed.

Lemma lex_compare_eq : forall a b, lex_compare a b = Eq -> a = b.
Proof.
  induction a as [|x a IH]; destruct b as [|y b]; cbn [lex_compare]; try discriminate; auto.
  destruct (op_compare x y) eqn:E; try discriminate.
  intro H. apply op_compare_eq in E. subst y. f_equal. apply IH; exact H.
Qed.

Lemma lex_compare_refl : forall a, lex_compare a a = Eq.
Proof.
  induction a as [|x a IH]; cbn [lex_compare]; auto. rewrite op_compare_refl; exact IH.
Qed.

Lemma mono_compare_eq : forall a b, mono_compare a b = Eq -> a = b.
Proof.
  intros a b; unfold mono_compare.
  destruct (Nat.compare (length a) (length b)); try discriminate. apply lex_compare_eq.
Qed.

Lemma mono_compare_refl : forall a, mono_compare a a = Eq.
Proof. intros a; unfold mono_compare. rewrite Nat.compare_refl. apply lex_compare_refl. Qed.

Lemma mono_eqb_eq : forall a b, mono_eqb a b = true -> a = b.
Proof.
  induction a as [|x a IH]; destruct b as [|y b]; cbn [mono_eqb]; try discriminate; auto.
  intro H. apply andb_true_iff in H. destruct H as [H1 H2].
  apply op_eqb_eq in H1. subst y. f_equal. apply IH; exact H2.
Qed.

Lemma mono_eqb_refl : forall a, mono_eqb a a = true.
Proof.
  induction a as [|x a IH]; cbn [mono_eqb]; auto. rewrite op_eqb_refl; exact IH.
Qed.

(** * Fock states *)

Lemma state_eqb_refl : forall s, state_eqb s s = true.
Proof.
  induction s as [|b s IH]; cbn [state_eqb]; auto. rewrite eqb_reflx; exact IH.
Qed.

Lemma state_eqb_eq : forall s t, state_eqb s t = true -> s = t.
Proof.
  induction s as [|a s IH]; destruct t as [|b t]; cbn [state_eqb]; try discriminate; auto.
  intro H. apply andb_true_iff in H. destruct H as [H1 H2].
  apply eqb_prop in H1. subst b. f_equal. apply IH; exact H2.
Qed.

Lemma state_eqb_neq : forall s t, s <> t -> state_eqb s t = false.
Proof.
  intros s t H. destruct (state_eqb s t) eqn:E; auto. apply state_eqb_eq in E. contradiction.
Qed.

Lemma upd_length : forall i v s, length (upd i v s) = length s.
Proof.
  induction i as [|i IH]; destruct s as [|b s]; cbn [upd length]; auto.
Qed.

Lemma nth_upd_same : forall i v s, i < length s -> nth i (upd i v s) false = v.
Proof.
  induction i as [|i IH]; destruct s as [|b s]; cbn [upd length nth]; intro H; try lia; auto.
  apply IH; lia.
Qed.

Lemma nth_upd_other : forall i j v s, i <> j -> nth j (upd i v s) false = nth j s false.
Proof.
  induction i as [|i IH]; destruct s as [|b s]; destruct j as [|j]; cbn [upd nth]; intro H;
    try lia; auto.
Qed.

Lemma par_upd_ge : forall n i v s, n <= i -> par n (upd i v s) = par n s.
Proof.
  induction n as [|n IH]; intros i v s H; cbn [par]; auto.
  destruct s as [|b s]; destruct i as [|i]; cbn [upd par]; try lia; auto.
  rewrite IH by lia. reflexivity.
Qed.

Lemma upd_upd : forall i v w s, upd i v (upd i w s) = upd i v s.
Proof.
  induction i as [|i IH]; destruct s as [|b s]; cbn [upd]; auto. rewrite IH; reflexivity.
Qed.

Lemma upd_same : forall i s, upd i (nth i s false) s = s.
Proof.
  induction i as [|i IH]; destruct s as [|b s]; cbn [upd nth]; auto. rewrite IH; reflexivity.
Qed.

Lemma act_op_length : forall o s sg s', act_op o s = Done (Some (sg, s')) -> length s' = length s.
Proof.
  intros o s sg s'; unfold act_op.
  destruct (op_idx o <? length s); try discriminate.
  destruct (eqb (nth (op_idx o) s false) (negb (op_ann o))); try discriminate.
  intro H; inversion H; subst. apply upd_length.
Qed.

Lemma act_mono_length : forall m s sg s', act_mono m s = Done (Some (sg, s')) -> length s' = length s.
Proof.
  induction m as [|o m IH]; intros s sg s'; cbn [act_mono].
  - intro H; inversion H; reflexivity.
  - destruct (act_mono m s) as [[[sg1 s1]|]| | | |] eqn:E; try discriminate.
    destruct (act_op o s1) as [[[sg2 s2]|]| | | |] eqn:E2; try discriminate.
    intro H; inversion H; subst.
    apply act_op_length in E2. apply IH in E. congruence.
Qed.

(** the action of a product of monomials is the composition of the actions *)
Lemma act_mono_app' : forall m1 m2 s,
  act_mono (m1 ++ m2) s =
  match act_mono m2 s with
  | Done (Some (sg, u)) =>
    match act_mono m1 u with
    | Done (Some (sg', t)) => Done (Some (xorb sg sg', t))
    | r => r
    end
  | r => r
  end.
Proof.
  induction m1 as [|o m1 IH]; intros m2 s.
  - cbn [app act_mono]. destruct (act_mono m2 s) as [[[sg u]|]| | | |]; try reflexivity.
    rewrite xorb_false_r; reflexivity.
  - cbn [app act_mono]. rewrite IH.
    destruct (act_mono m2 s) as [[[sg u]|]| | | |]; try reflexivity.
    destruct (act_mono m1 u) as [[[sg' t']|]| | | |]; try reflexivity.
    destruct (act_op o t') as [[[sg'' t'']|]| | | |]; try reflexivity.
    rewrite xorb_assoc; reflexivity.
Qed.

Lemma act_op_cann : forall i s, i < length s ->
  act_op (cann i) s = if nth i s false then Done (Some (par i s, upd i false s)) else Done None.
Proof.
  intros i s H. unfold act_op. cbn [op_idx op_ann cann fst snd negb].
  assert (L : (i <? length s) = true) by (apply Nat.ltb_lt; exact H).
  rewrite L. destruct (nth i s false); reflexivity.
Qed.

Lemma act_op_cdag : forall i s, i < length s ->
  act_op (cdag i) s = if nth i s false then Done None else Done (Some (par i s, upd i true s)).
Proof.
  intros i s H. unfold act_op. cbn [op_idx op_ann cdag fst snd negb].
  assert (L : (i <? length s) = true) by (apply Nat.ltb_lt; exact H).
  rewrite L. destruct (nth i s false); reflexivity.
Qed.

(** n_i = c^+_i c_i is diagonal *)
Lemma act_n : forall i s, i < length s ->
  act_mono [cdag i; cann i] s = if nth i s false then Done (Some (false, s)) else Done None.
Proof.
  intros i s H. cbn [act_mono]. rewrite act_op_cann by exact H.
  destruct (nth i s false) eqn:N; [|reflexivity].
  rewrite act_op_cdag by (rewrite upd_length; exact H).
  rewrite nth_upd_same by exact H.
  rewrite par_upd_ge by lia. rewrite upd_upd.
  replace (upd i true s) with s by (rewrite <- N at 1; symmetry; apply upd_same).
  rewrite xorb_false_l, xorb_nilpotent. reflexivity.
Qed.

(** all_states M enumerates exactly the bit strings of length M, without repetition *)
Lemma all_states_length : forall M s, In s (all_states M) <-> length s = M.
Proof.
  induction M as [|M IH]; intros s; cbn [all_states].
  - split.
    + intros [H|[]]; subst; reflexivity.
    + destruct s; cbn [length]; [left; reflexivity | discriminate].
  - rewrite in_flat_map. split.
    + intros [u [Hu Hs]]. apply IH in Hu. cbn [In] in Hs.
      destruct Hs as [Hs|[Hs|[]]]; subst s; cbn [length]; lia.
    + destruct s as [|b s]; cbn [length]; [discriminate|]. intro H.
      exists s. split; [apply IH; lia|]. destruct b; cbn [In]; auto.
Qed.

Lemma all_states_nodup : forall M, NoDup (all_states M).
Proof.
  induction M as [|M IH]; cbn [all_states].
  - constructor; [intros []|constructor].
  - induction IH as [|u l Hnin Hnd IHl]; cbn [flat_map app].
    + constructor.
    + constructor; [|constructor].
      * cbn [In]. intros [H|H]; [discriminate|].
        apply in_flat_map in H. destruct H as [v [Hv Hs]]. cbn [In] in Hs.
        destruct Hs as [Hs|[Hs|[]]]; inversion Hs; subst; contradiction.
      * intro H. apply in_flat_map in H. destruct H as [v [Hv Hs]]. cbn [In] in Hs.
        destruct Hs as [Hs|[Hs|[]]]; inversion Hs; subst; contradiction.
      * exact IHl.
Qed.

Section Basics.
Variable K : Type.
Variables (k0 k1 : K) (kadd kmul ksub : K -> K -> K) (kopp : K -> K).
Variable kzero : K -> bool.
Hypothesis Hring : ring_ok K k0 k1 kadd kmul ksub kopp kzero.

Let Rth : ring_theory k0 k1 kadd kmul ksub kopp (@eq K) := proj1 Hring.
Add Ring Kring : Rth.

Local Notation cm := (coef_mono K k0 k1 kopp).
Local Notation cp := (coef_poly K k0 k1 kadd kmul kopp).
Local Notation ksum := (@ksum K k0 kadd _).
Local Notation insert := (insert K kadd kzero).
Local Notation insert_sub := (insert_sub K ksub kopp kzero).
Local Notation padd := (padd K kadd kzero).
Local Notation psub := (psub K ksub kopp kzero).
Local Notation pneg := (pneg K kopp).
Local Notation pscale := (pscale K kmul kzero).
Local Notation poly_eq := (poly_eq K ksub kzero).
Local Notation entries_equal := (entries_equal K ksub kzero).

Lemma kzero_true : forall c, kzero c = true -> c = k0.
Proof. intros c; apply (proj2 Hring c). Qed.

Lemma kzero_k0 : kzero k0 = true.
Proof. apply (proj2 Hring k0); reflexivity. Qed.

(** ** Finite sums *)

Lemma ksum_nil : forall (A : Type) (f : A -> K), ksum [] f = k0.
Proof. reflexivity. Qed.

Lemma ksum_cons : forall (A : Type) (a : A) l (f : A -> K), ksum (a :: l) f = kadd (f a) (ksum l f).
Proof. reflexivity. Qed.

Lemma ksum_ext : forall (A : Type) (l : list A) (f g : A -> K),
  (forall a, In a l -> f a = g a) -> ksum l f = ksum l g.
Proof.
  induction l as [|a l IH]; intros f g H; [reflexivity|].
  rewrite !ksum_cons. rewrite (H a) by (left; reflexivity).
  rewrite (IH f g) by (intros; apply H; right; assumption). reflexivity.
Qed.

Lemma ksum_zero : forall (A : Type) (l : list A), ksum l (fun _ => k0) = k0.
Proof.
  induction l as [|a l IH]; [reflexivity|]. rewrite ksum_cons, IH. ring.
Qed.

Lemma ksum_zero_ext : forall (A : Type) (l : list A) (f : A -> K),
  (forall a, In a l -> f a = k0) -> ksum l f = k0.
Proof.
  intros A l f H. rewrite (ksum_ext A l f (fun _ => k0)) by exact H. apply ksum_zero.
Qed.

Lemma ksum_app : forall (A : Type) (l1 l2 : list A) (f : A -> K),
  ksum (l1 ++ l2) f = kadd (ksum l1 f) (ksum l2 f).
Proof.
  induction l1 as [|a l1 IH]; intros l2 f; cbn [app].
  - rewrite ksum_nil. ring.
  - rewrite !ksum_cons, IH. ring.
Qed.

Lemma ksum_map : forall (A B : Type) (g : A -> B) (l : list A) (f : B -> K),
  ksum (map g l) f = ksum l (fun a => f (g a)).
Proof.
  induction l as [|a l IH]; intros f; cbn [map]; [reflexivity|].
  rewrite !ksum_cons, IH. reflexivity.
Qed.

Lemma ksum_add : forall (A : Type) (l : list A) (f g : A -> K),
  ksum l (fun a => kadd (f a) (g a)) = kadd (ksum l f) (ksum l g).
Proof.
  induction l as [|a l IH]; intros f g.
  - rewrite !ksum_nil. ring.
  - rewrite !ksum_cons, IH. ring.
Qed.

Lemma ksum_sub : forall (A : Type) (l : list A) (f g : A -> K),
  ksum l (fun a => ksub (f a) (g a)) = ksub (ksum l f) (ksum l g).
Proof.
  induction l as [|a l IH]; intros f g.
  - rewrite !ksum_nil. ring.
  - rewrite !ksum_cons, IH. ring.
Qed.

Lemma ksum_scale_l : forall (A : Type) (l : list A) (c : K) (f : A -> K),
  ksum l (fun a => kmul c (f a)) = kmul c (ksum l f).
Proof.
  induction l as [|a l IH]; intros c f.
  - rewrite !ksum_nil. ring.
  - rewrite !ksum_cons, IH. ring.
Qed.

Lemma ksum_scale_r : forall (A : Type) (l : list A) (c : K) (f : A -> K),
  ksum l (fun a => kmul (f a) c) = kmul (ksum l f) c.
Proof.
  induction l as [|a l IH]; intros c f.
  - rewrite !ksum_nil. ring.
  - rewrite !ksum_cons, IH. ring.
Qed.

(** Fubini for finite sums *)
Lemma ksum_swap : forall (A B : Type) (la : list A) (lb : list B) (f : A -> B -> K),
  ksum la (fun a => ksum lb (fun b => f a b)) = ksum lb (fun b => ksum la (fun a => f a b)).
Proof.
  induction la as [|a la IH]; intros lb f.
  - rewrite ksum_nil. symmetry. apply ksum_zero.
  - rewrite ksum_cons, IH. rewrite <- ksum_add. apply ksum_ext. intros b _.
    rewrite ksum_cons. reflexivity.
Qed.

(** sum of products of sums *)
Lemma ksum_prod : forall (A B C : Type) (la : list A) (lb : list B) (lc : list C)
  (f : A -> C -> K) (g : B -> C -> K),
  ksum lc (fun u => kmul (ksum la (fun a => f a u)) (ksum lb (fun b => g b u))) =
  ksum la (fun a => ksum lb (fun b => ksum lc (fun u => kmul (f a u) (g b u)))).
Proof.
  intros A B C la lb lc f g.
  transitivity (ksum lc (fun u => ksum la (fun a => ksum lb (fun b => kmul (f a u) (g b u))))).
  - apply ksum_ext; intros u _. rewrite <- ksum_scale_r. apply ksum_ext; intros a _.
    rewrite <- ksum_scale_l. reflexivity.
  - rewrite ksum_swap. apply ksum_ext; intros a _. apply ksum_swap.
Qed.

(** a sum whose terms vanish except at one point *)
Lemma ksum_single : forall (A : Type) (l : list A) (u0 : A) (f : A -> K),
  NoDup l -> In u0 l -> (forall u, In u l -> u <> u0 -> f u = k0) -> ksum l f = f u0.
Proof.
  induction l as [|a l IH]; intros u0 f Hnd Hin Hz; [destruct Hin|].
  rewrite ksum_cons. inversion Hnd as [|a' l' Hnin Hnd']; subst.
  destruct Hin as [Heq|Hin].
  - subst a. rewrite ksum_zero_ext; [ring|].
    intros u Hu. apply Hz; [right; exact Hu|]. intro; subst; contradiction.
  - rewrite (IH u0 f Hnd' Hin) by (intros; apply Hz; [right|]; assumption).
    rewrite (Hz a) by ((left; reflexivity) || (intro; subst; contradiction)). ring.
Qed.

(** over the Fock space *)
Lemma ksum_states_single : forall (M : nat) (u0 : state) (f : state -> K),
  length u0 = M -> (forall u, length u = M -> u <> u0 -> f u = k0) ->
  ksum (all_states M) f = f u0.
Proof.
  intros M u0 f Hl Hz. apply ksum_single.
  - apply all_states_nodup.
  - apply all_states_length; exact Hl.
  - intros u Hu. apply Hz. apply all_states_length; exact Hu.
Qed.

(** ** Meaning of polynomials *)

Lemma cp_nil : forall s t, cp [] s t = k0.
Proof. reflexivity. Qed.

Lemma cp_cons : forall m c p s t, cp ((m, c) :: p) s t = kadd (kmul c (cm m s t)) (cp p s t).
Proof. reflexivity. Qed.

Lemma cp_ksum : forall p s t, cp p s t = ksum p (fun mc => kmul (snd mc) (cm (fst mc) s t)).
Proof. reflexivity. Qed.

Lemma cp_app : forall p q s t, cp (p ++ q) s t = kadd (cp p s t) (cp q s t).
Proof. intros. rewrite !cp_ksum. apply ksum_app. Qed.

(** target.insert / += on an existing key / erase when the sum vanishes *)
Lemma insert_sound : forall m c p s t,
  cp (insert m c p) s t = kadd (cp p s t) (kmul c (cm m s t)).
Proof.
  intros m c p s t. induction p as [|[m' c'] p IH]; cbn [Poly.insert].
  - rewrite cp_cons, !cp_nil. ring.
  - destruct (mono_compare m m') eqn:E.
    + apply mono_compare_eq in E. subst m'. cbv zeta.
      destruct (kzero (kadd c' c)) eqn:Z.
      * apply kzero_true in Z. rewrite cp_cons.
        transitivity (kadd (cp p s t) (kmul (kadd c' c) (cm m s t))); [rewrite Z|]; ring.
      * rewrite !cp_cons. ring.
    + rewrite !cp_cons. ring.
    + rewrite !cp_cons, IH. ring.
Qed.

Lemma insert_sub_sound : forall m c p s t,
  cp (insert_sub m c p) s t = ksub (cp p s t) (kmul c (cm m s t)).
Proof.
  intros m c p s t. induction p as [|[m' c'] p IH]; cbn [Poly.insert_sub].
  - rewrite cp_cons, !cp_nil. ring.
  - destruct (mono_compare m m') eqn:E.
    + apply mono_compare_eq in E. subst m'. cbv zeta.
      destruct (kzero (ksub c' c)) eqn:Z.
      * apply kzero_true in Z. rewrite cp_cons.
        transitivity (kadd (cp p s t) (kmul (ksub c' c) (cm m s t))); [rewrite Z|]; ring.
      * rewrite !cp_cons. ring.
    + rewrite !cp_cons. ring.
    + rewrite !cp_cons, IH. ring.
Qed.

(** ** Linear operations *)

Lemma padd_sound_gen : forall (b a : poly K) (s t : state),
  cp (padd a b) s t = kadd (cp a s t) (cp b s t).
Proof.
  unfold Poly.padd.
  induction b as [|[m c] b IH]; intros a s t; cbn [fold_left fst snd].
  - rewrite cp_nil. ring.
  - rewrite IH, insert_sound, cp_cons. ring.
Qed.

Lemma psub_sound_gen : forall (b a : poly K) (s t : state),
  cp (psub a b) s t = ksub (cp a s t) (cp b s t).
Proof.
  unfold Poly.psub.
  induction b as [|[m c] b IH]; intros a s t; cbn [fold_left fst snd].
  - rewrite cp_nil. ring.
  - rewrite IH, insert_sub_sound, cp_cons. ring.
Qed.

Lemma pneg_sound_gen : forall (a : poly K) (s t : state), cp (pneg a) s t = kopp (cp a s t).
Proof.
  unfold Poly.pneg.
  induction a as [|[m c] a IH]; intros s t; cbn [map fst snd].
  - rewrite cp_nil. ring.
  - rewrite !cp_cons, IH. ring.
Qed.

Lemma pscale_sound_gen : forall (alpha : K) (a : poly K) (s t : state),
  cp (pscale alpha a) s t = kmul alpha (cp a s t).
Proof.
  intros alpha a s t. unfold Poly.pscale.
  destruct (kzero alpha) eqn:Z.
  - apply kzero_true in Z. subst alpha. rewrite cp_nil. ring.
  - induction a as [|[m c] a IH]; cbn [map fst snd].
    + rewrite cp_nil. ring.
    + rewrite !cp_cons, IH. ring.
Qed.

(** ** The equality test *)

Lemma entries_equal_total : forall a b : poly K, length a = length b ->
  exists r, entries_equal true a b = Done r.
Proof.
  induction a as [|x a IH]; destruct b as [|y b]; cbn [length]; try discriminate; intro H.
  - exists true; reflexivity.
  - cbn [Poly.entries_equal entry_eq bind].
    destruct (mono_eqb (fst x) (fst y) && kzero (ksub (snd y) (snd x))).
    + apply IH; lia.
    + exists false; reflexivity.
Qed.

Lemma poly_eq_total_gen : forall a b : poly K, exists r, poly_eq true a b = Done r.
Proof.
  intros a b. unfold Poly.poly_eq. destruct (length a =? length b) eqn:E.
  - apply Nat.eqb_eq in E. apply entries_equal_total; exact E.
  - exists false; reflexivity.
Qed.

Lemma entries_equal_sound : forall a b : poly K, length a = length b ->
  entries_equal true a b = Done true -> a = b.
Proof.
  induction a as [|[ma ca] a IH]; destruct b as [|[mb cb] b]; cbn [length]; try discriminate;
    intros Hl; [reflexivity|].
  cbn [Poly.entries_equal entry_eq bind fst snd].
  destruct (mono_eqb ma mb && kzero (ksub cb ca)) eqn:E; try discriminate.
  intro H. apply andb_true_iff in E. destruct E as [E1 E2].
  apply mono_eqb_eq in E1. apply kzero_true in E2.
  assert (ca = cb) by (transitivity (kadd ca (ksub cb ca)); [rewrite E2|]; ring).
  subst. f_equal. apply IH; [lia|exact H].
Qed.

(** true from the (repaired) test means the two maps are identical *)
Lemma poly_eq_true_eq : forall a b : poly K, poly_eq true a b = Done true -> a = b.
Proof.
  intros a b. unfold Poly.poly_eq. destruct (length a =? length b) eqn:E; try discriminate.
  apply Nat.eqb_eq in E. apply entries_equal_sound; exact E.
Qed.

Lemma poly_eq_refl : forall a : poly K, poly_eq true a a = Done true.
Proof.
  intros a. unfold Poly.poly_eq. rewrite Nat.eqb_refl.
  induction a as [|[m c] a IH]; [reflexivity|].
  cbn [Poly.entries_equal entry_eq bind fst snd]. rewrite mono_eqb_refl.
  replace (ksub c c) with k0 by ring. rewrite kzero_k0. cbn [andb]. exact IH.
Qed.

(** ** Matrix of a product of monomials *)

Lemma cm_unit : forall m s sg u, act_mono m s = Done (Some (sg, u)) ->
  cm m s u = if sg then kopp k1 else k1.
Proof.
  intros m s sg u H. unfold coef_mono. rewrite H, state_eqb_refl. reflexivity.
Qed.

Lemma cm_other : forall m s sg u u', act_mono m s = Done (Some (sg, u)) -> u' <> u ->
  cm m s u' = k0.
Proof.
  intros m s sg u u' H Hn. unfold coef_mono. rewrite H.
  rewrite state_eqb_neq by congruence. reflexivity.
Qed.

(** <t| m1 m2 |s> = sum_u <t| m1 |u> <u| m2 |s>: m2 sends a basis state to a single basis
    state (or to zero), whatever the indices -- only the length of s matters *)
Lemma coef_mono_app : forall (M : nat) (m1 m2 : monomial) (s t : state), length s = M ->
  cm (m1 ++ m2) s t = ksum (all_states M) (fun u => kmul (cm m1 u t) (cm m2 s u)).
Proof.
  intros M m1 m2 s t Hs.
  destruct (act_mono m2 s) as [[[sg u0]|]| | | |] eqn:E2.
  - rewrite (ksum_states_single M u0).
    + rewrite (cm_unit _ _ _ _ E2). unfold coef_mono at 1. rewrite act_mono_app', E2.
      unfold coef_mono.
      destruct (act_mono m1 u0) as [[[sg' t']|]| | | |]; try (destruct sg; ring).
      destruct (state_eqb t' t); destruct sg, sg'; cbn [xorb]; ring.
    + apply act_mono_length in E2. congruence.
    + intros u _ Hn. rewrite (cm_other _ _ _ _ u E2 Hn). ring.
  - rewrite ksum_zero_ext.
    + unfold coef_mono. rewrite act_mono_app', E2. reflexivity.
    + intros u _. unfold coef_mono at 2. rewrite E2. ring.
  - rewrite ksum_zero_ext.
    + unfold coef_mono. rewrite act_mono_app', E2. reflexivity.
    + intros u _. unfold coef_mono at 2. rewrite E2. ring.
  - rewrite ksum_zero_ext.
    + unfold coef_mono. rewrite act_mono_app', E2. reflexivity.
    + intros u _. unfold coef_mono at 2. rewrite E2. ring.
  - rewrite ksum_zero_ext.
    + unfold coef_mono. rewrite act_mono_app', E2. reflexivity.
    + intros u _. unfold coef_mono at 2. rewrite E2. ring.
  - rewrite ksum_zero_ext.
    + unfold coef_mono. rewrite act_mono_app', E2. reflexivity.
    + intros u _. unfold coef_mono at 2. rewrite E2. ring.
Qed.

(** ** Presets: N and Sz against their specialised matrix elements *)

Fixpoint of_nat (n : nat) : K :=
  match n with O => k0 | S n' => kadd k1 (of_nat n') end.

Lemma cm_n : forall i s t, i < length s ->
  cm [cdag i; cann i] s t = if nth i s false then (if state_eqb s t then k1 else k0) else k0.
Proof.
  intros i s t H. unfold coef_mono. rewrite act_n by exact H.
  destruct (nth i s false); reflexivity.
Qed.

Lemma cp_n : forall i s t, i < length s ->
  cp (p_n K k1 i) s t = if nth i s false then (if state_eqb s t then k1 else k0) else k0.
Proof.
  intros i s t H. unfold p_n. rewrite cp_cons, cp_nil, cm_n by exact H. ring.
Qed.

Lemma p_N_sem_gen : forall (l : list nat) (acc : poly K) s t,
  cp (fold_left (fun acc i => padd acc (p_n K k1 i)) l acc) s t =
  kadd (cp acc s t) (ksum l (fun i => cp (p_n K k1 i) s t)).
Proof.
  induction l as [|i l IH]; intros acc s t; cbn [fold_left].
  - rewrite ksum_nil. ring.
  - rewrite IH, padd_sound_gen, ksum_cons. ring.
Qed.

(** the generic Operator N is the sum of the n_i *)
Lemma p_N_sem : forall M s t,
  cp (p_N K k1 kadd kzero M) s t = ksum (seq 0 M) (fun i => cp (p_n K k1 i) s t).
Proof.
  intros M s t. unfold p_N. rewrite p_N_sem_gen, cp_nil. ring.
Qed.

Lemma ksum_occ : forall s : state,
  ksum (seq 0 (length s)) (fun i => if nth i s false then k1 else k0) = of_nat (count_occ s).
Proof.
  induction s as [|b s IH]; [reflexivity|].
  cbn [length seq]. rewrite <- seq_shift, ksum_cons, ksum_map. cbn [nth].
  rewrite IH. unfold count_occ. cbn [filter]. destruct b; cbn [length of_nat]; ring.
Qed.

Lemma N_shortcut_sound_gen : forall (M : nat) (s : state), length s = M ->
  cp (p_N K k1 kadd kzero M) s s = of_nat (N_shortcut s) /\
  forall t, t <> s -> cp (p_N K k1 kadd kzero M) s t = k0.
Proof.
  intros M s Hs. subst M. split.
  - rewrite p_N_sem. unfold N_shortcut. rewrite <- ksum_occ. apply ksum_ext.
    intros i Hi. apply in_seq in Hi. rewrite cp_n by lia. rewrite state_eqb_refl. reflexivity.
  - intros t Hn. rewrite p_N_sem. apply ksum_zero_ext.
    intros i Hi. apply in_seq in Hi. rewrite cp_n by lia.
    rewrite state_eqb_neq by congruence. destruct (nth i s false); reflexivity.
Qed.

(** the map built by N(Nmodes) is literally { c^+_i c_i -> 1 : i < Nmodes }, in this order:
    the keys are distinct, so nothing is ever merged or erased *)
Lemma insert_last : forall m c (p : poly K),
  (forall mc, In mc p -> mono_compare m (fst mc) = Gt) -> insert m c p = p ++ [(m, c)].
Proof.
  intros m c. induction p as [|[m' c'] p IH]; intro H; cbn [Poly.insert app]; [reflexivity|].
  pose proof (H (m', c') (or_introl eq_refl)) as Hh. cbn [fst] in Hh. rewrite Hh. f_equal. apply IH. intros mc Hin. apply H. right. exact Hin.
Qed.

Lemma mono_compare_n_gt : forall i j, j < i -> mono_compare [cdag i; cann i] [cdag j; cann j] = Gt.
Proof.
  intros i j H. unfold mono_compare. cbn [length]. rewrite Nat.compare_refl.
  cbn [lex_compare]. unfold op_compare at 1, cdag. cbn [fst snd].
  rewrite (proj2 (Nat.compare_gt_iff i j) H). reflexivity.
Qed.

Lemma p_N_shape : forall M,
  p_N K k1 kadd kzero M = map (fun i => ([cdag i; cann i], k1)) (seq 0 M).
Proof.
  induction M as [|M IH]; [reflexivity|].
  unfold p_N in *. rewrite seq_S, fold_left_app, IH, map_app. cbn [fold_left map Nat.add].
  unfold Poly.padd, p_n. cbn [fold_left fst snd]. apply insert_last.
  intros mc Hin. apply in_map_iff in Hin. destruct Hin as [j [E Hj]]. subst mc. cbn [fst].
  apply mono_compare_n_gt. apply in_seq in Hj. lia.
Qed.

Variable khalf : K.
Local Notation p_Sz_lists := (p_Sz_lists K k1 kadd kmul ksub kopp kzero khalf).
Local Notation p_Sz := (p_Sz K k1 kadd kmul ksub kopp kzero khalf).

Lemma p_Sz_sem_gen : forall (l : list (nat * nat)) (acc : poly K) s t,
  cp (fold_left (fun acc ud => psub (padd acc (pscale khalf (p_n K k1 (fst ud))))
                                    (pscale khalf (p_n K k1 (snd ud)))) l acc) s t =
  kadd (cp acc s t)
       (ksum l (fun ud => ksub (kmul khalf (cp (p_n K k1 (fst ud)) s t))
                               (kmul khalf (cp (p_n K k1 (snd ud)) s t)))).
Proof.
  induction l as [|ud l IH]; intros acc s t; cbn [fold_left].
  - rewrite ksum_nil. ring.
  - rewrite IH, psub_sound_gen, padd_sound_gen, !pscale_sound_gen, ksum_cons. ring.
Qed.

Lemma ksum_combine_occ : forall (s : state) (ups downs : list nat), length ups = length downs ->
  ksum (combine ups downs)
       (fun ud => ksub (kmul khalf (if nth (fst ud) s false then k1 else k0))
                       (kmul khalf (if nth (snd ud) s false then k1 else k0))) =
  ksub (kmul khalf (of_nat (length (filter (fun i => nth i s false) ups))))
       (kmul khalf (of_nat (length (filter (fun i => nth i s false) downs)))).
Proof.
  intros s. induction ups as [|u ups IH]; destruct downs as [|d downs]; cbn [length];
    try discriminate; intro H.
  - cbn [combine filter length of_nat]. rewrite ksum_nil. ring.
  - cbn [combine filter]. rewrite ksum_cons, IH by lia. cbn [fst snd].
    destruct (nth u s false), (nth d s false); cbn [length of_nat]; ring.
Qed.

(** Sz built generically from the two index lists (duplicates and overlaps allowed: both sides
    count them the same way) against Sz::getMatrixElement = 0.5 * (#up - #down) *)
Lemma Sz_lists_shortcut_sound : forall (ups downs : list nat) (s : state) (P : poly K),
  Forall (fun i => i < length s) ups -> Forall (fun i => i < length s) downs ->
  p_Sz_lists ups downs = Done P ->
  cp P s s = ksub (kmul khalf (of_nat (fst (Sz_shortcut ups downs s))))
                  (kmul khalf (of_nat (snd (Sz_shortcut ups downs s)))) /\
  forall t, t <> s -> cp P s t = k0.
Proof.
  intros ups downs s P Hu Hd. unfold Poly.p_Sz_lists.
  destruct (length ups =? length downs) eqn:E; try discriminate.
  apply Nat.eqb_eq in E. intro H. inversion H as [HP]. clear H HP.
  assert (Hin : forall ud, In ud (combine ups downs) -> fst ud < length s /\ snd ud < length s).
  { intros [u d] Hud. cbn [fst snd]. split.
    - apply in_combine_l in Hud. rewrite Forall_forall in Hu. apply Hu; exact Hud.
    - apply in_combine_r in Hud. rewrite Forall_forall in Hd. apply Hd; exact Hud. }
  split.
  - rewrite p_Sz_sem_gen, cp_nil. unfold Sz_shortcut. cbn [fst snd].
    rewrite <- ksum_combine_occ by exact E.
    match goal with |- kadd k0 ?x = ?y => transitivity x; [ring|] end.
    apply ksum_ext. intros ud Hud. destruct (Hin ud Hud) as [H1 H2].
    rewrite !cp_n by assumption. rewrite state_eqb_refl. reflexivity.
  - intros t Hn. rewrite p_Sz_sem_gen, cp_nil.
    rewrite ksum_zero_ext; [ring|].
    intros ud Hud. destruct (Hin ud Hud) as [H1 H2].
    rewrite !cp_n by assumption. rewrite state_eqb_neq by congruence.
    destruct (nth (fst ud) s false), (nth (snd ud) s false); ring.
Qed.

Lemma sz_down_range : forall M ups, Forall (fun i => i < M) (sz_down M ups).
Proof.
  intros M ups. apply Forall_forall. intros i Hi. unfold sz_down in Hi.
  apply filter_In in Hi. destruct Hi as [Hi _]. apply in_seq in Hi. lia.
Qed.

(** Sz(Nmodes, SpinUpIndices) *)
Lemma Sz_shortcut_sound_gen : forall (M : nat) (ups : list nat) (s : state) (P : poly K),
  length s = M -> Forall (fun i => i < M) ups ->
  p_Sz M ups = Done P ->
  cp P s s = ksub (kmul khalf (of_nat (fst (Sz_shortcut ups (sz_down M ups) s))))
                  (kmul khalf (of_nat (snd (Sz_shortcut ups (sz_down M ups) s)))) /\
  forall t, t <> s -> cp P s t = k0.
Proof.
  intros M ups s P Hs Hu HP. subst M. unfold Poly.p_Sz in HP.
  apply Sz_lists_shortcut_sound; [exact Hu | apply sz_down_range | exact HP].
Qed.

(** when khalf really is one half: 2 <s|Sz|s> = #up - #down *)
Lemma Sz_shortcut_twice : forall (M : nat) (ups : list nat) (s : state) (P : poly K),
  kadd khalf khalf = k1 -> length s = M -> Forall (fun i => i < M) ups ->
  p_Sz M ups = Done P ->
  kadd (cp P s s) (cp P s s) =
  ksub (of_nat (fst (Sz_shortcut ups (sz_down M ups) s)))
       (of_nat (snd (Sz_shortcut ups (sz_down M ups) s))).
Proof.
  intros M ups s P Hh Hs Hu HP.
  destruct (Sz_shortcut_sound_gen M ups s P Hs Hu HP) as [H _]. rewrite H.
  set (a := of_nat _). set (b := of_nat _).
  transitivity (kmul (kadd khalf khalf) (ksub a b)); [ring|]. rewrite Hh. ring.
Qed.

End Basics.

(** * The theorems, with exactly the propositions of PV.PolySem *)

Section Statements.
Variable K : Type.
Variables (k0 k1 : K) (kadd kmul ksub : K -> K -> K) (kopp : K -> K).
Variable kzero : K -> bool.

Theorem padd_sound : padd_sound_stmt K k0 k1 kadd kmul ksub kopp kzero.
Proof. intros Hring a b s t. apply (padd_sound_gen K k0 k1 kadd kmul ksub kopp kzero Hring). Qed.

Theorem psub_sound : psub_sound_stmt K k0 k1 kadd kmul ksub kopp kzero.
Proof. intros Hring a b s t. apply (psub_sound_gen K k0 k1 kadd kmul ksub kopp kzero Hring). Qed.

Theorem pneg_sound : pneg_sound_stmt K k0 k1 kadd kmul ksub kopp kzero.
Proof. intros Hring a s t. apply (pneg_sound_gen K k0 k1 kadd kmul ksub kopp kzero Hring). Qed.

Theorem pscale_sound : pscale_sound_stmt K k0 k1 kadd kmul ksub kopp kzero.
Proof. intros Hring alpha a s t. apply (pscale_sound_gen K k0 k1 kadd kmul ksub kopp kzero Hring). Qed.

Theorem poly_eq_total : poly_eq_total_stmt K ksub kzero.
Proof. intros a b. apply poly_eq_total_gen. Qed.

Theorem poly_eq_sound : poly_eq_sound_stmt K k0 k1 kadd kmul ksub kopp kzero.
Proof.
  intros Hring a b H s t.
  apply (poly_eq_true_eq K k0 k1 kadd kmul ksub kopp kzero Hring) in H. subst b. reflexivity.
Qed.

Theorem N_shortcut_sound : ring_ok K k0 k1 kadd kmul ksub kopp kzero ->
  forall (M : nat) (s : state), length s = M ->
  coef_poly K k0 k1 kadd kmul kopp (p_N K k1 kadd kzero M) s s = of_nat K k0 k1 kadd (N_shortcut s) /\
  forall t, t <> s -> coef_poly K k0 k1 kadd kmul kopp (p_N K k1 kadd kzero M) s t = k0.
Proof. intros Hring. apply (N_shortcut_sound_gen K k0 k1 kadd kmul ksub kopp kzero Hring). Qed.

Theorem Sz_shortcut_sound : ring_ok K k0 k1 kadd kmul ksub kopp kzero ->
  forall (khalf : K) (M : nat) (ups : list nat) (s : state) (P : poly K),
  length s = M -> Forall (fun i => i < M) ups ->
  p_Sz K k1 kadd kmul ksub kopp kzero khalf M ups = Done P ->
  coef_poly K k0 k1 kadd kmul kopp P s s =
    ksub (kmul khalf (of_nat K k0 k1 kadd (fst (Sz_shortcut ups (sz_down M ups) s))))
         (kmul khalf (of_nat K k0 k1 kadd (snd (Sz_shortcut ups (sz_down M ups) s)))) /\
  forall t, t <> s -> coef_poly K k0 k1 kadd kmul kopp P s t = k0.
Proof. intros Hring. apply (Sz_shortcut_sound_gen K k0 k1 kadd kmul ksub kopp kzero Hring). Qed.

End Statements.

(** * The unrepaired equality test (before "fix: compare monomial lengths in Operator equality") *)

Definition Z_ring_ok : ring_ok Z 0%Z 1%Z Z.add Z.mul Z.sub Z.opp (fun c => Z.eqb c 0).
Proof. split; [exact InitialRing.Zth | intro c; apply Z.eqb_eq]. Qed.

(** prefix comparison of monomials: c^+_0 "equals" c^+_0 c^+_1 c_2, although the matrices differ *)
Theorem eq_prefix_refuted :
  exists a b : poly Z,
    poly_eq Z Z.sub (fun c => Z.eqb c 0) false a b = Done true /\
    exists s t, coef_poly Z 0%Z 1%Z Z.add Z.mul Z.opp a s t <> coef_poly Z 0%Z 1%Z Z.add Z.mul Z.opp b s t.
Proof.
  exists [([cdag 0], 1%Z)], [([cdag 0; cdag 1; cann 2], 1%Z)]. split; [vm_compute; reflexivity|].
  exists [false; false; false], [true; false; false]. vm_compute. discriminate.
Qed.

(** ... and it reads past the end of a shorter right-hand monomial *)
Theorem eq_prefix_oob :
  exists a b : poly Z, poly_eq Z Z.sub (fun c => Z.eqb c 0) false a b = OOB.
Proof.
  exists [([cann 0], 1%Z)], [([], 1%Z)]. vm_compute. reflexivity.
Qed.

(** * Examples: the hypotheses are satisfiable, the statements are not vacuous *)

Example ring_ok_Z : ring_ok Z 0%Z 1%Z Z.add Z.mul Z.sub Z.opp (fun c => Z.eqb c 0) := Z_ring_ok.

Example N_three_modes :
  coef_poly Z 0%Z 1%Z Z.add Z.mul Z.opp (p_N Z 1%Z Z.add (fun c => Z.eqb c 0) 3)
            [true; false; true] [true; false; true] = 2%Z.
Proof. vm_compute. reflexivity. Qed.

Example N_three_modes_by_theorem :
  coef_poly Z 0%Z 1%Z Z.add Z.mul Z.opp (p_N Z 1%Z Z.add (fun c => Z.eqb c 0) 3)
            [true; false; true] [true; false; true] = 2%Z.
Proof.
  destruct (N_shortcut_sound Z 0%Z 1%Z Z.add Z.mul Z.sub Z.opp _ Z_ring_ok 3 [true; false; true] eq_refl)
    as [H _].
  rewrite H. reflexivity.
Qed.

Example repaired_test_rejects_prefix :
  poly_eq Z Z.sub (fun c => Z.eqb c 0) true [([cdag 0], 1%Z)] [([cdag 0; cdag 1; cann 2], 1%Z)] = Done false.
Proof. vm_compute. reflexivity. Qed.

Example padd_cancels :
  padd Z Z.add (fun c => Z.eqb c 0) [([cdag 0], 1%Z)] [([cdag 0], (-1)%Z)] = [].
Proof. vm_compute. reflexivity. Qed.

(** Sz on 4 modes with up = {0, 2} (so down = {1, 3}), with the constant written 0.5 in the C++
    replaced by an arbitrary ring element (here 3): <s|Sz|s> = 3 * 1 - 3 * 2 on |1101> *)
Example Sz_four_modes :
  exists P, p_Sz Z 1%Z Z.add Z.mul Z.sub Z.opp (fun c => Z.eqb c 0) 3%Z 4 [0; 2] = Done P /\
            coef_poly Z 0%Z 1%Z Z.add Z.mul Z.opp P [true; true; false; true] [true; true; false; true] = (-3)%Z.
Proof. eexists. split; [vm_compute; reflexivity|]. vm_compute. reflexivity. Qed.

Example Sz_four_modes_by_theorem :
  forall P, p_Sz Z 1%Z Z.add Z.mul Z.sub Z.opp (fun c => Z.eqb c 0) 3%Z 4 [0; 2] = Done P ->
  coef_poly Z 0%Z 1%Z Z.add Z.mul Z.opp P [true; true; false; true] [true; true; false; true] = (-3)%Z.
Proof.
  intros P HP.
  destruct (Sz_shortcut_sound Z 0%Z 1%Z Z.add Z.mul Z.sub Z.opp _ Z_ring_ok 3%Z 4 [0; 2]
              [true; true; false; true] P eq_refl) as [H _]; [repeat constructor|exact HP|].
  rewrite H. reflexivity.
Qed.

(** an odd number of modes: the two index lists differ in length and the constructor throws *)
Example Sz_three_modes_throws :
  p_Sz Z 1%Z Z.add Z.mul Z.sub Z.opp (fun c => Z.eqb c 0) 3%Z 3 [0] = Throws 1.
Proof. vm_compute. reflexivity. Qed.

Example p_N_three_modes_shape :
  p_N Z 1%Z Z.add (fun c => Z.eqb c 0) 3 =
  [([cdag 0; cann 0], 1%Z); ([cdag 1; cann 1], 1%Z); ([cdag 2; cann 2], 1%Z)].
Proof. rewrite p_N_shape. reflexivity. Qed.
