(** C13 -- the two exchange symmetries of the Lehmann specification PV.EDSpec.chi: proofs.

    Part 1 (commutative ring): chi(C2,C1,CX3,CX4)(z2,z1;z3) = - chi(C1,C2,CX3,CX4)(z1,z2;z3), for all data.
      The transposition of the first two slots maps the six orderings onto themselves, flips every sign and
      maps the summand (operators AND frequencies permuted alike) of one side onto a summand of the other.

    Part 2 (field): chi(C1,C2,CX4,CX3)(z1,z2;z1+z2-z3) = - chi(C1,C2,CX3,CX4)(z1,z2;z3) for regular data.
      In the specification the fourth operator is pinned at time 0, so this is not a re-indexing of the
      permutation sum.  The argument is cyclicity of the trace in its Lehmann form:
        (a) the kernel: phi_ijkl(x,y,z) = - phi_lijk(u,x,y) for x+y+z+u = 0  (a rational identity in energies,
            weights and frequencies in each of the four resonance patterns; the Boltzmann relation and
            e^{i w beta} = -1 are already built into the closed form of phi, what remains of them is that a
            detected resonance has equal weights);
        (b) the 4-chain sum: sum_ijkl A_ij B_jk C_kl D_li phi_ijkl = sum_lijk D_li A_ij B_jk C_kl phi_ijkl
            after moving the outermost index inside (exchange of finite sums);
        (c) each of the six orderings with c^+_4 last is rotated (once or twice, or the other side once) into
            an ordering with c^+_3 last; a rotation of four operators is odd, which with the sign of (a)
            leaves sign * value unchanged; the relative sign of "3 last" against "4 last" is -1. *)
Require Import Bool List Arith ZArith Lia Ring Field Setoid.
From PV Require Import EDSpec BigSum Container4 Container4Spec ChiSymmetry.
Import ListNotations.

(* ------------------------------------------------------------------------------------------------ *)
Section Swap12.
Variable K : Type.
Variable NO : numops K.
Notation "0" := (n0 K NO).
Notation "1" := (n1 K NO).
Notation kadd := (nadd K NO).
Notation ksub := (nsub K NO).
Notation kmul := (nmul K NO).
Notation kopp := (nopp K NO).
Infix "+" := (nadd K NO).
Infix "*" := (nmul K NO).
Infix "-" := (nsub K NO).
Notation "- x" := (nopp K NO x).
Hypothesis Kr : ring_theory 0 1 kadd kmul ksub kopp (@eq K).
Add Ring KringCS : Kr.

Notation F := (chi_ordering K NO).

(** the specification's sum over perms3, written out *)
Lemma chi_unfold (beta tol : K) (E w : list K) (C1 C2 CX3 CX4 : list (list K)) (z1 z2 z3 : K) :
  chi K NO beta tol E w C1 C2 CX3 CX4 z1 z2 z3 =
    F beta tol E w C1 C2 CX3 CX4 z1 z2 (- z3)
  - F beta tol E w C1 CX3 C2 CX4 z1 (- z3) z2
  - F beta tol E w C2 C1 CX3 CX4 z2 z1 (- z3)
  + F beta tol E w C2 CX3 C1 CX4 z2 (- z3) z1
  + F beta tol E w CX3 C1 C2 CX4 (- z3) z1 z2
  - F beta tol E w CX3 C2 C1 CX4 (- z3) z2 z1.
Proof.
  unfold chi, perms3, ksum. cbn [fold_left fst snd nth]. ring.
Qed.

(** First exchange symmetry, all data, all frequencies. *)
Theorem chi_spec_swap12 (beta tol : K) (E w : list K) (C1 C2 CX3 CX4 : list (list K)) (z1 z2 z3 : K) :
  chi K NO beta tol E w C2 C1 CX3 CX4 z2 z1 z3 = - chi K NO beta tol E w C1 C2 CX3 CX4 z1 z2 z3.
Proof. rewrite !chi_unfold. ring. Qed.

Lemma kscale_law : scale_law K kopp (kscale K NO).
Proof. split; intros v; reflexivity. Qed.

Lemma kopp_invol : neg_invol K kopp.
Proof. intros v. ring. Qed.

Theorem chi_lehmann_swap12 (D : edata K) : swap12_law K kopp (chi_lehmann K NO D).
Proof.
  intros i j k l w1 w2 w3. unfold chi_lehmann. apply chi_spec_swap12.
Qed.

End Swap12.

(* ------------------------------------------------------------------------------------------------ *)
Section Swap34.
Variable K : Type.
Variable NO : numops K.
Notation "0" := (n0 K NO).
Notation "1" := (n1 K NO).
Notation kadd := (nadd K NO).
Notation ksub := (nsub K NO).
Notation kmul := (nmul K NO).
Notation kdiv := (ndiv K NO).
Notation kopp := (nopp K NO).
Notation ltb := (nre_ltb K NO).
Notation kabs := (nabs K NO).
Infix "+" := (nadd K NO).
Infix "*" := (nmul K NO).
Infix "-" := (nsub K NO).
Infix "/" := (ndiv K NO).
Notation "- x" := (nopp K NO x).
Variable kinv : K -> K.
Hypothesis Kf : field_theory 0 1 kadd kmul ksub kopp kdiv kinv (@eq K).
Add Field KfieldCS : Kf.
Let Kr := F_R Kf.

(** |-x| = |x|, and the test "matrix element is non-zero" of chi_ordering skips only zeros *)
Hypothesis kabs_opp : forall x, kabs (- x) = kabs x.
Hypothesis nz_exact : forall x, ltb 0 (kabs x) = false -> x = 0.

Notation bsum := (bigsum K 0 kadd).
Notation F := (chi_ordering K NO).

Ltac nz :=
  match goal with
  | H : ?a <> 0 |- ?b <> 0 => let HH := fresh "HH" in intro HH; apply H; (transitivity b; [ring | exact HH])
  | H : ?a <> 0 |- ?b <> 0 => let HH := fresh "HH" in intro HH; apply H; (transitivity (- b); [ring | rewrite HH; ring])
  end.

(** * (a) the kernel *)
Lemma phi_cyclic (beta tol Ei Ej Ek El wi wj wk wl x y z u : K) :
  x + y + z + u = 0 ->
  x + Ei - Ej <> 0 -> y + Ej - Ek <> 0 -> z + Ek - El <> 0 -> u + El - Ei <> 0 ->
  res_ok K NO tol x y Ei Ek wi wk -> res_ok K NO tol y z Ej El wj wl ->
  phi K NO beta tol Ei Ej Ek El wi wj wk wl x y z = - phi K NO beta tol El Ei Ej Ek wl wi wj wk u x y.
Proof.
  intros Hsum Ha Hb Hc Hd R12 R23.
  assert (Hu : u = - (x + y + z)).
  { transitivity (x + y + z + u - (x + y + z)); [ring | rewrite Hsum; ring]. }
  subst u. clear Hsum.
  unfold phi. cbv zeta.
  replace (- (x + y + z) + x) with (- (y + z)) by ring.
  replace (El - Ej) with (- (Ej - El)) by ring.
  rewrite !kabs_opp.
  unfold res_ok in R12, R23.
  destruct (ltb (kabs (x + y)) tol && ltb (kabs (Ei - Ek)) tol);
  destruct (ltb (kabs (y + z)) tol && ltb (kabs (Ej - El)) tol).
  - destruct R12 as [R12 W12]. destruct R23 as [R23 W23]. subst wk wl.
    assert (HEk : Ek = x + y + Ei) by (transitivity (x + y + Ei - (x + y + Ei - Ek)); [ring | rewrite R12; ring]).
    subst Ek.
    assert (HEl : El = y + z + Ej) by (transitivity (y + z + Ej - (y + z + Ej - El)); [ring | rewrite R23; ring]).
    subst El.
    field; repeat split; nz.
  - destruct R12 as [R12 W12]. subst wk.
    assert (HEk : Ek = x + y + Ei) by (transitivity (x + y + Ei - (x + y + Ei - Ek)); [ring | rewrite R12; ring]).
    subst Ek.
    field; repeat split; nz.
  - destruct R23 as [R23 W23]. subst wl.
    assert (HEl : El = y + z + Ej) by (transitivity (y + z + Ej - (y + z + Ej - El)); [ring | rewrite R23; ring]).
    subst El.
    field; repeat split; nz.
  - field; repeat split; nz.
Qed.

(** * (b) chi_ordering as a sum over all quadruples of eigenstates *)
Lemma ksum_bsum {A} (l : list A) (f : A -> K) : ksum K NO l f = bsum l f.
Proof. unfold ksum. rewrite (fold_left_bigsum K 0 1 kadd kmul ksub kopp Kr). ring. Qed.

Lemma bsum_ext {A} (l : list A) (f g : A -> K) : (forall a, In a l -> f a = g a) -> bsum l f = bsum l g.
Proof. apply (bigsum_ext K 0 kadd). Qed.

Lemma bsum_zero {A} (l : list A) (f : A -> K) : (forall a, In a l -> f a = 0) -> bsum l f = 0.
Proof. apply (bigsum_zero K 0 1 kadd kmul ksub kopp Kr). Qed.

Lemma bsum_swap {A B} (l1 : list A) (l2 : list B) (f : A -> B -> K) :
  bsum l1 (fun a => bsum l2 (fun b => f a b)) = bsum l2 (fun b => bsum l1 (fun a => f a b)).
Proof. apply (bigsum_swap K 0 1 kadd kmul ksub kopp Kr). Qed.

Lemma bsum_opp {A} (l : list A) (f : A -> K) : bsum l (fun a => - f a) = - bsum l f.
Proof. induction l as [|a l IH]; cbn [bigsum]; [ring|]. rewrite IH. ring. Qed.

Lemma bsum_combine {A} (d : A) (l : list A) (s : nat) (f : nat * A -> K) :
  bsum (combine (seq s (length l)) l) f = bsum (seq s (length l)) (fun i => f (i, nth (i - s)%nat l d)).
Proof.
  revert s. induction l as [|a l IH]; intros s; cbn [length seq combine bigsum]; [reflexivity|].
  rewrite IH. rewrite Nat.sub_diag. cbn [nth]. f_equal.
  apply bsum_ext. intros i Hi. apply in_seq in Hi.
  replace (i - s)%nat with (S (i - S s)) by lia. reflexivity.
Qed.

Lemma ksum_idx {A} (d : A) (l : list A) (f : nat * A -> K) :
  ksum K NO (idx l) f = bsum (seq 0 (length l)) (fun i => f (i, nth i l d)).
Proof.
  rewrite ksum_bsum. unfold idx. rewrite (bsum_combine d). apply bsum_ext. intros i _.
  rewrite Nat.sub_0_r. reflexivity.
Qed.

Lemma ksum_nz (r : list K) (f : nat * K -> K) :
  (forall j, f (j, 0) = 0) ->
  ksum K NO (filter (fun jc : nat * K => ltb 0 (kabs (snd jc))) (idx r)) f =
  bsum (seq 0 (length r)) (fun j => f (j, nth j r 0)).
Proof.
  intros Hz. rewrite <- (ksum_idx 0 r f). rewrite !ksum_bsum.
  rewrite (bigsum_filter K 0 1 kadd kmul ksub kopp Kr). apply bsum_ext. intros [j v] _.
  cbn [snd]. destruct (ltb 0 (kabs v)) eqn:T; [reflexivity|].
  rewrite (nz_exact v T). symmetry. apply Hz.
Qed.

Lemma ksum_zero {A} (l : list A) (f : A -> K) : (forall a, f a = 0) -> ksum K NO l f = 0.
Proof. intros H. rewrite ksum_bsum. apply bsum_zero. intros a _. apply H. Qed.

Definition Ffull (n : nat) (beta tol : K) (E w : list K) (O1 O2 O3 O4 : list (list K)) (x y z : K) : K :=
  bsum (seq 0 n) (fun i => bsum (seq 0 n) (fun j => bsum (seq 0 n) (fun k => bsum (seq 0 n) (fun l =>
    mget K NO O1 i j * mget K NO O2 j k * mget K NO O3 k l * mget K NO O4 l i *
    phi K NO beta tol (nth i E 0) (nth j E 0) (nth k E 0) (nth l E 0)
                      (nth i w 0) (nth j w 0) (nth k w 0) (nth l w 0) x y z)))).

Lemma square_row (n : nat) (M : list (list K)) (i : nat) : square K n M -> (i < n)%nat -> length (nth i M []) = n.
Proof. intros [HL HR] Hi. apply HR. apply nth_In. lia. Qed.

Lemma chi_ordering_full (n : nat) (beta tol : K) (E w : list K) (O1 O2 O3 O4 : list (list K)) (x y z : K) :
  square K n O1 -> square K n O2 -> square K n O3 ->
  F beta tol E w O1 O2 O3 O4 x y z = Ffull n beta tol E w O1 O2 O3 O4 x y z.
Proof.
  intros S1 S2 S3. unfold chi_ordering, Ffull. cbv zeta.
  rewrite (ksum_idx [] O1). rewrite (proj1 S1).
  apply bsum_ext. intros i Hi. apply in_seq in Hi. cbn [fst snd].
  rewrite ksum_nz.
  2:{ intros j. cbn [fst snd]. apply ksum_zero. intros kb. apply ksum_zero. intros lc. ring. }
  rewrite (square_row n O1 i S1) by lia.
  apply bsum_ext. intros j Hj. apply in_seq in Hj. cbn [fst snd].
  rewrite ksum_nz.
  2:{ intros k. cbn [fst snd]. apply ksum_zero. intros lc. ring. }
  rewrite (square_row n O2 j S2) by lia.
  apply bsum_ext. intros k Hk. apply in_seq in Hk. cbn [fst snd].
  rewrite ksum_nz.
  2:{ intros l. cbn [fst snd]. ring. }
  rewrite (square_row n O3 k S3) by lia.
  apply bsum_ext. intros l Hl. cbn [fst snd]. unfold mget. reflexivity.
Qed.

(** * rotation of the 4-chain *)
Lemma Ffull_cyclic (n : nat) (beta tol : K) (E w : list K) (A B C D : list (list K)) (fs : list K) (x y z u : K) :
  regular K NO n tol E w fs ->
  In x fs -> In y fs -> In z fs -> In u fs -> x + y + z + u = 0 ->
  Ffull n beta tol E w A B C D x y z = - Ffull n beta tol E w D A B C u x y.
Proof.
  intros [Hf Hb] Ix Iy Iz Iu Hsum. unfold Ffull.
  (* right-hand side: indices (l, i, j, k); move l inside *)
  rewrite (bsum_swap (seq 0 n) (seq 0 n)
             (fun l i => bsum (seq 0 n) (fun j => bsum (seq 0 n) (fun k =>
                mget K NO D l i * mget K NO A i j * mget K NO B j k * mget K NO C k l *
                phi K NO beta tol (nth l E 0) (nth i E 0) (nth j E 0) (nth k E 0)
                                  (nth l w 0) (nth i w 0) (nth j w 0) (nth k w 0) u x y)))).
  rewrite <- bsum_opp. apply bsum_ext. intros i Hi. apply in_seq in Hi.
  rewrite (bsum_swap (seq 0 n) (seq 0 n)
             (fun l j => bsum (seq 0 n) (fun k =>
                mget K NO D l i * mget K NO A i j * mget K NO B j k * mget K NO C k l *
                phi K NO beta tol (nth l E 0) (nth i E 0) (nth j E 0) (nth k E 0)
                                  (nth l w 0) (nth i w 0) (nth j w 0) (nth k w 0) u x y))).
  rewrite <- bsum_opp. apply bsum_ext. intros j Hj. apply in_seq in Hj.
  rewrite (bsum_swap (seq 0 n) (seq 0 n)
             (fun l k =>
                mget K NO D l i * mget K NO A i j * mget K NO B j k * mget K NO C k l *
                phi K NO beta tol (nth l E 0) (nth i E 0) (nth j E 0) (nth k E 0)
                                  (nth l w 0) (nth i w 0) (nth j w 0) (nth k w 0) u x y)).
  rewrite <- bsum_opp. apply bsum_ext. intros k Hk. apply in_seq in Hk.
  rewrite <- bsum_opp. apply bsum_ext. intros l Hl. apply in_seq in Hl.
  rewrite (phi_cyclic beta tol (nth i E 0) (nth j E 0) (nth k E 0) (nth l E 0)
             (nth i w 0) (nth j w 0) (nth k w 0) (nth l w 0) x y z u Hsum).
  - ring.
  - apply Hf; [exact Ix | lia | lia].
  - apply Hf; [exact Iy | lia | lia].
  - apply Hf; [exact Iz | lia | lia].
  - apply Hf; [exact Iu | lia | lia].
  - apply Hb; [exact Ix | exact Iy | lia | lia].
  - apply Hb; [exact Iy | exact Iz | lia | lia].
Qed.

(** * (c) Second exchange symmetry of the specification *)
Theorem chi_spec_swap34 (n : nat) (beta tol : K) (E w : list K) (C1 C2 CX3 CX4 : list (list K)) (z1 z2 z3 : K) :
  square K n C1 -> square K n C2 -> square K n CX3 -> square K n CX4 ->
  regular K NO n tol E w (fset K NO z1 z2 z3) ->
  chi K NO beta tol E w C1 C2 CX4 CX3 z1 z2 (z1 + z2 - z3) = - chi K NO beta tol E w C1 C2 CX3 CX4 z1 z2 z3.
Proof.
  intros S1 S2 S3 S4 Hreg.
  rewrite !(chi_unfold K NO Kr).
  rewrite !(chi_ordering_full n) by assumption.
  set (z4 := z1 + z2 - z3).
  assert (I1 : In z1 (fset K NO z1 z2 z3)) by (unfold fset; cbn [In]; auto).
  assert (I2 : In z2 (fset K NO z1 z2 z3)) by (unfold fset; cbn [In]; auto).
  assert (I3 : In (- z3) (fset K NO z1 z2 z3)) by (unfold fset; cbn [In]; auto).
  assert (I4 : In (- z4) (fset K NO z1 z2 z3)) by (unfold fset, z4; cbn [In]; auto 6).
  pose proof (Ffull_cyclic n beta tol E w) as Cyc.
  assert (A1 := Cyc C1 C2 CX3 CX4 _ z1 z2 (- z3) (- z4) Hreg I1 I2 I3 I4 ltac:(unfold z4; ring)).
  assert (A3 := Cyc C2 C1 CX3 CX4 _ z2 z1 (- z3) (- z4) Hreg I2 I1 I3 I4 ltac:(unfold z4; ring)).
  assert (A5 := Cyc C1 C2 CX4 CX3 _ z1 z2 (- z4) (- z3) Hreg I1 I2 I4 I3 ltac:(unfold z4; ring)).
  assert (A6 := Cyc C2 C1 CX4 CX3 _ z2 z1 (- z4) (- z3) Hreg I2 I1 I4 I3 ltac:(unfold z4; ring)).
  assert (A2 := Cyc C1 CX3 C2 CX4 _ z1 (- z3) z2 (- z4) Hreg I1 I3 I2 I4 ltac:(unfold z4; ring)).
  assert (A2' := Cyc CX4 C1 CX3 C2 _ (- z4) z1 (- z3) z2 Hreg I4 I1 I3 I2 ltac:(unfold z4; ring)).
  assert (A4 := Cyc C2 CX3 C1 CX4 _ z2 (- z3) z1 (- z4) Hreg I2 I3 I1 I4 ltac:(unfold z4; ring)).
  assert (A4' := Cyc CX4 C2 CX3 C1 _ (- z4) z2 (- z3) z1 Hreg I4 I2 I3 I1 ltac:(unfold z4; ring)).
  rewrite A1, A3, A5, A6, A2, A2', A4, A4'. ring.
Qed.

(** the form of the property text: chi_ijlk(w1,w2;w3) = - chi_ijkl(w1,w2;w1+w2-w3), frequencies by Matsubara index *)
Theorem chi_lehmann_swap34 (n : nat) (D : edata K) :
  edata_regular K NO n D -> swap34_law K kopp (chi_lehmann K NO D).
Proof.
  intros [SC [SX [Haff Hreg]]] i j k l m1 m2 m3. unfold chi_lehmann.
  pose proof (chi_spec_swap34 n (ed_beta K D) (ed_tol K D) (ed_E K D) (ed_w K D)
                (ed_C K D i) (ed_C K D j) (ed_CX K D k) (ed_CX K D l)
                (ed_freq K D m1) (ed_freq K D m2) (ed_freq K D (m1 + m2 - m3)%Z)
                (SC i) (SC j) (SX k) (SX l) (Hreg m1 m2 (m1 + m2 - m3)%Z)) as H.
  rewrite <- H. f_equal. rewrite Haff. ring.
Qed.

End Swap34.

(* ------------------------------------------------------------------------------------------------ *)
(** the specification's Jordan-Wigner matrices are square of dimension 2^M, for every number type *)
Lemma poly_matrix_square (K : Type) (NO : numops K) (M : nat) (p : list (Poly.monomial * K)) :
  square K (Nat.pow 2 M) (poly_matrix K NO M p).
Proof.
  unfold poly_matrix, square. cbv zeta. split.
  - rewrite map_length, seq_length. reflexivity.
  - intros r Hr. apply in_map_iff in Hr. destruct Hr as [t [<- _]]. rewrite map_length, seq_length. reflexivity.
Qed.

Lemma op_matrix_square (K : Type) (NO : numops K) (M : nat) (o : Fock.op) :
  square K (Nat.pow 2 M) (op_matrix K NO M o).
Proof. apply poly_matrix_square. Qed.
