(** Non-vacuity of the bridged spine: the Hubbard atom on exact rationals, with the (N, S_z) partition PRODUCED BY THE
    SYMMETRY-ANALYSIS MODEL (Symm.symmetrize + Symm.sc_compute on the Hamiltonian polynomial) instead of a hand-written one.
    Number type and tolerances: PV.SpineExamples (QcS, T0, all tolerances 0); symmetry analysis over the same rationals
    (SymmProofs.Qc_hyps).  Everything below is an instance of the general theorems of SpineBridge / SpineBridgeHam /
    SpineBridgeEAProofs; only the runs themselves are evaluated (vm_compute). *)
Require Import Bool List Arith ZArith Lia QArith Qcanon Qcabs Ring_theory Field_theory.
From PV Require Import Outcome Fock Poly PolySem EDSpec HPart HPartSpec HPartProofs Sparse TermList GFPart GFPartProofs
     Spine SpinePartition SpineOneBlock ChiSymmetryExamples SpineExamples SpineBridge SpineBridgeHam SpineBridgeEA SpineBridgeEAProofs
     SpineBridgeMain.
From PV Require Symm SymmProofs.
From PVgen Require Import Gen_C01.
Import ListNotations.
Local Open Scope Qc_scope.

(** * The symmetry analysis of the atom: default mode (candidates N and S_z), mode 0 = up, mode 1 = down *)
Definition hub_spins : list nat := (1 :: 0 :: nil)%nat.
Definition qc_symmetrize := Symm.symmetrize Qc (Q2Qc 0) (Q2Qc 1) Qcplus Qcmult Qcminus Qcopp SymmProofs.Qczero SymmProofs.Qchalf.
Definition qc_sc_compute := Symm.sc_compute Qc (Q2Qc 0) Qcplus Qcminus Qcopp SymmProofs.Qczero.
Definition hub_sy_run := qc_symmetrize false false (Symm.SymmDefault Qc) hub_spins hub_h.
Definition hub_class_run := bind hub_sy_run (fun sy => qc_sc_compute 2 (Symm.sy_ops sy)).

Lemma Qc_ring_ok : ring_ok Qc (Q2Qc 0) (Q2Qc 1) Qcplus Qcmult Qcminus Qcopp SymmProofs.Qczero.
Proof. exact (proj1 SymmProofs.Qc_hyps). Qed.
Lemma Qc_10 : Q2Qc 1 <> Q2Qc 0.
Proof. exact (proj1 (proj2 (proj2 SymmProofs.Qc_hyps))). Qed.
Lemma Qc_dom : forall a b : Qc, Qcmult a b = Q2Qc 0 -> a = Q2Qc 0 \/ b = Q2Qc 0.
Proof. exact (proj1 (proj2 SymmProofs.Qc_hyps)). Qed.

Lemma hub_h_range : poly_in_range Qc 2 hub_h.
Proof. repeat constructor. Qed.

Definition hub_sy : Symm.symm Qc := match hub_sy_run with Done sy => sy | _ => Symm.sy_empty Qc end.
Definition hub_c : Symm.qclass Qc :=
  match qc_sc_compute 2 (Symm.sy_ops hub_sy) with Done c => c | _ => Symm.sc_empty (list Qc) end.
Lemma hub_sy_eq : hub_sy_run = Done hub_sy.
Proof. vm_compute. reflexivity. Qed.
Lemma hub_c_eq : qc_sc_compute 2 (Symm.sy_ops hub_sy) = Done hub_c.
Proof. vm_compute. reflexivity. Qed.

(** both candidates are accepted; four blocks of one state; the bridged classification is the (N, S_z) partition that
    SpineExamples.S4 wrote by hand *)
Example hub_symmetry_partition :
  exists sy c, hub_sy_run = Done sy /\ Symm.sy_flags sy = (true :: true :: nil) /\
    qc_sc_compute 2 (Symm.sy_ops sy) = Done c /\
    Symm.sc_blocks c = ((0 :: nil) :: (1 :: nil) :: (2 :: nil) :: (3 :: nil) :: nil)%nat /\ bridge 2 c = S4.
Proof.
  exists hub_sy, hub_c. split; [exact hub_sy_eq|]. split; [vm_compute; reflexivity|]. split; [exact hub_c_eq|].
  split; vm_compute; reflexivity.
Qed.

(** * The spine on that partition: the general theorem [spine_gf_symmetry] applies, with NO hand-proved partition_ok / op_ok *)
Definition hub_run_symm : outcome (wres (list ((nat * nat) * part_out Qc))) :=
  bind hub_class_run (fun c => spine_gf Qc QcS true 0 1 0 T0 true false (bridge 2 c) ED4 1 0 0).

Example hub_spine_symmetry :
  exists sy c parts D,
    hub_sy_run = Done sy /\ qc_sc_compute 2 (Symm.sy_ops sy) = Done c /\
    hub_run_symm = Done (WDone parts) /\ spine_dm Qc QcS 1 (bridge 2 c) ED4 = Done D /\
    gf_value Qc QcS parts hub_z =
    gf Qc QcS (assembled_E Qc ED4) (assembled_w Qc D)
       (rotate Qc QcS 4 (assembled_U Qc QcS (bridge 2 c) ED4) (op_matrix Qc QcS 2 (cann 0)))
       (rotate Qc QcS 4 (assembled_U Qc QcS (bridge 2 c) ED4) (op_matrix Qc QcS 2 (cdag 0))) hub_z.
Proof.
  destruct hub_symmetry_partition as [sy [c [Esy [_ [Ec [_ Eb]]]]]].
  destruct (SymmProofs.default_candidates_shift_uniformly Qc (Q2Qc 0) (Q2Qc 1) Qcplus Qcmult Qcminus Qcopp SymmProofs.Qczero
              SymmProofs.Qchalf Qc_ring_ok false false (Symm.SymmDefault Qc) hub_spins hub_h sy I Esy) as [Hr Hu].
  assert (Erun : hub_run_symm = spine_gf Qc QcS true 0 1 0 T0 true false (bridge 2 c) ED4 1 0 0).
  { unfold hub_run_symm, hub_class_run. rewrite Esy. cbn [bind]. rewrite Ec. reflexivity. }
  assert (EO : eig_ok Qc (bridge 2 c) ED4) by (rewrite Eb; exact S4_eig_ok).
  destruct (spine_gf Qc QcS true 0 1 0 T0 true false (bridge 2 c) ED4 1 0 0) as [[parts| | |]| | | |] eqn:E;
    try (rewrite Eb in E; vm_compute in E; discriminate E).
  destruct (spine_gf_symmetry Qc (Q2Qc 0) (Q2Qc 1) Qcplus Qcmult Qcminus Qcopp SymmProofs.Qczero Qc_ring_ok Qc_10
              2%nat (Symm.sy_ops sy) c Hr Ec Hu Qc QcS Qcinv QcS_ring QcS_div eq_refl true 0 eq_refl eq_refl eq_refl eq_refl
              1 0 keep0 T0 T0_rel T0_cmp ED4 0%nat 0%nat ltac:(lia) ltac:(lia) EO true false 1 hub_z parts E) as [D [HD Hv]].
  exists sy, c, parts, D. repeat split; assumption.
Qed.

Definition hub_value_symm : Qc :=
  match hub_run_symm with Done (WDone parts) => gf_value Qc QcS parts hub_z | _ => 0 end.
Example hub_value_symm_nonzero :
  hub_value_symm = Q2Qc (2 # 51) /\ hub_value_symm <> 0 /\
  match hub_run_symm with Done (WDone parts) => map fst parts = ((0, 1) :: (2, 3) :: nil)%nat | _ => False end.
Proof.
  assert (E : hub_value_symm = Q2Qc (2 # 51)) by (apply Qc_is_canon; vm_compute; reflexivity).
  split; [exact E|]. split; [rewrite E; intros H; apply (f_equal this) in H; vm_compute in H; discriminate H|].
  vm_compute. reflexivity.
Qed.

(** the block pairs HPart.fo_prepare records on the bridged classification, for c_0 and c^+_0 *)
Example hub_bridge_pairs :
  exists c, hub_class_run = Done c /\
    fo_prepare true Qc QcS 0 (bridge 2 c) (FC 0) = Done ((0, 1) :: (2, 3) :: nil)%nat /\
    fo_prepare true Qc QcS 0 (bridge 2 c) (FCdag 0) = Done ((1, 0) :: (3, 2) :: nil)%nat.
Proof.
  destruct hub_symmetry_partition as [sy [c [Esy [_ [Ec [_ Eb]]]]]]. exists c.
  split; [unfold hub_class_run; rewrite Esy; cbn [bind]; exact Ec|]. rewrite Eb. split; vm_compute; reflexivity.
Qed.

(** * The Hamiltonian layer on that partition *)
Lemma Qczero_spec : forall x : Qc, SymmProofs.Qczero x = true <-> x = n0 Qc QcS.
Proof. exact (proj2 Qc_ring_ok). Qed.

(** the blocks filled by the model of HamiltonianPart::prepare are the restrictions of the Jordan-Wigner matrix of h; the
    eigen-data ED4 satisfy the exact certificate for them; hence, by [assembled_eigensystem] with C07's block-diagonality
    ([symm_H_block_diagonal]), the assembled (E, U) is an exact eigen-system of the full 4 x 4 matrix poly_matrix hub_h *)
Example hub_eigensystem_symmetry :
  exists c, hub_class_run = Done c /\
    spine_hblocks Qc QcS true 0 (bridge 2 c) hub_h =
      Done (map (Hblock Qc QcS (bridge 2 c) (poly_matrix Qc QcS 2 hub_h)) (seq 0 4)) /\
    (forall b, (b < 4)%nat ->
       eigensystem Qc QcS (block_size (bridge 2 c) b) (Hblock Qc QcS (bridge 2 c) (poly_matrix Qc QcS 2 hub_h) b) (Uof Qc ED4 b) (Eof Qc ED4 b)) /\
    eigensystem Qc QcS 4 (poly_matrix Qc QcS 2 hub_h) (assembled_U Qc QcS (bridge 2 c) ED4) (assembled_E Qc ED4) /\
    assembled_E Qc ED4 = hub_E /\ assembled_U Qc QcS (bridge 2 c) ED4 = hub_U.
Proof.
  destruct hub_symmetry_partition as [sy [c [Esy [_ [Ec [_ Eb]]]]]]. exists c.
  split; [unfold hub_class_run; rewrite Esy; cbn [bind]; exact Ec|].
  assert (CERT : forall b, (b < 4)%nat ->
       eigensystem Qc QcS (block_size (bridge 2 c) b) (Hblock Qc QcS (bridge 2 c) (poly_matrix Qc QcS 2 hub_h) b) (Uof Qc ED4 b) (Eof Qc ED4 b)).
  { rewrite Eb. intros b Hb.
    do 4 (destruct b as [|b]; [split; intros r k Hr Hk; cbn in Hr, Hk;
                                 (destruct r as [|r]; [|lia]); (destruct k as [|k]; [|lia]); apply Qc_is_canon; vm_compute; reflexivity|]). lia. }
  split; [rewrite Eb; vm_compute; reflexivity|]. split; [exact CERT|]. split.
  - apply (assembled_eigensystem Qc QcS QcS_ring eq_refl (bridge 2 c) ED4).
    + exact (symm_partition_ok_H Qc QcS SymmProofs.Qczero SymmProofs.Qchalf QcS_ring Qczero_spec false false (Symm.SymmDefault Qc)
               hub_spins hub_h I sy Esy c Ec).
    + rewrite Eb. exact S4_eig_ok.
    + exact (poly_matrix_square Qc QcS (bridge 2 c) hub_h).
    + exact (symm_H_block_diagonal Qc QcS SymmProofs.Qczero SymmProofs.Qchalf QcS_ring Qczero_spec Qc_dom false false (Symm.SymmDefault Qc)
               hub_spins hub_h hub_h_range I sy Esy c Ec).
    + intros b Hb. apply CERT. rewrite Eb in Hb. exact Hb.
  - split; [reflexivity|]. rewrite Eb. vm_compute. reflexivity.
Qed.

(** * The ensemble average <n_0> = Tr(rho c^+_0 c_0) on that partition: [spine_ea_symmetry] applies; value 8/17 *)
Definition hub_ea_run : outcome Qc := bind hub_class_run (fun c => spine_ea Qc QcS true 0 1 0 (bridge 2 c) ED4 1 0 0).

Example hub_ea_symmetry :
  exists c D, hub_class_run = Done c /\ spine_dm Qc QcS 1 (bridge 2 c) ED4 = Done D /\
    hub_ea_run = Done (trace_rho Qc QcS (assembled_w Qc D)
                         (rotate Qc QcS 4 (assembled_U Qc QcS (bridge 2 c) ED4) (poly_matrix Qc QcS 2 (p_n_offdiag Qc 1 0 0)))) /\
    hub_ea_run = Done (Q2Qc (8 # 17)).
Proof.
  destruct hub_symmetry_partition as [sy [c [Esy [_ [Ec [_ Eb]]]]]].
  destruct (SymmProofs.default_candidates_shift_uniformly Qc (Q2Qc 0) (Q2Qc 1) Qcplus Qcmult Qcminus Qcopp SymmProofs.Qczero
              SymmProofs.Qchalf Qc_ring_ok false false (Symm.SymmDefault Qc) hub_spins hub_h sy I Esy) as [Hr Hu].
  assert (Ecl : hub_class_run = Done c) by (unfold hub_class_run; rewrite Esy; cbn [bind]; exact Ec).
  assert (EO : eig_ok Qc (bridge 2 c) ED4) by (rewrite Eb; exact S4_eig_ok).
  destruct (spine_dm Qc QcS 1 (bridge 2 c) ED4) as [D| | | |] eqn:HD; try (rewrite Eb in HD; vm_compute in HD; discriminate HD).
  exists c, D. split; [exact Ecl|]. split; [exact HD|]. split.
  - unfold hub_ea_run. rewrite Ecl. cbn [bind].
    exact (spine_ea_symmetry Qc (Q2Qc 0) (Q2Qc 1) Qcplus Qcmult Qcminus Qcopp SymmProofs.Qczero Qc_ring_ok Qc_10
             2%nat (Symm.sy_ops sy) c Hr Ec Hu Qc QcS QcS_ring eq_refl true 0 eq_refl eq_refl eq_refl eq_refl 1 0 keep0
             ED4 0%nat 0%nat ltac:(lia) ltac:(lia) EO 1 D HD).
  - unfold hub_ea_run. rewrite Ecl. cbn [bind]. rewrite Eb.
    assert (Ev : match spine_ea Qc QcS true 0 1 0 S4 ED4 1 0 0 with Done v => v | _ => 0 end = Q2Qc (8 # 17))
      by (apply Qc_is_canon; vm_compute; reflexivity).
    destruct (spine_ea Qc QcS true 0 1 0 S4 ED4 1 0 0) as [v| | | |] eqn:Ev'; try (vm_compute in Ev'; discriminate Ev').
    rewrite Ev. reflexivity.
Qed.

(** * The hypothesis [zero_test_exact] of [spine_hblocks_symmetry] / [spine_symmetry_eigensystem] (C03's hypothesis: the zero test
    |x| < eps of Operator::actRight is exact) is satisfiable together with all the others: rationals with the discrete absolute
    value |0| = 0, |x| = 1 otherwise, and eps = 1/2.  (With the rational absolute value no eps > 0 makes the test exact, and
    eps = 0 never drops a cancelled coefficient: there the blocks are evaluated, as above.) *)
Definition qdabs (x : Qc) : Qc := if Qc_eq_bool x 0 then 0 else 1.
Definition QcD : numops Qc := {|
  n0 := 0; n1 := 1; nadd := Qcplus; nsub := Qcminus; nmul := Qcmult; ndiv := Qcdiv;
  nopp := Qcopp; nconj := fun x => x; nexp := fun x => 1 / (1 - x);
  nre_ltb := qltb; nabs := qdabs; nofZ := fun k => Q2Qc (inject_Z k); nI := 0 |}.
Definition eps_half : Qc := 1 / (1 + 1).

Lemma QcD_zero_test : forall x, is_zero Qc QcD eps_half x = true <-> x = n0 Qc QcD.
Proof.
  intros x. unfold is_zero. cbn [nre_ltb nabs QcD n0]. unfold qdabs. destruct (Qc_eq_bool x 0) eqn:E.
  - apply Qc_eq_bool_correct in E. subst x. split; [reflexivity|]. intros _. vm_compute. reflexivity.
  - split; [intro H; vm_compute in H; discriminate H|]. intros ->. vm_compute in E. discriminate E.
Qed.

Example hub_eigensystem_exact_zero_test :
  exists c Hs, hub_class_run = Done c /\
    spine_hblocks Qc QcD true eps_half (bridge 2 c) hub_h = Done Hs /\
    Hs = map (Hblock Qc QcD (bridge 2 c) (poly_matrix Qc QcD 2 hub_h)) (seq 0 4) /\
    eigensystem Qc QcD 4 (poly_matrix Qc QcD 2 hub_h) (assembled_U Qc QcD (bridge 2 c) ED4) (assembled_E Qc ED4).
Proof.
  destruct hub_symmetry_partition as [sy [c [Esy [_ [Ec [_ Eb]]]]]]. exists c.
  pose proof (spine_hblocks_symmetry Qc QcD SymmProofs.Qczero SymmProofs.Qchalf QcS_ring Qczero_spec Qc_dom false false
                (Symm.SymmDefault Qc) hub_spins hub_h hub_h_range I sy Esy c Ec true eps_half QcD_zero_test) as HH.
  change (length hub_spins) with 2%nat in HH.
  assert (EO : eig_ok Qc (bridge 2 c) ED4) by (rewrite Eb; exact S4_eig_ok).
  eexists. split; [unfold hub_class_run; rewrite Esy; cbn [bind]; exact Ec|]. split; [exact HH|]. split; [rewrite Eb; reflexivity|].
  apply (spine_symmetry_eigensystem Qc QcD SymmProofs.Qczero SymmProofs.Qchalf QcS_ring Qczero_spec Qc_dom false false
           (Symm.SymmDefault Qc) hub_spins hub_h hub_h_range I sy Esy c Ec true eps_half QcD_zero_test eq_refl ED4 _
           EO HH).
  change (length hub_spins) with 2%nat. rewrite Eb. intros b Hb. cbn in Hb.
  do 4 (destruct b as [|b]; [split; intros r k Hr Hk; cbn in Hr, Hk;
                               (destruct r as [|r]; [|lia]); (destruct k as [|k]; [|lia]); apply Qc_is_canon; vm_compute; reflexivity|]). lia.
Qed.

(** * [spine_gf_of_hamiltonian] instantiated: every hypothesis (field, exact zero test, tolerances) holds for QcD, eps = 1/2;
    the eigen-data ED4 satisfy the exact certificate for the blocks the model of Hamiltonian::prepare returns; the value is 2/51 *)
Definition TD : tols Qc := mktols Qc eps_half 0 0 eps_half.

Lemma qdabs_small x : qltb eps_half (qdabs x) = false -> x = 0.
Proof.
  unfold qdabs. destruct (Qc_eq_bool x 0) eqn:E; [intros _; apply Qc_eq_bool_correct; exact E|].
  intros H. vm_compute in H. discriminate H.
Qed.
Lemma keepD : forall x, keep_entry Qc QcD 1 eps_half x = false -> x = n0 Qc QcD.
Proof.
  intros x. unfold keep_entry. cbn [nre_ltb nabs nmul QcD]. replace (qdabs 1 * eps_half) with eps_half by (apply Qc_is_canon; vm_compute; reflexivity).
  apply qdabs_small.
Qed.
Lemma TD_rel : forall R, gf_relevant Qc QcD (t_matrix_element Qc TD) R = false -> R = n0 Qc QcD.
Proof. intros R. unfold gf_relevant. cbn [t_matrix_element TD nre_ltb nabs QcD]. apply qdabs_small. Qed.
Lemma TD_cmp : forall a b, gf_compare Qc QcD (t_compare Qc TD) a b = false -> gf_compare Qc QcD (t_compare Qc TD) b a = true.
Proof. exact T0_cmp. Qed.

Definition hub_run_D (c : Symm.qclass Qc) := spine_gf Qc QcD true eps_half 1 eps_half TD true false (bridge 2 c) ED4 1 0 0.

Example hub_gf_of_hamiltonian :
  exists c Hs parts D,
    hub_class_run = Done c /\ spine_hblocks Qc QcD true eps_half (bridge 2 c) hub_h = Done Hs /\
    (forall b, (b < 4)%nat -> eigensystem Qc QcD (block_size (bridge 2 c) b) (nth b Hs nil) (Uof Qc ED4 b) (Eof Qc ED4 b)) /\
    eigensystem Qc QcD 4 (poly_matrix Qc QcD 2 hub_h) (assembled_U Qc QcD (bridge 2 c) ED4) (assembled_E Qc ED4) /\
    hub_run_D c = Done (WDone parts) /\ spine_dm Qc QcD 1 (bridge 2 c) ED4 = Done D /\
    gf_value Qc QcD parts hub_z =
    gf Qc QcD (assembled_E Qc ED4) (assembled_w Qc D)
       (rotate Qc QcD 4 (assembled_U Qc QcD (bridge 2 c) ED4) (op_matrix Qc QcD 2 (cann 0)))
       (rotate Qc QcD 4 (assembled_U Qc QcD (bridge 2 c) ED4) (op_matrix Qc QcD 2 (cdag 0))) hub_z /\
    gf_value Qc QcD parts hub_z = Q2Qc (2 # 51).
Proof.
  destruct (spine_gf_of_hamiltonian Qc QcD Qcinv Qcft SymmProofs.Qczero SymmProofs.Qchalf Qczero_spec eq_refl true eps_half
              eq_refl eq_refl eq_refl eq_refl QcD_zero_test 1 eps_half keepD TD TD_rel TD_cmp
              false false (Symm.SymmDefault Qc) hub_spins hub_h hub_sy hub_h_range I hub_sy_eq) as [c [Hs [Ec [HH F]]]].
  change (length hub_spins) with 2%nat in *.
  assert (Ecc : c = hub_c) by (pose proof hub_c_eq as E'; unfold qc_sc_compute in E'; cbn [n0 nadd nsub nopp QcD] in Ec; rewrite Ec in E';
      exact (f_equal (fun o : outcome (Symm.qclass Qc) => match o with Done x => x | _ => c end) E')).
  assert (Eb : bridge 2 c = S4) by (rewrite Ecc; vm_compute; reflexivity).
  assert (Ecl : hub_class_run = Done c) by (unfold hub_class_run; rewrite hub_sy_eq; cbn [bind]; exact Ec).
  assert (EO : eig_ok Qc (bridge 2 c) ED4) by (rewrite Eb; exact S4_eig_ok).
  assert (CERT : forall b, (b < 4)%nat -> eigensystem Qc QcD (block_size (bridge 2 c) b) (nth b Hs nil) (Uof Qc ED4 b) (Eof Qc ED4 b)).
  { revert HH. rewrite Eb. intros HH. vm_compute in HH. injection HH as <-. intros b Hb.
    do 4 (destruct b as [|b]; [split; intros r k Hr Hk; cbn in Hr, Hk;
                                 (destruct r as [|r]; [|lia]); (destruct k as [|k]; [|lia]); apply Qc_is_canon; vm_compute; reflexivity|]). lia. }
  destruct (F ED4 EO ltac:(intros b Hb; apply CERT; rewrite Eb in Hb; exact Hb)) as [EIG G].
  destruct (hub_run_D c) as [[parts| | |]| | | |] eqn:E; try (unfold hub_run_D in E; rewrite Eb in E; vm_compute in E; discriminate E).
  destruct (G 0%nat 0%nat ltac:(lia) ltac:(lia) true false 1 hub_z parts E) as [D [HD Hv]].
  exists c, Hs, parts, D. split; [exact Ecl|]. split; [exact HH|]. split; [exact CERT|]. split; [exact EIG|].
  split; [exact E|]. split; [exact HD|]. split; [exact Hv|].
  unfold hub_run_D in E. rewrite Eb in E.
  assert (Ev : match spine_gf Qc QcD true eps_half 1 eps_half TD true false S4 ED4 1 0 0 with
               | Done (WDone ps) => gf_value Qc QcD ps hub_z | _ => 0 end = Q2Qc (2 # 51)) by (apply Qc_is_canon; vm_compute; reflexivity).
  rewrite E in Ev. exact Ev.
Qed.
