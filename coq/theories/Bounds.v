(** C17 -- small additions to the executable models, needed to state "no out-of-bounds outcome" for code sites that the
    other models do not cover, and the instantiation of every model switch with what the source contains today
    (PVgen.Gen_C17, regenerated from the C++ on every run by translator/gen_c17.py).

      operator==(Operator, Operator)                 src/pomerol/Operator.cpp:135-138
      DensityMatrix::getWeight(QuantumState)         src/pomerol/DensityMatrix.cpp:43-50
      DensityMatrixPart::getWeight(InnerQuantumState) src/pomerol/DensityMatrixPart.cpp:86-89   (Eigen vector, unchecked)

    Definitions only (model file); the proofs are in BoundsProofs.v. *)
Require Import Bool List Arith.
From PV Require Import Outcome Poly HPart Sparse GFPart SuscPart Index Chi Lattice EDSpec.
Require PVgen.Gen_C17.
Import ListNotations.

(** * Operator equality, both size tests switchable
    [maps_sized = false]: `std::equal(lhs.begin(), lhs.end(), rhs.begin())` without comparing the numbers of monomials first:
    a longer left operand makes std::equal read past rhs.end() ([entries_equal] reports that as OOB). *)
Section OperatorEq.
Variable K : Type.
Variable ksub : K -> K -> K.
Variable kzero : K -> bool.
Definition operator_eq (maps_sized sized : bool) (a b : poly K) : outcome bool :=
  if maps_sized then poly_eq K ksub kzero sized a b else entries_equal K ksub kzero sized a b.
(** the source as it is now *)
Definition operator_eq_source : poly K -> poly K -> outcome bool :=
  operator_eq PVgen.Gen_C17.operator_eq_sizes_maps PVgen.Gen_C17.operator_eq_sizes_monomials.
End OperatorEq.

(** * DensityMatrix::getWeight(QuantumState)
    [weights] = the vectors DensityMatrixPart::weights, one per block (DensityMatrix::prepare creates one part per block of the
    classification, DensityMatrixPart's constructor sizes weights by the block size). *)
Section DensityMatrix.
Variable fixed_bound : bool.
Variable K : Type.
Definition dm_getWeight (S : classification) (weights : list (list K)) (q : nat) : outcome K :=
  bind (getBlockNumber fixed_bound S q) (fun b =>                  (* S.getBlockNumber(state)   :46 *)
  bind (getInnerState_label fixed_bound S q) (fun inner =>         (* S.getInnerState(state)    :47 *)
    match nth_error weights b with                                 (* parts[BlockNumber]        :49 *)
    | None => OOB
    | Some w => match nth_error w inner with                       (* weights(s)   DensityMatrixPart.cpp:88 *)
                | Some x => Done x
                | None => OOB
                end
    end)).
End DensityMatrix.

(** * The models instantiated with the switches read off the source *)
Definition label_fb : bool := PVgen.Gen_C17.label_bound_checked.
Definition getBlockNumber_source := getBlockNumber label_fb.
Definition getInnerState_source := getInnerState_label label_fb.
Definition getEigenValue_source := getEigenValue label_fb.
Definition dm_getWeight_source := dm_getWeight label_fb.

Definition gf_part_walk_source {VA VB} := @part_walk VA VB PVgen.Gen_C17.gf_chase_guarded.
Definition susc_part_walk_source {VA VB} := @part_walk VA VB PVgen.Gen_C17.susc_chase_guarded.
Definition gf_part_compute_source (K : Type) (NO : numops K) := gf_part_compute K NO PVgen.Gen_C17.gf_chase_guarded.
Definition susc_part_compute_source (K : Type) (NO : numops K) := susc_part_compute K NO PVgen.Gen_C17.susc_chase_guarded.
Definition chaseIndices_source {VA VB} := @chaseIndices VA VB PVgen.Gen_C17.chaseIndices_guarded.
Definition chase_walk2_source {VA VB} := @walk2_outer VA VB PVgen.Gen_C17.chaseIndices_guarded.

Definition index_prepare_source := Index.prepare PVgen.Gen_C17.index_spin_major_skips.

Definition tpgf_compute_source (K : Type) (NO : numops K) :=
  gf_compute_gen K NO PVgen.Gen_C17.tpgf_sizes_table_first PVgen.Gen_C17.tpgf_guards_empty_reduce.

(** the Lattice model's configuration: getSite as the source has it; the preset shape check is C20's subject and stays a parameter *)
Definition lattice_cfg_source (shapecheck : bool) : config := mkConfig PVgen.Gen_C17.getsite_rejects_unknown shapecheck.

(** * Shape of the data the look-ups read (what DensityMatrix::prepare / Hamiltonian::prepare establish) *)
(** every label below 2^M is listed in some block (StatesClassification::compute pushes each label once) *)
Definition covers (S : classification) : Prop :=
  forall s, s < state_size S -> exists b states, nth_error (sc_states S) b = Some states /\ In s states.
(** one vector per block, as long as the block *)
Definition shaped {A B} (blocks : list (list A)) (vs : list (list B)) : Prop :=
  Forall2 (fun st v => length v = length st) blocks vs.
