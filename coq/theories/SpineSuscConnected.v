(** The CONNECTED susceptibility (Susceptibility::subtractDisconnected): the susceptibility spine composed with the
    ensemble-average spine.  With <A> = Tr(rho A), <B> = Tr(rho B) computed by the model of EnsembleAverage
    (SpineBridgeEA.spine_ea, Stage 3 of the spine), Susceptibility::operator()(z) with SubtractDisconnected returns
      EDSpec.susc(...) - beta <A><B>   where the zero test |z| < 1e-15 fires,   EDSpec.susc(...)   elsewhere,
    all three quantities being the full-Fock-space specifications on the assembled eigen-data.  Any partition with
    [partition_ok] / [op_ok]; corollary of SpineSuscPartition.spine_susc_partition, SpineBridgeEAProofs.spine_ea_partition and
    C14's subtract_only_at_zero. *)
Require Import Bool List Arith Lia Ring Ring_theory.
From PV Require Import Outcome Fock Poly PolySem EDSpec HPart HPartSpec HPartProofs Sparse TermList GFPart SuscPart SuscPartProofs
     Spine SpinePartition SpineBridgeEA SpineBridgeEAProofs SpineSusc SpineSuscPartition.
From PV Require Symm Thermal.
From PVgen Require Import Gen_C01.
Import ListNotations.

Theorem spine_susc_connected_partition (K : Type) (NO : numops K) (kinv : K -> K)
  (Kr : ring_theory (n0 K NO) (n1 K NO) (nadd K NO) (nmul K NO) (nsub K NO) (nopp K NO) (@eq K))
  (Kdiv : forall a b, ndiv K NO a b = nmul K NO a (kinv b))
  (conj0 : nconj K NO (n0 K NO) = n0 K NO)
  (fb : bool) (eps : K)
  (one_not_small : nre_ltb K NO (nabs K NO (n1 K NO)) eps = false)
  (mone_not_small : nre_ltb K NO (nabs K NO (nopp K NO (n1 K NO))) eps = false)
  (one_large : nre_ltb K NO eps (nabs K NO (n1 K NO)) = true)
  (mone_large : nre_ltb K NO eps (nabs K NO (nopp K NO (n1 K NO))) = true)
  (reference prec : K) (Hkeep : forall x, keep_entry K NO reference prec x = false -> x = n0 K NO)
  (T : tols K)
  (Hrel : forall R, susc_relevant K NO (t_matrix_element K T) R = false -> R = n0 K NO)
  (Hcmp : forall a b, susc_compare K NO (t_compare K T) a b = false -> susc_compare K NO (t_compare K T) b a = true)
  (S : classification) (ED : eigdata K) (a b c d : nat) (prsA prsB : list (nat * nat)) :
  partition_ok S -> eig_ok K S ED ->
  op_ok K NO fb eps S (FQuad a b) prsA -> op_ok K NO fb eps S (FQuad c d) prsB ->
  forall (fixed lenient : bool) (beta z : K) (parts : list ((nat * nat) * spart_out K)),
  spine_susc K NO fb eps reference prec T fixed lenient S ED beta a b c d = Done (WDone parts) ->
  exists D,
    spine_dm K NO beta S ED = Done D /\
    let Am := rotate K NO (state_size S) (assembled_U K NO S ED) (poly_matrix K NO (sc_M S) (p_n_offdiag K (n1 K NO) a b)) in
    let Bm := rotate K NO (state_size S) (assembled_U K NO S ED) (poly_matrix K NO (sc_M S) (p_n_offdiag K (n1 K NO) c d)) in
    let aveA := trace_rho K NO (assembled_w K D) Am in
    let aveB := trace_rho K NO (assembled_w K D) Bm in
    let full := susc K NO beta (t_resonance K T) (assembled_E K ED) (assembled_w K D) Am Bm z (z_is_zero K NO z) in
    spine_ea K NO fb eps reference prec S ED beta a b = Done aveA /\
    spine_ea K NO fb eps reference prec S ED beta c d = Done aveB /\
    susc_value K NO parts (Some (aveA, aveB)) beta z =
    if z_is_zero K NO z then nsub K NO full (nmul K NO (nmul K NO aveA aveB) beta) else full.
Proof.
  intros PO EO OA OB fixed lenient beta z parts H.
  destruct (spine_susc_partition K NO kinv Kr Kdiv conj0 fb eps one_not_small mone_not_small one_large mone_large reference prec Hkeep
              T Hrel Hcmp S ED a b c d prsA prsB PO EO OA OB fixed lenient beta z parts H) as [D [HD Hv]].
  exists D. split; [exact HD|]. cbv zeta. split; [|split].
  - exact (spine_ea_partition K NO Kr conj0 fb eps one_not_small mone_not_small one_large mone_large reference prec Hkeep
             S ED a b prsA PO EO OA beta D HD).
  - exact (spine_ea_partition K NO Kr conj0 fb eps one_not_small mone_not_small one_large mone_large reference prec Hkeep
             S ED c d prsB PO EO OB beta D HD).
  - rewrite (subtract_only_at_zero K NO). unfold spine_susc_value in Hv. rewrite Hv. reflexivity.
Qed.
