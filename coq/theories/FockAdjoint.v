(** The Jordan-Wigner matrices of c_i and c^+_i are transposes of each other (they are real, so:
    adjoints), at the level of the action on Fock states ([Fock.act_op], [Fock.act_mono], the model
    of Operator::actRight):

        c_i |t> = sg |s>    <->    c^+_i |s> = sg |t>

    and, for whole monomials, <t| m |s> = <s| m^+ |t> with m^+ the reversed monomial of the
    conjugated factors ((c^+_i c_j)^+ = c^+_j c_i).  Standard library only; no axioms.
    Used by C10 ([annihilation_is_adjoint]: the container's copy c := (c^+)^+). *)
Require Import Bool List Arith Lia.
From PV Require Import Outcome Fock Poly PolySem CAR.
Import ListNotations.

Lemma flip_type_involutive : forall o, flip_type (flip_type o) = o.
Proof. intros [ty i]. unfold flip_type; cbn [fst snd]. rewrite negb_involutive. reflexivity. Qed.

Lemma flip_type_idx : forall o, op_idx (flip_type o) = op_idx o.
Proof. intros [ty i]. reflexivity. Qed.

(** one operator: if o |t> = sg |s> then o^+ |s> = sg |t> *)
Lemma act_op_adjoint_fwd : forall o t sg s,
  act_op o t = Done (Some (sg, s)) -> act_op (flip_type o) s = Done (Some (sg, t)).
Proof.
  intros [ty i] t sg s. unfold act_op, flip_type, op_idx, op_ann; cbn [fst snd].
  destruct (i <? length t) eqn:Li; [|discriminate].
  destruct (eqb (nth i t false) (negb ty)) eqn:Eo; [discriminate|].
  intro H; inversion H; subst sg s; clear H.
  apply Nat.ltb_lt in Li.
  rewrite upd_length. assert (Li' : (i <? length t) = true) by (apply Nat.ltb_lt; exact Li). rewrite Li'.
  rewrite nth_upd_same by exact Li. rewrite negb_involutive.
  assert (Hne : eqb (negb ty) ty = false) by (destruct ty; reflexivity). rewrite Hne.
  rewrite par_upd_ge by lia. rewrite upd_upd_same.
  assert (Hbit : nth i t false = ty).
  { apply eqb_false_iff in Eo. destruct (nth i t false), ty; cbn [negb] in Eo; congruence. }
  rewrite <- Hbit at 1. rewrite upd_nth_id. reflexivity.
Qed.

Theorem act_op_adjoint : forall o t sg s,
  act_op o t = Done (Some (sg, s)) <-> act_op (flip_type o) s = Done (Some (sg, t)).
Proof.
  intros o t sg s. split; [apply act_op_adjoint_fwd|].
  intro H. apply act_op_adjoint_fwd in H. rewrite flip_type_involutive in H. exact H.
Qed.

(** the statement used for C10: c_i |t> = sg |s>  <->  c^+_i |s> = sg |t> *)
Corollary annihilate_create_adjoint : forall i t sg s,
  act_op (cann i) t = Done (Some (sg, s)) <-> act_op (cdag i) s = Done (Some (sg, t)).
Proof. intros i t sg s. apply (act_op_adjoint (cann i)). Qed.

(** monomials: m^+ = reversed list of the conjugated factors *)
Definition mono_adjoint (m : monomial) : monomial := rev (map flip_type m).

Lemma mono_adjoint_involutive : forall m, mono_adjoint (mono_adjoint m) = m.
Proof.
  intro m. unfold mono_adjoint. rewrite map_rev, rev_involutive, map_map.
  rewrite <- (map_id m) at 2. apply map_ext. apply flip_type_involutive.
Qed.

Lemma act_mono_adjoint_fwd : forall m s sg t,
  act_mono m s = Done (Some (sg, t)) -> act_mono (mono_adjoint m) t = Done (Some (sg, s)).
Proof.
  induction m as [|o m IH]; intros s sg t H.
  - cbn [act_mono] in H. inversion H; subst. reflexivity.
  - rewrite act_mono_cons in H. unfold act_then in H.
    destruct (act_mono m s) as [[[sg1 u]|]| | | |] eqn:Em; try discriminate.
    destruct (act_op o u) as [[[sg2 v]|]| | | |] eqn:Eo; try discriminate.
    inversion H; subst sg t; clear H.
    unfold mono_adjoint. cbn [map rev]. rewrite act_mono_app. unfold act_then.
    rewrite act_mono_single. rewrite (act_op_adjoint_fwd _ _ _ _ Eo).
    fold (mono_adjoint m). rewrite (IH _ _ _ Em). rewrite xorb_comm. reflexivity.
Qed.

Theorem act_mono_adjoint : forall m s sg t,
  act_mono m s = Done (Some (sg, t)) <-> act_mono (mono_adjoint m) t = Done (Some (sg, s)).
Proof.
  intros m s sg t. split; [apply act_mono_adjoint_fwd|].
  intro H. apply act_mono_adjoint_fwd in H. rewrite mono_adjoint_involutive in H. exact H.
Qed.

(** (c^+_i)^+ = c_i and (c^+_i c_j)^+ = c^+_j c_i *)
Example mono_adjoint_cdag : forall i, mono_adjoint [cdag i] = [cann i].
Proof. reflexivity. Qed.
Example mono_adjoint_quad : forall i j, mono_adjoint [cdag i; cann j] = [cdag j; cann i].
Proof. reflexivity. Qed.

(** the hypothesis is satisfiable with a non-trivial sign: c_1 |11> = -|01> (mode 0 occupied) and c^+_1 |01> = -|11> *)
Example adjoint_example :
  act_op (cann 1) [true; true] = Done (Some (true, [true; false])) /\
  act_op (cdag 1) [true; false] = Done (Some (true, [true; true])).
Proof. split; reflexivity. Qed.
