(** LehmannGenProofs.v -- the part of the tie that C01, C14 and C02 share: TermList::add_term.

    1. [gen_add_term_is_model]: the statement list generated from include/pomerol/TermList.h is the retry loop
       (PV.LehmannInterpProofs.model_add_term); hence the interpreted add_term of the source is [add_term_ref].
    2. PV.TermList.add_term (the model of C01 / C14) is the same retry loop with ghost events: the two agree on EVERY input,
       for ANY comparator, step for step ([add_term_ref_is_loop], [add_term_ref_is_termlist], [add_terms_ref_is_termlist]).
    3. PV.TermList.add_term_findform is the form the function had BEFORE the repair of the refused re-insertion (find,
       erase(key), insert).  It is related to the present form here, as a documented fact about the OLD form:
         - on a set that satisfies the invariant [sorted_sep] (strict partial order as comparator) they agree whenever at most
           one stored term is like the new one ([add_term_findform_agrees]); they DIFFER when the new pole is closer than the
           tolerance to two stored poles: find() returns the lower neighbour, the refused insert() the upper one
           ([add_term_forms_differ]). *)
Require Import Bool List Arith Lia.
From PV Require Import TermList TermListProofs LehmannShapes LehmannInterp LehmannInterpProofs.
From PVgen Require Import Gen_LehAddTerm Gen_LehTermListEval.
Import ListNotations.

Lemma gen_add_term_is_model : gen_add_term = model_add_term.
Proof. reflexivity. Qed.

Lemma gen_termlist_eval_is_model : gen_termlist_eval = mk_tl_eval true true AccPlus true /\ gen_termlist_arities = [1; 2; 3; 4].
Proof. split; reflexivity. Qed.

(** TermList::operator() of the source is the left fold of PV.TermList.eval / Chi.list_eval *)
Lemma termlist_eval_src_is_fold (T K : Type) (k0 : K) (kadd ksub : K -> K -> K) (f : T -> K) (l : list T) :
  termlist_eval_by T K k0 kadd ksub gen_termlist_eval f l = fold_left (fun acc t => kadd acc (f t)) l k0.
Proof. unfold termlist_eval_by. rewrite (proj1 gen_termlist_eval_is_model). reflexivity. Qed.

Lemma fold_left_map_l {A B C} (f : A -> B -> A) (h : C -> B) (l : list C) (a : A) :
  fold_left f (map h l) a = fold_left (fun acc c => f acc (h c)) l a.
Proof. revert a. induction l as [|c l IH]; intros a; [reflexivity|]. cbn [map fold_left]. apply IH. Qed.

Section Bridge.
Variables P C : Type.
Variable comp : P -> P -> bool.
Variable negl : C -> nat -> bool.
Variable cadd : C -> C -> C.
Notation term := (term P C).
Notation pole := (pole P C).
Notation residue := (residue P C).

(** the std::set instance of the interpreters for (Pole, Residue) terms *)
Definition tcomp (x y : term) : bool := comp (pole x) (pole y).
Definition tplus (x y : term) : term := (pole x, cadd (residue x) (residue y)).
Definition tnegl (x : term) (d : nat) : bool := negl (residue x) d.
Notation ref := (add_term_ref term tcomp tplus tnegl).

Lemma split_upper_is_scan (t : term) (l : list term) :
  split_upper term tcomp t l = scan P C (fun x => comp (pole t) (pole x)) l.
Proof.
  induction l as [|e r IH]; [reflexivity|].
  cbn [split_upper scan]. unfold tcomp at 1. destruct (comp (pole t) (pole e)); [reflexivity|].
  rewrite IH. destruct (scan P C (fun x => comp (pole t) (pole x)) r); reflexivity.
Qed.

(** the interpreted insert is std::set::insert of PV.TermList: same verdict, same blocking element, same sequences *)
Lemma insert_src_is_set_insert_res (t : term) (l : list term) :
  insert_src term tcomp t l =
  match set_insert_res P C comp t l with
  | Inserted l' => ((true, t, l), l')
  | Blocked b e a => ((false, e, b ++ a), l)
  end.
Proof.
  unfold insert_src, set_insert_res. rewrite split_upper_is_scan.
  pose proof (scan_app_eq P C (fun x => comp (pole t) (pole x)) l) as E.
  destruct (scan P C (fun x => comp (pole t) (pole x)) l) as [B A]. cbn [fst snd] in *.
  destruct (rev B) as [|j r] eqn:R.
  - assert (B = []) by (rewrite <- (rev_involutive B), R; reflexivity). subst B. cbn [app] in E. subst A. reflexivity.
  - unfold tcomp. destruct (comp (pole j) (pole t)); reflexivity.
Qed.

Lemma insert_src_is_set_insert (t : term) (l : list term) :
  snd (insert_src term tcomp t l) = fst (set_insert P C comp t l) /\
  fst (fst (fst (insert_src term tcomp t l))) = snd (set_insert P C comp t l).
Proof.
  rewrite insert_src_is_set_insert_res. unfold set_insert.
  destruct (set_insert_res P C comp t l); split; reflexivity.
Qed.

(** the loop of the source and the loop of the model, for every bound: same final sequence, and the source's loop is cut short
    exactly when the model says so *)
Definition fin_ok (f : final) : bool := match f with FinFuel => false | _ => true end.
Theorem add_term_ref_is_loop : forall (n : nat) (t : term) (l : list term),
  ref n t l = (fin_ok (snd (snd (add_term_loop P C comp negl cadd n t l))), fst (add_term_loop P C comp negl cadd n t l)).
Proof.
  induction n as [|n IH]; intros t l; cbn [add_term_ref add_term_loop]; rewrite insert_src_is_set_insert_res;
    destruct (set_insert_res P C comp t l) as [l'|b e a]; cbn [fst snd]; try reflexivity;
    change (tplus e t) with ((pole e, cadd (residue e) (residue t)) : term); unfold tnegl at 1;
    destruct (negl (residue (pole e, cadd (residue e) (residue t))) (length (b ++ a) + 1)); cbn [fst snd fin_ok]; try reflexivity.
  apply IH.
Qed.

(** with the bound of the source (the number of stored terms) neither is ever cut short: the source's add_term IS the model's,
    whatever the comparator and the stored sequence *)
Theorem add_term_ref_is_termlist (t : term) (l : list term) :
  ref (length l) t l = (true, fst (add_term P C comp negl cadd t l)).
Proof.
  rewrite add_term_ref_is_loop. unfold add_term. cbn [fst]. f_equal.
  pose proof (add_term_loop_fuel P C comp negl cadd (length l) t l (Nat.le_refl _)) as H.
  destruct (snd (snd (add_term_loop P C comp negl cadd (length l) t l))); try reflexivity. exfalso. apply H. reflexivity.
Qed.

Definition add_terms_ref (ts : list term) (l : list term) : list term :=
  fold_left (fun l t => snd (ref (length l) t l)) ts l.

Theorem add_terms_ref_is_termlist : forall (ts l : list term),
  add_terms_ref ts l = fst (add_terms P C comp negl cadd ts l).
Proof.
  induction ts as [|t ts IH]; intros l; [reflexivity|].
  unfold add_terms_ref. cbn [fold_left add_terms fst]. rewrite (add_term_ref_is_termlist t l). cbn [snd]. apply IH.
Qed.

(** * the former form of add_term (find / erase(key) / insert) against the present one *)
(** no like term, insertion not refused: both forms insert *)
Lemma ref_new (n : nat) (t : term) (l : list term) :
  set_find P C comp (pole t) l = None -> snd (set_insert P C comp t l) = true ->
  ref n t l = (true, add_term_findform P C comp negl cadd t l).
Proof.
  intros F I. unfold add_term_findform. rewrite F.
  destruct (insert_src_is_set_insert t l) as [E1 E2]. rewrite I in E2.
  destruct n; cbn [add_term_ref]; rewrite E2, E1; reflexivity.
Qed.

(** for a total comparator (tolerance 0, the exact form) the two forms agree always *)
Theorem add_term_findform_agrees_total :
  (forall a b, comp a b = false -> comp b a = true) ->
  forall (t : term) (l : list term), fst (add_term P C comp negl cadd t l) = add_term_findform P C comp negl cadd t l.
Proof.
  intros Ht t l. pose proof (add_term_ref_is_termlist t l) as E1.
  rewrite (ref_new (length l) t l (find_none_total P C comp Ht _ _) (insert_total P C comp Ht _ _)) in E1.
  injection E1 as E1. symmetry. exact E1.
Qed.

(** ** strict partial order *)
Hypothesis comp_irrefl : forall a, comp a a = false.
Hypothesis comp_trans : forall a b c, comp a b = true -> comp b c = true -> comp a c = true.

Definition like (k : P) (x : term) : bool := negb (comp (pole x) k) && negb (comp k (pole x)).
(** at most one stored term is like the new one *)
Definition unambiguous1 (t : term) (l : list term) : bool := length (filter (like (pole t)) l) <=? 1.

Lemma filter_nil_all {A} (f : A -> bool) (l : list A) : filter f l = [] -> forall x, In x l -> f x = false.
Proof.
  induction l as [|y l IH]; intros E x []; cbn [filter] in E; destruct (f y) eqn:Ey; try discriminate.
  - subst x. exact Ey.
  - apply IH; assumption.
Qed.

Lemma insert_src_at (t : term) (B A : list term) :
  all_lt P C comp B (pole t) -> all_gt P C comp (pole t) A ->
  insert_src term tcomp t (B ++ A) = ((true, t, B ++ A), B ++ t :: A).
Proof.
  intros HB HA. unfold insert_src. rewrite split_upper_is_scan. rewrite (scan_at P C _ B A).
  - destruct (rev B) as [|j r] eqn:R.
    + assert (B = []) by (rewrite <- (rev_involutive B), R; reflexivity). subst B. reflexivity.
    + assert (Hj : In j B) by (apply in_rev; rewrite R; left; reflexivity).
      unfold tcomp. rewrite (HB j Hj). reflexivity.
  - intros x Hx. apply (comp_asym P comp comp_irrefl comp_trans). apply HB. exact Hx.
  - destruct A as [|y A]; [exact I|]. cbn [head_true]. apply HA. left. reflexivity.
Qed.

Lemma add_term_ref_is_findform (t : term) (l : list term) :
  sorted_sep P C comp l -> unambiguous1 t l = true ->
  ref (length l) t l = (true, add_term_findform P C comp negl cadd t l).
Proof.
  intros Hs Hu. pose proof (find_split P C comp comp_trans (pole t) l Hs) as F.
  destruct (set_find P C comp (pole t) l) as [x|] eqn:Ef.
  - destruct F as [B [A [E [HB [H1 H2]]]]]. subst l.
    destruct (sorted_sep_app_inv P C comp comp_trans _ _ Hs) as [_ [HsA Hc]].
    destruct (sorted_sep_cons_inv P C comp comp_trans _ _ HsA) as [_ Hg].
    (* every term above x is above the new pole: it is not like it (uniqueness), and it cannot be below *)
    assert (HA : all_gt P C comp (pole t) A).
    { unfold unambiguous1 in Hu. apply Nat.leb_le in Hu.
      rewrite filter_app in Hu. cbn [filter] in Hu.
      assert (Lx : like (pole t) x = true) by (unfold like; rewrite H1, H2; reflexivity).
      rewrite Lx in Hu. rewrite app_length in Hu. cbn [length] in Hu.
      assert (FA : filter (like (pole t)) A = []) by (destruct (filter (like (pole t)) A); [reflexivity|cbn [length] in Hu; lia]).
      intros y Hy. pose proof (filter_nil_all _ _ FA y Hy) as Ly. unfold like in Ly.
      destruct (comp (pole t) (pole y)) eqn:E1; [reflexivity|].
      destruct (comp (pole y) (pole t)) eqn:E2; [|discriminate Ly].
      pose proof (comp_trans _ _ _ (Hg y Hy) E2) as X. rewrite H1 in X. discriminate X. }
    (* the old form *)
    unfold add_term_findform. rewrite Ef. rewrite (erase_at P C comp comp_irrefl comp_trans x B A Hs). cbn [fst snd].
    (* the new form: blocked by x *)
    assert (Hins : insert_src term tcomp t (B ++ x :: A) = ((false, x, B ++ A), B ++ x :: A)).
    { unfold insert_src. rewrite split_upper_is_scan.
      change (B ++ x :: A) with (B ++ [x] ++ A). rewrite app_assoc. rewrite (scan_at P C _ (B ++ [x]) A).
      - rewrite rev_app_distr. cbn [rev app]. unfold tcomp. rewrite H1. rewrite rev_involutive. rewrite <- app_assoc. reflexivity.
      - intros y Hy. apply in_app_or in Hy. destruct Hy as [Hy|[<-|[]]]; [|exact H2].
        apply (comp_asym P comp comp_irrefl comp_trans). apply HB. exact Hy.
      - destruct A as [|y A']; [exact I|]. cbn [head_true]. apply HA. left. reflexivity. }
    rewrite app_length. cbn [length]. rewrite Nat.add_succ_r. cbn [add_term_ref]. rewrite Hins. cbn [fst snd].
    change (tplus x t) with ((pole x, cadd (residue x) (residue t)) : term).
    unfold tnegl at 1. rewrite Nat.add_1_r. rewrite <- app_length. cbn [fst snd].
    destruct (negl (residue (pole x, cadd (residue x) (residue t))) (S (length (B ++ A)))); [reflexivity|].
    assert (HB' : all_lt P C comp B (pole x)) by (intros z Hz; apply Hc; [exact Hz|left; reflexivity]).
    rewrite (insert_at P C comp comp_irrefl comp_trans (pole x, cadd (residue x) (residue t)) B A HB' Hg). cbn [fst].
    pose proof (insert_src_at (pole x, cadd (residue x) (residue t)) B A HB' Hg) as I2.
    generalize (length (B ++ A)). intros n. destruct n; cbn [add_term_ref]; rewrite I2; reflexivity.
  - destruct F as [B [A [E [HB HA]]]]. subst l. apply ref_new; [exact Ef|].
    rewrite (insert_at P C comp comp_irrefl comp_trans t B A HB HA). reflexivity.
Qed.

(** the present form (the model, = the source) and the former form agree whenever at most one stored term is like the new one *)
Theorem add_term_findform_agrees (t : term) (l : list term) :
  sorted_sep P C comp l -> unambiguous1 t l = true ->
  fst (add_term P C comp negl cadd t l) = add_term_findform P C comp negl cadd t l.
Proof.
  intros Hs Hu. pose proof (add_term_ref_is_termlist t l) as E1. rewrite (add_term_ref_is_findform t l Hs Hu) in E1.
  injection E1 as E1. symmetry. exact E1.
Qed.
End Bridge.

(** the two forms of add_term are different functions: poles 0 and 15 stored, tolerance 10, new pole 8 (closer than the
    tolerance to both): find() returns the term at 0 (the OLD form merges into it), the refused insert() points to the term
    at 15 (the source and the model merge into that one) *)
Definition ncomp (x y : nat) : bool := x + 10 <=? y.
Example add_term_forms_differ :
  let l := [(0, 1); (15, 1)] in
  let t := (8, 1) in
  sorted_sep nat nat ncomp l /\
  add_term_findform nat nat ncomp (fun _ _ => false) Nat.add t l = [(0, 2); (15, 1)] /\
  add_term_ref (nat * nat) (tcomp nat nat ncomp) (tplus nat nat Nat.add) (tnegl nat nat (fun _ _ => false)) (length l) t l
    = (true, [(0, 1); (15, 2)]) /\
  add_term nat nat ncomp (fun _ _ => false) Nat.add t l = ([(0, 1); (15, 2)], EvChain [((15, 1), (15, 2))] FinInserted) /\
  unambiguous1 nat nat ncomp t l = false.
Proof. cbv. repeat split. Qed.

(** the hypotheses of [add_term_findform_agrees] are satisfiable: same set, new pole 3 (like the pole 0 only): both forms merge into 0 *)
Example add_term_forms_agree :
  let l := [(0, 1); (15, 1)] in
  let t := (3, 1) in
  sorted_sep nat nat ncomp l /\ unambiguous1 nat nat ncomp t l = true /\
  (forall a, ncomp a a = false) /\ (forall a b c, ncomp a b = true -> ncomp b c = true -> ncomp a c = true) /\
  fst (add_term nat nat ncomp (fun _ _ => false) Nat.add t l) = add_term_findform nat nat ncomp (fun _ _ => false) Nat.add t l /\
  add_term_findform nat nat ncomp (fun _ _ => false) Nat.add t l = [(0, 2); (15, 1)].
Proof.
  split; [cbv; repeat split|]. split; [reflexivity|].
  split; [intros a; unfold ncomp; apply Nat.leb_gt; lia|].
  split; [intros a b c; unfold ncomp; rewrite !Nat.leb_le; lia|].
  split; reflexivity.
Qed.
