(** C18, observables -- vocabulary for "H' = P H P^{-1} with P a signed permutation matrix", on the
    list-of-rows matrices of the executable specification PV.EDSpec.

    A signed permutation of the basis 0..dim-1 is given by [sperm]: P |s> = (-1)^(sp_sg s) |sp_fwd s>,
    with [sp_inv] the inverse of [sp_fwd] on 0..dim-1 ([sperm_ok]).
      [Pmat Q]      the matrix of P:            P[r][c] = (-1)^(sg c) if r = fwd c, else 0;
      [prow Q U]    P U   (rows permuted and signed):   (P U)[r][j] = (-1)^(sg (inv r)) U[inv r][j];
      [pconj Q H]   P H P^T:   (P H P^T)[r][c] = (-1)^(sg (inv r) + sg (inv c)) H[inv r][inv c].
    PV.IndexObsProofs proves  prow Q U = mmul P U,  pconj Q H = mmul (mmul P H) P^T  and  P^T P = 1.

    [fock_sperm M pi] is the signed permutation U_pi of the 2^M Fock states (numbered as in
    EDSpec: state label = sum of 2^i over the occupied modes i) induced by the index permutation pi:
    the label-level form of PV.IndexPerm.fock_perm / fock_sign.

    Definitions only; proofs in PV.IndexObsProofs. *)
Require Import Bool List Arith.
From PV Require Import Outcome Fock Poly EDSpec IndexSem IndexPerm.
Import ListNotations.

Record sperm := mkSperm { sp_dim : nat; sp_fwd : nat -> nat; sp_inv : nat -> nat; sp_sg : nat -> bool }.

Definition sperm_ok (Q : sperm) : Prop :=
  forall s, s < sp_dim Q ->
    sp_fwd Q s < sp_dim Q /\ sp_inv Q s < sp_dim Q /\ sp_inv Q (sp_fwd Q s) = s /\ sp_fwd Q (sp_inv Q s) = s.

Definition fock_sperm (M : nat) (pi : nat -> nat) : sperm :=
  {| sp_dim := Nat.pow 2 M;
     sp_fwd := fun s => nat_of_state (fock_perm M pi (state_of_nat M s));
     sp_inv := fun s => nat_of_state (state_perm (rev (adj_decomp M pi)) (state_of_nat M s));
     sp_sg := fun s => fock_sign M pi (state_of_nat M s) |}.

Section Defs.
Variable K : Type.
Variable NO : numops K.

(** multiplication by (-1)^b *)
Definition sgnK (b : bool) (x : K) : K := if b then nopp K NO x else x.

(** dim x dim *)
Definition wfm (dim : nat) (A : mat K) : Prop := length A = dim /\ Forall (fun r => length r = dim) A.

Definition Pmat (Q : sperm) : mat K :=
  map (fun r => map (fun c => if Nat.eqb (sp_inv Q r) c then sgnK (sp_sg Q c) (n1 K NO) else n0 K NO)
                    (seq 0 (sp_dim Q)))
      (seq 0 (sp_dim Q)).

Definition prow (Q : sperm) (U : mat K) : mat K :=
  map (fun r => map (sgnK (sp_sg Q (sp_inv Q r))) (nth (sp_inv Q r) U [])) (seq 0 (sp_dim Q)).

Definition pconj (Q : sperm) (H : mat K) : mat K :=
  map (fun r => map (fun c => sgnK (xorb (sp_sg Q (sp_inv Q r)) (sp_sg Q (sp_inv Q c)))
                                   (mget K NO H (sp_inv Q r) (sp_inv Q c)))
                    (seq 0 (sp_dim Q)))
      (seq 0 (sp_dim Q)).

Definition identity_matrix (dim : nat) : mat K :=
  map (fun r => map (fun c => if Nat.eqb r c then n1 K NO else n0 K NO) (seq 0 dim)) (seq 0 dim).

(** (E, U) is an exact eigen-system of H:  H U = U diag(E), entry by entry *)
Definition eigen_system (dim : nat) (H U : mat K) (E : vec K) : Prop :=
  forall i j, i < dim -> j < dim ->
    mget K NO (mmul K NO dim H U) i j = nmul K NO (mget K NO U i j) (nth j E (n0 K NO)).

(** c^+_i c_j in the eigenbasis, as the oracle driver builds it (ocaml/driver_ed.ml, [quad]) *)
Definition quad (M : nat) (U : mat K) (i j : nat) : mat K :=
  let dim := Nat.pow 2 M in
  mmul K NO dim (rotate K NO dim U (op_matrix K NO M (cdag i))) (rotate K NO dim U (op_matrix K NO M (cann j))).

End Defs.
