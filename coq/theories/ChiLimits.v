(** C02: the resonant coefficients of TwoParticleGFPart::addMultiterm are the limits of the non-resonant expressions.

    For z1 + z2 = 0 the non-resonant contribution  CoeffZ1Z2NonRes / (z1 + z2 - P1 - P2)  of a multiterm with
    E_k = E_i + x, w_k = w_i e^{-beta x} (Gibbs weights) tends to  CoeffZ1Z2Res = Coeff beta w_i  as the level
    difference x -> 0; likewise  CoeffZ2Z3NonRes / (z2 + z3 - P2 - P3) -> CoeffZ2Z3Res = - Coeff beta w_j  for
    z2 + z3 = 0, E_l = E_j + x, w_l = w_j e^{-beta x}.  This pins the signs (and the factor beta) of the resonant
    coefficients to the non-resonant ones; the expressions are the GENERATED ones (PVgen.Gen_Multiterm), at R.

    Axioms: the classical axioms of the standard library's real numbers (Coquelicot). *)
Require Import Reals Lra.
From Coquelicot Require Import Coquelicot.
From PVgen Require Import Gen_Multiterm.
Local Open Scope R_scope.

Section Limits.
Variables (abs_gt abs_lt real_ge : R -> R -> bool).
Notation GR f := (f R Rplus Rminus Rmult Rdiv Ropp abs_gt abs_lt real_ge) (only parsing).

(** (1 - e^{-beta x}) / x -> beta *)
Lemma lim_one_minus_exp (beta : R) : beta <> 0 -> is_lim (fun x => (1 - exp (- (beta * x))) / x) 0 beta.
Proof.
  intros Hb.
  apply is_lim_ext_loc with (fun x => beta * ((exp (- beta * x + 0) - 1) / (- beta * x + 0))).
  - exists (mkposreal 1 Rlt_0_1). intros y _ Hy.
    replace (- beta * y + 0) with (- (beta * y)) by ring.
    field. split; [exact Hy|exact Hb].
  - replace (Finite beta) with (Rbar_mult beta (Finite 1)) by (cbn; f_equal; ring).
    apply is_lim_scal_l.
    apply (is_lim_comp_lin (fun u => (exp u - 1) / u) (- beta) 0 0 1).
    + replace (Rbar_plus (Rbar_mult (- beta) 0) 0) with (Finite 0) by (cbn; f_equal; ring).
      exact is_lim_div_expm1_0.
    + lra.
Qed.

(** z1 + z2 = 0 (z2 = - z1), E_k = E_i + x, w_k = w_i e^{-beta x} *)
Theorem resonant_is_limit_12 (tol C beta Ei Ej El wi wj wl z1 z3 : R) : beta <> 0 ->
  is_lim (fun x =>
            GR mt_CoeffZ1Z2NonRes tol C beta Ei Ej (Ei + x) El wi wj (wi * exp (- (beta * x))) wl /
            GR res_diff_z1z2 (GR mt_P1 tol C beta Ei Ej (Ei + x) El wi wj (wi * exp (- (beta * x))) wl)
                             (GR mt_P2 tol C beta Ei Ej (Ei + x) El wi wj (wi * exp (- (beta * x))) wl)
                             (GR mt_P3 tol C beta Ei Ej (Ei + x) El wi wj (wi * exp (- (beta * x))) wl)
                             z1 (- z1) z3)
         0
         (GR mt_CoeffZ1Z2Res tol C beta Ei Ej Ei El wi wj wi wl).
Proof.
  intros Hb. unfold mt_CoeffZ1Z2NonRes, mt_CoeffZ1Z2Res, res_diff_z1z2, mt_P1, mt_P2, mt_P3. cbv zeta.
  apply is_lim_ext_loc with (fun x => (C * wi) * ((1 - exp (- (beta * x))) / x)).
  - exists (mkposreal 1 Rlt_0_1). intros y _ Hy. field. split.
    + intro HH. apply Hy. lra.
    + exact Hy.
  - replace (Finite (C * beta * wi)) with (Rbar_mult (C * wi) (Finite beta)) by (cbn; f_equal; ring).
    apply is_lim_scal_l. apply lim_one_minus_exp. exact Hb.
Qed.

(** z2 + z3 = 0 (z3 = - z2), E_l = E_j + x, w_l = w_j e^{-beta x} *)
Theorem resonant_is_limit_23 (tol C beta Ei Ej Ek wi wj wk z1 z2 : R) : beta <> 0 ->
  is_lim (fun x =>
            GR mt_CoeffZ2Z3NonRes tol C beta Ei Ej Ek (Ej + x) wi wj wk (wj * exp (- (beta * x))) /
            GR res_diff_z2z3 (GR mt_P1 tol C beta Ei Ej Ek (Ej + x) wi wj wk (wj * exp (- (beta * x))))
                             (GR mt_P2 tol C beta Ei Ej Ek (Ej + x) wi wj wk (wj * exp (- (beta * x))))
                             (GR mt_P3 tol C beta Ei Ej Ek (Ej + x) wi wj wk (wj * exp (- (beta * x))))
                             z1 z2 (- z2))
         0
         (GR mt_CoeffZ2Z3Res tol C beta Ei Ej Ek Ej wi wj wk wj).
Proof.
  intros Hb. unfold mt_CoeffZ2Z3NonRes, mt_CoeffZ2Z3Res, res_diff_z2z3, mt_P1, mt_P2, mt_P3. cbv zeta.
  apply is_lim_ext_loc with (fun x => (- (C * wj)) * ((1 - exp (- (beta * x))) / x)).
  - exists (mkposreal 1 Rlt_0_1). intros y _ Hy. field. split.
    + intro HH. apply Hy. lra.
    + exact Hy.
  - replace (Finite (- C * beta * wj)) with (Rbar_mult (- (C * wj)) (Finite beta)) by (cbn; f_equal; ring).
    apply is_lim_scal_l. apply lim_one_minus_exp. exact Hb.
Qed.

End Limits.

(** the hypothesis is satisfiable (beta = 4) and the limit is the non-trivial value C beta w_i *)
Example resonant_is_limit_12_example :
  is_lim (fun x => (2 * (/ 4 * exp (- (4 * x)) - / 4)) / (1 + - 1 - (3 - 1) - (1 + x - 3))) 0 (2 * 4 * / 4).
Proof.
  exact (resonant_is_limit_12 (fun _ _ => true) (fun _ _ => true) (fun _ _ => true) 0 2 4 1 3 5 (/ 4) (/ 8) (/ 16) 1 7 ltac:(lra)).
Qed.
