(** ThermalShapes.v -- vocabulary of the generated prepare() fragments (imported by coq/gen/Gen_Retain*.v; C19, C09).

    translator/gen_thermal.py executes the body of the stripe loop of GreensFunction::prepare, Susceptibility::prepare and
    EnsembleAverage::prepare symbolically, statement by statement (if / else, the part-creating statement, ++iterator,
    break / continue / return, assignments to bool locals), and writes down what ONE iteration does as a [walk_step].
    PV.ThermalGen iterates that step; PV.ThermalGenProofs proves that the step of the source is the step of the model
    (no exit, no state, one part per retained stripe, the constructor arguments) -- a closed computation that stops
    checking when the loop body says something else, e.g. when a `break` is added.

    Definitions only. *)
Require Import List.

(** which accessor hands a constructor argument out; the block it is asked for comes with it *)
Definition acc_left_from_left : nat := 0.     (* <left operator>.getPartFromLeftIndex(b)   (C / A)  *)
Definition acc_right_from_right : nat := 1.   (* <right operator>.getPartFromRightIndex(b) (CX / B) *)
Definition acc_H : nat := 2.                  (* H.getPart(b)  *)
Definition acc_DM : nat := 3.                 (* DM.getPart(b) *)
Definition acc_left_from_right : nat := 4.    (* <left operator>.getPartFromRightIndex(b)  *)
Definition acc_right_from_left : nat := 5.    (* <right operator>.getPartFromLeftIndex(b)  *)

Record walk_step := mk_walk_step {
  ws_push : bool;                 (* the part-creating statement is executed in this iteration *)
  ws_part : list (nat * nat);     (* its constructor arguments in source order: (accessor, block) *)
  ws_adv_left : bool;             (* ++<iterator over .left> is executed   (false in a for loop: the header advances) *)
  ws_adv_right : bool;            (* ++<iterator over .right> is executed *)
  ws_exit : bool;                 (* the loop is left in this iteration: break / return *)
  ws_flags : list bool            (* the bool locals declared in front of the loop, after this iteration *)
}.

(** block of the k-th constructor argument *)
Definition part_block (k : nat) (part : list (nat * nat)) : nat := snd (nth k part (0, 0)).
