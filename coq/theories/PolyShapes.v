(** PolyShapes.v -- the vocabulary in which translator/gen_operator.py describes the CONTROL STRUCTURE of Pomerol::Operator
    (property C05): the insert-or-accumulate idiom of the monomial map, the body of the bubble-sort loop of
    Operator::normalize_and_insert, the body of the loop of Operator::actRight(monomial, ket), the operands of the loops of
    operator*=.

    The generated files coq/gen/Gen_Op*.v say, in these terms, what the source text of the tree under test does, statement by
    statement; PV.PolyGen interprets the descriptions (the [..._src] functions) and PV.PolyGenProofs proves that the description
    of THIS tree is the one the hand-written model PV.Poly / PV.Fock follows.

    Hand-written; nothing here computes. *)
Require Import List.

(** * std::map insert-or-accumulate:
      boost::tie(it, is_new) = map.insert(make_pair(key, V));  if (!is_new) { it->second OP= c; [erase_zero_monomial(map, it);] } *)
Inductive ins_value : Set :=
| InsCoeff                      (* V = c *)
| InsNegCoeff.                  (* V = -c *)
Inductive ins_update : Set :=
| InsPlus                       (* it->second += c *)
| InsMinus                      (* it->second -= c *)
| InsKeep.                      (* no update of an entry already there *)
Record ins_shape : Set := mk_ins { ins_new : ins_value; ins_upd : ins_update; ins_erase : bool }.

(** * Operator::normalize_and_insert(m, coeff, target)
    A position of the monomial m is a function of (n, m.size()), n the variable of the for loop. *)
Inductive nrm_operand : Type :=
| OpdAt (pos : nat -> nat -> nat)          (* m[pos] -- a reference `composite_index_t& x = m[pos]` or a by-value copy of one *)
| OpdFlipped (o : nrm_operand).            (* a copy of o with boost::get<create_annihilate> replaced by op_type(!bool(..)) *)
Inductive nrm_cond : Type :=
| NcEq (a b : nrm_operand) | NcNe (a b : nrm_operand)
| NcLt (a b : nrm_operand) | NcGt (a b : nrm_operand) | NcLe (a b : nrm_operand) | NcGe (a b : nrm_operand)
| NcNot (c : nrm_cond) | NcAnd (c d : nrm_cond) | NcOr (c d : nrm_cond).
Inductive nrm_stmt : Type :=
| NsIf (c : nrm_cond) (then_ else_ : list nrm_stmt)
| NsReturn                                 (* return; *)
| NsContinue
| NsBreak
| NsScratchNew                             (* monomial_t S; [S.reserve(..);]  -- the scratch monomial, empty *)
| NsScratchCopy (from to : nat -> nat -> nat)   (* std::copy(m.begin() + from, m.begin() + to, std::back_inserter(S)) *)
| NsRecurse                                (* normalize_and_insert(S, coeff, target) *)
| NsNegate                                 (* coeff = -coeff *)
| NsSwap (a b : nat -> nat -> nat)         (* std::swap(m[a], m[b]) *)
| NsSetSwapped (b : bool).                 (* is_swapped = b *)

(** * Operator::actRight(monomial, ket): the body of the loop over the operators (op, ind) = in[i] *)
Inductive act_pos : Set :=
| ApPrev                                   (* the ParticleIndex local (prev_pos_) *)
| ApInd                                    (* ind *)
| ApConst (k : nat).
Inductive act_bexp : Set :=
| AbIsCreation                             (* op == creation *)
| AbIsAnnihilation                         (* op == annihilation *)
| AbBit (p : act_pos)                      (* bra[p] *)
| AbNot (a : act_bexp) | AbAnd (a b : act_bexp) | AbOr (a b : act_bexp)       (* && and || short-circuit *)
| AbPosLt (a b : act_pos) | AbPosLe (a b : act_pos) | AbPosEq (a b : act_pos).
(** int locals (initialised to 1, holding +1 / -1) are numbered in declaration order *)
Inductive act_stmt : Set :=
| AsIf (c : act_bexp) (then_ else_ : list act_stmt)
| AsReturnZero                             (* return boost::make_tuple(ERROR_FOCK_STATE, 0) *)
| AsScanUp (v : nat) (from to : act_pos)   (* for (j = from; j < to; ++j) if (bra[j]) v *= -1; *)
| AsScanDown (v : nat) (from to : act_pos) (* for (j = from; j > to; j--) if (bra[j]) v *= -1; *)
| AsSetBit (p : act_pos) (b : act_bexp)    (* bra[p] = b *)
| AsMulVar (v w : nat)                     (* v *= w *)
| AsFlip (v : nat)                         (* v *= -1 *)
| AsSetPrev (p : act_pos).                 (* prev_pos_ = p *)

(** * operator*=(Operator const& op): what a BOOST_FOREACH runs over *)
Inductive mul_operand : Set := MoThis | MoRhs.
