(** C18, operator level -- every permutation of 0..N-1 is a product of adjacent transpositions, and
    the UNCONDITIONAL forms of PV.IndexSem.sem_permute_monomial_partial / sem_permute_poly_partial:

      [adj_decomp_spec]        for every pi that maps 0..N-1 injectively into itself, the word
                               [adj_decomp N pi] uses only positions k with k+1 < N and its product
                               [perm_of] equals pi on 0..N-1;
      [sem_permute_monomial]   U_pi m U_pi^{-1} = pi(m) on basis states, for EVERY [perm_on N pi];
      [sem_permute_poly]       <U_pi t| pi(P) |U_pi s> = <t| P |s> for every polynomial over a commutative ring;
      [index_perm_perm_on]     the pi of the relabelling / re-ordering / mode-switch theorem is [perm_on];
      [sem_permute_poly_relabel]  the two combined: the statement about IndexClassification tables;
      [fock_perm_nth], [fock_sign_inversions]  word-independent description of U_pi.

    No axioms. *)
Require Import Bool List Arith Lia Permutation Ring_theory.
From PV Require Import Outcome Fock Poly PolySem Index IndexProofs IndexSem IndexPerm.
Import ListNotations.

(** * Words of adjacent transpositions *)

Lemma perm_of_app (a b : list nat) (j : nat) : perm_of (a ++ b) j = perm_of a (perm_of b j).
Proof. induction a as [|x a IH]; [reflexivity|]. cbn [app perm_of]. rewrite IH. reflexivity. Qed.

Lemma perm_of_inverse_r (ks : list nat) (i : nat) : perm_of ks (perm_of (rev ks) i) = i.
Proof. rewrite <- (rev_involutive ks) at 1. apply perm_of_inverse. Qed.

Lemma tau_bound (N k i : nat) : S k < N -> i < N -> tau k i < N.
Proof.
  intros Hk Hi. unfold tau. destruct (Nat.eqb_spec i k); [lia|]. destruct (Nat.eqb_spec i (S k)); lia.
Qed.

Lemma tau_fix (k i : nat) : S k < i -> tau k i = i.
Proof.
  intros H. unfold tau. destruct (Nat.eqb_spec i k); [lia|]. destruct (Nat.eqb_spec i (S k)); [lia|reflexivity].
Qed.

Lemma perm_of_bound (N : nat) (ks : list nat) (i : nat) :
  (forall k, In k ks -> S k < N) -> i < N -> perm_of ks i < N.
Proof.
  intros Hk Hi. induction ks as [|k r IH]; [exact Hi|]. cbn [perm_of].
  apply tau_bound; [apply Hk; left; reflexivity|]. apply IH. intros k' Hk'. apply Hk. right. exact Hk'.
Qed.

Lemma perm_of_fix (N : nat) (ks : list nat) (i : nat) :
  (forall k, In k ks -> S k < N) -> N <= i -> perm_of ks i = i.
Proof.
  intros Hk Hi. induction ks as [|k r IH]; [reflexivity|]. cbn [perm_of].
  rewrite IH by (intros k' Hk'; apply Hk; right; exact Hk').
  apply tau_fix. specialize (Hk k (or_introl eq_refl)). lia.
Qed.

Lemma perm_of_rev_seq (a d : nat) : perm_of (rev (seq a d)) a = a + d.
Proof.
  induction d as [|d IH]; [cbn; lia|].
  rewrite seq_S, rev_app_distr. cbn [rev app perm_of]. rewrite IH.
  unfold tau. rewrite Nat.eqb_refl. lia.
Qed.

(** the main combinatorial fact: insertion sort into adjacent transpositions *)
Theorem adj_decomp_spec : forall (N : nat) (pi : nat -> nat),
  (forall i, i < N -> pi i < N) ->
  (forall i j, i < N -> j < N -> pi i = pi j -> i = j) ->
  (forall k, In k (adj_decomp N pi) -> S k < N) /\
  (forall i, i < N -> perm_of (adj_decomp N pi) i = pi i).
Proof.
  induction N as [|n IH]; intros pi Hb Hinj.
  - split; [intros k []|intros i Hi; lia].
  - cbn [adj_decomp]. set (a := pi n). set (cs := seq a (n - a)).
    set (rho := fun i => perm_of (rev cs) (pi i)).
    assert (Ha : a <= n) by (specialize (Hb n ltac:(lia)); unfold a; lia).
    assert (Hcs : forall k, In k cs -> S k < S n).
    { intros k Hk. unfold cs in Hk. apply in_seq in Hk. lia. }
    assert (Hcsr : forall k, In k (rev cs) -> S k < S n).
    { intros k Hk. apply Hcs. apply in_rev. exact Hk. }
    assert (Hback : forall i, perm_of cs (rho i) = pi i).
    { intros i. unfold rho. apply perm_of_inverse_r. }
    assert (Hrn : rho n = n).
    { unfold rho. fold a. unfold cs. rewrite perm_of_rev_seq. lia. }
    assert (Hrinj : forall i j, i < S n -> j < S n -> rho i = rho j -> i = j).
    { intros i j Hi Hj E. apply Hinj; [exact Hi|exact Hj|]. rewrite <- (Hback i), <- (Hback j), E. reflexivity. }
    assert (Hrb : forall i, i < n -> rho i < n).
    { intros i Hi.
      assert (H1 : rho i < S n) by (unfold rho; apply perm_of_bound; [exact Hcsr|apply Hb; lia]).
      assert (H2 : rho i <> n).
      { intros E. assert (i = n) by (apply Hrinj; [lia|lia|rewrite Hrn; exact E]). lia. }
      lia. }
    destruct (IH rho Hrb (fun i j Hi Hj => Hrinj i j ltac:(lia) ltac:(lia))) as [IHk IHp].
    split.
    + intros k Hk. apply in_app_or in Hk. destruct Hk as [Hk|Hk]; [apply Hcs; exact Hk|].
      specialize (IHk k Hk). lia.
    + intros i Hi. rewrite perm_of_app.
      destruct (Nat.eq_dec i n) as [->|Hne].
      * rewrite (perm_of_fix n _ n IHk (Nat.le_refl n)). rewrite <- Hrn at 1. apply Hback.
      * rewrite IHp by lia. apply Hback.
Qed.

Lemma adj_decomp_valid (N : nat) (pi : nat -> nat) :
  perm_on N pi -> forall k, In k (adj_decomp N pi) -> S k < N.
Proof. intros [Hb [Hi _]]. exact (proj1 (adj_decomp_spec N pi Hb Hi)). Qed.

Lemma adj_decomp_perm (N : nat) (pi : nat -> nat) :
  perm_on N pi -> forall i, i < N -> perm_of (adj_decomp N pi) i = pi i.
Proof. intros [Hb [Hi _]]. exact (proj2 (adj_decomp_spec N pi Hb Hi)). Qed.

(** the statement in the form asked for: existence of a word *)
Theorem perm_is_product_of_adjacent_transpositions : forall (N : nat) (pi : nat -> nat),
  (forall i, i < N -> pi i < N) ->
  (forall i j, i < N -> j < N -> pi i = pi j -> i = j) ->
  exists ks, (forall k, In k ks -> S k < N) /\ (forall i, i < N -> perm_of ks i = pi i).
Proof. intros N pi Hb Hi. exists (adj_decomp N pi). apply adj_decomp_spec; assumption. Qed.

(** * The permuted state, word-independent *)

Lemma nth_swap_at (d : bool) : forall (k : nat) (s : state) (i : nat),
  S k < length s -> nth i (swap_at k s) d = nth (tau k i) s d.
Proof.
  induction k as [|k IH]; intros s i Hlen.
  - destruct s as [|a [|b r]]; cbn [length] in Hlen; try lia. cbn [swap_at].
    destruct i as [|[|i]]; reflexivity.
  - destruct s as [|h t]; cbn [length] in Hlen; [lia|]. cbn [swap_at].
    destruct i as [|i]; [reflexivity|]. rewrite tau_SS. cbn [nth]. apply IH. lia.
Qed.

Lemma state_perm_nth (d : bool) (ks : list nat) (s : state) (i : nat) :
  (forall k, In k ks -> S k < length s) ->
  nth (perm_of ks i) (state_perm ks s) d = nth i s d.
Proof.
  intros Hk. induction ks as [|k r IH]; [reflexivity|]. cbn [perm_of state_perm].
  rewrite nth_swap_at by (rewrite state_perm_length; apply Hk; left; reflexivity).
  rewrite tau_invol. apply IH. intros k' Hk'. apply Hk. right. exact Hk'.
Qed.

Lemma state_perm_app (a b : list nat) (s : state) : state_perm (a ++ b) s = state_perm a (state_perm b s).
Proof. induction a as [|x a IH]; [reflexivity|]. cbn [app state_perm]. rewrite IH. reflexivity. Qed.

Lemma state_perm_rev_l (ks : list nat) (s : state) : state_perm (rev ks) (state_perm ks s) = s.
Proof.
  revert s. induction ks as [|k r IH]; intros s; [reflexivity|].
  cbn [rev state_perm]. rewrite state_perm_app. cbn [state_perm]. rewrite swap_at_invol. apply IH.
Qed.

Lemma state_perm_rev_r (ks : list nat) (s : state) : state_perm ks (state_perm (rev ks) s) = s.
Proof. rewrite <- (rev_involutive ks) at 1. apply state_perm_rev_l. Qed.

Lemma fock_perm_length (N : nat) (pi : nat -> nat) (s : state) : length (fock_perm N pi s) = length s.
Proof. apply state_perm_length. Qed.

(** bit pi(i) of U_pi s is bit i of s *)
Theorem fock_perm_nth (N : nat) (pi : nat -> nat) (s : state) (i : nat) :
  perm_on N pi -> length s = N -> i < N ->
  nth (pi i) (fock_perm N pi s) false = nth i s false.
Proof.
  intros Hp Hlen Hi. unfold fock_perm. rewrite <- (adj_decomp_perm N pi Hp i Hi).
  apply state_perm_nth. rewrite Hlen. apply adj_decomp_valid. exact Hp.
Qed.

(** * Out-of-range indices: only "in range or not" matters *)

Lemma act_op_oob (d : bool) (i : nat) (s : state) : length s <= i -> act_op (d, i) s = OOB.
Proof.
  intros H. unfold act_op, op_idx. cbn [snd]. destruct (Nat.ltb_spec i (length s)); [lia|reflexivity].
Qed.

Lemma act_mono_ren_ext (f g : nat -> nat) (N : nat) :
  (forall i, i < N -> f i = g i) -> (forall i, N <= i -> N <= f i /\ N <= g i) ->
  forall (m : list op) (s : state), length s = N ->
  act_mono (map (ren_op f) m) s = act_mono (map (ren_op g) m) s.
Proof.
  intros Hin Hout m. induction m as [|[d i] rest IH]; intros s Hlen; [reflexivity|].
  cbn [map act_mono]. rewrite (IH s Hlen).
  destruct (act_mono (map (ren_op g) rest) s) as [[[sg s1]|]| | |c|] eqn:E1; try reflexivity.
  assert (Hl1 : length s1 = N) by (rewrite (act_mono_length _ s sg s1 E1); exact Hlen).
  unfold ren_op. cbn [fst snd].
  destruct (Nat.lt_ge_cases i N) as [Hi|Hi].
  - rewrite (Hin i Hi). reflexivity.
  - destruct (Hout i Hi) as [Hf Hg]. rewrite !act_op_oob by lia. reflexivity.
Qed.

Lemma map_perm_op_ren (ks : list nat) (m : list op) : map (perm_op ks) m = map (ren_op (perm_of ks)) m.
Proof. apply map_ext. intros [d i]. reflexivity. Qed.

Lemma act_mono_ren_decomp (N : nat) (pi : nat -> nat) (m : list op) (s : state) :
  perm_on N pi -> length s = N ->
  act_mono (map (ren_op pi) m) s = act_mono (map (perm_op (adj_decomp N pi)) m) s.
Proof.
  intros Hp Hlen. rewrite map_perm_op_ren. apply (act_mono_ren_ext _ _ N); [| |exact Hlen].
  - intros i Hi. symmetry. apply adj_decomp_perm; assumption.
  - intros i Hi. split; [apply Hp; exact Hi|].
    rewrite (perm_of_fix N) by (try exact Hi; apply adj_decomp_valid; exact Hp). exact Hi.
Qed.

(** * The unconditional operator-level theorems *)

Theorem sem_permute_monomial (N : nat) (pi : nat -> nat) (m : list op) (s : state) :
  perm_on N pi -> length s = N ->
  act_mono (map (ren_op pi) m) (fock_perm N pi s) =
  match act_mono m s with
  | Done (Some (sg, s')) =>
    Done (Some (xorb sg (xorb (fock_sign N pi s) (fock_sign N pi s')), fock_perm N pi s'))
  | r => r
  end.
Proof.
  intros Hp Hlen.
  rewrite (act_mono_ren_decomp N pi m _ Hp) by (rewrite fock_perm_length; exact Hlen).
  unfold fock_perm, fock_sign. apply sem_permute_monomial_partial.
  rewrite Hlen. apply adj_decomp_valid. exact Hp.
Qed.

Section PolyPermuteAll.
  Variable K : Type.
  Variables (k0 k1 : K) (kadd kmul ksub : K -> K -> K) (kopp : K -> K).
  Hypothesis Rth : ring_theory k0 k1 kadd kmul ksub kopp (@eq K).

  Local Notation coef_mono := (coef_mono K k0 k1 kopp).
  Local Notation coef_poly := (coef_poly K k0 k1 kadd kmul kopp).

  Lemma coef_poly_ren_decomp (N : nat) (pi : nat -> nat) (p : poly K) (s t : state) :
    perm_on N pi -> length s = N ->
    coef_poly (poly_ren K pi p) s t = coef_poly (poly_rename K (adj_decomp N pi) p) s t.
  Proof.
    intros Hp Hlen. unfold PolySem.coef_poly, poly_ren, poly_rename.
    induction p as [|[m c] r IH]; [reflexivity|]. cbn [map fold_right fst snd]. rewrite IH. f_equal. f_equal.
    unfold PolySem.coef_mono. rewrite (act_mono_ren_decomp N pi m s Hp Hlen). reflexivity.
  Qed.

  Theorem sem_permute_poly (N : nat) (pi : nat -> nat) (p : poly K) (s t : state) :
    perm_on N pi -> length s = N ->
    coef_poly (poly_ren K pi p) (fock_perm N pi s) (fock_perm N pi t) =
    sgn K kopp (xorb (fock_sign N pi s) (fock_sign N pi t)) (coef_poly p s t).
  Proof.
    intros Hp Hlen.
    rewrite (coef_poly_ren_decomp N pi p _ _ Hp) by (rewrite fock_perm_length; exact Hlen).
    unfold fock_perm, fock_sign.
    apply (sem_permute_poly_partial K k0 k1 kadd kmul ksub kopp Rth).
    rewrite Hlen. apply adj_decomp_valid. exact Hp.
  Qed.
End PolyPermuteAll.

(** * The pi of the table-level theorem is such a permutation *)

Theorem index_perm_perm_on
  (fx1 m1 fx2 m2 : bool) (calls1 calls2 : list site) (f g : label -> label) (t1 t2 : table) :
  NoDup (labels calls1) ->
  (forall l, In l (labels calls1) -> g (f l) = l) ->
  Permutation (map (rename_site f) calls1) calls2 ->
  harmless fx1 m1 (site_map calls1) -> harmless fx2 m2 (site_map calls2) ->
  prepare_lattice fx1 m1 calls1 = Done t1 ->
  prepare_lattice fx2 m2 calls2 = Done t2 ->
  perm_on (IndexSize t1) (index_perm t1 t2 f) /\ IndexSize t2 = IndexSize t1.
Proof.
  intros Hnd Hgf Hperm Hh1 Hh2 Hp1 Hp2.
  destruct (rename_is_mode_permutation fx1 m1 fx2 m2 calls1 calls2 f g t1 t2 Hnd Hgf Hperm Hh1 Hh2 Hp1 Hp2)
    as [Hsize [Hb [_ [_ [_ [Hinj _]]]]]].
  split; [|exact Hsize]. split; [exact Hb|]. split; [exact Hinj|].
  intros i Hi. unfold index_perm. rewrite (getInfo_throws t1 i Hi). rewrite Hsize. apply Nat.le_refl.
Qed.

(** relabelling sites / re-ordering the addSite calls / switching the ordering mode conjugates the
    matrix of every polynomial (in particular the Hamiltonian, c_i and c^+_i) by the signed
    permutation U_pi of the Fock basis, pi = index_perm t1 t2 f *)
Theorem sem_permute_poly_relabel :
  forall (K : Type) (k0 k1 : K) (kadd kmul ksub : K -> K -> K) (kopp : K -> K),
  ring_theory k0 k1 kadd kmul ksub kopp (@eq K) ->
  forall (fx1 m1 fx2 m2 : bool) (calls1 calls2 : list site) (f g : label -> label) (t1 t2 : table),
  NoDup (labels calls1) ->
  (forall l, In l (labels calls1) -> g (f l) = l) ->
  Permutation (map (rename_site f) calls1) calls2 ->
  harmless fx1 m1 (site_map calls1) -> harmless fx2 m2 (site_map calls2) ->
  prepare_lattice fx1 m1 calls1 = Done t1 ->
  prepare_lattice fx2 m2 calls2 = Done t2 ->
  let N := IndexSize t1 in
  let pi := index_perm t1 t2 f in
  forall (p : poly K) (s t : state), length s = N ->
  PolySem.coef_poly K k0 k1 kadd kmul kopp (poly_ren K pi p) (fock_perm N pi s) (fock_perm N pi t) =
  sgn K kopp (xorb (fock_sign N pi s) (fock_sign N pi t)) (PolySem.coef_poly K k0 k1 kadd kmul kopp p s t).
Proof.
  intros K k0 k1 kadd kmul ksub kopp Rth fx1 m1 fx2 m2 calls1 calls2 f g t1 t2 Hnd Hgf Hperm Hh1 Hh2 Hp1 Hp2
         N pi p s t Hlen.
  apply (sem_permute_poly K k0 k1 kadd kmul ksub kopp Rth); [|exact Hlen].
  exact (proj1 (index_perm_perm_on fx1 m1 fx2 m2 calls1 calls2 f g t1 t2 Hnd Hgf Hperm Hh1 Hh2 Hp1 Hp2)).
Qed.

(** * The sign of U_pi, word-independent: parity of the inversions among occupied modes *)

Lemma xor_list_app {A} (f : A -> bool) (l1 l2 : list A) :
  xor_list f (l1 ++ l2) = xorb (xor_list f l1) (xor_list f l2).
Proof.
  unfold xor_list. induction l1 as [|x l1 IH]; cbn [app fold_right]; [destruct (fold_right _ _ l2); reflexivity|].
  rewrite IH. rewrite xorb_assoc. reflexivity.
Qed.

Lemma xor_list_map {A B} (g : A -> B) (f : B -> bool) (l : list A) :
  xor_list f (map g l) = xor_list (fun a => f (g a)) l.
Proof. unfold xor_list. induction l as [|x l IH]; cbn [map fold_right]; [reflexivity|]. rewrite IH. reflexivity. Qed.

Lemma xor_list_ext_in {A} (f g : A -> bool) (l : list A) :
  (forall x, In x l -> f x = g x) -> xor_list f l = xor_list g l.
Proof.
  unfold xor_list. induction l as [|x l IH]; intros H; [reflexivity|]. cbn [fold_right].
  rewrite (H x (or_introl eq_refl)), IH; [reflexivity|]. intros y Hy. apply H. right. exact Hy.
Qed.

Lemma xor_list_xorb {A} (f g : A -> bool) (l : list A) :
  xor_list (fun x => xorb (f x) (g x)) l = xorb (xor_list f l) (xor_list g l).
Proof.
  unfold xor_list. induction l as [|x l IH]; cbn [fold_right]; [reflexivity|]. rewrite IH.
  set (F := fold_right (fun a acc => xorb (f a) acc) false l).
  set (G := fold_right (fun a acc => xorb (g a) acc) false l).
  destruct (f x), (g x), F, G; reflexivity.
Qed.

Lemma xor_list_false {A} (f : A -> bool) (l : list A) : (forall x, In x l -> f x = false) -> xor_list f l = false.
Proof.
  unfold xor_list. induction l as [|x l IH]; intros H; [reflexivity|]. cbn [fold_right].
  rewrite (H x (or_introl eq_refl)), IH; [reflexivity|]. intros y Hy. apply H. right. exact Hy.
Qed.

Lemma xor_list_delta_seq (c : bool) (a n : nat) :
  xor_list (fun i => c && (i =? a)) (seq 0 n) = c && (a <? n).
Proof.
  induction n as [|n IH]; [cbn; destruct c; reflexivity|].
  rewrite seq_S, xor_list_app, IH. cbn [Nat.add]. unfold xor_list. cbn [fold_right].
  destruct (Nat.eqb_spec n a) as [->|Hne].
  - rewrite Nat.ltb_irrefl. destruct (Nat.ltb_spec a (S a)); [|lia]. destruct c; reflexivity.
  - destruct (Nat.ltb_spec a n); destruct (Nat.ltb_spec a (S n)); try lia; destruct c; reflexivity.
Qed.

Lemma inv_pairs_S (N : nat) : inv_pairs (S N) = inv_pairs N ++ map (fun i => (i, N)) (seq 0 N).
Proof. unfold inv_pairs. rewrite seq_S, flat_map_app. cbn [flat_map Nat.add]. rewrite app_nil_r. reflexivity. Qed.

Lemma in_inv_pairs (N i j : nat) : In (i, j) (inv_pairs N) -> i < j /\ j < N.
Proof.
  unfold inv_pairs. intros H. apply in_flat_map in H. destruct H as [j' [Hj' H]].
  apply in_map_iff in H. destruct H as [i' [E Hi']]. injection E as <- <-.
  apply in_seq in Hj'. apply in_seq in Hi'. lia.
Qed.

(** exactly one pair of [inv_pairs N] is (lo, hi) *)
Lemma xor_pairs_single (c : bool) (lo hi : nat) : lo < hi -> forall N,
  xor_list (fun ij => c && ((fst ij =? lo) && (snd ij =? hi))) (inv_pairs N) = c && (hi <? N).
Proof.
  intros Hlh. induction N as [|N IH]; [cbn; destruct c; reflexivity|].
  rewrite inv_pairs_S, xor_list_app, IH, xor_list_map. cbn [fst snd].
  destruct (Nat.eqb_spec N hi) as [->|Hne].
  - rewrite (xor_list_ext_in _ (fun i => c && (i =? lo))) by (intros x _; rewrite andb_true_r; reflexivity).
    rewrite xor_list_delta_seq. rewrite Nat.ltb_irrefl.
    destruct (Nat.ltb_spec lo hi); [|lia]. destruct (Nat.ltb_spec hi (S hi)); [|lia]. destruct c; reflexivity.
  - rewrite xor_list_false by (intros x _; rewrite andb_false_r, andb_false_r; reflexivity).
    destruct (Nat.ltb_spec hi N); destruct (Nat.ltb_spec hi (S N)); try lia; destruct c; reflexivity.
Qed.

(** an adjacent transposition of the VALUES changes the order of exactly the pair {k, k+1} *)
Lemma tau_ltb (k x y : nat) : x <> y ->
  (tau k y <? tau k x) =
  if ((x =? k) && (y =? S k)) || ((x =? S k) && (y =? k)) then negb (y <? x) else (y <? x).
Proof.
  intros Hxy. unfold tau.
  destruct (Nat.eqb_spec x k), (Nat.eqb_spec x (S k)), (Nat.eqb_spec y k), (Nat.eqb_spec y (S k));
    cbn [andb orb]; try lia;
    repeat match goal with |- context [?a <? ?b] => destruct (Nat.ltb_spec a b) end; cbn [negb]; try reflexivity; lia.
Qed.

Lemma inv_parity_tau (N : nat) (q : nat -> nat) (s : state) (k a b : nat) :
  (forall i j, i < N -> j < N -> q i = q j -> i = j) ->
  a < N -> b < N -> q a = k -> q b = S k ->
  inv_parity N (fun i => tau k (q i)) s = xorb (inv_parity N q s) (nth a s false && nth b s false).
Proof.
  intros Hinj Ha Hb Hqa Hqb.
  assert (Hab : a <> b) by (intros ->; lia).
  set (lo := Nat.min a b). set (hi := Nat.max a b).
  assert (Hlh : lo < hi) by (unfold lo, hi; lia).
  assert (Hhi : hi < N) by (unfold hi; lia).
  unfold inv_parity.
  rewrite (xor_list_ext_in _ (fun ij => xorb (inv_term q s ij)
              ((nth a s false && nth b s false) && ((fst ij =? lo) && (snd ij =? hi))))).
  - rewrite xor_list_xorb, (xor_pairs_single _ lo hi Hlh N).
    destruct (Nat.ltb_spec hi N); [|lia]. rewrite andb_true_r. reflexivity.
  - intros [i j] Hij. apply in_inv_pairs in Hij. destruct Hij as [Hij HjN]. unfold inv_term. cbn [fst snd].
    assert (Hne : q i <> q j) by (intros E; apply Hinj in E; lia).
    rewrite (tau_ltb k (q i) (q j) Hne).
    assert (Eia : (q i =? k) = (i =? a)).
    { destruct (Nat.eqb_spec i a) as [->|Hn]; [rewrite Hqa; apply Nat.eqb_refl|].
      apply Nat.eqb_neq. intros E. apply Hn. apply Hinj; try lia. }
    assert (Eib : (q i =? S k) = (i =? b)).
    { destruct (Nat.eqb_spec i b) as [->|Hn]; [rewrite Hqb; apply Nat.eqb_refl|].
      apply Nat.eqb_neq. intros E. apply Hn. apply Hinj; try lia. }
    assert (Eja : (q j =? k) = (j =? a)).
    { destruct (Nat.eqb_spec j a) as [->|Hn]; [rewrite Hqa; apply Nat.eqb_refl|].
      apply Nat.eqb_neq. intros E. apply Hn. apply Hinj; try lia. }
    assert (Ejb : (q j =? S k) = (j =? b)).
    { destruct (Nat.eqb_spec j b) as [->|Hn]; [rewrite Hqb; apply Nat.eqb_refl|].
      apply Nat.eqb_neq. intros E. apply Hn. apply Hinj; try lia. }
    rewrite Eia, Eib, Eja, Ejb.
    destruct (Nat.eqb_spec i a) as [Xia|Nia], (Nat.eqb_spec j b) as [Xjb|Njb],
             (Nat.eqb_spec i b) as [Xib|Nib], (Nat.eqb_spec j a) as [Xja|Nja];
      cbn [andb orb]; try lia;
      destruct (Nat.eqb_spec i lo) as [E1|E1], (Nat.eqb_spec j hi) as [E2|E2];
      cbn [andb]; unfold lo, hi in E1, E2; try lia; clear E1 E2; subst;
      repeat match goal with |- context [nth ?n s false] => destruct (nth n s false) end;
      repeat match goal with |- context [?x <? ?y] => destruct (x <? y) end; reflexivity.
Qed.

Lemma inv_parity_ext (N : nat) (p p' : nat -> nat) (s : state) :
  (forall i, i < N -> p i = p' i) -> inv_parity N p s = inv_parity N p' s.
Proof.
  intros E. unfold inv_parity. apply xor_list_ext_in. intros [i j] Hij. apply in_inv_pairs in Hij.
  unfold inv_term. cbn [fst snd]. rewrite (E i), (E j) by lia. reflexivity.
Qed.

Theorem sign_of_inversions (N : nat) (s : state) : length s = N -> forall ks : list nat,
  (forall k, In k ks -> S k < N) -> sign_of ks s = inv_parity N (perm_of ks) s.
Proof.
  intros Hlen. induction ks as [|k r IH]; intros Hk.
  - cbn [sign_of]. symmetry. unfold inv_parity. apply xor_list_false. intros [i j] Hij.
    apply in_inv_pairs in Hij. unfold inv_term. cbn [fst snd perm_of].
    destruct (Nat.ltb_spec j i); [lia|]. apply andb_false_r.
  - assert (Hr : forall k', In k' r -> S k' < N) by (intros k' Hk'; apply Hk; right; exact Hk').
    assert (Hrr : forall k', In k' (rev r) -> S k' < N) by (intros k' Hk'; apply Hr; apply in_rev; exact Hk').
    pose proof (Hk k (or_introl eq_refl)) as HkN.
    cbn [sign_of]. rewrite (IH Hr).
    change (perm_of (k :: r)) with (fun i => tau k (perm_of r i)).
    set (a := perm_of (rev r) k). set (b := perm_of (rev r) (S k)).
    assert (Ha : a < N) by (apply perm_of_bound; [exact Hrr|lia]).
    assert (Hb : b < N) by (apply perm_of_bound; [exact Hrr|lia]).
    assert (Hqa : perm_of r a = k) by apply perm_of_inverse_r.
    assert (Hqb : perm_of r b = S k) by apply perm_of_inverse_r.
    assert (Hinj : forall i j, i < N -> j < N -> perm_of r i = perm_of r j -> i = j).
    { intros i j _ _ E. rewrite <- (perm_of_inverse r i), <- (perm_of_inverse r j), E. reflexivity. }
    rewrite (inv_parity_tau N (perm_of r) s k a b Hinj Ha Hb Hqa Hqb). f_equal.
    unfold sigma.
    pose proof (state_perm_nth false r s a ltac:(rewrite Hlen; exact Hr)) as H1. rewrite Hqa in H1.
    pose proof (state_perm_nth false r s b ltac:(rewrite Hlen; exact Hr)) as H2. rewrite Hqb in H2.
    rewrite H1, H2. reflexivity.
Qed.

(** (-1)^(fock_sign N pi s) is the sign of the permutation pi restricted to the occupied modes of s *)
Theorem fock_sign_inversions (N : nat) (pi : nat -> nat) (s : state) :
  perm_on N pi -> length s = N -> fock_sign N pi s = inv_parity N pi s.
Proof.
  intros Hp Hlen. unfold fock_sign.
  rewrite (sign_of_inversions N s Hlen _ (adj_decomp_valid N pi Hp)).
  apply inv_parity_ext. apply adj_decomp_perm. exact Hp.
Qed.
