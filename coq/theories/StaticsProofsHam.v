(** StaticsProofsHam.v -- no hidden state in the functions of Hamiltonian, HamiltonianPart (C03).

    The models of Hamiltonian::prepare / compute / getEigenValue / getEigenValues / getGroundEnergy and HamiltonianPart::prepare / compute / the getters in coq/theories are functions of the object's state and the arguments.  That is a
    modelling hypothesis about the C++: the functions keep nothing between calls.  translator/gen_statics.py lists the function-local
    and file-level `static` variables and the namespace-scope variables of the files on every run (coq/gen/Gen_StaticsHam.v); the lemma
    below is that list.  It stops checking when a function gains a memo table or a cache (seeded changes C03-8, C08-6, C14-8, C20-8
    answer for the wrong object as soon as a process holds two of them).  No axioms. *)
Require Import List String.
From PVgen Require Import Gen_StaticsHam.
Import ListNotations.
Local Open Scope string_scope.

Lemma gen_statics_ham_is_expected : gen_statics_ham = [].
Proof. reflexivity. Qed.
