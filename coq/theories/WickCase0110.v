(** C12 -- proofs, index quadruple (0,1,1,0) of the two-mode model  H = e1 n_0 + e2 n_1.
    (1) expansion of the specification's chi into kernels phi, valid for ANY energies E0..E3 and weights
        w0..w3 of the four Fock states (any Hamiltonian diagonal in the Fock basis, interacting or not);
    (2) for the free model: chi = documented Wick part chi0, for every regular point, by the complete case
        analysis of WickProofs.wick_quadruple (resonance patterns z1+z2=0 / z1=z3 / z2=z3, degenerate levels
        e1=e2, particle-hole levels e1+e2=0, and their combinations). *)
Require Import List Bool ZArith Field Arith Lia.
From PV Require Import Outcome Fock Poly EDSpec Wick WickProofs.
Import ListNotations.

Section Case.
Variable F : fsetting.
Notation K := (fK F).
Notation "0" := (f0 F). Notation "1" := (f1 F).
Infix "+" := (fadd F). Infix "*" := (fmul F). Infix "-" := (fsub F). Infix "/" := (fdiv F).
Notation "- x" := (fopp F x).
Notation NO := (FNum F).
Notation PHI := (phi K NO).
Add Field Ffield_0110 : (fKf F).

Lemma chi_0110_expand : forall beta tol E0 E1 E2 E3 w0 w1 w2 w3 z1 z2 z3,
  chi K NO beta tol [E0;E1;E2;E3] [w0;w1;w2;w3] (Cm F 2 0) (Cm F 2 1) (CXm F 2 1) (CXm F 2 0) z1 z2 z3 =
  PHI beta tol E0 E1 E3 E1 w0 w1 w3 w1 z1 z2 (- z3) -
  PHI beta tol E2 E3 E1 E3 w2 w3 w1 w3 z1 (- z3) z2 +
  PHI beta tol E0 E2 E3 E1 w0 w2 w3 w1 z2 z1 (- z3) +
  PHI beta tol E0 E2 E0 E1 w0 w2 w0 w1 z2 (- z3) z1 -
  PHI beta tol E2 E0 E1 E3 w2 w0 w1 w3 (- z3) z1 z2 -
  PHI beta tol E2 E0 E2 E3 w2 w0 w2 w3 (- z3) z2 z1.
Proof. intros. wick_expand F. ring. Qed.

Theorem free_chi_0110 : forall beta e1 e2 x1 x2 z1 z2 z3,
  regular F e1 e2 x1 x2 z1 z2 z3 ->
  chi K NO beta (ftol F) (energies F [e1;e2]) (gibbs F [x1;x2]) (Cm F 2 0) (Cm F 2 1) (CXm F 2 1) (CXm F 2 0) z1 z2 z3 =
  chi0_free F [e1;e2] beta 0 1 1 0 z1 z2 z3.
Proof. wick_quadruple F chi_0110_expand. Qed.
End Case.
