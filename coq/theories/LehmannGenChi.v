(** LehmannGenChi.v -- the two-particle Green's function rebuilt around the control structure that translator/gen_lehmann.py reads
    off the C++ on every run (C02).

      PVgen.Gen_LehChaseIndices      gen_chase_indices                 chaseIndices
      PVgen.Gen_LehTPGFPartCompute   gen_tp_nest, gen_tp_inner         TwoParticleGFPart::compute (loop nest; innermost body)
      PVgen.Gen_LehAddMultiterm      gen_addmultiterm                  TwoParticleGFPart::addMultiterm
      PVgen.Gen_LehTPGFTermPlus      gen_nr_plus_*, gen_r_plus_*       NonResonantTerm::operator+=, ResonantTerm::operator+=
      PVgen.Gen_LehAddTerm / Gen_LehTermListEval                       TermList::add_term, TermList::operator()
      PVgen.Gen_LehTPGFPartEval      gen_tp_eval                       TwoParticleGFPart::operator()(z1, z2, z3)
      PVgen.Gen_LehTPGFEval          gen_tpgf_value, gen_tpgf_matsubara   TwoParticleGF::operator()
      PVgen.Gen_LehTPGFCompute       gen_tpgf_compute, gen_wrap_run    TwoParticleGF::compute, ComputeAndClearWrap::run

    The merge loops are interpreted over the sparse-matrix model of PV.Chi (an outer slice = the list of its stored (inner index,
    value) pairs, an InnerIterator = the not yet consumed suffix; [g] = the value index() reads on an exhausted iterator), so that
    the [..._src] functions can be compared with PV.Chi's.  What is shared with PV.Chi: the record types, the term types with
    their comparators, negligibility tests and evaluators (built there from PVgen.Gen_Multiterm), the slice primitives.
    PV.LehmannGenProofsChi proves `description of this tree = description the model follows` and from them `..._src = model`.
    Definitions only. *)
Require Import Bool List Arith ZArith QArith.
From PV Require Import Outcome EDSpec Chi LehmannShapes LehmannInterp.
From PVgen Require Import Gen_Multiterm Gen_LehAddTerm Gen_LehTermListEval Gen_LehChaseIndices Gen_LehTPGFPartCompute Gen_LehAddMultiterm
     Gen_LehTPGFTermPlus Gen_LehTPGFPartEval Gen_LehTPGFEval Gen_LehTPGFCompute.
Import ListNotations.
Local Open Scope nat_scope.

Definition omap {A B} (f : A -> B) (o : outcome A) : outcome B := bind o (fun a => Done (f a)).

(** * merge loops over two slices *)
Section SliceWalk.
Variable K : Type.
Variable NO : numops K.
Variable g : nat.

Record sst : Type := mk_sst { s_a : slice K; s_b : slice K; s_la : nat; s_lb : nat }.   (* ket (ItA), bra (ItB), the index locals *)
Definition s_it (i : itr) (s : sst) : slice K := match i with ItA => s_a s | ItB => s_b s end.
Definition sl_valid (i : itr) (s : sst) : bool := Chi.it_valid K (s_it i s).
Definition sl_read (i : itr) (s : sst) : nat := it_index K g (s_it i s).
Definition sl_advance (i : itr) (s : sst) : sst :=
  match i with
  | ItA => mk_sst (tl (s_a s)) (s_b s) (s_la s) (s_lb s)
  | ItB => mk_sst (s_a s) (tl (s_b s)) (s_la s) (s_lb s)
  end.
Definition sl_set_local (i : itr) (v : nat) (s : sst) : sst :=
  match i with
  | ItA => mk_sst (s_a s) (s_b s) v (s_lb s)
  | ItB => mk_sst (s_a s) (s_b s) (s_la s) v
  end.
Definition sl_ival (v : ival) (s : sst) : nat :=
  match v with
  | IvLocal ItA => s_la s
  | IvLocal ItB => s_lb s
  | IvOuter => 0
  | IvRead i => sl_read i s
  end.
Fixpoint sl_cond (c : icond) (s : sst) : bool :=
  match c with
  | IcValid i => sl_valid i s
  | IcCmp c x y => cmp_eval c (sl_ival x s) (sl_ival y s)
  | IcAnd x y => if sl_cond x s then sl_cond y s else false
  | IcOr x y => if sl_cond x s then true else sl_cond y s
  | IcNot x => negb (sl_cond x s)
  end.
(** for(; c; ++i);  [None] = out of fuel *)
Fixpoint sl_for (c : icond) (i : itr) (fuel : nat) (s : sst) : option sst :=
  match fuel with
  | O => None
  | S f => if sl_cond c s then sl_for c i f (sl_advance i s) else Some s
  end.
Definition sl_fuel (i : itr) (s : sst) : nat := S (length (s_it i s)).

(** execution state: iterators and locals, the WsBody visits (block, (local A, local B, value of ItA, value of ItB)),
    the pushed indices, the returned value *)
Record sx : Type := mk_sx { sx_s : sst; sx_out : list (nat * (nat * nat * K * K)); sx_push : list nat; sx_ret : option bool }.
Definition sx_upd (x : sx) (s : sst) : sx := mk_sx s (sx_out x) (sx_push x) (sx_ret x).

Section Exec.
(** what `chaseIndices(ItA, ItB)` does to the two iterators (passed by reference) and what it returns *)
Variable call : slice K -> slice K -> option (slice K * slice K * bool).
Fixpoint sexec (st : wstmt) (x : sx) {struct st} : option sx :=
  match sx_ret x with
  | Some _ => Some x
  | None =>
    let s := sx_s x in
    match st with
    | WsReadIndex i => Some (sx_upd x (sl_set_local i (sl_read i s) s))
    | WsIf c t e =>
      (fix go (l : list wstmt) (x : sx) {struct l} : option sx :=
         match l with [] => Some x | y :: r => match sexec y x with Some x' => go r x' | None => None end end)
        (if sl_cond c s then t else e) x
    | WsAdvance i => Some (sx_upd x (sl_advance i s))
    | WsFor c i => option_map (sx_upd x) (sl_for c i (sl_fuel i s) s)
    | WsBody n => Some (mk_sx s (sx_out x ++ [(n, (s_la s, s_lb s, it_value K NO (s_a s), it_value K NO (s_b s)))]) (sx_push x) (sx_ret x))
    | WsReturn r => Some (mk_sx s (sx_out x) (sx_push x) (Some r))
    | WsIfChase t =>
      match call (s_a s) (s_b s) with
      | None => None
      | Some (a', b', true) =>
        (fix go (l : list wstmt) (x : sx) {struct l} : option sx :=
           match l with [] => Some x | y :: r => match sexec y x with Some x' => go r x' | None => None end end)
          t (sx_upd x (mk_sst a' b' (s_la s) (s_lb s)))
      | Some (a', b', false) => Some (sx_upd x (mk_sst a' b' (s_la s) (s_lb s)))
      end
    | WsPush v => Some (mk_sx s (sx_out x) (sx_push x ++ [sl_ival v s]) (sx_ret x))
    end
  end.
Fixpoint sexec_list (l : list wstmt) (x : sx) {struct l} : option sx :=
  match l with [] => Some x | y :: r => match sexec y x with Some x' => sexec_list r x' | None => None end end.

(** while(c) { body }: the visits and the pushed indices, accumulated; condition first, then the fuel (as Chi.walk) *)
Fixpoint sl_while (c : icond) (body : list wstmt) (fuel : nat) (s : sst) (out : list (nat * (nat * nat * K * K))) (push : list nat)
  : outcome (list (nat * (nat * nat * K * K)) * list nat) :=
  if sl_cond c s then
    match fuel with
    | O => OutOfFuel
    | S f =>
      match sexec_list body (mk_sx s out push None) with
      | Some x => match sx_ret x with
                  | None => sl_while c body f (sx_s x) (sx_out x) (sx_push x)
                  | Some _ => OutOfFuel
                  end
      | None => OutOfFuel
      end
    end
  else Done (out, push).
End Exec.

(** chaseIndices interpreted from its description: a call inside it is not interpreted *)
Definition chase_call (descr : list wstmt) (a b : slice K) : option (slice K * slice K * bool) :=
  match sexec_list (fun _ _ => None) descr (mk_sx (mk_sst a b 0 0) [] [] None) with
  | Some x => match sx_ret x with
              | Some r => Some (s_a (sx_s x), s_b (sx_s x), r)
              | None => None            (* flowing off the end of a function returning bool *)
              end
  | None => None
  end.
End SliceWalk.

Section Src.
Variable K : Type.
Variable NO : numops K.
Notation k0 := (n0 K NO).
Notation kadd := (nadd K NO).
Notation ksub := (nsub K NO).
Notation kmul := (nmul K NO).

(** * TermList::add_term on the two term types; operator+= from the generated pieces *)
Definition nr_plus_src (x y : nrterm K) : nrterm K :=
  {| nr_coeff := gen_nr_plus_coeff0 K NO (nr_coeff K x) (nr_coeff K y);
     nr_p0 := gen_nr_plus_pole K NO (nr_weight K x) (nr_weight K y) (nr_p0 K x) (nr_p0 K y);
     nr_p1 := gen_nr_plus_pole K NO (nr_weight K x) (nr_weight K y) (nr_p1 K x) (nr_p1 K y);
     nr_p2 := gen_nr_plus_pole K NO (nr_weight K x) (nr_weight K y) (nr_p2 K x) (nr_p2 K y);
     nr_isz4 := nr_isz4 K x; nr_weight := gen_nr_plus_weight (nr_weight K x) (nr_weight K y) |}.
Definition r_plus_src (x y : rterm K) : rterm K :=
  {| r_res := gen_r_plus_coeff0 K NO (r_res K x) (r_nonres K x) (r_res K y) (r_nonres K y);
     r_nonres := gen_r_plus_coeff1 K NO (r_res K x) (r_nonres K x) (r_res K y) (r_nonres K y);
     r_p0 := gen_r_plus_pole K NO (r_weight K x) (r_weight K y) (r_p0 K x) (r_p0 K y);
     r_p1 := gen_r_plus_pole K NO (r_weight K x) (r_weight K y) (r_p1 K x) (r_p1 K y);
     r_p2 := gen_r_plus_pole K NO (r_weight K x) (r_weight K y) (r_p2 K x) (r_p2 K y);
     r_isz1z2 := r_isz1z2 K x; r_weight := gen_r_plus_weight (r_weight K x) (r_weight K y) |}.
Definition nr_add_term_src (tl : tols K) (t : nrterm K) (l : list (nrterm K)) : bool * list (nrterm K) :=
  add_term_by (nrterm K) (nr_comp K NO (t_cmp_nr K tl)) nr_plus_src (nr_negl K NO (t_neg_nr K tl)) gen_add_term t l.
Definition r_add_term_src (tl : tols K) (t : rterm K) (l : list (rterm K)) : bool * list (rterm K) :=
  add_term_by (rterm K) (r_comp K NO (t_cmp_r K tl)) r_plus_src (r_negl K NO (t_neg_r K tl)) gen_add_term t l.

(** * TwoParticleGFPart::compute *)
Definition mat_of (p : part_in K) (m : nat) : smat K :=
  match m with 0 => p_O1 K p | 1 => p_O2 K p | 2 => p_O3 K p | _ => p_CX4 K p end.
Definition iter_slice (p : part_in K) (i1 i3 : nat) (mv : nat * nat) : slice K :=
  outer K (mat_of p (fst mv)) (if snd mv =? 1 then i1 else i3).
Definition chase_src (g : nat) : slice K -> slice K -> option (slice K * slice K * bool) := chase_call K NO g gen_chase_indices.

(** one iteration of the innermost loop: (local read from the ket iterator, from the bra iterator, index4, ket value, bra value) *)
Definition tp_visit : Type := (nat * nat * K * K * nat)%type.
Definition index_list_range (first : nat) (c : cmpop) (l : list nat) : list nat :=
  match outer_range first c (length l) with
  | Some os => map (fun p4 => nth p4 l 0) os
  | None => []
  end.
Definition visits_13_src (g : nat) (p : part_in K) (index1 index3 : nat) : outcome (list tp_visit) :=
  let bra4 := iter_slice p index1 index3 (tn_bra4 gen_tp_nest) in
  let ket4 := iter_slice p index1 index3 (tn_ket4 gen_tp_nest) in
  bind (sl_while K NO g (chase_src g) (tn_while4 gen_tp_nest) (tn_body4 gen_tp_nest) (walk_fuel K ket4 bra4) (mk_sst K ket4 bra4 0 0) [] [])
       (fun r4 =>
  let Index4List := snd r4 in
  if tn_guard_nonempty gen_tp_nest && match Index4List with [] => true | _ => false end then Done []
  else
    let bra2 := iter_slice p index1 index3 (tn_bra2 gen_tp_nest) in
    let ket2 := iter_slice p index1 index3 (tn_ket2 gen_tp_nest) in
    bind (sl_while K NO g (chase_src g) (tn_while2 gen_tp_nest) (tn_body2 gen_tp_nest) (walk_fuel K ket2 bra2) (mk_sst K ket2 bra2 0 0) [] [])
         (fun r2 =>
    Done (concat (map (fun o : nat * (nat * nat * K * K) =>
                         map (fun i4 => (fst (fst (fst (snd o))), snd (fst (fst (snd o))), snd (fst (snd o)), snd (snd o), i4))
                             (index_list_range (tn_inner_first gen_tp_nest) (tn_inner_cmp gen_tp_nest) Index4List))
                      (fst r2))))).

Fixpoint loop_visits (f : nat -> outcome (list (nat * nat * tp_visit))) (os : list nat) : outcome (list (nat * nat * tp_visit)) :=
  match os with
  | [] => Done []
  | o :: r => bind (f o) (fun x => bind (loop_visits f r) (fun y => Done (x ++ y)))
  end.
Definition range_of (first : nat) (c : cmpop) (bound : nat) : list nat :=
  match outer_range first c bound with Some os => os | None => [] end.
(** (index1, index3, visit) for every execution of the innermost body, in order *)
Definition part_visits_src (g : nat) (p : part_in K) : outcome (list (nat * nat * tp_visit)) :=
  let os1 := range_of (tn_first1 gen_tp_nest) (tn_cmp1 gen_tp_nest) (length (mat_of p (tn_bound1 gen_tp_nest))) in
  let os3 := range_of (tn_first3 gen_tp_nest) (tn_cmp3 gen_tp_nest) (length (mat_of p (tn_bound3 gen_tp_nest))) in
  loop_visits (fun index1 =>
    loop_visits (fun index3 => omap (map (fun v => (index1, index3, v))) (visits_13_src g p index1 index3)) os3) os1.

Definition part_E (p : part_in K) (k : nat) : list K :=
  match k with 1 => p_E1 K p | 2 => p_E2 K p | 3 => p_E3 K p | _ => p_E4 K p end.
Definition part_W (p : part_in K) (k : nat) : list K :=
  match k with 1 => p_W1 K p | 2 => p_W2 K p | 3 => p_W3 K p | _ => p_W4 K p end.
Definition tenv_of (tl : tols K) (p : part_in K) (v : nat * nat * tp_visit) : tenv K :=
  let index1 := fst (fst v) in let index3 := snd (fst v) in
  let '(la, lb, va, vb, i4) := snd v in
  mk_tenv index1 index3 la lb i4 (fun k i => nth i (part_E p k) k0) (fun k i => nth i (part_W p k) k0) va vb
          (fun m o i => coeff K NO (mat_of p m) o i) (signK K NO (p_sign K p)) (p_beta K p) (t_coeff K tl).

Definition temit_emission (e : temit K) : emission K :=
  match e with
  | TeNonRes c p1 p2 p3 f => EmitNonRes K c p1 p2 p3 f
  | TeRes rc nc p1 p2 p3 f => EmitRes K rc nc p1 p2 p3 f
  end.
(** the terms one execution of the innermost body hands to the term lists *)
Definition visit_emits_src (tl : tols K) (p : part_in K) (v : nat * nat * tp_visit) : list (emission K) :=
  flat_map (fun args => map temit_emission (addmultiterm_by K k0 (gen_addmultiterm K NO) (t_coeff K tl) args))
           (tp_inner_by K k0 kmul (gen_tp_inner K NO) (tenv_of tl p v)).

Definition emit_src (tl : tols K) (st : part_st K) (e : emission K) : part_st K :=
  match e with
  | EmitNonRes _ c p1 p2 p3 f =>
    let r := nr_add_term_src tl (mk_nr K c p1 p2 p3 f) (ps_nr K st) in
    {| ps_nr := snd r; ps_r := ps_r K st; ps_computed := ps_computed K st;
       ps_refused := if fst r then ps_refused K st else S (ps_refused K st) |}
  | EmitRes _ rc nc p1 p2 p3 f =>
    let r := r_add_term_src tl (mk_r K rc nc p1 p2 p3 f) (ps_r K st) in
    {| ps_nr := ps_nr K st; ps_r := snd r; ps_computed := ps_computed K st;
       ps_refused := if fst r then ps_refused K st else S (ps_refused K st) |}
  end.
Definition part_compute_src (g : nat) (tl : tols K) (p : part_in K) : outcome (part_st K) :=
  bind (part_visits_src g p) (fun vs =>
  let st := fold_left (fun st v => fold_left (emit_src tl) (visit_emits_src tl p v) st) vs (part_constructed K) in
  Done {| ps_nr := ps_nr K st; ps_r := ps_r K st; ps_computed := true; ps_refused := ps_refused K st |}).

(** * TwoParticleGFPart::operator()(z1, z2, z3) *)
Definition nr_call (st : part_st K) (args : list K) : K :=
  match args with
  | [a; b; c] => termlist_eval_by (nrterm K) K k0 kadd ksub gen_termlist_eval (fun t => nr_eval K NO t a b c) (ps_nr K st)
  | _ => k0
  end.
Definition r_call (st : part_st K) (args : list K) : K :=
  match args with
  | [a; b; c; tol] => termlist_eval_by (rterm K) K k0 kadd ksub gen_termlist_eval (fun t => r_eval K NO tol t a b c) (ps_r K st)
  | _ => k0
  end.
Definition tp_arg_eval (ys : list K) (tl : tols K) (p : part_in K) (a : part_arg) : K :=
  match a with
  | PaArg n => nth n ys k0
  | PaBeta => p_beta K p
  | PaReduceResonanceTolerance => t_reduce K tl
  | PaDefault => ofQ K NO res_eval_default_tol        (* the default of ResonantTerm::operator()'s KroneckerSymbolTolerance *)
  end.
Definition part_eval_src (tl : tols K) (p : part_in K) (st : part_st K) (z1 z2 z3 : K) : outcome K :=
  let sh := gen_tp_eval K NO in
  let F := pe_frequencies sh z1 z2 z3 in
  let y (k : nat) := nth (perm_nth (p_perm K p) (nth k (pe_slots sh) 0)) F k0 in
  let ys := [y 0; y 1; y 2] in
  if pe_status_checked sh && negb (ps_computed K st) then Throws 1
  else Done (acc_apply kadd ksub (pe_combine sh)
                       (nr_call st (map (tp_arg_eval ys tl p) (pe_nonres_args sh)))
                       (r_call st (map (tp_arg_eval ys tl p) (pe_res_args sh)))).

(** * TwoParticleGF::operator()(z1, z2, z3): [Throws 3] = no return statement executed *)
Fixpoint part_values_src (tl : tols K) (ps : list (part_in K * part_st K)) (z1 z2 z3 : K) : outcome (list K) :=
  match ps with
  | [] => Done []
  | (p, st) :: r => bind (part_eval_src tl p st z1 z2 z3) (fun v => omap (cons v) (part_values_src tl r z1 z2 z3))
  end.
Definition gf_value_src (tl : tols K) (s : gf_st K) (z1 z2 z3 : K) : outcome K :=
  if g_vanishing K s
  then match value_by K k0 kadd ksub true false [] (mk_venv z1 k0 k0 k0) (gen_tpgf_value K NO) with Some v => Done v | None => Throws 3 end
  else bind (part_values_src tl (g_parts K s) z1 z2 z3) (fun vals =>
         match value_by K k0 kadd ksub false false vals (mk_venv z1 k0 k0 k0) (gen_tpgf_value K NO) with
         | Some v => Done v
         | None => Throws 3
         end).
End Src.

(** * TwoParticleGF::compute(clear, freqs, comm) on one rank: PV.Chi.gf_compute_gen with the two structural switches read from
    the description of the function (PVgen.Gen_LehTPGFCompute): is the table sized in front of the Vanishing test, is the
    reduction skipped for an empty table *)
Definition gf_compute_src (K : Type) (NO : numops K) (g : nat) (tl : tols K) (clear : bool) (freqs : list (K * K * K)) (s : gf_st K)
  : outcome (list K * gf_st K) :=
  gf_compute_gen K NO (tc_size_before_vanishing gen_tpgf_compute) (tc_reduce_guarded gen_tpgf_compute) g tl clear freqs s.
