(** Item (4) of the list in props/Properties_Spine.v (Stage 5): on the one-block partition the general two-particle pipeline
    [SpineChi.spine_chi] -- the four operators computed by Spine.op_compute, i.e. by the models of FieldOperator::prepare and
    FieldOperatorPart::compute (C07/C10) -- IS the run [SpineChi.spine_chi_one_block_run] the one-block theorem is about:
      [op_compute_one_block]   op_compute on (one_block M, [(E, U)]) returns the single part ((0, 0), U^+ O U), as a list of rows
                               (C10: HPartProofs.fop_dense_entries through SpinePartition.part_of_pair / rotated_block_entry);
      [spine_chi_one_block_is_run]
    for operators that do not vanish identically ([first_tgt] <> None: some basis state has an image; decidable by evaluation,
    true for c_i, c^+_i with i < M -- that Jordan-Wigner fact is not proved here and stays a hypothesis).
    Hence [spine_chi_one_block_op_compute]: the value of SpineChi.spine_chi on the one-block partition is EDSpec.chi. *)
Require Import Bool List Arith ZArith Lia Ring Ring_theory Field_theory.
From PV Require Import Outcome Fock Poly PolySem EDSpec HPart HPartSpec HPartProofs Sparse BigSum TermList GFPart GFPartProofs GFFullProofs
     Spine SpineLinAlg SpinePartition SpineOneBlock Chi ChiProofs ChiLehmann SpineChi SpineChiPart SpineChiOneBlock SpineChiTermLists SpineChiMain.
From PV Require Thermal.
From PVgen Require Import Gen_Multiterm.
Import ListNotations.

Section OpComputeOneBlock.
Variable K : Type.
Variable NO : numops K.
Notation k0 := (n0 K NO).
Notation k1 := (n1 K NO).
Hypothesis Kr : ring_theory k0 k1 (nadd K NO) (nmul K NO) (nsub K NO) (nopp K NO) (@eq K).
Hypothesis conj0 : nconj K NO k0 = k0.
Variable fb : bool.
Variable eps : K.
Hypothesis one_not_small : nre_ltb K NO (nabs K NO k1) eps = false.
Hypothesis mone_not_small : nre_ltb K NO (nabs K NO (nopp K NO k1)) eps = false.
Hypothesis one_large : nre_ltb K NO eps (nabs K NO k1) = true.
Hypothesis mone_large : nre_ltb K NO eps (nabs K NO (nopp K NO k1)) = true.
Variable M : nat.
Notation N := (Nat.pow 2 M).
Notation S1 := (one_block M).
Variables (E : list K) (U : mat K).
Hypothesis E_len : length E = N.
Hypothesis U_sq : square K N U.

Lemma S1_dim0 : block_size S1 0 = N.
Proof. unfold block_size. cbn. apply seq_length. Qed.

Lemma mat_ext (A B : mat K) n : length A = n -> length B = n ->
  (forall r, r < n -> length (nth r A []) = n) -> (forall r, r < n -> length (nth r B []) = n) ->
  (forall r c, r < n -> c < n -> mget K NO A r c = mget K NO B r c) -> A = B.
Proof.
  intros LA LB RA RB Hent. apply (nth_ext A B [] []); [congruence|]. intros r Hr. rewrite LA in Hr.
  apply (nth_ext _ _ k0 k0); [rewrite RA, RB by exact Hr; reflexivity|]. intros c Hc. rewrite RA in Hc by exact Hr. exact (Hent r c Hr Hc).
Qed.

Theorem op_compute_one_block (o : fop) : mono_in_range M (fop_mono o) -> first_tgt K NO M o (seq 0 N) <> None ->
  op_compute K NO fb eps S1 [(E, U)] o = Done [((0, 0), rotate K NO N U (poly_matrix K NO M (fop_poly K NO o)))].
Proof.
  intros Hr Hnv.
  pose proof (S1_op_ok K NO fb eps one_not_small mone_not_small M o Hr) as OO.
  assert (Eprs : one_block_pairs K NO M o = [(0, 0)]).
  { unfold one_block_pairs. destruct (first_tgt K NO M o (seq 0 N)); [reflexivity|congruence]. }
  rewrite Eprs in OO.
  pose proof (S1_partition_ok M) as PO. pose proof (S1_eig_ok K M E U E_len U_sq) as EO.
  destruct (op_compute_spec K NO Kr fb eps one_not_small mone_not_small one_large mone_large S1 [(E, U)] PO EO o _ OO) as [parts HP].
  rewrite HP. f_equal.
  destruct (parts_spec K NO fb eps S1 [(E, U)] o _ OO parts HP) as [Hm _].
  destruct parts as [|[lr Dm] [|q r]]; try discriminate Hm. cbn [map fst] in Hm. injection Hm as ->.
  destruct (part_of_pair K NO Kr fb eps one_not_small mone_not_small one_large mone_large S1 [(E, U)] PO EO o _ OO _ HP 0 0 (or_introl eq_refl))
    as [Dm' [Hf [_ [Hlen [Hrow Hent]]]]].
  unfold part_from_left in Hf. cbn [rev app find fst Nat.eqb] in Hf. injection Hf as <-.
  rewrite S1_dim0 in Hlen, Hrow, Hent.
  f_equal. f_equal. apply (mat_ext _ _ N Hlen (rotate_length K NO N U _) Hrow (fun r Hr' => rotate_row_length K NO N U _ r Hr')).
  intros r c Hr' Hc. rewrite (Hent r c Hr' Hc).
  pose proof (rotated_block_entry K NO Kr conj0 S1 [(E, U)] PO EO o 0 0 r c ltac:(cbn; lia) ltac:(cbn; lia)
                ltac:(rewrite S1_dim0; exact Hr') ltac:(rewrite S1_dim0; exact Hc)) as RB.
  cbn [off Nat.add] in RB. rewrite S1_dim0 in RB. change (state_size S1) with N in RB. change (sc_M S1) with M in RB.
  rewrite (S1_assembled_U K NO M E U E_len U_sq) in RB. symmetry. exact RB.
Qed.

(** the world TwoParticleGF reads on the one-block partition is the one-block world of SpineChi *)
Variable keepf : K -> bool.
Variable g : nat.
Variable tl : Chi.tols K.

Theorem spine_chi_one_block_is_run (beta : K) (i j k l : nat) :
  i < M -> j < M -> k < M -> l < M ->
  first_tgt K NO M (FC i) (seq 0 N) <> None -> first_tgt K NO M (FC j) (seq 0 N) <> None ->
  first_tgt K NO M (FCdag k) (seq 0 N) <> None -> first_tgt K NO M (FCdag l) (seq 0 N) <> None ->
  spine_chi K NO keepf fb eps g tl S1 [(E, U)] beta i j k l = spine_chi_one_block_run K NO keepf g tl M E U beta i j k l.
Proof.
  intros Hi Hj Hk Hl N1 N2 N3 N4. unfold spine_chi, spine_chi_one_block_run.
  destruct (spine_dm K NO beta S1 [(E, U)]) as [D| | | |] eqn:HD; cbn [bind]; try reflexivity.
  rewrite (op_compute_one_block (FC i)) by (try exact N1; repeat constructor; exact Hi).
  rewrite (op_compute_one_block (FC j)) by (try exact N2; repeat constructor; exact Hj).
  rewrite (op_compute_one_block (FCdag k)) by (try exact N3; repeat constructor; exact Hk).
  rewrite (op_compute_one_block (FCdag l)) by (try exact N4; repeat constructor; exact Hl).
  cbn [bind]. unfold spine_chi_dense. f_equal.
  pose proof (spine_dm_ok K NO S1 [(E, U)] (S1_eig_ok K M E U E_len U_sq) D beta HD) as DO.
  pose proof (do_len K NO S1 D DO) as DL. cbn in DL.
  destruct D as [|d [|d' D']]; try discriminate DL.
  pose proof (do_ret K NO S1 [d] DO 0 ltac:(cbn; lia)) as DR. unfold Thermal.is_retained in DR. cbn [map nth] in DR.
  unfold spine_chi_world, world1, chi_fieldop, fieldop1, assembled_w. cbn [map concat rev app fst snd fo_bimap].
  rewrite app_nil_r, DR, S1_dim0. reflexivity.
Qed.

End OpComputeOneBlock.

(** the one-block theorem for the general pipeline SpineChi.spine_chi *)
Theorem spine_chi_one_block_op_compute (K : Type) (NO : numops K)
  (Kf : field_theory (n0 K NO) (n1 K NO) (nadd K NO) (nmul K NO) (nsub K NO) (nopp K NO) (ndiv K NO) (ChiLehmann.kinv K NO) (@eq K))
  (conj0 : nconj K NO (n0 K NO) = n0 K NO)
  (fb : bool) (eps : K)
  (one_not_small : nre_ltb K NO (nabs K NO (n1 K NO)) eps = false)
  (mone_not_small : nre_ltb K NO (nabs K NO (nopp K NO (n1 K NO))) eps = false)
  (one_large : nre_ltb K NO eps (nabs K NO (n1 K NO)) = true)
  (mone_large : nre_ltb K NO eps (nabs K NO (nopp K NO (n1 K NO))) = true)
  (keepf : K -> bool) (Hkeep : forall x, keepf x = false -> x = n0 K NO)
  (tl : Chi.tols K)
  (guards_exact : forall x, abs_gt K NO x (t_coeff K tl) = false -> x = n0 K NO)
  (nz_exact : forall x, nre_ltb K NO (n0 K NO) (nabs K NO x) = false -> x = n0 K NO)
  (negl_exact_nr : forall x d, abs_lt K NO x (ndiv K NO (t_neg_nr K tl) (nofZ K NO (Z.of_nat d))) = true -> x = n0 K NO)
  (negl_exact_r : forall x d, abs_lt K NO x (ndiv K NO (t_neg_r K tl) (nofZ K NO (Z.of_nat d))) = true -> x = n0 K NO)
  (ofZ_1 : nofZ K NO (Zpos xH) = n1 K NO) (ofZ_m1 : nofZ K NO (Zneg xH) = nopp K NO (n1 K NO))
  (ofZ_add : forall a b : Z, nofZ K NO (a + b)%Z = nadd K NO (nofZ K NO a) (nofZ K NO b))
  (ofZ_pos : forall z : Z, (0 < z)%Z -> nofZ K NO z <> n0 K NO)
  (g M : nat) (E : list K) (U : mat K) (beta : K) (i j k l : nat) :
  length E = Nat.pow 2 M -> square K (Nat.pow 2 M) U ->
  i < M -> j < M -> k < M -> l < M ->
  first_tgt K NO M (FC i) (seq 0 (Nat.pow 2 M)) <> None -> first_tgt K NO M (FC j) (seq 0 (Nat.pow 2 M)) <> None ->
  first_tgt K NO M (FCdag k) (seq 0 (Nat.pow 2 M)) <> None -> first_tgt K NO M (FCdag l) (seq 0 (Nat.pow 2 M)) <> None ->
  cmp_exact K NO (t_cmp_nr K tl) (pole_list K NO (Nat.pow 2 M) E) ->
  cmp_exact K NO (t_cmp_r K tl) (pole_list K NO (Nat.pow 2 M) E) ->
  forall (z1 z2 z3 : K) (s : gf_st K),
  chi_regular6 K NO tl (Nat.pow 2 M) E (weights K NO beta E) z1 z2 z3 ->
  spine_chi K NO keepf fb eps g tl (one_block M) [(E, U)] beta i j k l = Done s ->
  Chi.gf_value K NO tl s z1 z2 z3 =
  Done (chi K NO beta (t_reduce K tl) E (weights K NO beta E)
          (rotate K NO (Nat.pow 2 M) U (op_matrix K NO M (cann i))) (rotate K NO (Nat.pow 2 M) U (op_matrix K NO M (cann j)))
          (rotate K NO (Nat.pow 2 M) U (op_matrix K NO M (cdag k))) (rotate K NO (Nat.pow 2 M) U (op_matrix K NO M (cdag l)))
          z1 z2 z3).
Proof.
  intros E_len U_sq Hi Hj Hk Hl N1 N2 N3 N4 CE1 CE2 z1 z2 z3 s REG H.
  rewrite (spine_chi_one_block_is_run K NO (F_R Kf) conj0 fb eps one_not_small mone_not_small one_large mone_large M E U E_len U_sq
             keepf g tl beta i j k l Hi Hj Hk Hl N1 N2 N3 N4) in H.
  exact (spine_chi_one_block_rotated K NO Kf keepf Hkeep tl guards_exact nz_exact negl_exact_nr negl_exact_r ofZ_1 ofZ_m1 ofZ_add ofZ_pos
           g M E U beta i j k l E_len CE1 CE2 z1 z2 z3 s REG H).
Qed.
