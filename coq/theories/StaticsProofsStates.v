(** StaticsProofsStates.v -- no hidden state in the functions of StatesClassification, Symmetrizer (C07).

    The models of StatesClassification::compute / getBlockNumber / getInnerState / getFockState(s) and Symmetrizer::compute / checkSymmetry in coq/theories are functions of the object's state and the arguments.  That is a
    modelling hypothesis about the C++: the functions keep nothing between calls.  translator/gen_statics.py lists the function-local
    and file-level `static` variables and the namespace-scope variables of the files on every run (coq/gen/Gen_StaticsStates.v); the lemma
    below is that list.  It stops checking when a function gains a memo table or a cache (seeded changes C03-8, C08-6, C14-8, C20-8
    answer for the wrong object as soon as a process holds two of them).
    The one entry: Symmetrizer::generateTrivialCombination(N) keeps a static combination; it is re-sized to N and overwritten with
    0 1 .. N-1 on every call before it is returned (repository commit 6d0965f repaired the missing re-size), so no information is
    carried from one call to the next.  No axioms. *)
Require Import List String.
From PVgen Require Import Gen_StaticsStates.
Import ListNotations.
Local Open Scope string_scope.

Lemma gen_statics_states_is_expected : gen_statics_states = [("src/pomerol/Symmetrizer.cpp", "static DynamicIndexCombination trivial(N)")].
Proof. reflexivity. Qed.
