(** The spine for the dynamical susceptibility chi_AB(z), A = c^+_a c_b, B = c^+_c c_d: the model pipeline composed from the
    models of the individual layers.  DEFINITIONS ONLY (executable); the theorems are in SpineSuscFull.v (from the parts to the
    full Fock space), SpineSuscPartition.v (any partition), SpineSuscBridge.v (the partition of the symmetry-analysis model,
    the Hamiltonian layer) and are stated in props/Properties_Spine.v.

      StatesClassification                 PV.HPart.classification                        (C07's subject)
      eigen-data (E_b, U_b)                an INPUT (external solver; certified per run)
      DensityMatrix::prepare/compute       PV.Thermal.dm_compute                          (C09)   [Spine.spine_dm]
      QuadraticOperator::prepare           PV.HPart.fo_prepare on FQuad a b               (C07/C10)
      QuadraticOperatorPart::compute       PV.HPart.fop_dense + the compressed row-/column-major views [Spine.op_compute,
                                           Spine.cs_row_major / cs_col_major]             (C10)
      Susceptibility::prepare              PV.GFPart.gf_prepare on the bimap views of A and B (the same two-iterator walk as
                                           GreensFunction::prepare: Properties_C14.susc_stripes_complete; retention test
                                           isRetained(Aleft) || isRetained(Aright): ThermalGen / Gen_RetainSusc)
      SusceptibilityPart::compute          PV.SuscPart.susc_part_compute                  (C14)
      Susceptibility::operator()(z)        PV.SuscPart.susc_value (incl. the zero-pole weight at |z| < 1e-15 and the optional
                                           subtraction of beta <A><B>)
    [Spine.spine_gf_in] is what Susceptibility reads from A, B, H and DM: it is the record GreensFunction reads from C, CX, H, DM
    with (A, B) for (C, CX) (Susceptibility.cpp:27-64 against GreensFunction.cpp:25-61). *)
Require Import Bool List Arith ZArith.
From PV Require Import Outcome Fock Poly EDSpec HPart HPartSpec Sparse TermList GFPart SuscPart Spine.
From PV Require Symm Thermal.
Import ListNotations.

Section PipelineSusc.
Variable K : Type.
Variable NO : numops K.
Variable fb : bool.
Variable eps : K.
Variables reference prec : K.
Variable T : tols K.               (* tolerances of SusceptibilityPart (t_resonance = ReduceResonanceTolerance) *)
Variables fixed lenient : bool.

(** the whole chain for two field operators oA, oB (the library only instantiates it with quadratic operators) *)
Definition spine_susc_ops (S : classification) (ED : eigdata K) (beta : K) (oA oB : fop)
  : outcome (wres (list ((nat * nat) * spart_out K))) :=
  bind (spine_dm K NO beta S ED) (fun D =>
  bind (op_compute K NO fb eps S ED oA) (fun aparts =>
  bind (op_compute K NO fb eps S ED oB) (fun bparts =>
    Done (susc_compute K NO fixed lenient T (spine_gf_in K NO reference prec S ED D aparts bparts))))).

(** chi_{c^+_a c_b ; c^+_c c_d} *)
Definition spine_susc (S : classification) (ED : eigdata K) (beta : K) (a b c d : nat)
  : outcome (wres (list ((nat * nat) * spart_out K))) :=
  spine_susc_ops S ED beta (FQuad a b) (FQuad c d).

(** Susceptibility::operator()(z) without the subtraction of the disconnected part *)
Definition spine_susc_value (parts : list ((nat * nat) * spart_out K)) (beta z : K) : K := susc_value K NO parts None beta z.

End PipelineSusc.
