(** PresetsSU2.v -- C04: the Kanamori interaction (every U', in particular U' = U - 2J) and the spin-spin
    exchange commute with the total-spin raising and lowering operators, for ANY number of orbitals and any
    position of the modes in the index space.

    Method (reduction to pairs of orbitals):
      1. the documented operator is rewritten as a combination, with ring coefficients, of "pieces" that live on
         one orbital (modes up, down) or on an ordered pair of different orbitals (four modes), each piece being
         an INTEGER combination of operator strings in the positions 0..1 resp. 0..3;
      2. for a piece P and the total spin operator S = sum_p s_p over a list of orbitals with pairwise different
         modes: [P, s_p] = 0 when p is not an orbital of P (computed once on 4 resp. 6 modes), and
         [P, s_a (+ s_b)] = 0 for its own orbital(s) (computed once on 2 resp. 4 modes);
      3. every such computation is done by the model's own normal-ordering routine over the integers
         (vm_compute) and transported to the actual modes by PresetsTransport.commute_by_computation.
    Nothing is assumed about the order of the modes: only that the modes involved are pairwise different. *)
Require Import Bool List Arith Lia ZArith Ring Ring_theory Permutation.
From PV Require Import Lattice.
From PV Require Import Outcome Fock Poly PolySem CAR AlgebraBasics AlgebraProofs NormalizeProofs.
From PV Require Import PresetsSpec IndexHam PresetsBasics PresetsPrepare PresetsLeaves PresetsProofs PresetsTransport.
From PVgen Require Import Gen_LatticePresets.
Import ListNotations.
Local Open Scope nat_scope.

(** * Formal pieces (integer combinations of operator strings in positions) *)
Definition fN (p : nat) (c : Z) : monomial * Z := ([cdag p; cann p], c).
Definition fNN (p q : nat) (c : Z) : monomial * Z := ([cdag p; cann p; cdag q; cann q], c).
Definition fQ (a b c d : nat) (z : Z) : monomial * Z := ([cdag a; cdag b; cann c; cann d], z).
(** s = c^+_up c_down (raising, b = true) or c^+_down c_up (lowering) with up at position pu, down at pd *)
Definition fS (b : bool) (pu pd : nat) : list (monomial * Z) :=
  [(if b then [cdag pu; cann pd] else [cdag pd; cann pu], 1%Z)].

(** positions: one orbital = (0: up, 1: down); a pair (a, b) = (0: a up, 1: a down, 2: b up, 3: b down) *)
Definition P_level : list (monomial * Z) := [fN 0 1; fN 1 1].                      (* n_up + n_down *)
Definition P_A : list (monomial * Z) := [fNN 0 1 1].                              (* n_up n_down *)
(** n_a n_b = (n_a up + n_a down)(n_b up + n_b down) *)
Definition P_X : list (monomial * Z) := [fNN 0 3 1; fNN 2 1 1; fNN 1 3 1; fNN 0 2 1].
(** equal-spin densities + spin flips both ways + pair hoppings both ways *)
Definition P_Y : list (monomial * Z) :=
  [fNN 1 3 1; fNN 0 2 1; fQ 0 3 2 1 1; fQ 2 1 0 3 1; fQ 2 3 0 1 1; fQ 0 1 2 3 1].
(** 4 S_1.S_2 on two sites (1 = positions 0,1; 2 = positions 2,3) and on one site *)
Definition P_SS4 : list (monomial * Z) :=
  [fNN 0 2 1; fNN 1 3 1; fNN 0 3 (-1); fNN 1 2 (-1);
   ([cdag 0; cann 1; cdag 3; cann 2], 2%Z); ([cdag 1; cann 0; cdag 2; cann 3], 2%Z)].
Definition P_SS2 : list (monomial * Z) :=
  [fNN 0 0 1; fNN 1 1 1; fNN 0 1 (-1); fNN 1 0 (-1);
   ([cdag 0; cann 1; cdag 1; cann 0], 2%Z); ([cdag 1; cann 0; cdag 0; cann 1], 2%Z)].

(** the computations (model's normal ordering over Z) *)
Definition own2 (P : list (monomial * Z)) : bool :=
  match znorm (zcomm P (fS true 0 1)), znorm (zcomm P (fS false 0 1)),
        znorm (zcomm P (fS true 2 3)), znorm (zcomm P (fS false 2 3)) with
  | Done [], Done [], Done [], Done [] => true
  | _, _, _, _ => false
  end.
Definition own4 (P : list (monomial * Z)) : bool :=
  match znorm (zcomm P (fS true 0 1 ++ fS true 2 3)), znorm (zcomm P (fS false 0 1 ++ fS false 2 3)),
        znorm (zcomm P (fS true 4 5)), znorm (zcomm P (fS false 4 5)) with
  | Done [], Done [], Done [], Done [] => true
  | _, _, _, _ => false
  end.

Lemma own2_level : own2 P_level = true. Proof. vm_compute. reflexivity. Qed.
Lemma own2_A : own2 P_A = true. Proof. vm_compute. reflexivity. Qed.
Lemma own2_SS2 : own2 P_SS2 = true. Proof. vm_compute. reflexivity. Qed.
Lemma own4_X : own4 P_X = true. Proof. vm_compute. reflexivity. Qed.
Lemma own4_Y : own4 P_Y = true. Proof. vm_compute. reflexivity. Qed.
Lemma own4_SS4 : own4 P_SS4 = true. Proof. vm_compute. reflexivity. Qed.

(** * Lists *)
Lemma extract1 : forall (A : Type) (l : list A) x, NoDup l -> In x l ->
  exists r, Permutation l (x :: r) /\ ~ In x r.
Proof.
  intros A l x ND Hin. apply in_split in Hin. destruct Hin as (l1 & l2 & ->).
  exists (l1 ++ l2). split; [symmetry; apply Permutation_middle|]. apply NoDup_remove_2. exact ND.
Qed.

Lemma extract2 : forall (A : Type) (l : list A) x y, NoDup l -> In x l -> In y l -> x <> y ->
  exists r, Permutation l (x :: y :: r) /\ ~ In x r /\ ~ In y r.
Proof.
  intros A l x y ND Hx Hy Hxy. destruct (extract1 A l x ND Hx) as (r1 & P1 & N1).
  assert (ND1 : NoDup (x :: r1)) by (eapply Permutation_NoDup; eassumption).
  assert (Hy1 : In y r1).
  { apply (Permutation_in _ P1) in Hy. destruct Hy as [E|Hy]; [congruence|exact Hy]. }
  inversion ND1 as [|x' l' _ NDr1]; subst.
  destruct (extract1 A r1 y NDr1 Hy1) as (r2 & P2 & N2).
  exists r2. split; [|split].
  - eapply Permutation_trans; [exact P1|]. constructor. exact P2.
  - intro H. apply N1. apply (Permutation_in _ (Permutation_sym P2)). right. exact H.
  - exact N2.
Qed.

Section SU2.
Variable K : Type.
Variables (k0 k1 : K) (kadd kmul ksub : K -> K -> K) (kopp : K -> K).
Variable kzero : K -> bool.
Hypothesis Hring : ring_ok K k0 k1 kadd kmul ksub kopp kzero.
Let Rth : ring_theory k0 k1 kadd kmul ksub kopp (@eq K) := proj1 Hring.
Add Ring Kring_SU2 : Rth.
Variable khalf : K.
Hypothesis Hhalf : kadd khalf khalf = k1.
Variable M : nat.
Variable L : Type.
Variable idx : L -> nat -> nat -> nat.

Local Notation cm := (coef_mono K k0 k1 kopp).
Local Notation ksum := (@PolySem.ksum K k0 kadd _).
Local Notation mat := (PresetsSpec.mat K).
Local Notation m_zero := (PresetsSpec.m_zero K k0).
Local Notation m_add := (PresetsSpec.m_add K kadd).
Local Notation m_sub := (PresetsSpec.m_sub K ksub).
Local Notation m_scale := (PresetsSpec.m_scale K kmul).
Local Notation m_mul := (PresetsSpec.m_mul K k0 kadd kmul M).
Local Notation m_comm := (PresetsSpec.m_comm K k0 kadd kmul ksub M).
Local Notation m_sum := (@PresetsSpec.m_sum K k0 kadd _).
Local Notation m_sum_if := (@PresetsSpec.m_sum_if K k0 kadd _).
Local Notation m_diag := (PresetsSpec.m_diag K k0).
Local Notation meq := (PresetsSpec.meq K M).
Local Notation m_n := (PresetsSpec.m_n K k0 k1).
Local Notation m_nn := (PresetsSpec.m_nn K k0 k1 kmul).
Local Notation rng := PresetsSpec.rng.
Local Notation x_quartic := (PresetsSpec.x_quartic K k0 k1 kopp).
Local Notation x_hop := (PresetsSpec.x_hop K k0 k1 kopp).
Local Notation zmat := (PresetsTransport.zmat K k0 k1 kadd kmul kopp).
Local Notation phi := (PresetsTransport.phi K k0 k1 kadd kmul kopp).

(** ** orbitals and the total spin operators *)
Definition orb := (L * nat)%type.
Definition umode (o : orb) : nat := idx (fst o) (snd o) spin_up.
Definition dmode (o : orb) : nat := idx (fst o) (snd o) spin_down.
(** s^+_o = c^+_{o up} c_{o down} (b = true), s^-_o = c^+_{o down} c_{o up} (b = false) *)
Definition smat (b : bool) (o : orb) : mat :=
  if b then x_hop (umode o) (dmode o) else x_hop (dmode o) (umode o).
Definition Stot (b : bool) (orbs : list orb) : mat := m_sum orbs (smat b).

(** the orbitals are different and all their modes are different modes of the Fock space *)
Definition orbs_ok (orbs : list orb) : Prop :=
  NoDup orbs /\
  (forall o, In o orbs -> umode o < M /\ dmode o < M /\ umode o <> dmode o) /\
  (forall o o', In o orbs -> In o' orbs -> o <> o' ->
     umode o <> umode o' /\ umode o <> dmode o' /\ dmode o <> umode o' /\ dmode o <> dmode o').

Definition modes2 (o : orb) : list nat := [umode o; dmode o].
Definition modes4 (o o' : orb) : list nat := [umode o; dmode o; umode o'; dmode o'].

(** ** generalities on commutators *)
Lemma comm_meq : forall A A' B B', meq A A' -> meq B B' -> meq (m_comm A B) (m_comm A' B').
Proof. intros. unfold PresetsSpec.m_comm. apply meq_sub; apply meq_mul; assumption. Qed.
Lemma comm_sum_r : forall (X : Type) (l : list X) A (f : X -> mat),
  meq (m_comm A (m_sum l f)) (m_sum l (fun x => m_comm A (f x))).
Proof.
  intros X l A f s t Hs Ht. unfold PresetsSpec.m_comm, PresetsSpec.m_sub.
  rewrite (m_mul_sum_r K k0 k1 kadd kmul ksub kopp kzero Hring M X l A f s t Hs Ht).
  rewrite (m_mul_sum_l K k0 k1 kadd kmul ksub kopp kzero Hring M X l f A s t Hs Ht).
  unfold PresetsSpec.m_sum. rewrite <- (AlgebraBasics.ksum_sub K k0 k1 kadd kmul ksub kopp kzero Hring). reflexivity.
Qed.
Lemma comm_sum_l : forall (X : Type) (l : list X) (f : X -> mat) B,
  meq (m_comm (m_sum l f) B) (m_sum l (fun x => m_comm (f x) B)).
Proof.
  intros X l f B s t Hs Ht. unfold PresetsSpec.m_comm, PresetsSpec.m_sub.
  rewrite (m_mul_sum_r K k0 k1 kadd kmul ksub kopp kzero Hring M X l B f s t Hs Ht).
  rewrite (m_mul_sum_l K k0 k1 kadd kmul ksub kopp kzero Hring M X l f B s t Hs Ht).
  unfold PresetsSpec.m_sum. rewrite <- (AlgebraBasics.ksum_sub K k0 k1 kadd kmul ksub kopp kzero Hring). reflexivity.
Qed.
Lemma comm_add_l : forall A B C, meq (m_comm (m_add A B) C) (m_add (m_comm A C) (m_comm B C)).
Proof.
  intros A B C s t Hs Ht. unfold PresetsSpec.m_comm, PresetsSpec.m_sub. unfold PresetsSpec.m_add at 3.
  rewrite (m_mul_add_l K k0 k1 kadd kmul ksub kopp kzero Hring M A B C s t Hs Ht).
  rewrite (m_mul_add_r K k0 k1 kadd kmul ksub kopp kzero Hring M C A B s t Hs Ht).
  unfold PresetsSpec.m_add. ring.
Qed.
Lemma comm_add_r : forall A B C, meq (m_comm A (m_add B C)) (m_add (m_comm A B) (m_comm A C)).
Proof.
  intros A B C s t Hs Ht. unfold PresetsSpec.m_comm, PresetsSpec.m_sub. unfold PresetsSpec.m_add at 3.
  rewrite (m_mul_add_r K k0 k1 kadd kmul ksub kopp kzero Hring M A B C s t Hs Ht).
  rewrite (m_mul_add_l K k0 k1 kadd kmul ksub kopp kzero Hring M B C A s t Hs Ht).
  unfold PresetsSpec.m_add. ring.
Qed.
Lemma comm_scale_l : forall c A B, meq (m_comm (m_scale c A) B) (m_scale c (m_comm A B)).
Proof.
  intros c A B s t Hs Ht. unfold PresetsSpec.m_comm, PresetsSpec.m_sub.
  rewrite (m_mul_scale_l K k0 k1 kadd kmul ksub kopp kzero Hring M c A B s t Hs Ht).
  rewrite (m_mul_scale_r K k0 k1 kadd kmul ksub kopp kzero Hring M c B A s t Hs Ht).
  unfold PresetsSpec.m_scale. ring.
Qed.
Lemma comm_zero_sum : forall (X : Type) (l : list X) (f : X -> mat),
  (forall x, In x l -> meq (f x) m_zero) -> meq (m_sum l f) m_zero.
Proof.
  intros X l f H. eapply meq_trans; [apply meq_sum; exact H|].
  eapply m_sum_zero. exact Hring.
Qed.
Lemma scale_zero : forall c A, meq A m_zero -> meq (m_scale c A) m_zero.
Proof. intros c A H. eapply meq_trans; [apply meq_scale; exact H|]. eapply m_scale_zero. exact Hring. Qed.
Lemma add_zero : forall A B, meq A m_zero -> meq B m_zero -> meq (m_add A B) m_zero.
Proof.
  intros A B HA HB. eapply meq_trans; [apply meq_add; eassumption|]. eapply m_add_zero_l. exact Hring.
Qed.
Lemma m_sum_perm : forall (X : Type) (l l' : list X) (f : X -> mat), Permutation l l' -> meq (m_sum l f) (m_sum l' f).
Proof.
  intros X l l' f P s t _ _. unfold PresetsSpec.m_sum.
  apply (ksum_perm K k0 k1 kadd kmul ksub kopp kzero Hring). exact P.
Qed.

(** ** formal combinations under an assignment of modes *)
Lemma zmat_extend : forall modes extra P, zrange (length modes) P ->
  meq (zmat (modes ++ extra) P) (zmat modes P).
Proof.
  intros modes extra P HP s t _ _. induction P as [|[m c] P IH].
  - reflexivity.
  - inversion HP as [|x l Hm HP']; subst x l. cbn [fst] in Hm.
    rewrite !(zmat_cons K k0 k1 kadd kmul kopp). rewrite (IH HP'). f_equal. f_equal. f_equal.
    apply map_ext_in. intros [a i] Hi. unfold relabel. cbn [fst snd]. f_equal.
    unfold mono_in_range in Hm. rewrite Forall_forall in Hm. specialize (Hm _ Hi). cbn in Hm.
    apply app_nth1. exact Hm.
Qed.

Lemma phi_1 : phi 1%Z = k1.
Proof. apply (phi1 K k0 k1 kadd kmul ksub kopp kzero Hring). Qed.

Lemma smat_zmat : forall b o modes pu pd, nth pu modes 0 = umode o -> nth pd modes 0 = dmode o ->
  meq (smat b o) (zmat modes (fS b pu pd)).
Proof.
  intros b o modes pu pd Hu Hd s t _ _. unfold fS.
  rewrite (zmat_cons K k0 k1 kadd kmul kopp), (zmat_nil K k0 k1 kadd kmul kopp), phi_1.
  unfold smat, PresetsSpec.x_hop. destruct b; unfold relabel, cdag, cann; cbn [map fst snd]; rewrite Hu, Hd; ring.
Qed.

(** ** step 2 of the method: a one-orbital piece and a two-orbital piece against the total spin operator *)
Lemma own2_elim : forall P, own2 P = true ->
  forall b, znorm (zcomm P (fS b 0 1)) = Done [] /\ znorm (zcomm P (fS b 2 3)) = Done [].
Proof.
  intros P H b. unfold own2 in H. destruct b;
  destruct (znorm (zcomm P (fS true 0 1))) as [[|? ?]| | | |]; try discriminate;
  destruct (znorm (zcomm P (fS false 0 1))) as [[|? ?]| | | |]; try discriminate;
  destruct (znorm (zcomm P (fS true 2 3))) as [[|? ?]| | | |]; try discriminate;
  destruct (znorm (zcomm P (fS false 2 3))) as [[|? ?]| | | |]; try discriminate;
  split; reflexivity.
Qed.
Lemma own4_elim : forall P, own4 P = true ->
  forall b, znorm (zcomm P (fS b 0 1 ++ fS b 2 3)) = Done [] /\ znorm (zcomm P (fS b 4 5)) = Done [].
Proof.
  intros P H b. unfold own4 in H. destruct b;
  destruct (znorm (zcomm P (fS true 0 1 ++ fS true 2 3))) as [[|? ?]| | | |]; try discriminate;
  destruct (znorm (zcomm P (fS false 0 1 ++ fS false 2 3))) as [[|? ?]| | | |]; try discriminate;
  destruct (znorm (zcomm P (fS true 4 5))) as [[|? ?]| | | |]; try discriminate;
  destruct (znorm (zcomm P (fS false 4 5))) as [[|? ?]| | | |]; try discriminate;
  split; reflexivity.
Qed.

Lemma fS_range : forall b pu pd k, pu < k -> pd < k -> zrange k (fS b pu pd).
Proof.
  intros b pu pd k Hu Hd. unfold fS, zrange. constructor; [|constructor]. cbn [fst].
  destruct b; repeat constructor; assumption.
Qed.

Ltac nodup_tac :=
  repeat (constructor; [cbn [In]; intuition congruence|]); constructor.

Theorem piece2_commutes : forall (b : bool) (orbs : list orb) (o : orb) (P : list (monomial * Z)),
  orbs_ok orbs -> In o orbs -> zrange 2 P -> own2 P = true ->
  meq (m_comm (zmat (modes2 o) P) (Stot b orbs)) m_zero.
Proof.
  intros b orbs o P (ND & Hm & Hd) Ho HP Hown. destruct (own2_elim P Hown b) as [E1 E2].
  unfold Stot. eapply meq_trans; [apply comm_sum_r|]. apply comm_zero_sum. intros p Hp.
  destruct (Hm o Ho) as (Mu & Md & Nud).
  destruct (extract1 _ orbs o ND Ho) as (r & Pr & Nr).
  apply (Permutation_in _ Pr) in Hp. destruct Hp as [<-|Hp].
  - (* the orbital itself *)
    eapply meq_trans; [apply comm_meq; [apply meq_refl|apply (smat_zmat b o (modes2 o) 0 1); reflexivity]|].
    apply (commute_by_computation K k0 k1 kadd kmul ksub kopp kzero Hring M (modes2 o)).
    + unfold modes2. nodup_tac.
    + unfold modes2. repeat constructor; assumption.
    + exact HP.
    + apply fS_range; cbn; lia.
    + exact E1.
  - (* another orbital *)
    assert (Hpo : p <> o) by (intro E; subst p; contradiction).
    assert (Hpin : In p orbs) by (apply (Permutation_in _ (Permutation_sym Pr)); right; exact Hp).
    destruct (Hm p Hpin) as (Mu' & Md' & Nud').
    destruct (Hd o p Ho Hpin (fun E => Hpo (eq_sym E))) as (D1 & D2 & D3 & D4).
    eapply meq_trans.
    { apply comm_meq.
      - apply meq_sym. apply (zmat_extend (modes2 o) (modes2 p)). exact HP.
      - apply (smat_zmat b p (modes2 o ++ modes2 p) 2 3); reflexivity. }
    apply (commute_by_computation K k0 k1 kadd kmul ksub kopp kzero Hring M (modes2 o ++ modes2 p)).
    + unfold modes2. cbn [app]. nodup_tac.
    + unfold modes2. cbn [app]. repeat constructor; assumption.
    + eapply Forall_impl; [|exact HP]. intros mc Hmc. eapply Forall_impl; [|exact Hmc]. cbn. intros; lia.
    + apply fS_range; cbn; lia.
    + exact E2.
Qed.

Theorem piece4_commutes : forall (b : bool) (orbs : list orb) (o o' : orb) (P : list (monomial * Z)),
  orbs_ok orbs -> In o orbs -> In o' orbs -> o <> o' -> zrange 4 P -> own4 P = true ->
  meq (m_comm (zmat (modes4 o o') P) (Stot b orbs)) m_zero.
Proof.
  intros b orbs o o' P (ND & Hm & Hd) Ho Ho' Hoo HP Hown. destruct (own4_elim P Hown b) as [E1 E2].
  destruct (Hm o Ho) as (Mu & Md & Nud). destruct (Hm o' Ho') as (Mu' & Md' & Nud').
  destruct (Hd o o' Ho Ho' Hoo) as (D1 & D2 & D3 & D4).
  destruct (extract2 _ orbs o o' ND Ho Ho' Hoo) as (r & Pr & Nr & Nr').
  unfold Stot. eapply meq_trans; [apply comm_meq; [apply meq_refl|apply (m_sum_perm _ _ _ _ Pr)]|].
  eapply meq_trans; [apply comm_sum_r|].
  (* the two own orbitals together, then the others one by one *)
  assert (Hown2 : meq (m_add (m_comm (zmat (modes4 o o') P) (smat b o)) (m_comm (zmat (modes4 o o') P) (smat b o'))) m_zero).
  { eapply meq_trans; [apply meq_sym, comm_add_r|].
    eapply meq_trans.
    { apply comm_meq; [apply meq_refl|].
      eapply meq_trans.
      { apply meq_add; [apply (smat_zmat b o (modes4 o o') 0 1)|apply (smat_zmat b o' (modes4 o o') 2 3)]; reflexivity. }
      apply meq_sym. apply (zmat_app K k0 k1 kadd kmul ksub kopp kzero Hring M). }
    apply (commute_by_computation K k0 k1 kadd kmul ksub kopp kzero Hring M (modes4 o o')).
    - unfold modes4. nodup_tac.
    - unfold modes4. repeat constructor; assumption.
    - exact HP.
    - apply Forall_app. split; apply fS_range; cbn; lia.
    - exact E1. }
  intros s t Hs Ht. unfold PresetsSpec.m_sum. rewrite !(AlgebraBasics.ksum_cons K k0 kadd).
  specialize (Hown2 s t Hs Ht). unfold PresetsSpec.m_add, PresetsSpec.m_zero in *.
  set (F := fun x => m_comm (zmat (modes4 o o') P) (smat b x) s t) in *.
  change (kadd (F o) (kadd (F o') (PolySem.ksum K k0 kadd r F)) = k0).
  change (kadd (F o) (F o') = k0) in Hown2.
  assert (Hr : PolySem.ksum K k0 kadd r F = k0); [|
    transitivity (kadd (kadd (F o) (F o')) (PolySem.ksum K k0 kadd r F)); [ring|rewrite Hown2, Hr; ring]].
  unfold F.
  apply (AlgebraBasics.ksum_zero_ext K k0 k1 kadd kmul ksub kopp kzero Hring). intros p Hp.
  assert (Hpin : In p orbs) by (apply (Permutation_in _ (Permutation_sym Pr)); right; right; exact Hp).
  assert (Hpo : o <> p) by (intro E; subst p; contradiction).
  assert (Hpo' : o' <> p) by (intro E; subst p; contradiction).
  destruct (Hm p Hpin) as (Mup & Mdp & Nudp).
  destruct (Hd o p Ho Hpin Hpo) as (F1 & F2 & F3 & F4).
  destruct (Hd o' p Ho' Hpin Hpo') as (G1 & G2 & G3 & G4).
  assert (Hz : meq (m_comm (zmat (modes4 o o') P) (smat b p)) m_zero).
  { eapply meq_trans.
    { apply comm_meq.
      - apply meq_sym. apply (zmat_extend (modes4 o o') (modes2 p)). exact HP.
      - apply (smat_zmat b p (modes4 o o' ++ modes2 p) 4 5); reflexivity. }
    apply (commute_by_computation K k0 k1 kadd kmul ksub kopp kzero Hring M (modes4 o o' ++ modes2 p)).
    - unfold modes4, modes2. cbn [app]. nodup_tac.
    - unfold modes4, modes2. cbn [app]. repeat constructor; assumption.
    - eapply Forall_impl; [|exact HP]. intros mc Hmc. eapply Forall_impl; [|exact Hmc]. cbn. intros; lia.
    - apply fS_range; cbn; lia.
    - exact E2. }
  exact (Hz s t Hs Ht).
Qed.

(** * Step 1 and conclusion: the spin-spin exchange *)
Variable leqb : L -> L -> bool.
Hypothesis leqb_spec : forall a b, leqb a b = true <-> a = b.

Local Notation x_szsz := (PresetsSpec.x_szsz K k0 k1 kmul ksub khalf L idx).
Local Notation x_spsm := (PresetsSpec.x_spsm K k0 k1 kopp L idx).
Local Notation x_smsp := (PresetsSpec.x_smsp K k0 k1 kopp L idx).
Local Notation xspec_ss := (PresetsSpec.xspec_ss K k0 k1 kadd kmul ksub kopp khalf L idx).
Local Notation spec_ss := (PresetsSpec.spec_ss K k0 k1 kadd kmul ksub kopp khalf M L idx).
Local Notation spec_level := (PresetsSpec.spec_level K k0 k1 kadd kmul L idx).
Local Notation xspec_coulombP := (PresetsSpec.xspec_coulombP K k0 k1 kadd kmul ksub kopp khalf L idx).
Local Notation spec_coulombP := (PresetsSpec.spec_coulombP K k0 k1 kadd kmul ksub kopp khalf M L idx).
Local Notation spec_coulombP3 := (PresetsSpec.spec_coulombP3 K k0 k1 kadd kmul ksub kopp khalf M L idx).

Lemma half_twice : kmul khalf (kadd khalf khalf) = khalf.
Proof. rewrite Hhalf. ring. Qed.

Lemma cm_nn : forall i j s t, i < M -> j < M -> length s = M -> length t = M ->
  cm [cdag i; cann i; cdag j; cann j] s t = m_nn i j s t.
Proof. intros i j s t Hi Hj Hs Ht. exact (cm_nn_diag K k0 k1 kadd kmul ksub kopp kzero Hring M i j Hi Hj s t Hs Ht). Qed.
Lemma cm_n1 : forall i s t, i < M -> length s = M -> length t = M -> cm [cdag i; cann i] s t = m_n i s t.
Proof. intros i s t Hi Hs Ht. exact (cm_n_diag K k0 k1 kopp M i Hi s t Hs Ht). Qed.

Ltac zmat_unfold :=
  cbv [PresetsTransport.zmat fold_right map relabel fst snd fN fNN fQ nth modes2 modes4
       P_level P_A P_X P_Y P_SS4 P_SS2 PresetsTransport.phi InitialRing.gen_phiZ InitialRing.gen_phiPOS cdag cann].

Lemma ss_piece4 : forall l1 l2 a J,
  umode (l1, a) < M -> dmode (l1, a) < M -> umode (l2, a) < M -> dmode (l2, a) < M ->
  meq (m_scale J (m_add (x_szsz l1 l2 a) (m_scale khalf (m_add (x_spsm l1 l2 a) (x_smsp l1 l2 a)))))
      (m_scale (kmul J (kmul khalf khalf)) (zmat (modes4 (l1, a) (l2, a)) P_SS4)).
Proof.
  intros l1 l2 a J H1 H2 H3 H4 s t Hs Ht. unfold PresetsSpec.m_scale, PresetsSpec.m_add.
  zmat_unfold.
  change (cm [(false, umode (l1, a)); (true, umode (l1, a)); (false, umode (l2, a)); (true, umode (l2, a))] s t)
    with (cm [cdag (umode (l1, a)); cann (umode (l1, a)); cdag (umode (l2, a)); cann (umode (l2, a))] s t).
  change (cm [(false, dmode (l1, a)); (true, dmode (l1, a)); (false, dmode (l2, a)); (true, dmode (l2, a))] s t)
    with (cm [cdag (dmode (l1, a)); cann (dmode (l1, a)); cdag (dmode (l2, a)); cann (dmode (l2, a))] s t).
  change (cm [(false, umode (l1, a)); (true, umode (l1, a)); (false, dmode (l2, a)); (true, dmode (l2, a))] s t)
    with (cm [cdag (umode (l1, a)); cann (umode (l1, a)); cdag (dmode (l2, a)); cann (dmode (l2, a))] s t).
  change (cm [(false, dmode (l1, a)); (true, dmode (l1, a)); (false, umode (l2, a)); (true, umode (l2, a))] s t)
    with (cm [cdag (dmode (l1, a)); cann (dmode (l1, a)); cdag (umode (l2, a)); cann (umode (l2, a))] s t).
  rewrite !cm_nn by assumption.
  unfold PresetsSpec.x_szsz, PresetsSpec.sz_val, PresetsSpec.m_nn, PresetsSpec.m_diag, PresetsSpec.x_spsm,
    PresetsSpec.x_smsp, PresetsSpec.up, PresetsSpec.down, umode, dmode, cdag, cann. cbn [fst snd].
  set (p := cm _ s t). set (q := cm _ s t).
  replace (kmul khalf (kadd p q)) with (kmul (kmul khalf (kadd khalf khalf)) (kadd p q)) by (rewrite half_twice; reflexivity).
  destruct (state_eqb s t); ring.
Qed.

Lemma ss_piece2 : forall l a J, umode (l, a) < M -> dmode (l, a) < M ->
  meq (m_scale J (m_add (x_szsz l l a) (m_scale khalf (m_add (x_spsm l l a) (x_smsp l l a)))))
      (m_scale (kmul J (kmul khalf khalf)) (zmat (modes2 (l, a)) P_SS2)).
Proof.
  intros l a J H1 H2 s t Hs Ht. unfold PresetsSpec.m_scale, PresetsSpec.m_add.
  zmat_unfold.
  change (cm [(false, umode (l, a)); (true, umode (l, a)); (false, umode (l, a)); (true, umode (l, a))] s t)
    with (cm [cdag (umode (l, a)); cann (umode (l, a)); cdag (umode (l, a)); cann (umode (l, a))] s t).
  change (cm [(false, dmode (l, a)); (true, dmode (l, a)); (false, dmode (l, a)); (true, dmode (l, a))] s t)
    with (cm [cdag (dmode (l, a)); cann (dmode (l, a)); cdag (dmode (l, a)); cann (dmode (l, a))] s t).
  change (cm [(false, umode (l, a)); (true, umode (l, a)); (false, dmode (l, a)); (true, dmode (l, a))] s t)
    with (cm [cdag (umode (l, a)); cann (umode (l, a)); cdag (dmode (l, a)); cann (dmode (l, a))] s t).
  change (cm [(false, dmode (l, a)); (true, dmode (l, a)); (false, umode (l, a)); (true, umode (l, a))] s t)
    with (cm [cdag (dmode (l, a)); cann (dmode (l, a)); cdag (umode (l, a)); cann (umode (l, a))] s t).
  rewrite !cm_nn by assumption.
  unfold PresetsSpec.x_szsz, PresetsSpec.sz_val, PresetsSpec.m_nn, PresetsSpec.m_diag, PresetsSpec.x_spsm,
    PresetsSpec.x_smsp, PresetsSpec.up, PresetsSpec.down, umode, dmode, cdag, cann. cbn [fst snd].
  set (p := cm _ s t). set (q := cm _ s t).
  replace (kmul khalf (kadd p q)) with (kmul (kmul khalf (kadd khalf khalf)) (kadd p q)) by (rewrite half_twice; reflexivity).
  destruct (state_eqb s t); ring.
Qed.

Lemma P_SS4_range : zrange 4 P_SS4.
Proof. unfold zrange, P_SS4, fNN. repeat constructor. Qed.
Lemma P_SS2_range : zrange 2 P_SS2.
Proof. unfold zrange, P_SS2, fNN. repeat constructor. Qed.

(** [H_SS, S^+-_tot] = 0: spin-spin exchange between two different sites or of one site with itself, any
    number of orbitals, against the total spin of any set of orbitals that contains the ones it acts on *)
Theorem ss_su2 : forall (b : bool) (orbs : list orb) l1 l2 norb J,
  orbs_ok orbs -> (forall a, a < norb -> In (l1, a) orbs /\ In (l2, a) orbs) ->
  meq (m_comm (spec_ss l1 l2 norb J) (Stot b orbs)) m_zero.
Proof.
  intros b orbs l1 l2 norb J Hok Hin.
  eapply meq_trans; [apply comm_meq; [eapply xspec_ss_ok; exact Hring|apply meq_refl]|].
  unfold PresetsSpec.xspec_ss. eapply meq_trans; [apply comm_sum_l|]. apply comm_zero_sum. intros a Ha.
  apply in_seq in Ha. destruct (Hin a) as [I1 I2]; [lia|].
  pose proof Hok as (ND & Hm & Hd). destruct (Hm _ I1) as (A1 & A2 & _). destruct (Hm _ I2) as (A3 & A4 & _).
  destruct (leqb l1 l2) eqn:El.
  - apply leqb_spec in El. subst l2.
    eapply meq_trans; [apply comm_meq; [apply ss_piece2; assumption|apply meq_refl]|].
    eapply meq_trans; [apply comm_scale_l|]. apply scale_zero.
    apply piece2_commutes; [exact Hok|exact I1|exact P_SS2_range|exact own2_SS2].
  - assert (Hne : (l1, a) <> (l2, a)).
    { intro E. inversion E as [E']. apply leqb_spec in E'. congruence. }
    eapply meq_trans; [apply comm_meq; [apply ss_piece4; assumption|apply meq_refl]|].
    eapply meq_trans; [apply comm_scale_l|]. apply scale_zero.
    apply piece4_commutes; [exact Hok|exact I1|exact I2|exact Hne|exact P_SS4_range|exact own4_SS4].
Qed.

(** * Step 1 and conclusion: the Kanamori interaction (two spins, any number of orbitals, any U') *)
Section Kanamori.
Variables (l : L) (norb : nat) (U Up J eps : K).
Hypothesis Hr : forall a, a < norb -> umode (l, a) < M /\ dmode (l, a) < M.

Let u (a : nat) : nat := umode (l, a).
Let d (a : nat) : nat := dmode (l, a).
Let R := rng norb.
Let ne (a a' : nat) : bool := negb (a =? a').
Let PS (F : nat -> nat -> mat) : mat := m_sum R (fun a => m_sum_if R (ne a) (fun a' => F a a')).
Let B1 (a a' : nat) : mat := m_nn (u a) (d a').
Let C1 (a a' : nat) : mat := m_nn (d a) (d a').
Let C2 (a a' : nat) : mat := m_nn (u a) (u a').
Let Q1 (a a' : nat) : mat := x_quartic (u a) (d a') (u a') (d a).
Let Q2 (a a' : nat) : mat := x_quartic (u a') (d a') (u a) (d a).
Let SA : mat := m_sum R (fun a => m_nn (u a) (d a)).
Let LV : mat := m_sum R (fun a => m_add (m_n (d a)) (m_n (u a))).

Lemma PS_add : forall F G, meq (PS (fun a a' => m_add (F a a') (G a a'))) (m_add (PS F) (PS G)).
Proof.
  intros F G. unfold PS. eapply meq_trans; [|eapply m_sum_add; exact Hring].
  apply meq_sum. intros a _. eapply m_sum_if_add. exact Hring.
Qed.
Lemma PS_sym : forall F, meq (PS F) (PS (fun a a' => F a' a)).
Proof.
  intros F. unfold PS. eapply (m_sum_if_sym K k0 k1 kadd kmul ksub kopp kzero Hring M R ne).
  intros a b. unfold ne. rewrite Nat.eqb_sym. reflexivity.
Qed.
Lemma PS_ext : forall F G, (forall a a', a < norb -> a' < norb -> a <> a' -> meq (F a a') (G a a')) -> meq (PS F) (PS G).
Proof.
  intros F G H. unfold PS. apply meq_sum. intros a Ha. apply meq_sum_if. intros a' Ha' Hne.
  apply in_seq in Ha. apply in_seq in Ha'. apply H; try lia.
  unfold ne in Hne. intro E. subst a'. rewrite Nat.eqb_refl in Hne. discriminate.
Qed.

(** sums over the two spin values *)
Lemma sg2 : forall f : nat -> nat -> mat,
  meq (m_sum (rng 2) (fun z => m_sum_if (rng 2) (fun z' => z' <? z) (fun z' => f z z'))) (f 1 0).
Proof.
  intros f s t _ _.
  cbv [PresetsSpec.m_sum PresetsSpec.m_sum_if PresetsSpec.rng seq PolySem.ksum fold_right Nat.ltb Nat.leb PresetsSpec.m_zero].
  ring.
Qed.
Lemma s2 : forall g : nat -> mat, meq (m_sum (rng 2) g) (m_add (g 0) (g 1)).
Proof.
  intros g s t _ _.
  cbv [PresetsSpec.m_sum PresetsSpec.m_add PresetsSpec.rng seq PolySem.ksum fold_right]. ring.
Qed.

Lemma kan_stepA : meq (xspec_coulombP l norb 2 U Up J eps)
  (m_add (m_add (m_add (m_add (m_scale U SA) (m_scale Up (PS B1)))
                       (m_scale (kmul (ksub Up J) khalf) (PS (fun a a' => m_add (C1 a a') (C2 a a')))))
                (m_scale (kopp J) (PS (fun a a' => m_add (Q1 a a') (Q2 a a')))))
         (m_scale eps LV)).
Proof.
  cbv beta zeta delta [PresetsSpec.xspec_coulombP].
  apply meq_add; [apply meq_add; [apply meq_add; [apply meq_add|]|]|].
  - apply meq_scale. unfold SA. apply meq_sum. intros a _. apply (sg2 (fun z z' => m_nn (idx l a z) (idx l a z'))).
  - apply meq_scale. unfold PS. apply meq_sum. intros a _. apply meq_sum_if. intros a' _ _.
    apply (sg2 (fun z z' => m_nn (idx l a z) (idx l a' z'))).
  - apply meq_scale. unfold PS. apply meq_sum. intros a _. apply meq_sum_if. intros a' _ _.
    apply (s2 (fun z => m_nn (idx l a z) (idx l a' z))).
  - apply meq_scale. unfold PS. apply meq_sum. intros a _. apply meq_sum_if. intros a' _ _.
    apply (sg2 (fun z z' => m_add (x_quartic (idx l a z) (idx l a' z') (idx l a' z) (idx l a z'))
                                  (x_quartic (idx l a' z) (idx l a' z') (idx l a z) (idx l a z')))).
  - unfold PresetsSpec.spec_level, LV. eapply meq_trans; [|eapply m_sum_scale; exact Hring].
    apply meq_sum. intros a _.
    eapply meq_trans; [apply (s2 (fun z => m_scale eps (m_n (idx l a z))))|].
    apply meq_sym. eapply m_scale_add. exact Hring.
Qed.

Lemma zA : forall a, a < norb -> meq (zmat (modes2 (l, a)) P_A) (m_nn (u a) (d a)).
Proof.
  intros a Ha s t Hs Ht. destruct (Hr a Ha) as [H1 H2]. zmat_unfold.
  change (cm [(false, umode (l, a)); (true, umode (l, a)); (false, dmode (l, a)); (true, dmode (l, a))] s t)
    with (cm [cdag (umode (l, a)); cann (umode (l, a)); cdag (dmode (l, a)); cann (dmode (l, a))] s t).
  rewrite cm_nn by assumption. unfold u, d. ring.
Qed.
Lemma zL : forall a, a < norb -> meq (zmat (modes2 (l, a)) P_level) (m_add (m_n (d a)) (m_n (u a))).
Proof.
  intros a Ha s t Hs Ht. destruct (Hr a Ha) as [H1 H2]. zmat_unfold.
  change (cm [(false, umode (l, a)); (true, umode (l, a))] s t) with (cm [cdag (umode (l, a)); cann (umode (l, a))] s t).
  change (cm [(false, dmode (l, a)); (true, dmode (l, a))] s t) with (cm [cdag (dmode (l, a)); cann (dmode (l, a))] s t).
  rewrite !cm_n1 by assumption. unfold PresetsSpec.m_add, u, d. ring.
Qed.

Ltac fold_nn x y :=
  change (cm [(false, x); (true, x); (false, y); (true, y)]) with (cm [cdag x; cann x; cdag y; cann y]).

Lemma zX : forall a a', a < norb -> a' < norb ->
  meq (zmat (modes4 (l, a) (l, a')) P_X)
      (m_add (m_add (B1 a a') (B1 a' a)) (m_add (C1 a a') (C2 a a'))).
Proof.
  intros a a' Ha Ha' s t Hs Ht. destruct (Hr a Ha) as [H1 H2]. destruct (Hr a' Ha') as [H3 H4]. zmat_unfold.
  fold_nn (umode (l, a)) (dmode (l, a')). fold_nn (umode (l, a')) (dmode (l, a)).
  fold_nn (dmode (l, a)) (dmode (l, a')). fold_nn (umode (l, a)) (umode (l, a')).
  rewrite !cm_nn by assumption. unfold PresetsSpec.m_add, B1, C1, C2, u, d. ring.
Qed.

Lemma zY : forall a a', a < norb -> a' < norb ->
  meq (zmat (modes4 (l, a) (l, a')) P_Y)
      (m_add (m_add (C1 a a') (C2 a a')) (m_add (m_add (Q1 a a') (Q1 a' a)) (m_add (Q2 a a') (Q2 a' a)))).
Proof.
  intros a a' Ha Ha' s t Hs Ht. destruct (Hr a Ha) as [H1 H2]. destruct (Hr a' Ha') as [H3 H4]. zmat_unfold.
  fold_nn (dmode (l, a)) (dmode (l, a')). fold_nn (umode (l, a)) (umode (l, a')).
  rewrite !cm_nn by assumption.
  unfold PresetsSpec.m_add, C1, C2, Q1, Q2, u, d, PresetsSpec.x_quartic, cdag, cann. ring.
Qed.

Definition kan_dec : mat :=
  m_add (m_add (m_add (m_scale U (m_sum R (fun a => zmat (modes2 (l, a)) P_A)))
                      (m_scale eps (m_sum R (fun a => zmat (modes2 (l, a)) P_level))))
               (m_scale (kmul Up khalf) (PS (fun a a' => zmat (modes4 (l, a) (l, a')) P_X))))
        (m_scale (kmul (kopp J) khalf) (PS (fun a a' => zmat (modes4 (l, a) (l, a')) P_Y))).

Lemma two_half : forall x, x = kmul khalf (kadd x x).
Proof. intros x. transitivity (kmul (kadd khalf khalf) x); [rewrite Hhalf|]; ring. Qed.

Lemma kan_decomposition : meq (xspec_coulombP l norb 2 U Up J eps) kan_dec.
Proof.
  eapply meq_trans; [apply kan_stepA|]. unfold kan_dec.
  (* bring the pieces to sums of the same building blocks *)
  assert (EA : meq (m_sum R (fun a => zmat (modes2 (l, a)) P_A)) SA).
  { unfold SA. apply meq_sum. intros a Ha. apply in_seq in Ha. apply zA. lia. }
  assert (EL : meq (m_sum R (fun a => zmat (modes2 (l, a)) P_level)) LV).
  { unfold LV. apply meq_sum. intros a Ha. apply in_seq in Ha. apply zL. lia. }
  assert (EX : meq (PS (fun a a' => zmat (modes4 (l, a) (l, a')) P_X))
                   (m_add (m_add (PS B1) (PS B1)) (PS (fun a a' => m_add (C1 a a') (C2 a a'))))).
  { eapply meq_trans; [apply PS_ext; intros a a' Ha Ha' _; apply zX; assumption|].
    eapply meq_trans; [apply PS_add|]. apply meq_add; [|apply meq_refl].
    eapply meq_trans; [apply PS_add|]. apply meq_add; [apply meq_refl|].
    apply meq_sym. apply (PS_sym B1). }
  assert (EY : meq (PS (fun a a' => zmat (modes4 (l, a) (l, a')) P_Y))
                   (m_add (PS (fun a a' => m_add (C1 a a') (C2 a a')))
                          (m_add (PS (fun a a' => m_add (Q1 a a') (Q2 a a'))) (PS (fun a a' => m_add (Q1 a a') (Q2 a a')))))).
  { eapply meq_trans; [apply PS_ext; intros a a' Ha Ha' _; apply zY; assumption|].
    eapply meq_trans; [apply PS_add|]. apply meq_add; [apply meq_refl|].
    (* (Q1 + Q1') + (Q2 + Q2') = (Q1 + Q2) + (Q1' + Q2'), and the primed sum is the unprimed one relabelled *)
    eapply meq_trans.
    { apply (PS_ext _ (fun a a' => m_add (m_add (Q1 a a') (Q2 a a')) (m_add (Q1 a' a) (Q2 a' a)))).
      intros a a' _ _ _ s t _ _. unfold PresetsSpec.m_add. ring. }
    eapply meq_trans; [apply PS_add|]. apply meq_add; [apply meq_refl|].
    apply meq_sym. apply (PS_sym (fun a a' => m_add (Q1 a a') (Q2 a a'))). }
  set (MC := PS (fun a a' => m_add (C1 a a') (C2 a a'))) in *.
  set (MQ := PS (fun a a' => m_add (Q1 a a') (Q2 a a'))) in *.
  set (MB := PS B1) in *.
  intros s t Hs Ht. unfold PresetsSpec.m_add, PresetsSpec.m_scale.
  specialize (EA s t Hs Ht). specialize (EL s t Hs Ht). specialize (EX s t Hs Ht). specialize (EY s t Hs Ht).
  rewrite EA, EL, EX, EY. unfold PresetsSpec.m_add.
  set (a := SA s t). set (lv := LV s t). set (b := MB s t). set (c := MC s t). set (q := MQ s t).
  rewrite (two_half (kmul Up b)). rewrite (two_half (kmul (kopp J) q)). ring.
Qed.

Theorem kanamori_su2_x : forall (b : bool) (orbs : list orb),
  orbs_ok orbs -> (forall a, a < norb -> In (l, a) orbs) ->
  meq (m_comm (xspec_coulombP l norb 2 U Up J eps) (Stot b orbs)) m_zero.
Proof.
  intros b orbs Hok Hin.
  eapply meq_trans; [apply comm_meq; [apply kan_decomposition|apply meq_refl]|]. unfold kan_dec.
  assert (P2 : forall P, zrange 2 P -> own2 P = true ->
            meq (m_comm (m_sum R (fun a => zmat (modes2 (l, a)) P)) (Stot b orbs)) m_zero).
  { intros P HP Ho. eapply meq_trans; [apply comm_sum_l|]. apply comm_zero_sum. intros a Ha. apply in_seq in Ha.
    apply piece2_commutes; [exact Hok|apply Hin; lia|exact HP|exact Ho]. }
  assert (P4 : forall P, zrange 4 P -> own4 P = true ->
            meq (m_comm (PS (fun a a' => zmat (modes4 (l, a) (l, a')) P)) (Stot b orbs)) m_zero).
  { intros P HP Ho. unfold PS. eapply meq_trans; [apply comm_sum_l|]. apply comm_zero_sum. intros a Ha.
    apply in_seq in Ha. unfold PresetsSpec.m_sum_if.
    eapply meq_trans; [apply comm_sum_l|]. apply comm_zero_sum. intros a' Ha'. apply in_seq in Ha'.
    destruct (ne a a') eqn:E.
    - apply piece4_commutes; [exact Hok|apply Hin; lia|apply Hin; lia| |exact HP|exact Ho].
      intro E'. inversion E'. subst a'. unfold ne in E. rewrite Nat.eqb_refl in E. discriminate.
    - intros s t Hs Ht. unfold PresetsSpec.m_comm, PresetsSpec.m_sub.
      rewrite (m_mul_zero_l K k0 k1 kadd kmul ksub kopp kzero Hring M _ s t Hs Ht).
      rewrite (m_mul_zero_r K k0 k1 kadd kmul ksub kopp kzero Hring M _ s t Hs Ht).
      unfold PresetsSpec.m_zero. ring. }
  eapply meq_trans; [apply comm_add_l|]. apply add_zero.
  - eapply meq_trans; [apply comm_add_l|]. apply add_zero.
    + eapply meq_trans; [apply comm_add_l|]. apply add_zero.
      * eapply meq_trans; [apply comm_scale_l|]. apply scale_zero. apply P2; [|exact own2_A].
        unfold zrange, P_A, fNN. repeat constructor.
      * eapply meq_trans; [apply comm_scale_l|]. apply scale_zero. apply P2; [|exact own2_level].
        unfold zrange, P_level, fN. repeat constructor.
    + eapply meq_trans; [apply comm_scale_l|]. apply scale_zero. apply P4; [|exact own4_X].
      unfold zrange, P_X, fNN. repeat constructor.
  - eapply meq_trans; [apply comm_scale_l|]. apply scale_zero. apply P4; [|exact own4_Y].
    unfold zrange, P_Y, fNN, fQ. repeat constructor.
Qed.

End Kanamori.

(** [H_Kanamori(U, U', J), S^+-_tot] = 0 for every U' *)
Theorem kanamori_su2_general : forall (b : bool) (orbs : list orb) l norb U Up J eps,
  orbs_ok orbs -> (forall a, a < norb -> In (l, a) orbs) ->
  meq (m_comm (spec_coulombP l norb 2 U Up J eps) (Stot b orbs)) m_zero.
Proof.
  intros b orbs l norb U Up J eps Hok Hin.
  eapply meq_trans; [apply comm_meq; [eapply xspec_coulombP_ok; exact Hring|apply meq_refl]|].
  apply kanamori_su2_x; try assumption.
  intros a Ha. destruct Hok as (_ & Hm & _). destruct (Hm _ (Hin a Ha)) as (A1 & A2 & _). split; assumption.
Qed.

(** the case named in the property: U' = U - 2J (LatticePresets::addCoulombP with three parameters) *)
Theorem kanamori_su2 : forall (b : bool) (orbs : list orb) l norb U J eps,
  orbs_ok orbs -> (forall a, a < norb -> In (l, a) orbs) ->
  meq (m_comm (spec_coulombP3 l norb 2 U J eps) (Stot b orbs)) m_zero.
Proof. intros. unfold PresetsSpec.spec_coulombP3. apply kanamori_su2_general; assumption. Qed.

(** * In terms of sites: S^+-_tot of PresetsSpec over a list of two-spin sites (label, number of orbitals) *)
Local Notation m_Splus_tot := (PresetsSpec.m_Splus_tot K k0 k1 kadd kmul kopp M L idx).
Local Notation m_Sminus_tot := (PresetsSpec.m_Sminus_tot K k0 k1 kadd kmul kopp M L idx).
Local Notation cp := (coef_poly K k0 k1 kadd kmul kopp).
Local Notation prepare := (IndexHam.prepare L K k1 kadd kmul kopp kzero idx).
Local Notation lattice_of := (PresetsPrepare.lattice_of K L).
Local Notation find_site := (Lattice.find_site L leqb).

Definition site_orbs (sites : list (L * nat)) : list orb :=
  flat_map (fun ln => map (fun a => (fst ln, a)) (rng (snd ln))) sites.

(** labels are different; every mode of every listed site is a mode of the Fock space; different
    (label, orbital, spin) have different modes *)
Definition sites_ok (sites : list (L * nat)) : Prop :=
  NoDup (map fst sites) /\
  (forall l n a z, In (l, n) sites -> a < n -> z < 2 -> idx l a z < M) /\
  (forall l n a z l' n' a' z', In (l, n) sites -> In (l', n') sites -> a < n -> a' < n' -> z < 2 -> z' < 2 ->
     idx l a z = idx l' a' z' -> l = l' /\ a = a' /\ z = z').

Lemma in_site_orbs : forall sites o, In o (site_orbs sites) <-> exists n, In (fst o, n) sites /\ snd o < n.
Proof.
  intros sites [l a]. unfold site_orbs. rewrite in_flat_map. cbn [fst snd]. split.
  - intros ([l' n] & Hin & Hm). cbn [fst snd] in Hm. apply in_map_iff in Hm. destruct Hm as (a' & E & Ha').
    inversion E; subst. apply in_seq in Ha'. exists n. split; [exact Hin|lia].
  - intros (n & Hin & Ha). exists (l, n). split; [exact Hin|]. cbn [fst snd]. apply in_map_iff. exists a.
    split; [reflexivity|]. apply in_seq. lia.
Qed.

Lemma NoDup_app' : forall (A : Type) (x y : list A), NoDup x -> NoDup y -> (forall a, In a x -> In a y -> False) ->
  NoDup (x ++ y).
Proof.
  induction x as [|a x IH]; intros y Hx Hy Hd; [exact Hy|]. cbn [app]. inversion Hx as [|a' x' Hn Hx']; subst a' x'.
  constructor.
  - intro H. apply in_app_or in H. destruct H as [H|H]; [contradiction|]. apply (Hd a); [left; reflexivity|exact H].
  - apply IH; [exact Hx'|exact Hy|]. intros b Hb1 Hb2. apply (Hd b); [right; exact Hb1|exact Hb2].
Qed.

Lemma NoDup_site_orbs : forall sites, NoDup (map fst sites) -> NoDup (site_orbs sites).
Proof.
  induction sites as [|[l n] sites IH]; intros ND; [constructor|]. cbn [map fst] in ND.
  inversion ND as [|x y Hn ND']; subst x y. change (site_orbs ((l, n) :: sites))
    with (map (fun a => (l, a)) (rng n) ++ site_orbs sites).
  apply NoDup_app'.
  - apply FinFun.Injective_map_NoDup; [intros a b E; inversion E; reflexivity|apply seq_NoDup].
  - apply IH. exact ND'.
  - intros [l' a] H1 H2. apply in_map_iff in H1. destruct H1 as (a' & E & _). inversion E; subst l' a'.
    apply in_site_orbs in H2. destruct H2 as (n' & Hin & _). cbn [fst] in Hin.
    apply Hn. apply in_map_iff. exists (l, n'). split; [reflexivity|exact Hin].
Qed.

Lemma orbs_ok_sites : forall sites, sites_ok sites -> orbs_ok (site_orbs sites).
Proof.
  intros sites (ND & Hm & Hi). split; [apply NoDup_site_orbs; exact ND|]. split.
  - intros [l a] Ho. apply in_site_orbs in Ho. destruct Ho as (n & Hin & Ha). cbn [fst snd] in *.
    unfold umode, dmode. cbn [fst snd]. split; [|split].
    + apply (Hm l n); [exact Hin|exact Ha|unfold spin_up; lia].
    + apply (Hm l n); [exact Hin|exact Ha|unfold spin_down; lia].
    + intro E. destruct (Hi l n a spin_up l n a spin_down Hin Hin Ha Ha) as (_ & _ & E'); try exact E;
        unfold spin_up, spin_down in *; try lia.
  - intros [l a] [l' a'] Ho Ho' Hne. apply in_site_orbs in Ho. apply in_site_orbs in Ho'.
    destruct Ho as (n & Hin & Ha). destruct Ho' as (n' & Hin' & Ha'). cbn [fst snd] in *.
    unfold umode, dmode. cbn [fst snd].
    assert (D : forall z z', z < 2 -> z' < 2 -> idx l a z <> idx l' a' z').
    { intros z z' Hz Hz' E. destruct (Hi l n a z l' n' a' z' Hin Hin' Ha Ha' Hz Hz' E) as (E1 & E2 & _).
      apply Hne. congruence. }
    repeat split; apply D; unfold spin_up, spin_down; lia.
Qed.

Lemma Stot_sites : forall (b : bool) sites,
  meq (if b then m_Splus_tot sites else m_Sminus_tot sites) (Stot b (site_orbs sites)).
Proof.
  intros b sites s t Hs Ht. unfold Stot, site_orbs, PresetsSpec.m_sum.
  rewrite (ksum_flat_map K k0 k1 kadd kmul ksub kopp kzero Hring).
  destruct b; unfold PresetsSpec.m_Splus_tot, PresetsSpec.m_Sminus_tot, PresetsSpec.m_sum;
    apply (AlgebraBasics.ksum_ext K k0 kadd); intros [l n] _; rewrite (AlgebraBasics.ksum_map K k0 kadd);
    apply (AlgebraBasics.ksum_ext K k0 kadd); intros a _; cbn [fst snd];
    unfold smat, umode, dmode, PresetsSpec.m_splus, PresetsSpec.m_sminus; cbn [fst snd];
    apply (hop_product K k0 k1 kadd kmul ksub kopp kzero Hring M _ _ s t Hs Ht).
Qed.

(** the property's statement: Kanamori with U' = U - 2J and the spin-spin exchange commute with the
    total-spin raising and lowering operators (of any collection of two-spin sites containing the ones they
    act on), for every number of orbitals and every position of the modes in the index space *)
Theorem kanamori_su2_sites : forall sites l norb U J eps, sites_ok sites -> In (l, norb) sites ->
  meq (m_comm (spec_coulombP3 l norb 2 U J eps) (m_Splus_tot sites)) m_zero /\
  meq (m_comm (spec_coulombP3 l norb 2 U J eps) (m_Sminus_tot sites)) m_zero.
Proof.
  intros sites l norb U J eps Hok Hin.
  assert (Ho : forall a, a < norb -> In (l, a) (site_orbs sites)).
  { intros a Ha. apply in_site_orbs. exists norb. split; assumption. }
  split.
  - eapply meq_trans; [apply comm_meq; [apply meq_refl|apply (Stot_sites true)]|].
    apply kanamori_su2; [apply orbs_ok_sites; exact Hok|exact Ho].
  - eapply meq_trans; [apply comm_meq; [apply meq_refl|apply (Stot_sites false)]|].
    apply kanamori_su2; [apply orbs_ok_sites; exact Hok|exact Ho].
Qed.

Theorem kanamori_su2_every_Uprime : forall sites l norb U Up J eps, sites_ok sites -> In (l, norb) sites ->
  meq (m_comm (spec_coulombP l norb 2 U Up J eps) (m_Splus_tot sites)) m_zero /\
  meq (m_comm (spec_coulombP l norb 2 U Up J eps) (m_Sminus_tot sites)) m_zero.
Proof.
  intros sites l norb U Up J eps Hok Hin.
  assert (Ho : forall a, a < norb -> In (l, a) (site_orbs sites)).
  { intros a Ha. apply in_site_orbs. exists norb. split; assumption. }
  split.
  - eapply meq_trans; [apply comm_meq; [apply meq_refl|apply (Stot_sites true)]|].
    apply kanamori_su2_general; [apply orbs_ok_sites; exact Hok|exact Ho].
  - eapply meq_trans; [apply comm_meq; [apply meq_refl|apply (Stot_sites false)]|].
    apply kanamori_su2_general; [apply orbs_ok_sites; exact Hok|exact Ho].
Qed.

Theorem ss_su2_sites : forall sites l1 l2 norb J, sites_ok sites -> In (l1, norb) sites -> In (l2, norb) sites ->
  meq (m_comm (spec_ss l1 l2 norb J) (m_Splus_tot sites)) m_zero /\
  meq (m_comm (spec_ss l1 l2 norb J) (m_Sminus_tot sites)) m_zero.
Proof.
  intros sites l1 l2 norb J Hok Hin1 Hin2.
  assert (Ho : forall a, a < norb -> In (l1, a) (site_orbs sites) /\ In (l2, a) (site_orbs sites)).
  { intros a Ha. split; apply in_site_orbs; exists norb; split; assumption. }
  split.
  - eapply meq_trans; [apply comm_meq; [apply meq_refl|apply (Stot_sites true)]|].
    apply ss_su2; [apply orbs_ok_sites; exact Hok|exact Ho].
  - eapply meq_trans; [apply comm_meq; [apply meq_refl|apply (Stot_sites false)]|].
    apply ss_su2; [apply orbs_ok_sites; exact Hok|exact Ho].
Qed.

(** ** ... and for the Hamiltonians the presets actually produce *)
Variable kconj : K -> K.
Local Notation vo := (kvops K kadd kmul ksub kopp kzero khalf kconj).
Local Notation denotes := (PresetsProofs.denotes K k0 k1 kadd kmul kopp kzero M L idx).

Lemma denotes_commutes : forall m w A S, denotes m w A -> meq (m_comm A S) m_zero ->
  forall h, prepare true (lattice_of m (fst w)) = Done h -> meq (m_comm (cp h) S) m_zero.
Proof.
  intros m w A S (_ & (h' & E & HA) & _) H h Eh. rewrite E in Eh. inversion Eh; subst h'.
  eapply meq_trans; [apply comm_meq; [exact HA|apply meq_refl]|exact H].
Qed.

Lemma site_ok_of_sites : forall sites l n, sites_ok sites -> In (l, n) sites -> PresetsProofs.site_ok M L idx l n 2.
Proof. intros sites l n (_ & Hm & _) Hin a z Ha Hz. apply (Hm l n); assumption. Qed.

Theorem addCoulombP3_su2 : forall sites m l norb U J eps h,
  sites_ok sites -> In (l, norb) sites -> find_site l m = Some (norb, 2) -> 2 <= norb ->
  prepare true (lattice_of m (fst (Lattice.addCoulombP3 L leqb K vo m l U J eps))) = Done h ->
  meq (m_comm (cp h) (m_Splus_tot sites)) m_zero /\ meq (m_comm (cp h) (m_Sminus_tot sites)) m_zero.
Proof.
  intros sites m l norb U J eps h Hok Hin F Hn Eh.
  pose proof (addCoulombP3_denotes K k0 k1 kadd kmul ksub kopp kzero Hring khalf kconj M L leqb idx m l norb 2 U J eps
                F Hn (le_n 2) (site_ok_of_sites sites l norb Hok Hin)) as D.
  destruct (kanamori_su2_sites sites l norb U J eps Hok Hin) as [Hp Hm].
  split; eapply denotes_commutes; eassumption.
Qed.

Theorem addCoulombP_su2 : forall sites m l norb U Up J eps h,
  sites_ok sites -> In (l, norb) sites -> find_site l m = Some (norb, 2) -> 2 <= norb ->
  prepare true (lattice_of m (fst (Lattice.addCoulombP L leqb K vo m l U Up J eps))) = Done h ->
  meq (m_comm (cp h) (m_Splus_tot sites)) m_zero /\ meq (m_comm (cp h) (m_Sminus_tot sites)) m_zero.
Proof.
  intros sites m l norb U Up J eps h Hok Hin F Hn Eh.
  pose proof (addCoulombP_denotes K k0 k1 kadd kmul ksub kopp kzero Hring khalf kconj M L leqb idx m l norb 2 U Up J eps
                F Hn (le_n 2) (site_ok_of_sites sites l norb Hok Hin)) as D.
  destruct (kanamori_su2_every_Uprime sites l norb U Up J eps Hok Hin) as [Hp Hm].
  split; eapply denotes_commutes; eassumption.
Qed.

Theorem addSS_su2 : forall cfg sites m l1 l2 norb J h,
  sites_ok sites -> In (l1, norb) sites -> In (l2, norb) sites ->
  find_site l1 m = Some (norb, 2) -> find_site l2 m = Some (norb, 2) ->
  prepare true (lattice_of m (fst (Lattice.addSS L leqb K vo cfg m l1 l2 J))) = Done h ->
  meq (m_comm (cp h) (m_Splus_tot sites)) m_zero /\ meq (m_comm (cp h) (m_Sminus_tot sites)) m_zero.
Proof.
  intros cfg sites m l1 l2 norb J h Hok Hin1 Hin2 F1 F2 Eh.
  pose proof (addSS_denotes K k0 k1 kadd kmul ksub kopp kzero Hring khalf kconj M L leqb leqb_spec idx cfg m l1 l2 norb J
                F1 F2 (site_ok_of_sites sites l1 norb Hok Hin1) (site_ok_of_sites sites l2 norb Hok Hin2)) as D.
  destruct (ss_su2_sites sites l1 l2 norb J Hok Hin1 Hin2) as [Hp Hm].
  split; eapply denotes_commutes; eassumption.
Qed.

End SU2.
