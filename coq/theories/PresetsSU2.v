(** PresetsSU2.v -- C04: the Kanamori interaction (every U', in particular U' = U - 2J) and the spin-spin
    exchange commute with the total-spin raising and lowering operators, for ANY number of orbitals and any
    position of the modes in the index space.

    Method (reduction to pairs of orbitals):
      1. the documented operator is rewritten as a combination, with ring coefficients, of "pieces" that live on
         one orbital (modes up, down) or on an ordered pair of different orbitals (four modes), each piece being
         an INTEGER combination of operator strings in the positions 0..1 resp. 0..3;
      2. for a piece P and the total spin operator S = sum_p s_p over a list of orbitals with pairwise different
         modes: [P, s_p] = 0 when p is not an orbital of P (computed once on 4 resp. 6 modes), and
         [P, s_a (+ s_b)] = 0 for its own orbital(s) (computed once on 2 resp. 4 modes);
      3. every such computation is done by the model's own normal-ordering routine over the integers
         (vm_compute) and transported to the actual modes by PresetsTransport.commute_by_computation.
    Nothing is assumed about the order of the modes: only that the modes involved are pairwise different. *)
Require Import Bool List Arith Lia ZArith Ring Ring_theory Permutation.
From PV Require Import Lattice.
From PV Require Import Outcome Fock Poly PolySem CAR AlgebraBasics AlgebraProofs NormalizeProofs.
From PV Require Import PresetsSpec IndexHam PresetsBasics PresetsPrepare PresetsLeaves PresetsProofs PresetsTransport.
From PVgen Require Import Gen_LatticePresets.
Import ListNotations.
Local Open Scope nat_scope.

(** * Formal pieces (integer combinations of operator strings in positions) *)
Definition fN (p : nat) (c : Z) : monomial * Z := ([cdag p; cann p], c).
Definition fNN (p q : nat) (c : Z) : monomial * Z := ([cdag p; cann p; cdag q; cann q], c).
Definition fQ (a b c d : nat) (z : Z) : monomial * Z := ([cdag a; cdag b; cann c; cann d], z).
(** s = c^+_up c_down (raising, b = true) or c^+_down c_up (lowering) with up at position pu, down at pd *)
Definition fS (b : bool) (pu pd : nat) : list (monomial * Z) :=
  [(if b then [cdag pu; cann pd] else [cdag pd; cann pu], 1%Z)].

(** positions: one orbital = (0: up, 1: down); a pair (a, b) = (0: a up, 1: a down, 2: b up, 3: b down) *)
Definition P_level : list (monomial * Z) := [fN 0 1; fN 1 1].                      (* n_up + n_down *)
Definition P_A : list (monomial * Z) := [fNN 0 1 1].                              (* n_up n_down *)
(** n_a n_b = (n_a up + n_a down)(n_b up + n_b down) *)
Definition P_X : list (monomial * Z) := [fNN 0 3 1; fNN 2 1 1; fNN 1 3 1; fNN 0 2 1].
(** equal-spin densities + spin flips both ways + pair hoppings both ways *)
Definition P_Y : list (monomial * Z) :=
  [fNN 1 3 1; fNN 0 2 1; fQ 0 3 2 1 1; fQ 2 1 0 3 1; fQ 2 3 0 1 1; fQ 0 1 2 3 1].
(** 4 S_1.S_2 on two sites (1 = positions 0,1; 2 = positions 2,3) and on one site *)
Definition P_SS4 : list (monomial * Z) :=
  [fNN 0 2 1; fNN 1 3 1; fNN 0 3 (-1); fNN 1 2 (-1);
   ([cdag 0; cann 1; cdag 3; cann 2], 2%Z); ([cdag 1; cann 0; cdag 2; cann 3], 2%Z)].
Definition P_SS2 : list (monomial * Z) :=
  [fNN 0 0 1; fNN 1 1 1; fNN 0 1 (-1); fNN 1 0 (-1);
   ([cdag 0; cann 1; cdag 1; cann 0], 2%Z); ([cdag 1; cann 0; cdag 0; cann 1], 2%Z)].

(** the computations (model's normal ordering over Z) *)
Definition own2 (P : list (monomial * Z)) : bool :=
  match znorm (zcomm P (fS true 0 1)), znorm (zcomm P (fS false 0 1)),
        znorm (zcomm P (fS true 2 3)), znorm (zcomm P (fS false 2 3)) with
  | Done [], Done [], Done [], Done [] => true
  | _, _, _, _ => false
  end.
Definition own4 (P : list (monomial * Z)) : bool :=
  match znorm (zcomm P (fS true 0 1 ++ fS true 2 3)), znorm (zcomm P (fS false 0 1 ++ fS false 2 3)),
        znorm (zcomm P (fS true 4 5)), znorm (zcomm P (fS false 4 5)) with
  | Done [], Done [], Done [], Done [] => true
  | _, _, _, _ => false
  end.

Lemma own2_level : own2 P_level = true. Proof. vm_compute. reflexivity. Qed.
Lemma own2_A : own2 P_A = true. Proof. vm_compute. reflexivity. Qed.
Lemma own2_SS2 : own2 P_SS2 = true. Proof. vm_compute. reflexivity. Qed.
Lemma own4_X : own4 P_X = true. Proof. vm_compute. reflexivity. Qed.
Lemma own4_Y : own4 P_Y = true. Proof. vm_compute. reflexivity. Qed.
Lemma own4_SS4 : own4 P_SS4 = true. Proof. vm_compute. reflexivity. Qed.

(** * Lists *)
Lemma extract1 : forall (A : Type) (l : list A) x, NoDup l -> In x l ->
  exists r, Permutation l (x :: r) /\ ~ In x r.
Proof.
  intros A l x ND Hin. apply in_split in Hin. destruct Hin as (l1 & l2 & ->).
  exists (l1 ++ l2). split; [symmetry; apply Permutation_middle|]. apply NoDup_remove_2. exact ND.
Qed.

Lemma extract2 : forall (A : Type) (l : list A) x y, NoDup l -> In x l -> In y l -> x <> y ->
  exists r, Permutation l (x :: y :: r) /\ ~ In x r /\ ~ In y r.
Proof.
  intros A l x y ND Hx Hy Hxy. destruct (extract1 A l x ND Hx) as (r1 & P1 & N1).
  assert (ND1 : NoDup (x :: r1)) by (eapply Permutation_NoDup; eassumption).
  assert (Hy1 : In y r1).
  { apply (Permutation_in _ P1) in Hy. destruct Hy as [E|Hy]; [congruence|exact Hy]. }
  inversion ND1 as [|x' l' _ NDr1]; subst.
  destruct (extract1 A r1 y NDr1 Hy1) as (r2 & P2 & N2).
  exists r2. split; [|split].
  - eapply Permutation_trans; [exact P1|]. constructor. exact P2.
  - intro H. apply N1. apply (Permutation_in _ (Permutation_sym P2)). right. exact H.
  - exact N2.
Qed.

Section SU2.
Variable K : Type.
Variables (k0 k1 : K) (kadd kmul ksub : K -> K -> K) (kopp : K -> K).
Variable kzero : K -> bool.
Hypothesis Hring : ring_ok K k0 k1 kadd kmul ksub kopp kzero.
Let Rth : ring_theory k0 k1 kadd kmul ksub kopp (@eq K) := proj1 Hring.
Add Ring Kring_SU2 : Rth.
Variable khalf : K.
Hypothesis Hhalf : kadd khalf khalf = k1.
Variable M : nat.
Variable L : Type.
Variable idx : L -> nat -> nat -> nat.

Local Notation cm := (coef_mono K k0 k1 kopp).
Local Notation ksum := (@PolySem.ksum K k0 kadd _).
Local Notation mat := (PresetsSpec.mat K).
Local Notation m_zero := (PresetsSpec.m_zero K k0).
Local Notation m_add := (PresetsSpec.m_add K kadd).
Local Notation m_sub := (PresetsSpec.m_sub K ksub).
Local Notation m_scale := (PresetsSpec.m_scale K kmul).
Local Notation m_mul := (PresetsSpec.m_mul K k0 kadd kmul M).
Local Notation m_comm := (PresetsSpec.m_comm K k0 kadd kmul ksub M).
Local Notation m_sum := (@PresetsSpec.m_sum K k0 kadd _).
Local Notation m_sum_if := (@PresetsSpec.m_sum_if K k0 kadd _).
Local Notation m_diag := (PresetsSpec.m_diag K k0).
Local Notation meq := (PresetsSpec.meq K M).
Local Notation m_n := (PresetsSpec.m_n K k0 k1).
Local Notation m_nn := (PresetsSpec.m_nn K k0 k1 kmul).
Local Notation rng := PresetsSpec.rng.
Local Notation x_quartic := (PresetsSpec.x_quartic K k0 k1 kopp).
Local Notation x_hop := (PresetsSpec.x_hop K k0 k1 kopp).
Local Notation zmat := (PresetsTransport.zmat K k0 k1 kadd kmul kopp).
Local Notation phi := (PresetsTransport.phi K k0 k1 kadd kmul kopp).

(** ** orbitals and the total spin operators *)
Definition orb := (L * nat)%type.
Definition umode (o : orb) : nat := idx (fst o) (snd o) spin_up.
Definition dmode (o : orb) : nat := idx (fst o) (snd o) spin_down.
(** s^+_o = c^+_{o up} c_{o down} (b = true), s^-_o = c^+_{o down} c_{o up} (b = false) *)
Definition smat (b : bool) (o : orb) : mat :=
  if b then x_hop (umode o) (dmode o) else x_hop (dmode o) (umode o).
Definition Stot (b : bool) (orbs : list orb) : mat := m_sum orbs (smat b).

(** the orbitals are different and all their modes are different modes of the Fock space *)
Definition orbs_ok (orbs : list orb) : Prop :=
  NoDup orbs /\
  (forall o, In o orbs -> umode o < M /\ dmode o < M /\ umode o <> dmode o) /\
  (forall o o', In o orbs -> In o' orbs -> o <> o' ->
     umode o <> umode o' /\ umode o <> dmode o' /\ dmode o <> umode o' /\ dmode o <> dmode o').

Definition modes2 (o : orb) : list nat := [umode o; dmode o].
Definition modes4 (o o' : orb) : list nat := [umode o; dmode o; umode o'; dmode o'].

(** ** generalities on commutators *)
Lemma comm_meq : forall A A' B B', meq A A' -> meq B B' -> meq (m_comm A B) (m_comm A' B').
Proof. intros. unfold PresetsSpec.m_comm. apply meq_sub; apply meq_mul; assumption. Qed.
Lemma comm_sum_r : forall (X : Type) (l : list X) A (f : X -> mat),
  meq (m_comm A (m_sum l f)) (m_sum l (fun x => m_comm A (f x))).
Proof.
  intros X l A f s t Hs Ht. unfold PresetsSpec.m_comm, PresetsSpec.m_sub.
  rewrite (m_mul_sum_r K k0 k1 kadd kmul ksub kopp kzero Hring M X l A f s t Hs Ht).
  rewrite (m_mul_sum_l K k0 k1 kadd kmul ksub kopp kzero Hring M X l f A s t Hs Ht).
  unfold PresetsSpec.m_sum. rewrite <- (AlgebraBasics.ksum_sub K k0 k1 kadd kmul ksub kopp kzero Hring). reflexivity.
Qed.
Lemma comm_sum_l : forall (X : Type) (l : list X) (f : X -> mat) B,
  meq (m_comm (m_sum l f) B) (m_sum l (fun x => m_comm (f x) B)).
Proof.
  intros X l f B s t Hs Ht. unfold PresetsSpec.m_comm, PresetsSpec.m_sub.
  rewrite (m_mul_sum_r K k0 k1 kadd kmul ksub kopp kzero Hring M X l B f s t Hs Ht).
  rewrite (m_mul_sum_l K k0 k1 kadd kmul ksub kopp kzero Hring M X l f B s t Hs Ht).
  unfold PresetsSpec.m_sum. rewrite <- (AlgebraBasics.ksum_sub K k0 k1 kadd kmul ksub kopp kzero Hring). reflexivity.
Qed.
Lemma comm_add_l : forall A B C, meq (m_comm (m_add A B) C) (m_add (m_comm A C) (m_comm B C)).
Proof.
  intros A B C s t Hs Ht. unfold PresetsSpec.m_comm, PresetsSpec.m_sub. unfold PresetsSpec.m_add at 3.
  rewrite (m_mul_add_l K k0 k1 kadd kmul ksub kopp kzero Hring M A B C s t Hs Ht).
  rewrite (m_mul_add_r K k0 k1 kadd kmul ksub kopp kzero Hring M C A B s t Hs Ht).
  unfold PresetsSpec.m_add. ring.
Qed.
Lemma comm_add_r : forall A B C, meq (m_comm A (m_add B C)) (m_add (m_comm A B) (m_comm A C)).
Proof.
  intros A B C s t Hs Ht. unfold PresetsSpec.m_comm, PresetsSpec.m_sub. unfold PresetsSpec.m_add at 3.
  rewrite (m_mul_add_r K k0 k1 kadd kmul ksub kopp kzero Hring M A B C s t Hs Ht).
  rewrite (m_mul_add_l K k0 k1 kadd kmul ksub kopp kzero Hring M B C A s t Hs Ht).
  unfold PresetsSpec.m_add. ring.
Qed.
Lemma comm_scale_l : forall c A B, meq (m_comm (m_scale c A) B) (m_scale c (m_comm A B)).
Proof.
  intros c A B s t Hs Ht. unfold PresetsSpec.m_comm, PresetsSpec.m_sub.
  rewrite (m_mul_scale_l K k0 k1 kadd kmul ksub kopp kzero Hring M c A B s t Hs Ht).
  rewrite (m_mul_scale_r K k0 k1 kadd kmul ksub kopp kzero Hring M c B A s t Hs Ht).
  unfold PresetsSpec.m_scale. ring.
Qed.
Lemma comm_zero_sum : forall (X : Type) (l : list X) (f : X -> mat),
  (forall x, In x l -> meq (f x) m_zero) -> meq (m_sum l f) m_zero.
Proof.
  intros X l f H. eapply meq_trans; [apply meq_sum; exact H|].
  eapply m_sum_zero. exact Hring.
Qed.
Lemma scale_zero : forall c A, meq A m_zero -> meq (m_scale c A) m_zero.
Proof. intros c A H. eapply meq_trans; [apply meq_scale; exact H|]. eapply m_scale_zero. exact Hring. Qed.
Lemma add_zero : forall A B, meq A m_zero -> meq B m_zero -> meq (m_add A B) m_zero.
Proof.
  intros A B HA HB. eapply meq_trans; [apply meq_add; eassumption|]. eapply m_add_zero_l. exact Hring.
Qed.
Lemma m_sum_perm : forall (X : Type) (l l' : list X) (f : X -> mat), Permutation l l' -> meq (m_sum l f) (m_sum l' f).
Proof.
  intros X l l' f P s t _ _. unfold PresetsSpec.m_sum.
  apply (ksum_perm K k0 k1 kadd kmul ksub kopp kzero Hring). exact P.
Qed.

(** ** formal combinations under an assignment of modes *)
Lemma zmat_extend : forall modes extra P, zrange (length modes) P ->
  meq (zmat (modes ++ extra) P) (zmat modes P).
Proof.
  intros modes extra P HP s t _ _. induction P as [|[m c] P IH].
  - reflexivity.
  - inversion HP as [|x l Hm HP']; subst x l. cbn [fst] in Hm.
    rewrite !(zmat_cons K k0 k1 kadd kmul kopp). rewrite (IH HP'). f_equal. f_equal. f_equal.
    apply map_ext_in. intros [a i] Hi. unfold relabel. cbn [fst snd]. f_equal.
    unfold mono_in_range in Hm. rewrite Forall_forall in Hm. specialize (Hm _ Hi). cbn in Hm.
    apply app_nth1. exact Hm.
Qed.

Lemma phi_1 : phi 1%Z = k1.
Proof. apply (phi1 K k0 k1 kadd kmul ksub kopp kzero Hring). Qed.

Lemma smat_zmat : forall b o modes pu pd, nth pu modes 0 = umode o -> nth pd modes 0 = dmode o ->
  meq (smat b o) (zmat modes (fS b pu pd)).
Proof.
  intros b o modes pu pd Hu Hd s t _ _. unfold fS.
  rewrite (zmat_cons K k0 k1 kadd kmul kopp), (zmat_nil K k0 k1 kadd kmul kopp), phi_1.
  unfold smat, PresetsSpec.x_hop. destruct b; unfold relabel, cdag, cann; cbn [map fst snd]; rewrite Hu, Hd; ring.
Qed.

(** ** step 2 of the method: a one-orbital piece and a two-orbital piece against the total spin operator *)
Lemma own2_elim : forall P, own2 P = true ->
  forall b, znorm (zcomm P (fS b 0 1)) = Done [] /\ znorm (zcomm P (fS b 2 3)) = Done [].
Proof.
  intros P H b. unfold own2 in H. destruct b;
  destruct (znorm (zcomm P (fS true 0 1))) as [[|? ?]| | | |]; try discriminate;
  destruct (znorm (zcomm P (fS false 0 1))) as [[|? ?]| | | |]; try discriminate;
  destruct (znorm (zcomm P (fS true 2 3))) as [[|? ?]| | | |]; try discriminate;
  destruct (znorm (zcomm P (fS false 2 3))) as [[|? ?]| | | |]; try discriminate;
  split; reflexivity.
Qed.
Lemma own4_elim : forall P, own4 P = true ->
  forall b, znorm (zcomm P (fS b 0 1 ++ fS b 2 3)) = Done [] /\ znorm (zcomm P (fS b 4 5)) = Done [].
Proof.
  intros P H b. unfold own4 in H. destruct b;
  destruct (znorm (zcomm P (fS true 0 1 ++ fS true 2 3))) as [[|? ?]| | | |]; try discriminate;
  destruct (znorm (zcomm P (fS false 0 1 ++ fS false 2 3))) as [[|? ?]| | | |]; try discriminate;
  destruct (znorm (zcomm P (fS true 4 5))) as [[|? ?]| | | |]; try discriminate;
  destruct (znorm (zcomm P (fS false 4 5))) as [[|? ?]| | | |]; try discriminate;
  split; reflexivity.
Qed.

Lemma fS_range : forall b pu pd k, pu < k -> pd < k -> zrange k (fS b pu pd).
Proof.
  intros b pu pd k Hu Hd. unfold fS, zrange. constructor; [|constructor]. cbn [fst].
  destruct b; repeat constructor; assumption.
Qed.

Ltac nodup_tac :=
  repeat (constructor; [cbn [In]; intuition congruence|]); constructor.

Theorem piece2_commutes : forall (b : bool) (orbs : list orb) (o : orb) (P : list (monomial * Z)),
  orbs_ok orbs -> In o orbs -> zrange 2 P -> own2 P = true ->
  meq (m_comm (zmat (modes2 o) P) (Stot b orbs)) m_zero.
Proof.
  intros b orbs o P (ND & Hm & Hd) Ho HP Hown. destruct (own2_elim P Hown b) as [E1 E2].
  unfold Stot. eapply meq_trans; [apply comm_sum_r|]. apply comm_zero_sum. intros p Hp.
  destruct (Hm o Ho) as (Mu & Md & Nud).
  destruct (extract1 _ orbs o ND Ho) as (r & Pr & Nr).
  apply (Permutation_in _ Pr) in Hp. destruct Hp as [<-|Hp].
  - (* the orbital itself *)
    eapply meq_trans; [apply comm_meq; [apply meq_refl|apply (smat_zmat b o (modes2 o) 0 1); reflexivity]|].
    apply (commute_by_computation K k0 k1 kadd kmul ksub kopp kzero Hring M (modes2 o)).
    + unfold modes2. nodup_tac.
    + unfold modes2. repeat constructor; assumption.
    + exact HP.
    + apply fS_range; cbn; lia.
    + exact E1.
  - (* another orbital *)
    assert (Hpo : p <> o) by (intro E; subst p; contradiction).
    assert (Hpin : In p orbs) by (apply (Permutation_in _ (Permutation_sym Pr)); right; exact Hp).
    destruct (Hm p Hpin) as (Mu' & Md' & Nud').
    destruct (Hd o p Ho Hpin (fun E => Hpo (eq_sym E))) as (D1 & D2 & D3 & D4).
    eapply meq_trans.
    { apply comm_meq.
      - apply meq_sym. apply (zmat_extend (modes2 o) (modes2 p)). exact HP.
      - apply (smat_zmat b p (modes2 o ++ modes2 p) 2 3); reflexivity. }
    apply (commute_by_computation K k0 k1 kadd kmul ksub kopp kzero Hring M (modes2 o ++ modes2 p)).
    + unfold modes2. cbn [app]. nodup_tac.
    + unfold modes2. cbn [app]. repeat constructor; assumption.
    + eapply Forall_impl; [|exact HP]. intros mc Hmc. eapply Forall_impl; [|exact Hmc]. cbn. intros; lia.
    + apply fS_range; cbn; lia.
    + exact E2.
Qed.

Theorem piece4_commutes : forall (b : bool) (orbs : list orb) (o o' : orb) (P : list (monomial * Z)),
  orbs_ok orbs -> In o orbs -> In o' orbs -> o <> o' -> zrange 4 P -> own4 P = true ->
  meq (m_comm (zmat (modes4 o o') P) (Stot b orbs)) m_zero.
Proof.
  intros b orbs o o' P (ND & Hm & Hd) Ho Ho' Hoo HP Hown. destruct (own4_elim P Hown b) as [E1 E2].
  destruct (Hm o Ho) as (Mu & Md & Nud). destruct (Hm o' Ho') as (Mu' & Md' & Nud').
  destruct (Hd o o' Ho Ho' Hoo) as (D1 & D2 & D3 & D4).
  destruct (extract2 _ orbs o o' ND Ho Ho' Hoo) as (r & Pr & Nr & Nr').
  unfold Stot. eapply meq_trans; [apply comm_meq; [apply meq_refl|apply (m_sum_perm _ _ _ _ Pr)]|].
  eapply meq_trans; [apply comm_sum_r|].
  (* the two own orbitals together, then the others one by one *)
  assert (Hown2 : meq (m_add (m_comm (zmat (modes4 o o') P) (smat b o)) (m_comm (zmat (modes4 o o') P) (smat b o'))) m_zero).
  { eapply meq_trans; [apply meq_sym, comm_add_r|].
    eapply meq_trans.
    { apply comm_meq; [apply meq_refl|].
      eapply meq_trans.
      { apply meq_add; [apply (smat_zmat b o (modes4 o o') 0 1)|apply (smat_zmat b o' (modes4 o o') 2 3)]; reflexivity. }
      apply meq_sym. apply (zmat_app K k0 k1 kadd kmul ksub kopp kzero Hring M). }
    apply (commute_by_computation K k0 k1 kadd kmul ksub kopp kzero Hring M (modes4 o o')).
    - unfold modes4. nodup_tac.
    - unfold modes4. repeat constructor; assumption.
    - exact HP.
    - apply Forall_app. split; apply fS_range; cbn; lia.
    - exact E1. }
  intros s t Hs Ht. unfold PresetsSpec.m_sum. cbn [PolySem.ksum fold_right].
  specialize (Hown2 s t Hs Ht). unfold PresetsSpec.m_add, PresetsSpec.m_zero in *.
  transitivity (kadd k0 (PolySem.ksum K k0 kadd r (fun x => m_comm (zmat (modes4 o o') P) (smat b x) s t))).
  { rewrite <- Hown2. unfold PolySem.ksum. ring. }
  transitivity (kadd k0 k0); [|ring]. f_equal.
  apply (AlgebraBasics.ksum_zero_ext K k0 k1 kadd kmul ksub kopp kzero Hring). intros p Hp.
  assert (Hpin : In p orbs) by (apply (Permutation_in _ (Permutation_sym Pr)); right; right; exact Hp).
  assert (Hpo : o <> p) by (intro E; subst p; contradiction).
  assert (Hpo' : o' <> p) by (intro E; subst p; contradiction).
  destruct (Hm p Hpin) as (Mup & Mdp & Nudp).
  destruct (Hd o p Ho Hpin Hpo) as (F1 & F2 & F3 & F4).
  destruct (Hd o' p Ho' Hpin Hpo') as (G1 & G2 & G3 & G4).
  assert (Hz : meq (m_comm (zmat (modes4 o o') P) (smat b p)) m_zero).
  { eapply meq_trans.
    { apply comm_meq.
      - apply meq_sym. apply (zmat_extend (modes4 o o') (modes2 p)). exact HP.
      - apply (smat_zmat b p (modes4 o o' ++ modes2 p) 4 5); reflexivity. }
    apply (commute_by_computation K k0 k1 kadd kmul ksub kopp kzero Hring M (modes4 o o' ++ modes2 p)).
    - unfold modes4, modes2. cbn [app]. nodup_tac.
    - unfold modes4, modes2. cbn [app]. repeat constructor; assumption.
    - eapply Forall_impl; [|exact HP]. intros mc Hmc. eapply Forall_impl; [|exact Hmc]. cbn. intros; lia.
    - apply fS_range; cbn; lia.
    - exact E2. }
  exact (Hz s t Hs Ht).
Qed.

End SU2.
