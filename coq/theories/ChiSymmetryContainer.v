(** C13 -- the container theorems of Container4Proofs with the abstract chi instantiated by the Lehmann
    specification (ChiSymmetry.chi_lehmann) and the exchange symmetries DISCHARGED by ChiSymmetryProofs:
    the first one for all data, the second one for regular data (ChiSymmetry.edata_regular). *)
Require Import ZArith Bool List Ring Field.
From PVgen Require Import Gen_Container4.
From PV Require Import EDSpec Container4 Container4Spec Container4Proofs ChiSymmetry ChiSymmetryProofs.
Import ListNotations.
Local Open Scope Z_scope.

Section Lehmann.
Variable K : Type.
Variable NO : numops K.
Notation kopp := (nopp K NO).
Variable kinv : K -> K.
Hypothesis Kf : field_theory (n0 K NO) (n1 K NO) (nadd K NO) (nmul K NO) (nsub K NO) kopp (ndiv K NO) kinv (@eq K).
Hypothesis kabs_opp : forall x, nabs K NO (kopp x) = nabs K NO x.
Hypothesis nz_exact : forall x, nre_ltb K NO (n0 K NO) (nabs K NO x) = false -> x = n0 K NO.
Variable n : nat.
Variable D : edata K.
Hypothesis Dreg : edata_regular K NO n D.

Let Kr := F_R Kf.
Let s12 : swap12_law K kopp (chi_lehmann K NO D) := chi_lehmann_swap12 K NO Kr D.
Let s34 : swap34_law K kopp (chi_lehmann K NO D) := chi_lehmann_swap34 K NO kinv Kf kabs_opp nz_exact n D Dreg.
Let inv : neg_invol K kopp := kopp_invol K NO Kr.
Let scl : scale_law K kopp (kscale K NO) := kscale_law K NO.

Theorem alias_denotes_lehmann :
  (forall q, entry_denotes K (kscale K NO) (chi_lehmann K NO D) (perm_at set_owner_perm_index) q q) /\
  (forall req pos idx, In (req, pos, idx) set_aliases ->
     forall q, alias_cond q req = true ->
     entry_denotes K (kscale K NO) (chi_lehmann K NO D) (perm_at idx) q (alias_key q pos)).
Proof. exact (alias_denotes K kopp (kscale K NO) (chi_lehmann K NO D) s12 s34 inv scl). Qed.

Theorem eval_sound_lehmann :
  forall (fixed : bool) (van : quad -> bool) (nidx : nat) (ops : list cop) (q : quad) (t : triple)
         (sg : Z) (q0 : quad) (t0 : triple),
  eval_out fixed van nidx (fst (run fixed van nidx ops)) q t = OVal sg q0 t0 ->
  kscale K NO sg (chi_lehmann K NO D q0 t0) = chi_lehmann K NO D q t.
Proof. exact (eval_sound K kopp (kscale K NO) (chi_lehmann K NO D) s12 s34 inv scl). Qed.

Theorem container_refines_spec_lehmann :
  forall (van : quad -> bool) (nidx : nat) (ops : list cop) (q : quad) (t : triple),
  qfind q (snd (run true van nidx ops)) = Some Computed ->
  exists sg q0 t0,
    cstep true van nidx (fst (run true van nidx ops)) (Eval q t) = (fst (run true van nidx ops), OVal sg q0 t0) /\
    kscale K NO sg (chi_lehmann K NO D q0 t0) = chi_lehmann K NO D q t.
Proof. exact (container_refines_spec K kopp (kscale K NO) (chi_lehmann K NO D) s12 s34 inv scl). Qed.

Theorem listed_elements_evaluable_lehmann :
  forall (van : quad -> bool) (nidx : nat) (ops : list cop) (b : bool) (st' : cstate),
  cstep true van nidx (fst (run true van nidx ops)) (ComputeAll b) = (st', OUnit) ->
  forall q t, isInContainer st' q = true ->
  exists sg q0 t0, cstep true van nidx st' (Eval q t) = (st', OVal sg q0 t0) /\
                   kscale K NO sg (chi_lehmann K NO D q0 t0) = chi_lehmann K NO D q t.
Proof. exact (listed_elements_evaluable K kopp (kscale K NO) (chi_lehmann K NO D) s12 s34 inv scl). Qed.

End Lehmann.

(** with only the first symmetry discharged (commutative ring, ALL eigen-data, no regularity): the second one
    remains a hypothesis on the Lehmann chi *)
Theorem eval_sound_lehmann_swap12_discharged (K : Type) (NO : numops K)
  (Kr : ring_theory (n0 K NO) (n1 K NO) (nadd K NO) (nmul K NO) (nsub K NO) (nopp K NO) (@eq K)) (D : edata K) :
  swap34_law K (nopp K NO) (chi_lehmann K NO D) ->
  forall (fixed : bool) (van : quad -> bool) (nidx : nat) (ops : list cop) (q : quad) (t : triple)
         (sg : Z) (q0 : quad) (t0 : triple),
  eval_out fixed van nidx (fst (run fixed van nidx ops)) q t = OVal sg q0 t0 ->
  kscale K NO sg (chi_lehmann K NO D q0 t0) = chi_lehmann K NO D q t.
Proof.
  intros s34.
  exact (eval_sound K (nopp K NO) (kscale K NO) (chi_lehmann K NO D) (chi_lehmann_swap12 K NO Kr D) s34
           (kopp_invol K NO Kr) (kscale_law K NO)).
Qed.
