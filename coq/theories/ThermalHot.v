(** ThermalHot.v -- why a cut on excitation ENERGIES cannot replace the weight test of DensityMatrixPart::truncate unless it carries
    the factor beta (C19; the mechanism of seeded change C19-8).

    Two one-dimensional blocks with energies 0 and 16 at beta = 1/8 and eps = 1/100: the excited block lies 16 > -ln eps = 4.6...
    above the ground state, yet its statistical weight exp(-2)/(1 + exp(-2)) = 0.119... is more than ten times eps, so
    [truncate_flag] says it is retained.  A shortcut "E_min - E_0 > -ln eps => discard" therefore discards a block the property
    requires to keep; the sound shortcut is beta (E_min - E_0) > -ln eps.  Real numbers; the numerical facts from exp 1 <= 3 and
    1 + x < exp x (standard library).  Axioms: those of the real numbers (as for every statement of C19 over R). *)
Require Import Reals List Lra.
From PV Require Import Thermal ThermalSpec ThermalProofs.
Import ListNotations.
Local Open Scope R_scope.

Definition hot_beta : R := 1 / 8.
Definition hot_eps : R := 1 / 100.
Definition hot_gap : R := 16.
Definition hot_Z : R := exp (- hot_beta * 0) + exp (- hot_beta * hot_gap).
Definition hot_w1 : R := exp (- hot_beta * hot_gap) / hot_Z.

Lemma exp2_le_9 : exp 2 <= 9.
Proof.
  replace 2 with (1 + 1) by lra. rewrite exp_plus. pose proof exp_le_3 as H3. pose proof (exp_pos 1) as Hp. nra.
Qed.

Lemma exp16_gt_100 : 100 < exp 16.
Proof.
  replace 16 with (4 + 4 + (4 + 4)) by lra. rewrite !exp_plus.
  assert (H : 5 < exp 4) by (pose proof (exp_ineq1 4 ltac:(lra)); lra). set (x := exp 4) in *.
  assert (H2 : 25 < x * x) by nra. set (y := x * x) in *. nra.
Qed.

Lemma ln_hot_eps : - ln hot_eps = ln 100.
Proof.
  unfold hot_eps. replace (1 / 100) with (/ 100) by lra. rewrite ln_Rinv by lra. lra.
Qed.

Lemma hot_gap_above_log : hot_gap > - ln hot_eps.
Proof.
  rewrite ln_hot_eps. unfold hot_gap. apply Rlt_gt.
  rewrite <- (ln_exp 16). apply ln_increasing; [lra | exact exp16_gt_100].
Qed.

(** ... and with the factor beta the shortcut does not fire: beta * gap = 2 < -ln eps *)
Lemma hot_scaled_gap_below_log : hot_beta * hot_gap < - ln hot_eps.
Proof.
  rewrite ln_hot_eps. unfold hot_beta, hot_gap. replace (1 / 8 * 16) with 2 by lra.
  rewrite <- (ln_exp 2). apply ln_increasing; [apply exp_pos | pose proof exp2_le_9; lra].
Qed.

Lemma hot_weight_above_eps : hot_eps < hot_w1.
Proof.
  unfold hot_eps, hot_w1, hot_Z, hot_beta, hot_gap.
  replace (- (1 / 8) * 0) with 0 by lra. rewrite exp_0.
  replace (exp (- (1 / 8) * 16)) with (/ exp 2) by (rewrite <- exp_Ropp; f_equal; lra).
  pose proof exp2_le_9 as H9. pose proof (exp_pos 2) as Hp. set (e := exp 2) in *.
  replace (/ e / (1 + / e)) with (/ (e + 1)) by (field; split; lra).
  replace (1 / 100) with (/ 100) by lra. apply Rinv_lt_contravar; nra.
Qed.

Theorem energy_cut_without_beta_refuted :
  hot_gap > - ln hot_eps /\
  hot_beta * hot_gap < - ln hot_eps /\
  dp_retained R (Rtruncate hot_eps (mk_dmpart R [hot_w1] hot_w1 true)) = true.
Proof.
  split; [exact hot_gap_above_log|]. split; [exact hot_scaled_gap_below_log|].
  apply (proj2 (truncate_flag hot_eps (mk_dmpart R [hot_w1] hot_w1 true))).
  exists hot_w1. split; [left; reflexivity | exact hot_weight_above_eps].
Qed.
