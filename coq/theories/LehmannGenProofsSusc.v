(** LehmannGenProofsSusc.v -- C14: the descriptions generated from SusceptibilityPart.cpp / SusceptibilityPart.h / Susceptibility.h /
    EnsembleAverage.cpp (and, for prepare(), PVgen.Gen_RetainSusc of translator/gen_thermal.py) are the ones PV.Sparse / PV.SuscPart
    follow (closed computations: they stop checking when the source says something else), hence the [..._src] functions of
    PV.LehmannGen are the model functions, and the theorems of props/Properties_C14.v hold of them. *)
Require Import Bool List Arith ZArith Lia Reals Ring_theory Field_theory.
From PV Require Import EDSpec NumLit BigSum Sparse SparseProofs TermList TermListProofs GFPart SuscPart GFPartProofs SuscPartProofs
     LehmannShapes LehmannInterp LehmannInterpProofs LehmannGenEquiv LehmannGen LehmannGenProofs.
From PVgen Require Import Gen_C01 Gen_LehSuscPartCompute Gen_LehAddTerm Gen_LehTermListEval Gen_LehSuscTermTau Gen_LehSuscPartEval
     Gen_LehSuscEval Gen_LehEACompute.
Import ListNotations.

(** * leaves *)
Lemma gen_susc_nest_is_model : gen_susc_nest = model_merge_nest susc_chase_guarded.
Proof. reflexivity. Qed.

Lemma gen_susc_blocks_is_model (K : Type) (NO : numops K) :
  gen_susc_blocks K NO =
  [model_susc_body K (susc_residue K NO) (susc_pole K NO) (susc_relevant K NO) (susc_is_zero_pole K NO) (susc_zero_weight K NO)].
Proof. reflexivity. Qed.

Lemma gen_susc_term_tau_is_model (K : Type) (NO : numops K) (R P tau beta : K) :
  gen_susc_term_tau K NO R P tau beta = susc_term_tau K NO R P tau beta.
Proof. reflexivity. Qed.

Lemma gen_suscpart_eval_is_model (K : Type) (NO : numops K) :
  gen_suscpart_z_args = [PaArg 0] /\ gen_suscpart_tau_args = [PaArg 0; PaBeta] /\
  (forall t zw beta a, gen_suscpart_z K NO t zw beta a = susc_part_eval K NO t zw beta a) /\
  (forall t zw beta a, gen_suscpart_tau K NO t zw beta a = susc_part_tau K NO t zw) /\
  (forall n, gen_suscpart_matsubara n = susc_matsubara_mult n).
Proof. repeat split; reflexivity. Qed.

(** Susceptibility::operator()(z):  Value = 0; if(!Vanishing) for(parts) Value += part(z);
                                    if(SubtractDisconnected) if(abs(z) < 1e-15) Value -= ave_A*ave_B*beta;  return Value;
    of_tau: the same with  if(SubtractDisconnected) Value -= ave_A*ave_B; *)
Definition model_susc_value_z (K : Type) (NO : numops K) : list (vstmt K) :=
  [VsInit; VsIf (VcNot VcVanishing) [VsForParts AccPlus] [];
   VsIf VcSubtract [VsIf (VcLeaf (fun e => nre_ltb K NO (nabs K NO (ve_arg e)) (lit_dec K NO 1 (-15))))
                         [VsSub (fun e => nmul K NO (nmul K NO (ve_aveA e) (ve_aveB e)) (ve_beta e))] []] [];
   VsReturnValue].
Definition model_susc_value_tau (K : Type) (NO : numops K) : list (vstmt K) :=
  [VsInit; VsIf (VcNot VcVanishing) [VsForParts AccPlus] [];
   VsIf VcSubtract [VsSub (fun e => nmul K NO (ve_aveA e) (ve_aveB e))] [];
   VsReturnValue].
(** up to [LehmannGenEquiv.vequiv]: the same returned value for every state of the object (the source may e.g. return 0 early
    when Vanishing and nothing is subtracted -- no: that is NOT equivalent, the subtraction also happens for a vanishing object;
    what is equivalent is e.g. an inverted if / else or `if(SubtractDisconnected && abs(z) < 1e-15)` for the nested tests) *)
Lemma gen_susc_value_is_model (K : Type) (NO : numops K) :
  vequiv (gen_susc_value_z K NO) (model_susc_value_z K NO) /\ vequiv (gen_susc_value_tau K NO) (model_susc_value_tau K NO) /\
  (forall n, gen_susc_matsubara n = susc_total_matsubara_mult n).
Proof. split; [|split]; [vequiv_auto|vequiv_auto|reflexivity]. Qed.

(** EnsembleAverage::compute: sum over all index1 < outerSize of A(index1, index1) * weight(index1) *)
Lemma gen_ea_compute_is_model (K : Type) (NO : numops K) :
  gen_ea_first = 0 /\ gen_ea_cmp = CmpLt /\ gen_ea_op = AccPlus /\
  forall coeff w i, gen_ea_summand K NO coeff w i = nmul K NO (coeff i i) (w i).
Proof. repeat split; reflexivity. Qed.

Section Susc.
Variable K : Type.
Variable NO : numops K.
Notation k0 := (n0 K NO).
Notation kadd := (nadd K NO).
Notation gterm := (gterm K).

Definition events_of_smatch (s : smatch K) : list (mevent K) :=
  match s with
  | SZero _ w _ => [MeZero w]
  | STerm _ true t => [MeAdd (snd t) (fst t)]
  | STerm _ false _ => []
  end.

Lemma susc_visit_is_match (T : tols K) (blk : nat * nat) (inp : part_in K) (m : nat * (nat * nat)) :
  visit_events K NO [model_susc_body K (susc_residue K NO) (susc_pole K NO) (susc_relevant K NO) (susc_is_zero_pole K NO) (susc_zero_weight K NO)]
               T blk inp (0, m) =
  option_map events_of_smatch (susc_match K NO T inp m).
Proof.
  unfold visit_events, menv_at, susc_match. cbn [fst snd].
  destruct (rdv (p_C K inp) (fst (snd m))) as [va|]; [|reflexivity].
  destruct (rdv (p_CX K inp) (snd (snd m))) as [vb|]; [|reflexivity].
  destruct (nth_error (cs_idx (p_C K inp)) (fst (snd m))) as [i2|]; [|reflexivity].
  destruct (nth_error (p_wO K inp) (fst m)); [|reflexivity].
  destruct (nth_error (p_wI K inp) i2); [|reflexivity].
  destruct (nth_error (p_eO K inp) (fst m)); [|reflexivity].
  destruct (nth_error (p_eI K inp) i2); [|reflexivity].
  cbn [option_map]. rewrite model_susc_body_events.
  unfold e_pole, e_residue, e_zero_weight.
  cbn [me_va me_vb me_wO me_wI me_eO me_eI me_index1 me_idxA me_tol_me me_tol_rr].
  destruct (susc_is_zero_pole K NO (t_resonance K T) _); [reflexivity|].
  destruct (susc_relevant K NO (t_matrix_element K T) _); reflexivity.
Qed.

Lemma all_some_option_map' {A B C} (f : A -> option B) (h : B -> C) (l : list A) :
  all_some (map (fun x => option_map h (f x)) l) = option_map (map h) (all_some (map f l)).
Proof.
  induction l as [|x l IH]; [reflexivity|].
  cbn [map all_some]. destruct (f x) as [y|]; cbn [option_map]; [|reflexivity].
  rewrite IH. destruct (all_some (map f l)); reflexivity.
Qed.

Theorem susc_part_events_is_model (lenient : bool) (T : tols K) (blk : nat * nat) (inp : part_in K) :
  part_events K NO gen_susc_nest (gen_susc_blocks K NO) lenient T blk inp =
  wmap (fun o => flat_map events_of_smatch (so_raw K o)) (susc_part_compute K NO susc_chase_guarded lenient T inp).
Proof.
  unfold part_events, susc_part_compute. rewrite gen_susc_nest_is_model, gen_susc_blocks_is_model, part_walk_src_is_model.
  destruct (part_walk susc_chase_guarded lenient (p_C K inp) (p_CX K inp)) as [l| | |]; cbn [wmap wbind]; try reflexivity.
  unfold tag0o. rewrite map_map.
  rewrite (map_ext _ (fun m => option_map events_of_smatch (susc_match K NO T inp m)) (fun m => susc_visit_is_match T blk inp m)).
  rewrite all_some_option_map'.
  destruct (all_some (map (susc_match K NO T inp) l)) as [raw|]; cbn [option_map wmap]; [|reflexivity].
  cbn [so_raw]. rewrite flat_map_concat_map. reflexivity.
Qed.

Lemma terms_of_smatch_events_acc (add : gterm -> list gterm -> list gterm) (raw : list (smatch K)) : forall acc : list gterm,
  fold_left (fun l ev => match ev with MeAdd r p => add (p, r) l | MeZero _ => l end) (flat_map events_of_smatch raw) acc =
  fold_left (fun l t => add t l) (s_kept K raw) acc.
Proof.
  unfold s_kept. induction raw as [|s raw IH]; intros acc; [reflexivity|].
  cbn [flat_map]. rewrite !fold_left_app. destruct s as [w p|[|] [P R]]; cbn [events_of_smatch fold_left fst snd]; apply IH.
Qed.
Lemma terms_of_smatch_events (add : gterm -> list gterm -> list gterm) (raw : list (smatch K)) :
  terms_of_events K add (flat_map events_of_smatch raw) = fold_left (fun l t => add t l) (s_kept K raw) [].
Proof. apply terms_of_smatch_events_acc. Qed.

Lemma zero_of_smatch_events (raw : list (smatch K)) :
  zero_of_events K NO (flat_map events_of_smatch raw) = s_zero K NO raw.
Proof.
  unfold zero_of_events, s_zero. generalize k0.
  induction raw as [|s raw IH]; intros acc; [reflexivity|].
  cbn [flat_map]. rewrite fold_left_app. destruct s as [w p|[|] t]; cbn [events_of_smatch fold_left]; apply IH.
Qed.

Lemma susc_add_term_src_is_ref (T : tols K) (t : gterm) (l : list gterm) :
  susc_add_term_src K NO T t l =
  snd (add_term_ref gterm (tcomp K K (susc_compare K NO (t_compare K T))) (tplus K K (susc_term_add K NO))
                    (tnegl K K (susc_negligible K NO (t_negligible K T))) (length l) t l).
Proof.
  unfold susc_add_term_src, gt_add_term_by. rewrite gen_add_term_is_model.
  rewrite (add_term_by_model gterm (gt_comp K (susc_compare K NO) (t_compare K T)) (gt_plus K (susc_term_add K NO))
                             (gt_negl K (susc_negligible K NO) (t_negligible K T)) t l).
  reflexivity.
Qed.

Definition susc_terms_src (T : tols K) (ts : list gterm) : list gterm :=
  add_terms_ref K K (susc_compare K NO (t_compare K T)) (susc_negligible K NO (t_negligible K T)) (susc_term_add K NO) ts [].

Lemma fold_left_ext_all' {A B} (f h : A -> B -> A) : (forall a b, f a b = h a b) -> forall l a, fold_left f l a = fold_left h l a.
Proof. intros E. induction l as [|b l IH]; intros a; [reflexivity|]. cbn [fold_left]. rewrite E. apply IH. Qed.

(** SusceptibilityPart::compute of the source = the model's walk and branches, followed by the source's add_term *)
Theorem susc_part_compute_src_is_model (lenient : bool) (T : tols K) (blk : nat * nat) (inp : part_in K) :
  susc_part_compute_src K NO lenient T blk inp =
  wmap (fun o => (susc_terms_src T (s_kept K (so_raw K o)), s_zero K NO (so_raw K o)))
       (susc_part_compute K NO susc_chase_guarded lenient T inp).
Proof.
  unfold susc_part_compute_src. rewrite susc_part_events_is_model.
  destruct (susc_part_compute K NO susc_chase_guarded lenient T inp) as [o| | |]; cbn [wmap]; try reflexivity.
  rewrite terms_of_smatch_events, zero_of_smatch_events. unfold susc_terms_src, add_terms_ref. do 2 f_equal.
  apply fold_left_ext_all'. intros l t. apply susc_add_term_src_is_ref.
Qed.

Lemma susc_part_compute_fields (fixed lenient : bool) (T : tols K) (inp : part_in K) (o : spart_out K) :
  susc_part_compute K NO fixed lenient T inp = WDone o ->
  so_terms K o = fst (susc_add_terms K NO T (s_kept K (so_raw K o))) /\ so_zero K o = s_zero K NO (so_raw K o).
Proof.
  unfold susc_part_compute. destruct (part_walk fixed lenient (p_C K inp) (p_CX K inp)); cbn [wbind]; try discriminate.
  destruct (all_some (map (susc_match K NO T inp) a)); [|discriminate]. intros E. injection E as <-. split; reflexivity.
Qed.

Definition spart_result (o : spart_out K) : list gterm * K := (so_terms K o, so_zero K o).

(** the source's compute returns exactly the model's part: for every comparator, every tolerance, every input
    (PV.TermList.add_term is the retry loop the source has: LehmannGenProofs.add_terms_ref_is_termlist) *)
Theorem susc_terms_src_is_model (T : tols K) (ts : list gterm) : susc_terms_src T ts = fst (susc_add_terms K NO T ts).
Proof. unfold susc_terms_src, susc_add_terms. apply add_terms_ref_is_termlist. Qed.

Theorem susc_part_compute_src_eq (lenient : bool) (T : tols K) (blk : nat * nat) (inp : part_in K) :
  susc_part_compute_src K NO lenient T blk inp = wmap spart_result (susc_part_compute K NO susc_chase_guarded lenient T inp).
Proof.
  rewrite susc_part_compute_src_is_model.
  destruct (susc_part_compute K NO susc_chase_guarded lenient T inp) as [o| | |] eqn:E; cbn [wmap]; try reflexivity.
  destruct (susc_part_compute_fields _ _ _ _ _ E) as [E1 E2]. unfold spart_result. rewrite E1, E2. do 2 f_equal.
  apply susc_terms_src_is_model.
Qed.

Theorem susc_part_compute_src_agrees (lenient : bool) (T : tols K) (blk : nat * nat) (inp : part_in K) :
  forall o, susc_part_compute K NO susc_chase_guarded lenient T inp = WDone o ->
  susc_part_compute_src K NO lenient T blk inp = WDone (spart_result o).
Proof. intros o E. rewrite susc_part_compute_src_eq, E. reflexivity. Qed.

(** * evaluation *)
Lemma susc_terms_call_z (terms : list gterm) (z : K) :
  terms_call_by K NO (susc_term_call K NO) terms [z] = susc_terms_eval K NO terms z.
Proof. unfold terms_call_by. rewrite termlist_eval_src_is_fold. reflexivity. Qed.
Lemma susc_terms_call_tau (terms : list gterm) (tau beta : K) :
  terms_call_by K NO (susc_term_call K NO) terms [tau; beta] = susc_terms_tau K NO terms tau beta.
Proof. unfold terms_call_by. rewrite termlist_eval_src_is_fold. reflexivity. Qed.

Theorem susc_part_value_src_is_model (o : spart_out K) (beta z : K) :
  susc_part_value_src K NO (spart_result o) beta z = susc_part_value K NO o beta z.
Proof.
  unfold susc_part_value_src, susc_part_value, spart_result. destruct (gen_suscpart_eval_is_model K NO) as [Ea [_ [Ez _]]].
  rewrite Ea, Ez. cbn [map part_arg_eval nth fst snd]. rewrite susc_terms_call_z. reflexivity.
Qed.
Theorem susc_part_value_tau_src_is_model (o : spart_out K) (tau beta : K) :
  susc_part_value_tau_src K NO (spart_result o) tau beta = susc_part_value_tau K NO o tau beta.
Proof.
  unfold susc_part_value_tau_src, susc_part_value_tau, spart_result. destruct (gen_suscpart_eval_is_model K NO) as [_ [Ea [_ [Et _]]]].
  rewrite Ea, Et. cbn [map part_arg_eval nth fst snd]. rewrite susc_terms_call_tau. reflexivity.
Qed.

Lemma is_nil_map {A B} (f : A -> B) (l : list A) : is_nil (map f l) = is_nil l.
Proof. destruct l; reflexivity. Qed.

Definition results_of_parts (parts : list ((nat * nat) * spart_out K)) : list (list gterm * K) := map (fun p => spart_result (snd p)) parts.

Theorem susc_value_src_is_model (parts : list ((nat * nat) * spart_out K)) (sub : option (K * K)) (beta z : K) :
  susc_value_src K NO (results_of_parts parts) sub beta z = Some (susc_value K NO parts sub beta z).
Proof.
  unfold susc_value_src, susc_value, susc_sum, results_of_parts. rewrite (proj1 (gen_susc_value_is_model K NO)).
  unfold value_by, model_susc_value_z. rewrite is_nil_map.
  assert (F : forall l a, fold_left (fun acc v => acc_apply kadd (nsub K NO) AccPlus acc v)
                                    (map (fun p => susc_part_value_src K NO p beta z)
                                         (map (fun p : (nat * nat) * spart_out K => spart_result (snd p)) l)) a =
                          fold_left (fun acc p => kadd acc (susc_part_value K NO (snd p) beta z)) l a).
  { intros l a. rewrite map_map, fold_left_map_l. apply fold_left_ext_all'. intros x q. rewrite susc_part_value_src_is_model. reflexivity. }
  destruct parts as [|p parts].
  - destruct sub as [[aveA aveB]|]; cbn [map is_nil vexec_list vexec vcond_eval negb snd fst fold_left ve_arg ve_beta ve_aveA ve_aveB]; [|reflexivity].
    unfold susc_subtract. destruct (nre_ltb K NO (nabs K NO z) (lit_dec K NO 1 (-15))); reflexivity.
  - destruct sub as [[aveA aveB]|]; cbn [is_nil vexec_list vexec vcond_eval negb snd fst ve_arg ve_beta ve_aveA ve_aveB].
    + rewrite F. unfold susc_subtract. destruct (nre_ltb K NO (nabs K NO z) (lit_dec K NO 1 (-15))); reflexivity.
    + rewrite F. reflexivity.
Qed.

Theorem susc_value_tau_src_is_model (parts : list ((nat * nat) * spart_out K)) (sub : option (K * K)) (tau beta : K) :
  susc_value_tau_src K NO (results_of_parts parts) sub tau beta = Some (susc_value_tau K NO parts sub tau beta).
Proof.
  unfold susc_value_tau_src, susc_value_tau, susc_sum_tau, results_of_parts. rewrite (proj1 (proj2 (gen_susc_value_is_model K NO))).
  unfold value_by, model_susc_value_tau. rewrite is_nil_map.
  assert (F : forall l a, fold_left (fun acc v => acc_apply kadd (nsub K NO) AccPlus acc v)
                                    (map (fun p => susc_part_value_tau_src K NO p tau beta)
                                         (map (fun p : (nat * nat) * spart_out K => spart_result (snd p)) l)) a =
                          fold_left (fun acc p => kadd acc (susc_part_value_tau K NO (snd p) tau beta)) l a).
  { intros l a. rewrite map_map, fold_left_map_l. apply fold_left_ext_all'. intros x q. rewrite susc_part_value_tau_src_is_model. reflexivity. }
  destruct parts as [|p parts].
  - destruct sub as [[aveA aveB]|]; reflexivity.
  - destruct sub as [[aveA aveB]|]; cbn [is_nil vexec_list vexec vcond_eval negb snd fst ve_arg ve_beta ve_aveA ve_aveB]; rewrite F; reflexivity.
Qed.

Theorem susc_matsubara_src_is_model (kpi beta : K) (n : Z) :
  susc_matsubara_src K NO kpi beta n = susc_matsubara K NO kpi beta n /\ suscpart_matsubara_src K NO kpi beta n = susc_matsubara K NO kpi beta n.
Proof. split; reflexivity. Qed.

(** EnsembleAverage::compute *)
Theorem ea_part_src_is_model (a : cs K) (w : list K) : ea_part_src K NO a w = ea_part K NO a w.
Proof.
  unfold ea_part_src, ea_part. destruct (gen_ea_compute_is_model K NO) as [E1 [E2 [E3 E4]]].
  rewrite E1, E2, E3. cbn [outer_range]. rewrite Nat.sub_0_r.
  apply fold_left_ext_all'. intros acc i. rewrite E4. reflexivity.
Qed.

(** the whole object *)
Theorem susc_compute_src_eq (lenient : bool) (T : tols K) (g : gf_in K) :
  susc_compute_src K NO lenient T g = wmap results_of_parts (susc_compute K NO susc_chase_guarded lenient T g).
Proof.
  unfold susc_compute_src, susc_compute. destruct (gf_prepare K g) as [ps|]; [|reflexivity].
  induction ps as [|[lr inp] ps IH]; [reflexivity|].
  cbn [susc_compute_parts_src scompute_parts]. rewrite (susc_part_compute_src_eq lenient T lr inp).
  destruct (susc_part_compute K NO susc_chase_guarded lenient T inp) as [o| | |]; cbn [wmap wbind]; try reflexivity.
  rewrite IH. destruct (scompute_parts K NO susc_chase_guarded lenient T ps); reflexivity.
Qed.
End Susc.

(** * the theorems of props/Properties_C14.v, about the source *)
Section Transport.
Variable K : Type.
Variable NO : numops K.
Variable kinv : K -> K.
Hypothesis Kf : field_theory (n0 K NO) (n1 K NO) (nadd K NO) (nmul K NO) (nsub K NO) (nopp K NO) (ndiv K NO) kinv (@eq K).

Theorem susc_walk_src_complete (VA VB : Type) (a : cs VA) (b : cs VB) (lenient : bool) (l : list (nat * (nat * (nat * nat)))) :
  cs_wf a -> cs_wf b -> cs_outer a <= cs_outer b ->
  part_walk_src lenient gen_susc_nest a b = WDone l -> l = tag0o (matches_part a b).
Proof.
  intros Wa Wb Ho. rewrite gen_susc_nest_is_model, part_walk_src_is_model.
  destruct (part_walk susc_chase_guarded lenient a b) as [m| | |] eqn:E; cbn [wmap]; try discriminate.
  intros X. injection X as <-. rewrite (part_walk_complete a b Wa Wb Ho _ _ _ E). reflexivity.
Qed.

Theorem susc_walk_src_in_bounds (VA VB : Type) (a : cs VA) (b : cs VB) (lenient : bool) :
  cs_wf a -> cs_wf b -> cs_outer a <= cs_outer b ->
  part_walk_src lenient gen_susc_nest a b = WDone (tag0o (matches_part a b)).
Proof.
  intros Wa Wb Ho. rewrite gen_susc_nest_is_model, part_walk_src_is_model.
  change susc_chase_guarded with true. rewrite (part_walk_in_bounds a b Wa Wb Ho lenient). reflexivity.
Qed.

Theorem susc_part_exact_src (T : tols K) :
  (forall R, susc_relevant K NO (t_matrix_element K T) R = false -> R = n0 K NO) ->
  (forall a b, susc_compare K NO (t_compare K T) a b = false -> susc_compare K NO (t_compare K T) b a = true) ->
  forall (lenient : bool) (blk : nat * nat) (inp : part_in K), part_wf K inp ->
  forall (res : list (gterm K) * K) (beta z : K),
  susc_part_compute_src K NO lenient T blk inp = WDone res ->
  susc_part_value_src K NO res beta z = susc_part_spec K NO kinv T inp beta z.
Proof.
  intros Hr Ht lenient blk inp W res beta z E.
  rewrite (susc_part_compute_src_eq K NO lenient T blk inp) in E.
  destruct (susc_part_compute K NO susc_chase_guarded lenient T inp) as [o| | |] eqn:Em; cbn [wmap] in E; try discriminate E.
  injection E as <-. rewrite susc_part_value_src_is_model.
  exact (SuscPartProofs.susc_part_exact K NO kinv (F_R Kf) (Fdiv_def Kf) T Hr Ht susc_chase_guarded lenient inp W o beta z Em).
Qed.

(** subtraction of the disconnected part, of the value the source returns *)
Theorem subtract_only_at_zero_src (parts : list ((nat * nat) * spart_out K)) (aveA aveB beta z : K) :
  susc_value_src K NO (results_of_parts K parts) (Some (aveA, aveB)) beta z =
  if z_is_zero K NO z
  then option_map (fun v => nsub K NO v (nmul K NO (nmul K NO aveA aveB) beta)) (susc_value_src K NO (results_of_parts K parts) None beta z)
  else susc_value_src K NO (results_of_parts K parts) None beta z.
Proof.
  rewrite !susc_value_src_is_model. rewrite SuscPartProofs.subtract_only_at_zero. destruct (z_is_zero K NO z); reflexivity.
Qed.

Theorem subtract_tau_src (parts : list ((nat * nat) * spart_out K)) (aveA aveB tau beta : K) :
  susc_value_tau_src K NO (results_of_parts K parts) (Some (aveA, aveB)) tau beta =
  option_map (fun v => nsub K NO v (nmul K NO aveA aveB)) (susc_value_tau_src K NO (results_of_parts K parts) None tau beta).
Proof. rewrite !susc_value_tau_src_is_model. rewrite SuscPartProofs.subtract_tau. reflexivity. Qed.
End Transport.

(** * Susceptibility::prepare: the loop body that translator/gen_thermal.py executes symbolically (PVgen.Gen_RetainSusc) is the
    model's step, and the walk over it selects exactly the stripes PV.GFPart.stripes_spec describes, filtered by retention.
    (PV.ThermalGenProofs proves the first half for C19 as well; it is proved again here from the generated file alone, so that
    C14 does not depend on the fragments of C09 / C19.) *)
From PV Require Import Outcome Thermal ThermalShapes ThermalGen.
From PVgen Require Import Gen_RetainSusc.

Lemma gen_susc_step_is_model :
  gen_susc_flags_init = [] /\
  forall (ret : nat -> bool) (flags : list bool) (Aleft Aright Bleft Bright : nat),
    gen_susc_step ret flags Aleft Aright Bleft Bright = model_walk_step ret Aleft Aright Bleft Bright.
Proof. split; reflexivity. Qed.

Lemma susc_walk_steps_is_model : forall fuel ret al br acc,
  walk_steps gen_susc_step fuel ret [] al br acc = stripe_walk fuel ret al br acc.
Proof.
  destruct gen_susc_step_is_model as [_ Hs].
  induction fuel as [|fuel IH]; intros ret cl cxr acc.
  - destruct cl as [|[a b] cl]; [reflexivity|]. destruct cxr as [|[d c] cxr]; reflexivity.
  - destruct cl as [|[a b] cl]; [reflexivity|]. destruct cxr as [|[d c] cxr]; [reflexivity|].
    cbn [walk_steps stripe_walk]. rewrite Hs.
    cbn [model_walk_step model_walk_part ws_push ws_part ws_exit ws_flags ws_adv_left ws_adv_right part_block nth snd].
    rewrite IH. f_equal.
    destruct (Nat.eqb a d && Nat.eqb b c); destruct (ret a || ret b); reflexivity.
Qed.

(** PV.Thermal.stripe_walk (C19's model, with the retention test inside) and PV.GFPart.stripes (C01's / C14's) are one walk *)
Lemma stripe_walk_is_stripes (ret : nat -> bool) : forall fuel cl cxr acc,
  stripe_walk fuel ret cl cxr acc =
  match stripes fuel cl cxr with
  | Some r => Done (acc ++ filter (fun lr => ret (fst lr) || ret (snd lr)) r)
  | None => OutOfFuel
  end.
Proof.
  induction fuel as [|f IH]; intros cl cxr acc.
  - destruct cl as [|[a b] cl]; [cbn; rewrite app_nil_r; reflexivity|].
    destruct cxr as [|[d c] cxr]; [cbn; rewrite app_nil_r; reflexivity|reflexivity].
  - destruct cl as [|[a b] cl]; [cbn; rewrite app_nil_r; reflexivity|].
    destruct cxr as [|[d c] cxr]; [cbn; rewrite app_nil_r; reflexivity|].
    cbn [stripe_walk stripes]. rewrite IH.
    destruct (stripes f (if a <=? d then cl else (a, b) :: cl) (if d <=? a then cxr else (d, c) :: cxr)) as [r|]; [|reflexivity].
    f_equal. destruct (Nat.eqb a d && Nat.eqb b c); cbn [app filter fst snd].
    + destruct (ret a || ret b); [rewrite <- app_assoc; reflexivity|reflexivity].
    + reflexivity.
Qed.

Theorem susc_prepare_src_selects_stripes (ret : nat -> bool) (al br : list (nat * nat)) :
  ksorted al -> ksorted br ->
  susc_prepare_src ret al br = Done (filter (fun lr => ret (fst lr) || ret (snd lr)) (stripes_spec al br)).
Proof.
  intros Ha Hb. unfold susc_prepare_src. rewrite (proj1 gen_susc_step_is_model), susc_walk_steps_is_model, stripe_walk_is_stripes.
  rewrite (gf_stripes_complete _ al br Ha Hb (Nat.le_refl _)). reflexivity.
Qed.

(** * the hypotheses are satisfiable *)
(** tolerance form, over the integers (comparator p2 - p1 >= 10; resonance tolerance 2): a zero pole, two like poles merged *)
Definition ZopsS : numops Z :=
  {| n0 := 0%Z; n1 := 1%Z; nadd := Z.add; nsub := Z.sub; nmul := Z.mul; ndiv := Z.quot; nopp := Z.opp; nconj := fun x => x;
     nexp := fun x => x; nre_ltb := Z.ltb; nabs := Z.abs; nofZ := fun x => x; nI := 0%Z |}.
Definition TZs : tols Z := mktols Z 0%Z 10%Z 0%Z 2%Z.
Definition exZs_inp : part_in Z :=
  mkpart Z (mkcs 4%nat [0; 4]%nat [0; 1; 2; 3]%nat [1; 1; 1; 1]%Z) (mkcs 4%nat [0; 4]%nat [0; 1; 2; 3]%nat [1; 1; 1; 1]%Z)
         [0%Z] [1; 20; 23; 50]%Z [9%Z] [2; 3; 4; 5]%Z.
Example ex_susc_src_tolerance :
  exists o, susc_part_compute Z ZopsS susc_chase_guarded false TZs exZs_inp = WDone o /\
            spart_result Z o = ([(20, 11); (50, 4)]%Z, 9%Z) /\
            susc_part_compute_src Z ZopsS false TZs (0, 0)%nat exZs_inp = WDone (spart_result Z o).
Proof.
  eexists. split; [vm_compute; reflexivity|]. split; [reflexivity|].
  vm_compute. reflexivity.
Qed.
(** the fourth pole, 28, is like BOTH stored poles 20 and 35: the source and the model merge it into the upper one *)
Definition exZs2_inp : part_in Z :=
  mkpart Z (mkcs 4%nat [0; 4]%nat [0; 1; 2; 3]%nat [1; 1; 1; 1]%Z) (mkcs 4%nat [0; 4]%nat [0; 1; 2; 3]%nat [1; 1; 1; 1]%Z)
         [0%Z] [1; 20; 35; 28]%Z [9%Z] [2; 3; 4; 5]%Z.
Example ex_susc_src_two_likes :
  exists o, susc_part_compute Z ZopsS susc_chase_guarded false TZs exZs2_inp = WDone o /\
            spart_result Z o = ([(20, 6); (35, 9)]%Z, 9%Z) /\
            susc_part_compute_src Z ZopsS false TZs (0, 0)%nat exZs2_inp = WDone (spart_result Z o).
Proof.
  eexists. split; [vm_compute; reflexivity|]. split; [reflexivity|].
  vm_compute. reflexivity.
Qed.

Example ex_susc_prepare_src :
  susc_prepare_src (fun b => Nat.eqb b 0) [(0, 1); (2, 3); (4, 0)]%nat [(0, 1); (2, 5); (4, 0)]%nat = Done [(0, 1); (4, 0)]%nat.
Proof. reflexivity. Qed.

(** imaginary time and the exact form over the reals *)
From Coquelicot Require Import Coquelicot.
From PV Require Import TermIntegrals GFExamples.
Require Import RealField.
Theorem susc_tau_consistent_src :
  forall (c wn P beta : R) (n : Z), (0 < beta)%R -> P <> 0%R ->
  let W := bose_freq beta n in
  let Res := (c * (wn - wn * exp (- beta * P)))%R in
  let d := (P * P + W * W)%R in
  is_RInt (fun tau => (gen_susc_term_tau R Rops Res P tau beta * cos (W * tau))%R) 0 beta (- (- P * Res / d))%R /\
  is_RInt (fun tau => (gen_susc_term_tau R Rops Res P tau beta * sin (W * tau))%R) 0 beta (- (- W * Res / d))%R.
Proof. exact TermIntegrals.susc_tau_consistent. Qed.

Example ex_susc_src_exact (beta z : R) :
  exists res, susc_part_compute_src R Rops false T0 (0, 1)%nat ex_inp = WDone res /\
              susc_part_value_src R Rops res beta z = susc_part_spec R Rops Rinv T0 ex_inp beta z.
Proof.
  destruct (susc_part_compute_fixed R Rops false T0 ex_inp ex_part_wf) as [o Eo].
  exists (spart_result R o).
  assert (E : susc_part_compute_src R Rops false T0 (0, 1)%nat ex_inp = WDone (spart_result R o)).
  { rewrite (susc_part_compute_src_eq R Rops false T0 (0, 1)%nat ex_inp). change susc_chase_guarded with true. rewrite Eo. reflexivity. }
  split; [exact E|].
  exact (susc_part_exact_src R Rops Rinv Rfield T0 T0_srel T0_scmp false (0, 1)%nat ex_inp ex_part_wf (spart_result R o) beta z E).
Qed.
