(** C05, part 2: products.  Everything here rests on the correctness of the normal-ordering
    routine (PV.NormalizeProofs: normalize_sound, normalize_total): the matrix of A*B is the
    product of the matrices, commutator / anticommutator, the canonical anticommutation
    relations as computed by the algorithm itself, and the commutation test.

    Specification side: PV.PolySem.  No axioms. *)
Require Import Bool List Arith Lia ZArith Ring Ring_theory.
From PV Require Import Outcome Fock Poly PolySem NormalizeProofs AlgebraBasics.
Import ListNotations.

(** * More order facts *)

Lemma op_compare_antisym : forall a b, op_compare b a = CompOpp (op_compare a b).
Proof.
  intros [x i] [y j]; unfold op_compare; cbn [fst snd].
  destruct x, y; try reflexivity; apply Nat.compare_antisym.
Qed.

Lemma op_eqb_flip_sym : forall a b, op_eqb b (flip_type a) = op_eqb a (flip_type b).
Proof.
  intros [x i] [y j]; unfold op_eqb, op_compare, flip_type; cbn [fst snd].
  destruct x, y; cbn [negb]; try reflexivity;
    rewrite (Nat.compare_antisym i j); destruct (i ?= j); reflexivity.
Qed.

Lemma mono_in_range_app : forall M m1 m2, mono_in_range M m1 -> mono_in_range M m2 ->
  mono_in_range M (m1 ++ m2).
Proof. intros M m1 m2 H1 H2. unfold mono_in_range. apply Forall_app. split; assumption. Qed.

(** * Totality of the product (no ring laws needed) *)

Section Total.
Variable K : Type.
Variables (kadd kmul : K -> K -> K) (kopp : K -> K).
Variable kzero : K -> bool.

Local Notation normalize := (normalize K kadd kopp kzero).
Local Notation pmul := (pmul K kadd kmul kopp kzero).

(** the inner loop of operator*=: one left monomial against all right monomials *)
Definition pmul_inner (m : monomial) (c : K) (b : poly K) (acc : outcome (poly K)) : outcome (poly K) :=
  fold_left (fun acc' mc' => bind acc' (fun t => normalize (m ++ fst mc') (kmul c (snd mc')) t)) b acc.

Definition pmul_outer (a b : poly K) (acc : outcome (poly K)) : outcome (poly K) :=
  fold_left (fun acc mc => pmul_inner (fst mc) (snd mc) b acc) a acc.

Lemma pmul_unfold : forall a b, pmul a b = pmul_outer a b (Done []).
Proof. reflexivity. Qed.

Lemma norm_total : forall m c tgt, exists tgt', normalize m c tgt = Done tgt'.
Proof. exact (normalize_total K kadd kopp kzero). Qed.

Lemma pmul_inner_total : forall b m c acc0, exists r, pmul_inner m c b (Done acc0) = Done r.
Proof.
  unfold pmul_inner.
  induction b as [|[m' c'] b IH]; intros m c acc0; cbn [fold_left bind fst snd].
  - exists acc0; reflexivity.
  - destruct (norm_total (m ++ m') (kmul c c') acc0) as [r1 Hr1]. rewrite Hr1. apply IH.
Qed.

Lemma pmul_outer_total : forall a b acc0, exists r, pmul_outer a b (Done acc0) = Done r.
Proof.
  unfold pmul_outer.
  induction a as [|[m c] a IH]; intros b acc0; cbn [fold_left fst snd].
  - exists acc0; reflexivity.
  - destruct (pmul_inner_total b m c acc0) as [r1 Hr1]. rewrite Hr1. apply IH.
Qed.

Theorem pmul_total : pmul_total_stmt K kadd kmul kopp kzero.
Proof. intros a b. rewrite pmul_unfold. apply pmul_outer_total. Qed.

End Total.

(** * Soundness *)

Section Proofs.
Variable K : Type.
Variables (k0 k1 : K) (kadd kmul ksub : K -> K -> K) (kopp : K -> K).
Variable kzero : K -> bool.
Hypothesis Hring : ring_ok K k0 k1 kadd kmul ksub kopp kzero.

Let Rth : ring_theory k0 k1 kadd kmul ksub kopp (@eq K) := proj1 Hring.
Add Ring Kring2 : Rth.

Local Notation cm := (coef_mono K k0 k1 kopp).
Local Notation cp := (coef_poly K k0 k1 kadd kmul kopp).
Local Notation ksum := (@ksum K k0 kadd _).
Local Notation normalize := (normalize K kadd kopp kzero).
Local Notation insert := (insert K kadd kzero).
Local Notation padd := (padd K kadd kzero).
Local Notation psub := (psub K ksub kopp kzero).
Local Notation pmul := (pmul K kadd kmul kopp kzero).
Local Notation pinner := (pmul_inner K kadd kmul kopp kzero).
Local Notation pouter := (pmul_outer K kadd kmul kopp kzero).
Local Notation commutator := (commutator K kadd kmul ksub kopp kzero).
Local Notation anticommutator := (anticommutator K kadd kmul kopp kzero).
Local Notation poly_eq := (poly_eq K ksub kzero).
Local Notation commutes := (commutes K kadd kmul ksub kopp kzero).
Local Notation poly_in_range := (poly_in_range K).


Lemma norm_sound : forall (M : nat) (m : monomial) (c : K) (tgt tgt' : poly K) (s t : state),
  mono_in_range M m -> length s = M -> normalize m c tgt = Done tgt' ->
  cp tgt' s t = kadd (cp tgt s t) (kmul c (cm m s t)).
Proof. exact (normalize_sound K k0 k1 kadd kmul ksub kopp kzero Hring). Qed.

Section Product.
Variable M : nat.
Variables s t : state.
Hypothesis Hs : length s = M.

Lemma pmul_inner_sound : forall b m c acc0 r,
  mono_in_range M m -> poly_in_range M b ->
  pinner m c b (Done acc0) = Done r ->
  cp r s t = kadd (cp acc0 s t)
                  (ksum b (fun mc' => kmul (kmul c (snd mc')) (cm (m ++ fst mc') s t))).
Proof.
  unfold pmul_inner.
  induction b as [|[m' c'] b IH]; intros m c acc0 r Hm Hb; cbn [fold_left bind fst snd].
  - intro H. assert (Hr : r = acc0) by congruence. subst r. rewrite ksum_nil. ring.
  - inversion Hb as [|x l Hm' Hb']; subst x l. cbn [fst] in Hm'.
    destruct (norm_total K kadd kopp kzero (m ++ m') (kmul c c') acc0) as [r1 Hr1]. rewrite Hr1.
    intro H. apply (IH m c r1 r Hm Hb') in H. rewrite H.
    rewrite (norm_sound M _ _ _ _ s t (mono_in_range_app M m m' Hm Hm') Hs Hr1).
    rewrite ksum_cons. cbn [fst snd]. ring.
Qed.

Lemma pmul_outer_sound : forall a b acc0 r,
  poly_in_range M a -> poly_in_range M b ->
  pouter a b (Done acc0) = Done r ->
  cp r s t = kadd (cp acc0 s t)
                  (ksum a (fun mc => ksum b (fun mc' =>
                     kmul (kmul (snd mc) (snd mc')) (cm (fst mc ++ fst mc') s t)))).
Proof.
  unfold pmul_outer.
  induction a as [|[m c] a IH]; intros b acc0 r Ha Hb; cbn [fold_left fst snd].
  - intro H. assert (Hr : r = acc0) by congruence. subst r. rewrite ksum_nil. ring.
  - inversion Ha as [|x l Hm Ha']; subst x l. cbn [fst] in Hm.
    destruct (pmul_inner_total K kadd kmul kopp kzero b m c acc0) as [r1 Hr1]. rewrite Hr1.
    intro H. apply (IH b r1 r Ha' Hb) in H. rewrite H.
    rewrite (pmul_inner_sound b m c acc0 r1 Hm Hb Hr1).
    rewrite ksum_cons. cbn [fst snd]. ring.
Qed.

End Product.

Lemma pmul_sound_gen : forall (M : nat) (a b ab : poly K) (s t : state),
  poly_in_range M a -> poly_in_range M b -> length s = M -> length t = M ->
  pmul a b = Done ab ->
  cp ab s t = ksum (all_states M) (fun u => kmul (cp a u t) (cp b s u)).
Proof.
  intros M a b ab s t Ha Hb Hs _ H. rewrite pmul_unfold in H.
  rewrite (pmul_outer_sound M s t Hs a b [] ab Ha Hb H).
  rewrite cp_nil.
  transitivity (ksum a (fun mc => ksum b (fun mc' => ksum (all_states M) (fun u =>
      kmul (kmul (snd mc) (cm (fst mc) u t)) (kmul (snd mc') (cm (fst mc') s u)))))).
  - match goal with |- kadd k0 ?x = _ => transitivity x; [ring|] end.
    apply ksum_ext; intros [m c] _. apply ksum_ext; intros [m' c'] _. cbn [fst snd].
    rewrite (coef_mono_app K k0 k1 kadd kmul ksub kopp kzero Hring M m m' s t Hs).
    rewrite <- (ksum_scale_l K k0 k1 kadd kmul ksub kopp kzero Hring).
    apply ksum_ext; intros u _. ring.
  - symmetry.
    apply (ksum_prod K k0 k1 kadd kmul ksub kopp kzero Hring _ _ _ a b (all_states M)
             (fun mc u => kmul (snd mc) (cm (fst mc) u t))
             (fun mc' u => kmul (snd mc') (cm (fst mc') s u))).
Qed.

Lemma commutator_sound_gen : forall (M : nat) (a b r : poly K) (s t : state),
  poly_in_range M a -> poly_in_range M b -> length s = M -> length t = M ->
  commutator a b = Done r ->
  cp r s t = ksub (ksum (all_states M) (fun u => kmul (cp a u t) (cp b s u)))
                  (ksum (all_states M) (fun u => kmul (cp b u t) (cp a s u))).
Proof.
  intros M a b r s t Ha Hb Hs Ht. unfold Poly.commutator.
  destruct (pmul a b) as [ab| | | |] eqn:Eab; try discriminate.
  destruct (pmul b a) as [ba| | | |] eqn:Eba; try discriminate.
  cbn [bind]. intro H. assert (Hr : r = psub ab ba) by congruence. subst r.
  rewrite (psub_sound_gen K k0 k1 kadd kmul ksub kopp kzero Hring).
  rewrite (pmul_sound_gen M a b ab s t Ha Hb Hs Ht Eab).
  rewrite (pmul_sound_gen M b a ba s t Hb Ha Hs Ht Eba). reflexivity.
Qed.

Lemma anticommutator_sound_gen : forall (M : nat) (a b r : poly K) (s t : state),
  poly_in_range M a -> poly_in_range M b -> length s = M -> length t = M ->
  anticommutator a b = Done r ->
  cp r s t = kadd (ksum (all_states M) (fun u => kmul (cp a u t) (cp b s u)))
                  (ksum (all_states M) (fun u => kmul (cp b u t) (cp a s u))).
Proof.
  intros M a b r s t Ha Hb Hs Ht. unfold Poly.anticommutator.
  destruct (pmul a b) as [ab| | | |] eqn:Eab; try discriminate.
  destruct (pmul b a) as [ba| | | |] eqn:Eba; try discriminate.
  cbn [bind]. intro H. assert (Hr : r = padd ab ba) by congruence. subst r.
  rewrite (padd_sound_gen K k0 k1 kadd kmul ksub kopp kzero Hring).
  rewrite (pmul_sound_gen M a b ab s t Ha Hb Hs Ht Eab).
  rewrite (pmul_sound_gen M b a ba s t Hb Ha Hs Ht Eba). reflexivity.
Qed.

Lemma commutes_sound_gen : forall (M : nat) (a b : poly K),
  poly_in_range M a -> poly_in_range M b ->
  commutes true a b = Done true ->
  forall s t, length s = M -> length t = M ->
  ksum (all_states M) (fun u => kmul (cp a u t) (cp b s u)) =
  ksum (all_states M) (fun u => kmul (cp b u t) (cp a s u)).
Proof.
  intros M a b Ha Hb. unfold Poly.commutes.
  destruct (pmul a b) as [ab| | | |] eqn:Eab; try discriminate.
  destruct (pmul b a) as [ba| | | |] eqn:Eba; try discriminate.
  cbn [bind]. intros H s t Hs Ht.
  apply (poly_eq_true_eq K k0 k1 kadd kmul ksub kopp kzero Hring) in H. subst ba.
  rewrite <- (pmul_sound_gen M a b ab s t Ha Hb Hs Ht Eab).
  rewrite <- (pmul_sound_gen M b a ab s t Hb Ha Hs Ht Eba). reflexivity.
Qed.

(** ** The algorithm's own output on products of two elementary operators *)

Lemma nai_S : forall f (m : monomial) (c : K) (tgt : poly K),
  normalize_and_insert K kadd kopp kzero (S f) m c tgt =
  match m with
  | first :: (_ :: _) as rest =>
    match pass K kopp (normalize_and_insert K kadd kopp kzero f) [] first rest c tgt false with
    | PassVanish _ tgt' => Done tgt'
    | PassEnd _ m' c' tgt' true => normalize_and_insert K kadd kopp kzero f m' c' tgt'
    | PassEnd _ m' c' tgt' false => Done (insert m' c' tgt')
    | PassFail _ e => e
    end
  | _ => Done (insert m c tgt)
  end.
Proof. reflexivity. Qed.

Lemma pass_pair : forall rec (a b : op) (c : K) (tgt : poly K),
  pass K kopp rec [] a [b] c tgt false =
  if op_eqb a b then PassVanish K tgt
  else if op_gtb a b then
    let r := if op_eqb a (flip_type b) then rec [] c tgt else Done tgt in
    match r with
    | Done tgt' => PassEnd K [b; a] (kopp c) tgt' true
    | _ => PassFail K r
    end
  else PassEnd K [a; b] c tgt false.
Proof. reflexivity. Qed.

Lemma normalize_pair : forall (a b : op) (c : K) (tgt : poly K),
  normalize [a; b] c tgt =
  if op_eqb a b then Done tgt
  else if op_gtb a b then
    (if op_eqb a (flip_type b) then Done (insert [b; a] (kopp c) (insert [] c tgt))
     else Done (insert [b; a] (kopp c) tgt))
  else Done (insert [a; b] c tgt).
Proof.
  intros a b c tgt. unfold Poly.normalize.
  change (fuel_for [a; b]) with (S (S (S 8))).
  rewrite nai_S, pass_pair.
  destruct (op_eqb a b) eqn:Eab; [reflexivity|].
  destruct (op_gtb a b) eqn:Gab; [|reflexivity].
  assert (Eba : op_eqb b a = false).
  { unfold op_eqb. unfold op_gtb in Gab. rewrite op_compare_antisym.
    destruct (op_compare a b); try discriminate; reflexivity. }
  assert (Gba : op_gtb b a = false).
  { unfold op_gtb in *. rewrite op_compare_antisym.
    destruct (op_compare a b); try discriminate; reflexivity. }
  destruct (op_eqb a (flip_type b)) eqn:F; cbv zeta.
  - rewrite (nai_S (S 8) []). cbv beta iota.
    rewrite nai_S, pass_pair, Eba, Gba. reflexivity.
  - cbv beta iota. rewrite nai_S, pass_pair, Eba, Gba. reflexivity.
Qed.

Lemma pmul_single : forall (a b : op) (x y : K),
  pmul [([a], x)] [([b], y)] = normalize [a; b] (kmul x y) [].
Proof. reflexivity. Qed.

Lemma kzero_k0' : kzero k0 = true.
Proof. apply (proj2 Hring k0); reflexivity. Qed.

(** two elementary operators that are not a (c_i, c^+_i) pair anticommute: the algorithm
    returns the empty map *)
Lemma acomm_pair : forall a b : op, op_eqb a (flip_type b) = false ->
  anticommutator [([a], k1)] [([b], k1)] = Done [].
Proof.
  intros a b F. unfold Poly.anticommutator. rewrite !pmul_single, !normalize_pair.
  replace (kmul k1 k1) with k1 by ring.
  rewrite (op_eqb_flip_sym a b), F.
  unfold op_eqb, op_gtb. rewrite (op_compare_antisym a b).
  destruct (op_compare a b) eqn:E; cbn [CompOpp bind].
  - reflexivity.
  - cbn [Poly.padd Poly.insert fold_left fst snd]. rewrite mono_compare_refl. cbv zeta.
    replace (kadd k1 (kopp k1)) with k0 by ring. rewrite kzero_k0'. reflexivity.
  - cbn [Poly.padd Poly.insert fold_left fst snd]. rewrite mono_compare_refl. cbv zeta.
    replace (kadd (kopp k1) k1) with k0 by ring. rewrite kzero_k0'. reflexivity.
Qed.

(** c_i c^+_i + c^+_i c_i: the algorithm returns the constant 1 *)
Lemma acomm_same : forall i : nat,
  anticommutator [([cann i], k1)] [([cdag i], k1)] = Done [([], k1)].
Proof.
  intros i. unfold Poly.anticommutator. rewrite !pmul_single, !normalize_pair.
  replace (kmul k1 k1) with k1 by ring.
  unfold op_eqb, op_gtb, op_compare, flip_type, cann, cdag. cbn [fst snd negb].
  rewrite Nat.compare_refl. cbn [bind].
  cbn [Poly.padd Poly.insert fold_left fst snd].
  change (mono_compare [(false, i); (true, i)] []) with Gt. cbv beta iota.
  cbn [Poly.insert]. rewrite mono_compare_refl. cbv zeta.
  replace (kadd (kopp k1) k1) with k0 by ring. rewrite kzero_k0'. reflexivity.
Qed.

Lemma car_poly_gen : forall i j : nat,
  anticommutator (p_c K k1 i) (p_cdag K k1 j) = Done (if Nat.eqb i j then [([], k1)] else []) /\
  anticommutator (p_c K k1 i) (p_c K k1 j) = Done [] /\
  anticommutator (p_cdag K k1 i) (p_cdag K k1 j) = Done [].
Proof.
  intros i j. unfold p_c, p_cdag. repeat split.
  - destruct (Nat.eqb i j) eqn:E.
    + apply Nat.eqb_eq in E. subst j. apply acomm_same.
    + apply acomm_pair. unfold op_eqb, op_compare, flip_type, cann, cdag. cbn [fst snd negb].
      destruct (i ?= j) eqn:C; try reflexivity.
      apply Nat.compare_eq in C. apply Nat.eqb_neq in E. contradiction.
  - apply acomm_pair. reflexivity.
  - apply acomm_pair. reflexivity.
Qed.

End Proofs.

(** * The theorems, with exactly the propositions of PV.PolySem *)

Section Statements.
Variable K : Type.
Variables (k0 k1 : K) (kadd kmul ksub : K -> K -> K) (kopp : K -> K).
Variable kzero : K -> bool.

Theorem pmul_sound : pmul_sound_stmt K k0 k1 kadd kmul ksub kopp kzero.
Proof. intros Hring. apply (pmul_sound_gen K k0 k1 kadd kmul ksub kopp kzero Hring). Qed.

Theorem commutator_sound : commutator_sound_stmt K k0 k1 kadd kmul ksub kopp kzero.
Proof. intros Hring. apply (commutator_sound_gen K k0 k1 kadd kmul ksub kopp kzero Hring). Qed.

Theorem anticommutator_sound : anticommutator_sound_stmt K k0 k1 kadd kmul ksub kopp kzero.
Proof. intros Hring. apply (anticommutator_sound_gen K k0 k1 kadd kmul ksub kopp kzero Hring). Qed.

Theorem car_poly : car_poly_stmt K k0 k1 kadd kmul ksub kopp kzero.
Proof. intros Hring _. apply (car_poly_gen K k0 k1 kadd kmul ksub kopp kzero Hring). Qed.

Theorem commutes_sound : commutes_sound_stmt K k0 k1 kadd kmul ksub kopp kzero.
Proof. intros Hring. apply (commutes_sound_gen K k0 k1 kadd kmul ksub kopp kzero Hring). Qed.

End Statements.
