(** C05, part 2: products.  Everything here rests on the correctness of the normal-ordering
    routine (PV.NormalizeProofs: normalize_sound, normalize_total): the matrix of A*B is the
    product of the matrices, commutator / anticommutator, the canonical anticommutation
    relations as computed by the algorithm itself, the commutation test, associativity of the
    matrices of products, and completeness of the equality test (linear independence of
    normal-ordered monomials).

    Specification side: PV.PolySem.  Every result is closed under the global context. *)
Require Import Bool List Arith Lia ZArith Ring Ring_theory Sorted.
From PV Require Import Outcome Fock Poly PolySem NormalizeProofs AlgebraBasics.
Import ListNotations.

(** * More order facts *)

Lemma op_compare_antisym : forall a b, op_compare b a = CompOpp (op_compare a b).
Proof.
  intros [x i] [y j]; unfold op_compare; cbn [fst snd].
  destruct x, y; try reflexivity; apply Nat.compare_antisym.
Qed.

Lemma op_eqb_flip_sym : forall a b, op_eqb b (flip_type a) = op_eqb a (flip_type b).
Proof.
  intros [x i] [y j]; unfold op_eqb, op_compare, flip_type; cbn [fst snd].
  destruct x, y; cbn [negb]; try reflexivity;
    rewrite (Nat.compare_antisym i j); destruct (i ?= j); reflexivity.
Qed.

Lemma mono_in_range_app : forall M m1 m2, mono_in_range M m1 -> mono_in_range M m2 ->
  mono_in_range M (m1 ++ m2).
Proof. intros M m1 m2 H1 H2. unfold mono_in_range. apply Forall_app. split; assumption. Qed.

(** * Totality of the product (no ring laws needed) *)

Section Total.
Variable K : Type.
Variables (kadd kmul : K -> K -> K) (kopp : K -> K).
Variable kzero : K -> bool.

Local Notation normalize := (normalize K kadd kopp kzero).
Local Notation pmul := (pmul K kadd kmul kopp kzero).

(** the inner loop of operator*=: one left monomial against all right monomials *)
Definition pmul_inner (m : monomial) (c : K) (b : poly K) (acc : outcome (poly K)) : outcome (poly K) :=
  fold_left (fun acc' mc' => bind acc' (fun t => normalize (m ++ fst mc') (kmul c (snd mc')) t)) b acc.

Definition pmul_outer (a b : poly K) (acc : outcome (poly K)) : outcome (poly K) :=
  fold_left (fun acc mc => pmul_inner (fst mc) (snd mc) b acc) a acc.

Lemma pmul_unfold : forall a b, pmul a b = pmul_outer a b (Done []).
Proof. reflexivity. Qed.

Lemma norm_total : forall m c tgt, exists tgt', normalize m c tgt = Done tgt'.
Proof. exact (normalize_total K kadd kopp kzero). Qed.

Lemma pmul_inner_total : forall b m c acc0, exists r, pmul_inner m c b (Done acc0) = Done r.
Proof.
  unfold pmul_inner.
  induction b as [|[m' c'] b IH]; intros m c acc0; cbn [fold_left bind fst snd].
  - exists acc0; reflexivity.
  - destruct (norm_total (m ++ m') (kmul c c') acc0) as [r1 Hr1]. rewrite Hr1. apply IH.
Qed.

Lemma pmul_outer_total : forall a b acc0, exists r, pmul_outer a b (Done acc0) = Done r.
Proof.
  unfold pmul_outer.
  induction a as [|[m c] a IH]; intros b acc0; cbn [fold_left fst snd].
  - exists acc0; reflexivity.
  - destruct (pmul_inner_total b m c acc0) as [r1 Hr1]. rewrite Hr1. apply IH.
Qed.

Theorem pmul_total : pmul_total_stmt K kadd kmul kopp kzero.
Proof. intros a b. rewrite pmul_unfold. apply pmul_outer_total. Qed.

End Total.

(** * Soundness *)

Section Proofs.
Variable K : Type.
Variables (k0 k1 : K) (kadd kmul ksub : K -> K -> K) (kopp : K -> K).
Variable kzero : K -> bool.
Hypothesis Hring : ring_ok K k0 k1 kadd kmul ksub kopp kzero.

Let Rth : ring_theory k0 k1 kadd kmul ksub kopp (@eq K) := proj1 Hring.
Add Ring Kring2 : Rth.

Local Notation cm := (coef_mono K k0 k1 kopp).
Local Notation cp := (coef_poly K k0 k1 kadd kmul kopp).
Local Notation ksum := (@ksum K k0 kadd _).
Local Notation normalize := (normalize K kadd kopp kzero).
Local Notation insert := (insert K kadd kzero).
Local Notation padd := (padd K kadd kzero).
Local Notation psub := (psub K ksub kopp kzero).
Local Notation pmul := (pmul K kadd kmul kopp kzero).
Local Notation pinner := (pmul_inner K kadd kmul kopp kzero).
Local Notation pouter := (pmul_outer K kadd kmul kopp kzero).
Local Notation commutator := (commutator K kadd kmul ksub kopp kzero).
Local Notation anticommutator := (anticommutator K kadd kmul kopp kzero).
Local Notation poly_eq := (poly_eq K ksub kzero).
Local Notation commutes := (commutes K kadd kmul ksub kopp kzero).
Local Notation poly_in_range := (poly_in_range K).


Lemma norm_sound : forall (M : nat) (m : monomial) (c : K) (tgt tgt' : poly K) (s t : state),
  mono_in_range M m -> length s = M -> normalize m c tgt = Done tgt' ->
  cp tgt' s t = kadd (cp tgt s t) (kmul c (cm m s t)).
Proof. exact (normalize_sound K k0 k1 kadd kmul ksub kopp kzero Hring). Qed.

Section Product.
Variable M : nat.
Variables s t : state.
Hypothesis Hs : length s = M.

Lemma pmul_inner_sound : forall b m c acc0 r,
  mono_in_range M m -> poly_in_range M b ->
  pinner m c b (Done acc0) = Done r ->
  cp r s t = kadd (cp acc0 s t)
                  (ksum b (fun mc' => kmul (kmul c (snd mc')) (cm (m ++ fst mc') s t))).
Proof.
  unfold pmul_inner.
  induction b as [|[m' c'] b IH]; intros m c acc0 r Hm Hb; cbn [fold_left bind fst snd].
  - intro H. assert (Hr : r = acc0) by congruence. subst r. rewrite ksum_nil. ring.
  - inversion Hb as [|x l Hm' Hb']; subst x l. cbn [fst] in Hm'.
    destruct (norm_total K kadd kopp kzero (m ++ m') (kmul c c') acc0) as [r1 Hr1]. rewrite Hr1.
    intro H. apply (IH m c r1 r Hm Hb') in H. rewrite H.
    rewrite (norm_sound M _ _ _ _ s t (mono_in_range_app M m m' Hm Hm') Hs Hr1).
    rewrite ksum_cons. cbn [fst snd]. ring.
Qed.

Lemma pmul_outer_sound : forall a b acc0 r,
  poly_in_range M a -> poly_in_range M b ->
  pouter a b (Done acc0) = Done r ->
  cp r s t = kadd (cp acc0 s t)
                  (ksum a (fun mc => ksum b (fun mc' =>
                     kmul (kmul (snd mc) (snd mc')) (cm (fst mc ++ fst mc') s t)))).
Proof.
  unfold pmul_outer.
  induction a as [|[m c] a IH]; intros b acc0 r Ha Hb; cbn [fold_left fst snd].
  - intro H. assert (Hr : r = acc0) by congruence. subst r. rewrite ksum_nil. ring.
  - inversion Ha as [|x l Hm Ha']; subst x l. cbn [fst] in Hm.
    destruct (pmul_inner_total K kadd kmul kopp kzero b m c acc0) as [r1 Hr1]. rewrite Hr1.
    intro H. apply (IH b r1 r Ha' Hb) in H. rewrite H.
    rewrite (pmul_inner_sound b m c acc0 r1 Hm Hb Hr1).
    rewrite ksum_cons. cbn [fst snd]. ring.
Qed.

End Product.

Lemma pmul_sound_gen : forall (M : nat) (a b ab : poly K) (s t : state),
  poly_in_range M a -> poly_in_range M b -> length s = M -> length t = M ->
  pmul a b = Done ab ->
  cp ab s t = ksum (all_states M) (fun u => kmul (cp a u t) (cp b s u)).
Proof.
  intros M a b ab s t Ha Hb Hs _ H. rewrite pmul_unfold in H.
  rewrite (pmul_outer_sound M s t Hs a b [] ab Ha Hb H).
  rewrite cp_nil.
  transitivity (ksum a (fun mc => ksum b (fun mc' => ksum (all_states M) (fun u =>
      kmul (kmul (snd mc) (cm (fst mc) u t)) (kmul (snd mc') (cm (fst mc') s u)))))).
  - match goal with |- kadd k0 ?x = _ => transitivity x; [ring|] end.
    apply ksum_ext; intros [m c] _. apply ksum_ext; intros [m' c'] _. cbn [fst snd].
    rewrite (coef_mono_app K k0 k1 kadd kmul ksub kopp kzero Hring M m m' s t Hs).
    rewrite <- (ksum_scale_l K k0 k1 kadd kmul ksub kopp kzero Hring).
    apply ksum_ext; intros u _. ring.
  - symmetry.
    apply (ksum_prod K k0 k1 kadd kmul ksub kopp kzero Hring _ _ _ a b (all_states M)
             (fun mc u => kmul (snd mc) (cm (fst mc) u t))
             (fun mc' u => kmul (snd mc') (cm (fst mc') s u))).
Qed.

Lemma commutator_sound_gen : forall (M : nat) (a b r : poly K) (s t : state),
  poly_in_range M a -> poly_in_range M b -> length s = M -> length t = M ->
  commutator a b = Done r ->
  cp r s t = ksub (ksum (all_states M) (fun u => kmul (cp a u t) (cp b s u)))
                  (ksum (all_states M) (fun u => kmul (cp b u t) (cp a s u))).
Proof.
  intros M a b r s t Ha Hb Hs Ht. unfold Poly.commutator.
  destruct (pmul a b) as [ab| | | |] eqn:Eab; try discriminate.
  destruct (pmul b a) as [ba| | | |] eqn:Eba; try discriminate.
  cbn [bind]. intro H. assert (Hr : r = psub ab ba) by congruence. subst r.
  rewrite (psub_sound_gen K k0 k1 kadd kmul ksub kopp kzero Hring).
  rewrite (pmul_sound_gen M a b ab s t Ha Hb Hs Ht Eab).
  rewrite (pmul_sound_gen M b a ba s t Hb Ha Hs Ht Eba). reflexivity.
Qed.

Lemma anticommutator_sound_gen : forall (M : nat) (a b r : poly K) (s t : state),
  poly_in_range M a -> poly_in_range M b -> length s = M -> length t = M ->
  anticommutator a b = Done r ->
  cp r s t = kadd (ksum (all_states M) (fun u => kmul (cp a u t) (cp b s u)))
                  (ksum (all_states M) (fun u => kmul (cp b u t) (cp a s u))).
Proof.
  intros M a b r s t Ha Hb Hs Ht. unfold Poly.anticommutator.
  destruct (pmul a b) as [ab| | | |] eqn:Eab; try discriminate.
  destruct (pmul b a) as [ba| | | |] eqn:Eba; try discriminate.
  cbn [bind]. intro H. assert (Hr : r = padd ab ba) by congruence. subst r.
  rewrite (padd_sound_gen K k0 k1 kadd kmul ksub kopp kzero Hring).
  rewrite (pmul_sound_gen M a b ab s t Ha Hb Hs Ht Eab).
  rewrite (pmul_sound_gen M b a ba s t Hb Ha Hs Ht Eba). reflexivity.
Qed.

Lemma commutes_sound_gen : forall (M : nat) (a b : poly K),
  poly_in_range M a -> poly_in_range M b ->
  commutes true a b = Done true ->
  forall s t, length s = M -> length t = M ->
  ksum (all_states M) (fun u => kmul (cp a u t) (cp b s u)) =
  ksum (all_states M) (fun u => kmul (cp b u t) (cp a s u)).
Proof.
  intros M a b Ha Hb. unfold Poly.commutes.
  destruct (pmul a b) as [ab| | | |] eqn:Eab; try discriminate.
  destruct (pmul b a) as [ba| | | |] eqn:Eba; try discriminate.
  cbn [bind]. intros H s t Hs Ht.
  apply (poly_eq_true_eq K k0 k1 kadd kmul ksub kopp kzero Hring) in H. subst ba.
  rewrite <- (pmul_sound_gen M a b ab s t Ha Hb Hs Ht Eab).
  rewrite <- (pmul_sound_gen M b a ab s t Hb Ha Hs Ht Eba). reflexivity.
Qed.

(** ** The algorithm's own output on products of two elementary operators *)

Lemma nai_S : forall f (m : monomial) (c : K) (tgt : poly K),
  normalize_and_insert K kadd kopp kzero (S f) m c tgt =
  match m with
  | first :: (_ :: _) as rest =>
    match pass K kopp (normalize_and_insert K kadd kopp kzero f) [] first rest c tgt false with
    | PassVanish _ tgt' => Done tgt'
    | PassEnd _ m' c' tgt' true => normalize_and_insert K kadd kopp kzero f m' c' tgt'
    | PassEnd _ m' c' tgt' false => Done (insert m' c' tgt')
    | PassFail _ e => e
    end
  | _ => Done (insert m c tgt)
  end.
Proof. reflexivity. Qed.

Lemma pass_pair : forall rec (a b : op) (c : K) (tgt : poly K),
  pass K kopp rec [] a [b] c tgt false =
  if op_eqb a b then PassVanish K tgt
  else if op_gtb a b then
    let r := if op_eqb a (flip_type b) then rec [] c tgt else Done tgt in
    match r with
    | Done tgt' => PassEnd K [b; a] (kopp c) tgt' true
    | _ => PassFail K r
    end
  else PassEnd K [a; b] c tgt false.
Proof. reflexivity. Qed.

Lemma normalize_pair : forall (a b : op) (c : K) (tgt : poly K),
  normalize [a; b] c tgt =
  if op_eqb a b then Done tgt
  else if op_gtb a b then
    (if op_eqb a (flip_type b) then Done (insert [b; a] (kopp c) (insert [] c tgt))
     else Done (insert [b; a] (kopp c) tgt))
  else Done (insert [a; b] c tgt).
Proof.
  intros a b c tgt. unfold Poly.normalize.
  change (fuel_for [a; b]) with (S (S (S 8))).
  rewrite nai_S, pass_pair.
  destruct (op_eqb a b) eqn:Eab; [reflexivity|].
  destruct (op_gtb a b) eqn:Gab; [|reflexivity].
  assert (Eba : op_eqb b a = false).
  { unfold op_eqb. unfold op_gtb in Gab. rewrite op_compare_antisym.
    destruct (op_compare a b); try discriminate; reflexivity. }
  assert (Gba : op_gtb b a = false).
  { unfold op_gtb in *. rewrite op_compare_antisym.
    destruct (op_compare a b); try discriminate; reflexivity. }
  destruct (op_eqb a (flip_type b)) eqn:F; cbv zeta.
  - rewrite (nai_S (S 8) []). cbv beta iota.
    rewrite nai_S, pass_pair, Eba, Gba. reflexivity.
  - cbv beta iota. rewrite nai_S, pass_pair, Eba, Gba. reflexivity.
Qed.

Lemma pmul_single : forall (a b : op) (x y : K),
  pmul [([a], x)] [([b], y)] = normalize [a; b] (kmul x y) [].
Proof. reflexivity. Qed.

Lemma kzero_k0' : kzero k0 = true.
Proof. apply (proj2 Hring k0); reflexivity. Qed.

(** two elementary operators that are not a (c_i, c^+_i) pair anticommute: the algorithm
    returns the empty map *)
Lemma acomm_pair : forall a b : op, op_eqb a (flip_type b) = false ->
  anticommutator [([a], k1)] [([b], k1)] = Done [].
Proof.
  intros a b F. unfold Poly.anticommutator. rewrite !pmul_single, !normalize_pair.
  replace (kmul k1 k1) with k1 by ring.
  rewrite (op_eqb_flip_sym a b), F.
  unfold op_eqb, op_gtb. rewrite (op_compare_antisym a b).
  destruct (op_compare a b) eqn:E; cbn [CompOpp bind].
  - reflexivity.
  - cbn [Poly.padd Poly.insert fold_left fst snd]. rewrite mono_compare_refl. cbv zeta.
    replace (kadd k1 (kopp k1)) with k0 by ring. rewrite kzero_k0'. reflexivity.
  - cbn [Poly.padd Poly.insert fold_left fst snd]. rewrite mono_compare_refl. cbv zeta.
    replace (kadd (kopp k1) k1) with k0 by ring. rewrite kzero_k0'. reflexivity.
Qed.

(** c_i c^+_i + c^+_i c_i: the algorithm returns the constant 1 *)
Lemma acomm_same : forall i : nat,
  anticommutator [([cann i], k1)] [([cdag i], k1)] = Done [([], k1)].
Proof.
  intros i. unfold Poly.anticommutator. rewrite !pmul_single, !normalize_pair.
  replace (kmul k1 k1) with k1 by ring.
  unfold op_eqb, op_gtb, op_compare, flip_type, cann, cdag. cbn [fst snd negb].
  rewrite Nat.compare_refl. cbn [bind].
  cbn [Poly.padd Poly.insert fold_left fst snd].
  change (mono_compare [(false, i); (true, i)] []) with Gt. cbv beta iota.
  cbn [Poly.insert]. rewrite mono_compare_refl. cbv zeta.
  replace (kadd (kopp k1) k1) with k0 by ring. rewrite kzero_k0'. reflexivity.
Qed.

Lemma car_poly_gen : forall i j : nat,
  anticommutator (p_c K k1 i) (p_cdag K k1 j) = Done (if Nat.eqb i j then [([], k1)] else []) /\
  anticommutator (p_c K k1 i) (p_c K k1 j) = Done [] /\
  anticommutator (p_cdag K k1 i) (p_cdag K k1 j) = Done [].
Proof.
  intros i j. unfold p_c, p_cdag. repeat split.
  - destruct (Nat.eqb i j) eqn:E.
    + apply Nat.eqb_eq in E. subst j. apply acomm_same.
    + apply acomm_pair. unfold op_eqb, op_compare, flip_type, cann, cdag. cbn [fst snd negb].
      destruct (i ?= j) eqn:C; try reflexivity.
      apply Nat.compare_eq in C. apply Nat.eqb_neq in E. contradiction.
  - apply acomm_pair. reflexivity.
  - apply acomm_pair. reflexivity.
Qed.

End Proofs.

(** * The theorems, with exactly the propositions of PV.PolySem *)

Section Statements.
Variable K : Type.
Variables (k0 k1 : K) (kadd kmul ksub : K -> K -> K) (kopp : K -> K).
Variable kzero : K -> bool.

Theorem pmul_sound : pmul_sound_stmt K k0 k1 kadd kmul ksub kopp kzero.
Proof. intros Hring. apply (pmul_sound_gen K k0 k1 kadd kmul ksub kopp kzero Hring). Qed.

Theorem commutator_sound : commutator_sound_stmt K k0 k1 kadd kmul ksub kopp kzero.
Proof. intros Hring. apply (commutator_sound_gen K k0 k1 kadd kmul ksub kopp kzero Hring). Qed.

Theorem anticommutator_sound : anticommutator_sound_stmt K k0 k1 kadd kmul ksub kopp kzero.
Proof. intros Hring. apply (anticommutator_sound_gen K k0 k1 kadd kmul ksub kopp kzero Hring). Qed.

Theorem car_poly : car_poly_stmt K k0 k1 kadd kmul ksub kopp kzero.
Proof. intros Hring _. apply (car_poly_gen K k0 k1 kadd kmul ksub kopp kzero Hring). Qed.

Theorem commutes_sound : commutes_sound_stmt K k0 k1 kadd kmul ksub kopp kzero.
Proof. intros Hring. apply (commutes_sound_gen K k0 k1 kadd kmul ksub kopp kzero Hring). Qed.

End Statements.

(** * Products stay within the modes of their factors; associativity of the matrices *)

Section Range.
Variable K : Type.
Variables (kadd kmul : K -> K -> K) (kopp : K -> K).
Variable kzero : K -> bool.
Variable M : nat.

Local Notation insert := (insert K kadd kzero).
Local Notation pass := (pass K kopp).
Local Notation nai := (normalize_and_insert K kadd kopp kzero).
Local Notation normalize := (normalize K kadd kopp kzero).
Local Notation pmul := (pmul K kadd kmul kopp kzero).
Local Notation poly_in_range := (poly_in_range K).

Lemma insert_range : forall m c p, mono_in_range M m -> poly_in_range M p ->
  poly_in_range M (insert m c p).
Proof.
  intros m c p Hm. unfold PolySem.poly_in_range. induction p as [|[m' c'] p IH]; intro Hp.
  - cbn [Poly.insert]. constructor; [exact Hm|constructor].
  - cbn [Poly.insert]. inversion Hp as [|x l Hh Ht]; subst x l.
    destruct (mono_compare m m').
    + cbv zeta. destruct (kzero (kadd c' c)); [exact Ht|]. constructor; [exact Hh|exact Ht].
    + constructor; [exact Hm|exact Hp].
    + constructor; [exact Hh|apply IH; exact Ht].
Qed.

Lemma pass_cons' : forall rec d p cur r c tgt sw,
  pass rec d p (cur :: r) c tgt sw =
  if op_eqb p cur then PassVanish K tgt
  else if op_gtb p cur then
    match (if op_eqb p (flip_type cur) then rec (rev d ++ r) c tgt else Done tgt) with
    | Done tgt' => pass rec (cur :: d) p r (kopp c) tgt' true
    | e => PassFail K e
    end
  else pass rec (p :: d) cur r c tgt sw.
Proof.
  intros rec d p cur r c tgt sw. cbn [Poly.pass].
  destruct (op_eqb p cur); [reflexivity|].
  destruct (op_gtb p cur); [|reflexivity].
  destruct (if op_eqb p (flip_type cur) then rec (rev d ++ r) c tgt else Done tgt); reflexivity.
Qed.

Lemma pass_range : forall rec,
  (forall m c tgt tgt', mono_in_range M m -> poly_in_range M tgt -> rec m c tgt = Done tgt' ->
     poly_in_range M tgt') ->
  forall rest d p c tgt sw,
  poly_in_range M tgt -> mono_in_range M d -> op_idx p < M -> mono_in_range M rest ->
  match pass rec d p rest c tgt sw with
  | PassVanish _ tgt' => poly_in_range M tgt'
  | PassEnd _ m' _ tgt' _ => poly_in_range M tgt' /\ mono_in_range M m'
  | PassFail _ e => forall x, e <> Done x
  end.
Proof.
  intros rec Hrec. induction rest as [|cur rest IH]; intros d p c tgt sw Ht Hd Hp Hr.
  - cbn [Poly.pass]. split; [exact Ht|]. unfold mono_in_range. apply Forall_rev.
    constructor; [exact Hp|exact Hd].
  - rewrite pass_cons'. inversion Hr as [|x l Hcur Hrest]; subst x l.
    destruct (op_eqb p cur); [exact Ht|].
    destruct (op_gtb p cur).
    + destruct (op_eqb p (flip_type cur)).
      * destruct (rec (rev d ++ rest) c tgt) as [tgt1| | | |] eqn:Er; try (intros x; discriminate).
        apply IH; auto; [|constructor; assumption].
        apply (Hrec _ _ _ _ (proj2 (Forall_app _ _ _) (conj (Forall_rev Hd) Hrest)) Ht Er).
      * apply IH; auto. constructor; assumption.
    + apply IH; auto. constructor; assumption.
Qed.

Lemma nai_range : forall f m c tgt tgt', mono_in_range M m -> poly_in_range M tgt ->
  nai f m c tgt = Done tgt' -> poly_in_range M tgt'.
Proof.
  induction f as [|f IHf]; intros m c tgt tgt' Hm Ht H; [discriminate|].
  rewrite AlgebraProofs.nai_S in H.
  destruct m as [|first [|x r]].
  - inversion H; subst. apply insert_range; assumption.
  - inversion H; subst. apply insert_range; assumption.
  - inversion Hm as [|y l Hfirst Hrest]; subst y l.
    pose proof (pass_range (nai f) IHf (x :: r) [] first c tgt false Ht (Forall_nil _) Hfirst Hrest) as HP.
    destruct (pass (nai f) [] first (x :: r) c tgt false) as [tgt1|m' c' tgt1 [|]|e].
    + inversion H; subst. exact HP.
    + destruct HP as [Ht1 Hm1]. apply (IHf _ _ _ _ Hm1 Ht1 H).
    + destruct HP as [Ht1 Hm1]. inversion H; subst. apply insert_range; assumption.
    + exfalso. apply (HP tgt'). exact H.
Qed.

Lemma normalize_range : forall m c tgt tgt', mono_in_range M m -> poly_in_range M tgt ->
  normalize m c tgt = Done tgt' -> poly_in_range M tgt'.
Proof. intros m c tgt tgt'. unfold Poly.normalize. apply nai_range. Qed.

Lemma pmul_inner_range : forall b m c acc0 r,
  mono_in_range M m -> poly_in_range M b -> poly_in_range M acc0 ->
  pmul_inner K kadd kmul kopp kzero m c b (Done acc0) = Done r -> poly_in_range M r.
Proof.
  unfold pmul_inner.
  induction b as [|[m' c'] b IH]; intros m c acc0 r Hm Hb Hacc; cbn [fold_left bind fst snd].
  - intro H. assert (E : r = acc0) by congruence. subst r. exact Hacc.
  - inversion Hb as [|x l Hm' Hb']; subst x l. cbn [fst] in Hm'.
    destruct (norm_total K kadd kopp kzero (m ++ m') (kmul c c') acc0) as [r1 Hr1]. rewrite Hr1.
    apply (IH m c r1 r Hm Hb').
    apply (normalize_range _ _ _ _ (AlgebraProofs.mono_in_range_app M m m' Hm Hm') Hacc Hr1).
Qed.

Lemma pmul_outer_range : forall a b acc0 r,
  poly_in_range M a -> poly_in_range M b -> poly_in_range M acc0 ->
  pmul_outer K kadd kmul kopp kzero a b (Done acc0) = Done r -> poly_in_range M r.
Proof.
  unfold pmul_outer.
  induction a as [|[m c] a IH]; intros b acc0 r Ha Hb Hacc; cbn [fold_left fst snd].
  - intro H. assert (E : r = acc0) by congruence. subst r. exact Hacc.
  - inversion Ha as [|x l Hm Ha']; subst x l. cbn [fst] in Hm.
    destruct (pmul_inner_total K kadd kmul kopp kzero b m c acc0) as [r1 Hr1]. rewrite Hr1.
    apply (IH b r1 r Ha' Hb). apply (pmul_inner_range b m c acc0 r1 Hm Hb Hacc Hr1).
Qed.

(** the product only mentions modes that its factors mention *)
Lemma pmul_range : forall a b ab, poly_in_range M a -> poly_in_range M b ->
  pmul a b = Done ab -> poly_in_range M ab.
Proof.
  intros a b ab Ha Hb H. rewrite pmul_unfold in H.
  apply (pmul_outer_range a b [] ab Ha Hb (Forall_nil _) H).
Qed.

End Range.

Section Assoc.
Variable K : Type.
Variables (k0 k1 : K) (kadd kmul ksub : K -> K -> K) (kopp : K -> K).
Variable kzero : K -> bool.
Hypothesis Hring : ring_ok K k0 k1 kadd kmul ksub kopp kzero.

Let Rth : ring_theory k0 k1 kadd kmul ksub kopp (@eq K) := proj1 Hring.
Add Ring Kring4 : Rth.

Local Notation cp := (coef_poly K k0 k1 kadd kmul kopp).
Local Notation ksum := (@ksum K k0 kadd _).
Local Notation pmul := (pmul K kadd kmul kopp kzero).
Local Notation poly_in_range := (poly_in_range K).

(** (A*B)*C and A*(B*C), both as computed by operator*=, have the same matrix *)
Lemma mul_assoc_sem : forall (M : nat) (a b c ab bc abc abc' : poly K),
  poly_in_range M a -> poly_in_range M b -> poly_in_range M c ->
  pmul a b = Done ab -> pmul ab c = Done abc ->
  pmul b c = Done bc -> pmul a bc = Done abc' ->
  forall s t, length s = M -> length t = M -> cp abc s t = cp abc' s t.
Proof.
  intros M a b c ab bc abc abc' Ha Hb Hc Eab Eabc Ebc Eabc' s t Hs Ht.
  pose proof (pmul_range K kadd kmul kopp kzero M a b ab Ha Hb Eab) as Hab.
  pose proof (pmul_range K kadd kmul kopp kzero M b c bc Hb Hc Ebc) as Hbc.
  rewrite (pmul_sound K k0 k1 kadd kmul ksub kopp kzero Hring M ab c abc s t Hab Hc Hs Ht Eabc).
  rewrite (pmul_sound K k0 k1 kadd kmul ksub kopp kzero Hring M a bc abc' s t Ha Hbc Hs Ht Eabc').
  transitivity (ksum (all_states M) (fun u => ksum (all_states M) (fun v =>
                  kmul (cp a v t) (kmul (cp b u v) (cp c s u))))).
  - apply ksum_ext. intros u Hu. apply all_states_length in Hu.
    rewrite (pmul_sound K k0 k1 kadd kmul ksub kopp kzero Hring M a b ab u t Ha Hb Hu Ht Eab).
    rewrite <- (ksum_scale_r K k0 k1 kadd kmul ksub kopp kzero Hring).
    apply ksum_ext. intros v _. ring.
  - rewrite (ksum_swap K k0 k1 kadd kmul ksub kopp kzero Hring).
    apply ksum_ext. intros v Hv. apply all_states_length in Hv.
    rewrite (pmul_sound K k0 k1 kadd kmul ksub kopp kzero Hring M b c bc s v Hb Hc Hs Hv Ebc).
    rewrite <- (ksum_scale_l K k0 k1 kadd kmul ksub kopp kzero Hring).
    reflexivity.
Qed.

End Assoc.

(** * Completeness of the equality test: linear independence of normal-ordered monomials *)

(** ** Strictly increasing index lists *)

Lemma sorted_head_lt : forall (l : list nat) a x, Sorted lt (a :: l) -> In x l -> a < x.
Proof.
  intros l a x H Hin.
  assert (F : Forall (lt a) l).
  { apply Sorted_extends; [intros p q r; apply Nat.lt_trans | exact H]. }
  rewrite Forall_forall in F. apply F; exact Hin.
Qed.

Lemma sorted_nodup : forall l : list nat, Sorted lt l -> NoDup l.
Proof.
  induction l as [|a l IH]; intro H; constructor.
  - intro Hin. apply (sorted_head_lt l a a H) in Hin. lia.
  - apply IH. inversion H; assumption.
Qed.

Lemma sorted_ext : forall l1 l2 : list nat, Sorted lt l1 -> Sorted lt l2 ->
  (forall x, In x l1 <-> In x l2) -> l1 = l2.
Proof.
  induction l1 as [|a l1 IH]; intros l2 S1 S2 H.
  - destruct l2 as [|b l2]; [reflexivity|]. destruct (proj2 (H b) (or_introl eq_refl)).
  - destruct l2 as [|b l2]; [destruct (proj1 (H a) (or_introl eq_refl))|].
    assert (Eab : a = b).
    { destruct (proj1 (H a) (or_introl eq_refl)) as [E|Ha]; [congruence|].
      destruct (proj2 (H b) (or_introl eq_refl)) as [E|Hb]; [congruence|].
      apply (sorted_head_lt _ _ _ S2) in Ha. apply (sorted_head_lt _ _ _ S1) in Hb. lia. }
    subst b. f_equal. apply IH.
    + inversion S1; assumption.
    + inversion S2; assumption.
    + intro x. split; intro Hx.
      * destruct (proj1 (H x) (or_intror Hx)) as [E|Hx']; [|exact Hx'].
        apply (sorted_head_lt _ _ _ S1) in Hx. lia.
      * destruct (proj2 (H x) (or_intror Hx)) as [E|Hx']; [|exact Hx'].
        apply (sorted_head_lt _ _ _ S2) in Hx. lia.
Qed.

(** a normal-ordered monomial is a block of creators followed by a block of annihilators,
    each with strictly increasing indices *)
Lemma normal_split : forall m, mono_normal m ->
  exists I J, m = map cdag I ++ map cann J /\ Sorted lt I /\ Sorted lt J.
Proof.
  induction m as [|a t IH]; intro H.
  - exists [], []. repeat split; constructor.
  - change (match t with [] => True | b :: _ => op_compare a b = Lt end /\ mono_normal t) in H.
    destruct H as [Hh Ht]. destruct (IH Ht) as [I [J [E [SI SJ]]]]. subst t.
    destruct a as [[|] i].
    + destruct I as [|i' I].
      * exists [], (i :: J). cbn [map app]. repeat split; [constructor|].
        constructor; [exact SJ|]. destruct J as [|j J]; constructor.
        cbn [map app] in Hh. unfold op_compare, cann in Hh. cbn [fst snd] in Hh.
        apply Nat.compare_lt_iff; exact Hh.
      * cbn [map app] in Hh. unfold op_compare, cdag in Hh. cbn [fst snd] in Hh. discriminate.
    + exists (i :: I), J. cbn [map app]. repeat split; [|exact SJ].
      constructor; [exact SI|]. destruct I as [|i' I]; constructor.
      cbn [map app] in Hh. unfold op_compare, cdag in Hh. cbn [fst snd] in Hh.
      apply Nat.compare_lt_iff; exact Hh.
Qed.

(** ** Bit strings *)

Definition mem (i : nat) (l : list nat) : bool := existsb (Nat.eqb i) l.

Lemma mem_In : forall i l, mem i l = true <-> In i l.
Proof.
  intros i l. unfold mem. rewrite existsb_exists. split.
  - intros [x [Hx E]]. apply Nat.eqb_eq in E. subst; exact Hx.
  - intro H. exists i. split; [exact H|apply Nat.eqb_refl].
Qed.

Lemma mem_notIn : forall i l, ~ In i l -> mem i l = false.
Proof.
  intros i l H. destruct (mem i l) eqn:E; [|reflexivity]. apply mem_In in E. contradiction.
Qed.

Lemma count_occ_cons : forall b s, count_occ (b :: s) = (if b then 1 else 0) + count_occ s.
Proof. intros b s. unfold count_occ. cbn [filter]. destruct b; reflexivity. Qed.

Lemma count_occ_upd_false : forall i s, nth i s false = true ->
  S (count_occ (upd i false s)) = count_occ s.
Proof.
  induction i as [|i IH]; destruct s as [|b s]; cbn [nth upd]; intro H; try discriminate.
  - subst b. rewrite !count_occ_cons. reflexivity.
  - rewrite !count_occ_cons. rewrite <- (IH s H). lia.
Qed.

Lemma count_occ_upd_true : forall i s, i < length s -> nth i s false = false ->
  count_occ (upd i true s) = S (count_occ s).
Proof.
  induction i as [|i IH]; destruct s as [|b s]; cbn [nth upd length]; intros L H; try lia.
  - subst b. rewrite !count_occ_cons. reflexivity.
  - rewrite !count_occ_cons. rewrite (IH s) by (lia || exact H). lia.
Qed.

(** the state of length M whose occupied modes are exactly those of J *)
Definition st_of (M : nat) (J : list nat) : state := map (fun i => mem i J) (seq 0 M).

Lemma st_of_length : forall M J, length (st_of M J) = M.
Proof. intros. unfold st_of. rewrite map_length, seq_length. reflexivity. Qed.

Lemma nth_st_of : forall M J i, nth i (st_of M J) false = (i <? M) && mem i J.
Proof.
  intros M J i. destruct (i <? M) eqn:L.
  - apply Nat.ltb_lt in L. unfold st_of.
    rewrite (nth_indep _ false (mem 0 J)) by (rewrite map_length, seq_length; exact L).
    rewrite (map_nth (fun i => mem i J)). rewrite seq_nth by exact L. reflexivity.
  - apply Nat.ltb_ge in L. rewrite nth_overflow by (rewrite st_of_length; exact L). reflexivity.
Qed.

(** ** Action of a block of annihilators / creators *)

Lemma act_op_cann_inv : forall j s sg u, act_op (cann j) s = Done (Some (sg, u)) ->
  j < length s /\ nth j s false = true /\ u = upd j false s.
Proof.
  intros j s sg u. unfold act_op. cbn [op_idx op_ann cann fst snd negb].
  destruct (j <? length s) eqn:L; try discriminate. apply Nat.ltb_lt in L.
  destruct (nth j s false); cbn [eqb]; try discriminate.
  intro H; inversion H; auto.
Qed.

Lemma act_op_cdag_inv : forall j s sg u, act_op (cdag j) s = Done (Some (sg, u)) ->
  j < length s /\ nth j s false = false /\ u = upd j true s.
Proof.
  intros j s sg u. unfold act_op. cbn [op_idx op_ann cdag fst snd negb].
  destruct (j <? length s) eqn:L; try discriminate. apply Nat.ltb_lt in L.
  destruct (nth j s false); cbn [eqb]; try discriminate.
  intro H; inversion H; auto.
Qed.

Lemma act_canns : forall J s sg u, act_mono (map cann J) s = Done (Some (sg, u)) ->
  length u = length s /\
  (forall j, In j J -> nth j s false = true) /\
  (forall i, nth i u false = nth i s false && negb (mem i J)) /\
  count_occ u + length J = count_occ s.
Proof.
  induction J as [|j J IH]; intros s sg u; cbn [map act_mono].
  - intro H. assert (E : u = s) by congruence. subst u.
    repeat split; [intros j []| |cbn [length]; lia].
    intro i. unfold mem. cbn [existsb negb]. rewrite andb_true_r. reflexivity.
  - destruct (act_mono (map cann J) s) as [[[sg1 u1]|]| | | |] eqn:E1; try discriminate.
    destruct (act_op (cann j) u1) as [[[sg2 u2]|]| | | |] eqn:E2; try discriminate.
    intro H. assert (E : u2 = u) by congruence. subst u2. clear H.
    destruct (IH _ _ _ E1) as [L1 [O1 [N1 C1]]].
    destruct (act_op_cann_inv _ _ _ _ E2) as [Lj [Nj Eu]]. subst u.
    split; [rewrite upd_length; exact L1|]. split; [|split].
    + intros x [Ex|Hx]; [subst x|apply O1; exact Hx].
      rewrite N1 in Nj. apply andb_true_iff in Nj. tauto.
    + intro i. unfold mem. cbn [existsb]. destruct (Nat.eqb i j) eqn:Eij.
      * apply Nat.eqb_eq in Eij. subst i. rewrite nth_upd_same by exact Lj.
        cbn [orb negb]. rewrite andb_false_r. reflexivity.
      * apply Nat.eqb_neq in Eij. rewrite nth_upd_other by congruence. cbn [orb]. apply N1.
    + cbn [length]. rewrite <- C1, <- (count_occ_upd_false j u1 Nj). lia.
Qed.

Lemma act_cdags : forall I s sg u, act_mono (map cdag I) s = Done (Some (sg, u)) ->
  length u = length s /\
  (forall i, nth i u false = nth i s false || mem i I) /\
  count_occ u = count_occ s + length I.
Proof.
  induction I as [|j I IH]; intros s sg u; cbn [map act_mono].
  - intro H. assert (E : u = s) by congruence. subst u.
    repeat split; [|cbn [length]; lia].
    intro i. unfold mem. cbn [existsb]. rewrite orb_false_r. reflexivity.
  - destruct (act_mono (map cdag I) s) as [[[sg1 u1]|]| | | |] eqn:E1; try discriminate.
    destruct (act_op (cdag j) u1) as [[[sg2 u2]|]| | | |] eqn:E2; try discriminate.
    intro H. assert (E : u2 = u) by congruence. subst u2. clear H.
    destruct (IH _ _ _ E1) as [L1 [N1 C1]].
    destruct (act_op_cdag_inv _ _ _ _ E2) as [Lj [Nj Eu]]. subst u.
    split; [rewrite upd_length; exact L1|]. split.
    + intro i. unfold mem. cbn [existsb]. destruct (Nat.eqb i j) eqn:Eij.
      * apply Nat.eqb_eq in Eij. subst i. rewrite nth_upd_same by exact Lj.
        cbn [orb]. rewrite orb_true_r. reflexivity.
      * apply Nat.eqb_neq in Eij. rewrite nth_upd_other by congruence. cbn [orb]. apply N1.
    + cbn [length]. rewrite (count_occ_upd_true j u1 Lj Nj), C1. lia.
Qed.

Lemma act_canns_ex : forall J s, NoDup J ->
  (forall j, In j J -> j < length s /\ nth j s false = true) ->
  exists sg u, act_mono (map cann J) s = Done (Some (sg, u)).
Proof.
  induction J as [|j J IH]; intros s ND H; cbn [map act_mono].
  - eauto.
  - inversion ND as [|x l Hnin ND']; subst x l.
    destruct (IH s ND') as [sg1 [u1 E1]]; [intros; apply H; right; assumption|].
    rewrite E1. destruct (act_canns _ _ _ _ E1) as [L1 [_ [N1 _]]].
    destruct (H j (or_introl eq_refl)) as [Lj Nj].
    rewrite act_op_cann by (rewrite L1; exact Lj).
    rewrite N1, Nj, (mem_notIn _ _ Hnin). cbn [negb andb]. eauto.
Qed.

Lemma act_cdags_ex : forall I s, NoDup I ->
  (forall j, In j I -> j < length s /\ nth j s false = false) ->
  exists sg u, act_mono (map cdag I) s = Done (Some (sg, u)).
Proof.
  induction I as [|j I IH]; intros s ND H; cbn [map act_mono].
  - eauto.
  - inversion ND as [|x l Hnin ND']; subst x l.
    destruct (IH s ND') as [sg1 [u1 E1]]; [intros; apply H; right; assumption|].
    rewrite E1. destruct (act_cdags _ _ _ _ E1) as [L1 [N1 _]].
    destruct (H j (or_introl eq_refl)) as [Lj Nj].
    rewrite act_op_cdag by (rewrite L1; exact Lj).
    rewrite N1, Nj, (mem_notIn _ _ Hnin). cbn [orb]. eauto.
Qed.

(** ** The separating pair of states of a normal-ordered monomial *)

Lemma sep_exists : forall M I0 J0, Sorted lt I0 -> Sorted lt J0 ->
  (forall i, In i I0 -> i < M) -> (forall j, In j J0 -> j < M) ->
  exists sg0 t0, act_mono (map cdag I0 ++ map cann J0) (st_of M J0) = Done (Some (sg0, t0)).
Proof.
  intros M I0 J0 SI SJ RI RJ.
  destruct (act_canns_ex J0 (st_of M J0) (sorted_nodup _ SJ)) as [sga [u0 Ea]].
  { intros j Hj. rewrite st_of_length, nth_st_of.
    split; [apply RJ; exact Hj|].
    rewrite (proj2 (Nat.ltb_lt j M) (RJ j Hj)), (proj2 (mem_In j J0) Hj). reflexivity. }
  destruct (act_canns _ _ _ _ Ea) as [La [_ [Na _]]].
  destruct (act_cdags_ex I0 u0 (sorted_nodup _ SI)) as [sgc [t0 Ec]].
  { intros i Hi. rewrite La, st_of_length. split; [apply RI; exact Hi|].
    rewrite Na, nth_st_of. destruct (i <? M), (mem i J0); reflexivity. }
  rewrite act_mono_app', Ea, Ec. eauto.
Qed.

Lemma sep_unique : forall M I0 J0 I J sg0 sg t0,
  Sorted lt I0 -> Sorted lt J0 -> Sorted lt I -> Sorted lt J ->
  length I0 + length J0 <= length I + length J ->
  act_mono (map cdag I0 ++ map cann J0) (st_of M J0) = Done (Some (sg0, t0)) ->
  act_mono (map cdag I ++ map cann J) (st_of M J0) = Done (Some (sg, t0)) ->
  I = I0 /\ J = J0.
Proof.
  intros M I0 J0 I J sg0 sg t0 SI0 SJ0 SI SJ Hlen. rewrite !act_mono_app'.
  destruct (act_mono (map cann J0) (st_of M J0)) as [[[sga0 u0]|]| | | |] eqn:Ea0; try discriminate.
  destruct (act_mono (map cdag I0) u0) as [[[sgc0 t0']|]| | | |] eqn:Ec0; try discriminate.
  intro H. assert (E : t0' = t0) by congruence. subst t0'. clear H.
  destruct (act_mono (map cann J) (st_of M J0)) as [[[sga u]|]| | | |] eqn:Ea; try discriminate.
  destruct (act_mono (map cdag I) u) as [[[sgc t']|]| | | |] eqn:Ec; try discriminate.
  intro H. assert (E : t' = t0) by congruence. subst t'. clear H.
  destruct (act_canns _ _ _ _ Ea0) as [_ [_ [Na0 Ca0]]].
  destruct (act_cdags _ _ _ _ Ec0) as [_ [Nc0 Cc0]].
  destruct (act_canns _ _ _ _ Ea) as [_ [Oa [Na Ca]]].
  destruct (act_cdags _ _ _ _ Ec) as [_ [Nc Cc]].
  assert (HJ : J = J0).
  { apply sorted_ext; [exact SJ|exact SJ0|].
    assert (Inc : incl J J0).
    { intros j Hj. specialize (Oa j Hj). rewrite nth_st_of in Oa.
      apply andb_true_iff in Oa. apply mem_In. tauto. }
    assert (Inc' : incl J0 J).
    { apply NoDup_length_incl; [apply sorted_nodup; exact SJ | lia | exact Inc]. }
    intro x. split; [apply Inc|apply Inc']. }
  subst J. split; [|reflexivity].
  apply sorted_ext; [exact SI|exact SI0|].
  assert (Hu0 : forall i, nth i u0 false = false).
  { intro i. rewrite Na0, nth_st_of. destruct (i <? M), (mem i J0); reflexivity. }
  assert (Hu : forall i, nth i u false = false).
  { intro i. rewrite Na, nth_st_of. destruct (i <? M), (mem i J0); reflexivity. }
  intro x. rewrite <- !mem_In.
  specialize (Nc0 x). specialize (Nc x). rewrite Hu0 in Nc0. rewrite Hu in Nc.
  cbn [orb] in Nc0, Nc. rewrite <- Nc0, <- Nc. tauto.
Qed.

Section Complete.
Variable K : Type.
Variables (k0 k1 : K) (kadd kmul ksub : K -> K -> K) (kopp : K -> K).
Variable kzero : K -> bool.
Hypothesis Hring : ring_ok K k0 k1 kadd kmul ksub kopp kzero.

Let Rth : ring_theory k0 k1 kadd kmul ksub kopp (@eq K) := proj1 Hring.
Add Ring Kring3 : Rth.

Local Notation cm := (coef_mono K k0 k1 kopp).
Local Notation cp := (coef_poly K k0 k1 kadd kmul kopp).
Local Notation ksum := (@ksum K k0 kadd _).
Local Notation poly_eq := (poly_eq K ksub kzero).
Local Notation poly_in_range := (poly_in_range K).
Local Notation poly_sorted := (poly_sorted K).
Local Notation poly_normal := (poly_normal K).
Local Notation poly_nonzero := (poly_nonzero K k0).

Definition kunit (e : K) : Prop := e = k1 \/ e = kopp k1.

Lemma kunit_cancel : forall c e, kunit e -> kmul c e = k0 -> c = k0.
Proof.
  intros c e [E|E] H; subst e.
  - rewrite <- H. ring.
  - transitivity (kopp (kmul c (kopp k1))); [ring|]. rewrite H. ring.
Qed.

Lemma mono_compare_lt_facts : forall m0 m, mono_compare m0 m = Lt -> length m0 <= length m /\ m <> m0.
Proof.
  intros m0 m H. split.
  - unfold mono_compare in H. destruct (Nat.compare (length m0) (length m)) eqn:E; try discriminate.
    + apply Nat.compare_eq_iff in E. lia.
    + apply Nat.compare_lt_iff in E. lia.
  - intro E. subst m. rewrite AlgebraBasics.mono_compare_refl in H. discriminate.
Qed.

(** for every normal-ordered monomial m0 there is a pair of basis states on which m0 has
    matrix element +-1 while every polynomial made of normal-ordered monomials that come
    later in the map order has matrix element 0 *)
Lemma head_point : forall M m0, mono_normal m0 -> mono_in_range M m0 ->
  exists s0 t0 e, length s0 = M /\ length t0 = M /\ kunit e /\ cm m0 s0 t0 = e /\
  forall p : poly K, poly_normal p -> (forall mc, In mc p -> mono_compare m0 (fst mc) = Lt) ->
  cp p s0 t0 = k0.
Proof.
  intros M m0 Hn Hr. destruct (normal_split m0 Hn) as [I0 [J0 [E0 [SI0 SJ0]]]].
  assert (RI : forall i, In i I0 -> i < M).
  { intros i Hi. unfold mono_in_range in Hr. rewrite Forall_forall in Hr.
    apply (Hr (cdag i)). subst m0. apply in_or_app. left. apply in_map; exact Hi. }
  assert (RJ : forall j, In j J0 -> j < M).
  { intros j Hj. unfold mono_in_range in Hr. rewrite Forall_forall in Hr.
    apply (Hr (cann j)). subst m0. apply in_or_app. right. apply in_map; exact Hj. }
  destruct (sep_exists M I0 J0 SI0 SJ0 RI RJ) as [sg0 [t0 Ex]].
  exists (st_of M J0), t0, (if sg0 then kopp k1 else k1).
  split; [apply st_of_length|]. split.
  { apply act_mono_length in Ex. rewrite Ex. apply st_of_length. }
  split; [destruct sg0; [right|left]; reflexivity|].
  split.
  { subst m0. apply (cm_unit K k0 k1 kopp). exact Ex. }
  intros p Hp Hlt. rewrite (cp_ksum K k0 k1 kadd kmul kopp). apply (ksum_zero_ext K k0 k1 kadd kmul ksub kopp kzero Hring).
  intros [m c] Hin. cbn [fst snd].
  destruct (mono_compare_lt_facts m0 m (Hlt _ Hin)) as [Hlen Hne].
  unfold poly_normal in Hp. rewrite Forall_forall in Hp. specialize (Hp _ Hin). cbn [fst] in Hp.
  destruct (normal_split m Hp) as [I [J [E [SI SJ]]]].
  assert (Z : cm m (st_of M J0) t0 = k0); [|rewrite Z; ring].
  unfold coef_mono.
  destruct (act_mono m (st_of M J0)) as [[[sg t']|]| | | |] eqn:Ea; try reflexivity.
  destruct (state_eqb t' t0) eqn:Et; [|reflexivity].
  apply state_eqb_eq in Et. subst t'. exfalso. apply Hne.
  subst m m0. rewrite !app_length, !map_length in Hlen.
  destruct (sep_unique M I0 J0 I J sg0 sg t0 SI0 SJ0 SI SJ Hlen Ex Ea) as [EI EJ].
  subst; reflexivity.
Qed.

Lemma sorted_keys_above : forall (p : poly K) m c, poly_sorted ((m, c) :: p) ->
  forall mc, In mc p -> mono_compare m (fst mc) = Lt.
Proof.
  induction p as [|[m' c'] p IH]; intros m c H mc Hin; [destruct Hin|].
  change (mono_compare m m' = Lt /\ poly_sorted ((m', c') :: p)) in H. destruct H as [H1 H2].
  destruct Hin as [E|Hin]; [subst mc; exact H1|].
  eapply mono_compare_lt_trans; [exact H1|]. apply (IH m' c' H2 mc Hin).
Qed.

Lemma poly_sorted_tail : forall (p : poly K) mc, poly_sorted (mc :: p) -> poly_sorted p.
Proof. intros p [m c] H. cbn [PolySem.poly_sorted] in H. destruct H as [_ H]. exact H. Qed.

(** two well-formed maps with the same matrix are the same map *)
Lemma complete_eq : forall (M : nat) (a b : poly K),
  poly_sorted a -> poly_sorted b -> poly_normal a -> poly_normal b ->
  poly_nonzero a -> poly_nonzero b -> poly_in_range M a -> poly_in_range M b ->
  (forall s t, length s = M -> length t = M -> cp a s t = cp b s t) -> a = b.
Proof.
  intros M. induction a as [|[ma ca] a IH]; intros b Sa Sb Na Nb Za Zb Ra Rb H.
  - destruct b as [|[mb cb] b]; [reflexivity|]. exfalso.
    destruct (head_point M mb (Forall_inv Nb) (Forall_inv Rb)) as [s0 [t0 [e [Ls [Lt [Ue [Ee Hz]]]]]]].
    specialize (H s0 t0 Ls Lt). rewrite cp_cons, cp_nil in H. cbn [fst] in Ee. rewrite Ee in H.
    rewrite (Hz b (Forall_inv_tail Nb) (sorted_keys_above b mb cb Sb)) in H.
    apply (Forall_inv Zb). cbn [snd]. apply (kunit_cancel cb e Ue). rewrite H. ring.
  - destruct b as [|[mb cb] b].
    + exfalso.
      destruct (head_point M ma (Forall_inv Na) (Forall_inv Ra)) as [s0 [t0 [e [Ls [Lt [Ue [Ee Hz]]]]]]].
      specialize (H s0 t0 Ls Lt). rewrite cp_cons, cp_nil in H. cbn [fst] in Ee. rewrite Ee in H.
      rewrite (Hz a (Forall_inv_tail Na) (sorted_keys_above a ma ca Sa)) in H.
      apply (Forall_inv Za). cbn [snd]. apply (kunit_cancel ca e Ue). rewrite <- H. ring.
    + destruct (mono_compare ma mb) eqn:C.
      * apply AlgebraBasics.mono_compare_eq in C. subst mb.
        destruct (head_point M ma (Forall_inv Na) (Forall_inv Ra)) as [s0 [t0 [e [Ls [Lt [Ue [Ee Hz]]]]]]].
        assert (Ec : ca = cb).
        { pose proof (H s0 t0 Ls Lt) as H0. rewrite !cp_cons in H0. cbn [fst] in Ee. rewrite Ee in H0.
          rewrite (Hz a (Forall_inv_tail Na) (sorted_keys_above a ma ca Sa)) in H0.
          rewrite (Hz b (Forall_inv_tail Nb) (sorted_keys_above b ma cb Sb)) in H0.
          assert (D : ksub ca cb = k0).
          { apply (kunit_cancel _ e Ue).
            transitivity (ksub (kadd (kmul ca e) k0) (kadd (kmul cb e) k0)); [ring|].
            rewrite H0. ring. }
          transitivity (kadd cb (ksub ca cb)); [ring|]. rewrite D. ring. }
        subst cb. f_equal.
        apply IH; try (eapply poly_sorted_tail; eassumption);
          try (eapply Forall_inv_tail; eassumption).
        intros s t Ls' Lt'. pose proof (H s t Ls' Lt') as H1. rewrite !cp_cons in H1.
        transitivity (ksub (kadd (kmul ca (cm ma s t)) (cp a s t)) (kmul ca (cm ma s t))); [ring|].
        rewrite H1. ring.
      * exfalso.
        destruct (head_point M ma (Forall_inv Na) (Forall_inv Ra)) as [s0 [t0 [e [Ls [Lt [Ue [Ee Hz]]]]]]].
        specialize (H s0 t0 Ls Lt). rewrite cp_cons in H. cbn [fst] in Ee. rewrite Ee in H.
        rewrite (Hz a (Forall_inv_tail Na) (sorted_keys_above a ma ca Sa)) in H.
        rewrite (Hz ((mb, cb) :: b) Nb) in H.
        { apply (Forall_inv Za). cbn [snd]. apply (kunit_cancel ca e Ue). rewrite <- H. ring. }
        intros mc [E|Hin]; [subst mc; exact C|].
        eapply mono_compare_lt_trans; [exact C|]. apply (sorted_keys_above b mb cb Sb mc Hin).
      * exfalso. apply mono_compare_gt_lt in C.
        destruct (head_point M mb (Forall_inv Nb) (Forall_inv Rb)) as [s0 [t0 [e [Ls [Lt [Ue [Ee Hz]]]]]]].
        specialize (H s0 t0 Ls Lt). rewrite (cp_cons _ _ _ _ _ _ mb) in H. cbn [fst] in Ee. rewrite Ee in H.
        rewrite (Hz b (Forall_inv_tail Nb) (sorted_keys_above b mb cb Sb)) in H.
        rewrite (Hz ((ma, ca) :: a) Na) in H.
        { apply (Forall_inv Zb). cbn [snd]. apply (kunit_cancel cb e Ue). rewrite H. ring. }
        intros mc [E|Hin]; [subst mc; exact C|].
        eapply mono_compare_lt_trans; [exact C|]. apply (sorted_keys_above a ma ca Sa mc Hin).
Qed.

Lemma poly_eq_complete_gen : forall (M : nat) (a b : poly K),
  poly_sorted a -> poly_sorted b -> poly_normal a -> poly_normal b ->
  poly_nonzero a -> poly_nonzero b -> poly_in_range M a -> poly_in_range M b ->
  (forall s t, length s = M -> length t = M -> cp a s t = cp b s t) ->
  poly_eq true a b = Done true.
Proof.
  intros M a b Sa Sb Na Nb Za Zb Ra Rb H.
  rewrite (complete_eq M a b Sa Sb Na Nb Za Zb Ra Rb H).
  apply (poly_eq_refl K k0 k1 kadd kmul ksub kopp kzero Hring).
Qed.

End Complete.

Theorem poly_eq_complete : forall (K : Type) (k0 k1 : K) (kadd kmul ksub : K -> K -> K) (kopp : K -> K)
  (kzero : K -> bool), poly_eq_complete_stmt K k0 k1 kadd kmul ksub kopp kzero.
Proof.
  intros K k0 k1 kadd kmul ksub kopp kzero Hring _.
  apply (poly_eq_complete_gen K k0 k1 kadd kmul ksub kopp kzero Hring).
Qed.

(** * Examples: the hypotheses are satisfiable, the statements are not vacuous *)

Example pmul_c0_cdag0 :
  pmul Z Z.add Z.mul Z.opp (fun c => Z.eqb c 0) (p_c Z 1%Z 0) (p_cdag Z 1%Z 0) =
  Done [([], 1%Z); ([cdag 0; cann 0], (-1)%Z)].
Proof. vm_compute. reflexivity. Qed.

Example pmul_n0_n0 :
  pmul Z Z.add Z.mul Z.opp (fun c => Z.eqb c 0) (p_n Z 1%Z 0) (p_n Z 1%Z 0) = Done (p_n Z 1%Z 0).
Proof. vm_compute. reflexivity. Qed.

Example commutes_n0_n1 :
  commutes Z Z.add Z.mul Z.sub Z.opp (fun c => Z.eqb c 0) true (p_n Z 1%Z 0) (p_n Z 1%Z 1) = Done true.
Proof. vm_compute. reflexivity. Qed.

Example commutes_c0_n0 :
  commutes Z Z.add Z.mul Z.sub Z.opp (fun c => Z.eqb c 0) true (p_c Z 1%Z 0) (p_n Z 1%Z 0) = Done false.
Proof. vm_compute. reflexivity. Qed.

Example in_range_example : poly_in_range Z 2 (p_n_offdiag Z 1%Z 0 1).
Proof. repeat constructor. Qed.

(** pmul_sound instantiated: <10| c^+_0 c_1 |01> computed as a matrix product over the 4 states *)
Example pmul_sound_instance :
  ksum Z 0%Z Z.add (all_states 2)
       (fun u => Z.mul (coef_poly Z 0%Z 1%Z Z.add Z.mul Z.opp (p_cdag Z 1%Z 0) u [true; false])
                       (coef_poly Z 0%Z 1%Z Z.add Z.mul Z.opp (p_c Z 1%Z 1) [false; true] u)) = 1%Z.
Proof.
  rewrite <- (pmul_sound Z 0%Z 1%Z Z.add Z.mul Z.sub Z.opp _ Z_ring_ok 2
                (p_cdag Z 1%Z 0) (p_c Z 1%Z 1) [([cdag 0; cann 1], 1%Z)]);
    try reflexivity; repeat constructor.
Qed.

(** a well-formed map in the sense of poly_eq_complete *)
Example complete_hyps :
  let a : poly Z := [([cdag 0], 2%Z); ([cdag 0; cann 1], 3%Z)] in
  poly_sorted Z a /\ poly_normal Z a /\ poly_nonzero Z 0%Z a /\ poly_in_range Z 2 a.
Proof.
  cbv zeta. split; [cbn; auto|]. split; [repeat constructor|].
  split; [repeat constructor; discriminate|repeat constructor].
Qed.
